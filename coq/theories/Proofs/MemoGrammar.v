(* The memo-simulation (MemoSim.v) for every parser of the grammar model: one lemma per grammar
   function, in dependency order, mostly by the tactic [stac] (the analogue of [wtac]); then the
   knot over the fuel-indexed grammar at two independent fuel levels. *)
From GoldV Require Import Base Tokens Lexer AstKinds Tree Strings PComb Grammar MemoObs ParserWF GrammarWF MemoSim.
From Coq Require Import Lia.
Local Open Scope nat_scope.

Create HintDb sdb.

Ltac srec :=
  match goal with
  | H : SRec ?E ?n ?p ?q |- Sim ?E ?m ?rho ?p ?q => apply (Sim_weaken E m rho 3); [lia | apply H; lia]
  | H : Sim ?E ?n ?r ?p ?q |- Sim ?E ?m ?r' ?p ?q =>
      apply (Sim_weaken E m r' r); [lia | apply (Sim_mono E n m); [lia | exact H]]
  | H : SRec ?E ?n ?p ?q |- SRec ?E ?m ?p ?q => apply (SRec_mono E n m); [lia | exact H]
  end.
#[export] Hint Extern 1 (Sim _ _ _ _ _) => srec : sdb.
#[export] Hint Extern 1 (SRec _ _ _ _) => srec : sdb.
#[export] Hint Extern 1 (W _ _ _) => wrec : sdb.
#[export] Hint Extern 1 (Rec _ _) => wrec : sdb.
#[export] Hint Extern 1 (_ <= _) => lia : sdb.
#[export] Hint Extern 1 (_ < _) => lia : sdb.

Ltac stac :=
  intros; cbv beta iota zeta;
  lazymatch goal with
  | |- Sim _ _ _ (fun _ c => (Panic _, c)) _ => apply Sim_panic
  | |- Sim _ _ _ (bind _ _) (bind _ _) =>
      first [ eapply Sim_bind_strict; [ solve [wtac] | solve [stac] | intros ? ? ?; solve [stac] ]
            | eapply Sim_bind; [ solve [stac] | intros ?; solve [stac] ] ]
  | |- Sim _ _ _ (ret _) _ => apply Sim_ret
  | |- Sim _ _ _ (fail _) _ => apply Sim_fail
  | |- Sim _ _ _ (prepend _ _) _ => apply Sim_prepend; solve [stac]
  | |- Sim _ _ _ (opt _) _ => apply Sim_opt; solve [stac]
  | |- Sim _ _ _ (recover_at_error _) _ => apply Sim_recover_at_error; solve [stac]
  | |- Sim _ _ _ (sep_list _ _) _ => apply Sim_sep_list; solve [stac]
  | |- Sim _ _ _ (until_w_ctx _ _) _ => apply Sim_until; solve [stac]
  | |- Sim _ _ _ (until_strict _ _) _ => apply Sim_until_strict; solve [stac]
  | |- Sim _ _ _ (until_no_match _) _ => apply Sim_until_no_match; solve [stac]
  | |- Sim _ _ _ (repeat_w_ctx _) _ => apply Sim_repeat; solve [stac]
  | |- Sim _ _ _ (take_until _) _ => apply Sim_take_until
  | |- Sim _ _ _ (with_ctx (add_diag _)) _ => apply Sim_with_ctx_add_diag
  | |- Sim _ _ _ (exp_token _) _ => apply Sim_exp_token
  | |- Sim _ _ _ (exp_ident_with_value _) _ => apply Sim_exp_ident_with_value
  | |- Sim _ _ _ (tok_alt _) _ => apply Sim_tok_alt
  | |- Sim _ _ _ (seq_tokens _) _ => apply Sim_seq_tokens
  | |- Sim _ _ _ (sep_tokens _ _) _ => apply Sim_sep_tokens
  | |- Sim _ _ _ (binops _ _) _ => apply Sim_binops; solve [stac]
  | |- Sim _ _ _ (alt _) (alt _) => apply Sim_alt; repeat (apply Forall2_cons || apply Forall2_nil); solve [stac]
  | |- Sim _ _ _ (match ?x with _ => _ end) _ => destruct x; solve [stac]
  | |- Sim _ _ _ ?p _ => first [ srec | solve [eauto 4 with sdb] ]
  | |- SRec _ _ _ _ => srec
  end.

Lemma Sim_parse_comment E n rho : Sim E n rho parse_comment parse_comment.
Proof. unfold parse_comment. stac. Qed.
#[export] Hint Resolve Sim_parse_comment : sdb.

Lemma Sim_parse_annotations E n rho : Sim E n rho parse_annotations parse_annotations.
Proof. unfold parse_annotations, annotation_body. stac. Qed.
#[export] Hint Resolve Sim_parse_annotations : sdb.

Lemma Sim_parse_literal_basic E n rho : Sim E n rho parse_literal_basic parse_literal_basic.
Proof. unfold parse_literal_basic. stac. Qed.
#[export] Hint Resolve Sim_parse_literal_basic : sdb.

Lemma Sim_parse_ident_token E n rho : Sim E n rho parse_ident_token parse_ident_token.
Proof. unfold parse_ident_token. stac. Qed.
#[export] Hint Resolve Sim_parse_ident_token : sdb.

Lemma Sim_parse_identifier E n rho : Sim E n rho parse_identifier parse_identifier.
Proof. unfold parse_identifier. stac. Qed.
#[export] Hint Resolve Sim_parse_identifier : sdb.

Lemma Sim_parse_type_basic E n rho : Sim E n rho parse_type_basic parse_type_basic.
Proof. unfold parse_type_basic. stac. Qed.
#[export] Hint Resolve Sim_parse_type_basic : sdb.

Lemma Sim_parse_enum_variant E n rho : Sim E n rho parse_enum_variant parse_enum_variant.
Proof. unfold parse_enum_variant. stac. Qed.
#[export] Hint Resolve Sim_parse_enum_variant : sdb.

Lemma Sim_parse_type_sized E n rho : Sim E n rho parse_type_sized parse_type_sized.
Proof. unfold parse_type_sized. stac. Qed.
#[export] Hint Resolve Sim_parse_type_sized : sdb.

Lemma Sim_parse_type_enum E n rho : Sim E n rho parse_type_enum parse_type_enum.
Proof. unfold parse_type_enum. stac. Qed.
#[export] Hint Resolve Sim_parse_type_enum : sdb.

Lemma Sim_parse_type_composed E n rho : Sim E n rho parse_type_composed parse_type_composed.
Proof. unfold parse_type_composed. stac. Qed.
#[export] Hint Resolve Sim_parse_type_composed : sdb.

Lemma Sim_parse_type_reference_options E n rho : Sim E n rho parse_type_reference_options parse_type_reference_options.
Proof. unfold parse_type_reference_options. stac. Qed.
#[export] Hint Resolve Sim_parse_type_reference_options : sdb.

Lemma Sim_parse_type_reference E n rho : Sim E n rho parse_type_reference parse_type_reference.
Proof. unfold parse_type_reference. stac. Qed.
#[export] Hint Resolve Sim_parse_type_reference : sdb.

Lemma Sim_parse_type_range E n rho : Sim E n rho parse_type_range parse_type_range.
Proof. unfold parse_type_range. stac. Qed.
#[export] Hint Resolve Sim_parse_type_range : sdb.

Lemma Sim_parse_type_set E n rho : Sim E n rho parse_type_set parse_type_set.
Proof. unfold parse_type_set. stac. Qed.
#[export] Hint Resolve Sim_parse_type_set : sdb.

Lemma Sim_parse_type_pointer E n rho : Sim E n rho parse_type_pointer parse_type_pointer.
Proof. unfold parse_type_pointer. stac. Qed.
#[export] Hint Resolve Sim_parse_type_pointer : sdb.

Lemma Sim_parse_type_array_index E n rho : Sim E n rho parse_type_array_index parse_type_array_index.
Proof. unfold parse_type_array_index. stac. Qed.
#[export] Hint Resolve Sim_parse_type_array_index : sdb.

Lemma Sim_parse_type_array E n rho : Sim E n rho parse_type_array parse_type_array.
Proof. unfold parse_type_array. stac. Qed.
#[export] Hint Resolve Sim_parse_type_array : sdb.

Lemma Sim_parse_type_instanceof E n rho : Sim E n rho parse_type_instanceof parse_type_instanceof.
Proof. unfold parse_type_instanceof. stac. Qed.
#[export] Hint Resolve Sim_parse_type_instanceof : sdb.

Lemma Sim_parse_type_record_field E n rho rec rec' :
  Rec n rec -> SRec E n rec rec' ->
  Sim E n rho (parse_type_record_field rec) (parse_type_record_field rec').
Proof. intros. unfold parse_type_record_field. stac. Qed.
#[export] Hint Resolve Sim_parse_type_record_field : sdb.

Lemma Sim_parse_type_record E n rho rec rec' :
  Rec n rec -> SRec E n rec rec' ->
  Sim E n rho (parse_type_record rec) (parse_type_record rec').
Proof. intros. unfold parse_type_record. stac. Qed.
#[export] Hint Resolve Sim_parse_type_record : sdb.

Lemma Sim_parse_parameter_declaration E n rho rec rec' :
  Rec n rec -> SRec E n rec rec' ->
  Sim E n rho (parse_parameter_declaration rec) (parse_parameter_declaration rec').
Proof. intros. unfold parse_parameter_declaration. stac. Qed.
#[export] Hint Resolve Sim_parse_parameter_declaration : sdb.

Lemma Sim_parse_parameter_declaration_list E n rho rec rec' :
  Rec n rec -> SRec E n rec rec' ->
  Sim E n rho (parse_parameter_declaration_list rec) (parse_parameter_declaration_list rec').
Proof. intros. unfold parse_parameter_declaration_list. stac. Qed.
#[export] Hint Resolve Sim_parse_parameter_declaration_list : sdb.

Lemma Sim_parse_type_procedure E n rho rec rec' :
  Rec n rec -> SRec E n rec rec' ->
  Sim E n rho (parse_type_procedure rec) (parse_type_procedure rec').
Proof. intros. unfold parse_type_procedure. stac. Qed.
#[export] Hint Resolve Sim_parse_type_procedure : sdb.

Lemma Sim_parse_type_function E n rho rec rec' :
  Rec n rec -> SRec E n rec rec' ->
  Sim E n rho (parse_type_function rec) (parse_type_function rec').
Proof. intros. unfold parse_type_function. stac. Qed.
#[export] Hint Resolve Sim_parse_type_function : sdb.

Lemma Sim_parse_type_body E n rho rec rec' :
  Rec n rec -> SRec E n rec rec' ->
  Sim E n rho (parse_type_body rec) (parse_type_body rec').
Proof. intros. unfold parse_type_body. stac. Qed.
#[export] Hint Resolve Sim_parse_type_body : sdb.

Lemma Sim_parse_constant_declaration E n rho : Sim E n rho parse_constant_declaration parse_constant_declaration.
Proof. unfold parse_constant_declaration. stac. Qed.
#[export] Hint Resolve Sim_parse_constant_declaration : sdb.

Lemma Sim_parse_uses E n rho : Sim E n rho parse_uses parse_uses.
Proof. unfold parse_uses. stac. Qed.
#[export] Hint Resolve Sim_parse_uses : sdb.

Lemma Sim_parse_type_declaration E n rho ptype ptype' :
  W n true ptype -> Sim E n rho ptype ptype' ->
  Sim E n rho (parse_type_declaration ptype) (parse_type_declaration ptype').
Proof. intros. unfold parse_type_declaration. stac. Qed.
#[export] Hint Resolve Sim_parse_type_declaration : sdb.

Lemma Sim_parse_local_var_decl E n rho ptype ptype' :
  W n true ptype -> Sim E n rho ptype ptype' ->
  Sim E n rho (parse_local_var_decl ptype) (parse_local_var_decl ptype').
Proof. intros. unfold parse_local_var_decl. stac. Qed.
#[export] Hint Resolve Sim_parse_local_var_decl : sdb.

Lemma Sim_parse_literal_set E n rho rp rp' :
  Rec n rp -> SRec E n rp rp' ->
  Sim E n rho (parse_literal_set rp) (parse_literal_set rp').
Proof. intros. unfold parse_literal_set. stac. Qed.
#[export] Hint Resolve Sim_parse_literal_set : sdb.

Lemma Sim_parse_literals E n rho rp rp' :
  Rec n rp -> SRec E n rp rp' ->
  Sim E n rho (parse_literals rp) (parse_literals rp').
Proof. intros. unfold parse_literals. stac. Qed.
#[export] Hint Resolve Sim_parse_literals : sdb.

Lemma Sim_parse_array_access E n rho re re' :
  Rec n re -> SRec E n re re' ->
  Sim E n rho (parse_array_access re) (parse_array_access re').
Proof. intros. unfold parse_array_access. stac. Qed.
#[export] Hint Resolve Sim_parse_array_access : sdb.

Lemma Sim_parse_bracket_closure E n rho re re' :
  Rec n re -> SRec E n re re' ->
  Sim E n rho (parse_bracket_closure re) (parse_bracket_closure re').
Proof. intros. unfold parse_bracket_closure. stac. Qed.
#[export] Hint Resolve Sim_parse_bracket_closure : sdb.

Lemma Sim_parse_unary_op_pre E n rho rp rp' :
  Rec n rp -> SRec E n rp rp' ->
  Sim E n rho (parse_unary_op_pre rp) (parse_unary_op_pre rp').
Proof. intros. unfold parse_unary_op_pre. stac. Qed.
#[export] Hint Resolve Sim_parse_unary_op_pre : sdb.

(* ---------- the memoised parsers: only inside a method body (environment BodyEnv) ---------- *)

Lemma Sim_method_call_body E n rho re re' :
  Rec n re -> SRec E n re re' -> Sim E n rho (method_call_body re) (method_call_body re').
Proof. intros. unfold method_call_body. stac. Qed.
#[export] Hint Resolve Sim_method_call_body : sdb.

Lemma W_method_call_body n re : Rec n re -> W n true (method_call_body re).
Proof. intros. unfold method_call_body. wtac. Qed.
#[export] Hint Resolve W_method_call_body : wdb.

(* the recursive expression entry of the memo-on side is related to the expression parser of EVERY
   sufficient fuel level of the memo-off side *)
Definition ERecAll (E : Env) (n : nat) (re : P node) : Prop :=
  forall m g, m < n -> m < g -> Sim E m 3 re (g_expr (gram g)).

Lemma ERecAll_mono E n m re : m <= n -> ERecAll E n re -> ERecAll E m re.
Proof. intros Hm H k g Hk Hg. apply H; lia. Qed.

Lemma ERecAll_SRec E n m re g : m <= n -> m <= g -> ERecAll E n re -> SRec E m re (g_expr (gram g)).
Proof. intros Hm Hg H k Hk. apply H; lia. Qed.

Ltac erec :=
  match goal with
  | H : ERecAll ?E ?n ?re |- ERecAll ?E ?m ?re => apply (ERecAll_mono E n m); [lia | exact H]
  | H : ERecAll ?E ?n ?re |- SRec ?E ?m ?re (g_expr (gram ?g)) => apply (ERecAll_SRec E n m re g); [lia | lia | exact H]
  | H : ERecAll ?E ?n ?re |- Sim ?E ?m ?rho ?re (g_expr (gram ?g)) =>
      apply (Sim_weaken E m rho 3); [lia | apply H; lia]
  end.
#[export] Hint Extern 1 (ERecAll _ _ _) => erec : sdb.
#[export] Hint Extern 2 (SRec _ _ _ (g_expr (gram _))) => erec : sdb.
#[export] Hint Extern 2 (Sim _ _ _ _ (g_expr (gram _))) => erec : sdb.

Section InBody.
  Variable body : input.
  Variable base : list (N * N).
  Let BE := BodyEnv body base.

  Lemma Sim_parse_method_call n rho re g0 :
    1 <= rho -> Rec n re -> ERecAll BE n re -> n <= g0 ->
    Sim BE n rho (parse_method_call re) (parse_method_call (g_expr (gram g0))).
  Proof.
    intros Hr HR HA Hg. rewrite !parse_method_call_eq.
    change (method_call_body (g_expr (gram g0))) with (ubody CACHE_METHOD_CALL g0).
    apply Sim_memo; auto.
    - reflexivity.
    - apply W_method_call_body; exact HR.
    - intros m g Hm Hmg. change (ubody CACHE_METHOD_CALL g) with (method_call_body (g_expr (gram g))).
      apply Sim_method_call_body; [wrec | erec].
  Qed.
  Hint Resolve Sim_parse_method_call : sdb.

  Lemma Sim_parse_dot_op n rho re g0 :
    1 <= rho -> Rec n re -> ERecAll BE n re -> n <= g0 ->
    Sim BE n rho (parse_dot_op re) (parse_dot_op (g_expr (gram g0))).
  Proof. intros. unfold parse_dot_op. stac. Qed.
  Hint Resolve Sim_parse_dot_op : sdb.

  Lemma Sim_parse_dot_ops n rho re g0 :
    1 <= rho -> Rec n re -> ERecAll BE n re -> n <= g0 ->
    Sim BE n rho (parse_dot_ops re) (parse_dot_ops (g_expr (gram g0))).
  Proof. intros. unfold parse_dot_ops. stac. Qed.
  Hint Resolve Sim_parse_dot_ops : sdb.

  Lemma Sim_parse_unary_op_post n rho re g0 :
    1 <= rho -> Rec n re -> ERecAll BE n re -> n <= g0 ->
    Sim BE n rho (parse_unary_op_post re) (parse_unary_op_post (g_expr (gram g0))).
  Proof. intros. unfold parse_unary_op_post. stac. Qed.
  Hint Resolve Sim_parse_unary_op_post : sdb.

  Lemma Sim_parse_unary_op n rho re rp rp' g0 :
    1 <= rho -> Rec n re -> Rec n rp -> ERecAll BE n re -> SRec BE n rp rp' -> n <= g0 ->
    Sim BE n rho (parse_unary_op re rp) (parse_unary_op (g_expr (gram g0)) rp').
  Proof. intros. unfold parse_unary_op. stac. Qed.
  Hint Resolve Sim_parse_unary_op : sdb.

  Lemma Sim_primary_alts n rho re rp rp' g0 :
    1 <= rho -> Rec n re -> Rec n rp -> ERecAll BE n re -> SRec BE n rp rp' -> n <= g0 ->
    Sim BE n rho (primary_alts re rp) (primary_alts (g_expr (gram g0)) rp').
  Proof. intros. unfold primary_alts. stac. Qed.
End InBody.
#[export] Hint Resolve Sim_parse_method_call Sim_parse_dot_op Sim_parse_dot_ops Sim_parse_unary_op_post Sim_parse_unary_op : sdb.

Lemma Sim_parse_factors E n rho prim prim' :
  W n true prim -> Sim E n rho prim prim' ->
  Sim E n rho (parse_factors prim) (parse_factors prim').
Proof. intros. unfold parse_factors. stac. Qed.
#[export] Hint Resolve Sim_parse_factors : sdb.

Lemma Sim_parse_terms E n rho prim prim' :
  W n true prim -> Sim E n rho prim prim' ->
  Sim E n rho (parse_terms prim) (parse_terms prim').
Proof. intros. unfold parse_terms. stac. Qed.
#[export] Hint Resolve Sim_parse_terms : sdb.

Lemma Sim_parse_bit_ops_1 E n rho prim prim' :
  W n true prim -> Sim E n rho prim prim' ->
  Sim E n rho (parse_bit_ops_1 prim) (parse_bit_ops_1 prim').
Proof. intros. unfold parse_bit_ops_1. stac. Qed.
#[export] Hint Resolve Sim_parse_bit_ops_1 : sdb.

Lemma Sim_parse_bit_ops_2 E n rho prim prim' :
  W n true prim -> Sim E n rho prim prim' ->
  Sim E n rho (parse_bit_ops_2 prim) (parse_bit_ops_2 prim').
Proof. intros. unfold parse_bit_ops_2. stac. Qed.
#[export] Hint Resolve Sim_parse_bit_ops_2 : sdb.

Lemma Sim_parse_shifts E n rho prim prim' :
  W n true prim -> Sim E n rho prim prim' ->
  Sim E n rho (parse_shifts prim) (parse_shifts prim').
Proof. intros. unfold parse_shifts. stac. Qed.
#[export] Hint Resolve Sim_parse_shifts : sdb.

Lemma Sim_parse_compare E n rho prim prim' :
  W n true prim -> Sim E n rho prim prim' ->
  Sim E n rho (parse_compare prim) (parse_compare prim').
Proof. intros. unfold parse_compare. stac. Qed.
#[export] Hint Resolve Sim_parse_compare : sdb.

Lemma Sim_parse_logical_and E n rho prim prim' :
  W n true prim -> Sim E n rho prim prim' ->
  Sim E n rho (parse_logical_and prim) (parse_logical_and prim').
Proof. intros. unfold parse_logical_and. stac. Qed.
#[export] Hint Resolve Sim_parse_logical_and : sdb.

Lemma Sim_parse_logical_or E n rho prim prim' :
  W n true prim -> Sim E n rho prim prim' ->
  Sim E n rho (parse_logical_or prim) (parse_logical_or prim').
Proof. intros. unfold parse_logical_or. stac. Qed.
#[export] Hint Resolve Sim_parse_logical_or : sdb.

Lemma Sim_parse_asterisk E n rho : Sim E n rho parse_asterisk parse_asterisk.
Proof. unfold parse_asterisk. stac. Qed.
#[export] Hint Resolve Sim_parse_asterisk : sdb.

Lemma Sim_parse_top_n E n rho : Sim E n rho parse_top_n parse_top_n.
Proof. unfold parse_top_n. stac. Qed.
#[export] Hint Resolve Sim_parse_top_n : sdb.

Lemma Sim_parse_oql_method_call E n rho : Sim E n rho parse_oql_method_call parse_oql_method_call.
Proof. unfold parse_oql_method_call. stac. Qed.
#[export] Hint Resolve Sim_parse_oql_method_call : sdb.

Lemma Sim_parse_select_item E n rho pd pd' :
  W n true pd -> Sim E n rho pd pd' ->
  Sim E n rho (parse_select_item pd) (parse_select_item pd').
Proof. intros. unfold parse_select_item. stac. Qed.
#[export] Hint Resolve Sim_parse_select_item : sdb.

Lemma Sim_parse_join_item E n rho pc pc' :
  W n true pc -> Sim E n rho pc pc' ->
  Sim E n rho (parse_join_item pc) (parse_join_item pc').
Proof. intros. unfold parse_join_item. stac. Qed.
#[export] Hint Resolve Sim_parse_join_item : sdb.

Lemma Sim_parse_from_item E n rho pc pc' :
  W n true pc -> Sim E n rho pc pc' ->
  Sim E n rho (parse_from_item pc) (parse_from_item pc').
Proof. intros. unfold parse_from_item. stac. Qed.
#[export] Hint Resolve Sim_parse_from_item : sdb.

Lemma Sim_parse_where E n rho pe pe' :
  W n true pe -> Sim E n rho pe pe' ->
  Sim E n rho (parse_where pe) (parse_where pe').
Proof. intros. unfold parse_where. stac. Qed.
#[export] Hint Resolve Sim_parse_where : sdb.

Lemma Sim_parse_order_by_item E n rho pd pd' :
  W n true pd -> Sim E n rho pd pd' ->
  Sim E n rho (parse_order_by_item pd) (parse_order_by_item pd').
Proof. intros. unfold parse_order_by_item. stac. Qed.
#[export] Hint Resolve Sim_parse_order_by_item : sdb.

Lemma Sim_parse_order_by E n rho pd pd' :
  W n true pd -> Sim E n rho pd pd' ->
  Sim E n rho (parse_order_by pd) (parse_order_by pd').
Proof. intros. unfold parse_order_by. stac. Qed.
#[export] Hint Resolve Sim_parse_order_by : sdb.

Lemma Sim_parse_using E n rho : Sim E n rho parse_using parse_using.
Proof. unfold parse_using. stac. Qed.
#[export] Hint Resolve Sim_parse_using : sdb.

Lemma Sim_parse_oql_select E n rho pe pd pc pe' pd' pc' :
  W n true pe -> W n true pd -> W n true pc -> Sim E n rho pe pe' -> Sim E n rho pd pd' -> Sim E n rho pc pc' ->
  Sim E n rho (parse_oql_select pe pd pc) (parse_oql_select pe' pd' pc').
Proof. intros. unfold parse_oql_select. stac. Qed.
#[export] Hint Resolve Sim_parse_oql_select : sdb.

Lemma Sim_parse_oql_fetch E n rho pd pd' :
  W n true pd -> Sim E n rho pd pd' ->
  Sim E n rho (parse_oql_fetch pd) (parse_oql_fetch pd').
Proof. intros. unfold parse_oql_fetch. stac. Qed.
#[export] Hint Resolve Sim_parse_oql_fetch : sdb.

Lemma Sim_parse_oql_expr E n rho pe pd pc pe' pd' pc' :
  W n true pe -> W n true pd -> W n true pc -> Sim E n rho pe pe' -> Sim E n rho pd pd' -> Sim E n rho pc pc' ->
  Sim E n rho (parse_oql_expr pe pd pc) (parse_oql_expr pe' pd' pc').
Proof. intros. unfold parse_oql_expr. stac. Qed.
#[export] Hint Resolve Sim_parse_oql_expr : sdb.

Lemma Sim_parse_assignment E n rho pd pe pd' pe' :
  W n true pd -> W n true pe -> Sim E n rho pd pd' -> Sim E n rho pe pe' ->
  Sim E n rho (parse_assignment pe pd) (parse_assignment pe' pd').
Proof. intros. unfold parse_assignment. stac. Qed.
#[export] Hint Resolve Sim_parse_assignment : sdb.

(* ---------- if blocks ---------- *)

Lemma Sim_if_loop E n rho pe pe' rs rs' : Sim E n rho pe pe' -> Sim E n rho rs rs' -> forall fuel it cur done,
  Sim E n rho (if_loop pe rs fuel it cur done) (if_loop pe' rs' fuel it cur done).
Proof.
  intros Hpe Hrs. induction fuel as [|f IH]; intros it cur done i c Hd Hi Hc; cbn [if_loop]; [apply StepM_ret; [exact I|exact Hc]|].
  destruct i as [|t0 i']; [apply StepM_ret; [apply Suffix_refl|exact Hc]|].
  eapply StepM_case.
  - apply (Sim_until E n rho _ _ _ _ (Sim_tok_alt E n rho _) Hrs); auto.
  - intros r [nodes endt] c1 _ Hs Hc1. cbv beta iota zeta. destruct endt as [t|].
    + destruct (tt_eqb (tty t) TEndIf || tt_eqb (tty t) TEnd); [apply StepM_ret; auto|].
      destruct (tt_eqb (tty t) TElseIf).
      * eapply StepM_case.
        -- eapply StepM_weaken; [exact Hs|left; apply le_n|]. apply Hpe; try sfx_side; auto.
        -- intros r2 cond c2 _ Hs2 Hc2. step_rec IH Hs2.
        -- intros. apply StepM_ret; auto.
      * destruct (tt_eqb (tty t) TElse); [step_rec IH Hs|apply StepM_ret; auto].
    + add_diag_tac Hc1. step_rec IH Hs. apply Inv_add_diag; auto.
  - intros. apply StepM_ret; auto.
Qed.

Lemma Sim_parse_if_block E n rho pe pe' rs rs' :
  W n true pe -> Rec n rs -> Sim E n rho pe pe' -> SRec E n rs rs' ->
  Sim E n rho (parse_if_block pe rs) (parse_if_block pe' rs').
Proof.
  intros Wpe Rrs Hpe Hrs. unfold parse_if_block.
  eapply Sim_bind_strict; [wtac|stac|]. intros it m Hm.
  eapply Sim_bind; [stac|]. intros cond.
  eapply Sim_bind; [|intros [[cur done] endt]; stac].
  intros i c Hd Hi Hc. apply (Sim_if_loop E m 3 pe pe' rs rs'); auto; stac.
Qed.
#[export] Hint Resolve Sim_parse_if_block : sdb.

Lemma Sim_parse_to_op E n rho : Sim E n rho parse_to_op parse_to_op.
Proof. unfold parse_to_op. stac. Qed.
#[export] Hint Resolve Sim_parse_to_op : sdb.

Lemma Sim_parse_separated_values E n rho : Sim E n rho parse_separated_values parse_separated_values.
Proof. unfold parse_separated_values. stac. Qed.
#[export] Hint Resolve Sim_parse_separated_values : sdb.

Lemma Sim_parse_when_expr E n rho : Sim E n rho parse_when_expr parse_when_expr.
Proof. unfold parse_when_expr. stac. Qed.
#[export] Hint Resolve Sim_parse_when_expr : sdb.

Lemma Sim_parse_when_block E n rho rs rs' :
  Rec n rs -> SRec E n rs rs' ->
  Sim E n rho (parse_when_block rs) (parse_when_block rs').
Proof. intros. unfold parse_when_block. stac. Qed.
#[export] Hint Resolve Sim_parse_when_block : sdb.

Lemma Sim_parse_switch_else_block E n rho rs rs' :
  W n true rs -> Sim E n rho rs rs' ->
  Sim E n rho (parse_switch_else_block rs) (parse_switch_else_block rs').
Proof. intros. unfold parse_switch_else_block. stac. Qed.
#[export] Hint Resolve Sim_parse_switch_else_block : sdb.

Lemma Sim_parse_switch_block E n rho pe rs pe' rs' :
  W n true pe -> Rec n rs -> Sim E n rho pe pe' -> SRec E n rs rs' ->
  Sim E n rho (parse_switch_block pe rs) (parse_switch_block pe' rs').
Proof. intros. unfold parse_switch_block. stac. Qed.
#[export] Hint Resolve Sim_parse_switch_block : sdb.

Lemma Sim_parse_for_block E n rho pe rs pe' rs' :
  W n true pe -> Rec n rs -> Sim E n rho pe pe' -> SRec E n rs rs' ->
  Sim E n rho (parse_for_block pe rs) (parse_for_block pe' rs').
Proof. intros. unfold parse_for_block. stac. Qed.
#[export] Hint Resolve Sim_parse_for_block : sdb.

Lemma Sim_parse_foreach_block E n rho pe pd pc rs pe' pd' pc' rs' :
  W n true pe -> W n true pd -> W n true pc -> Rec n rs -> Sim E n rho pe pe' -> Sim E n rho pd pd' -> Sim E n rho pc pc' -> SRec E n rs rs' ->
  Sim E n rho (parse_foreach_block pe pd pc rs) (parse_foreach_block pe' pd' pc' rs').
Proof. intros. unfold parse_foreach_block. stac. Qed.
#[export] Hint Resolve Sim_parse_foreach_block : sdb.

Lemma Sim_parse_while_block E n rho pe rs pe' rs' :
  W n true pe -> Rec n rs -> Sim E n rho pe pe' -> SRec E n rs rs' ->
  Sim E n rho (parse_while_block pe rs) (parse_while_block pe' rs').
Proof. intros. unfold parse_while_block. stac. Qed.
#[export] Hint Resolve Sim_parse_while_block : sdb.

Lemma Sim_parse_loop_block E n rho rs rs' :
  Rec n rs -> SRec E n rs rs' ->
  Sim E n rho (parse_loop_block rs) (parse_loop_block rs').
Proof. intros. unfold parse_loop_block. stac. Qed.
#[export] Hint Resolve Sim_parse_loop_block : sdb.

Lemma Sim_parse_repeat_block E n rho pe rs pe' rs' :
  W n true pe -> Rec n rs -> Sim E n rho pe pe' -> SRec E n rs rs' ->
  Sim E n rho (parse_repeat_block pe rs) (parse_repeat_block pe' rs').
Proof. intros. unfold parse_repeat_block. stac. Qed.
#[export] Hint Resolve Sim_parse_repeat_block : sdb.

Lemma Sim_parse_return_statement E n rho pe pe' :
  W n true pe -> Sim E n rho pe pe' ->
  Sim E n rho (parse_return_statement pe) (parse_return_statement pe').
Proof. intros. unfold parse_return_statement. stac. Qed.
#[export] Hint Resolve Sim_parse_return_statement : sdb.

Lemma Sim_parse_control_statements E n rho pe pe' :
  W n true pe -> Sim E n rho pe pe' ->
  Sim E n rho (parse_control_statements pe) (parse_control_statements pe').
Proof. intros. unfold parse_control_statements. stac. Qed.
#[export] Hint Resolve Sim_parse_control_statements : sdb.

(* ---------- statements ---------- *)

Lemma Sim_try_blocks E n rho ps qs : Forall2 (Sim E n rho) ps qs ->
  forall best i c, Dom E i -> length i <= n -> Inv E c -> best_sfx i best ->
    StepM E i rho (try_blocks qs best i) c (try_blocks ps best i c) /\
    match fst (try_blocks ps best i c) with Ok _ (_, b) => best_sfx i b | _ => True end.
Proof.
  induction 1 as [|p q ps qs Hp Hps IH]; intros best i c Hd Hi Hc Hb; cbn [try_blocks].
  - split; [apply StepM_ret; [apply Suffix_refl|exact Hc]|exact Hb].
  - split.
    + eapply StepM_case.
      * apply Hp; auto.
      * intros. apply StepM_ret; auto.
      * intros e m c1 _ Hs Hc1. apply IH; auto.
        destruct best as [[be bm]|]; [destruct (ilen e <? ilen be)%N|]; simpl; auto.
    + destruct (Hp i c Hd Hi Hc) as (w & nw & _ & S & I1 & _).
      destruct (p i c) as [[r a|e m|s|] c1]; cbn [fst snd] in *; auto.
      apply IH; auto. destruct best as [[be bm]|]; [destruct (ilen e <? ilen be)%N|]; simpl; auto.
Qed.

Lemma Sim_stmt_body_shape E n rho ps ps' qs qs' :
  Forall2 (Sim E n rho) ps ps' -> Sim E n rho (alt qs) (alt qs') ->
  Sim E n rho (stmt_body_shape ps qs) (stmt_body_shape ps' qs').
Proof.
  intros Hps Ha i c Hd Hi Hc. unfold stmt_body_shape.
  destruct (Sim_try_blocks E n rho ps ps' Hps None i c Hd Hi Hc I) as [T1 T2].
  eapply StepM_case.
  - exact T1.
  - intros r [[nd|] best] c1 Eq Hs Hc1; cbv beta iota.
    + apply StepM_ret; auto.
    + rewrite Eq in T2. cbn [fst] in T2.
      destruct (Ha i c1 Hd Hi Hc1) as (w & nw & O & S & I1 & D & Ev & K).
      destruct (alt qs i c1) as [[r2 a2|e2 m2|s2|] c2] eqn:Ea; cbn [fst snd] in *; exists w, nw; cbn [fst snd].
      * refine (conj _ (conj S (conj I1 (conj D (conj Ev K))))).
        intros c' Hm. destruct (O c' Hm) as (c1' & X & M1 & Y). exists c1'. rewrite X. auto.
      * destruct best as [[be bm]|]; [destruct (ilen e2 <? ilen be)%N eqn:El|]; cbn [fst snd];
          (refine (conj _ (conj _ (conj I1 (conj D (conj Ev K)))));
           [intros c' Hm; destruct (O c' Hm) as (c1' & X & M1 & Y); exists c1'; rewrite X; rewrite ?El; auto | auto]).
      * refine (conj _ (conj S (conj I1 (conj D (conj Ev K))))).
        intros c' Hm. destruct (O c' Hm) as (c1' & X & M1 & Y). exists c1'. rewrite X. auto.
      * refine (conj _ (conj S (conj I1 (conj D (conj Ev K))))).
        intros c' Hm. destruct (O c' Hm) as (c1' & X & M1 & Y). exists c1'. rewrite X. auto.
  - intros. apply StepM_ret; auto.
Qed.

Lemma Sim_parse_statement_body E n rho pt pt' pe pe' pd pd' pc pc' rs rs' :
  W n true pt -> W n true pe -> W n true pd -> W n true pc -> Rec n rs ->
  Sim E n rho pt pt' -> Sim E n rho pe pe' -> Sim E n rho pd pd' -> Sim E n rho pc pc' -> SRec E n rs rs' ->
  Sim E n rho (parse_statement_body pt pe pd pc rs) (parse_statement_body pt' pe' pd' pc' rs').
Proof.
  intros.
  change (parse_statement_body pt pe pd pc rs) with
    (stmt_body_shape
       [parse_if_block pe rs; parse_for_block pe rs; parse_foreach_block pe pd pc rs; parse_while_block pe rs;
        parse_loop_block rs; parse_switch_block pe rs; parse_repeat_block pe rs]
       [parse_comment; parse_uses; parse_constant_declaration; parse_type_declaration pt;
        parse_local_var_decl pt; parse_control_statements pe; parse_oql_expr pe pd pc;
        parse_assignment pe pd; pe]).
  change (parse_statement_body pt' pe' pd' pc' rs') with
    (stmt_body_shape
       [parse_if_block pe' rs'; parse_for_block pe' rs'; parse_foreach_block pe' pd' pc' rs'; parse_while_block pe' rs';
        parse_loop_block rs'; parse_switch_block pe' rs'; parse_repeat_block pe' rs']
       [parse_comment; parse_uses; parse_constant_declaration; parse_type_declaration pt';
        parse_local_var_decl pt'; parse_control_statements pe'; parse_oql_expr pe' pd' pc';
        parse_assignment pe' pd'; pe']).
  apply Sim_stmt_body_shape.
  - repeat (apply Forall2_cons || apply Forall2_nil); stac.
  - stac.
Qed.
#[export] Hint Resolve Sim_parse_statement_body : sdb.

Lemma Sim_parse_method_external E n rho : Sim E n rho parse_method_external parse_method_external.
Proof. unfold parse_method_external. stac. Qed.
#[export] Hint Resolve Sim_parse_method_external : sdb.


(* ---------- the knot ---------- *)

Lemma g_type_S f : g_type (gram (S f)) = parse_type_body (g_type (gram f)).
Proof. reflexivity. Qed.
Lemma g_primary_S f : g_primary (gram (S f)) = memo CACHE_PRIMARY (ubody CACHE_PRIMARY f).
Proof. reflexivity. Qed.
Lemma g_expr_S f : g_expr (gram (S f)) = memo CACHE_EXPR (ubody CACHE_EXPR f).
Proof. reflexivity. Qed.
Lemma g_stmt_S f :
  g_stmt (gram (S f)) =
  parse_statement_body (g_type (gram (S f))) (g_expr (gram (S f))) (parse_dot_ops (g_expr (gram f)))
                       (parse_compare (g_primary (gram (S f)))) (g_stmt (gram f)).
Proof. reflexivity. Qed.
Lemma ubody_0 g : ubody CACHE_PRIMARY g = primary_alts (g_expr (gram g)) (g_primary (gram g)).
Proof. reflexivity. Qed.
Lemma ubody_1 g : ubody CACHE_EXPR g = expr_alts (g_primary (gram (S g))).
Proof. reflexivity. Qed.

Lemma gram_Rec f n : n <= f ->
  Rec n (g_type (gram f)) /\ Rec n (g_expr (gram f)) /\ Rec n (g_primary (gram f)) /\ Rec n (g_stmt (gram f)).
Proof.
  intro Hn. unfold Rec. refine (conj _ (conj _ (conj _ _))); intros m Hm;
    destruct (gram_W f m ltac:(lia)) as (A & B & C & D); assumption.
Qed.

(* types: in any environment (they reach no memoised parser) *)
Theorem gram_type_Sim E : forall f n rho, n < f -> forall g, n < g ->
  Sim E n rho (g_type (gram f)) (g_type (gram g)).
Proof.
  induction f as [|f IH]; intros n rho Hn g Hg; [lia|]. destruct g as [|g]; [lia|].
  rewrite !g_type_S. apply Sim_parse_type_body.
  - apply (gram_Rec f n). lia.
  - intros m Hm. apply IH; lia.
Qed.

Lemma W_primary_alts n re rp : Rec n re -> Rec n rp -> W n true (primary_alts re rp).
Proof. intros. unfold primary_alts. wtac. Qed.

Lemma W_expr_alts n prim : W n true prim -> W n true (expr_alts prim).
Proof. intros. unfold expr_alts. wtac. Qed.

(* expressions, primaries and statements inside the body [body]; the memo-on side at fuel level f,
   the memo-off side at ANY fuel level g, both above the input length *)
Theorem gram_Sim body base : forall f n, n < f -> forall g, n < g ->
  Sim (BodyEnv body base) n 3 (g_expr (gram f)) (g_expr (gram g)) /\
  (forall rho, 2 <= rho -> Sim (BodyEnv body base) n rho (g_primary (gram f)) (g_primary (gram g))) /\
  Sim (BodyEnv body base) n 3 (g_stmt (gram f)) (g_stmt (gram g)).
Proof.
  set (BE := BodyEnv body base).
  induction f as [|f IH]; intros n Hn g Hg; [lia|]. destruct g as [|g']; [lia|].
  destruct (gram_Rec f n ltac:(lia)) as (Rt & Re & Rp & Rs).
  destruct (gram_W (S f) n Hn) as (Wt & We & Wp & Ws).
  assert (ERecAll BE n (g_expr (gram f))) as HA.
  { intros m g1 Hm Hg1. apply IH; lia. }
  assert (forall m g1, m <= n -> m <= g1 -> SRec BE m (g_primary (gram f)) (g_primary (gram g1))) as HP.
  { intros m g1 Hm Hg1 k Hk. apply IH; lia. }
  assert (forall g1, n <= g1 -> SRec BE n (g_stmt (gram f)) (g_stmt (gram g1))) as HS.
  { intros g1 Hg1 m Hm. apply IH; lia. }
  (* (A) the alternatives of parse_primary *)
  assert (forall m g1, m <= n -> m <= g1 -> Sim BE m 1 (ubody CACHE_PRIMARY f) (ubody CACHE_PRIMARY g1)) as U0.
  { intros m g1 Hm Hg1. rewrite !ubody_0. apply Sim_primary_alts; try lia.
    - apply (Rec_mono n m); [lia|exact Re].
    - apply (Rec_mono n m); [lia|exact Rp].
    - apply (ERecAll_mono BE n m); [lia|exact HA].
    - apply HP; lia. }
  (* (B) parse_primary *)
  assert (forall m g1 rho, m <= n -> m <= g1 -> 2 <= rho ->
            Sim BE m rho (g_primary (gram (S f))) (g_primary (gram (S g1)))) as HB.
  { intros m g1 rho Hm Hg1 Hrho. rewrite !g_primary_S. apply Sim_memo; try lia.
    - reflexivity.
    - simpl. lia.
    - rewrite ubody_0. apply W_primary_alts; [apply (Rec_mono n m); [lia|exact Re]|apply (Rec_mono n m); [lia|exact Rp]].
    - intros m' g2 Hm' Hg2. apply U0; lia. }
  (* (C) the alternatives of parse_expr *)
  assert (forall m g1, m <= n -> m <= g1 -> Sim BE m 2 (ubody CACHE_EXPR f) (ubody CACHE_EXPR g1)) as U1.
  { intros m g1 Hm Hg1. rewrite !ubody_1. unfold expr_alts. apply Sim_alt.
    apply Forall2_cons; [|apply Forall2_nil]. apply Sim_parse_logical_or.
    - apply (W_mono n m); [lia|exact Wp].
    - apply HB; lia. }
  (* (D) parse_expr *)
  assert (Sim BE n 3 (g_expr (gram (S f))) (g_expr (gram (S g')))) as HD.
  { rewrite !g_expr_S. apply Sim_memo; try lia.
    - reflexivity.
    - simpl. lia.
    - rewrite ubody_1. apply W_expr_alts. exact Wp.
    - intros m g2 Hm Hg2. apply U1; lia. }
  refine (conj HD (conj _ _)).
  - intros rho Hrho. apply HB; lia.
  - rewrite !g_stmt_S. apply Sim_parse_statement_body; auto.
    + apply W_parse_dot_ops. exact Re.
    + apply W_parse_compare. exact Wp.
    + apply gram_type_Sim; lia.
    + apply Sim_parse_dot_ops; auto; lia.
    + apply Sim_parse_compare; [exact Wp|]. apply HB; lia.
    + apply HS. lia.
Qed.
