(* C15 / C16 lifted to the ASSEMBLED diagnostics response (Model/Report.v):
     report t pd   the items of ProjectManager::generate_document_diagnostic_report, in order, for the
                   syntax tree t and the document's parser diagnostics pd
   For ALL trees and ALL parser-diagnostic lists:
     - report is a permutation of the six sources' own lists (the per-checker model functions of
       Model/UnusedVar.v and Model/Lints.v that the theorems of C15 / C16 are about);
     - more precisely: for each source, the sub-list of the response that comes from that source (told by
       the message) IS that source's own list: same items, same multiplicities, same order
       (report_part); hence nothing dropped, nothing invented, nothing doubled;
     - order: the parser's items first in parser order, then all of UnusedVarAnalyzer's, then all of
       FunctionReturnTypeChecker's, then the shared collector = per node of the pre-order listing the
       pushes of unpurged, naming, inherited (v2_walk_eq);
     - any number of requests on one document return that same list;
     - locality: a top-level declaration m contributes contrib m, a function of m's subtree alone. *)
From GoldV Require Import Base Tokens Lexer AstKinds Tree Report.
From GoldV Require UnusedVar Lints UnusedVarProofs LintsProofs.
From Coq Require Import Permutation.

Module U := UnusedVar.
Module L := Lints.
Module UP := UnusedVarProofs.
Module LP := LintsProofs.

(* ========================================================================================== *)
(* 1. the shared collector: one walk, three visitors per node                                  *)
(* ========================================================================================== *)

(* what the three visitors push at one node (p = its chain of parents and the node), in push order *)
Definition node_verdicts (p : list node * node) : list L.diag :=
  LP.unp_verdict (snd p) ++ LP.name_verdict (fst p) (snd p) ++ LP.inh_verdict (snd p).

Lemma v2_visit_verdict c anc n out : v2_visit c anc n out = out ++ node_verdicts (anc, n).
Proof.
  unfold v2_visit, node_verdicts. cbn [fst snd].
  rewrite LP.inh_visit_verdict, (LP.name_visit_app c anc n), LP.name_visit_verdict, LP.unp_visit_verdict.
  rewrite <- !app_assoc. reflexivity.
Qed.

(* the collector's content, exactly: the pre-order listing, per node unpurged / naming / inherited *)
Theorem v2_walk_eq t : v2_walk t = flat_map node_verdicts (LP.pre [] t).
Proof.
  unfold v2_walk, L.run2. rewrite LP.walk2_fold.
  assert (G : forall l cs, snd (fold_left (LP.step2 v2_visit) l cs) = snd cs ++ flat_map node_verdicts l).
  { induction l as [|[anc n] l IH]; intro cs; cbn [fold_left flat_map].
    - rewrite app_nil_r. reflexivity.
    - rewrite IH. unfold LP.step2 at 1. cbn [fst snd]. rewrite v2_visit_verdict, app_assoc. reflexivity. }
  rewrite G. reflexivity.
Qed.

Lemma unpurged_lint_pre t : L.unpurged_lint t = flat_map (fun p => LP.unp_verdict (snd p)) (LP.pre [] t).
Proof.
  unfold L.unpurged_lint.
  rewrite (LP.run2_append L.unp_visit LP.unp_verdict) by (intros; apply LP.unp_visit_verdict).
  rewrite <- (LP.map_snd_pre t []), LP.flat_map_map. reflexivity.
Qed.

Lemma inherited_lint_pre t : L.inherited_lint t = flat_map (fun p => LP.inh_verdict (snd p)) (LP.pre [] t).
Proof.
  unfold L.inherited_lint.
  rewrite (LP.run2_append L.inh_visit LP.inh_verdict) by (intros; apply LP.inh_visit_verdict).
  rewrite <- (LP.map_snd_pre t []), LP.flat_map_map. reflexivity.
Qed.

Lemma naming_lint_pre t : L.naming_lint t = flat_map (fun p => LP.name_verdict (fst p) (snd p)) (LP.pre [] t).
Proof. apply LP.naming_lint_spec. Qed.

(* the interleaving is a permutation of the three checkers' own reports one after the other *)
Theorem v2_walk_perm t :
  Permutation (v2_walk t) (L.unpurged_lint t ++ L.naming_lint t ++ L.inherited_lint t).
Proof.
  rewrite v2_walk_eq, unpurged_lint_pre, inherited_lint_pre, naming_lint_pre. unfold node_verdicts.
  apply Permutation_sym.
  eapply Permutation_trans; [apply Permutation_app_head; apply LP.perm_flat_map_app|].
  apply (LP.perm_flat_map_app (fun p => LP.unp_verdict (snd p))
                              (fun p => LP.name_verdict (fst p) (snd p) ++ LP.inh_verdict (snd p))).
Qed.

(* ========================================================================================== *)
(* 2. (a) the response is a permutation of the six sources                                    *)
(* ========================================================================================== *)

Theorem report_permutation t pd :
  Permutation (report t pd)
    (map of_pdiag pd ++ map of_uv (U.analyze_today t) ++ map of_lint (L.ret_type_lint t) ++
     map of_lint (L.unpurged_lint t) ++ map of_lint (L.naming_lint t) ++ map of_lint (L.inherited_lint t)).
Proof.
  unfold report, v1_report. rewrite <- !app_assoc.
  do 3 apply Permutation_app_head.
  rewrite <- !map_app. apply Permutation_map. apply v2_walk_perm.
Qed.

(* the same with the rule checkers' part written as the report C16 is about *)
Corollary report_permutation_lints t pd :
  Permutation (report t pd) (map of_pdiag pd ++ map of_uv (U.analyze_today t) ++ map of_lint (L.lints t)).
Proof.
  eapply Permutation_trans; [apply report_permutation|].
  unfold L.lints, L.lints_v2. rewrite !map_app. apply Permutation_refl.
Qed.

(* ========================================================================================== *)
(* 3. which source an item comes from: told by its message                                     *)
(* ========================================================================================== *)

Definition lorigin (c : L.dclass) : N :=
  match c with L.RET => 2 | L.PURGE => 3 | L.INH => 5 | _ => 4 end.

(* 0 parser, 1 UnusedVarAnalyzer, 2 FunctionReturnTypeChecker, 3 UnpurgedVarByteArrayChecker,
   4 NamingConventionChecker, 5 InheritedChecker *)
Definition origin (d : diag) : N :=
  match d_msg d with
  | MParser _ => 0
  | MUnused _ _ => 1
  | MLint c _ => lorigin c
  end.

Definition own_report (k : N) (t : node) (pd : list pdiag) : list diag :=
  if k =? 0 then map of_pdiag pd
  else if k =? 1 then alone_unused t
  else if k =? 2 then alone_ret t
  else if k =? 3 then alone_unpurged t
  else if k =? 4 then alone_naming t
  else if k =? 5 then alone_inherited t
  else [].

Definition part (k : N) (l : list diag) : list diag := filter (fun d => origin d =? k) l.

Lemma filter_uniform {A} (f : A -> N) (a k : N) (l : list A) :
  Forall (fun x => f x = a) l -> filter (fun x => f x =? k) l = if a =? k then l else [].
Proof.
  induction l as [|x l IH]; intro H; [destruct (a =? k); reflexivity|].
  inversion_clear H as [|? ? Hx Hl]. cbn [filter]. rewrite (IH Hl), Hx.
  destruct (a =? k); reflexivity.
Qed.

Lemma part_map_lint k l :
  part k (map of_lint l) = map of_lint (filter (fun x => lorigin (L.dcls x) =? k) l).
Proof.
  unfold part. induction l as [|x l IH]; [reflexivity|]. cbn [map filter].
  change (origin (of_lint x)) with (lorigin (L.dcls x)).
  destruct (lorigin (L.dcls x) =? k); cbn [map]; rewrite IH; reflexivity.
Qed.

(* ---- the class of what each visitor pushes ---- *)
Lemma unp_verdict_class n : Forall (fun x => lorigin (L.dcls x) = 3) (LP.unp_verdict n).
Proof.
  unfold LP.unp_verdict. destruct (L.is_method n); [|constructor].
  unfold L.unpurged_diags. apply Forall_forall. intros x Hx. apply in_flat_map in Hx.
  destruct Hx as (e & _ & He). destruct (L.is_purged_name _ _); [destruct He|].
  destruct He as [<-|[]]. reflexivity.
Qed.

Lemma inh_verdict_class n : Forall (fun x => lorigin (L.dcls x) = 5) (LP.inh_verdict n).
Proof.
  unfold LP.inh_verdict. destruct (L.is_method n); [|constructor].
  destruct (_ && _); constructor; [reflexivity | constructor].
Qed.

Lemma name_verdict_class anc n : Forall (fun x => lorigin (L.dcls x) = 4) (LP.name_verdict anc n).
Proof.
  unfold LP.name_verdict, LP.name_classes. cbn [flat_map].
  repeat (apply Forall_app; split);
    try (match goal with |- Forall _ (if ?b then _ else _) => destruct b end;
         [constructor; [reflexivity | constructor] | constructor]).
  constructor.
Qed.

Lemma ret_verdict_class f : Forall (fun x => lorigin (L.dcls x) = 2) (LP.ret_verdict f).
Proof.
  apply Forall_forall. intros x Hx. apply LP.ret_verdict_spec in Hx.
  destruct Hx as (_ & rt & tk & key & _ & _ & _ & _ & _ & ->). reflexivity.
Qed.

Lemma Forall_flat_map {A B} (P : B -> Prop) (g : A -> list B) l :
  (forall x, In x l -> Forall P (g x)) -> Forall P (flat_map g l).
Proof.
  intro H. apply Forall_forall. intros y Hy. apply in_flat_map in Hy. destruct Hy as (x & Hx & Hy).
  specialize (H x Hx). rewrite Forall_forall in H. apply H. exact Hy.
Qed.

Lemma ret_type_lint_class t : Forall (fun x => lorigin (L.dcls x) = 2) (L.ret_type_lint t).
Proof. rewrite LP.ret_type_lint_body. apply Forall_flat_map. intros f _. apply ret_verdict_class. Qed.

(* the sub-list of the collector that one checker pushed is that checker's own report *)
Lemma v2_part k t :
  filter (fun x => lorigin (L.dcls x) =? k) (v2_walk t) =
  if k =? 3 then L.unpurged_lint t else if k =? 4 then L.naming_lint t else if k =? 5 then L.inherited_lint t else [].
Proof.
  rewrite v2_walk_eq, unpurged_lint_pre, naming_lint_pre, inherited_lint_pre.
  rewrite LP.filter_flat_map.
  assert (E : forall p, filter (fun x => lorigin (L.dcls x) =? k) (node_verdicts p) =
                        (if 3 =? k then LP.unp_verdict (snd p) else []) ++
                        (if 4 =? k then LP.name_verdict (fst p) (snd p) else []) ++
                        (if 5 =? k then LP.inh_verdict (snd p) else [])).
  { intro p. unfold node_verdicts. rewrite !filter_app.
    rewrite (filter_uniform (fun x => lorigin (L.dcls x)) 3 k _ (unp_verdict_class (snd p))).
    rewrite (filter_uniform (fun x => lorigin (L.dcls x)) 4 k _ (name_verdict_class (fst p) (snd p))).
    rewrite (filter_uniform (fun x => lorigin (L.dcls x)) 5 k _ (inh_verdict_class (snd p))).
    reflexivity. }
  rewrite (LP.flat_map_ext_in _ _ _ (fun p _ => E p)).
  destruct (N.eqb_spec k 3) as [->|N3]; [cbn [N.eqb Pos.eqb]; apply LP.flat_map_ext_in; intros p _; rewrite app_nil_r; reflexivity|].
  destruct (N.eqb_spec k 4) as [->|N4]; [cbn [N.eqb Pos.eqb]; apply LP.flat_map_ext_in; intros p _; rewrite app_nil_r; reflexivity|].
  destruct (N.eqb_spec k 5) as [->|N5]; [cbn [N.eqb Pos.eqb]; apply LP.flat_map_ext_in; intros p _; reflexivity|].
  destruct (N.eqb_spec 3 k) as [E3|_]; [congruence|].
  destruct (N.eqb_spec 4 k) as [E4|_]; [congruence|].
  destruct (N.eqb_spec 5 k) as [E5|_]; [congruence|].
  induction (LP.pre [] t) as [|p l IH]; [reflexivity | exact IH].
Qed.

(* ========================================================================================== *)
(* 4. (b) nothing dropped, nothing invented, nothing doubled, each source in its own order     *)
(* ========================================================================================== *)

(* for every source k: the items of the response that come from k, in the order of the response, are k's own
   list -- the same items, as often, in the same order *)
Theorem report_part k t pd : part k (report t pd) = own_report k t pd.
Proof.
  unfold report, v1_report, own_report, alone_unused, alone_ret, alone_unpurged, alone_naming, alone_inherited.
  unfold part at 1. rewrite !filter_app. fold (part k (map of_lint (L.ret_type_lint t))).
  fold (part k (map of_lint (v2_walk t))). rewrite !part_map_lint.
  rewrite (filter_uniform origin 0 k (map of_pdiag pd)) by (apply Forall_forall; intros x Hx; apply in_map_iff in Hx; destruct Hx as (y & <- & _); reflexivity).
  rewrite (filter_uniform origin 1 k (map of_uv (U.analyze_today t))) by (apply Forall_forall; intros x Hx; apply in_map_iff in Hx; destruct Hx as (y & <- & _); reflexivity).
  rewrite (filter_uniform (fun x => lorigin (L.dcls x)) 2 k _ (ret_type_lint_class t)).
  rewrite v2_part.
  destruct (N.eqb_spec k 0) as [->|N0]; [cbn [N.eqb Pos.eqb map app]; rewrite ?app_nil_r; reflexivity|].
  destruct (N.eqb_spec k 1) as [->|N1]; [cbn [N.eqb Pos.eqb map app]; rewrite ?app_nil_r; reflexivity|].
  destruct (N.eqb_spec k 2) as [->|N2]; [cbn [N.eqb Pos.eqb map app]; rewrite ?app_nil_r; reflexivity|].
  destruct (N.eqb_spec 0 k) as [E|_]; [congruence|].
  destruct (N.eqb_spec 1 k) as [E|_]; [congruence|].
  destruct (N.eqb_spec 2 k) as [E|_]; [congruence|].
  cbn [map app].
  destruct (k =? 3); [reflexivity|]. destruct (k =? 4); [reflexivity|]. destruct (k =? 5); reflexivity.
Qed.

Lemma origin_range d t pd : In d (report t pd) -> (origin d <= 5)%N.
Proof.
  intro H. unfold origin. destruct (d_msg d) as [m|c key|c key]; cbn; try lia. destruct c; cbn; lia.
Qed.

(* decidable equality of items, for multiplicities *)
Lemma pos_eq_dec : forall a b : pos, {a = b} + {a <> b}.
Proof. decide equality; apply N.eq_dec. Defined.
Lemma range_eq_dec : forall a b : range, {a = b} + {a <> b}.
Proof. decide equality; apply pos_eq_dec. Defined.
Lemma str_eq_dec : forall a b : str, {a = b} + {a <> b}.
Proof. apply list_eq_dec. apply N.eq_dec. Defined.
Lemma dclass_eq_dec : forall a b : L.dclass, {a = b} + {a <> b}.
Proof. decide equality. Defined.
Lemma dmsg_eq_dec : forall a b : dmsg, {a = b} + {a <> b}.
Proof. decide equality; try apply str_eq_dec; try apply N.eq_dec; apply dclass_eq_dec. Defined.
Definition diag_eq_dec : forall a b : diag, {a = b} + {a <> b}.
Proof. decide equality; try apply str_eq_dec; try apply N.eq_dec; try apply range_eq_dec; apply dmsg_eq_dec. Defined.

Lemma count_occ_filter_same (p : diag -> bool) l d :
  p d = true -> count_occ diag_eq_dec (filter p l) d = count_occ diag_eq_dec l d.
Proof.
  intro Hp. induction l as [|x l IH]; [reflexivity|]. cbn [filter].
  destruct (diag_eq_dec x d) as [->|Hne].
  - rewrite Hp. rewrite !count_occ_cons_eq by reflexivity. rewrite IH. reflexivity.
  - rewrite (count_occ_cons_neq _ l Hne). destruct (p x); [rewrite (count_occ_cons_neq _ _ Hne)|]; exact IH.
Qed.

(* an item appears in the response exactly as often as its own checker reports it *)
Theorem report_multiplicity t pd d :
  count_occ diag_eq_dec (report t pd) d = count_occ diag_eq_dec (own_report (origin d) t pd) d.
Proof.
  rewrite <- report_part. unfold part. symmetry. apply count_occ_filter_same. apply N.eqb_refl.
Qed.

Corollary report_multiplicity_sum t pd d :
  count_occ diag_eq_dec (report t pd) d =
  (count_occ diag_eq_dec (map of_pdiag pd) d + count_occ diag_eq_dec (alone_unused t) d +
   count_occ diag_eq_dec (alone_ret t) d + count_occ diag_eq_dec (alone_unpurged t) d +
   count_occ diag_eq_dec (alone_naming t) d + count_occ diag_eq_dec (alone_inherited t) d)%nat.
Proof.
  pose proof (report_permutation t pd) as HP.
  rewrite (proj1 (Permutation_count_occ diag_eq_dec _ _) HP d).
  rewrite !count_occ_app. unfold alone_unused, alone_ret, alone_unpurged, alone_naming, alone_inherited. lia.
Qed.

(* nothing dropped, nothing invented *)
Theorem report_in_iff t pd d :
  In d (report t pd) <->
  In d (map of_pdiag pd) \/ In d (alone_unused t) \/ In d (alone_ret t) \/
  In d (alone_unpurged t) \/ In d (alone_naming t) \/ In d (alone_inherited t).
Proof.
  rewrite <- !in_app_iff. split; intro H.
  - eapply Permutation_in; [apply report_permutation | exact H].
  - eapply Permutation_in; [apply Permutation_sym; apply report_permutation | exact H].
Qed.

Theorem report_in_own t pd d : In d (report t pd) <-> In d (own_report (origin d) t pd).
Proof.
  rewrite (count_occ_In diag_eq_dec), (count_occ_In diag_eq_dec), report_multiplicity. reflexivity.
Qed.

(* a warning its checker flags once is in the response exactly once *)
Corollary report_flagged_once t pd d :
  count_occ diag_eq_dec (own_report (origin d) t pd) d = 1%nat -> count_occ diag_eq_dec (report t pd) d = 1%nat.
Proof. intro H. rewrite report_multiplicity. exact H. Qed.

(* two items of different checkers (whatever their ranges) are both in the response *)
Corollary report_both_rules t pd x y :
  In x (L.lints t) -> In y (L.lints t) -> In (of_lint x) (report t pd) /\ In (of_lint y) (report t pd).
Proof.
  assert (G : forall z, In z (L.lints t) -> In (of_lint z) (report t pd)).
  { intros z Hz. eapply Permutation_in; [apply Permutation_sym; apply report_permutation_lints|].
    apply in_or_app. right. apply in_or_app. right. apply in_map. exact Hz. }
  intros Hx Hy. split; apply G; assumption.
Qed.

Corollary report_unused_in t pd x :
  In x (U.analyze_today t) <-> In (of_uv x) (report t pd).
Proof.
  rewrite report_in_own. change (origin (of_uv x)) with 1%N. unfold own_report. cbn [N.eqb].
  unfold alone_unused. split; [apply in_map|]. intro H. apply in_map_iff in H. destruct H as (y & E & Hy).
  assert (y = x); [|subst; exact Hy].
  destruct x, y. unfold of_uv in E. cbn in E. inversion E. subst. reflexivity.
Qed.

(* ========================================================================================== *)
(* 5. (c) order facts; the response is a function of (t, pd); repeating the request            *)
(* ========================================================================================== *)

(* the parser's diagnostics first, in the parser's order; nothing of the parser after them *)
Theorem report_parser_first t pd :
  firstn (length pd) (report t pd) = map of_pdiag pd /\
  Forall (fun d => origin d <> 0%N) (skipn (length pd) (report t pd)).
Proof.
  unfold report.
  assert (E : length pd = length (map of_pdiag pd)) by (rewrite map_length; reflexivity).
  rewrite E, firstn_app, Nat.sub_diag, firstn_all, skipn_app, Nat.sub_diag, skipn_all. cbn [firstn skipn app].
  rewrite app_nil_r. split; [reflexivity|].
  unfold v1_report. repeat (apply Forall_app; split); apply Forall_forall; intros x Hx;
    apply in_map_iff in Hx; destruct Hx as (y & <- & _); cbn; try discriminate.
  - destruct (L.dcls y); discriminate.
  - destruct (L.dcls y); discriminate.
Qed.

(* then the groups in the fixed order: all of UnusedVarAnalyzer's (in its own order), all of
   FunctionReturnTypeChecker's (in its own order), then the shared collector, which is an order-preserving
   interleaving of the three annotated-tree checkers' own reports *)
Theorem report_groups t pd :
  exists shared,
    report t pd = map of_pdiag pd ++ alone_unused t ++ alone_ret t ++ shared /\
    shared = map of_lint (flat_map node_verdicts (LP.pre [] t)) /\
    Permutation shared (alone_unpurged t ++ alone_naming t ++ alone_inherited t) /\
    part 3 shared = alone_unpurged t /\ part 4 shared = alone_naming t /\ part 5 shared = alone_inherited t.
Proof.
  exists (map of_lint (v2_walk t)). split; [unfold report, v1_report; rewrite <- !app_assoc; reflexivity|].
  split; [rewrite v2_walk_eq; reflexivity|].
  split; [unfold alone_unpurged, alone_naming, alone_inherited; rewrite <- !map_app; apply Permutation_map; apply v2_walk_perm|].
  rewrite !part_map_lint, !v2_part. repeat split; reflexivity.
Qed.

(* requests on one document *)
Definition rdoc_ok (d : rdoc) : Prop :=
  r_cache d = None \/ r_cache d = Some (v1_report (r_ast d)).

Lemma request_ok d :
  rdoc_ok d ->
  fst (request d) = report (r_ast d) (r_pd d) /\ rdoc_ok (snd (request d)) /\
  r_ast (snd (request d)) = r_ast d /\ r_pd (snd (request d)) = r_pd d.
Proof.
  intros [H|H]; unfold request; rewrite H; cbn [fst snd r_ast r_pd r_cache];
    (split; [reflexivity | split; [right; reflexivity | split; reflexivity]]).
Qed.

Fixpoint requests (n : nat) (d : rdoc) : list (list diag) :=
  match n with
  | O => []
  | S n' => fst (request d) :: requests n' (snd (request d))
  end.

(* repeating the request repeats the same list, item by item *)
Theorem report_idempotent n t pd : Forall (fun r => r = report t pd) (requests n (fresh_rdoc t pd)).
Proof.
  assert (G : forall n d, rdoc_ok d -> Forall (fun r => r = report (r_ast d) (r_pd d)) (requests n d)).
  { clear n. induction n as [|n IH]; intros d Hd; [constructor|]. cbn [requests].
    destruct (request_ok d Hd) as (E1 & E2 & E3 & E4). constructor; [exact E1|].
    rewrite <- E3, <- E4. apply IH. exact E2. }
  apply (G n (fresh_rdoc t pd)). left. reflexivity.
Qed.

(* the response is a function of the tree and the parser diagnostics: two documents with the same tree and
   the same parser diagnostics are answered alike, whatever was asked of them before *)
Theorem report_deterministic d1 d2 :
  rdoc_ok d1 -> rdoc_ok d2 -> r_ast d1 = r_ast d2 -> r_pd d1 = r_pd d2 -> fst (request d1) = fst (request d2).
Proof.
  intros H1 H2 Ea Ep. rewrite (proj1 (request_ok d1 H1)), (proj1 (request_ok d2 H2)), Ea, Ep. reflexivity.
Qed.

(* ========================================================================================== *)
(* 6. (d) locality: what one top-level declaration contributes                                 *)
(* ========================================================================================== *)

(* everything the five checkers say about the top-level declaration m: the unused-variable reports of the
   method nodes of m (C15: method_report, a function of the method node) and the rule verdicts on m (C16:
   decl_verdicts, a function of m's subtree) *)
Definition contrib (m : node) : list diag :=
  map of_uv (flat_map (UP.method_report U.key_today) (filter U.is_method (U.subnodes m))) ++
  map of_lint (LP.decl_verdicts m).

Lemma analyze_children i r rg a ch :
  U.analyze_today (Node KAstRoot i r rg a ch) =
  flat_map (fun c => flat_map (UP.method_report U.key_today) (filter U.is_method (U.subnodes c))) ch.
Proof.
  unfold U.analyze_today. rewrite UP.report_decomposes, UP.all_methods_children. cbn [nchildren].
  apply LP.flat_map_flat_map.
Qed.

(* removing (or adding) the top-level declaration m changes the response by contrib m exactly: the items about
   everything else are unaffected, and contrib m does not depend on anything outside m *)
Theorem report_local i r rg a p m q pd :
  Permutation (report (Node KAstRoot i r rg a (p ++ m :: q)) pd)
              (report (Node KAstRoot i r rg a (p ++ q)) pd ++ contrib m).
Proof.
  eapply Permutation_trans; [apply report_permutation_lints|].
  eapply Permutation_trans;
    [|apply Permutation_app_tail; apply Permutation_sym; apply report_permutation_lints].
  rewrite !analyze_children, !flat_map_app. cbn [flat_map]. unfold contrib.
  set (A := fun c => flat_map (UP.method_report U.key_today) (filter U.is_method (U.subnodes c))).
  rewrite !map_app.
  eapply Permutation_trans;
    [do 2 apply Permutation_app_head; apply Permutation_map; apply LP.lints_local|].
  rewrite map_app, <- !app_assoc.
  do 2 apply Permutation_app_head.
  eapply Permutation_trans; [apply Permutation_app_swap_app|]. apply Permutation_app_head.
  apply Permutation_app_swap_app.
Qed.

(* two files that contain the same top-level declaration agree on what is said about it *)
Corollary report_agree i1 r1 rg1 a1 p1 q1 pd1 i2 r2 rg2 a2 p2 q2 pd2 m :
  Permutation (report (Node KAstRoot i1 r1 rg1 a1 (p1 ++ m :: q1)) pd1)
              (report (Node KAstRoot i1 r1 rg1 a1 (p1 ++ q1)) pd1 ++ contrib m) /\
  Permutation (report (Node KAstRoot i2 r2 rg2 a2 (p2 ++ m :: q2)) pd2)
              (report (Node KAstRoot i2 r2 rg2 a2 (p2 ++ q2)) pd2 ++ contrib m).
Proof. split; apply report_local. Qed.

(* permuting the top-level declarations permutes the response *)
Theorem report_permute i r rg a ch ch' pd :
  Permutation ch ch' ->
  Permutation (report (Node KAstRoot i r rg a ch) pd) (report (Node KAstRoot i r rg a ch') pd).
Proof.
  intro Hp.
  eapply Permutation_trans; [apply report_permutation_lints|].
  eapply Permutation_trans; [|apply Permutation_sym; apply report_permutation_lints].
  apply Permutation_app_head. apply Permutation_app.
  - apply Permutation_map. apply UP.report_per_method. exact Hp.
  - apply Permutation_map. apply LP.lints_permute. exact Hp.
Qed.

(* ---- by ranges: the items of the response that lie in m's range ---- *)
Definition within (r o : range) : bool :=
  pos_leb (rstart o) (rstart r) && pos_leb (rend r) (rend o).
Definition in_range_of (m : node) (d : diag) : bool := within (d_range d) (nrange m).

Lemma filter_all {A} (f : A -> bool) l : Forall (fun x => f x = true) l -> filter f l = l.
Proof. apply UP.filter_all_true. Qed.
Lemma filter_none {A} (f : A -> bool) l : Forall (fun x => f x = false) l -> filter f l = [].
Proof. apply UP.filter_all_false. Qed.

(* PARTIAL: the two range hypotheses are facts about the parser's trees (a declaration's diagnostics sit on
   tokens inside the declaration; top-level declarations do not overlap) that no theorem of this development
   derives from the grammar; under them the analysers' items lying in m's range are contrib m *)
Theorem report_in_range_partial i r rg a p m q pd :
  Forall (fun d => in_range_of m d = true) (contrib m) ->
  Forall (fun d => in_range_of m d = false) (report (Node KAstRoot i r rg a (p ++ q)) []) ->
  Permutation (filter (in_range_of m) (report (Node KAstRoot i r rg a (p ++ m :: q)) pd))
              (filter (in_range_of m) (map of_pdiag pd) ++ contrib m).
Proof.
  intros Hin Hout.
  eapply Permutation_trans; [apply UP.Permutation_filter; apply report_local|].
  rewrite filter_app, (filter_all _ _ Hin). apply Permutation_app_tail.
  unfold report in *. cbn [map app] in Hout. rewrite filter_app, (filter_none _ _ Hout), app_nil_r.
  apply Permutation_refl.
Qed.

(* ========================================================================================== *)
(* 7. C15 and C16 read on the response                                                        *)
(* ========================================================================================== *)

Lemma filter_filter_sub {A} (p q : A -> bool) l :
  (forall x, p x = true -> q x = true) -> filter p (filter q l) = filter p l.
Proof.
  intro H. induction l as [|x l IH]; [reflexivity|]. cbn [filter].
  destruct (q x) eqn:Q; cbn [filter]; [rewrite IH; reflexivity|].
  destruct (p x) eqn:P; [rewrite (H x P) in Q; discriminate | exact IH].
Qed.

(* the "Unused var" warnings / the "Var name already declared" errors among the items *)
Definition is_unused_item (d : diag) : bool :=
  match d_msg d with MUnused c _ => c =? U.CL_UNUSED | _ => false end.
Definition is_dup_item (d : diag) : bool :=
  match d_msg d with MUnused c _ => negb (c =? U.CL_UNUSED) | _ => false end.

Lemma unused_item_origin d : is_unused_item d = true -> (origin d =? 1) = true.
Proof. unfold is_unused_item, origin. destruct (d_msg d); [discriminate | reflexivity | discriminate]. Qed.
Lemma dup_item_origin d : is_dup_item d = true -> (origin d =? 1) = true.
Proof. unfold is_dup_item, origin. destruct (d_msg d); [discriminate | reflexivity | discriminate]. Qed.

(* C15 on the response: the unused-variable warnings the client receives are exactly the specified ones, in the
   specified order (every tree, every list of parser diagnostics) *)
Theorem report_unused_exact t pd : filter is_unused_item (report t pd) = map of_uv (UP.unused_spec t).
Proof.
  rewrite <- (filter_filter_sub is_unused_item (fun d => origin d =? 1) _ unused_item_origin).
  change (filter (fun d => origin d =? 1) (report t pd)) with (part 1 (report t pd)).
  rewrite report_part. unfold own_report. cbn [N.eqb Pos.eqb]. unfold alone_unused.
  rewrite (UP.filter_map_comm is_unused_item U.is_unused_diag of_uv) by (intro a; reflexivity).
  f_equal. apply (UP.unused_exact_eq U.key_today t UP.key_ci_today).
Qed.

Theorem report_dups_exact t pd : filter is_dup_item (report t pd) = map of_uv (UP.dup_spec t).
Proof.
  rewrite <- (filter_filter_sub is_dup_item (fun d => origin d =? 1) _ dup_item_origin).
  change (filter (fun d => origin d =? 1) (report t pd)) with (part 1 (report t pd)).
  rewrite report_part. unfold own_report. cbn [N.eqb Pos.eqb]. unfold alone_unused.
  rewrite (UP.filter_map_comm is_dup_item (fun d => negb (U.is_unused_diag d)) of_uv) by (intro a; reflexivity).
  f_equal. apply (UP.dups_exact_eq U.key_today t UP.key_ci_today).
Qed.

(* ... and per method: UnusedVarAnalyzer's part of the response is, in order, the report of each method node *)
Theorem report_unused_per_method t pd :
  part 1 (report t pd) = flat_map (fun m => map of_uv (UP.method_report U.key_today m)) (UP.all_methods t).
Proof.
  rewrite report_part. unfold own_report. cbn [N.eqb Pos.eqb]. unfold alone_unused, U.analyze_today.
  rewrite UP.report_decomposes. apply LP.map_flat_map.
Qed.

(* C16 on the response: the rule checkers' items are, as a multiset, one per declaration satisfying its rule *)
Theorem report_rules_exact t pd :
  LP.RootNotFunction t = true ->
  Permutation (report t pd) (map of_pdiag pd ++ map of_uv (U.analyze_today t) ++ map of_lint (LP.lints_spec t)).
Proof.
  intro H. eapply Permutation_trans; [apply report_permutation_lints|].
  rewrite (LP.lints_exact_eq t H). apply Permutation_refl.
Qed.

(* a compact view of an item, for the examples: source, severity, start of the range *)
Definition brief (d : diag) : N * N * N * N :=
  (origin d, d_sev d, pline (rstart (d_range d)), pcol (rstart (d_range d))).
