(* Context framing: a parser never reads the diagnostics (or the evaluation log) of its context, it
   only prepends to them; what it reads is the memo switch and -- the memoised expression parsers
   only -- the cache.  [Fr K p]: run from two contexts related by K, p returns the SAME outcome
   (same node, same remaining input, same error), leaves K-related contexts, and pushes the SAME
   new diagnostics on both.
     K = Kc (same switch, same cache)  : holds for every parser of the grammar (gram_Fr);
     K = Km (same switch, ANY caches)  : holds for the type grammar, the declaration parsers, the
                                          method parsers (a body starts with clear_cache) and the
                                          top-level loop (top_loop_Fr): what a method body leaves
                                          in the cache cannot influence anything parsed after it. *)
From GoldV Require Import Base Tokens Lexer AstKinds Tree Strings PComb Grammar ParserWF GrammarWF GrammarRel LocalitySpan.
From Coq Require Import Lia.

Definition frame (c c' d d' : ctx) : Prop :=
  exists new, cdiags c' = new ++ cdiags c /\ cdiags d' = new ++ cdiags d.

Lemma frame_refl c d : frame c c d d.
Proof. exists []. split; reflexivity. Qed.

Lemma frame_trans c c1 c2 d d1 d2 : frame c c1 d d1 -> frame c1 c2 d1 d2 -> frame c c2 d d2.
Proof.
  intros (n1 & A1 & B1) (n2 & A2 & B2). exists (n2 ++ n1). rewrite A2, B2, A1, B1, <- !app_assoc. split; reflexivity.
Qed.

Lemma frame_add_diag x c d : frame c (add_diag x c) d (add_diag x d).
Proof. exists [x]. split; reflexivity. Qed.

Lemma frame_set_cache k n r c d : frame c (set_cache k n r c) d (set_cache k n r d).
Proof. exists []. split; reflexivity. Qed.

Lemma frame_clear c d : frame c (clear_cache c) d (clear_cache d).
Proof. exists []. split; reflexivity. Qed.

Definition Kc (c d : ctx) : Prop := ccache c = ccache d /\ cmemo c = cmemo d.
Definition Km (c d : ctx) : Prop := cmemo c = cmemo d.

Section Frame.
  Variable K : ctx -> ctx -> Prop.
  Hypothesis K_add_diag : forall x c d, K c d -> K (add_diag x c) (add_diag x d).

  Definition Rel2 {A} (c d : ctx) (X Y : res A * ctx) : Prop :=
    exists r cf df, X = (r, cf) /\ Y = (r, df) /\ K cf df /\ frame c cf d df.

  Definition Fr {A} (p : P A) : Prop := forall i c d, K c d -> Rel2 c d (p i c) (p i d).

  Lemma rel2_ret {A} (r : res A) c d : K c d -> Rel2 c d (r, c) (r, d).
  Proof. intro H. exists r, c, d. repeat split; auto. apply frame_refl. Qed.

  Lemma rel2_cont {A} (X Y : res A * ctx) c c1 d d1 :
    frame c c1 d d1 -> Rel2 c1 d1 X Y -> Rel2 c d X Y.
  Proof.
    intros F (r & cf & df & E1 & E2 & HK & F2). exists r, cf, df. repeat split; auto.
    eapply frame_trans; eauto.
  Qed.

  Lemma rel2_diag {A} (X Y : res A * ctx) x c d :
    Rel2 (add_diag x c) (add_diag x d) X Y -> Rel2 c d X Y.
  Proof. apply rel2_cont. apply frame_add_diag. Qed.

  (* a parser that does not touch the context *)
  Lemma Fr_pure {A} (p : P A) (f : input -> res A) : (forall i c, p i c = (f i, c)) -> Fr p.
  Proof. intros H i c d HK. rewrite !H. apply rel2_ret. exact HK. Qed.

  Ltac use H i c d HK r c1 d1 HK1 F :=
    let E1 := fresh "E" in let E2 := fresh "E" in
    destruct (H i c d HK) as (r & c1 & d1 & E1 & E2 & HK1 & F); rewrite E1, E2; clear E1 E2.

  Lemma Fr_ret {A} (a : A) : Fr (ret a).
  Proof. apply (Fr_pure _ (fun i => Ok i a)). reflexivity. Qed.
  Lemma Fr_fail {A} m : Fr (@fail A m).
  Proof. apply (Fr_pure _ (fun i => Err i m)). reflexivity. Qed.
  Lemma Fr_panic {A} s : Fr (fun (i : input) (c : ctx) => (@Panic A s, c)).
  Proof. apply (Fr_pure _ (fun i => Panic s)). reflexivity. Qed.
  Lemma Fr_nofuel : Fr out_of_fuel.
  Proof. apply (Fr_pure _ (fun i => NoFuel)). reflexivity. Qed.
  Lemma Fr_exp_token ty : Fr (exp_token ty).
  Proof. apply (Fr_pure _ (fun i => exp_token_go ty i i)). reflexivity. Qed.
  Lemma Fr_exp_ident v : Fr (exp_ident_with_value v).
  Proof. apply (Fr_pure _ (fun i => exp_ident_val_go v i i)). reflexivity. Qed.
  Lemma Fr_take_until tys : Fr (take_until tys).
  Proof.
    apply (Fr_pure _ (fun i => let '(rest, body, term) := take_until_go tys i [] in Ok rest (body, term))).
    intros i c. unfold take_until. destruct (take_until_go tys i []) as [[rest body] term]. reflexivity.
  Qed.

  Lemma Fr_bind {A B} (p : P A) (k : A -> P B) : Fr p -> (forall a, Fr (k a)) -> Fr (bind p k).
  Proof.
    intros Hp Hk i c d HK. unfold bind. use Hp i c d HK r c1 d1 HK1 F.
    destruct r as [rest a|e m|s|]; apply (rel2_cont _ _ _ _ _ _ F); try (apply rel2_ret; exact HK1).
    apply Hk. exact HK1.
  Qed.

  Lemma Fr_prepend {A} pre (p : P A) : Fr p -> Fr (prepend pre p).
  Proof.
    intros Hp i c d HK. unfold prepend. use Hp i c d HK r c1 d1 HK1 F.
    destruct r; apply (rel2_cont _ _ _ _ _ _ F); apply rel2_ret; exact HK1.
  Qed.

  Lemma Fr_rae {A} (p : P A) : Fr p -> Fr (recover_at_error p).
  Proof.
    intros Hp i c d HK. unfold recover_at_error. use Hp i c d HK r c1 d1 HK1 F.
    destruct r; apply (rel2_cont _ _ _ _ _ _ F); apply rel2_ret; exact HK1.
  Qed.

  Lemma Fr_opt {A} (p : P A) : Fr p -> Fr (opt p).
  Proof.
    intros Hp i c d HK. unfold opt. use Hp i c d HK r c1 d1 HK1 F.
    destruct r; apply (rel2_cont _ _ _ _ _ _ F); apply rel2_ret; exact HK1.
  Qed.

  Lemma Fr_alt_go {A} (ps : list (P A)) : Forall Fr ps -> forall best, Fr (alt_go ps best).
  Proof.
    induction 1 as [|p ps Hp Hps IH]; intros best i c d HK; cbn [alt_go].
    - destruct best as [[e m]|]; apply rel2_ret; exact HK.
    - use Hp i c d HK r c1 d1 HK1 F.
      destruct r as [rest a|e m|s|]; apply (rel2_cont _ _ _ _ _ _ F); try (apply rel2_ret; exact HK1).
      apply IH. exact HK1.
  Qed.

  Lemma Fr_alt {A} (ps : list (P A)) : Forall Fr ps -> Fr (alt ps).
  Proof. intro H. unfold alt. apply Fr_alt_go. exact H. Qed.

  Lemma Fr_sep_tokens_go item sep fuel : forall acc, Fr (sep_tokens_go fuel item sep acc).
  Proof.
    induction fuel as [|f IH]; intros acc i c d HK; cbn [sep_tokens_go]; [apply rel2_ret; exact HK|].
    use (Fr_exp_token item) i c d HK r c1 d1 HK1 F.
    destruct r as [rest t|e m|s|]; apply (rel2_cont _ _ _ _ _ _ F); try (apply rel2_ret; exact HK1).
    use (Fr_exp_token sep) rest c1 d1 HK1 r2 c2 d2 HK2 F2.
    destruct r2 as [rest2 t2|e m|s|]; apply (rel2_cont _ _ _ _ _ _ F2); try (apply rel2_ret; exact HK2).
    apply IH. exact HK2.
  Qed.

  Lemma Fr_sep_tokens item sep : Fr (sep_tokens item sep).
  Proof. intros i c d HK. unfold sep_tokens. apply Fr_sep_tokens_go. exact HK. Qed.

  Lemma Fr_sep_list_rec {A} (p : P A) sep : Fr p -> forall fuel prev acc, Fr (sep_list_rec fuel p sep prev acc).
  Proof.
    intros Hp. induction fuel as [|f IH]; intros prev acc i c d HK; cbn [sep_list_rec]; [apply rel2_ret; exact HK|].
    use Hp i c d HK r c1 d1 HK1 F.
    destruct r as [rest a|e m|s|]; apply (rel2_cont _ _ _ _ _ _ F); try (apply rel2_ret; exact HK1).
    - use (Fr_exp_token sep) rest c1 d1 HK1 r2 c2 d2 HK2 F2.
      destruct r2 as [rest2 t2|e2 m2|s|]; apply (rel2_cont _ _ _ _ _ _ F2); try (apply rel2_ret; exact HK2).
      apply IH. exact HK2.
    - set (dg := mkDiag (new_range (range_or i (trange prev)) (range_or e (range_or i (trange prev)))) m).
      apply (rel2_diag _ _ dg).
      pose proof (K_add_diag dg c1 d1 HK1) as HK1'.
      use (Fr_exp_token sep) e (add_diag dg c1) (add_diag dg d1) HK1' r2 c2 d2 HK2 F2.
      destruct r2 as [rest2 t2|e2 m2|s|]; apply (rel2_cont _ _ _ _ _ _ F2); try (apply rel2_ret; exact HK2).
      apply IH. exact HK2.
  Qed.

  Lemma Fr_sep_list {A} (p : P A) sep : Fr p -> Fr (sep_list p sep).
  Proof.
    intros Hp i c d HK. unfold sep_list. use Hp i c d HK r c1 d1 HK1 F.
    destruct r as [rest a|e m|s|]; apply (rel2_cont _ _ _ _ _ _ F); try (apply rel2_ret; exact HK1).
    use (Fr_exp_token sep) rest c1 d1 HK1 r2 c2 d2 HK2 F2.
    destruct r2 as [rest2 t2|e2 m2|s|]; apply (rel2_cont _ _ _ _ _ _ F2); try (apply rel2_ret; exact HK2).
    apply Fr_sep_list_rec; auto.
  Qed.

  Lemma Fr_repeat_go {A} (p : P A) : Fr p -> forall fuel acc, Fr (repeat_go fuel p acc).
  Proof.
    intros Hp. induction fuel as [|f IH]; intros acc i c d HK; cbn [repeat_go]; [apply rel2_ret; exact HK|].
    destruct i as [|t i']; [apply rel2_ret; exact HK|].
    use Hp (t :: i') c d HK r c1 d1 HK1 F.
    destruct r as [rest a|e m|s|]; apply (rel2_cont _ _ _ _ _ _ F); try (apply rel2_ret; exact HK1).
    - apply IH. exact HK1.
    - apply (rel2_diag _ _ (diag_at (t :: i') e m)). apply IH. apply K_add_diag. exact HK1.
  Qed.

  Lemma Fr_repeat {A} (p : P A) : Fr p -> Fr (repeat_w_ctx p).
  Proof. intros Hp i c d HK. unfold repeat_w_ctx. apply Fr_repeat_go; auto. Qed.

  Lemma Fr_until_go {A} (stop : P tok) (p : P A) : Fr stop -> Fr p -> forall fuel acc, Fr (until_go fuel stop p acc).
  Proof.
    intros Hs Hp. induction fuel as [|f IH]; intros acc i c d HK; cbn [until_go]; [apply rel2_ret; exact HK|].
    destruct i as [|t i']; [apply rel2_ret; exact HK|].
    use Hs (t :: i') c d HK r0 c0 d0 HK0 F0.
    destruct r0 as [rest0 t0|e0 m0|s|]; apply (rel2_cont _ _ _ _ _ _ F0); try (apply rel2_ret; exact HK0).
    use Hp (t :: i') c0 d0 HK0 r c1 d1 HK1 F.
    destruct r as [rest a|e m|s|]; apply (rel2_cont _ _ _ _ _ _ F); try (apply rel2_ret; exact HK1).
    - apply IH. exact HK1.
    - apply (rel2_diag _ _ (diag_at (t :: i') e m)). apply IH. apply K_add_diag. exact HK1.
  Qed.

  Lemma Fr_until {A} (stop : P tok) (p : P A) : Fr stop -> Fr p -> Fr (until_w_ctx stop p).
  Proof. intros Hs Hp i c d HK. unfold until_w_ctx. apply Fr_until_go; auto. Qed.

  Lemma Fr_until_strict_go {A} (stop : P tok) (p : P A) : Fr stop -> Fr p -> forall fuel acc, Fr (until_strict_go fuel stop p acc).
  Proof.
    intros Hs Hp. induction fuel as [|f IH]; intros acc i c d HK; cbn [until_strict_go]; [apply rel2_ret; exact HK|].
    destruct i as [|t i']; [apply rel2_ret; exact HK|].
    use Hs (t :: i') c d HK r0 c0 d0 HK0 F0.
    destruct r0 as [rest0 t0|e0 m0|s|]; apply (rel2_cont _ _ _ _ _ _ F0); try (apply rel2_ret; exact HK0).
    use Hp (t :: i') c0 d0 HK0 r c1 d1 HK1 F.
    destruct r as [rest a|e m|s|]; apply (rel2_cont _ _ _ _ _ _ F); try (apply rel2_ret; exact HK1).
    apply IH. exact HK1.
  Qed.

  Lemma Fr_until_strict {A} (stop : P tok) (p : P A) : Fr stop -> Fr p -> Fr (until_strict stop p).
  Proof. intros Hs Hp i c d HK. unfold until_strict. apply Fr_until_strict_go; auto. Qed.

  Lemma Fr_until_no_match_go {A} (p : P A) : Fr p -> forall fuel acc, Fr (until_no_match_go fuel p acc).
  Proof.
    intros Hp. induction fuel as [|f IH]; intros acc i c d HK; cbn [until_no_match_go]; [apply rel2_ret; exact HK|].
    destruct i as [|t i']; [apply rel2_ret; exact HK|].
    use Hp (t :: i') c d HK r c1 d1 HK1 F.
    destruct r as [rest a|e m|s|]; apply (rel2_cont _ _ _ _ _ _ F); try (apply rel2_ret; exact HK1).
    apply IH. exact HK1.
  Qed.

  Lemma Fr_until_no_match {A} (p : P A) : Fr p -> Fr (until_no_match p).
  Proof. intros Hp i c d HK. unfold until_no_match. apply Fr_until_no_match_go; auto. Qed.

  Lemma Fr_binops_go (opp : P tok) (ep : P node) : Fr opp -> Fr ep -> forall fuel left, Fr (binops_go fuel opp ep left).
  Proof.
    intros Ho He. induction fuel as [|f IH]; intros left i c d HK; cbn [binops_go]; [apply rel2_ret; exact HK|].
    use Ho i c d HK r0 c0 d0 HK0 F0.
    destruct r0 as [rest0 op|e0 m0|s|]; apply (rel2_cont _ _ _ _ _ _ F0); try (apply rel2_ret; exact HK0).
    use He rest0 c0 d0 HK0 r c1 d1 HK1 F.
    destruct r as [rest a|e m|s|]; apply (rel2_cont _ _ _ _ _ _ F); try (apply rel2_ret; exact HK1).
    - apply IH. exact HK1.
    - destruct (tt_eqb (tty op) TDot); [apply IH; exact HK1|apply rel2_ret; exact HK1].
  Qed.

  Lemma Fr_binops (opp : P tok) (ep : P node) : Fr opp -> Fr ep -> Fr (binops opp ep).
  Proof.
    intros Ho He i c d HK. unfold binops. use He i c d HK r c1 d1 HK1 F.
    destruct r as [rest a|e m|s|]; apply (rel2_cont _ _ _ _ _ _ F); try (apply rel2_ret; exact HK1).
    apply Fr_binops_go; auto.
  Qed.

  Lemma Fr_if_loop pe rs : Fr pe -> Fr rs -> forall fuel it cur done, Fr (if_loop pe rs fuel it cur done).
  Proof.
    intros Hpe Hrs. induction fuel as [|f IH]; intros it cur done i c d HK; cbn [if_loop]; [apply rel2_ret; exact HK|].
    destruct i as [|t0 i']; [apply rel2_ret; exact HK|].
    assert (Fr (until_w_ctx (tok_alt [TElseIf; TElse; TEndIf; TEnd]) rs)) as Hu.
    { apply Fr_until; [|exact Hrs]. unfold tok_alt. apply Fr_alt. simpl. repeat constructor; apply Fr_exp_token. }
    use Hu (t0 :: i') c d HK r c1 d1 HK1 F.
    destruct r as [rest [nodes endt]|e m|s|]; apply (rel2_cont _ _ _ _ _ _ F); try (apply rel2_ret; exact HK1).
    destruct endt as [t|].
    - destruct (tt_eqb (tty t) TEndIf || tt_eqb (tty t) TEnd); [apply rel2_ret; exact HK1|].
      destruct (tt_eqb (tty t) TElseIf).
      + use Hpe rest c1 d1 HK1 r2 c2 d2 HK2 F2.
        destruct r2 as [rest2 cond|e m|s|]; apply (rel2_cont _ _ _ _ _ _ F2); try (apply rel2_ret; exact HK2).
        apply IH. exact HK2.
      + destruct (tt_eqb (tty t) TElse); [apply IH; exact HK1|apply rel2_ret; exact HK1].
    - apply (rel2_diag _ _ (mkDiag (trange it) S_no_end_token_found)). apply IH. apply K_add_diag. exact HK1.
  Qed.

  Lemma Fr_if_block pe rs : Fr pe -> Fr rs -> Fr (parse_if_block pe rs).
  Proof.
    intros Hpe Hrs. unfold parse_if_block.
    apply Fr_bind; [apply Fr_exp_token|]. intro it.
    apply Fr_bind; [exact Hpe|]. intro cond.
    apply Fr_bind.
    - intros i c d HK. apply Fr_if_loop; auto.
    - intros [[cur done] endt]. apply Fr_ret.
  Qed.

  Lemma Fr_try_blocks ps : Forall Fr ps -> forall best, Fr (try_blocks ps best).
  Proof.
    induction 1 as [|p ps Hp Hps IH]; intros best i c d HK; cbn [try_blocks]; [apply rel2_ret; exact HK|].
    use Hp i c d HK r c1 d1 HK1 F.
    destruct r as [rest a|e m|s|]; apply (rel2_cont _ _ _ _ _ _ F); try (apply rel2_ret; exact HK1).
    apply IH. exact HK1.
  Qed.

  Lemma Fr_stmt_shape ps qs : Forall Fr ps -> Fr (alt qs) -> Fr (stmt_body_shape ps qs).
  Proof.
    intros Hps Ha i c d HK. unfold stmt_body_shape.
    use (Fr_try_blocks ps Hps None) i c d HK r c1 d1 HK1 F.
    destruct r as [rest [[nd|] best]|e m|s|]; apply (rel2_cont _ _ _ _ _ _ F); try (apply rel2_ret; exact HK1).
    use Ha i c1 d1 HK1 r2 c2 d2 HK2 F2.
    destruct r2 as [rest2 a2|e2 m2|s|]; apply (rel2_cont _ _ _ _ _ _ F2); try (apply rel2_ret; exact HK2).
    destruct best as [[be bm]|]; [destruct (ilen e2 <? ilen be)|]; apply rel2_ret; exact HK2.
  Qed.

  Lemma Fr_on_slice {A} slice (p : P A) : Fr p -> Fr (on_slice slice p).
  Proof.
    intros Hp i c d HK. unfold on_slice. use Hp slice c d HK r c1 d1 HK1 F.
    destruct r; apply (rel2_cont _ _ _ _ _ _ F); apply rel2_ret; exact HK1.
  Qed.

  (* post-processing of a result without touching the context *)
  Lemma Fr_post {A B} (p : P A) (f : input -> res A -> res B) :
    Fr p -> Fr (fun i c => (f i (fst (p i c)), snd (p i c))).
  Proof.
    intros Hp i c d HK. destruct (Hp i c d HK) as (r & c1 & d1 & E1 & E2 & HK1 & F). rewrite E1, E2. cbn [fst snd].
    apply (rel2_cont _ _ _ _ _ _ F). apply rel2_ret. exact HK1.
  Qed.

  Lemma Fr_ext {A} (p q : P A) : (forall i c, p i c = q i c) -> Fr p -> Fr q.
  Proof. intros E Hp i c d HK. rewrite <- !E. apply Hp. exact HK. Qed.
End Frame.

Arguments Fr K {A} p.
Arguments Rel2 K {A} c d X Y.

Lemma Kc_add_diag x c d : Kc c d -> Kc (add_diag x c) (add_diag x d).
Proof. intros [H1 H2]. split; assumption. Qed.
Lemma Km_add_diag x c d : Km c d -> Km (add_diag x c) (add_diag x d).
Proof. intro H. exact H. Qed.
Lemma Kc_Km c d : Kc c d -> Km c d.
Proof. intros [_ H]. exact H. Qed.
Lemma Km_clear c d : Km c d -> Kc (clear_cache c) (clear_cache d).
Proof. intro H. split; [reflexivity|exact H]. Qed.

(* ---------- memoisation: needs equal caches ---------- *)

Lemma Kc_get_cache k n c d : Kc c d -> get_cache k n c = get_cache k n d.
Proof. intros [H1 H2]. unfold get_cache. rewrite H1, H2. reflexivity. Qed.

Lemma Kc_set_cache k n r c d : Kc c d -> Kc (set_cache k n r c) (set_cache k n r d).
Proof. intros [H1 H2]. unfold set_cache, Kc. cbn [ccache cmemo]. rewrite H1, H2. split; reflexivity. Qed.

Lemma Fr_memo k p : Fr Kc p -> Fr Kc (memo k p).
Proof.
  intros Hp i c d HK. unfold memo. rewrite (Kc_get_cache k (ilen i) c d HK).
  destruct (get_cache k (ilen i) d) as [r|]; [apply rel2_ret; exact HK|].
  destruct (Hp i c d HK) as (r & c1 & d1 & E1 & E2 & HK1 & F). rewrite E1, E2.
  apply (rel2_cont _ _ _ _ _ _ _ F).
  destruct r; try (apply rel2_ret; exact HK1);
    (eapply rel2_cont; [apply frame_set_cache|]; apply rel2_ret; apply Kc_set_cache; exact HK1).
Qed.

Lemma Fr_memo_ok_only k p : Fr Kc p -> Fr Kc (memo_ok_only k p).
Proof.
  intros Hp i c d HK. unfold memo_ok_only. rewrite (Kc_get_cache k (ilen i) c d HK).
  destruct (get_cache k (ilen i) d) as [r|]; [apply rel2_ret; exact HK|].
  destruct (Hp i c d HK) as (r & c1 & d1 & E1 & E2 & HK1 & F). rewrite E1, E2.
  apply (rel2_cont _ _ _ _ _ _ _ F).
  destruct r; try (apply rel2_ret; exact HK1);
    (eapply rel2_cont; [apply frame_set_cache|]; apply rel2_ret; apply Kc_set_cache; exact HK1).
Qed.

(* ---------- the grammar ---------- *)

Theorem gram_Fr : forall f,
  Fr Kc (g_type (gram f)) /\ Fr Kc (g_expr (gram f)) /\ Fr Kc (g_primary (gram f)) /\ Fr Kc (g_stmt (gram f)).
Proof.
  apply (gram_R (fun A => @Fr Kc A)); intros.
  - apply Fr_ret. - apply Fr_fail. - apply Fr_panic. - apply Fr_nofuel.
  - apply Fr_bind; auto. - apply Fr_prepend; auto. - apply Fr_rae; auto. - apply Fr_opt; auto.
  - apply Fr_exp_token. - apply Fr_exp_ident. - apply Fr_take_until. - apply Fr_alt; auto.
  - apply Fr_sep_tokens. - apply Fr_sep_list; auto. - apply Fr_until; auto using Kc_add_diag.
  - apply Fr_until_strict; auto. - apply Fr_until_no_match; auto. - apply Fr_binops; auto.
  - apply Fr_memo; auto.
  - apply Fr_if_block; auto using Kc_add_diag. - apply Fr_stmt_shape; auto.
Qed.

Theorem gram_type_Fr : forall f, Fr Km (g_type (gram f)).
Proof.
  apply (gram_type_R (fun A => @Fr Km A)); intros.
  - apply Fr_ret. - apply Fr_fail. - apply Fr_nofuel.
  - apply Fr_bind; auto. - apply Fr_prepend; auto. - apply Fr_rae; auto. - apply Fr_opt; auto.
  - apply Fr_exp_token. - apply Fr_take_until. - apply Fr_alt; auto.
  - apply Fr_sep_tokens. - apply Fr_sep_list; auto using Km_add_diag.
  - apply Fr_until_strict; auto. - apply Fr_binops; auto.
Qed.
