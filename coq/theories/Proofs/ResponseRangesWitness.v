(* C08, response level: witnesses.
     - the premises of Proofs/ResponseRanges.v hold on the real dumps of ReportWitness.v, WsTreeWitness.v and
       HierTreeWitness.v (checked by computation through the boolean checker wf_tree_b_ok), and the conclusions are
       obtained THROUGH the theorems;
     - the rule of a seeded defect (merging two consecutive parser diagnostics with the same message) and the pair
       on which it produces a range whose end lies before its start;
     - the guard TablesAtHome is needed: a file aA.god that declares class aB next to a file aB.god. *)
From GoldV Require Import Base Tokens Lexer AstKinds Tree RangeBase RangeTop Annot DefTree ResponseRanges.
From GoldV Require Report ReportWitness WsTree WsTreeWitness HierTree HierTreeWitness HierTreeProofs.
From Coq Require Import Lia.

Module R := Report.
Module W := WsTree.
Module H := HierTree.

(* ========================================================================================== *)
(* 1. the diagnostics response of a real document                                              *)
(* ========================================================================================== *)

Definition pd_wf_b (L : N) (pd : list R.pdiag) : bool := forallb (fun p => range_in_b L (R.pd_range p)) pd.
Lemma pd_wf_b_ok L pd : pd_wf_b L pd = true -> PdWf L pd.
Proof.
  unfold pd_wf_b, PdWf. rewrite forallb_forall. intro Hb. apply Forall_forall. intros q Hq. apply range_in_b_ok. exact (Hb q Hq).
Qed.

Example report_witness_premises :
  WfTree 15 ReportWitness.w_resp /\ PdWf 15 ReportWitness.w_resp_pd /\
  length (R.report ReportWitness.w_resp ReportWitness.w_resp_pd) = 15%nat.
Proof.
  split; [apply wf_tree_b_ok; vm_compute; reflexivity|]. split; [|vm_compute; reflexivity].
  apply pd_wf_b_ok. vm_compute. reflexivity.
Qed.

(* ... hence, through report_items_wf, all fifteen items (parser, unused variable, return type, unpurged, naming,
   inherited) have start <= end on lines 0..15 *)
Example report_witness_items :
  Forall (fun d => range_wf (R.d_range d) /\ lines_le 15 (R.d_range d))
         (R.report ReportWitness.w_resp ReportWitness.w_resp_pd).
Proof. apply report_items_wf; apply report_witness_premises. Qed.

(* all six sources are present among the fifteen items *)
Example report_witness_sources :
  forallb (fun k => negb (Nat.eqb (length (ReportProofs.part k (R.report ReportWitness.w_resp ReportWitness.w_resp_pd))) 0))
          [0; 1; 2; 3; 4; 5]%N = true.
Proof. vm_compute. reflexivity. Qed.

(* ========================================================================================== *)
(* 2. definition links in a real workspace (aChild (aParent), aParent, aLib, aUser)            *)
(* ========================================================================================== *)

Definition wsx2_lines : list N := [10; 5; 1; 4].

Example links_witness_premises :
  WsWf WsTreeWitness.wsx2 wsx2_lines /\ TablesAtHome WsTreeWitness.wsx2 /\
  W.wdefinition WsTreeWitness.wsx2 0 (mkPos 7 6) =
    Ans [(WsTreeWitness.wx_aChild, WsTreeWitness.wrg 9 5 9 9, WsTreeWitness.wrg 9 0 10 7);
         (WsTreeWitness.wx_aParent, WsTreeWitness.wrg 3 5 3 9, WsTreeWitness.wrg 3 0 5 7)].
Proof.
  split; [|split; [apply tables_at_home_b_ok; vm_compute; reflexivity|vm_compute; reflexivity]].
  unfold WsWf, WsTreeWitness.wsx2, WsTreeWitness.wsx, wsx2_lines. cbn [app].
  repeat (apply Forall2_cons; [apply wf_tree_b_ok; vm_compute; reflexivity|]); apply Forall2_nil.
Qed.

(* ... hence, through definition_links_wf, at EVERY position of EVERY document of that workspace *)
Example links_witness_all a p ls :
  W.wdefinition WsTreeWitness.wsx2 a p = Ans ls ->
  Forall (fun l : W.wlink =>
            let '(stem, sel, rng) := l in
            exists k dt L, W.find_doc WsTreeWitness.wsx2 stem = Some (k, dt) /\ fst dt = stem /\
                           nth_error wsx2_lines k = Some L /\ RangeIn L sel /\ RangeIn L rng /\ inside sel rng) ls.
Proof.
  apply definition_links_wf; apply links_witness_premises.
Qed.

(* ========================================================================================== *)
(* 3. hierarchy items in a real workspace (aKa, aKb (aKa), aKc (aKb))                           *)
(* ========================================================================================== *)

Definition ht_lines : list N := [6; 6; 7].

Example items_witness_premises :
  WsWf HierTreeWitness.ht_ws ht_lines /\ HierTreeProofs.distinct_stems HierTreeWitness.ht_ws /\
  TablesAtHomeH HierTreeWitness.ht_ws.
Proof.
  assert (Hd : HierTreeProofs.distinct_stems HierTreeWitness.ht_ws).
  { unfold HierTreeProofs.distinct_stems. vm_compute. repeat constructor; cbn; intuition discriminate. }
  split; [|split; [exact Hd|apply tables_at_home_hb_ok; [exact Hd|vm_compute; reflexivity]]].
  unfold WsWf, HierTreeWitness.ht_ws, ht_lines. repeat (apply Forall2_cons; [apply wf_tree_b_ok; vm_compute; reflexivity|]); apply Forall2_nil.
Qed.

Example items_witness_all :
  (forall d p l, In d HierTreeWitness.ht_ws -> H.prepare HierTreeWitness.ht_ws d p = Ans (H.ROk l) ->
                 Forall (ItemWf HierTreeWitness.ht_ws ht_lines) l) /\
  (forall tr it l, H.supertypes_of HierTreeWitness.ht_ws tr it = Ans (H.ROk l) -> Forall (ItemWf HierTreeWitness.ht_ws ht_lines) l) /\
  (forall tr it l, H.subtypes_of HierTreeWitness.ht_ws tr it = Ans (H.ROk l) -> Forall (ItemWf HierTreeWitness.ht_ws ht_lines) l).
Proof. apply hierarchy_items_wf; apply items_witness_premises. Qed.

(* the statement is not vacuous: the field's name in aKb.god (2:1) prepares a FIELD item, and through the theorem
   it is well formed within aKb.god *)
Example items_witness_field :
  exists d it, In d HierTreeWitness.ht_ws /\ H.prepare HierTreeWitness.ht_ws d (mkPos 2 1) = Ans (H.ROk [it]) /\
               H.i_kind it = H.IField /\ ItemWf HierTreeWitness.ht_ws ht_lines it.
Proof.
  pose proof (proj1 (proj2 HierTreeWitness.ht_ws_prepare)) as Hp.
  eexists. eexists. split; [|split; [exact Hp|split; [reflexivity|]]]; [right; left; reflexivity|].
  pose proof (proj1 items_witness_all _ _ _ (or_intror (or_introl eq_refl)) Hp) as Hf.
  inversion Hf; assumption.
Qed.

(* ========================================================================================== *)
(* 4. the rule of the seeded defect: merging runs of parser diagnostics                        *)
(* ========================================================================================== *)

(* two consecutive parser diagnostics with the same message become one: the first one's range with its END set to
   the second one's end *)
Fixpoint merge_into (a : R.pdiag) (l : list R.pdiag) : list R.pdiag :=
  match l with
  | [] => [a]
  | b :: r =>
      if str_eqb (R.pd_msg a) (R.pd_msg b)
      then merge_into (R.mkPD (mkRange (rstart (R.pd_range a)) (rend (R.pd_range b))) (R.pd_msg a)) r
      else a :: merge_into b r
  end.

Definition merge_runs (pd : list R.pdiag) : list R.pdiag :=
  match pd with [] => [] | a :: l => merge_into a l end.

(* the response with the defect *)
Definition report_merged (t : node) (pd : list R.pdiag) : list R.diag := R.report t (merge_runs pd).

(* the parser reports the INNER block first (recovering loops report on the way out): (4:8-4:10) then (3:6-3:8),
   same message "Missing end token" *)
Definition m_missing : str := [77;105;115;115;105;110;103;32;101;110;100;32;116;111;107;101;110].
Definition merged_pd : list R.pdiag :=
  [R.mkPD (mkRange (mkPos 4 8) (mkPos 4 10)) m_missing; R.mkPD (mkRange (mkPos 3 6) (mkPos 3 8)) m_missing].
Definition merged_tree : node := Node KAstRoot [] 0 range0 [] [].

Definition all_wf_b (L : N) (l : list R.diag) : bool := forallb (diag_in_b L) l.

Lemma all_wf_b_spec L l : all_wf_b L l = true -> Forall (fun d => range_wf (R.d_range d) /\ lines_le L (R.d_range d)) l.
Proof.
  unfold all_wf_b. rewrite forallb_forall. intro Hb. apply Forall_forall. intros d Hd.
  apply range_in_b_ok. exact (Hb d Hd).
Qed.

Theorem old_merged_run_refuted :
  WfTree 5 merged_tree /\ PdWf 5 merged_pd /\
  (* with the defect: one item, from (4:8) to (3:8) *)
  map R.d_range (report_merged merged_tree merged_pd) = [mkRange (mkPos 4 8) (mkPos 3 8)] /\
  ~ Forall (fun d => range_wf (R.d_range d)) (report_merged merged_tree merged_pd) /\
  (* the response as it is: both items, both well formed *)
  map R.d_range (R.report merged_tree merged_pd) = [mkRange (mkPos 4 8) (mkPos 4 10); mkRange (mkPos 3 6) (mkPos 3 8)] /\
  Forall (fun d => range_wf (R.d_range d) /\ lines_le 5 (R.d_range d)) (R.report merged_tree merged_pd).
Proof.
  assert (HW : WfTree 5 merged_tree) by (apply wf_tree_b_ok; vm_compute; reflexivity).
  assert (HP : PdWf 5 merged_pd).
  { apply pd_wf_b_ok. vm_compute. reflexivity. }
  split; [exact HW|]. split; [exact HP|]. split; [vm_compute; reflexivity|]. split.
  - intro Hf. assert (E : report_merged merged_tree merged_pd = [R.of_pdiag (R.mkPD (mkRange (mkPos 4 8) (mkPos 3 8)) m_missing)])
      by (vm_compute; reflexivity).
    rewrite E in Hf. inversion Hf as [|? ? Hx _]; subst. unfold range_wf, pos_le in Hx. cbn in Hx. lia.
  - split; [vm_compute; reflexivity|]. apply report_items_wf; assumption.
Qed.

(* ========================================================================================== *)
(* 5. the guard TablesAtHome is needed (reproduced against the real code: harness engine wstree) *)
(* ========================================================================================== *)

(* aA.god:  class aB <LF> <LF> <LF> <LF> fp : int4 <LF>      aB.god:  class aB *)
Definition fx_textA : str := [99;108;97;115;115;32;97;66;10;10;10;10;102;112;32;58;32;105;110;116;52;10].
Definition fx_textB : str := [99;108;97;115;115;32;97;66].
Definition fx_aA : str := [97;65].
Definition fx_aB : str := [97;66].
Definition fx_texts : list (str * str) := [(fx_aA, fx_textA); (fx_aB, fx_textB)].

(* go-to-definition on the field `fp` of aA.god answers with a link INTO aB.god -- the file the class index gives
   for the table's for_class_or_module "aB" -- carrying the ranges of aA.god: line 4 of a file that has one line.
   Every premise but the guard holds (the trees are the parser's, the stems are distinct). *)
Theorem link_foreign_lines_refuted :
  WsWf (ws_of_texts fx_texts) (lines_of_texts fx_texts) /\
  lines_of_texts fx_texts = [5; 0] /\
  W.wdefinition (ws_of_texts fx_texts) 0 (mkPos 4 1) =
    Ans [(fx_aB, mkRange (mkPos 4 0) (mkPos 4 2), mkRange (mkPos 4 0) (mkPos 4 9))] /\
  (exists dt, W.find_doc (ws_of_texts fx_texts) fx_aB = Some (1%nat, dt)) /\
  ~ lines_le 0 (mkRange (mkPos 4 0) (mkPos 4 9)) /\
  tables_at_home_b (ws_of_texts fx_texts) = false.
Proof.
  split; [apply ws_of_texts_wf|]. split; [vm_compute; reflexivity|]. split; [vm_compute; reflexivity|].
  split; [eexists; vm_compute; reflexivity|]. split; [|vm_compute; reflexivity].
  unfold lines_le. cbn. lia.
Qed.

(* the same for the hierarchy: prepare on `fp` makes a FIELD item whose uri is aB.god *)
Theorem item_foreign_lines_refuted :
  exists it, H.prepare (ws_of_texts fx_texts) (fx_aA, root_of_text fx_textA) (mkPos 4 1) = Ans (H.ROk [it]) /\
    H.i_uri it = fx_aB /\ H.i_range it = mkRange (mkPos 4 0) (mkPos 4 9) /\ ~ lines_le 0 (H.i_range it).
Proof.
  eexists. split; [vm_compute; reflexivity|]. cbn [H.i_uri H.i_range]. split; [reflexivity|]. split; [reflexivity|].
  unfold lines_le. cbn. lia.
Qed.
