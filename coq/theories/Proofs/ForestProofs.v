(* Proofs about Model/Forest.v: the class tree equals the declared inheritance relation (C13) and
   never contains a parent cycle (C14).  Part 1: how the primitive operations act on the heap. *)
From GoldV Require Import Base Forest ParentGraph.
From Coq Require Import Permutation Relations.
Local Open Scope nat_scope.

Lemma isa_bound_val : N.of_nat isa_bound = 10001%N.
Proof. unfold isa_bound. apply N2Nat.id. Qed.

Lemma isa_bound_5000 n : n <= 5000 -> 2 * n < isa_bound.
Proof. pose proof isa_bound_val. lia. Qed.

(* never let simpl / cbn unfold the 10 001 iterations *)
Global Opaque isa_bound.

(* ------------------------------------------------------------------------------------------ *)
(* association lists and heaps                                                                  *)
(* ------------------------------------------------------------------------------------------ *)
Lemma alookup_In {V} k (m : list (str * V)) v : alookup k m = Some v -> In k (map fst m).
Proof.
  induction m as [|[k' v'] m IH]; simpl; [discriminate|].
  destruct (str_eqb k k') eqn:E; intro H.
  - left. apply str_eqb_eq in E. auto.
  - right. auto.
Qed.

Lemma In_alookup {V} k (m : list (str * V)) : In k (map fst m) -> exists v, alookup k m = Some v.
Proof.
  induction m as [|[k' v'] m IH]; simpl; [tauto|].
  intros [H|H]; destruct (str_eqb k k') eqn:E; eauto.
  subst k'. rewrite str_eqb_refl in E. discriminate.
Qed.

Lemma alookup_None_notin {V} k (m : list (str * V)) : alookup k m = None <-> ~ In k (map fst m).
Proof.
  split.
  - intros H Hin. destruct (In_alookup k m Hin) as [v Hv]. congruence.
  - intro H. destruct (alookup k m) eqn:E; [|reflexivity]. exfalso. apply H. eapply alookup_In; eauto.
Qed.

Lemma alookup_ainsert {V} k k2 (v : V) m :
  alookup k2 (ainsert k v m) = if str_eqb k2 k then Some v else alookup k2 m.
Proof.
  destruct (str_eqb k2 k) eqn:E.
  - apply str_eqb_eq in E. subst. apply alookup_ainsert_same.
  - apply alookup_ainsert_other. apply str_eqb_neq. exact E.
Qed.

Lemma keys_ainsert {V} k (v : V) m k2 :
  In k2 (map fst (ainsert k v m)) <-> k2 = k \/ In k2 (map fst m).
Proof.
  split.
  - intro H. destruct (In_alookup _ _ H) as [x Hx]. rewrite alookup_ainsert in Hx.
    destruct (str_eqb k2 k) eqn:E; [left; apply str_eqb_eq; exact E | right; eapply alookup_In; eauto].
  - intro H. assert (exists x, alookup k2 (ainsert k v m) = Some x) as [x Hx].
    { rewrite alookup_ainsert. destruct (str_eqb k2 k) eqn:E; [eauto|].
      destruct H as [H|H]; [subst; rewrite str_eqb_refl in E; discriminate | apply In_alookup; exact H]. }
    eapply alookup_In; eauto.
Qed.

Lemma upd_length {A} n (f : A -> A) l : length (upd n f l) = length l.
Proof. revert n; induction l; intros [|n]; simpl; auto. Qed.

Lemma nth_upd_same {A} n (f : A -> A) l : nth_error (upd n f l) n = option_map f (nth_error l n).
Proof. revert n; induction l; intros [|n]; simpl; auto. Qed.

Lemma nth_upd_other {A} n m (f : A -> A) l : n <> m -> nth_error (upd n f l) m = nth_error l m.
Proof. revert n m; induction l; intros [|n] [|m] H; simpl; auto; congruence. Qed.

Lemma upd_const_same {A} n (x : A) l y : nth_error l n = Some y -> nth_error (upd n (fun _ => x) l) n = Some x.
Proof. intro H. rewrite nth_upd_same, H. reflexivity. Qed.

(* ------------------------------------------------------------------------------------------ *)
(* alloc / link                                                                                 *)
(* ------------------------------------------------------------------------------------------ *)
Lemma getn_lt t p n : getn t p = Some n -> p < length (heap t).
Proof. unfold getn. intro H. apply nth_error_Some. congruence. Qed.

Lemma getn_some t p : p < length (heap t) -> exists n, getn t p = Some n.
Proof. unfold getn. intro H. destruct (nth_error (heap t) p) eqn:E; [eauto|]. apply nth_error_None in E. lia. Qed.

Lemma alloc_fst id t : fst (alloc id t) = length (heap t).
Proof. reflexivity. Qed.

Lemma alloc_len id t : length (heap (snd (alloc id t))) = S (length (heap t)).
Proof. simpl. rewrite app_length. simpl. lia. Qed.

Lemma alloc_getn_old id t p : p < length (heap t) -> getn (snd (alloc id t)) p = getn t p.
Proof. intro H. unfold getn. simpl. apply nth_error_app1. exact H. Qed.

Lemma alloc_getn_new id t : getn (snd (alloc id t)) (length (heap t)) = Some (mkNode id None []).
Proof. unfold getn. simpl. rewrite nth_error_app2, Nat.sub_diag; [reflexivity | lia]. Qed.

Lemma alloc_getn id t p :
  getn (snd (alloc id t)) p =
  if Nat.eqb p (length (heap t)) then Some (mkNode id None []) else getn t p.
Proof.
  destruct (Nat.eqb p (length (heap t))) eqn:E.
  - apply Nat.eqb_eq in E. subst. apply alloc_getn_new.
  - apply Nat.eqb_neq in E. destruct (lt_dec p (length (heap t))).
    + apply alloc_getn_old; assumption.
    + unfold getn. simpl.
      assert (nth_error (heap t) p = None) as -> by (apply nth_error_None; lia).
      apply nth_error_None. rewrite app_length. simpl. lia.
Qed.

Lemma alloc_lookup id t k :
  lookup (snd (alloc id t)) k = if str_eqb k (upper id) then Some (length (heap t)) else lookup t k.
Proof. unfold lookup. simpl. apply alookup_ainsert. Qed.

Lemma link_len t e p : length (heap (link t e p)) = length (heap t).
Proof. unfold link, push_child, set_parent. simpl. rewrite !upd_length. reflexivity. Qed.

Lemma link_emap t e p : emap (link t e p) = emap t.
Proof. reflexivity. Qed.

Lemma link_getn t e p x :
  getn (link t e p) x =
  match getn t x with
  | Some n => Some (mkNode (nid n)
                           (if Nat.eqb x e then Some p else npar n)
                           (if Nat.eqb x p then nkids n ++ [e] else nkids n))
  | None => None
  end.
Proof.
  unfold link, push_child, set_parent, getn. simpl.
  destruct (Nat.eq_dec x p) as [Ep|Ep]; destruct (Nat.eq_dec x e) as [Ee|Ee]; subst;
    rewrite ?Nat.eqb_refl, ?(proj2 (Nat.eqb_neq _ _) Ep), ?(proj2 (Nat.eqb_neq _ _) Ee).
  - rewrite !nth_upd_same. destruct (nth_error (heap t) e); reflexivity.
  - rewrite nth_upd_same, nth_upd_other by congruence. destruct (nth_error (heap t) p) as [[a b c]|]; reflexivity.
  - rewrite nth_upd_other, nth_upd_same by congruence. destruct (nth_error (heap t) e) as [[a b c]|]; reflexivity.
  - rewrite !nth_upd_other by congruence. destruct (nth_error (heap t) x) as [[a b c]|]; reflexivity.
Qed.

Lemma link_key t e p x : key_of (link t e p) x = key_of t x.
Proof. unfold key_of. rewrite link_getn. destruct (getn t x); reflexivity. Qed.

Lemma link_parent t e p x :
  parent_of (link t e p) x =
  if Nat.eqb x e then (if Nat.ltb e (length (heap t)) then Some p else None) else parent_of t x.
Proof.
  unfold parent_of. rewrite link_getn. destruct (Nat.eqb x e) eqn:E.
  - apply Nat.eqb_eq in E. subst. destruct (getn t e) eqn:G.
    + apply getn_lt in G. apply Nat.ltb_lt in G. rewrite G. reflexivity.
    + destruct (Nat.ltb e (length (heap t))) eqn:L; [|reflexivity].
      apply Nat.ltb_lt in L. destruct (getn_some t e L). congruence.
  - destruct (getn t x); reflexivity.
Qed.

Lemma link_kids t e p x :
  kids_of (link t e p) x = if Nat.eqb x p then (if Nat.ltb p (length (heap t)) then kids_of t p ++ [e] else []) else kids_of t x.
Proof.
  unfold kids_of. rewrite link_getn. destruct (Nat.eqb x p) eqn:E.
  - apply Nat.eqb_eq in E. subst. destruct (getn t p) eqn:G.
    + apply getn_lt in G. apply Nat.ltb_lt in G. rewrite G. reflexivity.
    + destruct (Nat.ltb p (length (heap t))) eqn:L; [|reflexivity].
      apply Nat.ltb_lt in L. destruct (getn_some t p L). congruence.
  - destruct (getn t x); reflexivity.
Qed.

Lemma alloc_key_old id t p : p < length (heap t) -> key_of (snd (alloc id t)) p = key_of t p.
Proof. intro H. unfold key_of. rewrite alloc_getn_old by assumption. reflexivity. Qed.

Lemma alloc_parent id t p : parent_of (snd (alloc id t)) p = parent_of t p.
Proof.
  unfold parent_of. rewrite alloc_getn. destruct (Nat.eqb p (length (heap t))) eqn:E; [|reflexivity].
  apply Nat.eqb_eq in E. subst. simpl.
  destruct (getn t (length (heap t))) eqn:G; [|reflexivity]. apply getn_lt in G. lia.
Qed.

Lemma alloc_kids id t p : kids_of (snd (alloc id t)) p = kids_of t p.
Proof.
  unfold kids_of. rewrite alloc_getn. destruct (Nat.eqb p (length (heap t))) eqn:E; [|reflexivity].
  apply Nat.eqb_eq in E. subst. simpl.
  destruct (getn t (length (heap t))) eqn:G; [|reflexivity]. apply getn_lt in G. lia.
Qed.

Lemma alloc_key_new id t : key_of (snd (alloc id t)) (length (heap t)) = upper id.
Proof. unfold key_of. rewrite alloc_getn_new. reflexivity. Qed.

(* ---- detach_from_parent ---- *)
Lemma remove_kid_getn t q e x :
  getn (remove_kid t q e) x =
  match getn t x with
  | Some n => Some (mkNode (nid n) (npar n)
                           (if Nat.eqb x q then filter (fun c => negb (Nat.eqb c e)) (nkids n) else nkids n))
  | None => None
  end.
Proof.
  unfold remove_kid, getn. simpl. destruct (Nat.eq_dec x q) as [->|Hne].
  - rewrite Nat.eqb_refl, nth_upd_same. destruct (nth_error (heap t) q); reflexivity.
  - rewrite (proj2 (Nat.eqb_neq _ _) Hne), nth_upd_other by congruence.
    destruct (nth_error (heap t) x) as [[a b c]|]; reflexivity.
Qed.

Lemma detach_none t e : parent_of t e = None -> detach t e = t.
Proof. intro H. unfold detach. rewrite H. reflexivity. Qed.

Lemma detach_len t e : length (heap (detach t e)) = length (heap t).
Proof. unfold detach. destruct (parent_of t e); [|reflexivity]. unfold remove_kid. simpl. apply upd_length. Qed.

Lemma detach_emap t e : emap (detach t e) = emap t.
Proof. unfold detach. destruct (parent_of t e); reflexivity. Qed.

Lemma detach_parent t e x : parent_of (detach t e) x = parent_of t x.
Proof.
  unfold detach. destruct (parent_of t e) as [q|]; [|reflexivity].
  unfold parent_of at 1. rewrite remove_kid_getn. unfold parent_of. destruct (getn t x); reflexivity.
Qed.

Lemma detach_key t e x : key_of (detach t e) x = key_of t x.
Proof.
  unfold detach. destruct (parent_of t e) as [q|]; [|reflexivity].
  unfold key_of. rewrite remove_kid_getn. destruct (getn t x); reflexivity.
Qed.

Lemma detach_kids t e x :
  kids_of (detach t e) x =
  match parent_of t e with
  | Some q => if Nat.eqb x q then filter (fun c => negb (Nat.eqb c e)) (kids_of t x) else kids_of t x
  | None => kids_of t x
  end.
Proof.
  unfold detach. destruct (parent_of t e) as [q|]; [|reflexivity].
  unfold kids_of. rewrite remove_kid_getn. destruct (getn t x); [|destruct (Nat.eqb x q); reflexivity].
  simpl. destruct (Nat.eqb x q); reflexivity.
Qed.

Lemma relink_len t e p : length (heap (relink t e p)) = length (heap t).
Proof. unfold relink. rewrite link_len, detach_len. reflexivity. Qed.

Lemma relink_emap t e p : emap (relink t e p) = emap t.
Proof. unfold relink. rewrite link_emap, detach_emap. reflexivity. Qed.

Lemma relink_parent t e p x :
  parent_of (relink t e p) x =
  if Nat.eqb x e then (if Nat.ltb e (length (heap t)) then Some p else None) else parent_of t x.
Proof. unfold relink. rewrite link_parent, detach_len, detach_parent. reflexivity. Qed.

Lemma relink_kids t e p x :
  kids_of (relink t e p) x =
  if Nat.eqb x p then (if Nat.ltb p (length (heap t)) then kids_of (detach t e) p ++ [e] else [])
  else kids_of (detach t e) x.
Proof. unfold relink. rewrite link_kids, detach_len. reflexivity. Qed.

(* ------------------------------------------------------------------------------------------ *)
(* Part 2: the declared relation, the invariants                                                *)
(* ------------------------------------------------------------------------------------------ *)
Definition ckey (f : file) : str := upper (fst f).

(* the declared inheritance relation, on upper-cased names: child -> parent *)
Definition R (fs : list file) (a b : str) : Prop :=
  exists c pn, In (c, Some pn) fs /\ upper c = a /\ upper pn = b.

Definition pkey (f : file) : list str := match snd f with Some pn => [upper pn] | None => [] end.
Definition names (fs : list file) : list str := map ckey fs ++ flat_map pkey fs.

(* the class declarations form a forest: one file per class name (ignoring case) and the
   declared-parent relation has no cycle *)
Definition Forest (fs : list file) : Prop :=
  NoDup (map ckey fs) /\ forall k, ~ clos_trans str (R fs) k k.

Definition pc_file (c : pc) : list file :=
  match c with
  | PIdle => []
  | PInsE f | PPar _ f | PInsP _ f | PLink _ _ f => [f]
  end.
Definition wpending (w : worker) : list file := pc_file (wpc w) ++ todo w.
Definition pending (l : list worker) : list file := flat_map wpending l.

Definition valid (t : tree) (p : nat) (k : str) : Prop := p < length (heap t) /\ key_of t p = k.

Definition par (t : tree) : nat -> option nat := parent_of t.

(* invariant of the tree for file lists with one file per class; `pend` = files not yet completed *)
Record CInv (fs : list file) (t : tree) (pend : list file) : Prop := {
  iA1 : forall p, p < length (heap t) -> lookup t (key_of t p) = Some p;
  iA2 : forall k p, lookup t k = Some p -> valid t p k;
  iB  : forall e q, parent_of t e = Some q ->
          e < length (heap t) /\ q < length (heap t) /\ R fs (key_of t e) (key_of t q);
  iC1 : forall q e, In e (kids_of t q) <-> parent_of t e = Some q;
  iC2 : forall q, NoDup (kids_of t q);
  iD  : forall e q, parent_of t e = Some q -> ~ In (key_of t e) (map ckey pend);
  iG  : forall k, In k (keys t) -> In k (names fs);
  iT  : Term (par t)
}.

(* completeness: every completed file is represented *)
Definition EInv (fs : list file) (t : tree) (pend : list file) : Prop :=
  forall f, In f fs -> ~ In f pend ->
    exists e, lookup t (ckey f) = Some e /\
      forall pn, snd f = Some pn -> exists q, lookup t (upper pn) = Some q /\ parent_of t e = Some q.

Definition WInv (t : tree) (w : worker) : Prop :=
  match wpc w with
  | PIdle | PInsE _ => True
  | PPar e f | PInsP e f => valid t e (ckey f)
  | PLink e p f => valid t e (ckey f) /\ exists pn, snd f = Some pn /\ valid t p (upper pn)
  end.

Lemma lookup_keys t k : lookup t k <> None <-> In k (keys t).
Proof.
  unfold lookup, keys. split.
  - intro H. destruct (alookup k (emap t)) eqn:E; [eapply alookup_In; eauto | congruence].
  - intros H E. apply alookup_None_notin in E. contradiction.
Qed.

Lemma names_ckey fs f : In f fs -> In (ckey f) (names fs).
Proof. intro H. unfold names. apply in_or_app. left. apply in_map. exact H. Qed.

Lemma names_pkey fs f pn : In f fs -> snd f = Some pn -> In (upper pn) (names fs).
Proof.
  intros H Hs. unfold names. apply in_or_app. right. apply in_flat_map. exists f. split; [exact H|].
  unfold pkey. rewrite Hs. left. reflexivity.
Qed.

Lemma names_length fs : length (names fs) <= 2 * length fs.
Proof.
  unfold names. rewrite app_length, map_length.
  assert (length (flat_map pkey fs) <= length fs).
  { induction fs as [|f fs IH]; simpl; [lia|]. rewrite app_length. unfold pkey at 1.
    destruct (snd f); simpl; lia. }
  lia.
Qed.

(* ---- the empty tree ---- *)
Lemma CInv_empty fs pend : CInv fs empty pend.
Proof.
  constructor; unfold empty, lookup, parent_of, kids_of, getn, keys, par; simpl.
  - intros p H. lia.
  - intros k p H. discriminate.
  - intros e q H. destruct e; discriminate.
  - intros q e. destruct q, e; simpl; split; intro H; try contradiction; discriminate.
  - intro q. destruct q; constructor.
  - intros e q H. destruct e; discriminate.
  - intros k H. contradiction.
  - intro p. exists 1. simpl. unfold parent_of, getn. simpl. destruct p; reflexivity.
Qed.

(* ---- validity is monotone ---- *)
Lemma valid_alloc id t p k : valid t p k -> valid (snd (alloc id t)) p k.
Proof.
  intros [H1 H2]. split; [rewrite alloc_len; lia | rewrite alloc_key_old; assumption].
Qed.

Lemma valid_link t e q p k : valid t p k -> valid (link t e q) p k.
Proof. intros [H1 H2]. split; [rewrite link_len; exact H1 | rewrite link_key; exact H2]. Qed.

Lemma valid_alloc_new id t : valid (snd (alloc id t)) (length (heap t)) (upper id).
Proof. split; [rewrite alloc_len; lia | apply alloc_key_new]. Qed.

(* ---- alloc keeps the invariants ---- *)
Lemma par_alloc id t : forall x, par t x = par (snd (alloc id t)) x.
Proof. intro x. unfold par. symmetry. apply alloc_parent. Qed.

Lemma CInv_alloc fs t pend id :
  CInv fs t pend -> lookup t (upper id) = None -> In (upper id) (names fs) ->
  CInv fs (snd (alloc id t)) pend.
Proof.
  intros I Hn Hin. set (t' := snd (alloc id t)).
  assert (Hfresh : forall p, p < length (heap t) -> key_of t p <> upper id).
  { intros p Hp E. pose proof (iA1 _ _ _ I p Hp) as H. rewrite E in H. congruence. }
  constructor.
  - intros p Hp. unfold t' in *. rewrite alloc_len in Hp. rewrite alloc_lookup.
    destruct (Nat.eq_dec p (length (heap t))) as [->|Hne].
    + rewrite alloc_key_new, str_eqb_refl. reflexivity.
    + assert (Hlt : p < length (heap t)) by lia. rewrite alloc_key_old by exact Hlt.
      destruct (str_eqb (key_of t p) (upper id)) eqn:E.
      * apply str_eqb_eq in E. exfalso. exact (Hfresh p Hlt E).
      * apply (iA1 _ _ _ I). exact Hlt.
  - intros k p H. unfold t' in *. rewrite alloc_lookup in H.
    destruct (str_eqb k (upper id)) eqn:E.
    + apply str_eqb_eq in E. inversion H; subst. apply valid_alloc_new.
    + apply valid_alloc. apply (iA2 _ _ _ I). exact H.
  - intros e q H. unfold t' in *. rewrite alloc_parent in H.
    destruct (iB _ _ _ I e q H) as [H1 [H2 H3]].
    rewrite alloc_len, !alloc_key_old by assumption. repeat split; try lia. exact H3.
  - intros q e. unfold t'. rewrite alloc_kids, alloc_parent. apply (iC1 _ _ _ I).
  - intro q. unfold t'. rewrite alloc_kids. apply (iC2 _ _ _ I).
  - intros e q H. unfold t' in *. rewrite alloc_parent in H.
    destruct (iB _ _ _ I e q H) as [H1 _]. rewrite alloc_key_old by exact H1. apply (iD _ _ _ I e q H).
  - intros k H. unfold t', keys in H. simpl in H. apply keys_ainsert in H as [->|H]; [exact Hin|].
    apply (iG _ _ _ I). exact H.
  - apply Term_ext with (par t); [apply par_alloc | apply (iT _ _ _ I)].
Qed.

Lemma EInv_alloc fs t pend id :
  CInv fs t pend -> EInv fs t pend -> lookup t (upper id) = None -> EInv fs (snd (alloc id t)) pend.
Proof.
  intros I E Hn f Hf Hp. destruct (E f Hf Hp) as [e [He Hpn]].
  assert (Hk : forall k x, lookup t k = Some x -> lookup (snd (alloc id t)) k = Some x).
  { intros k x H. rewrite alloc_lookup. destruct (str_eqb k (upper id)) eqn:Ek; [|exact H].
    apply str_eqb_eq in Ek. subst. congruence. }
  exists e. split; [apply Hk; exact He|].
  intros pn Hs. destruct (Hpn pn Hs) as [q [Hq1 Hq2]]. exists q. split; [apply Hk; exact Hq1|].
  rewrite alloc_parent. exact Hq2.
Qed.

(* ---- get_or_create ---- *)
Lemma goc_cases id t :
  (exists p, lookup t (upper id) = Some p /\ get_or_create id t = (p, t)) \/
  (lookup t (upper id) = None /\ get_or_create id t = alloc id t).
Proof. unfold get_or_create. destruct (lookup t (upper id)) eqn:E; [left; eauto | right; auto]. Qed.

Lemma CInv_goc fs t pend id :
  CInv fs t pend -> In (upper id) (names fs) ->
  CInv fs (snd (get_or_create id t)) pend /\ valid (snd (get_or_create id t)) (fst (get_or_create id t)) (upper id).
Proof.
  intros I Hin. destruct (goc_cases id t) as [[p [H1 H2]]|[H1 H2]]; rewrite H2.
  - split; [exact I | apply (iA2 _ _ _ I); exact H1].
  - split; [apply CInv_alloc; assumption | apply valid_alloc_new].
Qed.

Lemma EInv_goc fs t pend id :
  CInv fs t pend -> EInv fs t pend -> EInv fs (snd (get_or_create id t)) pend.
Proof.
  intros I E. destruct (goc_cases id t) as [[p [H1 H2]]|[H1 H2]]; rewrite H2; [exact E|].
  apply EInv_alloc; assumption.
Qed.

Lemma valid_goc id t p k : valid t p k -> valid (snd (get_or_create id t)) p k.
Proof.
  intro H. destruct (goc_cases id t) as [[x [H1 H2]]|[H1 H2]]; rewrite H2; [exact H | apply valid_alloc; exact H].
Qed.

(* ---- is_self_or_ancestor ---- *)
Lemma isa_false F t e p : isa F t e p = false -> forall k, anc (par t) k p <> Some e.
Proof.
  revert p. induction F as [|F IH]; intros p H k; simpl in H; [discriminate|].
  destruct (Nat.eqb p e) eqn:E; [discriminate|]. apply Nat.eqb_neq in E.
  destruct k as [|k]; simpl; [congruence|]. unfold par at 1.
  destruct (parent_of t p) as [q|]; [apply IH; exact H | discriminate].
Qed.

Lemma isa_true F t e p :
  isa F t e p = true -> (exists k, anc (par t) k p = Some e) \/ (exists q, anc (par t) F p = Some q).
Proof.
  revert p. induction F as [|F IH]; intros p H; simpl in H.
  - right. exists p. reflexivity.
  - destruct (Nat.eqb p e) eqn:E.
    + apply Nat.eqb_eq in E. subst. left. exists 0. reflexivity.
    + destruct (parent_of t p) as [q|] eqn:Eq; [|discriminate].
      destruct (IH q H) as [[k Hk]|[x Hx]].
      * left. exists (S k). simpl. unfold par at 1. rewrite Eq. exact Hk.
      * right. exists x. simpl. unfold par at 1. rewrite Eq. exact Hx.
Qed.

Lemma CInv_bounded fs t pend : CInv fs t pend -> Bounded (par t) (length (heap t)).
Proof. intros I p q H. destruct (iB _ _ _ I p q H) as [H1 [H2 _]]. split; assumption. Qed.

(* a chain of parent links is a chain of declarations *)
Lemma anc_R fs t pend k p q :
  CInv fs t pend -> anc (par t) (S k) p = Some q -> clos_trans str (R fs) (key_of t p) (key_of t q).
Proof.
  intro I. revert p. induction k as [|k IH]; intros p H.
  - simpl in H. unfold par in H. destruct (parent_of t p) as [x|] eqn:E; [|discriminate].
    inversion H; subst. apply t_step. apply (iB _ _ _ I p q E).
  - change (anc (par t) (S (S k)) p) with (match par t p with Some x => anc (par t) (S k) x | None => None end) in H.
    unfold par at 1 in H. destruct (parent_of t p) as [x|] eqn:E; [|discriminate].
    apply t_trans with (key_of t x); [apply t_step; apply (iB _ _ _ I p x E) | apply IH; exact H].
Qed.

Lemma NoDup_map_inj_in {A B} (f : A -> B) l :
  (forall x y, In x l -> In y l -> f x = f y -> x = y) -> NoDup l -> NoDup (map f l).
Proof.
  intros Hinj Hnd. induction Hnd as [|a l Hnin Hnd IH]; simpl; constructor.
  - intro Hin. apply in_map_iff in Hin as [y [Hy1 Hy2]].
    assert (y = a) by (apply Hinj; simpl; auto). subst. contradiction.
  - apply IH. intros x y Hx Hy. apply Hinj; simpl; auto.
Qed.

(* the heap holds at most one node per name *)
Lemma heap_le_names fs t pend : CInv fs t pend -> length (heap t) <= length (names fs).
Proof.
  intro I.
  assert (Hnd : NoDup (map (key_of t) (seq 0 (length (heap t))))).
  { apply NoDup_map_inj_in; [|apply seq_NoDup].
    intros x y Hx Hy Hxy. apply in_seq in Hx. apply in_seq in Hy.
    pose proof (iA1 _ _ _ I x ltac:(lia)) as H1. pose proof (iA1 _ _ _ I y ltac:(lia)) as H2.
    rewrite Hxy in H1. congruence. }
  assert (Hincl : incl (map (key_of t) (seq 0 (length (heap t)))) (names fs)).
  { intros k Hk. apply in_map_iff in Hk as [x [Hx1 Hx2]]. apply in_seq in Hx2. subst k.
    apply (iG _ _ _ I). apply lookup_keys. rewrite (iA1 _ _ _ I x ltac:(lia)). discriminate. }
  pose proof (NoDup_incl_length Hnd Hincl) as H. rewrite map_length, seq_length in H. exact H.
Qed.

(* ------------------------------------------------------------------------------------------ *)
(* Part 3: linking                                                                              *)
(* ------------------------------------------------------------------------------------------ *)
Lemma CInv_shrink fs t pend pend' :
  CInv fs t pend -> (forall g, In g pend' -> In g pend) -> CInv fs t pend'.
Proof.
  intros I Hsub. destruct I. constructor; auto.
  intros e q H Hin. apply (iD0 e q H). apply in_map_iff in Hin as [g [Hg1 Hg2]].
  apply in_map_iff. exists g. auto.
Qed.

Lemma pending_no_parent fs t pend f e :
  CInv fs t pend -> In f pend -> valid t e (ckey f) -> parent_of t e = None.
Proof.
  intros I Hin [_ Hk]. destruct (parent_of t e) as [q|] eqn:E; [|reflexivity].
  exfalso. apply (iD _ _ _ I e q E). rewrite Hk. apply in_map. exact Hin.
Qed.

Lemma par_link t e p : e < length (heap t) -> forall x, pupd (par t) e p x = par (link t e p) x.
Proof.
  intros He x. unfold pupd, par. rewrite link_parent. destruct (Nat.eqb x e); [|reflexivity].
  apply Nat.ltb_lt in He. rewrite He. reflexivity.
Qed.

Lemma file_eta (f : file) pn : snd f = Some pn -> f = (fst f, Some pn).
Proof. destruct f; simpl; intro; subst; reflexivity. Qed.

Lemma R_file fs f pn : In f fs -> snd f = Some pn -> R fs (ckey f) (upper pn).
Proof.
  intros Hin Hs. exists (fst f), pn. rewrite <- (file_eta f pn Hs). auto.
Qed.

Lemma CInv_link fs t pend pend' f e p pn :
  CInv fs t pend -> In f fs -> snd f = Some pn -> valid t e (ckey f) -> valid t p (upper pn) ->
  In f pend -> (forall g, In g pend' -> In g pend) -> ~ In (ckey f) (map ckey pend') ->
  (forall k, anc (par t) k p <> Some e) ->
  CInv fs (link t e p) pend'.
Proof.
  intros I Hf Hs He Hp Hin Hsub Hnot Hav.
  pose proof (pending_no_parent _ _ _ _ _ I Hin He) as Hnone.
  destruct He as [He Hke]. destruct Hp as [Hp Hkp].
  assert (HeL : Nat.ltb e (length (heap t)) = true) by (apply Nat.ltb_lt; exact He).
  assert (HpL : Nat.ltb p (length (heap t)) = true) by (apply Nat.ltb_lt; exact Hp).
  assert (Hnk : forall q, ~ In e (kids_of t q)).
  { intros q Hq. apply (iC1 _ _ _ I) in Hq. congruence. }
  constructor.
  - intros x Hx. rewrite link_len in Hx. rewrite link_key. unfold lookup. rewrite link_emap. apply (iA1 _ _ _ I x Hx).
  - intros k x H. unfold lookup in H. rewrite link_emap in H. apply valid_link. apply (iA2 _ _ _ I k x H).
  - intros x q H. rewrite link_parent, HeL in H. rewrite link_len, !link_key.
    destruct (Nat.eqb x e) eqn:E.
    + apply Nat.eqb_eq in E. inversion H; subst. repeat split; try assumption.
      rewrite Hke, Hkp. apply R_file; assumption.
    + apply (iB _ _ _ I x q H).
  - intros q x. rewrite link_kids, link_parent, HeL, HpL.
    destruct (Nat.eqb q p) eqn:Eq; destruct (Nat.eqb x e) eqn:Ex;
      try apply Nat.eqb_eq in Eq; try apply Nat.eqb_eq in Ex; subst.
    + split; intro; [reflexivity | apply in_or_app; right; left; reflexivity].
    + apply Nat.eqb_neq in Ex. rewrite in_app_iff. rewrite (iC1 _ _ _ I p x). simpl. split; [intros [H|[H|[]]]; congruence | auto].
    + apply Nat.eqb_neq in Eq. split; [intro H; exfalso; exact (Hnk q H) | intro H; inversion H; congruence].
    + apply (iC1 _ _ _ I).
  - intro q. rewrite link_kids, HpL. destruct (Nat.eqb q p) eqn:Eq; [|apply (iC2 _ _ _ I)].
    apply Permutation_NoDup with (e :: kids_of t p).
    + apply Permutation_cons_append.
    + constructor; [apply Hnk | apply (iC2 _ _ _ I)].
  - intros x q H. rewrite link_parent, HeL in H. rewrite link_key.
    destruct (Nat.eqb x e) eqn:E.
    + apply Nat.eqb_eq in E. subst. rewrite Hke. exact Hnot.
    + intro Hin'. apply (iD _ _ _ I x q H). apply in_map_iff in Hin' as [g [Hg1 Hg2]].
      apply in_map_iff. exists g. auto.
  - intros k H. apply (iG _ _ _ I). exact H.
  - apply Term_ext with (pupd (par t) e p); [apply par_link; exact He|].
    apply add_edge_Term; [apply (iT _ _ _ I) | exact Hav].
Qed.

Lemma file_eq_dec (a b : file) : {a = b} + {a <> b}.
Proof. repeat decide equality. Qed.

Lemma valid_lookup fs t pend p k : CInv fs t pend -> valid t p k -> lookup t k = Some p.
Proof. intros I [H1 H2]. rewrite <- H2. apply (iA1 _ _ _ I). exact H1. Qed.

Lemma EInv_link fs t pend pend' f e p pn :
  CInv fs t pend -> EInv fs t pend -> snd f = Some pn ->
  valid t e (ckey f) -> valid t p (upper pn) -> In f pend ->
  (forall g, In g pend -> g = f \/ In g pend') ->
  EInv fs (link t e p) pend'.
Proof.
  intros I E Hs He Hp Hin Hcov g Hg Hnot.
  pose proof (pending_no_parent _ _ _ _ _ I Hin He) as Hnone.
  assert (HeL : Nat.ltb e (length (heap t)) = true) by (apply Nat.ltb_lt; apply He).
  assert (Hcase : g = f \/ ~ In g pend).
  { destruct (in_dec file_eq_dec g pend) as [Hi|Hi]; [|right; exact Hi].
    destruct (Hcov g Hi) as [->|Hi']; [left; reflexivity | contradiction]. }
  destruct Hcase as [->|Hnp].
  - exists e. split; [unfold lookup; rewrite link_emap; apply (valid_lookup _ _ _ _ _ I He)|].
    intros pn' Hs'. assert (pn' = pn) by congruence. subst pn'.
    exists p. split; [unfold lookup; rewrite link_emap; apply (valid_lookup _ _ _ _ _ I Hp)|].
    rewrite link_parent, Nat.eqb_refl, HeL. reflexivity.
  - destruct (E g Hg Hnp) as [e' [He' Hpn']]. exists e'. split; [exact He'|].
    intros pn' Hs'. destruct (Hpn' pn' Hs') as [q [Hq1 Hq2]]. exists q. split; [exact Hq1|].
    rewrite link_parent. destruct (Nat.eqb e' e) eqn:Ee; [|exact Hq2].
    apply Nat.eqb_eq in Ee. subst. congruence.
Qed.

(* ------------------------------------------------------------------------------------------ *)
(* Part 4: on a forest the cycle check never refuses; one step of one worker                    *)
(* ------------------------------------------------------------------------------------------ *)
Lemma guard_inert fs t pend f e p pn :
  CInv fs t pend -> Forest fs -> 2 * length fs < isa_bound ->
  In f fs -> snd f = Some pn -> valid t e (ckey f) -> valid t p (upper pn) ->
  isa isa_bound t e p = false.
Proof.
  intros I [_ Hac] Hb Hf Hs [He Hke] [Hp Hkp].
  destruct (isa isa_bound t e p) eqn:E; [exfalso | reflexivity].
  pose proof (R_file fs f pn Hf Hs) as HR. rewrite <- Hke, <- Hkp in HR.
  destruct (isa_true _ _ _ _ E) as [[k Hk]|[q Hq]].
  - destruct k as [|k].
    + simpl in Hk. inversion Hk; subst. apply (Hac (key_of t e)). apply t_step. exact HR.
    + apply (Hac (key_of t e)). apply t_trans with (key_of t p); [apply t_step; exact HR|].
      eapply anc_R; eauto.
  - pose proof (chain_bound (par t) (length (heap t)) isa_bound p q
                  (Term_Acyc _ (iT _ _ _ I)) (CInv_bounded _ _ _ I) Hp Hq) as H1.
    pose proof (heap_le_names _ _ _ I) as H2. pose proof (names_length fs) as H3. lia.
Qed.

Lemma WInv_mono t t' w : (forall p k, valid t p k -> valid t' p k) -> WInv t w -> WInv t' w.
Proof.
  intros Hm. unfold WInv. destruct (wpc w); auto.
  intros [H1 [pn [H2 H3]]]. split; [auto | exists pn; auto].
Qed.

(* what one step of a worker does to the files it still has to complete *)
Definition completes (w w' : worker) : Prop :=
  wpending w' = wpending w \/ exists f, wpending w = f :: wpending w'.

Section Step.
  Variable fs : list file.
  Variables A B : list file.       (* the pending files of the other workers *)

  Definition ctx (l : list file) := A ++ l ++ B.

  Lemma ctx_drop_sub f l : forall g, In g (ctx l) -> In g (ctx (f :: l)).
  Proof.
    intros g H. unfold ctx in *. rewrite !in_app_iff in *. simpl. tauto.
  Qed.

  Lemma ctx_drop_cov f l : forall g, In g (ctx (f :: l)) -> g = f \/ In g (ctx l).
  Proof.
    intros g H. unfold ctx in *. rewrite !in_app_iff in *. simpl in H. intuition.
  Qed.

  Lemma ctx_drop_nodup f l :
    NoDup (map ckey (ctx (f :: l))) -> NoDup (map ckey (ctx l)) /\ ~ In (ckey f) (map ckey (ctx l)).
  Proof.
    unfold ctx. rewrite !map_app. simpl. intro H.
    split; [eapply NoDup_remove_1; eauto | eapply NoDup_remove_2; eauto].
  Qed.

  Lemma ctx_in f l : In f (ctx (f :: l)).
  Proof. unfold ctx. rewrite !in_app_iff. simpl. auto. Qed.

  (* the invariants that hold for every file list with one file per class *)
  Definition WS (t : tree) (w : worker) : Prop :=
    CInv fs t (ctx (wpending w)) /\ WInv t w /\
    NoDup (map ckey (ctx (wpending w))) /\ incl (ctx (wpending w)) fs.

  Lemma wstep_WS t w :
    WS t w ->
    WS (fst (wstep true true t w)) (snd (wstep true true t w)) /\
    (forall p k, valid t p k -> valid (fst (wstep true true t w)) p k).
  Proof.
    intros [I [HW [Hnd Hincl]]]. unfold wstep, WS.
    destruct w as [td c]. unfold wpending, WInv in *. simpl in *.
    destruct c as [|f|e f|e f|e p f]; simpl in *.
    - (* PIdle *)
      destruct td as [|f rest]; simpl; [auto|].
      destruct (lookup t (upper (fst f))) as [e|] eqn:E; simpl.
      + refine (conj (conj I (conj _ (conj Hnd Hincl))) (fun _ _ H => H)).
        apply (iA2 _ _ _ I). exact E.
      + exact (conj (conj I (conj Logic.I (conj Hnd Hincl))) (fun _ _ H => H)).
    - (* PInsE *)
      assert (Hf : In f fs) by (apply Hincl; apply ctx_in).
      destruct (CInv_goc fs t _ (fst f) I (names_ckey fs f Hf)) as [I' Hv].
      unfold insert_step. pose proof (valid_goc (fst f) t) as Hm.
      destruct (get_or_create (fst f) t) as [e t'] eqn:G. simpl in *.
      exact (conj (conj I' (conj Hv (conj Hnd Hincl))) Hm).
    - (* PPar *)
      destruct (snd f) as [pn|] eqn:Hs.
      + destruct (lookup t (upper pn)) as [p|] eqn:E; simpl.
        * refine (conj (conj I (conj (conj HW _) (conj Hnd Hincl))) (fun _ _ H => H)).
          exists pn. split; [first [reflexivity | exact Hs] | apply (iA2 _ _ _ I); exact E].
        * exact (conj (conj I (conj HW (conj Hnd Hincl))) (fun _ _ H => H)).
      + simpl. destruct (ctx_drop_nodup f td Hnd) as [Hnd' _].
        refine (conj (conj _ (conj Logic.I (conj Hnd' _))) (fun _ _ H => H)).
        * apply CInv_shrink with (ctx (f :: td)); [exact I | apply ctx_drop_sub].
        * intros g Hg. apply Hincl. apply ctx_drop_sub. exact Hg.
    - (* PInsP *)
      assert (Hf : In f fs) by (apply Hincl; apply ctx_in).
      destruct (snd f) as [pn|] eqn:Hs.
      + destruct (CInv_goc fs t _ pn I (names_pkey fs f pn Hf Hs)) as [I' Hv].
        unfold insert_step. pose proof (valid_goc pn t) as Hm.
        destruct (get_or_create pn t) as [p t'] eqn:G. simpl in *.
        refine (conj (conj I' (conj (conj (Hm _ _ HW) _) (conj Hnd Hincl))) Hm).
        exists pn. split; [first [reflexivity | exact Hs] | exact Hv].
      + simpl. destruct (ctx_drop_nodup f td Hnd) as [Hnd' _].
        refine (conj (conj _ (conj Logic.I (conj Hnd' _))) (fun _ _ H => H)).
        * apply CInv_shrink with (ctx (f :: td)); [exact I | apply ctx_drop_sub].
        * intros g Hg. apply Hincl. apply ctx_drop_sub. exact Hg.
    - (* PLink *)
      assert (Hf : In f fs) by (apply Hincl; apply ctx_in).
      destruct HW as [He [pn [Hs Hp]]].
      destruct (ctx_drop_nodup f td Hnd) as [Hnd' Hnot].
      assert (Hincl' : incl (ctx td) fs).
      { intros g Hg. apply Hincl. apply ctx_drop_sub. exact Hg. }
      assert (Hdt : relink t e p = link t e p).
      { unfold relink. rewrite detach_none; [reflexivity|]. eapply pending_no_parent; eauto. apply ctx_in. }
      unfold check_link, check_link_g. simpl. rewrite Hdt. destruct (isa isa_bound t e p) eqn:Ei; simpl.
      + refine (conj (conj _ (conj Logic.I (conj Hnd' Hincl'))) (fun _ _ H => H)).
        apply CInv_shrink with (ctx (f :: td)); [exact I | apply ctx_drop_sub].
      + refine (conj (conj _ (conj Logic.I (conj Hnd' Hincl'))) (fun x k => valid_link t e p x k)).
        eapply CInv_link; eauto; [apply ctx_in | apply ctx_drop_sub | eapply isa_false; eauto].
  Qed.

  (* on a forest: completeness, and the cycle check is inert *)
  Lemma wstep_E t w :
    Forest fs -> 2 * length fs < isa_bound ->
    WS t w -> EInv fs t (ctx (wpending w)) ->
    EInv fs (fst (wstep true true t w)) (ctx (wpending (snd (wstep true true t w)))) /\
    wstep true false t w = wstep true true t w.
  Proof.
    intros HF Hb [I [HW [Hnd Hincl]]] E. unfold wstep.
    destruct w as [td c]. unfold wpending, WInv in *. simpl in *.
    destruct c as [|f|e f|e f|e p f]; simpl in *.
    - destruct td as [|f rest]; simpl; [auto|].
      destruct (lookup t (upper (fst f))) as [e|] eqn:Ee; simpl; auto.
    - unfold insert_step. pose proof (EInv_goc fs t _ (fst f) I E) as H.
      destruct (get_or_create (fst f) t) as [e t'] eqn:G. simpl in *. auto.
    - destruct (snd f) as [pn|] eqn:Hs.
      + destruct (lookup t (upper pn)) as [p|] eqn:Ep; simpl; auto.
      + simpl. split; [|reflexivity]. intros g Hg Hnp.
        destruct (in_dec file_eq_dec g (ctx (f :: td))) as [Hi|Hi]; [|apply E; assumption].
        destruct (ctx_drop_cov f td g Hi) as [->|Hi']; [|contradiction].
        exists e. split; [apply (valid_lookup _ _ _ _ _ I HW) | intros pn Hpn; congruence].
    - destruct (snd f) as [pn|] eqn:Hs.
      + unfold insert_step. pose proof (EInv_goc fs t _ pn I E) as H.
        destruct (get_or_create pn t) as [p t'] eqn:G. simpl in *. auto.
      + simpl. split; [|reflexivity]. intros g Hg Hnp.
        destruct (in_dec file_eq_dec g (ctx (f :: td))) as [Hi|Hi]; [|apply E; assumption].
        destruct (ctx_drop_cov f td g Hi) as [->|Hi']; [|contradiction].
        exists e. split; [apply (valid_lookup _ _ _ _ _ I HW) | intros pn Hpn; congruence].
    - assert (Hf : In f fs) by (apply Hincl; apply ctx_in).
      destruct HW as [He [pn [Hs Hp]]].
      assert (Hdt : relink t e p = link t e p).
      { unfold relink. rewrite detach_none; [reflexivity|]. eapply pending_no_parent; eauto. apply ctx_in. }
      unfold check_link, check_link_g. rewrite (guard_inert fs t _ f e p pn I HF Hb Hf Hs He Hp), Hdt. simpl.
      split; [|reflexivity].
      eapply EInv_link; eauto; [apply ctx_in | apply ctx_drop_cov].
  Qed.
End Step.

(* ------------------------------------------------------------------------------------------ *)
(* Part 5: all schedules of all chunkings                                                       *)
(* ------------------------------------------------------------------------------------------ *)
Lemma pending_split l i w :
  nth_error l i = Some w ->
  pending l = pending (firstn i l) ++ wpending w ++ pending (skipn (S i) l).
Proof.
  revert i. induction l as [|x l IH]; intros [|i] H; simpl in *; try discriminate.
  - inversion H; subst. reflexivity.
  - unfold pending in *. simpl. rewrite (IH i H). rewrite <- app_assoc. reflexivity.
Qed.

Lemma pending_upd l i w w' :
  nth_error l i = Some w ->
  pending (upd i (fun _ => w') l) = pending (firstn i l) ++ wpending w' ++ pending (skipn (S i) l).
Proof.
  revert i. induction l as [|x l IH]; intros [|i] H; simpl in *; try discriminate.
  - reflexivity.
  - unfold pending in *. simpl. rewrite (IH i H). rewrite <- app_assoc. reflexivity.
Qed.

Lemma Forall_upd {A} (P : A -> Prop) l i x : Forall P l -> P x -> Forall P (upd i (fun _ => x) l).
Proof.
  intros H Hx. revert i. induction H as [|y l Hy Hl IH]; intros [|i]; simpl; constructor; auto.
Qed.

Definition SInv (fs : list file) (s : sys) : Prop :=
  CInv fs (st s) (pending (ws s)) /\ Forall (WInv (st s)) (ws s) /\
  NoDup (map ckey (pending (ws s))) /\ incl (pending (ws s)) fs.

Lemma sstep_SInv fs s i : SInv fs s -> SInv fs (sstep true true s i).
Proof.
  intros [I [HW [Hnd Hincl]]]. unfold sstep.
  destruct (nth_error (ws s) i) as [w|] eqn:Ew; [|exact (conj I (conj HW (conj Hnd Hincl)))].
  pose proof (pending_split _ _ _ Ew) as Hp. pose proof (pending_upd (ws s) i w) as Hu.
  assert (Hw : WS fs (pending (firstn i (ws s))) (pending (skipn (S i) (ws s))) (st s) w).
  { unfold WS, ctx. rewrite <- Hp. refine (conj I (conj _ (conj Hnd Hincl))).
    eapply Forall_forall in HW; [exact HW | eapply nth_error_In; eauto]. }
  destruct (wstep_WS _ _ _ _ _ Hw) as [[I' [HW' [Hnd' Hincl']]] Hm].
  destruct (wstep true true (st s) w) as [t' w'] eqn:Es. simpl in *.
  unfold SInv. simpl. rewrite (Hu w' Ew). unfold ctx in *. refine (conj I' (conj _ (conj Hnd' Hincl'))).
  apply Forall_upd; [|exact HW'].
  eapply Forall_impl; [|exact HW]. intros x Hx. eapply WInv_mono; eauto.
Qed.

Lemma sstep_E fs s i :
  Forest fs -> 2 * length fs < isa_bound -> SInv fs s -> EInv fs (st s) (pending (ws s)) ->
  EInv fs (st (sstep true true s i)) (pending (ws (sstep true true s i))) /\
  sstep true false s i = sstep true true s i.
Proof.
  intros HF Hb [I [HW [Hnd Hincl]]] E. unfold sstep.
  destruct (nth_error (ws s) i) as [w|] eqn:Ew; [|split; [assumption | reflexivity]].
  pose proof (pending_split _ _ _ Ew) as Hp. pose proof (pending_upd (ws s) i w) as Hu.
  assert (Hw : WS fs (pending (firstn i (ws s))) (pending (skipn (S i) (ws s))) (st s) w).
  { unfold WS, ctx. rewrite <- Hp. refine (conj I (conj _ (conj Hnd Hincl))).
    eapply Forall_forall in HW; [exact HW | eapply nth_error_In; eauto]. }
  assert (E0 : EInv fs (st s) (ctx (pending (firstn i (ws s))) (pending (skipn (S i) (ws s))) (wpending w))).
  { unfold ctx. rewrite <- Hp. exact E. }
  destruct (wstep_E _ _ _ _ _ HF Hb Hw E0) as [E' Heq]. rewrite Heq.
  destruct (wstep true true (st s) w) as [t' w'] eqn:Es. simpl in *.
  rewrite (Hu w' Ew). split; [exact E' | reflexivity].
Qed.

Lemma run_SInv fs sched s : SInv fs s -> SInv fs (run true true sched s).
Proof.
  revert s. induction sched as [|i sched IH]; intros s H; simpl; [exact H|].
  apply IH. apply sstep_SInv. exact H.
Qed.

Lemma run_E fs sched s :
  Forest fs -> 2 * length fs < isa_bound -> SInv fs s -> EInv fs (st s) (pending (ws s)) ->
  EInv fs (st (run true true sched s)) (pending (ws (run true true sched s))) /\
  run true false sched s = run true true sched s.
Proof.
  intros HF Hb. revert s. induction sched as [|i sched IH]; intros s H E; simpl; [auto|].
  destruct (sstep_E fs s i HF Hb H E) as [E' Heq]. rewrite Heq.
  apply IH; [apply sstep_SInv; exact H | exact E'].
Qed.

Lemma pending_init cs : pending (ws (init cs)) = concat cs.
Proof.
  unfold init. simpl. induction cs as [|c cs IH]; simpl; [reflexivity|].
  unfold pending in *. simpl. rewrite IH. unfold wpending. simpl. reflexivity.
Qed.

Lemma init_SInv fs cs :
  NoDup (map ckey fs) -> Permutation (concat cs) fs -> SInv fs (init cs).
Proof.
  intros Hnd Hp. unfold SInv. rewrite pending_init. split; [|split; [|split]].
  - apply CInv_empty.
  - unfold init. simpl. apply Forall_forall. intros w Hw. apply in_map_iff in Hw as [c [<- _]].
    exact Logic.I.
  - apply Permutation_NoDup with (map ckey fs); [|exact Hnd]. apply Permutation_map. symmetry. exact Hp.
  - intros f Hf. eapply Permutation_in; eauto.
Qed.

Lemma init_E fs cs : Permutation (concat cs) fs -> EInv fs (st (init cs)) (pending (ws (init cs))).
Proof.
  intros Hp f Hf Hn. exfalso. apply Hn. rewrite pending_init. eapply Permutation_in; [symmetry|]; eauto.
Qed.

Lemma all_done_pending s : all_done s = true -> pending (ws s) = [].
Proof.
  unfold all_done. intro H. induction (ws s) as [|w l IH]; [reflexivity|].
  simpl in H. apply andb_true_iff in H as [H1 H2]. unfold pending. simpl.
  change (flat_map wpending l) with (pending l). rewrite (IH H2), app_nil_r.
  unfold wdone in H1. unfold wpending. destruct (todo w); [|discriminate]. destruct (wpc w); try discriminate. reflexivity.
Qed.

(* ---- the specification of a tree: the relation it represents is the declared one ---- *)
Record TreeSpec (fs : list file) (t : tree) : Prop := {
  (* one node per name, declared or referenced; no node outside the map *)
  sKeys   : forall k, In k (keys t) <-> In k (names fs);
  sNodes  : forall p, p < length (heap t) -> lookup t (key_of t p) = Some p;
  sMap    : forall k p, lookup t k = Some p -> p < length (heap t) /\ key_of t p = k;
  (* parent / children = the declared relation *)
  sParent : forall k q, kparent t k = Some q <-> R fs k q;
  sKids   : forall k c, In c (kchildren t k) <-> R fs c k;
  sKidsND : forall k, NoDup (kchildren t k);
  (* pointer level: the children lists are the inverse of the parent links, chains end *)
  sInv    : forall q e, In e (kids_of t q) <-> parent_of t e = Some q;
  sTerm   : Term (par t);
  sBound  : Bounded (par t) (length (heap t))
}.

Lemma TreeSpec_of_inv fs t : CInv fs t [] -> EInv fs t [] -> TreeSpec fs t.
Proof.
  intros I E.
  assert (Efile : forall f, In f fs -> exists e, lookup t (ckey f) = Some e /\
            forall pn, snd f = Some pn -> exists q, lookup t (upper pn) = Some q /\ parent_of t e = Some q).
  { intros f Hf. apply E; [exact Hf | intros []]. }
  assert (ER : forall k q, R fs k q -> exists e x, lookup t k = Some e /\ lookup t q = Some x /\ parent_of t e = Some x).
  { intros k q [c [pn [Hin [Hc Hp]]]]. destruct (Efile _ Hin) as [e [He Hpn]].
    destruct (Hpn pn eq_refl) as [x [Hx1 Hx2]]. unfold ckey in He. simpl in He. subst. eauto. }
  constructor.
  - intro k. split; [apply (iG _ _ _ I)|].
    intro H. unfold names in H. apply in_app_iff in H as [H|H].
    + apply in_map_iff in H as [f [<- Hf]]. destruct (Efile f Hf) as [e [He _]].
      apply lookup_keys. congruence.
    + apply in_flat_map in H as [f [Hf Hk]]. unfold pkey in Hk. destruct (snd f) as [pn|] eqn:Hs; [|contradiction].
      destruct Hk as [<-|[]]. destruct (Efile f Hf) as [e [_ Hpn]]. destruct (Hpn pn Hs) as [q [Hq _]].
      apply lookup_keys. congruence.
  - apply (iA1 _ _ _ I).
  - apply (iA2 _ _ _ I).
  - intros k q. unfold kparent. split.
    + destruct (lookup t k) as [e|] eqn:Ee; [|discriminate].
      destruct (parent_of t e) as [x|] eqn:Ex; [|discriminate]. intro H. inversion H; subst.
      destruct (iA2 _ _ _ I k e Ee) as [_ <-]. apply (iB _ _ _ I e x Ex).
    + intro HR. destruct (ER k q HR) as [e [x [H1 [H2 H3]]]]. rewrite H1, H3.
      destruct (iA2 _ _ _ I q x H2) as [_ ->]. reflexivity.
  - intros k c. unfold kchildren. split.
    + destruct (lookup t k) as [e|] eqn:Ee; [|intros []]. intro H.
      apply in_map_iff in H as [x [<- Hx]]. apply (iC1 _ _ _ I) in Hx.
      destruct (iA2 _ _ _ I k e Ee) as [_ <-]. apply (iB _ _ _ I x e Hx).
    + intro HR. destruct (ER c k HR) as [e [x [H1 [H2 H3]]]]. rewrite H2.
      apply in_map_iff. exists e. split; [apply (iA2 _ _ _ I c e H1) | apply (iC1 _ _ _ I); exact H3].
  - intro k. unfold kchildren. destruct (lookup t k) as [e|] eqn:Ee; [|constructor].
    apply NoDup_map_inj_in; [|apply (iC2 _ _ _ I)].
    intros x y Hx Hy Hxy. apply (iC1 _ _ _ I) in Hx, Hy.
    destruct (iB _ _ _ I x e Hx) as [Hx1 _]. destruct (iB _ _ _ I y e Hy) as [Hy1 _].
    pose proof (iA1 _ _ _ I x Hx1) as H1. pose proof (iA1 _ _ _ I y Hy1) as H2.
    rewrite Hxy in H1. congruence.
  - apply (iC1 _ _ _ I).
  - apply (iT _ _ _ I).
  - apply (CInv_bounded _ _ _ I).
Qed.

(* THE theorem about the parallel builder: every schedule of every chunking of a forest *)
Theorem par_spec fs cs sched :
  Forest fs -> 2 * length fs < isa_bound -> Permutation (concat cs) fs ->
  all_done (run true true sched (init cs)) = true ->
  TreeSpec fs (st (run true true sched (init cs))).
Proof.
  intros HF Hb Hp Hd.
  pose proof (init_SInv fs cs (proj1 HF) Hp) as H0.
  pose proof (run_SInv fs sched _ H0) as [I _].
  destruct (run_E fs sched _ HF Hb H0 (init_E fs cs Hp)) as [E _].
  rewrite (all_done_pending _ Hd) in I, E. apply TreeSpec_of_inv; assumption.
Qed.

Theorem guard_inert_run fs cs sched :
  Forest fs -> 2 * length fs < isa_bound -> Permutation (concat cs) fs ->
  run true false sched (init cs) = run true true sched (init cs).
Proof.
  intros HF Hb Hp.
  apply (run_E fs sched _ HF Hb (init_SInv fs cs (proj1 HF) Hp) (init_E fs cs Hp)).
Qed.

(* ---- the sequential builder is the one-thread instance ---- *)
Fixpoint witer (dc g : bool) (k : nat) (t : tree) (w : worker) : tree * worker :=
  match k with
  | O => (t, w)
  | S k' => let '(t', w') := wstep dc g t w in witer dc g k' t' w'
  end.

Lemma run_single dc g k t w :
  run dc g (repeat 0 k) (mkSys t [w]) = mkSys (fst (witer dc g k t w)) [snd (witer dc g k t w)].
Proof.
  revert t w. induction k as [|k IH]; intros t w; [reflexivity|].
  change (run dc g (repeat 0 (S k)) (mkSys t [w]))
    with (run dc g (repeat 0 k) (sstep dc g (mkSys t [w]) 0)).
  unfold sstep. cbn [nth_error ws st witer].
  destruct (wstep dc g t w) as [t' w'] eqn:E. cbn [upd]. apply IH.
Qed.

Lemma witer_add dc g a b t w :
  witer dc g (a + b) t w = witer dc g b (fst (witer dc g a t w)) (snd (witer dc g a t w)).
Proof.
  revert t w. induction a as [|a IH]; intros t w; simpl; [reflexivity|].
  destruct (wstep dc g t w) as [t' w']. apply IH.
Qed.

Lemma witer_done dc g k t : witer dc g k t (mkW [] PIdle) = (t, mkW [] PIdle).
Proof. induction k; simpl; auto. Qed.

Lemma one_file g t f rest :
  exists k, k <= 5 /\ witer true g k t (mkW (f :: rest) PIdle) = (add_file_g g t f, mkW rest PIdle).
Proof.
  unfold add_file_g, add_file_x. fold (check_link g).
  assert (Hpar : forall e t1, exists k, k <= 3 /\
            witer true g k t1 (mkW rest (PPar e f)) =
            (match snd f with
             | None => t1
             | Some pn => let '(p, t2) := get_or_create pn t1 in check_link g t2 e p
             end, mkW rest PIdle)).
  { intros e t1. destruct (snd f) as [pn|] eqn:Hs.
    - destruct (goc_cases pn t1) as [[p [H1 H2]]|[H1 H2]]; rewrite H2.
      + exists 2. split; [lia|]. cbn [witer wstep wpc todo]. rewrite Hs, H1. cbn [witer wstep wpc todo]. reflexivity.
      + exists 3. split; [lia|]. cbn [witer wstep wpc todo]. rewrite Hs, H1. cbn [witer wstep wpc todo].
        rewrite Hs. unfold insert_step. rewrite H2. destruct (alloc pn t1) as [p t2]. cbn [witer wstep wpc todo]. reflexivity.
    - exists 1. split; [lia|]. cbn [witer wstep wpc todo]. rewrite Hs. reflexivity. }
  destruct (goc_cases (fst f) t) as [[e [H1 H2]]|[H1 H2]]; rewrite H2.
  - destruct (Hpar e t) as [k [Hk1 Hk2]]. exists (S k). split; [lia|].
    cbn [witer wstep wpc todo]. rewrite H1. exact Hk2.
  - destruct (alloc (fst f) t) as [e t1] eqn:Ea. destruct (Hpar e t1) as [k [Hk1 Hk2]]. exists (S (S k)). split; [lia|].
    cbn [witer wstep wpc todo]. rewrite H1. cbn [witer wstep wpc todo]. unfold insert_step. rewrite H2. exact Hk2.
Qed.

Lemma files_witer g fs : forall t, exists k, k <= 5 * length fs /\
  witer true g k t (mkW fs PIdle) = (fold_left (add_file_g g) fs t, mkW [] PIdle).
Proof.
  induction fs as [|f fs IH]; intro t.
  - exists 0. split; [simpl; lia | reflexivity].
  - destruct (one_file g t f fs) as [k1 [Hk1 H1]]. destruct (IH (add_file_g g t f)) as [k2 [Hk2 H2]].
    exists (k1 + k2). split; [simpl; lia|]. rewrite witer_add, H1. simpl. exact H2.
Qed.

Theorem build_as_run g fs :
  st (run true g (seq_sched 0 [fs]) (init [fs])) = fold_left (add_file_g g) fs empty /\
  all_done (run true g (seq_sched 0 [fs]) (init [fs])) = true.
Proof.
  unfold seq_sched, init. rewrite app_nil_r. simpl map.
  destruct (files_witer g fs empty) as [k [Hk H]].
  replace (5 * length fs) with (k + (5 * length fs - k)) by lia.
  rewrite run_single, witer_add, H. simpl fst. simpl snd. rewrite witer_done. simpl. auto.
Qed.

Theorem seq_spec fs : Forest fs -> 2 * length fs < isa_bound -> TreeSpec fs (build fs).
Proof.
  intros HF Hb. destruct (build_as_run true fs) as [H1 H2]. unfold build, add_file. rewrite <- H1.
  apply par_spec; try assumption. simpl. rewrite app_nil_r. apply Permutation_refl.
Qed.

Theorem guard_inert_seq fs : Forest fs -> 2 * length fs < isa_bound -> build_old fs = build fs.
Proof.
  intros HF Hb. unfold build_old, build, add_file.
  rewrite <- (proj1 (build_as_run false fs)), <- (proj1 (build_as_run true fs)).
  rewrite guard_inert_run with (fs := fs); auto. simpl. rewrite app_nil_r. apply Permutation_refl.
Qed.

(* ------------------------------------------------------------------------------------------ *)
(* Part 6: order and letter case do not matter                                                  *)
(* ------------------------------------------------------------------------------------------ *)
Lemma R_incl fs fs' : (forall f, In f fs -> In f fs') -> forall a b, R fs a b -> R fs' a b.
Proof. intros H a b [c [pn [H1 H2]]]. exists c, pn. split; auto. Qed.

Lemma clos_trans_incl (P Q : str -> str -> Prop) :
  (forall a b, P a b -> Q a b) -> forall a b, clos_trans str P a b -> clos_trans str Q a b.
Proof.
  intros H a b Hc. induction Hc; [apply t_step; auto | eapply t_trans; eauto].
Qed.

Lemma names_incl fs fs' : (forall f, In f fs -> In f fs') -> forall k, In k (names fs) -> In k (names fs').
Proof.
  intros H k Hk. unfold names in *. apply in_app_iff in Hk as [Hk|Hk]; apply in_app_iff.
  - left. apply in_map_iff in Hk as [f [<- Hf]]. apply in_map. auto.
  - right. apply in_flat_map in Hk as [f [Hf Hk]]. apply in_flat_map. exists f. auto.
Qed.

Lemma Forest_perm fs fs' : Permutation fs fs' -> Forest fs -> Forest fs'.
Proof.
  intros Hp [H1 H2]. split.
  - apply Permutation_NoDup with (map ckey fs); [apply Permutation_map; exact Hp | exact H1].
  - intros k Hk. apply (H2 k). revert Hk. apply clos_trans_incl. apply R_incl.
    intros f Hf. eapply Permutation_in; [symmetry|]; eauto.
Qed.

(* two trees represent the same relation *)
Record same_rel (t t' : tree) : Prop := {
  rKeys   : forall k, In k (keys t) <-> In k (keys t');
  rParent : forall k, kparent t k = kparent t' k;
  rKids   : forall k, Permutation (kchildren t k) (kchildren t' k)
}.

Lemma kparent_functional fs t k q q' : TreeSpec fs t -> R fs k q -> R fs k q' -> q = q'.
Proof.
  intros S H1 H2. apply (sParent _ _ S) in H1, H2. congruence.
Qed.

Lemma same_rel_of_spec fs fs' t t' :
  TreeSpec fs t -> TreeSpec fs' t' ->
  (forall a b, R fs a b <-> R fs' a b) -> (forall k, In k (names fs) <-> In k (names fs')) ->
  same_rel t t'.
Proof.
  intros S S' HR HN. constructor.
  - intro k. rewrite (sKeys _ _ S), (sKeys _ _ S'). apply HN.
  - intro k. destruct (kparent t k) as [q|] eqn:E.
    + symmetry. apply (sParent _ _ S'). apply HR. apply (sParent _ _ S). exact E.
    + destruct (kparent t' k) as [q|] eqn:E'; [|reflexivity].
      apply (sParent _ _ S') in E'. apply HR in E'. apply (sParent _ _ S) in E'. congruence.
  - intro k. apply NoDup_Permutation; [apply (sKidsND _ _ S) | apply (sKidsND _ _ S')|].
    intro c. rewrite (sKids _ _ S), (sKids _ _ S'). apply HR.
Qed.

(* the same classes and parents, names possibly spelled in another letter case *)
Definition recased (fs fs' : list file) : Prop :=
  Forall2 (fun f f' => upper (fst f) = upper (fst f') /\
                       option_map upper (snd f) = option_map upper (snd f')) fs fs'.

Lemma recased_R fs fs' : recased fs fs' -> forall a b, R fs a b -> R fs' a b.
Proof.
  intros H a b [c [pn [Hin [Hc Hp]]]]. induction H as [|f f' l l' [H1 H2] Hl IH]; [contradiction|].
  destruct Hin as [->|Hin].
  - destruct f' as [c' [pn'|]]; simpl in *; [|discriminate]. inversion H2.
    exists c', pn'. split; [left; reflexivity | split; congruence].
  - destruct (IH Hin) as [c' [pn' [Hin' Heq]]]. exists c', pn'. split; [right; exact Hin' | exact Heq].
Qed.

Lemma recased_sym fs fs' : recased fs fs' -> recased fs' fs.
Proof. intro H. induction H as [|f f' l l' [H1 H2]]; constructor; auto. Qed.

Lemma recased_ckeys fs fs' : recased fs fs' -> map ckey fs = map ckey fs'.
Proof.
  intro H. induction H as [|f f' l l' [Ha Hb] Hl IH]; simpl; [reflexivity|].
  unfold ckey at 1 3. rewrite Ha, IH. reflexivity.
Qed.

Lemma recased_names fs fs' : recased fs fs' -> names fs = names fs'.
Proof.
  intro H. unfold names. rewrite (recased_ckeys _ _ H). f_equal.
  induction H as [|f f' l l' [Ha Hb] Hl IH]; simpl; [reflexivity|]. rewrite IH. f_equal.
  unfold pkey. destruct (snd f), (snd f'); simpl in Hb; try discriminate; [inversion Hb|]; reflexivity.
Qed.

Lemma recased_length fs fs' : recased fs fs' -> length fs = length fs'.
Proof. intro H. induction H; simpl; auto. Qed.

Lemma recased_Forest fs fs' : recased fs fs' -> Forest fs -> Forest fs'.
Proof.
  intros H [H1 H2]. split.
  - rewrite <- (recased_ckeys _ _ H). exact H1.
  - intros k Hk. apply (H2 k). revert Hk. apply clos_trans_incl. apply recased_R. apply recased_sym. exact H.
Qed.

(* ------------------------------------------------------------------------------------------ *)
(* Part 7: the walkers                                                                          *)
(* ------------------------------------------------------------------------------------------ *)
(* what the walkers need of a tree *)
Record Shape (t : tree) : Prop := {
  shInv   : forall q e, In e (kids_of t q) <-> parent_of t e = Some q;
  shTerm  : Term (par t);
  shBound : Bounded (par t) (length (heap t))
}.

Lemma Shape_of_spec fs t : TreeSpec fs t -> Shape t.
Proof. intro S. constructor; [apply (sInv _ _ S) | apply (sTerm _ _ S) | apply (sBound _ _ S)]. Qed.

Lemma Shape_of_inv fs t pend : CInv fs t pend -> Shape t.
Proof. intro I. constructor; [apply (iC1 _ _ _ I) | apply (iT _ _ _ I) | apply (CInv_bounded _ _ _ I)]. Qed.

Lemma mem_up_terminates t d name :
  Term (par t) -> Bounded (par t) (length (heap t)) ->
  forall fuel p, anc (par t) fuel p = None -> exists r, mem_up fuel t d name p = Ok r.
Proof.
  intros HT HB fuel. induction fuel as [|f IH]; intros p H; [discriminate|].
  simpl. destruct (d (key_of t p)) as [ms|]; [|eauto].
  destruct (memb name ms); [eauto|].
  destruct (parent_of t p) as [q|] eqn:E; [|eauto].
  apply IH. simpl in H. unfold par at 1 in H. rewrite E in H. exact H.
Qed.

Lemma member_supertypes_terminates t d c name :
  Term (par t) -> Bounded (par t) (length (heap t)) ->
  exists r, member_supertypes t d c name = Ok r.
Proof.
  intros HT HB. unfold member_supertypes.
  destruct (lookup t (upper c)) as [e|]; [|eauto].
  destruct (parent_of t e) as [q|] eqn:E; [|eauto].
  apply mem_up_terminates; try assumption.
  apply anc_None_mono with (length (heap t)); [|lia].
  apply Term_chain_ends; try assumption. apply (HB e q E).
Qed.

Lemma fold_out_ok {A} (g : nat -> out (list A)) l :
  (forall c, In c l -> exists r, g c = Ok r) ->
  exists rs, fold_right (fun c acc => out_app (g c) acc) (Ok []) l = Ok rs /\
             forall x, In x rs <-> exists c r, In c l /\ g c = Ok r /\ In x r.
Proof.
  induction l as [|c l IH]; intro H; simpl.
  - exists []. split; [reflexivity|]. intro x. split; [intros [] | intros [c [r [[] _]]]].
  - destruct (H c (or_introl eq_refl)) as [r Hr].
    destruct (IH (fun c' Hc' => H c' (or_intror Hc'))) as [rs [Hrs Hin]].
    exists (r ++ rs). rewrite Hr, Hrs. split; [reflexivity|].
    intro x. rewrite in_app_iff, Hin. split.
    + intros [Hx|[c' [r' [H1 [H2 H3]]]]]; [exists c, r; auto | exists c', r'; auto].
    + intros [c' [r' [[<-|H1] [H2 H3]]]]; [left; congruence | right; exists c', r'; auto].
Qed.

(* every held node is a proper ancestor of the node being visited *)
Definition held_above (t : tree) (held : list nat) (p : nat) : Prop :=
  forall h, In h held -> exists k, anc (par t) (S k) p = Some h.

Lemma mem_down_terminates hold t d name :
  Shape t ->
  forall fuel p held k r0,
    anc (par t) k p = Some r0 -> length (heap t) <= fuel + k -> p < length (heap t) ->
    held_above t held p ->
    exists r, mem_down hold fuel t d name held p = Ok r.
Proof.
  intros Sh. pose proof (Term_Acyc _ (shTerm _ Sh)) as HA.
  induction fuel as [|f IH]; intros p held k r0 Hk Hlen Hp Hh.
  - pose proof (chain_bound _ _ _ _ _ HA (shBound _ Sh) Hp Hk). lia.
  - simpl. destruct (existsb (Nat.eqb p) held) eqn:Eh.
    { exfalso. apply existsb_exists in Eh as [h [Hh1 Hh2]]. apply Nat.eqb_eq in Hh2. subst h.
      destruct (Hh p Hh1) as [j Hj]. exact (HA p j Hj). }
    destruct (d (key_of t p)) as [ms|]; [|eauto].
    destruct (memb name ms); [eauto|].
    destruct (fold_out_ok (mem_down hold f t d name (if hold then p :: held else held)) (kids_of t p)) as [rs [Hrs _]]; [|eauto].
    intros c Hc. apply (shInv _ Sh) in Hc.
    apply (IH c (if hold then p :: held else held) (S k) r0).
    + simpl. unfold par at 1. rewrite Hc. exact Hk.
    + lia.
    + apply (shBound _ Sh c p Hc).
    + assert (Hup : forall h, In h held -> exists j, anc (par t) (S j) c = Some h).
      { intros h Hin. destruct (Hh h Hin) as [j Hj]. exists (S j).
        change (anc (par t) (S (S j)) c) with (match par t c with Some x => anc (par t) (S j) x | None => None end).
        unfold par at 1. rewrite Hc. exact Hj. }
      destruct hold; [|exact Hup].
      intros h [<-|Hin]; [|apply Hup; exact Hin].
      exists 0. simpl. unfold par. rewrite Hc. reflexivity.
Qed.

Lemma member_subtypes_g_terminates hold t d c name :
  Shape t -> exists r, member_subtypes_g hold t d c name = Ok r.
Proof.
  intro Sh. unfold member_subtypes_g. destruct (lookup t (upper c)) as [e|]; [|eauto].
  destruct (fold_out_ok (mem_down hold (S (length (heap t))) t d (upper name) []) (kids_of t e)) as [rs [Hrs _]]; [|eauto].
  intros x Hx. apply (shInv _ Sh) in Hx.
  apply (mem_down_terminates hold t d (upper name) Sh _ x [] 1 e).
  - simpl. unfold par. rewrite Hx. reflexivity.
  - lia.
  - apply (shBound _ Sh x e Hx).
  - intros h [].
Qed.

(* ------------------------------------------------------------------------------------------ *)
(* Part 8: the member walkers against the declarative specification                             *)
(* ------------------------------------------------------------------------------------------ *)
Lemma member_subtypes_terminates t d c name :
  Shape t -> exists r, member_subtypes t d c name = Ok r.
Proof. apply member_subtypes_g_terminates. Qed.

Lemma fold_out_inv {A} (g : nat -> out (list A)) l rs :
  fold_right (fun c acc => out_app (g c) acc) (Ok []) l = Ok rs ->
  (forall c, In c l -> exists r, g c = Ok r) /\
  (forall x, In x rs <-> exists c r, In c l /\ g c = Ok r /\ In x r).
Proof.
  revert rs. induction l as [|c l IH]; intros rs H; simpl in H.
  - inversion H; subst. split; [intros c []|]. intro x. split; [intros [] | intros [c [r [[] _]]]].
  - destruct (g c) as [r1| |] eqn:E1; simpl in H; try discriminate.
    destruct (fold_right (fun c acc => out_app (g c) acc) (Ok []) l) as [r2| |] eqn:E2; try discriminate.
    inversion H; subst. destruct (IH r2 eq_refl) as [IH1 IH2]. split.
    + intros c' [<-|Hc]; [eauto | auto].
    + intro x. rewrite in_app_iff, IH2. split.
      * intros [Hx|[c' [r' [H1 [H2 H3]]]]]; [exists c, r1; simpl; auto | exists c', r'; simpl; auto].
      * intros [c' [r' [[<-|H1] [H2 H3]]]]; [left; congruence | right; exists c', r'; auto].
Qed.

Section Members.
  Variable fs : list file.
  Variable d : decls.
  Variable name : str.      (* the member's name, upper-cased *)

  Definition declares (k : str) : Prop := exists ms, d k = Some ms /\ memb name ms = true.
  (* every class file of the workspace is known to `d` *)
  Definition consistent : Prop := forall f, In f fs -> d (ckey f) <> None.

  (* nearest declaration at or above k / strictly above k, along the declared parents *)
  Inductive near0 : str -> str -> Prop :=
  | n0_here k : declares k -> near0 k k
  | n0_up k q a : ~ declares k -> R fs k q -> near0 q a -> near0 k a.
  Definition nearest_up (k a : str) : Prop := exists q, R fs k q /\ near0 q a.

  (* the frontier of declarations at or below k / strictly below k *)
  Inductive front0 : str -> str -> Prop :=
  | f0_here k : declares k -> front0 k k
  | f0_down k c x : ~ declares k -> R fs c k -> front0 c x -> front0 k x.
  Definition frontier (k x : str) : Prop := exists c, R fs c k /\ front0 c x.

  Variable t : tree.
  Hypothesis S : TreeSpec fs t.
  Hypothesis Hcons : consistent.

  Lemma kparent_ptr p : p < length (heap t) ->
    kparent t (key_of t p) = option_map (key_of t) (parent_of t p).
  Proof.
    intro Hp. unfold kparent. rewrite (sNodes _ _ S p Hp). destruct (parent_of t p); reflexivity.
  Qed.

  Lemma R_ptr p q : p < length (heap t) -> (R fs (key_of t p) q <-> option_map (key_of t) (parent_of t p) = Some q).
  Proof. intro Hp. rewrite <- (sParent _ _ S), kparent_ptr by exact Hp. reflexivity. Qed.

  Lemma R_has_file k q : R fs k q -> d k <> None.
  Proof. intros [c [pn [Hin [Hc _]]]]. subst k. apply (Hcons _ Hin). Qed.

  Lemma not_declares k ms : d k = Some ms -> memb name ms = false -> ~ declares k.
  Proof. intros H1 H2 [ms' [H3 H4]]. congruence. Qed.

  Lemma mem_up_spec fuel : forall p r,
    p < length (heap t) -> mem_up fuel t d name p = Ok r ->
    forall ka, option_map (key_of t) r = Some ka <-> near0 (key_of t p) ka.
  Proof.
    induction fuel as [|f IH]; intros p r Hp H ka; [discriminate|]. simpl in H.
    destruct (d (key_of t p)) as [ms|] eqn:Ed.
    - destruct (memb name ms) eqn:Em.
      + inversion H; subst. simpl. split.
        * intro E. inversion E; subst. apply n0_here. exists ms. auto.
        * intro N. inversion N; subst; [reflexivity|]. exfalso. apply H0. exists ms. auto.
      + pose proof (not_declares _ _ Ed Em) as Hnd.
        destruct (parent_of t p) as [q|] eqn:Eq.
        * assert (Hq : q < length (heap t)) by (apply (sBound _ _ S p q Eq)).
          rewrite (IH q r Hq H ka). split.
          -- intro N. apply n0_up with (key_of t q); [exact Hnd | apply R_ptr; [exact Hp | rewrite Eq; reflexivity] | exact N].
          -- intro N. inversion N; subst; [contradiction|].
             apply R_ptr in H1; [|exact Hp]. rewrite Eq in H1. simpl in H1. inversion H1; subst. exact H2.
        * inversion H; subst. simpl. split; [discriminate|].
          intro N. inversion N; subst; [contradiction|].
          apply R_ptr in H1; [|exact Hp]. rewrite Eq in H1. discriminate.
    - inversion H; subst. simpl. split; [discriminate|].
      intro N. inversion N; subst.
      + destruct H0 as [ms [H1 _]]. congruence.
      + exfalso. apply (R_has_file _ _ H1). exact Ed.
  Qed.

  Lemma mem_down_spec fuel : forall p held r,
    p < length (heap t) -> parent_of t p <> None -> mem_down false fuel t d name held p = Ok r ->
    forall kx, In kx (map (key_of t) r) <-> front0 (key_of t p) kx.
  Proof.
    induction fuel as [|f IH]; intros p held r Hp Hpar H kx; [discriminate|]. simpl in H.
    destruct (existsb (Nat.eqb p) held); [discriminate|].
    assert (Hfile : d (key_of t p) <> None).
    { destruct (parent_of t p) as [q|] eqn:Eq; [|congruence].
      apply R_has_file with (key_of t q). apply R_ptr; [exact Hp | rewrite Eq; reflexivity]. }
    destruct (d (key_of t p)) as [ms|] eqn:Ed; [|congruence].
    destruct (memb name ms) eqn:Em.
    - inversion H; subst. simpl. split.
      + intros [<-|[]]. apply f0_here. exists ms. auto.
      + intro F. inversion F; subst; [left; reflexivity|]. exfalso. apply H0. exists ms. auto.
    - pose proof (not_declares _ _ Ed Em) as Hnd.
      destruct (fold_out_inv _ _ _ H) as [_ Hin]. rewrite in_map_iff. split.
      + intros [x [Hx1 Hx2]]. apply Hin in Hx2 as [c [rc [Hc1 [Hc2 Hc3]]]].
        assert (Hc : parent_of t c = Some p) by (apply (sInv _ _ S); exact Hc1).
        assert (Hcl : c < length (heap t)) by (apply (sBound _ _ S c p Hc)).
        apply f0_down with (key_of t c); [exact Hnd | apply R_ptr; [exact Hcl | rewrite Hc; reflexivity]|].
        apply (IH c held rc Hcl ltac:(congruence) Hc2). apply in_map_iff. exists x. auto.
      + intro F. inversion F; subst; [contradiction|].
        apply (sKids _ _ S) in H1. unfold kchildren in H1. rewrite (sNodes _ _ S p Hp) in H1.
        apply in_map_iff in H1 as [c' [Hc1 Hc2]]. subst c.
        assert (Hc : parent_of t c' = Some p) by (apply (sInv _ _ S); exact Hc2).
        assert (Hcl : c' < length (heap t)) by (apply (sBound _ _ S c' p Hc)).
        destruct (fold_out_inv _ _ _ H) as [Hall _]. destruct (Hall c' Hc2) as [rc Hrc].
        apply (IH c' held rc Hcl ltac:(congruence) Hrc) in H2.
        apply in_map_iff in H2 as [x [Hx1 Hx2]]. exists x. split; [exact Hx1|].
        apply Hin. exists c', rc. auto.
  Qed.

  (* generate_method_supertypes: the nearest declaration strictly above the class *)
  Theorem member_up_correct c nm :
    name = upper nm ->
    exists r, member_supertypes t d c nm = Ok r /\
      forall ka, option_map (key_of t) r = Some ka <-> nearest_up (upper c) ka.
  Proof.
    intro Hn. destruct (member_supertypes_terminates t d c nm (sTerm _ _ S) (sBound _ _ S)) as [r Hr].
    exists r. split; [exact Hr|]. unfold member_supertypes in Hr. rewrite <- Hn in Hr. intro ka.
    destruct (lookup t (upper c)) as [e|] eqn:Ee.
    - destruct (sMap _ _ S _ _ Ee) as [He Hk]. rewrite <- Hk.
      destruct (parent_of t e) as [q|] eqn:Eq.
      + assert (Hq : q < length (heap t)) by (apply (sBound _ _ S e q Eq)).
        rewrite (mem_up_spec _ q r Hq Hr ka). split.
        * intro N. exists (key_of t q). split; [apply R_ptr; [exact He | rewrite Eq; reflexivity] | exact N].
        * intros [q' [H1 H2]]. apply R_ptr in H1; [|exact He]. rewrite Eq in H1. inversion H1; subst. exact H2.
      + inversion Hr; subst. simpl. split; [discriminate|].
        intros [q' [H1 _]]. apply R_ptr in H1; [|exact He]. rewrite Eq in H1. discriminate.
    - inversion Hr; subst. simpl. split; [discriminate|].
      intros [q' [H1 _]]. apply (sParent _ _ S) in H1. unfold kparent in H1. rewrite Ee in H1. discriminate.
  Qed.

  (* generate_class_member_subtypes: the frontier of declarations strictly below the class *)
  Theorem member_down_correct c nm :
    name = upper nm ->
    exists r, member_subtypes t d c nm = Ok r /\
      forall kx, In kx (map (key_of t) r) <-> frontier (upper c) kx.
  Proof.
    intro Hn. destruct (member_subtypes_terminates t d c nm (Shape_of_spec _ _ S)) as [r Hr].
    exists r. split; [exact Hr|]. unfold member_subtypes, member_subtypes_g in Hr. rewrite <- Hn in Hr. intro kx.
    destruct (lookup t (upper c)) as [e|] eqn:Ee.
    - destruct (sMap _ _ S _ _ Ee) as [He Hk]. rewrite <- Hk.
      destruct (fold_out_inv _ _ _ Hr) as [Hall Hin]. rewrite in_map_iff. split.
      + intros [x [Hx1 Hx2]]. apply Hin in Hx2 as [c' [rc [Hc1 [Hc2 Hc3]]]].
        assert (Hc : parent_of t c' = Some e) by (apply (sInv _ _ S); exact Hc1).
        assert (Hcl : c' < length (heap t)) by (apply (sBound _ _ S c' e Hc)).
        exists (key_of t c'). split; [apply R_ptr; [exact Hcl | rewrite Hc; reflexivity]|].
        apply (mem_down_spec _ c' [] rc Hcl ltac:(congruence) Hc2). apply in_map_iff. exists x. auto.
      + intros [kc [H1 H2]]. apply (sKids _ _ S) in H1. unfold kchildren in H1. rewrite (sNodes _ _ S e He) in H1.
        apply in_map_iff in H1 as [c' [Hc1 Hc2]]. subst kc.
        assert (Hc : parent_of t c' = Some e) by (apply (sInv _ _ S); exact Hc2).
        assert (Hcl : c' < length (heap t)) by (apply (sBound _ _ S c' e Hc)).
        destruct (Hall c' Hc2) as [rc Hrc].
        apply (mem_down_spec _ c' [] rc Hcl ltac:(congruence) Hrc) in H2.
        apply in_map_iff in H2 as [x [Hx1 Hx2]]. exists x. split; [exact Hx1|].
        apply Hin. exists c', rc. auto.
    - inversion Hr; subst. simpl. split; [intros []|].
      intros [kc [H1 _]]. apply (sKids _ _ S) in H1. unfold kchildren in H1. rewrite Ee in H1. contradiction.
  Qed.
End Members.

(* ------------------------------------------------------------------------------------------ *)
(* Part 9: ANY file list (cyclic declarations, a class declared twice, ...): no parent cycle     *)
(* ------------------------------------------------------------------------------------------ *)
Record AInv (t : tree) : Prop := {
  aTerm  : Term (par t);
  aBound : Bounded (par t) (length (heap t));
  aMap   : forall k p, lookup t k = Some p -> p < length (heap t);
  aKids  : forall q e, In e (kids_of t q) <-> parent_of t e = Some q
}.

Definition WV (t : tree) (w : worker) : Prop :=
  match wpc w with
  | PIdle | PInsE _ => True
  | PPar e _ | PInsP e _ => e < length (heap t)
  | PLink e p _ => e < length (heap t) /\ p < length (heap t)
  end.

Lemma AInv_empty : AInv empty.
Proof.
  constructor.
  - intro p. exists 1. simpl. unfold par, parent_of, getn. simpl. destruct p; reflexivity.
  - intros p q H. unfold par, parent_of, getn in H. simpl in H. destruct p; discriminate.
  - intros k p H. discriminate.
  - intros q e. unfold kids_of, parent_of, getn. simpl. destruct q, e; simpl; split; intro H; try contradiction; discriminate.
Qed.

Lemma AInv_alloc id t : AInv t -> AInv (snd (alloc id t)).
Proof.
  intros [H1 H2 H3 H4]. constructor.
  - apply Term_ext with (par t); [apply par_alloc | exact H1].
  - intros p q H. unfold par in H. rewrite alloc_parent in H. rewrite alloc_len.
    destruct (H2 p q H). lia.
  - intros k p H. rewrite alloc_lookup in H. rewrite alloc_len.
    destruct (str_eqb k (upper id)); [inversion H; lia | apply H3 in H; lia].
  - intros q e. rewrite alloc_kids, alloc_parent. apply H4.
Qed.

Lemma AInv_goc id t : AInv t -> AInv (snd (get_or_create id t)) /\
  fst (get_or_create id t) < length (heap (snd (get_or_create id t))) /\
  length (heap t) <= length (heap (snd (get_or_create id t))).
Proof.
  intro I. destruct (goc_cases id t) as [[p [H1 H2]]|[H1 H2]]; rewrite H2.
  - simpl fst; simpl snd. split; [exact I|]. split; [apply (aMap _ I _ _ H1) | lia].
  - split; [apply AInv_alloc; exact I|]. rewrite alloc_len, alloc_fst. lia.
Qed.

Lemma AInv_insert dc id t : AInv t -> AInv (snd (insert_step dc id t)) /\
  fst (insert_step dc id t) < length (heap (snd (insert_step dc id t))) /\
  length (heap t) <= length (heap (snd (insert_step dc id t))).
Proof.
  intro I. destruct dc; unfold insert_step; [apply AInv_goc; exact I|].
  split; [apply AInv_alloc; exact I|]. rewrite alloc_len, alloc_fst. lia.
Qed.

Lemma AInv_check_link t e p :
  AInv t -> e < length (heap t) -> p < length (heap t) -> AInv (check_link true t e p).
Proof.
  intros I He Hp. unfold check_link, check_link_g. simpl. destruct (isa isa_bound t e p) eqn:Ei; [exact I|].
  destruct I as [H1 H2 H3 H4].
  assert (HeL : Nat.ltb e (length (heap t)) = true) by (apply Nat.ltb_lt; exact He).
  assert (HpL : Nat.ltb p (length (heap t)) = true) by (apply Nat.ltb_lt; exact Hp).
  (* detaching removes e from every children list *)
  assert (Hd : forall q x, In x (kids_of (detach t e) q) <-> x <> e /\ In x (kids_of t q)).
  { intros q x. rewrite detach_kids. destruct (parent_of t e) as [q0|] eqn:E0.
    - destruct (Nat.eqb q q0) eqn:Eq.
      + rewrite filter_In. split.
        * intros [Ha Hb]. split; [|exact Ha]. intro; subst. rewrite Nat.eqb_refl in Hb. discriminate.
        * intros [Ha Hb]. split; [exact Hb|]. apply Bool.negb_true_iff. apply Nat.eqb_neq. exact Ha.
      + split; [|tauto]. intro Hin. split; [|exact Hin]. intro; subst.
        apply H4 in Hin. apply Nat.eqb_neq in Eq. congruence.
    - split; [|tauto]. intro Hin. split; [|exact Hin]. intro; subst. apply H4 in Hin. congruence. }
  constructor.
  - apply Term_ext with (pupd (par t) e p).
    + intro x. unfold pupd, par. rewrite relink_parent. destruct (Nat.eqb x e); [rewrite HeL|]; reflexivity.
    + apply add_edge_Term; [exact H1 | eapply isa_false; eauto].
  - intros x q H. unfold par in H. rewrite relink_parent in H. rewrite relink_len.
    destruct (Nat.eqb x e) eqn:E.
    + apply Nat.eqb_eq in E. subst. rewrite HeL in H. inversion H; subst. auto.
    + apply (H2 x q H).
  - intros k x H. rewrite relink_len. apply (H3 k x). unfold lookup in *. rewrite relink_emap in H. exact H.
  - intros q x. rewrite relink_kids, relink_parent, HeL, HpL.
    destruct (Nat.eqb q p) eqn:Eq; destruct (Nat.eqb x e) eqn:Ex;
      try apply Nat.eqb_eq in Eq; try apply Nat.eqb_eq in Ex; subst.
    + split; intro; [reflexivity | apply in_or_app; right; left; reflexivity].
    + apply Nat.eqb_neq in Ex. rewrite in_app_iff, Hd, H4. simpl. split; [intros [[_ H]|[H|[]]]; congruence | auto].
    + apply Nat.eqb_neq in Eq. rewrite Hd. split; [intros [H _]; congruence | intro H; inversion H; congruence].
    + apply Nat.eqb_neq in Ex. rewrite Hd, H4. tauto.
Qed.

Lemma WV_mono t t' w : length (heap t) <= length (heap t') -> WV t w -> WV t' w.
Proof. intro H. unfold WV. destruct (wpc w); intros; try lia; auto. Qed.

Lemma wstep_A dc t w :
  AInv t -> WV t w ->
  AInv (fst (wstep dc true t w)) /\ WV (fst (wstep dc true t w)) (snd (wstep dc true t w)) /\
  length (heap t) <= length (heap (fst (wstep dc true t w))).
Proof.
  intros I HW. unfold wstep. destruct w as [td c]. unfold WV in *. simpl in *.
  destruct c as [|f|e f|e f|e p f]; simpl in *.
  - destruct td as [|f rest]; simpl; [auto|].
    destruct (lookup t (upper (fst f))) as [e|] eqn:E; simpl; auto.
    split; [exact I|]. split; [apply (aMap _ I _ _ E) | lia].
  - destruct (AInv_insert dc (fst f) t I) as [I' [H1 H2]].
    destruct (insert_step dc (fst f) t) as [e t']. simpl in *. auto.
  - destruct (snd f) as [pn|]; simpl; auto.
    destruct (lookup t (upper pn)) as [p|] eqn:E; simpl; auto.
    split; [exact I|]. split; [split; [exact HW | apply (aMap _ I _ _ E)] | lia].
  - destruct (snd f) as [pn|]; simpl; auto.
    destruct (AInv_insert dc pn t I) as [I' [H1 H2]].
    destruct (insert_step dc pn t) as [p t']. simpl in *. split; [exact I'|]. split; [lia | exact H2].
  - destruct HW as [He Hp]. split; [apply AInv_check_link; assumption|]. split; [exact Logic.I|].
    unfold check_link, check_link_g. simpl. destruct (isa isa_bound t e p); [lia | rewrite relink_len; lia].
Qed.

Definition SA (s : sys) : Prop := AInv (st s) /\ Forall (WV (st s)) (ws s).

Lemma sstep_A dc s i : SA s -> SA (sstep dc true s i).
Proof.
  intros [I HW]. unfold sstep. destruct (nth_error (ws s) i) as [w|] eqn:Ew; [|split; assumption].
  assert (Hw : WV (st s) w) by (eapply Forall_forall in HW; [exact HW | eapply nth_error_In; eauto]).
  destruct (wstep_A dc _ _ I Hw) as [I' [HW' Hlen]].
  destruct (wstep dc true (st s) w) as [t' w']. simpl in *. split; [exact I'|]. simpl.
  apply Forall_upd; [|exact HW']. eapply Forall_impl; [|exact HW]. intros x Hx. eapply WV_mono; eauto.
Qed.

Lemma run_A dc sched s : SA s -> SA (run dc true sched s).
Proof.
  revert s. induction sched as [|i sched IH]; intros s H; simpl; [exact H|]. apply IH. apply sstep_A. exact H.
Qed.

Lemma init_A cs : SA (init cs).
Proof.
  split; [apply AInv_empty|]. unfold init. simpl. apply Forall_forall.
  intros w Hw. apply in_map_iff in Hw as [c [<- _]]. exact Logic.I.
Qed.

(* the class tree never contains a parent cycle, whatever the files declare, under every schedule
   of every chunking, with or without the double-checked insert *)
Theorem tree_acyclic_par dc cs sched : AInv (st (run dc true sched (init cs))).
Proof. apply (run_A dc sched (init cs) (init_A cs)). Qed.

Theorem tree_acyclic_seq fs : AInv (build fs).
Proof.
  unfold build, add_file. rewrite <- (proj1 (build_as_run true fs)). apply tree_acyclic_par.
Qed.

(* ... and (17b78d0) the children lists are the inverse of the parent links, so both walkers
   return and never re-lock a node *)
Lemma Shape_of_AInv t : AInv t -> Shape t.
Proof. intro I. constructor; [apply (aKids _ I) | apply (aTerm _ I) | apply (aBound _ I)]. Qed.

(* with one file per class (cyclic parents allowed) additionally: duplicate-free children, links
   are declared links *)
Theorem tree_shape_par fs cs sched :
  NoDup (map ckey fs) -> Permutation (concat cs) fs ->
  Shape (st (run true true sched (init cs))).
Proof.
  intros Hnd Hp. destruct (run_SInv fs sched _ (init_SInv fs cs Hnd Hp)) as [I _].
  eapply Shape_of_inv; eauto.
Qed.

Theorem tree_shape_seq fs : NoDup (map ckey fs) -> Shape (build fs).
Proof.
  intro Hnd. unfold build, add_file. rewrite <- (proj1 (build_as_run true fs)).
  apply tree_shape_par with fs; [exact Hnd|]. simpl. rewrite app_nil_r. apply Permutation_refl.
Qed.

(* the links of a tree built from files with one file per class are declared links *)
Theorem links_declared_par fs cs sched e q :
  NoDup (map ckey fs) -> Permutation (concat cs) fs ->
  let t := st (run true true sched (init cs)) in
  parent_of t e = Some q -> R fs (key_of t e) (key_of t q).
Proof.
  intros Hnd Hp t H. destruct (run_SInv fs sched _ (init_SInv fs cs Hnd Hp)) as [I _].
  apply (iB _ _ _ I e q H).
Qed.

(* chunks: concatenating the chunks gives the file list back *)
Lemma chunks_aux_concat fuel n l : 0 < n -> length l <= fuel -> concat (chunks_aux fuel n l) = l.
Proof.
  intro Hn. revert l. induction fuel as [|f IH]; intros l Hl.
  - destruct l; [reflexivity | simpl in Hl; lia].
  - destruct l as [|x l]; [reflexivity|]. cbn [chunks_aux concat].
    rewrite IH; [apply firstn_skipn|].
    rewrite skipn_length. simpl length in *. lia.
Qed.

Lemma chunks_concat n l : 0 < n -> concat (chunks n l) = l.
Proof. intro Hn. apply chunks_aux_concat; [exact Hn | lia]. Qed.
