(* The cycle guard, characterised (Model/WsTree.v): when the parent walk from the requested document a
   comes back to a document already on it, the chain it returns is the walk up to and including the
   document c that closes the cycle -- exactly the (non-returning) walk in the workspace cut_ws ws c in
   which c's class header has lost its parent clause; the tables are unchanged by the cut. *)
From GoldV Require Import Base Tokens Lexer AstKinds Tree Encase SymTab Scoping Annot AnnotProofs DefTree WsTree WsTreeProofs WsTreeTerm.
From Coq Require Import Lia.

Definition strip_parent (n : node) : node :=
  match n with
  | Node k i r g a cs => Node k i r g (filter (fun kv => negb (N.eqb (fst kv) K_parent)) a) cs
  end.

(* `class aFoo (aBar)` -> `class aFoo` *)
Definition cut_hdr (c : node) : node := if is_kind KAstClass c then strip_parent c else c.

Definition cut_tree (t : node) : node :=
  match t with Node k i r g a cs => Node k i r g a (map cut_hdr cs) end.

Fixpoint cut_ws (ws : wst) (c : nat) : wst :=
  match ws, c with
  | [], _ => []
  | d :: r, O => (fst d, cut_tree (snd d)) :: r
  | d :: r, S c' => d :: cut_ws r c'
  end.

(* ---------- what the cut leaves alone ---------- *)

Lemma attr_strip k a : k <> K_parent -> attr k (filter (fun kv => negb (N.eqb (fst kv) K_parent)) a) = attr k a.
Proof.
  intro Hk. induction a as [|[k' v] a IH]; [reflexivity|]. cbn [filter fst]. destruct (N.eqb k' K_parent) eqn:E.
  - cbn [negb attr]. apply N.eqb_eq in E. subst k'. destruct (N.eqb k K_parent) eqn:E'; [apply N.eqb_eq in E'; contradiction|]. exact IH.
  - cbn [negb attr]. rewrite IH. reflexivity.
Qed.

Lemma attr_strip_parent a : attr K_parent (filter (fun kv => negb (N.eqb (fst kv) K_parent)) a) = None.
Proof.
  induction a as [|[k' v] a IH]; [reflexivity|]. cbn [filter fst]. destruct (N.eqb k' K_parent) eqn:E; cbn [negb]; [exact IH|].
  cbn [attr]. rewrite N.eqb_sym, E. exact IH.
Qed.

Lemma cut_hdr_kind c : nkind (cut_hdr c) = nkind c.
Proof. unfold cut_hdr. destruct (is_kind KAstClass c); [destruct c|]; reflexivity. Qed.
Lemma cut_hdr_children c : nchildren (cut_hdr c) = nchildren c.
Proof. unfold cut_hdr. destruct (is_kind KAstClass c); [destruct c|]; reflexivity. Qed.
Lemma cut_hdr_ident c : nident (cut_hdr c) = nident c.
Proof. unfold cut_hdr. destruct (is_kind KAstClass c); [destruct c|]; reflexivity. Qed.
Lemma cut_hdr_range c : nrange (cut_hdr c) = nrange c.
Proof. unfold cut_hdr. destruct (is_kind KAstClass c); [destruct c|]; reflexivity. Qed.
Lemma cut_hdr_attr k c : k <> K_parent -> attr k (nattrs (cut_hdr c)) = attr k (nattrs c).
Proof. intro Hk. unfold cut_hdr. destruct (is_kind KAstClass c); [destruct c; cbn [strip_parent nattrs]; apply attr_strip; exact Hk|reflexivity]. Qed.

Lemma cut_hdr_parent c : is_kind KAstClass c = true -> attr_tok K_parent (cut_hdr c) = None.
Proof. intro H. unfold cut_hdr. rewrite H. destruct c. unfold attr_tok. cbn [strip_parent nattrs]. rewrite attr_strip_parent. reflexivity. Qed.

(* the annotator does not read the parent clause when it fills the tables *)
Lemma visit_cut st g c : visit st (g, cut_hdr c) = visit st (g, c).
Proof.
  unfold visit, dkind_at, dkind_of. cbn [fst snd]. rewrite cut_hdr_kind.
  assert (Es : forall k, sym_of k (cut_hdr c) = sym_of k c).
  { intro k. unfold sym_of, name_range, dkind_of, attr_tok. rewrite cut_hdr_kind, cut_hdr_ident, cut_hdr_range, cut_hdr_children.
    rewrite (cut_hdr_attr K_ident c) by discriminate. reflexivity. }
  assert (Eself : self_of (cut_hdr c) = self_of c).
  { unfold self_of, name_range, dkind_of, attr_tok. rewrite cut_hdr_kind, cut_hdr_range, cut_hdr_children.
    rewrite (cut_hdr_attr K_ident c) by discriminate. reflexivity. }
  assert (Eu : uses_names (cut_hdr c) = uses_names c).
  { unfold uses_names. rewrite (cut_hdr_attr K_uses c) by discriminate. reflexivity. }
  rewrite !Es, Eself, Eu, cut_hdr_ident. reflexivity.
Qed.

Lemma below_cut t c : below (cut_tree t) (cut_hdr c) = below t c.
Proof. unfold below. rewrite cut_hdr_kind, cut_hdr_children. destruct t. reflexivity. Qed.

Lemma fold_top_seq_cut d t cs : forall st,
  fold_left visit (flat_map (top_seq d (cut_tree t)) (map cut_hdr cs)) st = fold_left visit (flat_map (top_seq d t) cs) st.
Proof.
  induction cs as [|c cs IH]; intro st; [reflexivity|]. cbn [map flat_map]. rewrite !fold_left_app, IH. f_equal.
  unfold top_seq. cbn [fold_left]. rewrite visit_cut, below_cut. reflexivity.
Qed.

Theorem annotate_cut d t : annotate d (cut_tree t) = annotate d t.
Proof.
  unfold annotate, visit_seq. destruct t as [k i r g a cs]. cbn [cut_tree nchildren fold_left].
  assert (E : visit init_state (false, Node k i r g a (map cut_hdr cs)) = visit init_state (false, Node k i r g a cs)).
  { unfold visit, dkind_at, dkind_of, sym_of, self_of, name_range, dkind_of, uses_names, attr_tok. cbn [fst snd nkind nident nrange nattrs nchildren].
    destruct k; try reflexivity; destruct cs as [|c0 cs0]; cbn [map]; rewrite ?cut_hdr_range; reflexivity. }
  rewrite E. f_equal. apply (fold_top_seq_cut d (Node k i r g a cs) cs).
Qed.

(* ---------- the workspace after the cut ---------- *)

Lemma cut_ws_nth ws : forall c j, nth_error (cut_ws ws c) j =
  if Nat.eqb j c then option_map (fun d => (fst d, cut_tree (snd d))) (nth_error ws j) else nth_error ws j.
Proof.
  induction ws as [|d r IH]; intros c j.
  - destruct c; cbn [cut_ws]; destruct j; cbn [nth_error option_map]; destruct (Nat.eqb _ _); reflexivity.
  - destruct c as [|c]; destruct j as [|j]; cbn [cut_ws nth_error Nat.eqb]; try reflexivity. apply IH.
Qed.

Lemma cut_ws_length ws : forall c, length (cut_ws ws c) = length ws.
Proof. induction ws as [|d r IH]; intros [|c]; cbn [cut_ws length]; auto. Qed.

Lemma cut_ws_find_from ws name : forall c k,
  option_map fst (find_doc_from k (cut_ws ws c) name) = option_map fst (find_doc_from k ws name).
Proof.
  induction ws as [|d r IH]; intros c k; [destruct c; reflexivity|]. destruct c as [|c]; cbn [cut_ws find_doc_from fst].
  - destruct (ci_eqb (fst d) name); reflexivity.
  - destruct (ci_eqb (fst d) name); [reflexivity|apply IH].
Qed.

Lemma cut_ws_find ws c name : option_map fst (find_doc (cut_ws ws c) name) = option_map fst (find_doc ws name).
Proof. apply cut_ws_find_from. Qed.

Lemma cut_ws_find_stem ws name : forall c k,
  option_map (fun x => fst (snd x)) (find_doc_from k (cut_ws ws c) name) = option_map (fun x => fst (snd x)) (find_doc_from k ws name).
Proof.
  induction ws as [|d r IH]; intros c k; [destruct c; reflexivity|]. destruct c as [|c]; cbn [cut_ws find_doc_from fst].
  - destruct (ci_eqb (fst d) name); reflexivity.
  - destruct (ci_eqb (fst d) name); [reflexivity|apply IH].
Qed.

(* the tables of every document are the same *)
Lemma root_of_cut ws c a j : root_of (cut_ws ws c) a j = root_of ws a j.
Proof.
  unfold root_of. rewrite cut_ws_nth. destruct (Nat.eqb j c); [|reflexivity].
  destruct (nth_error ws j) as [d|]; [|reflexivity]. cbn [option_map snd]. unfold root_table_of. rewrite annotate_cut. reflexivity.
Qed.

Lemma tables_along_cut ws c a path : tables_along (cut_ws ws c) a path = tables_along ws a path.
Proof. unfold tables_along. induction path as [|j p IH]; [reflexivity|]. cbn [flat_map]. rewrite root_of_cut, IH. reflexivity. Qed.

(* links: same target files *)
Lemma target_of_cut ws c h : target_of (cut_ws ws c) h = target_of ws h.
Proof.
  unfold target_of, find_doc. pose proof (cut_ws_find_stem ws (cls_str (fst h)) c 0) as E.
  destruct (find_doc_from 0 (cut_ws ws c) (cls_str (fst h))) as [[j d]|], (find_doc_from 0 ws (cls_str (fst h))) as [[j' d']|];
    cbn [option_map fst snd] in E; try discriminate; [|reflexivity]. inversion E as [E1]. rewrite E1. reflexivity.
Qed.

Lemma wdef_all_cut ws c ch oid : wdef_all (cut_ws ws c) ch oid = wdef_all ws ch oid.
Proof.
  unfold wdef_all. destruct oid as [id|]; [|reflexivity].
  rewrite (map_ext _ _ (target_of_cut ws c)). reflexivity.
Qed.

(* ---------- the header after the cut names no parent ---------- *)

Definition hk (k : akind) : bool := ak_eqb k KAstClass || ak_eqb k KAstModule.

Lemma is_header_node_hk n : is_header_node n = hk (nkind n).
Proof. reflexivity. Qed.

Lemma filter_hdr_len l l' : map nkind l = map nkind l' ->
  length (filter is_header_node l) = length (filter is_header_node l').
Proof.
  revert l'. induction l as [|x l IH]; intros [|y l'] H; try discriminate; [reflexivity|].
  cbn [map] in H. inversion H as [[H1 H2]]. cbn [filter]. rewrite !is_header_node_hk, H1.
  destruct (hk (nkind y)); cbn [length]; rewrite (IH l' H2); reflexivity.
Qed.

Lemma top_kinds_cut t cs :
  map nkind (map snd (flat_map (top_seq false (cut_tree t)) (map cut_hdr cs))) = map nkind (map snd (flat_map (top_seq false t) cs)).
Proof.
  induction cs as [|c cs IH]; [reflexivity|]. change (map cut_hdr (c :: cs)) with (cut_hdr c :: map cut_hdr cs).
  rewrite !flat_map_cons, !map_app. f_equal; [|exact IH].
  unfold top_seq. rewrite below_cut. cbn [map snd]. rewrite cut_hdr_kind. reflexivity.
Qed.

Lemma all_nodes_cut_kinds t : map nkind (all_nodes (cut_tree t)) = map nkind (all_nodes t).
Proof.
  unfold all_nodes, visit_seq. cbn [map snd]. f_equal; [destruct t; reflexivity|].
  assert (Hc : nchildren (cut_tree t) = map cut_hdr (nchildren t)) by (destruct t; reflexivity).
  rewrite Hc. apply top_kinds_cut.
Qed.

Lemma filter_hdr_cut cs : filter is_header_node (map cut_hdr cs) = map cut_hdr (filter is_header_node cs).
Proof.
  induction cs as [|c cs IH]; [reflexivity|]. cbn [map filter]. rewrite !is_header_node_hk, cut_hdr_kind.
  destruct (hk (nkind c)); cbn [map]; rewrite IH; reflexivity.
Qed.

Theorem parent_link_cut t : parent_link (cut_tree t) = match parent_link t with PBad => PBad | _ => PNone end.
Proof.
  unfold parent_link. pose proof (filter_hdr_len _ _ (all_nodes_cut_kinds t)) as HL.
  assert (Hc : nchildren (cut_tree t) = map cut_hdr (nchildren t)) by (destruct t; reflexivity).
  rewrite Hc, filter_hdr_cut.
  destruct (filter is_header_node (all_nodes (cut_tree t))) as [|x [|y l]], (filter is_header_node (all_nodes t)) as [|x' [|y' l']];
    cbn [length] in HL; try discriminate; try reflexivity.
  destruct (filter is_header_node (nchildren t)) as [|h [|h2 r]]; cbn [map]; try reflexivity.
    unfold is_kind. rewrite cut_hdr_kind. fold (is_kind KAstClass h). destruct (is_kind KAstClass h) eqn:Ek; [|reflexivity].
    rewrite (cut_hdr_parent h Ek). destruct (attr_tok K_parent h) as [p|]; [destruct (ci_eqb (tval p) (nident h))|]; reflexivity.
Qed.

(* ---------- the walk after the cut ---------- *)

Lemma index_of_lt i l k : index_of i l = Some k -> (k < length l)%nat.
Proof.
  revert k. induction l as [|x l IH]; intros k H; [discriminate|]. cbn [index_of] in H. destruct (Nat.eqb x i).
  - inversion H. cbn [length]. lia.
  - destruct (index_of i l) as [k'|]; [|discriminate]. inversion H. specialize (IH k' eq_refl). cbn [length]. lia.
Qed.

Lemma firstn_snoc_lt {A} k (l : list A) x : (k < length l)%nat -> firstn (S k) (l ++ [x]) = firstn (S k) l.
Proof. intro H. rewrite firstn_app. replace (S k - length l)%nat with O by lia. cbn [firstn]. apply app_nil_r. Qed.

Lemma firstn_snoc_eq {A} (l : list A) x : firstn (S (length l)) (l ++ [x]) = l ++ [x].
Proof. rewrite firstn_app, firstn_all2 by lia. replace (S (length l) - length l)%nat with 1%nat by lia. reflexivity. Qed.

Lemma walk_cut ws : forall f seen i q, walk f ws seen i = Ans (true, q) ->
  (exists k, (k < length seen)%nat /\ q = firstn (S k) seen) \/
  (exists c pre, ~ In c seen /\ q = pre ++ [c] /\ walk f (cut_ws ws c) seen i = Ans (false, q)).
Proof.
  induction f as [|f IH]; intros seen i q Hw; [discriminate|]. cbn [walk] in Hw.
  destruct (index_of i seen) as [k|] eqn:Ei.
  { destruct (forallb (tree_ok ws header_first) seen); [|discriminate]. inversion Hw. left. exists k. split; [eapply index_of_lt; exact Ei|reflexivity]. }
  destruct (nth_error ws i) as [d|] eqn:En; [|discriminate].
  destruct (parent_link (snd d)) as [|p|] eqn:Ep; try discriminate.
  destruct (find_doc ws p) as [[j dj]|] eqn:Ef; [|discriminate].
  pose proof (index_of_none i seen Ei) as Hni.
  destruct (IH _ _ _ Hw) as [(k & Hk & Hq)|(c & pre & Hc & Hq & Hwc)].
  - rewrite app_length in Hk. cbn [length] in Hk. destruct (Nat.eq_dec k (length seen)) as [E|E].
    + subst k. rewrite firstn_snoc_eq in Hq. right. exists i, seen. split; [exact Hni|]. split; [exact Hq|].
      cbn [walk]. rewrite Ei, cut_ws_nth, Nat.eqb_refl, En. cbn [option_map snd]. rewrite parent_link_cut, Ep, Hq. reflexivity.
    + left. exists k. split; [lia|]. rewrite Hq. apply firstn_snoc_lt. lia.
  - right. exists c, pre. assert (Hci : c <> i) by (intro E; apply Hc; apply in_or_app; right; left; symmetry; exact E).
    split; [intro Hin; apply Hc; apply in_or_app; left; exact Hin|]. split; [exact Hq|].
    cbn [walk]. rewrite Ei, cut_ws_nth. assert (Eic : Nat.eqb i c = false) by (apply Nat.eqb_neq; auto). rewrite Eic, En, Ep.
    pose proof (cut_ws_find ws c p) as Efc. rewrite Ef in Efc. destruct (find_doc (cut_ws ws c) p) as [[j' dj']|]; [|discriminate].
    cbn [option_map fst] in Efc. inversion Efc; subst j'. exact Hwc.
Qed.

(* C10_ws_cycle_chain: on a parent cycle the chain of the requested document a is the chain it has in
   the workspace where the document c that closes the cycle -- the last one of the returned path --
   has no parent clause: there the walk does not come back, returns the same documents, and the
   tables, hence every look-up along the chain and every link target, are the same *)
Theorem ws_cycle_chain ws a path : lineage_t ws a = Ans (true, path) ->
  exists c pre, path = pre ++ [c] /\
    lineage_t (cut_ws ws c) a = Ans (false, path) /\
    own_chain (cut_ws ws c) a = own_chain ws a /\
    (forall b, tables_along (cut_ws ws c) b path = tables_along ws b path) /\
    (forall ch oid, wdef_all (cut_ws ws c) ch oid = wdef_all ws ch oid) /\
    (forall h, target_of (cut_ws ws c) h = target_of ws h).
Proof.
  intro Hl. unfold lineage_t in Hl. destruct (walk_cut ws _ _ _ _ Hl) as [(k & Hk & _)|(c & pre & _ & Hq & Hw)]; [cbn in Hk; lia|].
  exists c, pre. split; [exact Hq|].
  assert (Hl' : lineage_t (cut_ws ws c) a = Ans (false, path)) by (unfold lineage_t; rewrite cut_ws_length; exact Hw).
  split; [exact Hl'|]. split.
  - unfold own_chain, lineage_t. fold (lineage_t (cut_ws ws c) a). fold (lineage_t ws a). unfold lineage_t at 2. rewrite Hl', Hl. rewrite tables_along_cut. reflexivity.
  - split; [intro b; apply tables_along_cut|]. split; [intros; apply wdef_all_cut|apply target_of_cut].
Qed.

(* a plain identifier the chain itself declares: same link (the `uses` loop is not reached) *)
Lemma wdef_single_chain_cut ws c a ch id h : lookup ch id = Some h ->
  wdef_single (cut_ws ws c) a ch (Some id) = wdef_single ws a ch (Some id).
Proof. intro H. unfold wdef_single, wsearch. rewrite H, target_of_cut. reflexivity. Qed.

(* ---------- the cut workspace is again a workspace of regular, well-named documents ---------- *)

Lemma dkind_at_cut g c : dkind_at (g, cut_hdr c) = dkind_at (g, c).
Proof. unfold dkind_at, dkind_of. cbn [fst snd]. rewrite cut_hdr_kind. reflexivity. Qed.

Lemma dk_cut c : dk (cut_hdr c) = dk c.
Proof. apply dkind_at_cut. Qed.

Lemma silent_top_cut_tree t : silent_top t -> silent_top (cut_tree t).
Proof. unfold silent_top, silent, top, dkind_at, dkind_of. cbn [fst snd]. destruct t. exact (fun H => H). Qed.

Lemma quiet_cut t c : quiet t c -> quiet (cut_tree t) (cut_hdr c).
Proof. unfold quiet. rewrite below_cut. exact (fun H => H). Qed.

Lemma pre_ok_cut t c : pre_ok t c -> pre_ok (cut_tree t) (cut_hdr c).
Proof. intros [H1 H2]. split; [unfold silent_top, silent, top in *; rewrite dkind_at_cut; exact H1|apply quiet_cut; exact H2]. Qed.

Lemma mid_ok_cut t c : mid_ok t c -> mid_ok (cut_tree t) (cut_hdr c).
Proof.
  intros [H1 H2]. split; [|apply quiet_cut; exact H2]. unfold silent_top, silent, top, is_uses, is_member, is_method in *.
  rewrite dk_cut, dkind_at_cut. exact H1.
Qed.

Lemma rest_ok_cut t c : rest_ok t c -> rest_ok (cut_tree t) (cut_hdr c).
Proof.
  unfold rest_ok, quiet, silent_top, silent, top, is_method. rewrite below_cut, dk_cut, dkind_at_cut. exact (fun H => H).
Qed.

Lemma Forall_map_cut (P Q : node -> Prop) l : (forall c, P c -> Q (cut_hdr c)) -> Forall P l -> Forall Q (map cut_hdr l).
Proof. intros H. induction 1; cbn [map]; constructor; auto. Qed.

Theorem regular_cut t : regular t -> regular (cut_tree t).
Proof.
  intros [Ht (pre & h & mid & rest & Hch & Hpre & Hh & Hhq & Hmid & Hrest)]. split; [apply silent_top_cut_tree; exact Ht|].
  exists (map cut_hdr pre), (cut_hdr h), (map cut_hdr mid), (map cut_hdr rest).
  split; [destruct t; cbn [cut_tree nchildren] in *; rewrite Hch, map_app; cbn [map]; rewrite map_app; reflexivity|].
  split; [apply (Forall_map_cut (pre_ok t)); [apply pre_ok_cut|exact Hpre]|].
  split; [unfold is_header in *; rewrite dk_cut; exact Hh|]. split; [apply quiet_cut; exact Hhq|].
  split; [apply (Forall_map_cut (mid_ok t)); [apply mid_ok_cut|exact Hmid]|apply (Forall_map_cut (rest_ok t)); [apply rest_ok_cut|exact Hrest]].
Qed.

Lemma find_header_cut cs : find is_header (map cut_hdr cs) = option_map cut_hdr (find is_header cs).
Proof.
  induction cs as [|c cs IH]; [reflexivity|]. cbn [map find]. unfold is_header at 1. rewrite dk_cut. fold (is_header c).
  destruct (is_header c); [reflexivity|exact IH].
Qed.

Lemma e_name_cut t : e_name (entity_of_tree (cut_tree t)) = e_name (entity_of_tree t).
Proof.
  unfold entity_of_tree. cbn [e_name]. assert (Hc : nchildren (cut_tree t) = map cut_hdr (nchildren t)) by (destruct t; reflexivity).
  rewrite Hc, find_header_cut. destruct (find is_header (nchildren t)); cbn [option_map]; [apply cut_hdr_ident|reflexivity].
Qed.

Lemma module_plain_cut t : module_plain t -> module_plain (cut_tree t).
Proof.
  intros H h Hin Hk. assert (Hc : nchildren (cut_tree t) = map cut_hdr (nchildren t)) by (destruct t; reflexivity).
  rewrite Hc in Hin. apply in_map_iff in Hin. destruct Hin as (c & <- & Hc'). unfold is_kind in Hk. rewrite cut_hdr_kind in Hk.
  fold (is_kind KAstClass c) in Hk. unfold cut_hdr. rewrite Hk. apply (H c Hc' Hk).
Qed.

Theorem ws_ok_cut ws : forall c, ws_ok ws -> ws_ok (cut_ws ws c).
Proof.
  unfold ws_ok. induction ws as [|d r IH]; intros c H; [destruct c; constructor|]. inversion H as [|? ? Hd Hr]; subst.
  destruct c as [|c]; cbn [cut_ws]; constructor; auto.
  destruct Hd as (H1 & H2 & H3). unfold doc_ok, ent. cbn [fst snd]. split; [apply regular_cut; exact H1|].
  split; [rewrite e_name_cut; exact H2|apply module_plain_cut; exact H3].
Qed.

Lemma distinct_stems_cut ws : forall c, distinct_stems (cut_ws ws c) = distinct_stems ws.
Proof.
  induction ws as [|d r IH]; intros c; [destruct c; reflexivity|]. destruct c as [|c]; cbn [cut_ws distinct_stems fst]; [reflexivity|].
  rewrite IH. f_equal. f_equal. clear. revert c. induction r as [|x r IH]; intro c; [destruct c; reflexivity|].
  destruct c as [|c]; cbn [cut_ws existsb fst]; [reflexivity|]. rewrite IH. reflexivity.
Qed.

(* on a cycle: the chain of the requested document refines Scoping.scope_chain of the CUT workspace
   (and with it every look-up and label theorem of WsTreeProofs), whenever that workspace is acyclic *)
Theorem ws_cycle_refines ws a d k mt path : ws_ok ws -> distinct_stems ws = true ->
  nth_error ws a = Some d -> lineage_t ws a = Ans (true, path) ->
  nth_error (method_tables_of false (snd d)) k = Some mt ->
  exists c pre, path = pre ++ [c] /\ ws_ok (cut_ws ws c) /\ distinct_stems (cut_ws ws c) = true /\
    (ws_acyclic (cut_ws ws c) ->
     exists d' me, nth_error (cut_ws ws c) a = Some d' /\ fst d' = fst d /\
       nth_error (e_methods (ent d')) k = Some me /\
       Forall2 same_tableB (tree_chain ws a mt path) (abs_chain_ws (cut_ws ws c) d' me) /\
       (find_method (ent d') (me_name me) = Some me ->
        scope_chain (absws (cut_ws ws c)) (fst d) (Some (me_name me)) = abs_chain_ws (cut_ws ws c) d' me)).
Proof.
  intros Hok Hds Hn Hl Hk. destruct (ws_cycle_chain ws a path Hl) as (c & pre & Hq & Hl' & _ & Ht & _).
  exists c, pre. split; [exact Hq|]. split; [apply ws_ok_cut; exact Hok|]. split; [rewrite distinct_stems_cut; exact Hds|].
  intro Hac. pose proof (cut_ws_nth ws c a) as Hn'. rewrite Hn in Hn'.
  set (d' := if Nat.eqb a c then (fst d, cut_tree (snd d)) else d).
  assert (Hnd : nth_error (cut_ws ws c) a = Some d') by (unfold d'; destruct (Nat.eqb a c); exact Hn').
  assert (Hfst : fst d' = fst d) by (unfold d'; destruct (Nat.eqb a c); reflexivity).
  assert (Hmt : method_tables_of false (snd d') = method_tables_of false (snd d)).
  { unfold d'. destruct (Nat.eqb a c); [|reflexivity]. cbn [snd]. unfold method_tables_of. rewrite annotate_cut. reflexivity. }
  assert (Hk' : nth_error (method_tables_of false (snd d')) k = Some mt) by (rewrite Hmt; exact Hk).
  assert (Hds' : distinct_stems (cut_ws ws c) = true) by (rewrite distinct_stems_cut; exact Hds).
  destruct (ws_scope_chain_refines (cut_ws ws c) a d' k mt (ws_ok_cut ws c Hok) Hac Hds' Hnd Hk')
    as (me & path' & Hme & Hlp & _ & _ & _ & _ & HF & Hsc).
  rewrite Hl' in Hlp. inversion Hlp; subst path'. exists d', me. split; [exact Hnd|]. split; [exact Hfst|]. split; [exact Hme|].
  split; [unfold tree_chain in *; rewrite <- (Ht a); exact HF|]. rewrite <- Hfst. exact Hsc.
Qed.
