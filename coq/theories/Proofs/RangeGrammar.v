(* C08: one lemma per grammar function of Model/Grammar.v for the relation RK (builder lemmas:
   every node a parser returns has a well-formed range inside its window, carries its identifier
   token inside its range, and all nodes below it are well-formed), mostly by the tactic [rtac]. *)
From GoldV Require Import Base Tokens Keywords Lexer AstKinds Tree Strings PComb Grammar RangeBase RangeRel RangeComb.
From Coq Require Import Sorted Lia.

(* seq_tokens: a chain of tokens of the listed types, of the listed length *)
Definition SeqQ (u : univ) (tys : list ttype) (lo hi : N) (l : list tok) : Prop :=
  Chain (TokIn u tys) lo hi l /\ length l = length tys.

Lemma Mono_SeqQ u tys : MonoQ (SeqQ u tys).
Proof. intros lo hi lo' hi' l [H1 H2] A1 A2. split; [eapply Chain_widen; eauto; apply Mono_TokIn|exact H2]. Qed.

Lemma Mono_SliceQ u tys : MonoQ (SliceQ u tys).
Proof.
  intros lo hi lo' hi' [b t] (H1 & H2 & H3) A1 A2. cbn [fst snd] in *. split; [exact H1|]. split.
  - intros x Hx. specialize (H2 x Hx). lia.
  - eapply Mono_OptQ; eauto. apply Mono_TokIn.
Qed.

Lemma Chain_AllWf u lo hi l : Chain (NodeOK u) lo hi l -> Forall (AllWf u) l.
Proof. induction 1 as [|lo mid hi x l [_ Hx] _ _ IH]; constructor; auto. Qed.

Lemma terminal_ok u tys lo hi t : TokIn u tys lo hi t -> NodeOK u lo hi (mk_terminal t).
Proof.
  intro H. unfold mk_terminal. apply NodeOK_intro.
  - eapply TokIn_range; exact H.
  - apply sel_ok_none; reflexivity.
  - apply name_ok_other; discriminate.
  - constructor.
Qed.

Definition ident_tys : list ttype :=
  [TIdentifier; TType; TDistinct; TFrom; TSelect; TTop; TUsing; TWhere; TAllVersionsOf;
   TPhantomsToo; TConditional; TDescending; TOrder; TBy; TFetch; TInto].

Lemma AllWf_intro0 u k id raw rng at_ ch :
  RangeOK u 0 (utop u) rng -> sel_ok u (Node k id raw rng at_ ch) -> name_ok (Node k id raw rng at_ ch) ->
  Forall (AllWf u) ch -> AllWf u (Node k id raw rng at_ ch).
Proof. intros H1 H2 H3 H4. exact (proj2 (NodeOK_intro u k id raw rng at_ ch 0 (utop u) H1 H2 H3 H4)). Qed.

Lemma sel_ok_for_noend u n : nkind n = KAstForBlock -> attr_tok K_end n = None -> sel_ok u n.
Proof.
  intros Hk He. split; [intros t Ht Hg; exfalso; apply (Hg Hk); exact He|]. rewrite Hk. discriminate.
Qed.

Ltac mono :=
  repeat first [ apply Mono_NodeOK | apply Mono_TokIn | apply Mono_OptQ | apply Mono_Chain | apply Mono_PairQ
               | apply Mono_TrueQ | apply Mono_SeqQ | apply Mono_SliceQ | apply Mono_RangeOK | assumption ].

Create HintDb rdb.

(* normalise the facts about values returned so far *)
Ltac rnorm :=
  repeat match goal with
  | H : OptQ _ _ _ (Some _) |- _ => cbn [OptQ] in H
  | H : OptQ _ _ _ None |- _ => clear H
  | H : PairQ _ _ _ _ (_, _) |- _ => let H1 := fresh "Hq" in let H2 := fresh "Hq" in destruct H as [H1 H2]; cbn [fst snd] in H1, H2
  | H : UntilQ _ _ _ _ (_, _) |- _ => let H1 := fresh "Hq" in let H2 := fresh "Hq" in destruct H as [H1 H2]; cbn [fst snd] in H1, H2
  | H : SliceQ _ _ _ _ (_, _) |- _ => let H1 := fresh "Hq" in let H2 := fresh "Hq" in let H3 := fresh "Hq" in
                                      destruct H as (H1 & H2 & H3); cbn [fst snd] in H1, H2, H3
  | H : SeqQ _ _ _ _ _ |- _ => let H1 := fresh "Hq" in let H2 := fresh "Hq" in destruct H as [H1 H2]
  | H : NodeOK _ _ _ _ |- _ => let H1 := fresh "Hr" in let H2 := fresh "Hw" in destruct H as [H1 H2]
  | H : Chain _ _ _ (_ :: _) |- _ => inversion H; subst; clear H
  | H : Chain _ _ _ [] |- _ => apply Chain_le in H
  | H : TrueQ _ _ _ |- _ => clear H
  | H : OptQ _ _ _ (Some (_, _)) |- _ => cbn [OptQ] in H
  | H : context [fst (_, _)] |- _ => cbn [fst snd] in H
  | H : context [snd (_, _)] |- _ => cbn [fst snd] in H
  | H : TokIn ?u ?tys ?lo ?hi ?t |- _ =>
      lazymatch goal with
      | _ : RangeOK u lo hi (trange t) |- _ => fail
      | _ => pose proof (TokIn_range u tys lo hi t H)
      end
  | E : rev ?l = ?n :: _, H : Chain (NodeOK ?u) ?lo ?hi ?l |- _ =>
      lazymatch goal with
      | _ : RangeOK u lo hi (nrange n) |- _ => fail
      | _ => let Hn := fresh "Hn" in pose proof (Chain_last (NodeOK u) (Mono_NodeOK u) lo hi l n _ H E) as Hn
      end
  | E : rev ?l = ?n :: _, H : Chain (TokIn ?u ?tys) ?lo ?hi ?l |- _ =>
      lazymatch goal with
      | _ : TokIn u tys lo hi n |- _ => fail
      | _ => let Hn := fresh "Hn" in pose proof (Chain_last (TokIn u tys) (Mono_TokIn u tys) lo hi l n _ H E) as Hn
      end
  end.

(* destruct a variable scrutinised by a match in the goal *)
Ltac dmatch :=
  match goal with
  | |- context [match rev ?x with _ => _ end] => let E := fresh "Erev" in destruct (rev x) eqn:E
  | |- context [match ?x with _ => _ end] => is_var x; destruct x
  end.

Ltac rrange :=
  unfold new_range, range_of_toks, tpos; cbn [rstart rend];
  first [ eapply RangeOK_mono; [eassumption | lia | lia]
        | eapply RangeOK_mk; [eassumption | eassumption | lia | lia | lia]
        | eapply RangeOK_self; [eassumption | lia | lia] ].

Ltac rinside :=
  cbn [nrange]; unfold new_range, range_of_toks, tpos, inside; cbn [rstart rend];
  split;
  [ first [ apply pos_le_refl | eapply inside_start; [eassumption | eassumption | lia] ]
  | first [ apply pos_le_refl | eapply inside_end; [eassumption | reflexivity | eassumption | lia] ] ].

Ltac rsel :=
  first [ apply sel_ok_none; reflexivity
        | eapply sel_ok_tok; [ reflexivity
                             | match goal with H : TokIn _ _ _ _ ?t |- T _ ?t => exact (proj1 H) end
                             | rinside ]
        | apply sel_ok_for_noend; reflexivity ].

Ltac rkids :=
  repeat first [ apply Forall_nil
               | apply Forall_cons
               | apply Forall_app; split
               | assumption
               | eapply Chain_AllWf; eassumption
               | match goal with H : TokIn _ _ _ _ ?t |- AllWf _ (mk_terminal ?t) => exact (proj2 (terminal_ok _ _ _ _ _ H)) end
               | match goal with |- AllWf _ (cb_node (mkCB _ _ _ _)) =>
                   unfold cb_node; cbn [cb_raw cb_range cb_cond cb_stmts opt_list];
                   apply AllWf_intro0; [ rrange | rsel | apply name_ok_other; discriminate | ]
                 end ].

Ltac rnode :=
  apply NodeOK_intro; [ rrange | rsel | apply name_ok_other; discriminate | rkids ].

(* the value a parser returns *)
Ltac rval :=
  unfold Shift, TrueQ; cbv beta zeta; unfold opt_list, opt_toks, last_range;
  repeat (dmatch; rnorm);
  cbv beta match zeta; unfold PairQ; cbn [OptQ fst snd app];
  repeat match goal with |- _ /\ _ => split end;
  lazymatch goal with
  | |- True => exact I
  | |- NodeOK _ _ _ (Node _ _ _ _ _ _) => rnode
  | |- NodeOK _ _ _ (mk_binop _ _ _) => eapply mk_binop_ok; [split; eassumption | split; eassumption | lia | lia | lia]
  | |- OptQ _ _ _ _ => eapply Mono_OptQ; [mono | eassumption | lia | lia]
  | |- NodeOK _ _ _ (mk_terminal _) => eapply Mono_NodeOK; [eapply terminal_ok; eassumption | lia | lia]
  | |- NodeOK _ _ _ _ => first [ eapply Mono_NodeOK; [split; eassumption | lia | lia] ]
  | |- TokIn _ _ _ _ _ => eapply Mono_TokIn; [eassumption | lia | lia]
  | |- _ => idtac
  end.

Section Gram.
  Variable u : univ.
  Variable Iv : ctx -> Prop.
  Variable B : input.
  Hypothesis I_diag : forall d c, DiagOK u d -> Iv c -> Iv (add_diag d c).
  (* memoisation keeps the relation (discharged for the cache invariant in RangeTop.v) *)
  Hypothesis I_memo : forall k m p, RK u Iv B m (NodeOK u) p -> RK u Iv B m (NodeOK u) (memo k p).
  Hypothesis I_memo_ok : forall k m p, RK u Iv B m (NodeOK u) p -> RK u Iv B m (NodeOK u) (memo_ok_only k p).

  Local Notation RK := (RangeComb.RK u Iv B).
  Local Notation NodeOK := (RangeRel.NodeOK u).
  Local Notation TokIn := (RangeRel.TokIn u).

  Lemma RK_seq_tokens' m tys : RK m (SeqQ u tys) (seq_tokens tys).
  Proof. apply RK_seq_tokens. Qed.

  (* `match o with Some _ => x <- p ;; ret (Some x) | None => ret None end` *)
  Lemma RK_opt_follow {A C} (o : option A) (p : P C) (Q : N -> N -> C -> Prop) m :
    MonoQ Q -> (forall m, RK m Q p) ->
    RK m (OptQ Q) (match o with Some _ => bind p (fun t => ret (Some t)) | None => ret None end).
  Proof.
    intros HQ Hp. destruct o as [x|].
    - eapply RK_bind; [apply Hp|]. intros a lo mid H1 H2 Ha. apply RK_ret_shift. intros hi H3 H4.
      cbn [OptQ]. eapply HQ; [exact Ha|lia|lia].
    - apply RK_ret. intros. exact I.
  Qed.

  Lemma RK_opt_follow_opt {A C} (o : option A) (p : P C) (Q : N -> N -> C -> Prop) m :
    (forall m, RK m Q p) ->
    RK m (OptQ Q) (match o with Some _ => opt p | None => ret None end).
  Proof.
    intros Hp. destruct o; [apply RK_opt; apply Hp|]. apply RK_ret. intros. exact I.
  Qed.


  Ltac rsub :=
    lazymatch goal with
    | |- RangeComb.RK _ _ _ _ _ (opt _) => eapply RK_opt; rsub
    | |- RangeComb.RK _ _ _ _ _ (recover_at_error _) => eapply RK_recover_at_error; rsub
    | |- RangeComb.RK _ _ _ _ _ (prepend _ _) => eapply RK_prepend; rsub
    | |- RangeComb.RK _ _ _ _ _ (exp_token _) => apply RK_exp_token
    | |- RangeComb.RK _ _ _ _ _ (tok_alt _) => apply RK_tok_alt
    | |- RangeComb.RK _ _ _ _ _ (exp_ident_with_value _) => apply RK_exp_ident_with_value
    | |- RangeComb.RK _ _ _ _ _ (seq_tokens _) => apply RK_seq_tokens'
    | |- RangeComb.RK _ _ _ _ _ (sep_tokens _ _) => apply RK_sep_tokens
    | |- RangeComb.RK _ _ _ _ _ (take_until _) => apply RK_take_until
    | |- RangeComb.RK _ _ _ _ _ (sep_list _ _) => eapply RK_sep_list; [exact I_diag | | intro; rsub]; mono
    | |- RangeComb.RK _ _ _ _ _ (until_w_ctx _ _) => eapply RK_until; [exact I_diag | | | intro; rsub | intro; rsub]; mono
    | |- RangeComb.RK _ _ _ _ _ (until_strict _ _) => eapply RK_until_strict; [ | | intro; rsub | intro; rsub]; mono
    | |- RangeComb.RK _ _ _ _ _ (until_no_match _) => eapply RK_until_no_match; [ | intro; rsub]; mono
    | |- RangeComb.RK _ _ _ _ _ (repeat_w_ctx _) => eapply RK_repeat; [exact I_diag | | intro; rsub]; mono
    | |- RangeComb.RK _ _ _ _ _ (binops _ _) => eapply RK_binops; [intro; rsub | intro; rsub]
    | |- RangeComb.RK _ _ _ _ _ (memo _ _) => apply I_memo; rsub
    | |- RangeComb.RK _ _ _ _ _ (memo_ok_only _ _) => apply I_memo_ok; rsub
    | |- RangeComb.RK _ _ _ _ _ (match _ with Some _ => bind _ _ | None => ret None end) =>
        eapply RK_opt_follow; [ | intro; rsub]; mono
    | |- RangeComb.RK _ _ _ _ _ (match _ with Some _ => opt _ | None => ret None end) =>
        eapply RK_opt_follow_opt; intro; rsub
    | |- RangeComb.RK _ _ _ _ _ (alt _) => eapply RK_alt; repeat (apply Forall_cons || apply Forall_nil); rsub
    | |- RangeComb.RK _ _ _ _ _ (bind _ _) => rtac
    | |- RangeComb.RK _ _ _ _ _ (ret _) => rtac
    | |- _ => solve [eauto with rdb]
    end
  with rtac :=
    cbv beta match zeta;
    lazymatch goal with
    | |- RangeComb.RK _ _ _ _ (Shift _ _) (bind _ _) =>
        eapply RK_bind_shift; [ rsub | let a := fresh "v" in let lo := fresh "lo" in let mid := fresh "mid" in
                                       intros a lo mid ? ? ?; rnorm; rtac ]
    | |- RangeComb.RK _ _ _ _ _ (bind _ _) =>
        eapply RK_bind; [ rsub | let a := fresh "v" in let lo := fresh "lo" in let mid := fresh "mid" in
                                 intros a lo mid ? ? ?; rnorm; rtac ]
    | |- RangeComb.RK _ _ _ _ (Shift _ _) (ret _) => apply RK_ret_shift; intros; rval
    | |- RangeComb.RK _ _ _ _ _ (ret _) => apply RK_ret; intros; rval
    | |- RangeComb.RK _ _ _ _ _ (fun _ c => (Panic _, c)) => apply RK_panic
    | |- RangeComb.RK _ _ _ _ _ (fail _) => apply RK_fail
    | |- RangeComb.RK _ _ _ _ _ (match _ with _ => _ end) => dmatch; rnorm; rtac
    | |- RangeComb.RK _ _ _ _ (Shift _ _) _ => eapply RK_tail; [ rsub | mono | lia ]
    | |- RangeComb.RK _ _ _ _ _ _ => rsub
    end.

  (* ---------- small shared parsers ---------- *)
  Lemma R_parse_comment m : RK m NodeOK parse_comment.
  Proof. unfold parse_comment. rtac. Qed.
  Hint Resolve R_parse_comment : rdb.

  Lemma R_parse_literal_basic m : RK m NodeOK parse_literal_basic.
  Proof. unfold parse_literal_basic. rtac. Qed.
  Hint Resolve R_parse_literal_basic : rdb.

  Lemma R_parse_ident_token m : RK m (TokIn ident_tys) parse_ident_token.
  Proof. unfold parse_ident_token. apply RK_tok_alt. Qed.

  (* parse_annotations returns an AstEmpty at the default range: well-formed, no window *)
  Definition WfQ (lo hi : N) (n : node) : Prop := AllWf u n.

  Lemma empty_default_ok : AllWf u mk_empty_default.
  Proof.
    unfold mk_empty_default. apply AllWf_node. split; [|constructor].
    destruct (range_default_ok u) as [H1 H2].
    split; [exact H1|]. split; [exact H2|]. split; [apply sel_ok_none; reflexivity|apply name_ok_other; discriminate].
  Qed.

  Lemma R_parse_annotations m : RK m WfQ parse_annotations.
  Proof.
    unfold parse_annotations.
    eapply RK_bind; [apply RK_exp_token|]. intros t lo mid H1 H2 Ht.
    eapply RK_bind_shift.
    - apply RK_opt. unfold annotation_body.
      eapply RK_bind with (Q2 := @TrueQ unit); [apply RK_take_until|]. intros x lo' mid' H3 H4 Hx.
      destruct (snd x); [apply RK_ret_shift; intros; exact I | apply RK_fail].
    - intros r lo' mid' H3 H4 Hr.
      destruct r; [apply RK_ret_shift; intros hi H5 H6; apply empty_default_ok | apply RK_fail].
  Qed.
  Hint Resolve R_parse_annotations : rdb.

  Lemma R_parse_identifier m : RK m NodeOK parse_identifier.
  Proof. unfold parse_identifier. eapply RK_bind; [apply R_parse_ident_token|]. intros; rnorm; rtac. Qed.
  Hint Resolve R_parse_identifier : rdb.
  Hint Resolve R_parse_ident_token : rdb.

  (* ---------- types ---------- *)
  Lemma R_parse_type_basic m : RK m NodeOK parse_type_basic.
  Proof. unfold parse_type_basic. rtac. Qed.
  Hint Resolve R_parse_type_basic : rdb.

  Lemma R_parse_enum_variant m : RK m NodeOK parse_enum_variant.
  Proof. unfold parse_enum_variant. rtac. Qed.
  Hint Resolve R_parse_enum_variant : rdb.

  Lemma R_parse_type_sized m : RK m NodeOK parse_type_sized.
  Proof. unfold parse_type_sized. rtac. Qed.
  Hint Resolve R_parse_type_sized : rdb.

  Lemma R_parse_type_enum m : RK m NodeOK parse_type_enum.
  Proof. unfold parse_type_enum. rtac. Qed.
  Hint Resolve R_parse_type_enum : rdb.

  Lemma R_parse_type_composed m : RK m NodeOK parse_type_composed.
  Proof. unfold parse_type_composed. rtac. Qed.
  Hint Resolve R_parse_type_composed : rdb.

  Lemma R_parse_type_reference_options m : RK m (@TrueQ (list tok)) parse_type_reference_options.
  Proof. unfold parse_type_reference_options. rtac. Qed.
  Hint Resolve R_parse_type_reference_options : rdb.

  Lemma R_parse_type_reference m : RK m NodeOK parse_type_reference.
  Proof. unfold parse_type_reference. rtac. Qed.
  Hint Resolve R_parse_type_reference : rdb.

  Lemma R_parse_type_range m : RK m NodeOK parse_type_range.
  Proof. unfold parse_type_range. rtac. Qed.
  Hint Resolve R_parse_type_range : rdb.

  Lemma R_parse_type_set m : RK m NodeOK parse_type_set.
  Proof. unfold parse_type_set. rtac. Qed.
  Hint Resolve R_parse_type_set : rdb.

  Lemma R_parse_type_pointer m : RK m NodeOK parse_type_pointer.
  Proof. unfold parse_type_pointer. rtac. Qed.
  Hint Resolve R_parse_type_pointer : rdb.

  Lemma R_parse_type_array_index m : RK m NodeOK parse_type_array_index.
  Proof. unfold parse_type_array_index. rtac. Qed.
  Hint Resolve R_parse_type_array_index : rdb.

  Lemma R_parse_type_array m : RK m NodeOK parse_type_array.
  Proof. unfold parse_type_array. rtac. Qed.
  Hint Resolve R_parse_type_array : rdb.

  Lemma R_parse_type_instanceof m : RK m NodeOK parse_type_instanceof.
  Proof. unfold parse_type_instanceof. rtac. Qed.
  Hint Resolve R_parse_type_instanceof : rdb.

  Section TypesRec.
    Variable rec : P node.
    Hypothesis Hrec : forall m, RK m NodeOK rec.

    Lemma R_parse_type_record_field m : RK m NodeOK (parse_type_record_field rec).
    Proof. unfold parse_type_record_field. rtac. Qed.
    Hint Resolve R_parse_type_record_field : rdb.

    Lemma R_parse_type_record m : RK m NodeOK (parse_type_record rec).
    Proof. unfold parse_type_record. rtac. Qed.
    Hint Resolve R_parse_type_record : rdb.

    Lemma R_parse_parameter_declaration m : RK m NodeOK (parse_parameter_declaration rec).
    Proof. unfold parse_parameter_declaration. rtac. Qed.
    Hint Resolve R_parse_parameter_declaration : rdb.

    Lemma R_parse_parameter_declaration_list m : RK m (OptQ NodeOK) (parse_parameter_declaration_list rec).
    Proof. unfold parse_parameter_declaration_list. rtac. Qed.
    Hint Resolve R_parse_parameter_declaration_list : rdb.

    Lemma R_parse_type_procedure m : RK m NodeOK (parse_type_procedure rec).
    Proof. unfold parse_type_procedure. rtac. Qed.
    Hint Resolve R_parse_type_procedure : rdb.

    Lemma R_parse_type_function m : RK m NodeOK (parse_type_function rec).
    Proof. unfold parse_type_function. rtac. Qed.
    Hint Resolve R_parse_type_function : rdb.

    Lemma R_parse_type_body m : RK m NodeOK (parse_type_body rec).
    Proof. unfold parse_type_body. rtac. Qed.
  End TypesRec.

  (* ---------- declarations that need only parse_type ---------- *)
  Lemma R_parse_constant_declaration m : RK m NodeOK parse_constant_declaration.
  Proof. unfold parse_constant_declaration, pfx_const. rtac. Qed.
  Hint Resolve R_parse_constant_declaration : rdb.

  Lemma R_parse_uses m : RK m NodeOK parse_uses.
  Proof. unfold parse_uses. rtac. Qed.
  Hint Resolve R_parse_uses : rdb.

  Section DeclsType.
    Variable ptype : P node.
    Hypothesis Hptype : forall m, RK m NodeOK ptype.

    Lemma R_parse_type_declaration m : RK m NodeOK (parse_type_declaration ptype).
    Proof. unfold parse_type_declaration. rtac. Qed.

    Lemma R_parse_local_var_decl m : RK m NodeOK (parse_local_var_decl ptype).
    Proof. unfold parse_local_var_decl. rtac. Qed.
  End DeclsType.

  (* ---------- expressions ---------- *)
  Section ExprRec.
    Variable rec_expr rec_primary : P node.
    Hypothesis Hre : forall m, RK m NodeOK rec_expr.
    Hypothesis Hrp : forall m, RK m NodeOK rec_primary.

    Lemma R_parse_literal_set m : RK m NodeOK (parse_literal_set rec_primary).
    Proof. unfold parse_literal_set. rtac. Qed.
    Hint Resolve R_parse_literal_set : rdb.

    Lemma R_parse_literals m : RK m NodeOK (parse_literals rec_primary).
    Proof. unfold parse_literals. rtac. Qed.
    Hint Resolve R_parse_literals : rdb.

    Lemma R_parse_method_call m : RK m NodeOK (parse_method_call rec_expr).
    Proof. unfold parse_method_call. rtac. Qed.
    Hint Resolve R_parse_method_call : rdb.

    Lemma R_parse_array_access m : RK m NodeOK (parse_array_access rec_expr).
    Proof. unfold parse_array_access. rtac. Qed.
    Hint Resolve R_parse_array_access : rdb.

    Lemma R_parse_dot_op m : RK m NodeOK (parse_dot_op rec_expr).
    Proof. unfold parse_dot_op. rtac. Qed.
    Hint Resolve R_parse_dot_op : rdb.

    Lemma R_parse_dot_ops m : RK m NodeOK (parse_dot_ops rec_expr).
    Proof. unfold parse_dot_ops. rtac. Qed.
    Hint Resolve R_parse_dot_ops : rdb.

    Lemma R_parse_bracket_closure m : RK m NodeOK (parse_bracket_closure rec_expr).
    Proof. unfold parse_bracket_closure. rtac. Qed.
    Hint Resolve R_parse_bracket_closure : rdb.

    Lemma R_parse_unary_op_pre m : RK m NodeOK (parse_unary_op_pre rec_primary).
    Proof. unfold parse_unary_op_pre. rtac. Qed.
    Hint Resolve R_parse_unary_op_pre : rdb.

    Lemma R_parse_unary_op_post m : RK m NodeOK (parse_unary_op_post rec_expr).
    Proof. unfold parse_unary_op_post. rtac. Qed.
    Hint Resolve R_parse_unary_op_post : rdb.

    Lemma R_parse_unary_op m : RK m NodeOK (parse_unary_op rec_expr rec_primary).
    Proof. unfold parse_unary_op. rtac. Qed.
    Hint Resolve R_parse_unary_op : rdb.

    Lemma R_parse_primary_body m : RK m NodeOK (parse_primary_body rec_expr rec_primary).
    Proof. unfold parse_primary_body. rtac. Qed.
  End ExprRec.

  Section LadderR.
    Variable prim : P node.
    Hypothesis Hprim : forall m, RK m NodeOK prim.

    Lemma R_parse_factors m : RK m NodeOK (parse_factors prim).
    Proof. unfold parse_factors. rtac. Qed.
    Hint Resolve R_parse_factors : rdb.
    Lemma R_parse_terms m : RK m NodeOK (parse_terms prim).
    Proof. unfold parse_terms. rtac. Qed.
    Hint Resolve R_parse_terms : rdb.
    Lemma R_parse_bit_ops_1 m : RK m NodeOK (parse_bit_ops_1 prim).
    Proof. unfold parse_bit_ops_1. rtac. Qed.
    Hint Resolve R_parse_bit_ops_1 : rdb.
    Lemma R_parse_bit_ops_2 m : RK m NodeOK (parse_bit_ops_2 prim).
    Proof. unfold parse_bit_ops_2. rtac. Qed.
    Hint Resolve R_parse_bit_ops_2 : rdb.
    Lemma R_parse_shifts m : RK m NodeOK (parse_shifts prim).
    Proof. unfold parse_shifts. rtac. Qed.
    Hint Resolve R_parse_shifts : rdb.
    Lemma R_parse_compare m : RK m NodeOK (parse_compare prim).
    Proof. unfold parse_compare. rtac. Qed.
    Hint Resolve R_parse_compare : rdb.
    Lemma R_parse_logical_and m : RK m NodeOK (parse_logical_and prim).
    Proof. unfold parse_logical_and. rtac. Qed.
    Hint Resolve R_parse_logical_and : rdb.
    Lemma R_parse_logical_or m : RK m NodeOK (parse_logical_or prim).
    Proof. unfold parse_logical_or. rtac. Qed.
    Hint Resolve R_parse_logical_or : rdb.
    Lemma R_parse_expr_body m : RK m NodeOK (parse_expr_body prim).
    Proof. unfold parse_expr_body. rtac. Qed.
  End LadderR.

  (* ---------- OQL ---------- *)
  Section OqlR.
    Variable pexpr pdotops pcompare : P node.
    Hypothesis Hpe : forall m, RK m NodeOK pexpr.
    Hypothesis Hpd : forall m, RK m NodeOK pdotops.
    Hypothesis Hpc : forall m, RK m NodeOK pcompare.

    Lemma R_parse_asterisk m : RK m NodeOK parse_asterisk.
    Proof. unfold parse_asterisk. rtac. Qed.
    Hint Resolve R_parse_asterisk : rdb.

    Lemma R_parse_top_n m : RK m NodeOK parse_top_n.
    Proof. unfold parse_top_n. rtac. Qed.
    Hint Resolve R_parse_top_n : rdb.

    Lemma R_parse_oql_method_call m : RK m NodeOK parse_oql_method_call.
    Proof. unfold parse_oql_method_call. rtac. Qed.
    Hint Resolve R_parse_oql_method_call : rdb.

    Lemma R_parse_select_item m : RK m NodeOK (parse_select_item pdotops).
    Proof. unfold parse_select_item. rtac. Qed.
    Hint Resolve R_parse_select_item : rdb.

    Lemma R_parse_join_item m : RK m NodeOK (parse_join_item pcompare).
    Proof. unfold parse_join_item. rtac. Qed.
    Hint Resolve R_parse_join_item : rdb.

    Lemma R_parse_from_item m : RK m NodeOK (parse_from_item pcompare).
    Proof. unfold parse_from_item. rtac. Qed.
    Hint Resolve R_parse_from_item : rdb.

    Lemma R_parse_where m : RK m NodeOK (parse_where pexpr).
    Proof. unfold parse_where. rtac. Qed.
    Hint Resolve R_parse_where : rdb.

    Lemma R_parse_order_by_item m : RK m NodeOK (parse_order_by_item pdotops).
    Proof. unfold parse_order_by_item. rtac. Qed.
    Hint Resolve R_parse_order_by_item : rdb.

    Lemma R_parse_order_by m : RK m (Chain NodeOK) (parse_order_by pdotops).
    Proof. unfold parse_order_by. rtac. Qed.
    Hint Resolve R_parse_order_by : rdb.

    Lemma R_parse_using m : RK m NodeOK parse_using.
    Proof. unfold parse_using. rtac. Qed.
    Hint Resolve R_parse_using : rdb.

    Lemma R_parse_oql_select m : RK m NodeOK (parse_oql_select pexpr pdotops pcompare).
    Proof. unfold parse_oql_select. rtac. Qed.
    Hint Resolve R_parse_oql_select : rdb.

    Lemma R_parse_oql_fetch m : RK m NodeOK (parse_oql_fetch pdotops).
    Proof. unfold parse_oql_fetch. rtac. Qed.
    Hint Resolve R_parse_oql_fetch : rdb.

    Lemma R_parse_oql_expr m : RK m NodeOK (parse_oql_expr pexpr pdotops pcompare).
    Proof. unfold parse_oql_expr. rtac. Qed.
  End OqlR.

  Hint Resolve R_parse_type_declaration R_parse_local_var_decl R_parse_oql_expr : rdb.

  (* ---------- statements ---------- *)
  Section StmtR.
    Variable ptype pexpr pdotops pcompare rec_stmt : P node.
    Hypothesis Hpt : forall m, RK m NodeOK ptype.
    Hypothesis Hpe : forall m, RK m NodeOK pexpr.
    Hypothesis Hpd : forall m, RK m NodeOK pdotops.
    Hypothesis Hpc : forall m, RK m NodeOK pcompare.
    Hypothesis Hrs : forall m, RK m NodeOK rec_stmt.

    Lemma R_parse_assignment m : RK m NodeOK (parse_assignment pexpr pdotops).
    Proof. unfold parse_assignment. rtac. Qed.
    Hint Resolve R_parse_assignment : rdb.

    Lemma R_parse_to_op m : RK m NodeOK parse_to_op.
    Proof. unfold parse_to_op. rtac. Qed.
    Hint Resolve R_parse_to_op : rdb.

    Lemma R_parse_separated_values m : RK m NodeOK parse_separated_values.
    Proof.
      unfold parse_separated_values.
      eapply RK_bind; [rsub|]. intros items lo mid H1 H2 Hc.
      destruct items as [|first l]; [apply RK_fail|].
      apply RK_ret_shift. intros hi H3 H4. unfold Shift.
      pose proof (Chain_AllWf _ _ _ _ Hc) as Hall.
      destruct (rev (first :: l)) as [|n l2] eqn:Erev.
      { exfalso. apply (f_equal (@length node)) in Erev. rewrite rev_length in Erev. discriminate. }
      destruct (Chain_first_last (NodeOK) (Mono_NodeOK u) _ _ _ _ _ _ Hc Erev) as [(-> & -> & Hx)|(mm & Hx & Hy & Ha & Hb)].
      - destruct Hx as [Hr Hw]. apply NodeOK_intro;
          [unfold new_range; eapply RangeOK_self; [eassumption|lia|lia] | apply sel_ok_none; reflexivity
          | apply name_ok_other; discriminate | exact Hall].
      - destruct Hx as [Hr Hw]. destruct Hy as [Hr2 Hw2]. apply NodeOK_intro;
          [unfold new_range; eapply RangeOK_mk; [exact Hr|exact Hr2|lia|lia|lia] | apply sel_ok_none; reflexivity
          | apply name_ok_other; discriminate | exact Hall].
    Qed.
    Hint Resolve R_parse_separated_values : rdb.

    Lemma R_parse_when_expr m : RK m NodeOK parse_when_expr.
    Proof. unfold parse_when_expr. rtac. Qed.
    Hint Resolve R_parse_when_expr : rdb.

    Lemma R_parse_when_block m : RK m NodeOK (parse_when_block rec_stmt).
    Proof. unfold parse_when_block. rtac. Qed.
    Hint Resolve R_parse_when_block : rdb.
    Lemma R_parse_switch_else_block m :
      RK m (PairQ (OptQ NodeOK) (OptQ (TokIn [TEndSwitch]))) (parse_switch_else_block rec_stmt).
    Proof. unfold parse_switch_else_block. rtac. Qed.
    Hint Resolve R_parse_switch_else_block : rdb.

    Lemma R_parse_switch_block m : RK m NodeOK (parse_switch_block pexpr rec_stmt).
    Proof. unfold parse_switch_block. rtac. Qed.
    Hint Resolve R_parse_switch_block : rdb.

    Lemma R_parse_for_block m : RK m NodeOK (parse_for_block pexpr rec_stmt).
    Proof. unfold parse_for_block. rtac. Qed.
    Hint Resolve R_parse_for_block : rdb.

    Lemma R_parse_foreach_block m : RK m NodeOK (parse_foreach_block pexpr pdotops pcompare rec_stmt).
    Proof. unfold parse_foreach_block. rtac. Qed.
    Hint Resolve R_parse_foreach_block : rdb.

    Lemma R_parse_while_block m : RK m NodeOK (parse_while_block pexpr rec_stmt).
    Proof. unfold parse_while_block. rtac. Qed.
    Hint Resolve R_parse_while_block : rdb.

    Lemma R_parse_loop_block m : RK m NodeOK (parse_loop_block rec_stmt).
    Proof. unfold parse_loop_block. rtac. Qed.
    Hint Resolve R_parse_loop_block : rdb.

    Lemma R_parse_repeat_block m : RK m NodeOK (parse_repeat_block pexpr rec_stmt).
    Proof. unfold parse_repeat_block. rtac. Qed.
    Hint Resolve R_parse_repeat_block : rdb.

    Lemma R_parse_return_statement m : RK m NodeOK (parse_return_statement pexpr).
    Proof. unfold parse_return_statement. rtac. Qed.
    Hint Resolve R_parse_return_statement : rdb.

    Lemma R_parse_control_statements m : RK m NodeOK (parse_control_statements pexpr).
    Proof. unfold parse_control_statements. rtac. Qed.
    Hint Resolve R_parse_control_statements : rdb.
    (* ----- if / elseif / else ----- *)
    Definition CurOK (lo hi : N) (b : cblock) : Prop :=
      exists m1, RangeOK u lo m1 (cb_range b) /\ m1 <= hi /\
                 OptQ NodeOK m1 hi (cb_cond b) /\ Forall (NodeOK m1 hi) (cb_stmts b).

    Lemma CurOK_node lo hi b : hi <= utop u -> CurOK lo hi b -> AllWf u (cb_node b).
    Proof.
      intros Hhi (m1 & Hr & Hm & Hc & Hs). unfold cb_node. apply AllWf_intro0.
      - eapply RangeOK_mono; [exact Hr|lia|lia].
      - apply sel_ok_none; reflexivity.
      - apply name_ok_other; discriminate.
      - apply Forall_app. split.
        + destruct (cb_cond b) as [n|]; cbn [opt_list OptQ] in *; [|constructor]. constructor; [exact (proj2 Hc)|constructor].
        + eapply Forall_impl; [|exact Hs]. intros n [_ Hn]. exact Hn.
    Qed.

    Lemma CurOK_update lo hi b : CurOK lo hi b -> CurOK lo hi (cb_update b).
    Proof.
      intros (m1 & Hr & Hm & Hc & Hs). exists m1. unfold cb_update. cbn [cb_range cb_cond cb_stmts].
      split; [|auto]. unfold new_range.
      destruct (rev (cb_stmts b)) as [|n l] eqn:E.
      - destruct (cb_cond b) as [n|]; cbn [OptQ] in Hc.
        + destruct Hc as [Hc _]. eapply RangeOK_mk; [exact Hr|exact Hc|lia|lia|lia].
        + eapply RangeOK_self; [exact Hr|lia|lia].
      - assert (In n (cb_stmts b)) as Hin by (apply in_rev; rewrite E; left; reflexivity).
        rewrite Forall_forall in Hs. destruct (Hs n Hin) as [Hn _].
        eapply RangeOK_mk; [exact Hr|exact Hn|lia|lia|lia].
    Qed.

    Lemma CurOK_widen lo hi hi' b : CurOK lo hi b -> hi <= hi' -> CurOK lo hi' b.
    Proof.
      intros (m1 & Hr & Hm & Hc & Hs) H. exists m1. split; [exact Hr|]. split; [lia|]. split.
      - eapply Mono_OptQ; [apply Mono_NodeOK|exact Hc|lia|lia].
      - eapply Forall_impl; [|exact Hs]. intros n Hn. eapply Mono_NodeOK; [exact Hn|lia|lia].
    Qed.

    Definition if_tys : list ttype := [TElseIf; TElse; TEndIf; TEnd].
    Definition IfQ (lb lo hi : N) (x : cblock * list cblock * option tok) : Prop :=
      AllWf u (cb_node (fst (fst x))) /\ Forall (fun b => AllWf u (cb_node b)) (snd (fst x)) /\
      OptQ (TokIn if_tys) lb hi (snd x).

    Lemma R_if_loop lb : forall fuel it cur done i c lo0,
      BodyOK u i -> Suffix i B -> Iv c -> lo0 <= key u i -> lb <= key u i -> T u it ->
      CurOK lo0 (key u i) cur -> Forall (fun b => AllWf u (cb_node b)) done ->
      post u Iv i (Shift (IfQ lb) lo0) (if_loop pexpr rec_stmt fuel it cur done i c).
    Proof.
      induction fuel as [|f IH]; intros it cur done i c lo0 Hb Hs Hc Hlo Hlb Hit Hcur Hdone; [exact I|].
      cbn [if_loop].
      destruct i as [|t0 i'].
      { cbn [post]. split; [apply Suffix_refl|]. split; [|exact Hc]. unfold Shift, IfQ. cbn [fst snd OptQ].
        split; [eapply CurOK_node; [|exact Hcur]; apply key_le_top; exact Hb|]. split; [exact Hdone|exact I]. }
      set (i := t0 :: i') in *.
      assert (RK (key u i) (UntilQ NodeOK (TokIn if_tys)) (until_w_ctx (tok_alt if_tys) rec_stmt)) as Hu by rsub.
      specialize (Hu i c Hb Hs (N.le_refl _) Hc). change (tok_alt [TElseIf; TElse; TEndIf; TEnd]) with (tok_alt if_tys).
      destruct (until_w_ctx (tok_alt if_tys) rec_stmt i c) as [[r [nodes endt]|e msg|s|] c1]; cbn [post] in *; auto.
      destruct Hu as (A1 & [A2 A2'] & A3). cbn [fst snd] in A2, A2'.
      assert (BodyOK u r) as Hbr by bsuf.
      pose proof (key_suffix u r i Hb A1) as Hkr.
      pose proof (key_le_top u r Hbr) as Hrt.
      set (cur1 := mkCB (cb_raw cur) (cb_range cur) (cb_cond cur) (cb_stmts cur ++ nodes)).
      assert (CurOK lo0 (key u r) cur1) as Hcur1.
      { destruct Hcur as (m1 & Hr & Hm & Hcd & Hst). exists m1. unfold cur1. cbn [cb_range cb_cond cb_stmts].
        split; [exact Hr|]. split; [lia|]. split; [eapply Mono_OptQ; [apply Mono_NodeOK|exact Hcd|lia|lia]|].
        apply Forall_app. split.
        - eapply Forall_impl; [|exact Hst]. intros n Hn. eapply Mono_NodeOK; [exact Hn|lia|lia].
        - pose proof (Chain_Forall NodeOK (Mono_NodeOK u) _ _ _ A2) as HF.
          eapply Forall_impl; [|exact HF]. intros n Hn. eapply Mono_NodeOK; [exact Hn|lia|lia]. }
      destruct endt as [t|]; cbn [OptQ] in A2'.
      - destruct (tt_eqb (tty t) TEndIf || tt_eqb (tty t) TEnd).
        { cbn [post]. split; [exact A1|]. split; [|exact A3]. unfold Shift, IfQ. cbn [fst snd OptQ].
          split; [eapply CurOK_node; [exact Hrt|apply CurOK_update; exact Hcur1]|]. split; [exact Hdone|].
          eapply Mono_TokIn; [exact A2'|lia|lia]. }
        assert (Forall (fun b => AllWf u (cb_node b)) (done ++ [cb_update cur1])) as Hdone'.
        { apply Forall_app. split; [exact Hdone|]. constructor; [|constructor].
          eapply CurOK_node; [exact Hrt|apply CurOK_update; exact Hcur1]. }
        pose proof (TokIn_range u _ _ _ _ A2') as Rt.
        destruct (tt_eqb (tty t) TElseIf).
        + pose proof (Hpe (key u r) r c1 Hbr (Suffix_trans _ _ _ A1 Hs) (N.le_refl _) A3) as He.
          destruct (pexpr r c1) as [[r2 cond|e msg|s|] c2]; cbn [post] in *; auto.
          * destruct He as (B1 & B2 & B3).
            assert (BodyOK u r2) as Hbr2 by bsuf.
            pose proof (key_suffix u r2 r Hbr B1) as Hkr2.
            specialize (IH it (mkCB (traw t) (trange t) (Some cond) []) (done ++ [cb_update cur1]) r2 c2 lo0 Hbr2
                          (Suffix_trans _ _ _ B1 (Suffix_trans _ _ _ A1 Hs)) B3 ltac:(lia) ltac:(lia) Hit).
            specialize (IH ltac:(exists (key u r); cbn [cb_range cb_cond cb_stmts OptQ];
                                 split; [eapply RangeOK_mono; [exact Rt|lia|lia]|split; [lia|split; [exact B2|constructor]]]) Hdone').
            destruct (if_loop pexpr rec_stmt f it _ _ r2 c2) as [[r3 a3|e3 msg3|s3|] c3]; cbn [post] in *; auto.
            -- destruct IH as (C1 & C2 & C3). split; [eapply Suffix_trans; [exact C1|eapply Suffix_trans; eauto]|]. split; [exact C2|exact C3].
            -- destruct IH as (C1 & C3). split; auto. eapply Suffix_trans; [exact C1|eapply Suffix_trans; eauto].
          * destruct He as (B1 & B3). split; auto. eapply Suffix_trans; eauto.
        + destruct (tt_eqb (tty t) TElse).
          * specialize (IH it (mkCB (traw t) (trange t) None []) (done ++ [cb_update cur1]) r c1 lo0 Hbr
                          (Suffix_trans _ _ _ A1 Hs) A3 ltac:(lia) ltac:(lia) Hit).
            specialize (IH ltac:(exists (key u r); cbn [cb_range cb_cond cb_stmts OptQ];
                                 split; [eapply RangeOK_mono; [exact Rt|lia|lia]|split; [lia|split; [exact I|constructor]]]) Hdone').
            destruct (if_loop pexpr rec_stmt f it _ _ r c1) as [[r3 a3|e3 msg3|s3|] c3]; cbn [post] in *; auto.
            -- destruct IH as (C1 & C2 & C3). split; [eapply Suffix_trans; eauto|]. split; [exact C2|exact C3].
            -- destruct IH as (C1 & C3). split; auto. eapply Suffix_trans; eauto.
          * cbn [post]. split; [exact A1|exact A3].
      - specialize (IH it cur1 done r (add_diag (mkDiag (trange it) S_no_end_token_found) c1) lo0 Hbr
                      (Suffix_trans _ _ _ A1 Hs)).
        specialize (IH ltac:(apply I_diag; [destruct (tok_range_ok u it Hit) as [X Y]; split; assumption|exact A3])
                       ltac:(lia) ltac:(lia) Hit Hcur1 Hdone).
        destruct (if_loop pexpr rec_stmt f it cur1 done r _) as [[r3 a3|e3 msg3|s3|] c3]; cbn [post] in *; auto.
        + destruct IH as (C1 & C2 & C3). split; [eapply Suffix_trans; eauto|]. split; [exact C2|exact C3].
        + destruct IH as (C1 & C3). split; auto. eapply Suffix_trans; eauto.
    Qed.

    Lemma R_parse_if_block m : RK m NodeOK (parse_if_block pexpr rec_stmt).
    Proof.
      unfold parse_if_block.
      eapply RK_bind; [apply RK_exp_token|]. intros it lo mid H1 H2 Hit.
      eapply RK_bind_shift; [apply Hpe|]. intros cond lo1 mid1 H3 H4 [Rc Wc].
      pose proof (TokIn_range u _ _ _ _ Hit) as Rit.
      eapply RK_bind_shift with (Q1 := Shift (IfQ mid1) lo).
      { intros i c Hb Hs Hk Hc.
        pose proof (R_if_loop mid1 (S (S (length i))) it
                      (mkCB (traw it) (new_range (trange it) (trange it)) (Some cond) []) [] i c lo Hb Hs Hc ltac:(lia) Hk (proj1 Hit)) as HL.
        specialize (HL ltac:(exists mid; cbn [cb_range cb_cond cb_stmts OptQ]; split;
                             [unfold new_range; eapply RangeOK_self; [exact Rit|lia|lia]
                             |split; [lia|split; [eapply Mono_NodeOK; [split; eassumption|lia|lia]|constructor]]]) ltac:(constructor)).
        destruct (if_loop pexpr rec_stmt (S (S (length i))) it _ [] i c) as [[r3 a3|e3 msg3|s3|] c3]; cbn [post] in *; auto. }
      intros [[cur done] endt] lo2 mid2 H5 H6 (Q1 & Q2 & Q3). cbn [fst snd] in Q1, Q2, Q3.
      apply RK_ret_shift. intros hi H7 H8. unfold Shift.
      apply NodeOK_intro.
      - destruct endt as [t|]; cbn [OptQ] in Q3; unfold new_range; cbn [rstart rend].
        + pose proof (TokIn_range u _ _ _ _ Q3) as Rt. eapply RangeOK_mk; [exact Rit|exact Rt|lia|lia|lia].
        + eapply RangeOK_mk; [exact Rit|exact Rc|lia|lia|lia].
      - apply sel_ok_none; reflexivity.
      - apply name_ok_other; discriminate.
      - destruct done as [|d ds]; cbn [fst snd map].
        + constructor; [exact Q1|constructor].
        + inversion Q2; subst. constructor; [assumption|]. rewrite map_app. apply Forall_app. split.
          * apply Forall_map. assumption.
          * cbn [map]. constructor; [exact Q1|constructor].
    Qed.
    Hint Resolve R_parse_if_block : rdb.
    (* ----- parse_statement_v2 ----- *)
    Lemma R_try_blocks m ps : Forall (RK m NodeOK) ps ->
      forall best i c, BodyOK u i -> Suffix i B -> m <= key u i -> Iv c ->
        match best with Some (e, _) => Suffix e i | None => True end ->
        match try_blocks ps best i c with
        | (Ok r (Some n, _), c') => Suffix r i /\ NodeOK (key u i) (key u r) n /\ Iv c'
        | (Ok r (None, b), c') => r = i /\ Iv c' /\ match b with Some (e, _) => Suffix e i | None => True end
        | (Err e _, c') => Suffix e i /\ Iv c'
        | (_, _) => True
        end.
    Proof.
      induction 1 as [|p ps Hp Hps IH]; intros best i c Hb Hs Hk Hc Hbest; cbn [try_blocks]; [auto|].
      specialize (Hp i c Hb Hs Hk Hc).
      destruct (p i c) as [[r a|e msg|s|] c1]; cbn [post] in *; auto.
      destruct Hp as [H1 H2]. apply IH; auto.
      destruct best as [[be bm]|]; [destruct (ilen e <? ilen be)|]; auto.
    Qed.

    Lemma R_parse_statement_body m : RK m NodeOK (parse_statement_body ptype pexpr pdotops pcompare rec_stmt).
    Proof.
      intros i c Hb Hs Hk Hc. unfold parse_statement_body.
      match goal with |- context [try_blocks ?ps None i c] =>
        assert (Forall (RK m NodeOK) ps) as Hps by (repeat (apply Forall_cons || apply Forall_nil); rsub);
        pose proof (R_try_blocks m ps Hps None i c Hb Hs Hk Hc I) as HT;
        destruct (try_blocks ps None i c) as [[r [[n|] best]|e msg|s|] c1]
      end; cbn [post] in *; auto.
      destruct HT as (-> & Hc1 & Hbest).
      match goal with |- context [alt ?qs i c1] =>
        assert (RK m NodeOK (alt qs)) as Ha by rsub;
        specialize (Ha i c1 Hb Hs Hk Hc1);
        destruct (alt qs i c1) as [[r2 a2|e2 msg2|s2|] c2]
      end; cbn [post] in *; auto.
      destruct Ha as [A1 A2].
      destruct best as [[be bm]|]; [destruct (ilen e2 <? ilen be)|]; cbn [post]; auto.
    Qed.
  End StmtR.

  Hint Resolve R_parse_type_body R_parse_parameter_declaration_list : rdb.

  (* ---------- methods, fields, top level ---------- *)
  Definition RfstQ (lo hi : N) (x : range * N) : Prop := RangeOK u lo hi (fst x).
  Definition RtokQ (lo hi : N) (t : tok) : Prop := RangeOK u lo hi (trange t).
  Definition RmodQ (lo hi : N) (x : N * range * N) : Prop := RangeOK u lo hi (snd (fst x)).

  Lemma Mono_RtokQ : MonoQ RtokQ.
  Proof. intros lo hi lo' hi' t H H1 H2. unfold RtokQ in *. eapply RangeOK_mono; eauto. Qed.

  (* range from the first to the last element of a chain *)
  Lemma chain_first_last_range {A} (E : N -> N -> A -> Prop) (f : A -> range) lo hi x l :
    MonoQ E -> (forall lo hi a, E lo hi a -> RangeOK u lo hi (f a)) -> Chain E lo hi (x :: l) ->
    RangeOK u lo hi (new_range (f x) (f (match rev (x :: l) with y :: _ => y | [] => x end))).
  Proof.
    intros HE Hf Hc. unfold new_range.
    destruct (rev (x :: l)) as [|y l2] eqn:Erev.
    - inversion Hc; subst. pose proof (Chain_le _ _ _ _ H5). eapply RangeOK_self; [apply Hf; eassumption|lia|lia].
    - destruct (Chain_first_last E HE _ _ _ _ _ _ Hc Erev) as [(-> & -> & Hx)|(mm & Hx & Hy & Ha & Hb)].
      + eapply RangeOK_self; [apply Hf; exact Hx|lia|lia].
      + eapply RangeOK_mk; [apply Hf; exact Hx|apply Hf; exact Hy|lia|lia|lia].
  Qed.

  Definition mod_tys : list ttype := [TPrivate; TProtected; TFinal; TOverride].

  Lemma R_parse_member_modifier_tokens m : RK m (TokIn mod_tys) parse_member_modifier_tokens.
  Proof. unfold parse_member_modifier_tokens. apply RK_tok_alt. Qed.

  Lemma R_parse_member_modifiers m : RK m (OptQ RfstQ) parse_member_modifiers.
  Proof.
    intros i c Hb Hs Hk Hc. unfold parse_member_modifiers.
    assert (RK m (Chain (TokIn mod_tys)) (until_no_match parse_member_modifier_tokens)) as Hu.
    { eapply RK_until_no_match; [apply Mono_TokIn|]. intro. apply R_parse_member_modifier_tokens. }
    specialize (Hu i c Hb Hs Hk Hc).
    destruct (until_no_match parse_member_modifier_tokens i c) as [[r tks|e msg|s|] c1]; cbn [post] in *; auto.
    destruct Hu as (A1 & A2 & A3).
    destruct tks as [|first l]; cbn [post OptQ]; [split; [apply Suffix_refl|auto]|].
    split; [exact A1|]. split; [|exact A3]. unfold RfstQ. cbn [fst].
    apply (chain_first_last_range (TokIn mod_tys) trange); [apply Mono_TokIn| |exact A2].
    intros lo hi a Ha. eapply TokIn_range; exact Ha.
  Qed.
  Hint Resolve R_parse_member_modifiers : rdb.

  Lemma R_parse_method_external m : RK m RtokQ parse_method_external.
  Proof. unfold parse_method_external. rtac. unfold RtokQ. cbn [trange]. rrange. Qed.

  Lemma R_parse_method_modifiers m : RK m (OptQ RmodQ) parse_method_modifiers.
  Proof.
    intros i c Hb Hs Hk Hc. unfold parse_method_modifiers.
    match goal with |- context [until_no_match ?p i c] =>
      assert (RK m (Chain RtokQ) (until_no_match p)) as Hu
    end.
    { eapply RK_until_no_match; [apply Mono_RtokQ|]. intro m'. apply RK_alt.
      repeat (apply Forall_cons || apply Forall_nil).
      - eapply RK_conseq; [apply R_parse_member_modifier_tokens|]. intros lo hi a _ _ _ Ha. eapply TokIn_range; exact Ha.
      - apply R_parse_method_external.
      - eapply RK_conseq; [apply RK_exp_token|]. intros lo hi a _ _ _ Ha. eapply TokIn_range; exact Ha. }
    specialize (Hu i c Hb Hs Hk Hc).
    match goal with |- context [until_no_match ?p i c] =>
      destruct (until_no_match p i c) as [[r tks|e msg|s|] c1]
    end; cbn [post] in *; auto.
    destruct Hu as (A1 & A2 & A3).
    destruct tks as [|first l]; cbn [post OptQ]; [split; [apply Suffix_refl|auto]|].
    split; [exact A1|]. split; [|exact A3]. unfold RmodQ. cbn [fst snd].
    apply (chain_first_last_range RtokQ trange); [apply Mono_RtokQ| |exact A2].
    intros lo hi a Ha. exact Ha.
  Qed.
  Hint Resolve R_parse_method_modifiers : rdb.

  Section TopR.
    Variable g : G.
    Hypothesis Hgt : forall m, RK m NodeOK (g_type g).

    Lemma R_parse_global_variable_declaration m : RK m NodeOK (parse_global_variable_declaration g).
    Proof. unfold parse_global_variable_declaration. rtac. Qed.

    Lemma R_parse_parent_class m :
      RK m (PairQ (TokIn [TOBracket; TIdentifier; TCBracket]) (TokIn [TOBracket; TIdentifier; TCBracket])) parse_parent_class.
    Proof. unfold parse_parent_class. rtac. Qed.
    Hint Resolve R_parse_parent_class : rdb.

    Lemma R_parse_class m : RK m NodeOK parse_class.
    Proof. unfold parse_class. rtac. Qed.

    Lemma R_parse_module m : RK m NodeOK parse_module.
    Proof. unfold parse_module. rtac. Qed.
    (* method names: the name node starts and ends with identifier tokens *)
    Definition NameQ (lo hi : N) (n : node) : Prop :=
      NodeOK lo hi n /\
      (exists t0, TokIn ident_tys lo hi t0 /\ rstart (nrange n) = tstart t0) /\
      (exists t1, TokIn ident_tys lo hi t1 /\ rend (nrange n) = tend t1).

    Lemma Mono_NameQ : MonoQ NameQ.
    Proof.
      intros lo hi lo' hi' n (H1 & (t0 & A0 & B0) & (t1 & A1 & B1)) X Y. split; [eapply Mono_NodeOK; eauto|].
      split; [exists t0|exists t1]; (split; [eapply Mono_TokIn; eauto|assumption]).
    Qed.

    Lemma R_parse_identifier_name m : RK m NameQ parse_identifier.
    Proof.
      unfold parse_identifier. eapply RK_bind; [apply R_parse_ident_token|]. intros t lo mid H1 H2 Ht.
      apply RK_ret_shift. intros hi H3 H4.
      assert (TokIn ident_tys lo hi t) as Ht' by (eapply Mono_TokIn; [exact Ht|lia|lia]).
      split; [eapply terminal_ok; exact Ht'|]. split; exists t; (split; [exact Ht'|reflexivity]).
    Qed.

    Lemma R_parse_method_name_uievent m : RK m NameQ parse_method_name_uievent.
    Proof.
      unfold parse_method_name_uievent.
      eapply RK_bind; [apply R_parse_identifier_name|]. intros mn lo mid H1 H2 ([Rm Wm] & (t0 & A0 & B0) & _).
      eapply RK_bind_shift; [apply RK_exp_token|]. intros p lo1 mid1 H3 H4 Hp.
      eapply RK_bind_shift; [apply R_parse_identifier_name|]. intros ev lo2 mid2 H5 H6 ([Re We] & _ & (t1 & A1 & B1)).
      apply RK_ret_shift. intros hi H7 H8. split; [|split].
      - apply NodeOK_intro; [unfold new_range; eapply RangeOK_mk; [exact Rm|exact Re|lia|lia|lia]
                            |apply sel_ok_none; reflexivity|apply name_ok_other; discriminate
                            |repeat (apply Forall_cons || apply Forall_nil); assumption].
      - exists t0. split; [eapply Mono_TokIn; [exact A0|lia|lia]|exact B0].
      - exists t1. split; [eapply Mono_TokIn; [exact A1|lia|lia]|exact B1].
    Qed.

    Lemma R_parse_method_name m : RK m NameQ parse_method_name.
    Proof.
      unfold parse_method_name. apply RK_alt.
      repeat (apply Forall_cons || apply Forall_nil); [apply R_parse_method_name_uievent|apply R_parse_identifier_name].
    Qed.

    (* the method body is parsed on its own slice, under the cache invariant of that slice
       (discharged in RangeTop.v); all its nodes are well-formed *)
    Hypothesis Hbody : forall body m, BodyOK u body -> RK m (OptQ WfQ) (parse_method_body g body).

    Definition TailQ (terms : list ttype) (erange : range) (lo hi : N) (x : option node * option tok * range) : Prop :=
      OptQ WfQ lo hi (fst (fst x)) /\
      match snd (fst x) with
      | Some t => TokIn terms lo hi t /\ snd x = trange t
      | None => snd x = erange
      end.

    Lemma R_method_tail m first eraw erange mods terms msg lo0 hi0 :
      T u first -> RangeOK u lo0 hi0 erange ->
      RK m (TailQ terms erange) (method_tail g first eraw erange mods terms msg).
    Proof.
      intros Hfirst Her. unfold method_tail. destruct (has_method_body mods).
      - eapply RK_bind; [apply RK_take_until|]. intros [body endt] lo mid H1 H2 (Q1 & Q2 & Q3). cbn [fst snd] in Q1, Q2, Q3.
        eapply RK_bind_shift; [apply Hbody; exact Q1|]. intros b lo1 mid1 H3 H4 Hb.
        eapply RK_bind_shift with (Q1 := @TrueQ unit).
        { destruct endt; [apply RK_ret; intros; exact I|]. apply RK_with_ctx. intros c Hc. apply I_diag; [|exact Hc].
          destruct (tok_range_ok u first Hfirst) as [X Y]. split; assumption. }
        intros _ lo2 mid2 H5 H6 _. apply RK_ret_shift. intros hi H7 H8. unfold TailQ. cbn [fst snd]. split.
        + destruct b as [n|]; cbn [OptQ] in *; [exact Hb|]. unfold WfQ.
          apply AllWf_node. split; [|constructor]. split; [eapply RangeOK_wf; exact Her|].
          split; [eapply RangeOK_lines; exact Her|]. split; [apply sel_ok_none; reflexivity|apply name_ok_other; discriminate].
        + destruct endt as [t|]; cbn [OptQ] in *; [|reflexivity]. split; [eapply Mono_TokIn; [exact Q3|lia|lia]|reflexivity].
      - apply RK_ret. intros k H1 H2. unfold TailQ. cbn [fst snd OptQ]. auto.
    Qed.

    (* the node of a procedure / function: first token, name node, end range *)
    Lemma method_node_ok k id raw at_ first name rest_children end_ lo hi lo1 hi1 lo2 hi2 :
      (k = KAstProcedure \/ k = KAstFunction) ->
      TokIn [TProc; TFunc] lo1 hi1 first -> NameQ lo2 hi2 name -> hi1 <= lo2 -> lo <= lo1 -> hi1 <= hi ->
      (end_ = nrange name \/ exists lo3 hi3, RangeOK u lo3 hi3 end_ /\ hi2 <= lo3) ->
      attr K_ident at_ = None ->
      Forall (AllWf u) rest_children ->
      NodeOK lo hi (Node k id raw (new_range (trange first) end_) at_ (name :: rest_children)).
    Proof.
      intros Hk Hf ([Rn Wn] & (t0 & A0 & B0) & (t1 & A1 & B1)) H1 H2 H3 Hend Hat Hch.
      pose proof (TokIn_range u _ _ _ _ Hf) as Rf. unfold new_range.
      assert (RangeOK u lo hi (mkRange (rstart (trange first)) (rend end_))) as HR.
      { destruct Hend as [->|(lo3 & hi3 & R3 & H4)].
        - eapply RangeOK_mk; [exact Rf|exact Rn|lia|lia|lia].
        - pose proof (RangeOK_lt u _ _ _ Rn). eapply RangeOK_mk; [exact Rf|exact R3|lia|lia|lia]. }
      apply NodeOK_intro; [exact HR| | |constructor; assumption].
      - apply sel_ok_none; [unfold attr_tok; cbn [nattrs]; rewrite Hat; reflexivity|].
        cbn [nkind]. destruct Hk as [->| ->]; reflexivity.
      - intros _. cbn [nchildren nrange]. unfold inside. cbn [rstart rend]. split.
        + rewrite B0. eapply inside_start; [exact Rf|exact A0|lia].
        + destruct Hend as [->|(lo3 & hi3 & R3 & H4)]; [apply pos_le_refl|].
          rewrite B1. eapply inside_end; [exact A1|reflexivity|exact R3|lia].
    Qed.
    Ltac kids_opt :=
      repeat first [ apply Forall_nil | apply Forall_cons | apply Forall_app; split | assumption
                   | match goal with |- Forall _ (opt_list ?o) => destruct o; cbn [opt_list OptQ] in * end
                   | match goal with H : NodeOK _ _ ?n |- AllWf u ?n => exact (proj2 H) end
                   | match goal with H : WfQ _ _ ?n |- AllWf u ?n => exact H end ].

    Lemma R_parse_procedure_declaration m : RK m NodeOK (parse_procedure_declaration g).
    Proof.
      unfold parse_procedure_declaration.
      eapply RK_bind; [apply RK_exp_token|]. intros first lo mid H1 H2 Hf.
      assert (TokIn [TProc; TFunc] lo mid first) as Hf' by (eapply TokIn_weaken; [exact Hf|]; intros x [<-|[]]; left; reflexivity).
      eapply RK_bind_shift; [apply R_parse_method_name|]. intros name lo1 mid1 H3 H4 Hn.
      eapply RK_bind_shift; [apply R_parse_parameter_declaration_list; exact Hgt|]. intros ps lo2 mid2 H5 H6 Hps.
      eapply RK_bind_shift; [apply R_parse_method_modifiers|]. intros mods lo3 mid3 H7 H8 Hmods.
      pose proof Hn as ([Rn Wn] & _ & _).
      destruct mods as [[[mr r] fl]|]; [|destruct ps as [pn|]]; cbn [OptQ] in *; cbv beta match zeta.
      - unfold RmodQ in Hmods. cbn [fst snd] in Hmods.
        eapply RK_bind_shift; [eapply R_method_tail; [exact (proj1 Hf)|exact Hmods]|].
        intros [[body endt] end_] lo4 mid4 H9 H10 [Q1 Q2]. cbn [fst snd] in Q1, Q2.
        apply RK_ret_shift. intros hi H11 H12.
        apply (method_node_ok _ _ _ _ _ _ _ _ lo hi lo mid lo1 mid1); auto; try lia; [|kids_opt].
        right. destruct endt as [t|]; [destruct Q2 as [Q2 ->]|subst end_].
        + exists lo4, mid4. split; [eapply TokIn_range; exact Q2|lia].
        + exists lo3, mid3. split; [exact Hmods|lia].
      - destruct Hps as [Rp Wp].
        eapply RK_bind_shift; [eapply R_method_tail; [exact (proj1 Hf)|exact Rp]|].
        intros [[body endt] end_] lo4 mid4 H9 H10 [Q1 Q2]. cbn [fst snd] in Q1, Q2.
        apply RK_ret_shift. intros hi H11 H12.
        apply (method_node_ok _ _ _ _ _ _ _ _ lo hi lo mid lo1 mid1); auto; try lia;
          [|cbn [opt_list]; repeat (apply Forall_cons || apply Forall_app; try split); kids_opt].
        right. destruct endt as [t|]; [destruct Q2 as [Q2 ->]|subst end_].
        + exists lo4, mid4. split; [eapply TokIn_range; exact Q2|lia].
        + exists lo2, mid2. split; [exact Rp|lia].
      - eapply RK_bind_shift; [eapply R_method_tail; [exact (proj1 Hf)|exact Rn]|].
        intros [[body endt] end_] lo4 mid4 H9 H10 [Q1 Q2]. cbn [fst snd] in Q1, Q2.
        apply RK_ret_shift. intros hi H11 H12.
        apply (method_node_ok _ _ _ _ _ _ _ _ lo hi lo mid lo1 mid1); auto; try lia; [|kids_opt].
        destruct endt as [t|]; [destruct Q2 as [Q2 ->]|subst end_].
        + right. exists lo4, mid4. split; [eapply TokIn_range; exact Q2|lia].
        + left. reflexivity.
    Qed.

    Lemma R_parse_function_declaration m : RK m NodeOK (parse_function_declaration g).
    Proof.
      unfold parse_function_declaration.
      eapply RK_bind; [apply RK_exp_token|]. intros first lo mid H1 H2 Hf.
      assert (TokIn [TProc; TFunc] lo mid first) as Hf' by (eapply TokIn_weaken; [exact Hf|]; intros x [<-|[]]; right; left; reflexivity).
      eapply RK_bind_shift; [apply R_parse_method_name|]. intros name lo1 mid1 H3 H4 Hn.
      eapply RK_bind_shift; [apply R_parse_parameter_declaration_list; exact Hgt|]. intros ps lo2 mid2 H5 H6 Hps.
      eapply RK_bind_shift; [apply RK_exp_token|]. intros rtk lo2' mid2' H5' H6' _.
      eapply RK_bind_shift; [apply RK_alt; repeat (apply Forall_cons || apply Forall_nil); apply R_parse_type_basic|].
      intros rt lo2'' mid2'' H5'' H6'' [Rrt Wrt].
      eapply RK_bind_shift; [apply R_parse_method_modifiers|]. intros mods lo3 mid3 H7 H8 Hmods.
      pose proof Hn as ([Rn Wn] & _ & _).
      destruct mods as [[[mr r] fl]|]; cbn [OptQ] in *; cbv beta match zeta.
      - unfold RmodQ in Hmods. cbn [fst snd] in Hmods.
        eapply RK_bind_shift; [eapply R_method_tail; [exact (proj1 Hf)|exact Hmods]|].
        intros [[body endt] end_] lo4 mid4 H9 H10 [Q1 Q2]. cbn [fst snd] in Q1, Q2.
        apply RK_ret_shift. intros hi H11 H12.
        apply (method_node_ok _ _ _ _ _ _ _ _ lo hi lo mid lo1 mid1); auto; try lia; [|kids_opt].
        right. destruct endt as [t|]; [destruct Q2 as [Q2 ->]|subst end_].
        + exists lo4, mid4. split; [eapply TokIn_range; exact Q2|lia].
        + exists lo3, mid3. split; [exact Hmods|lia].
      - eapply RK_bind_shift; [eapply R_method_tail; [exact (proj1 Hf)|exact Rrt]|].
        intros [[body endt] end_] lo4 mid4 H9 H10 [Q1 Q2]. cbn [fst snd] in Q1, Q2.
        apply RK_ret_shift. intros hi H11 H12.
        apply (method_node_ok _ _ _ _ _ _ _ _ lo hi lo mid lo1 mid1); auto; try lia; [|kids_opt].
        right. destruct endt as [t|]; [destruct Q2 as [Q2 ->]|subst end_].
        + exists lo4, mid4. split; [eapply TokIn_range; exact Q2|lia].
        + exists lo2'', mid2''. split; [exact Rrt|lia].
    Qed.
    Lemma NodeOK_WfQ m p : RK m NodeOK p -> RK m WfQ p.
    Proof. intro H. eapply RK_conseq; [exact H|]. intros lo hi a _ _ _ [_ Ha]. exact Ha. Qed.

    Lemma R_top_blocks m : RK m WfQ (alt (top_block_parsers g)).
    Proof.
      apply RK_alt. unfold top_block_parsers. repeat (apply Forall_cons || apply Forall_nil); apply NodeOK_WfQ;
        [apply R_parse_procedure_declaration|apply R_parse_function_declaration].
    Qed.

    Lemma R_top_decls m : RK m WfQ (alt (top_decl_parsers g)).
    Proof.
      apply RK_alt. unfold top_decl_parsers. repeat (apply Forall_cons || apply Forall_nil).
      - apply NodeOK_WfQ. apply R_parse_comment.
      - apply NodeOK_WfQ. apply R_parse_class.
      - apply NodeOK_WfQ. apply R_parse_module.
      - apply NodeOK_WfQ. apply R_parse_uses.
      - apply NodeOK_WfQ. apply R_parse_type_declaration. exact Hgt.
      - apply NodeOK_WfQ. apply R_parse_constant_declaration.
      - apply NodeOK_WfQ. apply R_parse_global_variable_declaration.
      - apply R_parse_annotations.
    Qed.

    Lemma last_max lt rw t : BodyOK u B -> rev B = lt :: rw -> In t B -> traw t <= traw lt /\ T u lt.
    Proof.
      intros [Hs Hi] Hr Ht.
      assert (B = rev rw ++ [lt]) as HB by (rewrite <- (rev_involutive B), Hr; reflexivity).
      split; [|apply Hi; rewrite HB; apply in_or_app; right; left; reflexivity].
      rewrite HB in Hs, Ht. apply in_app_or in Ht. destruct Ht as [Ht|[<-|[]]]; [|lia].
      clear - Hs Ht. induction (rev rw) as [|x l IH]; [destruct Ht|]. cbn [app] in Hs. inversion Hs; subst.
      destruct Ht as [->|Ht]; [|auto]. rewrite Forall_forall in H2.
      assert (rawlt t lt) as Hlt by (apply H2; apply in_or_app; right; left; reflexivity). unfold rawlt in Hlt. lia.
    Qed.

    (* the top-level loop: every declaration is well-formed, and so is every diagnostic
       (first token of the remaining input .. first token of the furthest error or last token) *)
    Lemma R_top_loop : BodyOK u B -> forall fuel acc i c,
      BodyOK u i -> Suffix i B -> Iv c -> Forall (AllWf u) acc ->
      match top_loop g fuel B acc i c with
      | (Ok r stmts, c') => Forall (AllWf u) stmts /\ Iv c'
      | (Err _ _, c') => Iv c'
      | (_, _) => True
      end.
    Proof.
      intro HB. induction fuel as [|f IH]; intros acc i c Hb Hs Hc Hacc; [exact I|]. cbn [top_loop].
      destruct i as [|first_tok i']; [split; [apply Forall_rev; exact Hacc|exact Hc]|].
      set (i := first_tok :: i') in *.
      pose proof (R_top_blocks (key u i) i c Hb Hs (N.le_refl _) Hc) as H1.
      destruct (alt (top_block_parsers g) i c) as [[r n|be bm|s|] c1]; cbn [post] in *; auto.
      { destruct H1 as (A1 & A2 & A3). apply IH; auto; [bsuf|eapply Suffix_trans; eauto]. }
      destruct H1 as (A1 & A3).
      pose proof (R_top_decls (key u i) i c1 Hb Hs (N.le_refl _) A3) as H2.
      destruct (alt (top_decl_parsers g) i c1) as [[r n|e m|s|] c2]; cbn [post] in *; auto.
      { destruct H2 as (B1 & B2 & B3). apply IH; auto; [bsuf|eapply Suffix_trans; eauto]. }
      destruct H2 as (B1 & B3).
      assert (exists me mm, (if ilen e <? ilen be then (e, m) else (be, bm)) = (me, mm) /\ Suffix me i) as (me & mm & Eq & Hme).
      { destruct (ilen e <? ilen be); eauto. }
      rewrite Eq.
      destruct (BodyOK_cons u _ _ Hb) as (Hft & _ & _).
      assert (In first_tok B) as HfB by (eapply Suffix_In; [exact Hs|left; reflexivity]).
      assert (forall lt, T u lt -> traw first_tok <= traw lt ->
              match top_loop g f B acc (skip_after_error i me) (add_diag (mkDiag (range_of_toks first_tok lt) mm) c2) with
              | (Ok _ stmts, c') => Forall (AllWf u) stmts /\ Iv c'
              | (Err _ _, c') => Iv c'
              | (_, _) => True
              end) as Hstep.
      { intros lt Hlt Hle. apply IH; auto.
        - eapply BodyOK_suffix; [exact Hb|apply skip_suffix; exact Hme].
        - eapply Suffix_trans; [apply skip_suffix; exact Hme|exact Hs].
        - apply I_diag; [|exact B3]. unfold range_of_toks, tpos. apply (toks_range_ok u first_tok lt); auto. }
      destruct me as [|t me'].
      - destruct (rev B) as [|lt rw] eqn:Erev; [exact I|].
        destruct (last_max lt rw first_tok HB Erev HfB) as [Hle Hlt]. apply Hstep; auto.
      - apply Hstep.
        + destruct Hb as [_ Hi]. apply Hi. eapply Suffix_In; [exact Hme|left; reflexivity].
        + apply (key_in u i t Hb). eapply Suffix_In; [exact Hme|left; reflexivity].
    Qed.
  End TopR.

End Gram.
