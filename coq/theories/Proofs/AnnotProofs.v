(* The symbol tables of the abstract scoping model (Model/Scoping.v: root_table, method_table -- the
   tables the C10 / C11 theorems talk about) ARE the tables AstAnnotator builds from the real
   syntax tree (Model/Annot.v), for every tree of the regular shape (header, then uses / constants /
   types / fields, then methods; no node that inserts a symbol below a non-method declaration, only
   the method's parameters and locals below a method -- the parameters of procedure / function TYPES
   insert nothing since the repair c14b1c2 and may occur anywhere); for ALL trees: every symbol is the symbol of a visited declaration
   node, its selection range is the range of that node's name token, and nothing is dropped or invented. *)
From GoldV Require Import Base Tokens Lexer AstKinds Tree SymTab SymTabProofs Scoping ScopingProofs Annot
                          RangeBase RangeRel RangeTop.
From Coq Require Import Permutation Lia.

(* ====================================================================================== *)
(* vocabulary                                                                             *)
(* ====================================================================================== *)

(* a child of the root as it is visited: no grandparent *)
Definition top (n : node) : vnode := (false, n).
Definition dk (n : node) : option dkind := dkind_at (top n).
Definition silent (p : vnode) : Prop := dkind_at p = None.
Definition silent_top (n : node) : Prop := silent (top n).
(* nothing is inserted below the child c of t *)
Definition quiet (t c : node) : Prop := Forall silent (below t c).

Definition is_header (n : node) : bool :=
  match dk n with Some DClass | Some DModule => true | _ => false end.
Definition is_member (n : node) : bool :=
  match dk n with Some DConst | Some DType | Some DField | Some DProc | Some DFunc => true | _ => false end.
Definition is_method (n : node) : bool :=
  match dk n with Some DProc | Some DFunc => true | _ => false end.
Definition is_uses (n : node) : bool :=
  match dk n with Some DUses => true | _ => false end.
Definition var_like (p : vnode) : bool :=
  match dkind_at p with Some DParam | Some DVar => true | _ => false end.
Definition var_or_silent (p : vnode) : Prop := dkind_at p = None \/ var_like p = true.

(* SymbolType of the symbol a declaration node inserts *)
Definition member_kind (n : node) : skind :=
  match dkind_of n with
  | Some DClass => KClass | Some DModule => KModule | Some DConst => KConstant | Some DType => KType
  | Some DField => KField | Some DProc => KProc | Some DFunc => KFunc | _ => KVariable
  end.
Definition decl_sym (n : node) : asym := sym_of (member_kind n) n.

(* the symbols one visit inserts *)
Definition decl_syms (p : vnode) : list asym :=
  match dkind_at p with
  | Some DClass => [decl_sym (snd p); self_of (snd p)]
  | Some DUses | None => []
  | Some _ => [decl_sym (snd p)]
  end.

Definition vsym (p : vnode) : asym := decl_sym (snd p).
Definition var_syms (l : list vnode) : list asym := map vsym (filter var_like l).

(* the regular shape *)
Definition pre_ok (t c : node) : Prop := silent_top c /\ quiet t c.
Definition mid_ok (t c : node) : Prop :=
  (silent_top c \/ is_uses c = true \/ (is_member c = true /\ is_method c = false)) /\ quiet t c.
Definition rest_ok (t c : node) : Prop :=
  (silent_top c /\ quiet t c) \/ (is_method c = true /\ Forall var_or_silent (below t c)).

Definition regular (t : node) : Prop :=
  silent_top t /\
  exists pre h mid rest,
    nchildren t = pre ++ h :: mid ++ rest /\
    Forall (pre_ok t) pre /\ is_header h = true /\ quiet t h /\ Forall (mid_ok t) mid /\ Forall (rest_ok t) rest.

(* ====================================================================================== *)
(* generic facts                                                                          *)
(* ====================================================================================== *)

Ltac dk_cases c :=
  unfold is_header, is_member, is_method, is_uses, silent_top, silent, dk, top, dkind_at in *; cbn [fst snd] in *;
  destruct (dkind_of c) as [[]|].

Lemma visit_silent st n : silent n -> visit st n = st.
Proof. unfold silent, visit. intros ->. reflexivity. Qed.

Lemma fold_silent l : forall st, Forall silent l -> fold_left visit l st = st.
Proof.
  induction l as [|n l IH]; intros st H; [reflexivity|]. inversion H; subst. cbn [fold_left].
  rewrite visit_silent by assumption. apply IH. assumption.
Qed.

Lemma flat_map_cons {A B} (f : A -> list B) x l : flat_map f (x :: l) = f x ++ flat_map f l.
Proof. reflexivity. Qed.

Lemma filter_none {A} (f : A -> bool) l : Forall (fun x => f x = false) l -> filter f l = [].
Proof. induction 1 as [|x l Hx _ IH]; [reflexivity|]. cbn [filter]. rewrite Hx. exact IH. Qed.

Lemma filter_same {A} (f g : A -> bool) l : Forall (fun x => f x = g x) l -> filter f l = filter g l.
Proof. induction 1 as [|x l Hx _ IH]; [reflexivity|]. cbn [filter]. rewrite Hx, IH. reflexivity. Qed.

Lemma find_skip {A} (f : A -> bool) pre h r : Forall (fun x => f x = false) pre -> f h = true -> find f (pre ++ h :: r) = Some h.
Proof. induction 1 as [|x l Hx _ IH]; intro Hh; cbn [app find]; [rewrite Hh; reflexivity|rewrite Hx; apply IH; exact Hh]. Qed.

Lemma fold_vars l : forall st c, Forall var_or_silent l -> st_cur st = Some c ->
  fold_left visit l st =
  mkSt (st_root st) (Some (mkTable (t_cls c) (t_syms c ++ var_syms l) (t_uses c))) (st_done st).
Proof.
  induction l as [|n l IH]; intros [R cu D] c H Hc; cbn [st_cur st_root st_done] in *; subst cu.
  - unfold var_syms. cbn [filter map fold_left]. rewrite app_nil_r. destruct c; reflexivity.
  - inversion H as [|? ? Hn Hl]; subst. cbn [fold_left]. destruct Hn as [Hn|Hn].
    + rewrite visit_silent by exact Hn. rewrite (IH (mkSt R (Some c) D) c Hl eq_refl). cbn [st_root st_done].
      assert (Hv : var_like n = false) by (unfold var_like; rewrite Hn; reflexivity).
      unfold var_syms. cbn [filter]. rewrite Hv. reflexivity.
    + assert (Hv : visit (mkSt R (Some c) D) n = mkSt R (Some (t_insert c (vsym n))) D).
      { unfold var_like in Hn. unfold visit, vsym, decl_sym, member_kind. destruct n as [g n].
        unfold dkind_at in *. cbn [fst snd] in *.
        destruct (dkind_of n) as [[]|]; try discriminate; try reflexivity; destruct g; try discriminate; reflexivity. }
      rewrite Hv. rewrite (IH (mkSt R (Some (t_insert c (vsym n))) D) (t_insert c (vsym n)) Hl eq_refl). cbn [st_root st_done t_insert t_cls t_syms t_uses].
      unfold var_syms. cbn [filter]. rewrite Hn. cbn [map]. rewrite <- app_assoc. reflexivity.
Qed.

Lemma fold_vars' l R c D : Forall var_or_silent l ->
  fold_left visit l (mkSt R (Some c) D) = mkSt R (Some (mkTable (t_cls c) (t_syms c ++ var_syms l) (t_uses c))) D.
Proof. intro H. apply (fold_vars l (mkSt R (Some c) D) c H eq_refl). Qed.

(* ====================================================================================== *)
(* the three phases of a regular document                                                 *)
(* ====================================================================================== *)

Lemma top_quiet st t c : quiet t c -> fold_left visit (top_seq false t c) st = visit st (top c).
Proof. intro H. unfold top_seq. cbn [fold_left]. apply fold_silent. exact H. Qed.

Lemma phase_pre t l : forall st, Forall (pre_ok t) l -> fold_left visit (flat_map (top_seq false t) l) st = st.
Proof.
  induction l as [|c l IH]; intros st H; [reflexivity|]. inversion H as [|? ? [Hs Hq] Hl]; subst.
  rewrite flat_map_cons, fold_left_app, top_quiet by exact Hq. rewrite visit_silent by exact Hs. apply IH. exact Hl.
Qed.

Definition opt_sym (c : node) : list asym := if is_member c then [decl_sym c] else [].
Definition opt_uses (c : node) : list str := if is_uses c then uses_names c else [].

Lemma visit_mid R D c :
  silent_top c \/ is_uses c = true \/ (is_member c = true /\ is_method c = false) ->
  visit (mkSt R None D) (top c) =
  mkSt (mkTable (t_cls R) (t_syms R ++ opt_sym c) (t_uses R ++ opt_uses c)) None D.
Proof.
  unfold opt_sym, opt_uses, visit, decl_sym, member_kind.
  intro H. destruct R as [rc rs ru].
  dk_cases c; cbn [cur_insert cur_add_uses st_cur st_root st_done t_insert t_add_uses t_cls t_syms t_uses];
    rewrite ?app_nil_r; try reflexivity;
    exfalso; destruct H as [H|[H|[H1 H2]]]; discriminate.
Qed.

Lemma phase_mid t l : forall R D, Forall (mid_ok t) l ->
  fold_left visit (flat_map (top_seq false t) l) (mkSt R None D) =
  mkSt (mkTable (t_cls R) (t_syms R ++ map decl_sym (filter is_member l))
                (t_uses R ++ flat_map uses_names (filter is_uses l))) None D.
Proof.
  induction l as [|c l IH]; intros R D H.
  - cbn [flat_map fold_left filter map]. rewrite !app_nil_r. destruct R; reflexivity.
  - inversion H as [|? ? [Hk Hq] Hl]; subst.
    rewrite flat_map_cons, fold_left_app, top_quiet by exact Hq. rewrite visit_mid by exact Hk.
    rewrite IH by exact Hl. cbn [t_cls t_syms t_uses filter]. unfold opt_sym, opt_uses.
    destruct (is_member c), (is_uses c); cbn [map flat_map]; rewrite <- ?app_assoc, ?app_nil_r; reflexivity.
Qed.

Lemma silent_not_method c : silent_top c -> is_method c = false.
Proof. unfold silent_top, silent, is_method, dk. intros ->. reflexivity. Qed.

(* the table of a method node *)
Definition mtab (t : node) (R : table) (m : node) : table := mkTable (t_cls R) (var_syms (below t m)) (t_uses R).

Lemma end_method_root st : st_root (end_method st) = st_root st.
Proof. unfold end_method. destruct (st_cur st); reflexivity. Qed.

Lemma end_method_cur st : st_cur (end_method st) = None.
Proof. unfold end_method. destruct (st_cur st) eqn:E; [reflexivity|exact E]. Qed.

Lemma visit_method st c : is_method c = true ->
  visit st (top c) =
  let e := end_method st in
  mkSt (t_insert (st_root e) (decl_sym c)) (Some (mkTable (t_cls (st_root e)) [] (t_uses (st_root e)))) (st_done e).
Proof.
  unfold visit, decl_sym, member_kind. intro H.
  pose proof (end_method_cur st) as Hc. destruct (end_method st) as [R cu D]. cbn [st_cur] in Hc. subst cu.
  dk_cases c; try discriminate; reflexivity.
Qed.

Lemma phase_rest t l : forall st, Forall (rest_ok t) l ->
  end_method (fold_left visit (flat_map (top_seq false t) l) st) =
  let e := end_method st in
  mkSt (mkTable (t_cls (st_root e)) (t_syms (st_root e) ++ map decl_sym (filter is_method l)) (t_uses (st_root e)))
       None
       (st_done e ++ map (mtab t (st_root e)) (filter is_method l)).
Proof.
  induction l as [|c l IH]; intros st H.
  - cbn [flat_map fold_left filter map]. cbv zeta. pose proof (end_method_cur st) as Hc.
    destruct (end_method st) as [[rc rs ru] cu D]. cbn [st_cur] in Hc. subst cu.
    cbn [st_root st_done t_cls t_syms t_uses]. rewrite !app_nil_r. reflexivity.
  - inversion H as [|? ? Hc Hl]; subst. rewrite flat_map_cons, fold_left_app. destruct Hc as [[Hs Hq]|[Hm Hv]].
    + rewrite top_quiet by exact Hq. rewrite visit_silent by exact Hs. rewrite IH by exact Hl.
      cbn [filter]. rewrite (silent_not_method c Hs). reflexivity.
    + unfold top_seq. cbn [fold_left]. fold (top c). rewrite (visit_method st c Hm). cbv zeta.
      pose proof (end_method_cur st) as Hc. destruct (end_method st) as [[rc rs ru] cu D]. cbn [st_cur] in Hc. subst cu.
      cbn [st_root st_done t_cls t_uses t_insert t_syms].
      rewrite fold_vars' by exact Hv.
      cbn [st_root st_done t_cls t_syms t_uses app].
      rewrite IH by exact Hl. cbv zeta. cbn [end_method st_cur st_root st_done t_cls t_syms t_uses filter].
      rewrite Hm. cbn [map]. unfold mtab, t_insert. cbn [t_cls t_syms t_uses app].
      rewrite <- !app_assoc. reflexivity.
Qed.

(* ====================================================================================== *)
(* the tables of a regular document, exactly                                              *)
(* ====================================================================================== *)

Definition header_asyms (h : node) : list asym := decl_syms (top h).

Lemma visit_header h : is_header h = true ->
  visit init_state (top h) = mkSt (mkTable (Some (nident h)) (header_asyms h) []) None [].
Proof.
  unfold visit, header_asyms, decl_syms, decl_sym, member_kind. intro H.
  dk_cases h; try discriminate; reflexivity.
Qed.

Lemma pre_no {f : node -> bool} t l :
  (forall c, silent_top c -> f c = false) -> Forall (pre_ok t) l -> Forall (fun x => f x = false) l.
Proof. intros Hf H. eapply Forall_impl; [|exact H]. intros c [Hs _]. apply Hf. exact Hs. Qed.

Lemma silent_not_member c : silent_top c -> is_member c = false.
Proof. unfold silent_top, silent, is_member, dk. intros ->. reflexivity. Qed.
Lemma silent_not_uses c : silent_top c -> is_uses c = false.
Proof. unfold silent_top, silent, is_uses, dk. intros ->. reflexivity. Qed.
Lemma silent_not_header c : silent_top c -> is_header c = false.
Proof. unfold silent_top, silent, is_header, dk. intros ->. reflexivity. Qed.

Lemma header_not c : is_header c = true -> is_member c = false /\ is_method c = false /\ is_uses c = false.
Proof. intro H. dk_cases c; try discriminate; auto. Qed.

Lemma mid_no_method t l : Forall (mid_ok t) l -> Forall (fun x => is_method x = false) l.
Proof.
  intro H. eapply Forall_impl; [|exact H]. intros c [[Hs|[Hu|[_ Hm]]] _]; [apply silent_not_method; exact Hs| |exact Hm].
  dk_cases c; try discriminate; reflexivity.
Qed.

Lemma rest_member_method t l : Forall (rest_ok t) l -> Forall (fun x => is_member x = is_method x) l.
Proof.
  intro H. eapply Forall_impl; [|exact H]. intros c [[Hs _]|[Hm _]].
  - rewrite silent_not_member, silent_not_method by exact Hs. reflexivity.
  - dk_cases c; try discriminate; reflexivity.
Qed.

Lemma rest_no_uses t l : Forall (rest_ok t) l -> Forall (fun x => is_uses x = false) l.
Proof.
  intro H. eapply Forall_impl; [|exact H]. intros c [[Hs _]|[Hm _]]; [apply silent_not_uses; exact Hs|].
  dk_cases c; try discriminate; reflexivity.
Qed.

Definition reg_split (t : node) (pre : list node) (h : node) (mid rest : list node) : Prop :=
  silent_top t /\ nchildren t = pre ++ h :: mid ++ rest /\
  Forall (pre_ok t) pre /\ is_header h = true /\ quiet t h /\ Forall (mid_ok t) mid /\ Forall (rest_ok t) rest.

Lemma reg_members t pre h mid rest : reg_split t pre h mid rest ->
  filter is_member (nchildren t) = filter is_member mid ++ filter is_method rest.
Proof.
  intros (Ht & Hch & Hpre & Hh & Hhq & Hmid & Hrest).
  rewrite Hch, filter_app. cbn [filter]. destruct (header_not h Hh) as (E1 & _ & _). rewrite E1, filter_app.
  rewrite (filter_none is_member pre) by (eapply pre_no; [exact silent_not_member|exact Hpre]).
  rewrite (filter_same is_member is_method rest) by (eapply rest_member_method; exact Hrest). reflexivity.
Qed.

Lemma reg_methods t pre h mid rest : reg_split t pre h mid rest ->
  filter is_method (nchildren t) = filter is_method rest.
Proof.
  intros (Ht & Hch & Hpre & Hh & Hhq & Hmid & Hrest).
  rewrite Hch, filter_app. cbn [filter]. destruct (header_not h Hh) as (_ & E2 & _). rewrite E2, filter_app.
  rewrite (filter_none is_method pre) by (eapply pre_no; [exact silent_not_method|exact Hpre]).
  rewrite (filter_none is_method mid) by (eapply mid_no_method; exact Hmid). reflexivity.
Qed.

Lemma reg_uses t pre h mid rest : reg_split t pre h mid rest ->
  filter is_uses (nchildren t) = filter is_uses mid.
Proof.
  intros (Ht & Hch & Hpre & Hh & Hhq & Hmid & Hrest).
  rewrite Hch, filter_app. cbn [filter]. destruct (header_not h Hh) as (_ & _ & E3). rewrite E3, filter_app.
  rewrite (filter_none is_uses pre) by (eapply pre_no; [exact silent_not_uses|exact Hpre]).
  rewrite (filter_none is_uses rest) by (eapply rest_no_uses; exact Hrest). rewrite app_nil_r. reflexivity.
Qed.

Lemma reg_header t pre h mid rest : reg_split t pre h mid rest -> find is_header (nchildren t) = Some h.
Proof.
  intros (Ht & Hch & Hpre & Hh & _). rewrite Hch.
  apply find_skip; [eapply pre_no; [exact silent_not_header|exact Hpre]|exact Hh].
Qed.

Definition reg_root (t h : node) : table :=
  mkTable (Some (nident h)) (header_asyms h ++ map decl_sym (filter is_member (nchildren t)))
          (flat_map uses_names (filter is_uses (nchildren t))).

Lemma annotate_regular_split t pre h mid rest : reg_split t pre h mid rest ->
  annotate false t = mkSt (reg_root t h) None (map (mtab t (reg_root t h)) (filter is_method (nchildren t))).
Proof.
  intro HR. pose proof HR as (Ht & Hch & Hpre & Hh & Hhq & Hmid & Hrest).
  unfold reg_root. rewrite (reg_members _ _ _ _ _ HR), (reg_methods _ _ _ _ _ HR), (reg_uses _ _ _ _ _ HR).
  unfold annotate, visit_seq. cbn [fold_left]. rewrite visit_silent by exact Ht.
  rewrite Hch, flat_map_app, fold_left_app. rewrite (phase_pre t pre _ Hpre).
  rewrite flat_map_cons, fold_left_app. rewrite (top_quiet _ t h Hhq). rewrite (visit_header h Hh).
  rewrite flat_map_app, fold_left_app. rewrite (phase_mid t mid _ _ Hmid).
  rewrite (phase_rest t rest _ Hrest). cbv zeta.
  cbn [end_method st_cur st_root st_done t_cls t_syms t_uses app].
  rewrite map_app, <- app_assoc. reflexivity.
Qed.

(* the tables of a regular document: the root table holds the header symbol(s) followed by one
   symbol per top-level constant / type / field / procedure / function in order; each method node
   (in order) owns a table with one symbol per parameter / local declaration below it in walk
   order; every table carries the header's name and the `uses` of the document *)
Theorem annotate_regular t : regular t ->
  exists h, find is_header (nchildren t) = Some h /\
    let us := flat_map uses_names (filter is_uses (nchildren t)) in
    let R := mkTable (Some (nident h)) (decl_syms (top h) ++ map decl_sym (filter is_member (nchildren t))) us in
    annotate false t = mkSt R None (map (mtab t R) (filter is_method (nchildren t))).
Proof.
  intros [Ht (pre & h & mid & rest & Hch & Hpre & Hh & Hhq & Hmid & Hrest)]. exists h.
  assert (HR : reg_split t pre h mid rest) by (unfold reg_split; tauto).
  split; [apply (reg_header _ _ _ _ _ HR)|]. cbv zeta.
  apply (annotate_regular_split t pre h mid rest HR).
Qed.

(* ====================================================================================== *)
(* the abstraction function                                                               *)
(* ====================================================================================== *)

(* a declared type as Scoping.tyref: `name`, `refto name`, `listof name`; anything else TNone *)
Definition type_ref (n : node) : tyref :=
  match nkind n with
  | KAstTypeBasic | KAstTypeSized => TName (nident n)
  | KAstTypeReference =>
      match attr_tok K_op n with
      | Some o => match tty o with
                  | Tokens.TRefTo => Scoping.TRefTo (nident n)
                  | Tokens.TListOf => Scoping.TListOf (nident n)
                  | _ => TNone
                  end
      | None => TNone
      end
  | _ => TNone
  end.

Definition child_tyref (i : nat) (n : node) : tyref :=
  match nth_error (nchildren n) i with Some c => type_ref c | None => TNone end.

(* type_node is the first child of a type / field / parameter / local declaration, return_type the
   second child of a function *)
Definition decl_tyref (n : node) : tyref :=
  match dkind_of n with
  | Some DType | Some DField | Some DParam | Some DVar => child_tyref 0 n
  | Some DFunc => child_tyref 1 n
  | _ => TNone
  end.

Definition mkind_of (n : node) : mkind :=
  match dkind_of n with
  | Some DConst => MConst | Some DType => MType | Some DField => MField | Some DFunc => MFunc | _ => MProc
  end.

Definition member_of (n : node) (tag : N) : member := mkMember (mkind_of n) (nident n) (decl_tyref n) tag.
Definition var_of (n : node) (tag : N) : var := mkVar (nident n) (decl_tyref n) tag.

(* consecutive tags *)
Fixpoint number {A B} (f : A -> N -> B) (t : N) (l : list A) : list B :=
  match l with [] => [] | x :: r => f x t :: number f (t + 1) r end.

(* the children of a method up to and including its last parameter list / the others *)
Definition is_plist (n : node) : bool := is_kind KAstParameterDeclarationList n.
Fixpoint split_params (cs : list node) : list node * list node :=
  match cs with
  | [] => ([], [])
  | c :: r =>
      let (a, b) := split_params r in
      if is_plist c then (c :: a, b)
      else match a with [] => ([], c :: b) | _ => (c :: a, b) end
  end.

(* the declarations below the method m (a child of the root r) that insert a symbol, in walk order *)
Definition walk_below (r m : node) (cs : list node) : list vnode :=
  post_list (is_method_kind (nkind r)) (is_method_kind (nkind m)) cs.
Definition param_nodes (r m : node) : list vnode := filter var_like (walk_below r m (fst (split_params (nchildren m)))).
Definition local_nodes (r m : node) : list vnode := filter var_like (walk_below r m (snd (split_params (nchildren m)))).

Definition pvar_of (p : vnode) (tag : N) : var := var_of (snd p) tag.

Definition method_of (r m : node) (t : N) : method :=
  mkMethod (nident m) (number pvar_of t (param_nodes r m))
           (number pvar_of (t + N.of_nat (length (param_nodes r m))) (local_nodes r m)).

Fixpoint methods_from (r : node) (t : N) (ms : list node) : list method :=
  match ms with
  | [] => []
  | m :: l => method_of r m t ::
              methods_from r (t + N.of_nat (length (param_nodes r m)) + N.of_nat (length (local_nodes r m))) l
  end.

(* header = the first class / module child of the root (what DocumentService::parse_content takes
   as the entity of the file); tag 0 = the header, 1..k the members in order, then the parameters
   and locals of the methods in order *)
Definition entity_of_tree (t : node) : entity :=
  let cs := nchildren t in
  let h := find is_header cs in
  let mem := filter is_member cs in
  mkEntity (match h with Some x => nident x | None => [] end)
           (match h with Some x => match dk x with Some DModule => EModule | _ => EClass end | None => EClass end)
           (match h with Some x => option_map tval (attr_tok K_parent x) | None => None end)
           (flat_map uses_names (filter is_uses cs))
           (number member_of 1 mem)
           (methods_from t (1 + N.of_nat (length mem)) (filter is_method cs)).

(* ====================================================================================== *)
(* (a) the tables of Scoping are the tables built from the tree                           *)
(* ====================================================================================== *)

Definition aview (a : asym) : str * skind := (a_name a, a_kind a).
Definition sview (x : sym) : str * skind := (sid x, skind_of x).
Definition nview (n : node) : str * skind := (nident n, member_kind n).

Lemma aview_decl l : map aview (map decl_sym l) = map nview l.
Proof. rewrite map_map. reflexivity. Qed.

Lemma sview_members l : forall t, Forall (fun n => is_member n = true) l ->
  map sview (map sym_of_member (number member_of t l)) = map nview l.
Proof.
  induction l as [|n l IH]; intros t H; [reflexivity|]. inversion H as [|? ? Hn Hl]; subst.
  cbn [number map]. rewrite IH by exact Hl. f_equal.
  unfold sview, nview. rewrite skind_member. cbn [sym_of_member sid member_of m_name]. f_equal.
  unfold kind_of_member, member_of, mkind_of, member_kind. cbn [m_kind].
  dk_cases n; try discriminate; reflexivity.
Qed.

Definition pview (p : vnode) : str * skind := nview (snd p).

Lemma sview_vars l : forall t, Forall (fun n => var_like n = true) l ->
  map sview (map sym_of_var (number pvar_of t l)) = map pview l.
Proof.
  induction l as [|n l IH]; intros t H; [reflexivity|]. inversion H as [|? ? Hn Hl]; subst.
  cbn [number map]. rewrite IH by exact Hl. f_equal.
  unfold sview, pview, nview. rewrite skind_var. cbn [sym_of_var sid pvar_of var_of v_name]. f_equal.
  unfold member_kind. unfold var_like, dkind_at in Hn. destruct n as [g n]. cbn [fst snd] in *.
  destruct (dkind_of n) as [[]|]; try discriminate; reflexivity.
Qed.

Lemma aview_vars l : map aview (map vsym l) = map pview l.
Proof. rewrite map_map. reflexivity. Qed.

Lemma filter_all {A} (f : A -> bool) l : Forall (fun x => f x = true) (filter f l).
Proof. apply Forall_forall. intros x Hx. apply filter_In in Hx. tauto. Qed.

Lemma number_app {A B} (f : A -> N -> B) l1 : forall t l2,
  number f t (l1 ++ l2) = number f t l1 ++ number f (t + N.of_nat (length l1)) l2.
Proof.
  induction l1 as [|x l1 IH]; intros t l2.
  - cbn [app number length]. replace (t + N.of_nat 0) with t by lia. reflexivity.
  - cbn [app number length]. rewrite IH. do 3 f_equal. lia.
Qed.

Lemma split_params_app cs : fst (split_params cs) ++ snd (split_params cs) = cs.
Proof.
  induction cs as [|c r IH]; [reflexivity|]. cbn [split_params]. destruct (split_params r) as [a b]. cbn [fst snd] in IH.
  destruct (is_plist c); [cbn [fst snd app]; rewrite IH; reflexivity|].
  destruct a as [|a0 a]; cbn [fst snd app] in *; rewrite IH; reflexivity.
Qed.

(* parameters followed by locals = every parameter / local declaration below the method in walk order *)
Lemma params_locals r m : param_nodes r m ++ local_nodes r m = filter var_like (below r m).
Proof.
  unfold param_nodes, local_nodes, walk_below, below, post_list. rewrite <- filter_app, <- flat_map_app, split_params_app. reflexivity.
Qed.

Lemma method_table_view e r m t :
  map sview (syms (method_table e (method_of r m t))) = map pview (filter var_like (below r m)).
Proof.
  destruct (method_table_facts e (method_of r m t)) as (H & _ & _). rewrite H. cbn [method_of me_params me_locals].
  rewrite <- number_app, params_locals. apply sview_vars. apply filter_all.
Qed.

Lemma header_view e h : e_name e = nident h -> is_header h = true ->
  e_kind e = match dk h with Some DModule => EModule | _ => EClass end ->
  map sview (header_syms e) = map aview (decl_syms (top h)).
Proof.
  intros Hn Hh Hk. unfold header_syms, decl_syms, decl_sym, member_kind in *. rewrite Hk, Hn.
  dk_cases h; try discriminate; reflexivity.
Qed.

(* what it means for a table of the annotator to BE a table of the scoping model: the same
   symbols (name and symbol type) in the same insertion order, the same for_class_or_module *)
Definition same_table (T : table) (s : scope) : Prop :=
  map aview (t_syms T) = map sview (syms s) /\ cls_str T = cls s.

Lemma methods_Forall2 (P : table -> method -> Prop) (f : node -> table) r l :
  (forall m t, P (f m) (method_of r m t)) -> forall t, Forall2 P (map f l) (methods_from r t l).
Proof. intro H. induction l as [|m l IH]; intro t; cbn [map methods_from]; constructor; auto. Qed.

Theorem tables_from_tree t : regular t ->
  let e := entity_of_tree t in
  same_table (root_table_of false t) (root_table e) /\
  t_uses (root_table_of false t) = e_uses e /\
  Forall2 (fun T me => same_table T (method_table e me) /\ t_uses T = e_uses e)
          (method_tables_of false t) (e_methods e).
Proof.
  intro Hreg. destruct (annotate_regular t Hreg) as (h & Hf & Ha). cbv zeta in Ha. cbv zeta.
  assert (Hh : is_header h = true) by (apply find_some in Hf; tauto).
  unfold root_table_of, method_tables_of. rewrite Ha. cbn [st_root st_done].
  set (e := entity_of_tree t).
  assert (En : e_name e = nident h) by (unfold e, entity_of_tree; cbn [e_name]; rewrite Hf; reflexivity).
  assert (Ek : e_kind e = match dk h with Some DModule => EModule | _ => EClass end)
    by (unfold e, entity_of_tree; cbn [e_kind]; rewrite Hf; reflexivity).
  assert (Eu : e_uses e = flat_map uses_names (filter is_uses (nchildren t))) by reflexivity.
  split; [|split].
  - unfold same_table. cbn [t_syms cls_str t_cls]. destruct (table_of_facts e (e_members e)) as (H1 & H2 & _).
    unfold root_table. rewrite H1, H2, En. split; [|reflexivity].
    rewrite !map_app, aview_decl. f_equal; [symmetry; apply header_view; assumption|].
    unfold e, entity_of_tree. cbn [e_members]. symmetry. apply sview_members. apply filter_all.
  - cbn [t_uses]. symmetry. exact Eu.
  - unfold e at 3. unfold entity_of_tree. cbn [e_methods]. apply methods_Forall2. intros m tg.
    unfold mtab, same_table. cbn [t_syms t_cls t_uses cls_str]. split; [split|].
    + rewrite method_table_view. unfold var_syms. apply aview_vars.
    + destruct (method_table_facts e (method_of t m tg)) as (_ & H2 & _). rewrite H2, En. reflexivity.
    + symmetry. exact Eu.
Qed.

(* ====================================================================================== *)
(* (c) nothing dropped, nothing invented -- for ALL trees, both modes                     *)
(* ====================================================================================== *)

Definition all_syms (st : astate) : list asym :=
  flat_map t_syms (st_done st) ++
  match st_cur st with Some c => t_syms (st_root st) ++ t_syms c | None => t_syms (st_root st) end.

Lemma all_syms_cur_insert st s : all_syms (cur_insert st s) = all_syms st ++ [s].
Proof.
  unfold all_syms, cur_insert. destruct st as [R [c|] D]; cbn [st_cur st_root st_done t_insert t_syms];
    rewrite <- ?app_assoc; reflexivity.
Qed.

Lemma all_syms_set_cls st c : all_syms (root_set_cls st c) = all_syms st.
Proof. destruct st as [R [cu|] D]; reflexivity. Qed.

Lemma all_syms_add_uses st u : all_syms (cur_add_uses st u) = all_syms st.
Proof. destruct st as [R [cu|] D]; reflexivity. Qed.

Lemma all_syms_new_scope st : st_cur st = None -> all_syms (new_scope st) = all_syms st.
Proof.
  destruct st as [R cu D]. cbn [st_cur]. intros ->. unfold all_syms, new_scope. cbn [st_cur st_root st_done t_syms].
  rewrite app_nil_r. reflexivity.
Qed.

Lemma all_syms_end_method st : Permutation (all_syms (end_method st)) (all_syms st).
Proof.
  destruct st as [R [c|] D]; [|apply Permutation_refl].
  unfold all_syms, end_method. cbn [st_cur st_root st_done]. rewrite flat_map_app. cbn [flat_map]. rewrite app_nil_r.
  rewrite <- app_assoc. apply Permutation_app_head. apply Permutation_app_comm.
Qed.

Lemma cur_insert_cur_none st s : st_cur st = None -> st_cur (cur_insert st s) = None.
Proof. destruct st as [R cu D]. cbn [st_cur]. intros ->. reflexivity. Qed.

Lemma dkind_at_some p k : dkind_at p = Some k -> dkind_of (snd p) = Some k.
Proof. unfold dkind_at. destruct (dkind_of (snd p)) as [[]|]; destruct (fst p); congruence. Qed.

Lemma all_syms_visit st n : Permutation (all_syms (visit st n)) (all_syms st ++ decl_syms n).
Proof.
  unfold visit, decl_syms. cbv zeta.
  destruct (dkind_at n) as [k|] eqn:E; [apply dkind_at_some in E; unfold decl_sym, member_kind; rewrite E; destruct k|];
    rewrite ?all_syms_cur_insert, ?all_syms_set_cls, ?all_syms_add_uses, ?app_nil_r, <- ?app_assoc; try apply Permutation_refl.
  - rewrite all_syms_new_scope by (apply cur_insert_cur_none, end_method_cur). rewrite all_syms_cur_insert.
    apply Permutation_app_tail. apply all_syms_end_method.
  - rewrite all_syms_new_scope by (apply cur_insert_cur_none, end_method_cur). rewrite all_syms_cur_insert.
    apply Permutation_app_tail. apply all_syms_end_method.
Qed.

Lemma all_syms_fold l : forall st, Permutation (all_syms (fold_left visit l st)) (all_syms st ++ flat_map decl_syms l).
Proof.
  induction l as [|n l IH]; intro st; cbn [fold_left flat_map]; [rewrite app_nil_r; apply Permutation_refl|].
  eapply Permutation_trans; [apply IH|]. rewrite app_assoc. apply Permutation_app_tail. apply all_syms_visit.
Qed.

(* every table of the result, flattened *)
Definition tables_of (defs_only : bool) (t : node) : list table :=
  root_table_of defs_only t :: method_tables_of defs_only t.

(* one symbol per visited declaration node (two for a class header: its name and `self`),
   none for anything else: the symbols of all tables together are exactly those *)
Theorem annot_one_symbol_per_declaration_all d t :
  Permutation (flat_map t_syms (tables_of d t)) (flat_map decl_syms (visit_seq d t)).
Proof.
  unfold tables_of, root_table_of, method_tables_of, annotate.
  set (st := fold_left visit (visit_seq d t) init_state).
  assert (H : Permutation (all_syms (end_method st)) (flat_map decl_syms (visit_seq d t))).
  { eapply Permutation_trans; [apply all_syms_end_method|]. apply (all_syms_fold (visit_seq d t) init_state). }
  eapply Permutation_trans; [|exact H].
  unfold all_syms. rewrite end_method_cur. cbn [flat_map]. apply Permutation_app_comm.
Qed.

(* ... and in a regular document each table holds exactly its own declarations, in order *)
Theorem annot_one_symbol_per_declaration t : regular t ->
  exists h, find is_header (nchildren t) = Some h /\
    t_syms (root_table_of false t) = decl_syms (top h) ++ map decl_sym (filter is_member (nchildren t)) /\
    map t_syms (method_tables_of false t) =
      map (fun m => map vsym (filter var_like (below t m))) (filter is_method (nchildren t)).
Proof.
  intro Hreg. destruct (annotate_regular t Hreg) as (h & Hf & Ha). cbv zeta in Ha. exists h. split; [exact Hf|].
  unfold root_table_of, method_tables_of. rewrite Ha. cbn [st_root st_done t_syms]. split; [reflexivity|].
  rewrite map_map. reflexivity.
Qed.

(* ====================================================================================== *)
(* (b) the selection range is the declared name's range                                   *)
(* ====================================================================================== *)

Lemma in_post_sub P : forall n gm pm, Forall_nodes P n -> Forall (fun p => P (snd p)) (post gm pm n).
Proof.
  fix IH 1. intros [k id raw rng at_ ch] gm pm H. apply Forall_nodes_unfold in H. destruct H as [H1 H2]. cbn [nchildren] in H2.
  cbn [post]. apply Forall_app. split; [|constructor; [exact H1|constructor]].
  clear H1. induction ch as [|c ch IHc]; [constructor|]. inversion H2; subst. apply Forall_app. split; [apply IH; assumption|apply IHc; assumption].
Qed.

Lemma in_post_list P gm pm l : Forall (Forall_nodes P) l -> Forall (fun p => P (snd p)) (post_list gm pm l).
Proof.
  induction 1 as [|c l Hc _ IH]; [constructor|]. unfold post_list. cbn [flat_map]. apply Forall_app. split; [apply in_post_sub; exact Hc|exact IH].
Qed.

Lemma visit_seq_sub P d t : Forall_nodes P t -> Forall (fun p => P (snd p)) (visit_seq d t).
Proof.
  intro H. apply Forall_nodes_unfold in H. destruct H as [H1 H2]. unfold visit_seq. constructor; [exact H1|].
  induction H2 as [|c l Hc _ IH]; [constructor|]. cbn [flat_map]. apply Forall_app. split; [|exact IH].
  unfold top_seq. apply Forall_nodes_unfold in Hc. destruct Hc as [Hc1 Hc2]. constructor; [exact Hc1|].
  destruct d; [constructor|]. apply in_post_list. exact Hc2.
Qed.

(* a symbol and the node that declares it *)
Definition declares (p : vnode) (s : asym) : Prop :=
  In s (decl_syms p) /\
  a_sel s = name_range (snd p) /\ a_range s = nrange (snd p) /\
  (a_name s = nident (snd p) \/ (a_name s = s_self /\ dkind_at p = Some DClass)).

Lemma decl_syms_declares n s : In s (decl_syms n) -> declares n s.
Proof.
  intro H. split; [exact H|]. unfold decl_syms, decl_sym, self_of, sym_of in H.
  destruct (dkind_at n) as [[]|] eqn:E; cbn [In] in H;
    repeat match goal with H : _ \/ _ |- _ => destruct H as [H|H] end; try contradiction; subst s;
    cbn [a_sel a_range a_name]; auto.
Qed.

(* the name token of a declaring node of a well-formed tree (C08: NodeWf) lies inside the node *)
Lemma name_range_inside L p : NodeWf L (snd p) -> decl_syms p <> [] ->
  inside (name_range (snd p)) (nrange (snd p)).
Proof.
  destruct p as [g n]. cbn [snd].
  intros (Hwf & Hl & [Hsel Hneed] & Hname) Hd. unfold decl_syms, dkind_at in Hd. cbn [fst snd] in Hd. unfold name_range.
  unfold dkind_of in *.
  destruct g; destruct (nkind n) eqn:Ek; try (exfalso; apply Hd; reflexivity);
  try (destruct (attr_tok K_ident n) as [tk|] eqn:Ea;
       [cbn [tok_range]; destruct (Hsel tk eq_refl) as (Hi & _); [intro Hc; discriminate|exact Hi]
       |exfalso; apply Hneed; reflexivity]).
  all: try (specialize (Hname (or_introl Ek)); destruct (nchildren n); [contradiction|exact Hname]).
  all: specialize (Hname (or_intror Ek)); destruct (nchildren n); [contradiction|exact Hname].
Qed.

Theorem annot_selection_is_declared_name d t T s :
  In T (tables_of d t) -> In s (t_syms T) ->
  exists n, In n (visit_seq d t) /\ declares n s /\
            forall L, Forall_nodes (NodeWf L) t -> inside (a_sel s) (a_range s).
Proof.
  intros HT Hs.
  assert (Hin : In s (flat_map t_syms (tables_of d t))) by (apply in_flat_map; exists T; auto).
  apply (Permutation_in _ (annot_one_symbol_per_declaration_all d t)) in Hin.
  apply in_flat_map in Hin. destruct Hin as (n & Hn & Hsn). exists n. split; [exact Hn|].
  pose proof (decl_syms_declares n s Hsn) as Hd. split; [exact Hd|].
  intros L Hwf. destruct Hd as (_ & E1 & E2 & _). rewrite E1, E2.
  pose proof (visit_seq_sub (NodeWf L) d t Hwf) as Hall. rewrite Forall_forall in Hall.
  apply (name_range_inside L n (Hall n Hn)). intro E. rewrite E in Hsn. destruct Hsn.
Qed.

(* ====================================================================================== *)
(* the regular shape is decidable (greedy split); used for the non-vacuity examples and   *)
(* by the correspondence check to count the regular documents among its cases            *)
(* ====================================================================================== *)

Definition silentb (p : vnode) : bool := match dkind_at p with None => true | Some _ => false end.
Definition quietb (t c : node) : bool := forallb silentb (below t c).
Definition pre_okb (t c : node) : bool := silentb (top c) && quietb t c.
Definition mid_okb (t c : node) : bool :=
  (silentb (top c) || is_uses c || (is_member c && negb (is_method c))) && quietb t c.
Definition vosb (p : vnode) : bool := silentb p || var_like p.
Definition rest_okb (t c : node) : bool :=
  (silentb (top c) && quietb t c) || (is_method c && forallb vosb (below t c)).

Fixpoint span {A} (f : A -> bool) (l : list A) : list A * list A :=
  match l with
  | [] => ([], [])
  | x :: r => if f x then let (a, b) := span f r in (x :: a, b) else ([], l)
  end.

Definition regularb (t : node) : bool :=
  silentb (top t) &&
  match span (pre_okb t) (nchildren t) with
  | (_, []) => false
  | (_, h :: r) => is_header h && quietb t h && forallb (rest_okb t) (snd (span (mid_okb t) r))
  end.

Lemma span_app {A} (f : A -> bool) l : fst (span f l) ++ snd (span f l) = l.
Proof.
  induction l as [|x r IH]; [reflexivity|]. cbn [span]. destruct (f x); [|reflexivity].
  destruct (span f r) as [a b]. cbn [fst snd app] in *. rewrite IH. reflexivity.
Qed.

Lemma span_fst {A} (f : A -> bool) l : Forall (fun x => f x = true) (fst (span f l)).
Proof.
  induction l as [|x r IH]; [constructor|]. cbn [span]. destruct (f x) eqn:E; [|constructor].
  destruct (span f r) as [a b]. cbn [fst] in *. constructor; assumption.
Qed.

Lemma silentb_ok n : silentb n = true -> silent n.
Proof. unfold silentb, silent. destruct (dkind_at n); [discriminate|reflexivity]. Qed.

Lemma quietb_ok t c : quietb t c = true -> quiet t c.
Proof.
  unfold quietb, quiet. intro H. rewrite forallb_forall in H. apply Forall_forall. intros x Hx. apply silentb_ok, H, Hx.
Qed.

Lemma pre_okb_ok t c : pre_okb t c = true -> pre_ok t c.
Proof. unfold pre_okb, pre_ok. intro H. apply andb_true_iff in H. destruct H. split; [apply silentb_ok|apply quietb_ok]; assumption. Qed.

Lemma mid_okb_ok t c : mid_okb t c = true -> mid_ok t c.
Proof.
  unfold mid_okb, mid_ok. intro H. apply andb_true_iff in H. destruct H as [H1 H2]. split; [|apply quietb_ok; exact H2].
  apply orb_true_iff in H1. destruct H1 as [H1|H1]; [apply orb_true_iff in H1; destruct H1 as [H1|H1]|].
  - left. apply silentb_ok. exact H1.
  - right. left. exact H1.
  - right. right. apply andb_true_iff in H1. destruct H1 as [A B]. apply negb_true_iff in B. auto.
Qed.

Lemma rest_okb_ok t c : rest_okb t c = true -> rest_ok t c.
Proof.
  unfold rest_okb, rest_ok. intro H. apply orb_true_iff in H. destruct H as [H|H]; apply andb_true_iff in H; destruct H as [A B].
  - left. split; [apply silentb_ok|apply quietb_ok]; assumption.
  - right. split; [exact A|]. rewrite forallb_forall in B. apply Forall_forall. intros x Hx. specialize (B x Hx).
    unfold vosb in B. apply orb_true_iff in B. destruct B as [B|B]; [left; apply silentb_ok; exact B|right; exact B].
Qed.

Theorem regularb_ok t : regularb t = true -> regular t.
Proof.
  unfold regularb. intro H. apply andb_true_iff in H. destruct H as [Hs H]. split; [apply silentb_ok; exact Hs|].
  pose proof (span_app (pre_okb t) (nchildren t)) as Happ. pose proof (span_fst (pre_okb t) (nchildren t)) as Hpre.
  destruct (span (pre_okb t) (nchildren t)) as [pre [|h r]]; [discriminate|]. cbn [fst snd] in *.
  apply andb_true_iff in H. destruct H as [H Hrest]. apply andb_true_iff in H. destruct H as [Hh Hq].
  pose proof (span_app (mid_okb t) r) as Happ2. pose proof (span_fst (mid_okb t) r) as Hmid.
  destruct (span (mid_okb t) r) as [mid rest]. cbn [fst snd] in *.
  exists pre, h, mid, rest. split; [rewrite Happ2; symmetry; exact Happ|].
  split; [eapply Forall_impl; [|exact Hpre]; intros a Ha; apply pre_okb_ok; exact Ha|].
  split; [exact Hh|]. split; [apply quietb_ok; exact Hq|].
  split; [eapply Forall_impl; [|exact Hmid]; intros a Ha; apply mid_okb_ok; exact Ha|].
  rewrite forallb_forall in Hrest. apply Forall_forall. intros x Hx. apply rest_okb_ok, Hrest, Hx.
Qed.
