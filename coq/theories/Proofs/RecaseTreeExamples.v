(* C17 at tree level: non-vacuity of Proofs/RecaseTree.v, RecaseWsTree.v, RecaseHierTree.v on REAL-parser trees
   (the witnesses of WsTreeWitness.v / DefTreeWitness.v / ReportWitness.v / HierTreeWitness.v and their
   re-cased variants of RecaseTreeWitness.v), and the two refutations. *)
From GoldV Require Import Base Tokens Keywords Lexer AstKinds Tree Recase RecaseBase Strings.
From GoldV Require Import Encase SymTab Scoping Annot AnnotProofs DefTree WsTree HierTree Report.
From GoldV Require Import RecaseTree RecaseWsTree RecaseHierTree RecaseTreeWitness.
From GoldV Require Import WsTreeWitness DefTreeWitness ReportWitness HierTreeWitness.
From GoldV Require Forest RecaseOutline.
From Coq Require String.
Import String.StringSyntax.
Local Open Scope string_scope.

Ltac refsim := apply ref_simb_sound; vm_compute; reflexivity.

(* ---------- the pairs ---------- *)
Lemma rc_child_ref : ref_sim wsx_child rc_child. Proof. refsim. Qed.
Lemma rc_parent_ref : ref_sim wsx_parent rc_parent. Proof. refsim. Qed.
Lemma rc_lib_ref : ref_sim wsx_lib rc_lib. Proof. refsim. Qed.
Lemma rc_user_ref : ref_sim wsx_user rc_user. Proof. refsim. Qed.
Lemma rc_deftree_ref : ref_sim deftree_ex rc_deftree. Proof. refsim. Qed.
Lemma rc_resp_ref : ref_sim w_resp rc_resp. Proof. refsim. Qed.
Lemma rc_ka_ref : ref_sim ht_ka rc_ka. Proof. refsim. Qed.
Lemma rc_kb_ref : ref_sim ht_kb rc_kb. Proof. refsim. Qed.
Lemma rc_kc_ref : ref_sim ht_kc rc_kc. Proof. refsim. Qed.

Definition rc_wsx2 : wst := [(wx_aChild, rc_child); (wx_aParent, rc_parent); (wx_aLib, rc_lib); (wx_aUser, rc_user)].
Definition rc_ht_ws : wsT := [(s2l "aKa", rc_ka); (s2l "aKb", rc_kb); (s2l "aKc", rc_kc)].

Lemma rc_wsx2_ref : ws_ref wsx2 rc_wsx2.
Proof.
  unfold ws_ref, wsx2, wsx, rc_wsx2. cbn [app].
  constructor; [split; [reflexivity|exact rc_child_ref]|]. constructor; [split; [reflexivity|exact rc_parent_ref]|].
  constructor; [split; [reflexivity|exact rc_lib_ref]|]. constructor; [split; [reflexivity|exact rc_user_ref]|]. constructor.
Qed.

Lemma rc_ht_ws_ref : ws_ref ht_ws rc_ht_ws.
Proof.
  unfold ws_ref, ht_ws, rc_ht_ws.
  constructor; [split; [reflexivity|exact rc_ka_ref]|]. constructor; [split; [reflexivity|exact rc_kb_ref]|].
  constructor; [split; [reflexivity|exact rc_kc_ref]|]. constructor.
Qed.

(* ---------- annot ---------- *)
(* the tables are NOT equal: uses_entities keeps the reference as written *)
Theorem annot_uses_refuted : exists t t', ref_sim t t' /\ tables_of false t <> tables_of false t'.
Proof.
  exists wsx_child, rc_child. split; [exact rc_child_ref|]. intro E.
  apply (f_equal (map t_uses)) in E. vm_compute in E. discriminate.
Qed.

Example annot_recase_nonvacuous :
  ref_sim wsx_child rc_child /\ wsx_child <> rc_child /\
  map t_uses (tables_of false wsx_child) = [[s2l "aLib"]; [s2l "aLib"]; [s2l "aLib"]] /\
  map t_uses (tables_of false rc_child) = [[s2l "alib"]; [s2l "alib"]; [s2l "alib"]] /\
  map (fun T => map a_name (t_syms T)) (tables_of false rc_child) =
    [[s2l "aChild"; s2l "self"; s2l "fc"; s2l "Run"; s2l "Base"]; [s2l "p"; s2l "l"]; []] /\
  map t_syms (tables_of false wsx_child) = map t_syms (tables_of false rc_child).
Proof.
  split; [exact rc_child_ref|]. split; [intro E; apply (f_equal RecaseOutline.spellings) in E; vm_compute in E; discriminate|].
  repeat split; vm_compute; reflexivity.
Qed.

(* ---------- report ---------- *)
Example report_recase_nonvacuous :
  ref_sim w_resp rc_resp /\ w_resp <> rc_resp /\
  report w_resp w_resp_pd = report rc_resp w_resp_pd /\ length (report rc_resp w_resp_pd) = 15%nat.
Proof.
  split; [exact rc_resp_ref|]. split; [intro E; apply (f_equal RecaseOutline.spellings) in E; vm_compute in E; discriminate|].
  split; vm_compute; reflexivity.
Qed.

(* ---------- one document ---------- *)
Example deftree_recase_nonvacuous :
  ref_sim deftree_ex rc_deftree /\ deftree_ex <> rc_deftree /\
  (* `FA` in the body: the parameter Fa *)
  definition rc_deftree dx_aFoo (mkPos 5 10) = definition deftree_ex dx_aFoo (mkPos 5 10) /\
  definition rc_deftree dx_aFoo (mkPos 5 10) = Ans [(rg 3 19 3 21, rg 3 19 3 28)] /\
  (* `SELF.FA`: the field fa *)
  definition rc_deftree dx_aFoo (mkPos 6 7) = Ans [(rg 2 0 2 2, rg 2 0 2 9)] /\
  completion rc_deftree dx_aFoo (mkPos 6 7) = completion deftree_ex dx_aFoo (mkPos 6 7) /\
  completion rc_deftree dx_aFoo (mkPos 6 7) <> Ans [] /\ completion rc_deftree dx_aFoo (mkPos 6 7) <> Outside.
Proof.
  split; [exact rc_deftree_ref|]. split; [intro E; apply (f_equal RecaseOutline.spellings) in E; vm_compute in E; discriminate|].
  repeat split; try (vm_compute; reflexivity); vm_compute; discriminate.
Qed.

(* ---------- workspaces ---------- *)
Example wstree_recase_nonvacuous :
  ws_ref wsx2 rc_wsx2 /\ wsx2 <> rc_wsx2 /\ distinct_stems rc_wsx2 = true /\
  (* `Fp` in aChild.Run: the field of the PARENT class (header `(APARENT)`), in aParent.god *)
  wdefinition rc_wsx2 0 (mkPos 5 14) = Ans [(wx_aParent, wrg 2 0 2 2, wrg 2 0 2 9)] /\
  (* `CLIB`: the constant of the USED module (`USES alib`), in aLib.god *)
  wdefinition rc_wsx2 0 (mkPos 5 19) = Ans [(wx_aLib, wrg 1 6 1 10, wrg 1 0 1 14)] /\
  (* `Self.BASE`: the own procedure and the parent's *)
  wdefinition rc_wsx2 0 (mkPos 7 6) = Ans [(wx_aChild, wrg 9 5 9 9, wrg 9 0 10 7); (wx_aParent, wrg 3 5 3 9, wrg 3 0 5 7)] /\
  (* the parent reference in the header *)
  wdefinition rc_wsx2 0 (mkPos 0 14) = Ans [(wx_aParent, wrg 0 6 0 13, wrg 0 0 0 13)] /\
  (* `Q.FC`, q : ACHILD (typed operand): the field of aChild; `ALIB.clib`: the module named before the dot *)
  wdefinition rc_wsx2 3 (mkPos 2 3) = Ans [(wx_aChild, wrg 2 0 2 2, wrg 2 0 2 9)] /\
  wdefinition rc_wsx2 3 (mkPos 3 6) = Ans [(wx_aLib, wrg 1 6 1 10, wrg 1 0 1 14)] /\
  wcompletion rc_wsx2 0 (mkPos 5 1) = Ans [[112]; [108]; [99;80]] /\
  wcompletion rc_wsx2 3 (mkPos 2 3) = Ans [[102;99]; wx_Run; wx_Base; wx_fp] /\
  wdefinition wsx2 3 (mkPos 2 3) = wdefinition rc_wsx2 3 (mkPos 2 3).
Proof.
  split; [exact rc_wsx2_ref|].
  split; [intro E; apply (f_equal (map (fun d : doc => RecaseOutline.spellings (snd d)))) in E; vm_compute in E; discriminate|].
  repeat split; vm_compute; reflexivity.
Qed.

(* ---------- hierarchy ---------- *)
Definition rc_item_foo_kc : item := mkItem (s2l "foo") IFunc (s2l "aKc") (mkRange (mkPos 6 5) (mkPos 6 8)) (mkRange (mkPos 6 0) (mkPos 7 7)).
Definition rc_item_ka : item := mkItem (s2l "aKa") IClass (s2l "aKa") (mkRange (mkPos 0 6) (mkPos 0 9)) (mkRange (mkPos 0 0) (mkPos 0 9)).

Example hiertree_recase_nonvacuous :
  ws_ref ht_ws rc_ht_ws /\ ht_ws <> rc_ht_ws /\
  files_of_ws rc_ht_ws = [ (s2l "aKa", None); (s2l "aKb", Some (s2l "aka")); (s2l "aKc", Some (s2l "AKB")) ] /\
  (* the method foo of aKc overrides Foo of aKb (spelled as DECLARED there), found through `(AKB)` *)
  supertypes_of rc_ht_ws (class_tree rc_ht_ws) rc_item_foo_kc = supertypes_of ht_ws (class_tree ht_ws) rc_item_foo_kc /\
  match supertypes_of rc_ht_ws (class_tree rc_ht_ws) rc_item_foo_kc with
  | Ans (ROk [it]) => i_name it = s2l "Foo" /\ i_uri it = s2l "aKb"
  | _ => False
  end /\
  (* the subclasses of aKa: aKb, named as declared although the reference says `(aka)` *)
  match subtypes_of rc_ht_ws (class_tree rc_ht_ws) rc_item_ka with
  | Ans (ROk [it]) => i_name it = s2l "aKb" /\ i_uri it = s2l "aKb"
  | _ => False
  end /\
  (* prepare on the reference `FLD` in aKb.Foo: the field as declared *)
  prepare rc_ht_ws (s2l "aKb", rc_kb) (mkPos 5 4) = prepare ht_ws (s2l "aKb", ht_kb) (mkPos 5 4) /\
  match prepare rc_ht_ws (s2l "aKb", rc_kb) (mkPos 5 4) with
  | Ans (ROk [it]) => i_name it = s2l "fld"
  | _ => False
  end.
Proof.
  split; [exact rc_ht_ws_ref|].
  split; [intro E; apply (f_equal (map (fun d : HierTree.doc => RecaseOutline.spellings (snd d)))) in E; vm_compute in E; discriminate|].
  repeat split; vm_compute; reflexivity.
Qed.

(* the item name as it was before /repo 3e4a84d -- the tree node's id, the spelling seen FIRST -- echoed the
   reference when a child class is indexed before its parent: it changes under re-casing *)
Definition old_ws : wsT := [(s2l "aKb", ht_kb); (s2l "aKa", ht_ka)].
Definition old_ws' : wsT := [(s2l "aKb", rc_kb); (s2l "aKa", rc_ka)].

Theorem hiertree_old_item_name_refuted :
  exists ws ws' k, ws_ref ws ws' /\
    Forest.old_item_name (class_tree ws) k <> Forest.old_item_name (class_tree ws') k /\
    Forest.key_of (class_tree ws) 1 = Forest.key_of (class_tree ws') 1.
Proof.
  exists old_ws, old_ws', (s2l "AKA"). split.
  - constructor; [split; [reflexivity|exact rc_kb_ref]|]. constructor; [split; [reflexivity|exact rc_ka_ref]|]. constructor.
  - split; [vm_compute; discriminate|vm_compute; reflexivity].
Qed.

(* ---------- the finding hier-after-dot-own-class-spelling ----------
   /repo/src/manager/utils.rs search_sym_info_for_node, right operand of a dot: `if left_node_id == cur_class { nearest
   table } else { get_symbol_table_for_class_def_only(left) }` -- an EXACT-spelling comparison whose two branches do
   not reach the same symbol when the nearest table is a method's table in which a local / parameter has the member's
   name: `Fb : aBeta` (as declared) looks `GetLink` up from the method's table and finds the LOCAL variable (no item),
   `Fb : abeta` goes through the class index and finds the FUNCTION.  Model/HierTree.v classifies the right operand
   of a dot Outside (so C17_tree_hiertree holds, Outside = Outside); what the two branches read is exhibited here on
   the real-parser trees of the two spellings. *)
Theorem hier_after_dot_branches_refuted :
  ref_sim hd_own hd_other /\ hd_own <> hd_other /\
  match chain_for hd_own (descend (mkPos 4 9) hd_own) with
  | Some ch =>
      option_map (fun h => a_kind (snd h)) (lookup ch (s2l "GetLink")) = Some KVariable /\
      option_map (fun h => a_kind (snd h)) (lookup (class_level_t ch) (s2l "GetLink")) = Some KFunc
  | None => False
  end /\
  prepare [(s2l "aBeta", hd_own)] (s2l "aBeta", hd_own) (mkPos 4 9) = Outside /\
  prepare [(s2l "aBeta", hd_other)] (s2l "aBeta", hd_other) (mkPos 4 9) = Outside.
Proof.
  split; [refsim|]. split; [intro E; apply (f_equal RecaseOutline.spellings) in E; vm_compute in E; discriminate|].
  repeat split; vm_compute; reflexivity.
Qed.
