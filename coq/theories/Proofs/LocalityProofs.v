(* C09: a syntax error stays inside the method that contains it -- assembly.
   LocalitySpan.v : a method span is parsed as a unit (take_until + own slice), top-level loop compositional;
   FrameRel/FrameTop: what is parsed later does not depend on the diagnostics or cache contents left behind;
   DiagRel        : diagnostics of a body parsed on its slice start and end at tokens of the body (no 0:0-0:0 exception);
   MemoRel        : the memo switch is constant;   HeaderShape: a syntactic class of headers. *)
From GoldV Require Import Base Tokens Lexer AstKinds Tree Strings PComb Grammar ParserWF GrammarWF GrammarRel
                          LocalitySpan FrameRel FrameTop DiagRel MemoRel HeaderShape.
From Coq Require Import Lia.

Definition terms_of (isf : bool) : list ttype := if isf then func_terms else proc_terms.
Definition missing_msg (isf : bool) : str :=
  if isf then S_func_end_token_not_found else S_proc_end_token_not_found.

(* hdr is the header of a procedure (isf = false) / function (isf = true) *)
Definition method_header (g : G) (isf : bool) (hdr : list tok) (h : hinfo) (dh : list pdiag) : Prop :=
  if isf then is_header (func_header g) hdr h dh /\ (exists t hdr', hdr = t :: hdr' /\ tty t = TFunc)
  else is_header (proc_header g) hdr h dh /\ hdr <> [].

(* everything the proofs need to know about the grammar below the method level, for inputs up to n tokens *)
Record good (g : G) (n : nat) : Prop := mkGood {
  good_Wt : W n true (g_type g);
  good_Ws : W n true (g_stmt g);
  good_Ft : Fr Km (g_type g);
  good_Fs : Fr Kc (g_stmt g);
  good_D : forall S, Dg S (g_stmt g);
  good_M : Mm (g_stmt g) }.

Lemma gram_good fuel n : (n < fuel)%nat -> good (gram fuel) n.
Proof.
  intro H. destruct (gram_W fuel n H) as (Wt & _ & _ & Ws).
  constructor; auto.
  - apply gram_type_Fr.
  - apply (gram_Fr fuel).
  - intro S. apply (gram_Dg S fuel).
  - apply (gram_Mm fuel).
Qed.

(* the body parsed in isolation: on its own, from the empty context *)
Definition iso (g : G) (mm : bool) (body : list tok) : res (option node) * ctx :=
  parse_method_body g body [] (ctx0 mm).
Definition iso_node (g : G) (mm : bool) (body : list tok) : option node :=
  match fst (iso g mm body) with Ok _ b => b | _ => None end.
Definition iso_diags (g : G) (mm : bool) (body : list tok) : list pdiag := cdiags (snd (iso g mm body)).

Section Local.
  Variable g : G.
  Variable n : nat.
  Hypothesis Hg : good g n.

  Lemma body_ok body : (length body <= n)%nat -> forall c, exists b c2, parse_method_body g body [] c = (Ok [] b, c2).
  Proof.
    intros Hl c. unfold parse_method_body. destruct body as [|first rest]; [unfold ret; eauto|].
    unfold on_slice, bind, with_ctx.
    destruct (repeat_consumes_all n (g_stmt g) (good_Ws g n Hg) (first :: rest) (clear_cache c) (CacheOK_clear c) Hl) as [a Ha].
    destruct (repeat_w_ctx (g_stmt g) (first :: rest) (clear_cache c)) as [r c1]. cbn [fst] in Ha. subst r.
    destruct a; unfold ret; eauto.
  Qed.

  Lemma body_frame mm body : (length body <= n)%nat -> forall c, cmemo c = mm ->
    parse_method_body g body [] c = (Ok [] (iso_node g mm body), snd (parse_method_body g body [] c)) /\
    cdiags (snd (parse_method_body g body [] c)) = iso_diags g mm body ++ cdiags c /\
    cmemo (snd (parse_method_body g body [] c)) = mm.
  Proof.
    intros Hl c Hc.
    assert (Km c (ctx0 mm)) as HK by exact Hc.
    destruct (Fr_parse_method_body g (good_Fs g n Hg) body [] c (ctx0 mm) HK) as (r & cf & df & E1 & E2 & _ & (new & F1 & F2)).
    destruct (body_ok body Hl (ctx0 mm)) as (b & c2 & Eb).
    unfold iso_node, iso_diags, iso. rewrite E2 in Eb. inversion Eb; subst r df. rewrite E1, E2. cbn [fst snd].
    split; [reflexivity|]. split.
    - rewrite F1, F2. simpl. rewrite app_nil_r. reflexivity.
    - pose proof (Mm_parse_method_body g body (good_M g n Hg) [] c) as M. rewrite E1 in M. cbn [snd] in M. congruence.
  Qed.

  Lemma iso_diags_ok mm body : Forall (diag_ok (fun t => In t body)) (iso_diags g mm body).
  Proof.
    destruct (body_diags_from_body g body (good_D g n Hg _) [] (ctx0 mm)) as (new & E & H).
    unfold iso_diags, iso. rewrite E. simpl. rewrite app_nil_r. exact H.
  Qed.

  (* ---------- a method span as a closed unit of the top-level loop ---------- *)

  Definition span_fx (dh : list pdiag) (body : list tok) : ctx -> ctx :=
    fun c => snd (parse_method_body g body [] (push_diags dh c)).

  Definition span_unit (mm : bool) (hdr : list tok) (h : hinfo) (dh : list pdiag) (body : list tok) (endtok : tok) : unit :=
    (hdr ++ body ++ [endtok], span_node h (iso_node g mm body) endtok, span_fx dh body).

  Record span_ok (isf : bool) (hdr : list tok) (h : hinfo) (dh : list pdiag) (body : list tok) : Prop := mkSpanOk {
    so_header : method_header g isf hdr h dh;
    so_body : has_method_body (h_mods h) = true;
    so_noterm : no_term (terms_of isf) body = true;
    so_guard : extends_header body = false;
    so_len : (length body <= n)%nat }.

  Lemma span_fx_diags mm dh body c : (length body <= n)%nat -> cmemo c = mm ->
    cdiags (span_fx dh body c) = iso_diags g mm body ++ dh ++ cdiags c.
  Proof.
    intros Hl Hc. unfold span_fx.
    destruct (body_frame mm body Hl (push_diags dh c) Hc) as (_ & E & _). rewrite E. reflexivity.
  Qed.

  Lemma span_unit_ok mm isf hdr h dh body endtok :
    span_ok isf hdr h dh body -> is_term (terms_of isf) endtok = true ->
    unit_ok g mm (span_unit mm hdr h dh body endtok).
  Proof.
    intros [Hh Hb Hn Hx Hl] He. unfold span_unit, unit_ok.
    assert (forall c, cmemo c = mm ->
              parse_method_body g body [] (push_diags dh c) = (Ok [] (iso_node g mm body), span_fx dh body c)) as Hp.
    { intros c Hc. unfold span_fx. apply (body_frame mm body Hl (push_diags dh c) Hc). }
    assert (forall c, cmemo c = mm -> cmemo (span_fx dh body c) = mm) as Hm.
    { intros c Hc. unfold span_fx. apply (body_frame mm body Hl (push_diags dh c) Hc). }
    destruct isf; cbn [method_header terms_of] in *.
    - destruct Hh as [Hh Hf]. eapply func_span_unit; eauto.
    - destruct Hh as [Hh _]. eapply proc_span_unit; eauto.
  Qed.

  (* ---------- running the loop over a prefix made of closed units ---------- *)

  Lemma run_units mm us post : Forall (unit_ok g mm) us ->
    let file := units_toks us ++ post in
    top_loop g (S (length file)) file [] file (ctx0 mm) =
    top_loop g (S (length file) - length us) file (rev (units_nodes us)) post (units_fx us (ctx0 mm)).
  Proof.
    intros Hu file. pose proof (units_toks_length g mm us Hu) as Hl.
    assert (length us <= length file)%nat as Hl2 by (unfold file; rewrite app_length; lia).
    replace (S (length file)) with (length us + (S (length file) - length us))%nat at 1 by lia.
    unfold file at 3. rewrite (toplevel_concat_loop g mm us Hu) by reflexivity. rewrite app_nil_r. reflexivity.
  Qed.

  Lemma lift_ok f (X : res (list node) * ctx) stmts cf :
    lift_nodes f X = (Ok [] stmts, cf) -> exists l, X = (Ok [] l, cf) /\ stmts = f l.
  Proof. destruct X as [[r l|e m|s|] c]; simpl; intro H; inversion H; subst. eauto. Qed.

  Lemma top_total mm file : (length file <= n)%nat ->
    exists stmts cf, top_loop g (S (length file)) file [] file (ctx0 mm) = (Ok [] stmts, cf).
  Proof.
    intro Hl.
    destruct (top_loop_total n g (good_Wt g n Hg) (good_Ws g n Hg) file (S (length file)) [] file (ctx0 mm)
                (CacheOK_ctx0 mm) Hl (le_n _) (le_n _)) as [stmts Hst].
    destruct (top_loop g (S (length file)) file [] file (ctx0 mm)) as [r cf]. cbn [fst] in Hst. subst r. eauto.
  Qed.

  (* the loop on `post` after a prefix of closed units, normalised: no accumulator, any large fuel *)
  Lemma after_units mm us post : Forall (unit_ok g mm) us ->
    let file := units_toks us ++ post in
    (length file <= n)%nat ->
    exists Npost cf,
      top_loop g (S (length file)) file [] file (ctx0 mm) = (Ok [] (units_nodes us ++ Npost), cf) /\
      forall k, top_loop g (S (length file) - length us + k) file [] post (units_fx us (ctx0 mm)) = (Ok [] Npost, cf).
  Proof.
    intros Hu file Hl. destruct (top_total mm file Hl) as (stmts & cf & E).
    pose proof (run_units mm us post Hu) as R. cbv zeta in R. fold file in R. rewrite E in R.
    rewrite (top_loop_acc0 g _ file (rev (units_nodes us)) post) in R. symmetry in R.
    apply lift_ok in R as (l & El & ->). rewrite rev_involutive in E.
    exists l, cf. split; [exact E|]. intro k.
    rewrite top_loop_fuel_mono; [exact El|]. rewrite El. discriminate.
  Qed.

  (* ---------- toplevel_concat ---------- *)

  Theorem toplevel_concat mm us post : Forall (unit_ok g mm) us ->
    (length (units_toks us ++ post) <= n)%nat ->
    exists Npost cf f0,
      top_loop g (S (length (units_toks us ++ post))) (units_toks us ++ post) [] (units_toks us ++ post) (ctx0 mm)
        = (Ok [] (units_nodes us ++ Npost), cf) /\
      top_loop g (S (length (units_toks us))) (units_toks us) [] (units_toks us) (ctx0 mm)
        = (Ok [] (units_nodes us), units_fx us (ctx0 mm)) /\
      (forall k, top_loop g (f0 + k) (units_toks us ++ post) [] post (units_fx us (ctx0 mm)) = (Ok [] Npost, cf)) /\
      exists Dpost, cdiags cf = Dpost ++ cdiags (units_fx us (ctx0 mm)).
  Proof.
    intros Hu Hl. destruct (after_units mm us post Hu Hl) as (Npost & cf & E1 & E2).
    exists Npost, cf, (S (length (units_toks us ++ post)) - length us)%nat. split; [exact E1|]. split; [|split; [exact E2|]].
    - pose proof (run_units mm us [] Hu) as R. cbv zeta in R. rewrite app_nil_r in R. rewrite R.
      pose proof (units_toks_length g mm us Hu).
      destruct (S (length (units_toks us)) - length us)%nat as [|f] eqn:Ef; [lia|].
      cbn [top_loop]. rewrite rev_involutive. reflexivity.
    - specialize (E2 0%nat).
      assert (Km (units_fx us (ctx0 mm)) (units_fx us (ctx0 mm))) as HK by reflexivity.
      destruct (top_loop_Fr g (good_Ft g n Hg) (good_Fs g n Hg) (units_toks us ++ post)
                  (S (length (units_toks us ++ post)) - length us + 0) [] post _ _ HK)
        as (r & c1 & d1 & X1 & X2 & _ & (new & F1 & _)).
      rewrite E2 in X1. inversion X1; subst. exists new. exact F1.
  Qed.

  (* ---------- C09_local ---------- *)

  Lemma units_nodes_app us1 us2 : units_nodes (us1 ++ us2) = units_nodes us1 ++ units_nodes us2.
  Proof. unfold units_nodes. apply map_app. Qed.

  Theorem local_edit mm us isf hdr h dh body body' endtok post :
    Forall (unit_ok g mm) us ->
    span_ok isf hdr h dh body -> span_ok isf hdr h dh body' -> is_term (terms_of isf) endtok = true ->
    let file := units_toks us ++ (hdr ++ body ++ [endtok]) ++ post in
    let file' := units_toks us ++ (hdr ++ body' ++ [endtok]) ++ post in
    (length file <= n)%nat -> (length file' <= n)%nat ->
    exists Npost Dpost cf cf',
      top_loop g (S (length file)) file [] file (ctx0 mm)
        = (Ok [] (units_nodes us ++ span_node h (iso_node g mm body) endtok :: Npost), cf) /\
      top_loop g (S (length file')) file' [] file' (ctx0 mm)
        = (Ok [] (units_nodes us ++ span_node h (iso_node g mm body') endtok :: Npost), cf') /\
      cdiags cf = Dpost ++ iso_diags g mm body ++ dh ++ cdiags (units_fx us (ctx0 mm)) /\
      cdiags cf' = Dpost ++ iso_diags g mm body' ++ dh ++ cdiags (units_fx us (ctx0 mm)).
  Proof.
    intros Hu Hs Hs' He file file' Hl Hl'.
    set (uM := span_unit mm hdr h dh body endtok). set (uM' := span_unit mm hdr h dh body' endtok).
    assert (Forall (unit_ok g mm) (us ++ [uM])) as Hu1
      by (apply Forall_app; split; [exact Hu|constructor; [apply (span_unit_ok mm isf); assumption|constructor]]).
    assert (Forall (unit_ok g mm) (us ++ [uM'])) as Hu1'
      by (apply Forall_app; split; [exact Hu|constructor; [apply (span_unit_ok mm isf); assumption|constructor]]).
    assert (file = units_toks (us ++ [uM]) ++ post) as Ef
      by (unfold file; rewrite units_toks_app; cbn [units_toks uM span_unit]; rewrite app_nil_r; repeat rewrite <- app_assoc; reflexivity).
    assert (file' = units_toks (us ++ [uM']) ++ post) as Ef'
      by (unfold file'; rewrite units_toks_app; cbn [units_toks uM' span_unit]; rewrite app_nil_r; repeat rewrite <- app_assoc; reflexivity).
    rewrite Ef in Hl. rewrite Ef' in Hl'.
    destruct (after_units mm (us ++ [uM]) post Hu1 Hl) as (Np & cf & E1 & E2).
    destruct (after_units mm (us ++ [uM']) post Hu1' Hl') as (Np' & cf' & E1' & E2').
    rewrite <- Ef in E1, E2. rewrite <- Ef' in E1', E2'.
    set (f := (S (length file) - length (us ++ [uM]))%nat) in *.
    set (f' := (S (length file') - length (us ++ [uM']))%nat) in *.
    specialize (E2 f'). specialize (E2' f). rewrite (Nat.add_comm f' f) in E2'.
    assert (last_tok file' = last_tok file) as Hw.
    { unfold file, file'.
      replace (units_toks us ++ (hdr ++ body' ++ [endtok]) ++ post) with ((units_toks us ++ hdr ++ body') ++ endtok :: post)
        by (repeat rewrite <- app_assoc; reflexivity).
      replace (units_toks us ++ (hdr ++ body ++ [endtok]) ++ post) with ((units_toks us ++ hdr ++ body) ++ endtok :: post)
        by (repeat rewrite <- app_assoc; reflexivity).
      rewrite !last_tok_app_cons. reflexivity. }
    rewrite (top_loop_whole g file' file Hw) in E2'.
    rewrite !units_fx_app in E2, E2'. cbn [units_fx uM uM' span_unit] in E2, E2'.
    set (c1 := units_fx us (ctx0 mm)) in *.
    assert (cmemo c1 = mm) as Hm1 by (apply (units_fx_memo g mm us Hu); reflexivity).
    destruct Hs as [_ _ _ _ Hlen]. destruct Hs' as [_ _ _ _ Hlen'].
    assert (Km (span_fx dh body c1) (span_fx dh body' c1)) as HK.
    { unfold Km, span_fx.
      destruct (body_frame mm body Hlen (push_diags dh c1) Hm1) as (_ & _ & M1).
      destruct (body_frame mm body' Hlen' (push_diags dh c1) Hm1) as (_ & _ & M2). congruence. }
    destruct (top_loop_Fr g (good_Ft g n Hg) (good_Fs g n Hg) file (f + f') [] post _ _ HK)
      as (r & x1 & y1 & X1 & X2 & _ & (new & F1 & F2)).
    rewrite E2 in X1. rewrite E2' in X2. inversion X1; subst r x1. inversion X2; subst Np' y1.
    exists Np, new, cf, cf'.
    rewrite units_nodes_app in E1, E1'. cbn [units_nodes map uM uM' span_unit fst snd] in E1, E1'.
    rewrite <- app_assoc in E1, E1'. cbn [app] in E1, E1'.
    split; [exact E1|]. split; [exact E1'|].
    rewrite F1, F2. rewrite !(span_fx_diags mm) by assumption. split; reflexivity.
  Qed.

  (* ---------- C09_missing_end ---------- *)

  Theorem missing_end mm us isf hdr h dh body :
    Forall (unit_ok g mm) us -> span_ok isf hdr h dh body ->
    let file := units_toks us ++ hdr ++ body in
    (length file <= n)%nat ->
    exists cb,
      cdiags cb = iso_diags g mm body ++ dh ++ cdiags (units_fx us (ctx0 mm)) /\
      top_loop g (S (length file)) file [] file (ctx0 mm)
        = (Ok [] (units_nodes us ++ [open_node h (iso_node g mm body)]),
           add_diag (mkDiag (trange (h_first h)) (missing_msg isf)) cb).
  Proof.
    intros Hu [Hh Hb Hn Hx Hlen] file Hl.
    set (c1 := units_fx us (ctx0 mm)).
    assert (cmemo c1 = mm) as Hm1 by (apply (units_fx_memo g mm us Hu); reflexivity).
    exists (span_fx dh body c1). split; [apply span_fx_diags; assumption|].
    pose proof (run_units mm us (hdr ++ body) Hu) as R. cbv zeta in R. fold file in R. fold c1 in R. rewrite R.
    destruct (body_frame mm body Hlen (push_diags dh c1) Hm1) as (Eb & _ & _). fold (span_fx dh body c1) in Eb.
    pose proof (units_toks_length g mm us Hu) as Hul.
    assert (hdr <> []) as Hne.
    { destruct isf; cbn [method_header] in Hh; [destruct Hh as (_ & t & hdr' & -> & _); discriminate|tauto]. }
    assert (2 <= S (length file) - length us)%nat as Hf.
    { unfold file. rewrite !app_length. destruct hdr; [congruence|cbn [length]; lia]. }
    destruct (S (length file) - length us)%nat as [|[|f]]; try lia.
    cbn [top_loop]. destruct (hdr ++ body) as [|t0 l0] eqn:Ehb; [destruct hdr; [congruence|discriminate]|].
    rewrite <- Ehb. unfold top_block_parsers, alt. cbn [alt_go].
    destruct isf; cbn [method_header terms_of missing_msg] in *.
    - destruct Hh as (Hh & t & hdr' & -> & Ht).
      pose proof (proc_decl_fails_on_func g t (hdr' ++ body) c1 Ht) as Hf1.
      pose proof (method_open_func g (t :: hdr') h dh body c1 _ _ Hh Hb Hn Hx Eb) as Ho.
      cbn [app] in Hf1, Ho |- *. rewrite Hf1, Ho. cbn [rev]. rewrite rev_involutive. reflexivity.
    - destruct Hh as [Hh _].
      rewrite (method_open_proc g hdr h dh body c1 _ _ Hh Hb Hn Hx Eb).
      cbn [rev]. rewrite rev_involutive. reflexivity.
  Qed.
End Local.
