(* Round-trip reasoning about the parser model: what a parser DOES on an input of a known shape.
   [Parses p i rest a]: on input [i], from any context with memoisation switched off, [p] succeeds,
   leaves [rest], returns [a], and changes nothing in the context except the evaluation log and the (unused) cache (no
   diagnostic is added -- also not by the alternatives that failed on the way).
   [Fails p i] / [FailsAt p i e]: [p] fails (at error position [e]) just as quietly.
   One lemma per combinator of Model/PComb.v; the grammar lemmas are in ExprRT.v / StmtRT.v.

   Memoisation: the statements are about contexts with [cmemo = false], where [memo k p] behaves as
   [p] (up to the evaluation log).  That memoisation is invisible (same trees, same diagnostics with
   the caches on) is property C07; C06's theorems are about the un-memoised grammar. *)
From GoldV Require Import Base Tokens Lexer AstKinds Tree Strings PComb Grammar.
From Coq Require Import Lia.

Definition quiet (c c' : ctx) : Prop :=
  cdiags c' = cdiags c /\ cmemo c' = cmemo c.

Lemma quiet_refl c : quiet c c.
Proof. repeat split. Qed.

Lemma quiet_trans c1 c2 c3 : quiet c1 c2 -> quiet c2 c3 -> quiet c1 c3.
Proof. intros (A & B) (D & E). repeat split; congruence. Qed.

Lemma quiet_memo c c' : cmemo c = false -> quiet c c' -> cmemo c' = false.
Proof. intros H (_ & M). congruence. Qed.

Definition Run {A} (p : P A) (i : input) (Q : res A -> Prop) : Prop :=
  forall c, cmemo c = false -> exists r c', p i c = (r, c') /\ quiet c c' /\ Q r.

Definition Parses {A} (p : P A) (i rest : input) (a : A) : Prop := Run p i (fun r => r = Ok rest a).
Definition FailsAt {A} (p : P A) (i e : input) : Prop := Run p i (fun r => exists m, r = Err e m).
Definition Fails {A} (p : P A) (i : input) : Prop := Run p i (fun r => exists e m, r = Err e m).

Lemma FailsAt_Fails {A} (p : P A) i e : FailsAt p i e -> Fails p i.
Proof. intros H c Hc. destruct (H c Hc) as (r & c' & E & Q & m & ->). eauto 8. Qed.

Lemma Parses_ext {A} (p q : P A) i rest a : (forall i c, p i c = q i c) -> Parses p i rest a -> Parses q i rest a.
Proof. intros E H c Hc. rewrite <- E. apply H; exact Hc. Qed.

(* what Parses gives for one concrete context *)
Lemma Parses_run {A} (p : P A) i rest a c : Parses p i rest a -> cmemo c = false ->
  exists c', p i c = (Ok rest a, c') /\ quiet c c'.
Proof. intros H Hc. destruct (H c Hc) as (r & c' & E & Q & ->). eauto. Qed.

Lemma Parses_fun {A} (p : P A) i r1 a1 r2 a2 : Parses p i r1 a1 -> Parses p i r2 a2 -> r1 = r2 /\ a1 = a2.
Proof.
  intros H1 H2. destruct (Parses_run _ _ _ _ (ctx0 false) H1 eq_refl) as (c1 & E1 & _).
  destruct (Parses_run _ _ _ _ (ctx0 false) H2 eq_refl) as (c2 & E2 & _).
  rewrite E1 in E2. inversion E2; auto.
Qed.

(* ---------- monad ---------- *)

Lemma Parses_ret {A} (a : A) i : Parses (ret a) i i a.
Proof. intros c Hc. exists (Ok i a), c. repeat split. Qed.

Lemma FailsAt_fail {A} m i : FailsAt (@fail A m) i i.
Proof. intros c Hc. exists (Err i m), c. repeat split. eauto. Qed.

Lemma Parses_bind {A B} (p : P A) (k : A -> P B) i r a r' b :
  Parses p i r a -> Parses (k a) r r' b -> Parses (bind p k) i r' b.
Proof.
  intros Hp Hk c Hc. destruct (Hp c Hc) as (x & c1 & E & Q & ->).
  destruct (Hk c1 (quiet_memo _ _ Hc Q)) as (y & c2 & E2 & Q2 & ->).
  exists (Ok r' b), c2. unfold bind. rewrite E, E2. repeat split; try apply (quiet_trans _ _ _ Q Q2).
Qed.

Lemma FailsAt_bind_l {A B} (p : P A) (k : A -> P B) i e : FailsAt p i e -> FailsAt (bind p k) i e.
Proof.
  intros Hp c Hc. destruct (Hp c Hc) as (x & c1 & E & Q & m & ->).
  exists (Err e m), c1. unfold bind. rewrite E. repeat split; try apply Q. eauto.
Qed.

Lemma Fails_bind_l {A B} (p : P A) (k : A -> P B) i : Fails p i -> Fails (bind p k) i.
Proof.
  intros Hp c Hc. destruct (Hp c Hc) as (x & c1 & E & Q & e & m & ->).
  exists (Err e m), c1. unfold bind. rewrite E. repeat split; try apply Q. eauto.
Qed.

Lemma FailsAt_bind_r {A B} (p : P A) (k : A -> P B) i r a e :
  Parses p i r a -> FailsAt (k a) r e -> FailsAt (bind p k) i e.
Proof.
  intros Hp Hk c Hc. destruct (Hp c Hc) as (x & c1 & E & Q & ->).
  destruct (Hk c1 (quiet_memo _ _ Hc Q)) as (y & c2 & E2 & Q2 & m & ->).
  exists (Err e m), c2. unfold bind. rewrite E, E2. repeat split; try apply (quiet_trans _ _ _ Q Q2). eauto.
Qed.

Lemma Fails_bind_r {A B} (p : P A) (k : A -> P B) i r a :
  Parses p i r a -> Fails (k a) r -> Fails (bind p k) i.
Proof.
  intros Hp Hk c Hc. destruct (Hp c Hc) as (x & c1 & E & Q & ->).
  destruct (Hk c1 (quiet_memo _ _ Hc Q)) as (y & c2 & E2 & Q2 & e & m & ->).
  exists (Err e m), c2. unfold bind. rewrite E, E2. repeat split; try apply (quiet_trans _ _ _ Q Q2). eauto.
Qed.

Lemma Parses_pmap {A B} (f : A -> B) (p : P A) i r a : Parses p i r a -> Parses (pmap f p) i r (f a).
Proof. intro H. unfold pmap. eapply Parses_bind; [exact H|apply Parses_ret]. Qed.

Lemma Parses_prepend {A} pre (p : P A) i r a : Parses p i r a -> Parses (prepend pre p) i r a.
Proof.
  intros Hp c Hc. destruct (Hp c Hc) as (x & c1 & E & Q & ->).
  exists (Ok r a), c1. unfold prepend. rewrite E. repeat split; apply Q.
Qed.

Lemma FailsAt_prepend {A} pre (p : P A) i e : FailsAt p i e -> FailsAt (prepend pre p) i e.
Proof.
  intros Hp c Hc. destruct (Hp c Hc) as (x & c1 & E & Q & m & ->).
  exists (Err e (pre ++ m)), c1. unfold prepend. rewrite E. repeat split; try apply Q. eauto.
Qed.

Lemma Fails_prepend {A} pre (p : P A) i : Fails p i -> Fails (prepend pre p) i.
Proof.
  intros Hp c Hc. destruct (Hp c Hc) as (x & c1 & E & Q & e & m & ->).
  exists (Err e (pre ++ m)), c1. unfold prepend. rewrite E. repeat split; try apply Q. eauto.
Qed.

Lemma Parses_peek i : Parses peek_input i i i.
Proof. intros c Hc. exists (Ok i i), c. repeat split. Qed.

(* ---------- optional parts ---------- *)

Lemma Parses_opt_some {A} (p : P A) i r a : Parses p i r a -> Parses (opt p) i r (Some a).
Proof.
  intros Hp c Hc. destruct (Hp c Hc) as (x & c1 & E & Q & ->).
  exists (Ok r (Some a)), c1. unfold opt. rewrite E. repeat split; apply Q.
Qed.

Lemma Parses_opt_none {A} (p : P A) i : Fails p i -> Parses (opt p) i i None.
Proof.
  intros Hp c Hc. destruct (Hp c Hc) as (x & c1 & E & Q & e & m & ->).
  exists (Ok i None), c1. unfold opt. rewrite E. repeat split; apply Q.
Qed.

Lemma Parses_rae_some {A} (p : P A) i r a : Parses p i r a -> Parses (recover_at_error p) i r (Some a).
Proof.
  intros Hp c Hc. destruct (Hp c Hc) as (x & c1 & E & Q & ->).
  exists (Ok r (Some a)), c1. unfold recover_at_error. rewrite E. repeat split; apply Q.
Qed.

Lemma Parses_rae_none {A} (p : P A) i e : FailsAt p i e -> Parses (recover_at_error p) i e None.
Proof.
  intros Hp c Hc. destruct (Hp c Hc) as (x & c1 & E & Q & m & ->).
  exists (Ok e None), c1. unfold recover_at_error. rewrite E. repeat split; apply Q.
Qed.

(* ---------- tokens ---------- *)

(* the type of the first token that is not a comment *)
Fixpoint hd_ty (l : input) : option ttype :=
  match l with
  | [] => None
  | t :: l' => if is_comment t then hd_ty l' else Some (tty t)
  end.

Lemma tt_eqb_refl t : tt_eqb t t = true.
Proof. apply tt_eqb_eq. reflexivity. Qed.

Lemma tt_eqb_neq a b : a <> b -> tt_eqb a b = false.
Proof. intro H. destruct (tt_eqb a b) eqn:E; [apply tt_eqb_eq in E; contradiction|reflexivity]. Qed.

Lemma hd_ty_cons t l : tty t <> TComment -> hd_ty (t :: l) = Some (tty t).
Proof. intro H. simpl. unfold is_comment. rewrite (tt_eqb_neq _ _ H). reflexivity. Qed.

Lemma exp_token_ok ty t r : tty t = ty -> Parses (exp_token ty) (t :: r) r t.
Proof.
  intros H c Hc. exists (Ok r t), c. unfold exp_token. simpl. rewrite H, tt_eqb_refl. repeat split.
Qed.

Lemma exp_token_go_fail ty orig l : ty <> TComment -> hd_ty l <> Some ty -> exists m, exp_token_go ty orig l = Err orig m.
Proof.
  intro Hty. induction l as [|t l IH]; simpl; intro H; [eauto|].
  destruct (tt_eqb (tty t) ty) eqn:E.
  - apply tt_eqb_eq in E. unfold is_comment in H. rewrite E, (tt_eqb_neq _ _ Hty) in H. congruence.
  - destruct (is_comment t); [apply IH; exact H|eauto].
Qed.

Lemma exp_token_fail ty i : ty <> TComment -> hd_ty i <> Some ty -> FailsAt (exp_token ty) i i.
Proof.
  intros Hty H c Hc. destruct (exp_token_go_fail ty i i Hty H) as [m E].
  exists (Err i m), c. unfold exp_token. rewrite E. repeat split. eauto.
Qed.

(* expecting a comment: fails at once on any other first token *)
Lemma exp_comment_fail t r : tty t <> TComment -> FailsAt (exp_token TComment) (t :: r) (t :: r).
Proof.
  intros H c Hc. unfold exp_token. simpl. unfold is_comment. rewrite (tt_eqb_neq _ _ H).
  eexists _, c. repeat split. eauto.
Qed.

(* ---------- alternatives ---------- *)

Lemma alt_go_here {A} (p : P A) ps best i rest a : Parses p i rest a -> Parses (alt_go (p :: ps) best) i rest a.
Proof.
  intros Hp c Hc. destruct (Hp c Hc) as (x & c1 & E & Q & ->).
  exists (Ok rest a), c1. simpl. rewrite E. repeat split; apply Q.
Qed.

Lemma alt_go_skip {A} (p : P A) ps best i rest a :
  Fails p i -> (forall best', Parses (alt_go ps best') i rest a) -> Parses (alt_go (p :: ps) best) i rest a.
Proof.
  intros Hp Hk c Hc. destruct (Hp c Hc) as (x & c1 & E & Q & e & m & ->).
  simpl. rewrite E.
  match goal with |- context [alt_go ps ?b] => destruct (Hk b c1 (quiet_memo _ _ Hc Q)) as (y & c2 & E2 & Q2 & ->) end.
  eexists _, c2. split; [exact E2|]. split; [apply (quiet_trans _ _ _ Q Q2)|reflexivity].
Qed.

Lemma alt_go_fails {A} (ps : list (P A)) i : Forall (fun p => Fails p i) ps ->
  forall best, (ps <> [] \/ best <> None) -> Fails (alt_go ps best) i.
Proof.
  induction 1 as [|p ps Hp Hps IH]; intros best Hne c Hc.
  - simpl. destruct best as [[e m]|]; [|destruct Hne; congruence].
    eexists _, c. repeat split. eauto.
  - destruct (Hp c Hc) as (x & c1 & E & Q & e & m & ->). simpl. rewrite E.
    match goal with |- context [alt_go ps ?b] =>
      destruct (IH b ltac:(right; destruct best as [[be bm]|]; [destruct (ilen e <? ilen be)|]; discriminate)
                   c1 (quiet_memo _ _ Hc Q)) as (y & c2 & E2 & Q2 & HQ) end.
    eexists _, c2. split; [exact E2|]. split; [apply (quiet_trans _ _ _ Q Q2)|exact HQ].
Qed.

Lemma alt_fails {A} (ps : list (P A)) i : ps <> [] -> Forall (fun p => Fails p i) ps -> Fails (alt ps) i.
Proof. intros Hne H. unfold alt. apply alt_go_fails; auto. Qed.

(* all alternatives fail at the input itself: so does alt *)
Lemma alt_go_failsat {A} (ps : list (P A)) i : Forall (fun p => FailsAt p i i) ps ->
  forall best, (ps <> [] \/ best <> None) -> (match best with Some (e, _) => e = i | None => True end) ->
  FailsAt (alt_go ps best) i i.
Proof.
  induction 1 as [|p ps Hp Hps IH]; intros best Hne Hb c Hc.
  - simpl. destruct best as [[e m]|]; [|destruct Hne; congruence]. subst e.
    eexists _, c. repeat split. eauto.
  - destruct (Hp c Hc) as (x & c1 & E & Q & m & ->). simpl. rewrite E.
    match goal with |- context [alt_go ps ?b] =>
      destruct (IH b ltac:(right; destruct best as [[be bm]|]; [destruct (ilen i <? ilen be)|]; discriminate)
                   ltac:(destruct best as [[be bm]|]; [destruct (ilen i <? ilen be)|]; auto)
                   c1 (quiet_memo _ _ Hc Q)) as (y & c2 & E2 & Q2 & HQ) end.
    eexists _, c2. split; [exact E2|]. split; [apply (quiet_trans _ _ _ Q Q2)|exact HQ].
Qed.

Lemma alt_failsat {A} (ps : list (P A)) i : ps <> [] -> Forall (fun p => FailsAt p i i) ps -> FailsAt (alt ps) i i.
Proof. intros Hne H. unfold alt. apply alt_go_failsat; auto. Qed.

(* tok_alt *)
Lemma tok_alt_go_ok tys t r : In (tty t) tys -> tty t <> TComment ->
  forall best, Parses (alt_go (map exp_token tys) best) (t :: r) r t.
Proof.
  intros Hin Hc. induction tys as [|ty tys IH]; [destruct Hin|]. intro best. cbn [map].
  destruct (tt_eqb (tty t) ty) eqn:E.
  - apply tt_eqb_eq in E. apply alt_go_here. apply exp_token_ok. exact E.
  - assert (tty t <> ty) as Hne by (intro X; rewrite X, tt_eqb_refl in E; discriminate).
    apply alt_go_skip.
    + intros c Hcc. unfold exp_token. cbn [exp_token_go]. rewrite E. unfold is_comment. rewrite (tt_eqb_neq _ _ Hc).
      eexists _, c. repeat split. eauto.
    + intro best'. apply IH. destruct Hin as [X|X]; [congruence|exact X].
Qed.

Lemma tok_alt_ok tys t r : In (tty t) tys -> tty t <> TComment -> Parses (tok_alt tys) (t :: r) r t.
Proof. intros. unfold tok_alt, alt. apply tok_alt_go_ok; assumption. Qed.

Lemma tok_alt_failsat tys i : tys <> [] -> ~ In TComment tys ->
  (forall ty, hd_ty i = Some ty -> ~ In ty tys) -> FailsAt (tok_alt tys) i i.
Proof.
  intros Hne Hc H. unfold tok_alt. apply alt_failsat; [destruct tys; [congruence|discriminate]|].
  apply Forall_forall. intros p Hp. apply in_map_iff in Hp as (ty & <- & Hin).
  apply exp_token_fail.
  - intro X. subst. contradiction.
  - intro X. apply (H ty X Hin).
Qed.

Lemma tok_alt_fails tys i : tys <> [] -> ~ In TComment tys ->
  (forall ty, hd_ty i = Some ty -> ~ In ty tys) -> Fails (tok_alt tys) i.
Proof. intros. eapply FailsAt_Fails. apply tok_alt_failsat; assumption. Qed.

(* ---------- memoisation (switched off) ---------- *)

Lemma get_cache_off k n c : cmemo c = false -> get_cache k n c = None.
Proof. intro H. unfold get_cache. rewrite H. reflexivity. Qed.

Lemma quiet_set_cache k n r c : cmemo c = false -> quiet c (set_cache k n r c).
Proof. intro H. unfold set_cache, quiet. simpl. auto. Qed.

Lemma Run_memo k (p : P node) i (Q : res node -> Prop) :
  (forall s, ~ Q (Panic s)) -> ~ Q NoFuel -> Run p i Q -> Run (memo k p) i Q.
Proof.
  intros Hnp Hnf Hp c Hc. destruct (Hp c Hc) as (x & c1 & E & Qc & HQ).
  unfold memo. rewrite (get_cache_off _ _ _ Hc), E.
  destruct x as [r a|e m|s|].
  - eexists _, _. split; [reflexivity|]. split; [|exact HQ].
    eapply quiet_trans; [exact Qc|apply quiet_set_cache; apply (quiet_memo _ _ Hc Qc)].
  - eexists _, _. split; [reflexivity|]. split; [|exact HQ].
    eapply quiet_trans; [exact Qc|apply quiet_set_cache; apply (quiet_memo _ _ Hc Qc)].
  - destruct (Hnp _ HQ).
  - destruct (Hnf HQ).
Qed.

Lemma Parses_memo k (p : P node) i r a : Parses p i r a -> Parses (memo k p) i r a.
Proof. apply Run_memo; [intros s X|intro X]; discriminate. Qed.
Lemma FailsAt_memo k (p : P node) i e : FailsAt p i e -> FailsAt (memo k p) i e.
Proof. apply Run_memo; [intros s [m X]|intros [m X]]; discriminate. Qed.
Lemma Fails_memo k (p : P node) i : Fails p i -> Fails (memo k p) i.
Proof. apply Run_memo; [intros s (e & m & X)|intros (e & m & X)]; discriminate. Qed.

Lemma Run_memo_ok_only k (p : P node) i (Q : res node -> Prop) : Run p i Q -> Run (memo_ok_only k p) i Q.
Proof.
  intros Hp c Hc. destruct (Hp c Hc) as (x & c1 & E & Qc & HQ).
  unfold memo_ok_only. rewrite (get_cache_off _ _ _ Hc), E.
  destruct x as [r a|e m|s|]; eexists _, _; (split; [reflexivity|]); (split; [|exact HQ]); try exact Qc.
  all: try (eapply quiet_trans; [exact Qc|apply quiet_set_cache; apply (quiet_memo _ _ Hc Qc)]).
Qed.

Lemma Parses_memo_ok_only k (p : P node) i r a : Parses p i r a -> Parses (memo_ok_only k p) i r a.
Proof. apply Run_memo_ok_only. Qed.
Lemma FailsAt_memo_ok_only k (p : P node) i e : FailsAt p i e -> FailsAt (memo_ok_only k p) i e.
Proof. apply Run_memo_ok_only. Qed.
Lemma Fails_memo_ok_only k (p : P node) i : Fails p i -> Fails (memo_ok_only k p) i.
Proof. apply Run_memo_ok_only. Qed.

(* ---------- binary operator chains ---------- *)

Lemma binops_go_step f (opp : P tok) (ep : P node) left i r op r2 rn rest a :
  Parses opp i r op -> Parses ep r r2 rn ->
  Parses (binops_go f opp ep (mk_binop op left rn)) r2 rest a ->
  Parses (binops_go (S f) opp ep left) i rest a.
Proof.
  intros Ho He Hk c Hc. destruct (Ho c Hc) as (x & c1 & E1 & Q1 & ->).
  destruct (He c1 (quiet_memo _ _ Hc Q1)) as (y & c2 & E2 & Q2 & ->).
  pose proof (quiet_trans _ _ _ Q1 Q2) as Q12.
  destruct (Hk c2 (quiet_memo _ _ Hc Q12)) as (z & c3 & E3 & Q3 & ->).
  eexists _, c3. cbn [binops_go]. rewrite E1, E2. split; [exact E3|]. split; [apply (quiet_trans _ _ _ Q12 Q3)|reflexivity].
Qed.

Lemma binops_go_stop f (opp : P tok) (ep : P node) left i :
  Fails opp i -> Parses (binops_go (S f) opp ep left) i i left.
Proof.
  intros Ho c Hc. destruct (Ho c Hc) as (x & c1 & E1 & Q1 & e & m & ->).
  eexists _, c1. cbn [binops_go]. rewrite E1. repeat split; apply Q1.
Qed.

Lemma binops_intro (opp : P tok) (ep : P node) i r ln rest a :
  Parses ep i r ln -> Parses (binops_go (S (length r)) opp ep ln) r rest a -> Parses (binops opp ep) i rest a.
Proof.
  intros He Hk c Hc. destruct (He c Hc) as (x & c1 & E1 & Q1 & ->).
  destruct (Hk c1 (quiet_memo _ _ Hc Q1)) as (z & c3 & E3 & Q3 & ->).
  eexists _, c3. unfold binops. rewrite E1. split; [exact E3|]. split; [apply (quiet_trans _ _ _ Q1 Q3)|reflexivity].
Qed.

Lemma binops_failsat (opp : P tok) (ep : P node) i e : FailsAt ep i e -> FailsAt (binops opp ep) i e.
Proof.
  intros He c Hc. destruct (He c Hc) as (x & c1 & E1 & Q1 & m & ->).
  eexists _, c1. unfold binops. rewrite E1. repeat split; try apply Q1. eauto.
Qed.

Lemma binops_fails (opp : P tok) (ep : P node) i : Fails ep i -> Fails (binops opp ep) i.
Proof.
  intros He c Hc. destruct (He c Hc) as (x & c1 & E1 & Q1 & e & m & ->).
  eexists _, c1. unfold binops. rewrite E1. repeat split; try apply Q1. eauto.
Qed.

(* a single operand, no operator following *)
Lemma binops_single (opp : P tok) (ep : P node) i r n :
  Parses ep i r n -> Fails opp r -> Parses (binops opp ep) i r n.
Proof. intros He Ho. eapply binops_intro; [exact He|apply binops_go_stop; exact Ho]. Qed.

(* ---------- first tokens ---------- *)

(* the first non-comment token of [i] is not of a type in [F] (or there is none) *)
Definition nostart (F : list ttype) (i : input) : Prop :=
  forall ty, hd_ty i = Some ty -> ~ In ty F.

Definition mem_ty (t : ttype) (l : list ttype) : bool := existsb (tt_eqb t) l.

Lemma mem_ty_In t l : mem_ty t l = true <-> In t l.
Proof.
  unfold mem_ty. rewrite existsb_exists. split.
  - intros (x & Hx & E). apply tt_eqb_eq in E. subst. exact Hx.
  - intro H. exists t. split; [exact H|apply tt_eqb_refl].
Qed.

Lemma mem_ty_false t l : mem_ty t l = false -> ~ In t l.
Proof. intros H X. apply mem_ty_In in X. congruence. Qed.

(* no type of S is in F *)
Definition disj_b (S F : list ttype) : bool := forallb (fun x => negb (mem_ty x F)) S.

Lemma disj_b_spec S F x : disj_b S F = true -> In x S -> ~ In x F.
Proof.
  intros H Hx. unfold disj_b in H. rewrite forallb_forall in H. specialize (H x Hx).
  apply mem_ty_false. destruct (mem_ty x F); [discriminate|reflexivity].
Qed.

Lemma nostart_sub F G i : (forall x, In x G -> In x F) -> nostart F i -> nostart G i.
Proof. intros H Hn ty Hh X. apply (Hn ty Hh). apply H. exact X. Qed.

Lemma nostart_app F G i : nostart F i -> nostart G i -> nostart (F ++ G) i.
Proof. intros H1 H2 ty Hh X. apply in_app_or in X as [X|X]; [apply (H1 ty Hh X)|apply (H2 ty Hh X)]. Qed.

Lemma nostart_nil F : nostart F [].
Proof. intros ty H. discriminate. Qed.

Lemma starts_nostart S F t r : In (tty t) S -> disj_b S (TComment :: F) = true -> nostart F (t :: r).
Proof.
  intros Hin Hd ty Hh X.
  pose proof (disj_b_spec _ _ _ Hd Hin) as Hn.
  rewrite hd_ty_cons in Hh by (intro E; apply Hn; left; congruence).
  inversion Hh; subst. apply Hn. right. exact X.
Qed.

Lemma nostart_one_neq ty t r : tty t <> TComment -> tty t <> ty -> nostart [ty] (t :: r).
Proof. intros Hc Hn x Hh [X|[]]. rewrite hd_ty_cons in Hh by exact Hc. congruence. Qed.

Lemma exp_token_nostart ty i : ty <> TComment -> nostart [ty] i -> FailsAt (exp_token ty) i i.
Proof. intros Hc H. apply exp_token_fail; [exact Hc|]. intro X. apply (H ty X). left. reflexivity. Qed.

Lemma tok_alt_nostart tys i : tys <> [] -> mem_ty TComment tys = false -> nostart tys i -> FailsAt (tok_alt tys) i i.
Proof. intros Hne Hc H. apply tok_alt_failsat; [exact Hne|apply mem_ty_false; exact Hc|exact H]. Qed.

Lemma tok_alt_in tys t r : In (tty t) tys -> mem_ty TComment tys = false -> Parses (tok_alt tys) (t :: r) r t.
Proof. intros Hin Hc. apply tok_alt_ok; [exact Hin|]. intro X. rewrite X in Hin. apply (mem_ty_false _ _ Hc Hin). Qed.

(* ---------- separated lists ---------- *)

(* a non-empty [sep]-separated list of items derivable by R *)
Inductive Args {A} (sep : ttype) (R : list tok -> A -> Prop) : list tok -> list A -> Prop :=
| Args_one ts n : R ts n -> Args sep R ts [n]
| Args_cons ts n cm ts' ns : R ts n -> tty cm = sep -> Args sep R ts' ns -> Args sep R (ts ++ cm :: ts') (n :: ns).

Lemma Args_mono {A} sep (R R' : list tok -> A -> Prop) ts ns :
  (forall ts n, R ts n -> R' ts n) -> Args sep R ts ns -> Args sep R' ts ns.
Proof. intros H. induction 1; [apply Args_one|apply Args_cons]; auto. Qed.

Lemma Args_length {A} sep (R : list tok -> A -> Prop) ts ns : Args sep R ts ns -> (1 <= length ns)%nat.
Proof. induction 1; simpl; lia. Qed.

Section SepList.
  Variable A : Type.
  Variable p : P A.
  Variable sep : ttype.
  Variable R : list tok -> A -> Prop.
  Variable fol : input -> Prop.
  Hypothesis Hp : forall ts a rest, R ts a -> fol rest -> Parses p (ts ++ rest) rest a.
  Hypothesis Hsep_fol : forall t r, tty t = sep -> fol (t :: r).
  Hypothesis Hsep_c : sep <> TComment.

  Lemma sep_list_rec_args : forall ts ns, Args sep R ts ns -> forall fuel prev acc rest,
    (length ns <= fuel)%nat -> fol rest -> nostart [sep] rest ->
    Parses (sep_list_rec fuel p sep prev acc) (ts ++ rest) rest (rev acc ++ ns).
  Proof.
    induction 1 as [ts n Hn|ts n cm ts' ns Hn Hcm Hrest IH]; intros fuel prev acc rest Hf Hfol Hns c Hc;
      (destruct fuel as [|f]; [simpl in Hf; lia|]); cbn [sep_list_rec].
    - destruct (Parses_run _ _ _ _ c (Hp ts n rest Hn Hfol) Hc) as (c1 & E1 & Q1). rewrite E1.
      destruct (exp_token_nostart sep rest Hsep_c Hns c1 (quiet_memo _ _ Hc Q1)) as (x & c2 & E2 & Q2 & m & ->).
      rewrite E2. eexists _, c2. split; [reflexivity|]. split; [apply (quiet_trans _ _ _ Q1 Q2)|].
      simpl. reflexivity.
    - rewrite <- app_assoc. cbn [app].
      destruct (Parses_run _ _ _ _ c (Hp ts n (cm :: ts' ++ rest) Hn (Hsep_fol _ _ Hcm)) Hc) as (c1 & E1 & Q1). rewrite E1.
      destruct (Parses_run _ _ _ _ c1 (exp_token_ok sep cm (ts' ++ rest) Hcm) (quiet_memo _ _ Hc Q1)) as (c2 & E2 & Q2).
      rewrite E2. pose proof (quiet_trans _ _ _ Q1 Q2) as Q12.
      destruct (IH f cm (n :: acc) rest ltac:(simpl in Hf; lia) Hfol Hns c2 (quiet_memo _ _ Hc Q12)) as (x & c3 & E3 & Q3 & ->).
      eexists _, c3. split; [exact E3|]. split; [apply (quiet_trans _ _ _ Q12 Q3)|].
      simpl. rewrite <- app_assoc. reflexivity.
  Qed.

  Lemma sep_list_args ts ns rest : Args sep R ts ns -> fol rest -> nostart [sep] rest ->
    Parses (sep_list p sep) (ts ++ rest) rest ns.
  Proof.
    intros Ha Hfol Hns c Hc. unfold sep_list.
    destruct Ha as [ts n Hn|ts n cm ts' ns Hn Hcm Hrest].
    - destruct (Parses_run _ _ _ _ c (Hp ts n rest Hn Hfol) Hc) as (c1 & E1 & Q1). rewrite E1.
      destruct (exp_token_nostart sep rest Hsep_c Hns c1 (quiet_memo _ _ Hc Q1)) as (x & c2 & E2 & Q2 & m & ->).
      rewrite E2. eexists _, c2. split; [reflexivity|]. split; [apply (quiet_trans _ _ _ Q1 Q2)|reflexivity].
    - rewrite <- app_assoc. cbn [app].
      destruct (Parses_run _ _ _ _ c (Hp ts n (cm :: ts' ++ rest) Hn (Hsep_fol _ _ Hcm)) Hc) as (c1 & E1 & Q1). rewrite E1.
      destruct (Parses_run _ _ _ _ c1 (exp_token_ok sep cm (ts' ++ rest) Hcm) (quiet_memo _ _ Hc Q1)) as (c2 & E2 & Q2).
      rewrite E2. pose proof (quiet_trans _ _ _ Q1 Q2) as Q12.
      assert (length ns <= S (length (ts' ++ rest)))%nat as Hlen.
      { clear -Hrest. rewrite app_length. induction Hrest as [ts n _|ts n cm ts' ns _ _ _ IH]; simpl; [lia|].
        rewrite app_length. simpl. lia. }
      destruct (sep_list_rec_args ts' ns Hrest _ cm [n] rest Hlen Hfol Hns c2 (quiet_memo _ _ Hc Q12)) as (x & c3 & E3 & Q3 & ->).
      eexists _, c3. split; [exact E3|]. split; [apply (quiet_trans _ _ _ Q12 Q3)|reflexivity].
  Qed.

  Lemma sep_list_empty i e : FailsAt p i e -> Parses (sep_list p sep) i e [].
  Proof.
    intros H c Hc. destruct (H c Hc) as (x & c1 & E & Q & m & ->).
    unfold sep_list. rewrite E. eexists _, c1. repeat split; apply Q.
  Qed.
End SepList.

(* ---------- more about first tokens ---------- *)

Lemma hd_ty_app a b : hd_ty (a ++ b) = match hd_ty a with Some x => Some x | None => hd_ty b end.
Proof. induction a as [|t a IH]; [reflexivity|]. simpl. destruct (is_comment t); [exact IH|reflexivity]. Qed.

Lemma nostart_hd F i j : hd_ty i = hd_ty j -> nostart F i -> nostart F j.
Proof. intros E H ty Hh. apply H. congruence. Qed.

Lemma nostart_comment F c r : tty c = TComment -> nostart F r -> nostart F (c :: r).
Proof.
  intros Hc H. eapply nostart_hd; [|exact H]. simpl. unfold is_comment. rewrite Hc, tt_eqb_refl. reflexivity.
Qed.

(* ---------- loops over items ---------- *)

(* from input [i], [p] parses the items [l] one after the other ([stop] failing in front of each),
   and what then remains is [tail] *)
Inductive Chain {A} (p : P A) (stop : P tok) (tail : input) : input -> list A -> Prop :=
| Ch_nil : Chain p stop tail tail []
| Ch_cons i more a l : i <> [] -> Fails stop i -> Parses p i more a -> Chain p stop tail more l ->
    Chain p stop tail i (a :: l).

Lemma until_go_chain {A} (p : P A) (stop : P tok) tail rest e : tail <> [] -> Parses stop tail rest e ->
  forall i l, Chain p stop tail i l -> forall fuel acc, (length l < fuel)%nat ->
  Parses (until_go fuel stop p acc) i rest (rev acc ++ l, Some e).
Proof.
  intros Hne Hstop i l H. induction H as [|i more a l Hi Hf Hp Hc IH]; intros fuel acc Hfu c Hc0;
    (destruct fuel as [|f]; [simpl in Hfu; lia|]); cbn [until_go].
  - destruct tail as [|t0 tl]; [congruence|].
    destruct (Hstop c Hc0) as (x & c1 & E1 & Q1 & ->). rewrite E1.
    eexists _, c1. split; [reflexivity|]. split; [exact Q1|]. rewrite app_nil_r. reflexivity.
  - destruct i as [|t0 i']; [congruence|].
    destruct (Hf c Hc0) as (x & c1 & E1 & Q1 & e1 & m1 & ->). rewrite E1.
    destruct (Hp c1 (quiet_memo _ _ Hc0 Q1)) as (y & c2 & E2 & Q2 & ->). rewrite E2.
    pose proof (quiet_trans _ _ _ Q1 Q2) as Q12.
    destruct (IH f (a :: acc) ltac:(simpl in Hfu; lia) c2 (quiet_memo _ _ Hc0 Q12)) as (z & c3 & E3 & Q3 & ->).
    eexists _, c3. split; [exact E3|]. split; [apply (quiet_trans _ _ _ Q12 Q3)|].
    simpl. rewrite <- app_assoc. reflexivity.
Qed.

Lemma chain_length {A} (p : P A) stop tail i l : Chain p stop tail i l ->
  (forall i more a, Parses p i more a -> (length more < length i)%nat) -> (length l + length tail <= length i)%nat.
Proof.
  intros H Hs. induction H as [|i more a l Hi Hf Hp Hc IH]; [simpl; lia|].
  specialize (Hs _ _ _ Hp). simpl. lia.
Qed.

Lemma until_chain {A} (p : P A) (stop : P tok) tail rest e i l : tail <> [] -> Parses stop tail rest e ->
  Chain p stop tail i l -> (length l <= length i)%nat ->
  Parses (until_w_ctx stop p) i rest (l, Some e).
Proof.
  intros Hne Hs Hc Hl. unfold until_w_ctx.
  apply (until_go_chain p stop tail rest e Hne Hs i l Hc (S (length i)) []). lia.
Qed.

(* parse_repeat_w_context: runs to the end of the input *)
Lemma repeat_go_chain {A} (p : P A) stop : forall i l, Chain p stop [] i l -> forall fuel acc, (length l < fuel)%nat ->
  Parses (repeat_go fuel p acc) i [] (rev acc ++ l).
Proof.
  intros i l H. remember [] as tail eqn:Et. induction H as [|i more a l Hi Hf Hp Hc IH]; intros fuel acc Hfu c Hc0;
    (destruct fuel as [|f]; [simpl in Hfu; lia|]); cbn [repeat_go].
  - subst. eexists _, c. split; [reflexivity|]. split; [apply quiet_refl|]. rewrite app_nil_r. reflexivity.
  - destruct i as [|t0 i']; [congruence|].
    destruct (Hp c Hc0) as (y & c2 & E2 & Q2 & ->). rewrite E2.
    destruct (IH f (a :: acc) ltac:(simpl in Hfu; lia) c2 (quiet_memo _ _ Hc0 Q2)) as (z & c3 & E3 & Q3 & ->).
    eexists _, c3. split; [exact E3|]. split; [apply (quiet_trans _ _ _ Q2 Q3)|].
    simpl. rewrite <- app_assoc. reflexivity.
Qed.

Lemma repeat_chain {A} (p : P A) stop i l : Chain p stop [] i l -> (length l <= length i)%nat ->
  Parses (repeat_w_ctx p) i [] l.
Proof. intros Hc Hl. unfold repeat_w_ctx. apply (repeat_go_chain p stop i l Hc (S (length i)) []). lia. Qed.

(* ---------- sequences of tokens ---------- *)

Lemma seq_tokens_ok tys : forall ts r, map tty ts = tys -> Parses (seq_tokens tys) (ts ++ r) r ts.
Proof.
  induction tys as [|ty tys IH]; intros ts r H.
  - destruct ts; [|discriminate]. apply Parses_ret.
  - destruct ts as [|t ts]; [discriminate|]. inversion H; subst. cbn [seq_tokens app].
    eapply Parses_bind; [apply exp_token_ok; reflexivity|]. cbv beta.
    eapply Parses_bind; [apply IH; reflexivity|]. cbv beta. apply Parses_ret.
Qed.

Lemma seq_tokens_fail ty tys i : ty <> TComment -> nostart [ty] i -> Fails (seq_tokens (ty :: tys)) i.
Proof. intros Hc H. cbn [seq_tokens]. apply Fails_bind_l. eapply FailsAt_Fails. apply exp_token_nostart; assumption. Qed.

(* ---------- take_until / on_slice ---------- *)

Lemma take_until_go_spec tys body t rest acc :
  Forall (fun x => existsb (tt_eqb (tty x)) tys = false) body -> existsb (tt_eqb (tty t)) tys = true ->
  take_until_go tys (body ++ t :: rest) acc = (rest, rev acc ++ body, Some t).
Proof.
  revert acc. induction body as [|x body IH]; intros acc Hb Ht; simpl.
  - rewrite Ht. rewrite app_nil_r. reflexivity.
  - inversion Hb; subst. rewrite H1. rewrite IH by assumption. simpl. rewrite <- app_assoc. reflexivity.
Qed.

Lemma take_until_ok tys body t rest :
  Forall (fun x => existsb (tt_eqb (tty x)) tys = false) body -> existsb (tt_eqb (tty t)) tys = true ->
  Parses (take_until tys) (body ++ t :: rest) rest (body, Some t).
Proof.
  intros Hb Ht c Hc. unfold take_until. rewrite (take_until_go_spec tys body t rest [] Hb Ht).
  eexists _, c. repeat split.
Qed.

Lemma on_slice_ok {A} (slice : input) (p : P A) i r a : Parses p slice r a -> Parses (on_slice slice p) i i a.
Proof.
  intros H c Hc. destruct (H c Hc) as (x & c1 & E & Q & ->). unfold on_slice. rewrite E.
  eexists _, c1. repeat split; apply Q.
Qed.

Lemma Parses_with_ctx_clear i : Parses (with_ctx clear_cache) i i tt.
Proof. intros c Hc. eexists _, _. split; [reflexivity|]. split; [|reflexivity]. unfold quiet, clear_cache. simpl. auto. Qed.

(* ---------- until_no_match, token lists ---------- *)

Lemma until_no_match_none {A} (p : P A) i : Fails p i -> Parses (until_no_match p) i i [].
Proof.
  intros H c Hc. unfold until_no_match. cbn [until_no_match_go]. destruct i as [|t i'].
  - eexists _, c. repeat split.
  - destruct (H c Hc) as (x & c1 & E & Q & e & m & ->). rewrite E. eexists _, c1. repeat split; apply Q.
Qed.

(* t1 , t2 , t3 *)
Inductive TokList (item sep : ttype) : list tok -> list tok -> Prop :=
| TL_one t : tty t = item -> TokList item sep [t] [t]
| TL_cons t cm ts ids : tty t = item -> tty cm = sep -> TokList item sep ts ids -> TokList item sep (t :: cm :: ts) (t :: ids).

Lemma sep_tokens_go_ok item sep : sep <> TComment -> forall ts ids, TokList item sep ts ids ->
  forall fuel acc more, (length ids <= fuel)%nat -> nostart [sep] more ->
  Parses (sep_tokens_go fuel item sep acc) (ts ++ more) more (rev acc ++ ids).
Proof.
  intros Hs ts ids H. induction H as [t Ht|t cm ts ids Ht Hcm Hrest IH]; intros fuel acc more Hf Hn c Hc;
    (destruct fuel as [|f]; [simpl in Hf; lia|]); cbn [sep_tokens_go app].
  - destruct (Parses_run _ _ _ _ c (exp_token_ok item t more Ht) Hc) as (c1 & E1 & Q1). rewrite E1.
    destruct (exp_token_nostart sep more Hs Hn c1 (quiet_memo _ _ Hc Q1)) as (x & c2 & E2 & Q2 & m & ->). rewrite E2.
    eexists _, c2. split; [reflexivity|]. split; [apply (quiet_trans _ _ _ Q1 Q2)|reflexivity].
  - destruct (Parses_run _ _ _ _ c (exp_token_ok item t (cm :: ts ++ more) Ht) Hc) as (c1 & E1 & Q1). rewrite E1.
    destruct (Parses_run _ _ _ _ c1 (exp_token_ok sep cm (ts ++ more) Hcm) (quiet_memo _ _ Hc Q1)) as (c2 & E2 & Q2). rewrite E2.
    pose proof (quiet_trans _ _ _ Q1 Q2) as Q12.
    destruct (IH f (t :: acc) more ltac:(simpl in Hf; lia) Hn c2 (quiet_memo _ _ Hc Q12)) as (z & c3 & E3 & Q3 & ->).
    eexists _, c3. split; [exact E3|]. split; [apply (quiet_trans _ _ _ Q12 Q3)|]. simpl. rewrite <- app_assoc. reflexivity.
Qed.

Lemma TokList_len item sep ts ids : TokList item sep ts ids -> (length ids <= length ts)%nat.
Proof. induction 1; simpl; lia. Qed.

Lemma sep_tokens_ok item sep ts ids more : sep <> TComment -> TokList item sep ts ids -> nostart [sep] more ->
  Parses (sep_tokens item sep) (ts ++ more) more ids.
Proof.
  intros Hs H Hn. unfold sep_tokens. apply (sep_tokens_go_ok item sep Hs ts ids H _ [] more); [|exact Hn].
  pose proof (TokList_len _ _ _ _ H). rewrite app_length. lia.
Qed.


(* ---------- until_strict ---------- *)

Lemma until_strict_go_chain {A} (p : P A) (stop : P tok) tail rest e : tail <> [] -> Parses stop tail rest e ->
  forall i l, Chain p stop tail i l -> forall fuel acc, (length l < fuel)%nat ->
  Parses (until_strict_go fuel stop p acc) i rest (rev acc ++ l, Some e).
Proof.
  intros Hne Hstop i l H. induction H as [|i more a l Hi Hf Hp Hc IH]; intros fuel acc Hfu c Hc0;
    (destruct fuel as [|f]; [simpl in Hfu; lia|]); cbn [until_strict_go].
  - destruct tail as [|t0 tl]; [congruence|].
    destruct (Hstop c Hc0) as (x & c1 & E1 & Q1 & ->). rewrite E1.
    eexists _, c1. split; [reflexivity|]. split; [exact Q1|]. rewrite app_nil_r. reflexivity.
  - destruct i as [|t0 i']; [congruence|].
    destruct (Hf c Hc0) as (x & c1 & E1 & Q1 & e1 & m1 & ->). rewrite E1.
    destruct (Hp c1 (quiet_memo _ _ Hc0 Q1)) as (y & c2 & E2 & Q2 & ->). rewrite E2.
    pose proof (quiet_trans _ _ _ Q1 Q2) as Q12.
    destruct (IH f (a :: acc) ltac:(simpl in Hfu; lia) c2 (quiet_memo _ _ Hc0 Q12)) as (z & c3 & E3 & Q3 & ->).
    eexists _, c3. split; [exact E3|]. split; [apply (quiet_trans _ _ _ Q12 Q3)|].
    simpl. rewrite <- app_assoc. reflexivity.
Qed.

Lemma until_strict_chain {A} (p : P A) (stop : P tok) tail rest e i l : tail <> [] -> Parses stop tail rest e ->
  Chain p stop tail i l -> (length l <= length i)%nat ->
  Parses (until_strict stop p) i rest (l, Some e).
Proof.
  intros Hne Hs Hc Hl. unfold until_strict.
  apply (until_strict_go_chain p stop tail rest e Hne Hs i l Hc (S (length i)) []). lia.
Qed.

(* picking an alternative after a prefix of failing ones *)
Lemma alt_go_pick {A} (ps1 : list (P A)) (p : P A) ps2 i r a : Forall (fun q => Fails q i) ps1 -> Parses p i r a ->
  forall best, Parses (alt_go (ps1 ++ p :: ps2) best) i r a.
Proof.
  induction 1 as [|q ps Hq Hps IH]; intros Hp best; cbn [app].
  - apply alt_go_here. exact Hp.
  - apply alt_go_skip; [exact Hq|]. intro b. apply IH. exact Hp.
Qed.

Lemma alt_pick {A} (ps1 : list (P A)) (p : P A) ps2 i r a : Forall (fun q => Fails q i) ps1 -> Parses p i r a ->
  Parses (alt (ps1 ++ p :: ps2)) i r a.
Proof. intros. unfold alt. apply alt_go_pick; assumption. Qed.

(* parse_until_no_match: items as long as the item parser succeeds *)
Lemma until_no_match_go_chain {A} (p : P A) stop tail : Fails p tail ->
  forall i l, Chain p stop tail i l -> forall fuel acc, (length l < fuel)%nat ->
  Parses (until_no_match_go fuel p acc) i tail (rev acc ++ l).
Proof.
  intros Hfail i l H. induction H as [|i more a l Hi Hf Hp Hc IH]; intros fuel acc Hfu c Hc0;
    (destruct fuel as [|f]; [simpl in Hfu; lia|]); cbn [until_no_match_go].
  - destruct tail as [|t0 tl].
    + eexists _, c. split; [reflexivity|]. split; [apply quiet_refl|]. rewrite app_nil_r. reflexivity.
    + destruct (Hfail c Hc0) as (x & c1 & E1 & Q1 & e1 & m1 & ->). rewrite E1.
      eexists _, c1. split; [reflexivity|]. split; [exact Q1|]. rewrite app_nil_r. reflexivity.
  - destruct i as [|t0 i']; [congruence|].
    destruct (Hp c Hc0) as (y & c2 & E2 & Q2 & ->). rewrite E2.
    destruct (IH f (a :: acc) ltac:(simpl in Hfu; lia) c2 (quiet_memo _ _ Hc0 Q2)) as (z & c3 & E3 & Q3 & ->).
    eexists _, c3. split; [exact E3|]. split; [apply (quiet_trans _ _ _ Q2 Q3)|].
    simpl. rewrite <- app_assoc. reflexivity.
Qed.

Lemma until_no_match_chain {A} (p : P A) stop tail i l : Fails p tail -> Chain p stop tail i l ->
  (length l <= length i)%nat -> Parses (until_no_match p) i tail l.
Proof.
  intros Hf Hc Hl. unfold until_no_match. apply (until_no_match_go_chain p stop tail Hf i l Hc (S (length i)) []). lia.
Qed.

Lemma Fails_fail {A} m i : Fails (@fail A m) i.
Proof. eapply FailsAt_Fails. apply FailsAt_fail. Qed.

(* the head of a ++ b *)
Lemma nostart_app_first X S (a b : input) : (forall t r, a = t :: r -> In (tty t) S) -> disj_b S (TComment :: X) = true ->
  nostart X b -> nostart X (a ++ b).
Proof.
  intros Ha Hd Hb. destruct a as [|t r]; [exact Hb|]. cbn [app]. eapply starts_nostart; [apply (Ha t r eq_refl)|exact Hd].
Qed.

Lemma first_excl_gen (L : list ttype) ty t r : tty t = ty -> ty <> TComment ->
  nostart (filter (fun x => negb (tt_eqb x ty)) L) (t :: r).
Proof.
  intros H Hc ty' Hh Hin. apply filter_In in Hin as [Hin Hne].
  rewrite hd_ty_cons in Hh by congruence. inversion Hh; subst. rewrite tt_eqb_refl in Hne. discriminate.
Qed.
