(* C08: positions, ranges, the hypothesis about token lists (TokSorted) and its proof for the
   output of the lexer model.
   Token END columns are start column + UTF-8 byte length of the value, on the START line; so
   `end t_i <= start t_(i+1)` is false in general (multi-byte characters, multi-line literals).
   What holds: starts strictly increase, every token has start <= end, and for "tight" tokens
   (everything except string literals and comments: ASCII, single line, value = lexeme) the end
   is the true end, hence <= the start of every later token. *)
From GoldV Require Import Base Tokens Keywords Lexer AstKinds Tree LexerProofs.
From Coq Require Import Sorted Lia.

(* ---------- positions and ranges ---------- *)

Definition pos_le (a b : pos) : Prop := pline a < pline b \/ (pline a = pline b /\ pcol a <= pcol b).
Definition pos_lt (a b : pos) : Prop := pline a < pline b \/ (pline a = pline b /\ pcol a < pcol b).
Definition range_wf (r : range) : Prop := pos_le (rstart r) (rend r).
Definition inside (a b : range) : Prop := pos_le (rstart b) (rstart a) /\ pos_le (rend a) (rend b).
Definition lines_le (L : N) (r : range) : Prop := pline (rstart r) <= L /\ pline (rend r) <= L.

Definition tstart (t : tok) : pos := rstart (trange t).
Definition tend (t : tok) : pos := rend (trange t).

Ltac pos_simpl :=
  unfold range_wf, inside, lines_le, pos_le, pos_lt, tstart, tend in *;
  cbn [rstart rend pline pcol fst snd nrange] in *.
Ltac pos_solve := pos_simpl; lia.

Lemma pos_le_refl a : pos_le a a.
Proof. pos_solve. Qed.
Lemma pos_le_trans a b c : pos_le a b -> pos_le b c -> pos_le a c.
Proof. pos_solve. Qed.
Lemma pos_lt_le a b : pos_lt a b -> pos_le a b.
Proof. pos_solve. Qed.
Lemma pos_lt_le_trans a b c : pos_lt a b -> pos_le b c -> pos_lt a c.
Proof. pos_solve. Qed.
Lemma inside_refl r : inside r r.
Proof. pos_solve. Qed.
Lemma inside_wf_trans a b : inside a b -> range_wf a -> range_wf b.
Proof. pos_solve. Qed.

(* boolean versions (the oracle of the correspondence check evaluates the same predicates) *)
Definition pos_leb' (a b : pos) : bool := (pline a <? pline b) || ((pline a =? pline b) && (pcol a <=? pcol b)).
Lemma pos_leb'_le a b : pos_leb' a b = true <-> pos_le a b.
Proof.
  unfold pos_leb', pos_le. rewrite orb_true_iff, andb_true_iff, N.ltb_lt, N.eqb_eq, N.leb_le. tauto.
Qed.

(* ---------- the hypothesis about token lists ---------- *)

(* everything except string literals (incl. #n) and comments *)
Definition tight (t : tok) : bool :=
  negb (tt_eqb (tty t) TStringLiteral) && negb (tt_eqb (tty t) TComment).

Definition tok_before (a b : tok) : Prop :=
  traw a < traw b /\ pos_lt (tstart a) (tstart b) /\ (tight a = true -> pos_le (tend a) (tstart b)).

Definition tok_ok (L : N) (t : tok) : Prop := range_wf (trange t) /\ lines_le L (trange t).

Definition TokSorted (L : N) (ts : list tok) : Prop :=
  StronglySorted tok_before ts /\ Forall (tok_ok L) ts.

Lemma ss_in {A} (R : A -> A -> Prop) l a b :
  StronglySorted R l -> In a l -> In b l -> a = b \/ R a b \/ R b a.
Proof.
  induction 1 as [|x l Hs IH Hf]; intros Ha Hb; [destruct Ha|].
  rewrite Forall_forall in Hf. destruct Ha as [<-|Ha], Hb as [<-|Hb]; auto.
Qed.

Lemma ss_app_l {A} (R : A -> A -> Prop) l1 l2 : StronglySorted R (l1 ++ l2) -> StronglySorted R l1.
Proof.
  induction l1 as [|x l1 IH]; intro H; [constructor|].
  simpl in H. inversion H; subst. constructor; [auto|].
  rewrite Forall_forall in *. intros y Hy. apply H3. apply in_or_app. auto.
Qed.

Lemma ss_app_r {A} (R : A -> A -> Prop) l1 l2 : StronglySorted R (l1 ++ l2) -> StronglySorted R l2.
Proof. induction l1 as [|x l1 IH]; intro H; [exact H|]. simpl in H. inversion H; subst. auto. Qed.

Section TokFacts.
  Variable L : N.
  Variable ts : list tok.
  Hypothesis Hts : TokSorted L ts.

  Lemma ts_before a b : In a ts -> In b ts -> traw a < traw b -> tok_before a b.
  Proof.
    intros Ha Hb Hlt. destruct Hts as [Hs _].
    destruct (ss_in _ _ _ _ Hs Ha Hb) as [->|[H|H]]; [lia|exact H|].
    destruct H as [H _]. lia.
  Qed.

  Lemma ts_inj a b : In a ts -> In b ts -> traw a = traw b -> a = b.
  Proof.
    intros Ha Hb He. destruct Hts as [Hs _].
    destruct (ss_in _ _ _ _ Hs Ha Hb) as [->|[[H _]|[H _]]]; [reflexivity|lia|lia].
  Qed.

  Lemma ts_start_le a b : In a ts -> In b ts -> traw a <= traw b -> pos_le (tstart a) (tstart b).
  Proof.
    intros Ha Hb Hle. destruct (N.eq_dec (traw a) (traw b)) as [E|E].
    - rewrite (ts_inj a b Ha Hb E). apply pos_le_refl.
    - apply pos_lt_le. apply ts_before; auto. lia.
  Qed.

  Lemma ts_start_lt a b : In a ts -> In b ts -> traw a < traw b -> pos_lt (tstart a) (tstart b).
  Proof. intros Ha Hb Hlt. apply ts_before; auto. Qed.

  Lemma ts_tight a b : In a ts -> In b ts -> tight a = true -> traw a < traw b -> pos_le (tend a) (tstart b).
  Proof. intros Ha Hb Ht Hlt. destruct (ts_before a b Ha Hb Hlt) as (_ & _ & H). auto. Qed.

  Lemma ts_wf a : In a ts -> range_wf (trange a).
  Proof. intro Ha. destruct Hts as [_ Hf]. rewrite Forall_forall in Hf. apply Hf. exact Ha. Qed.

  Lemma ts_lines a : In a ts -> lines_le L (trange a).
  Proof. intro Ha. destruct Hts as [_ Hf]. rewrite Forall_forall in Hf. apply Hf. exact Ha. Qed.
End TokFacts.

(* ---------- the lexer's output satisfies the hypothesis ---------- *)

Definition lf_count (s : str) : N := N.of_nat (length (filter (fun c => c =? 10) s)).

Lemma lf_count_app a b : lf_count (a ++ b) = lf_count a + lf_count b.
Proof. unfold lf_count. rewrite filter_app, app_length. lia. Qed.

Lemma line_col_lines pre : fst (line_col pre) = lf_count pre.
Proof.
  induction pre as [|c pre IH] using rev_ind; [reflexivity|].
  rewrite line_col_snoc, lf_count_app. unfold lc_step. unfold lf_count at 2. cbn [filter].
  destruct (c =? 10); cbn [fst length]; lia.
Qed.

Definition lcpos (pre : str) : pos := pos_of (line_col pre).

Lemma lcpos_snoc_lt pre c : pos_lt (lcpos pre) (lcpos (pre ++ [c])).
Proof.
  unfold lcpos. rewrite line_col_snoc. unfold lc_step, pos_of. destruct (c =? 10); pos_solve.
Qed.

Lemma lcpos_app_le pre ch : pos_le (lcpos pre) (lcpos (pre ++ ch)).
Proof.
  induction ch as [|c ch IH] using rev_ind; [rewrite app_nil_r; apply pos_le_refl|].
  rewrite app_assoc. eapply pos_le_trans; [exact IH|]. apply pos_lt_le. apply lcpos_snoc_lt.
Qed.

Lemma lcpos_app_lt pre ch : ch <> [] -> pos_lt (lcpos pre) (lcpos (pre ++ ch)).
Proof.
  destruct ch as [|c ch]; [congruence|]. intros _.
  replace (pre ++ c :: ch) with ((pre ++ [c]) ++ ch) by (rewrite <- app_assoc; reflexivity).
  eapply pos_lt_le_trans; [apply lcpos_snoc_lt|apply lcpos_app_le].
Qed.

(* a chunk of ASCII characters without LF advances the column by its UTF-8 length *)
Definition plain (c : N) : bool := (c <? 128) && negb (c =? 10).

Lemma utf8_len_app a b : utf8_len (a ++ b) = utf8_len a + utf8_len b.
Proof. induction a as [|x a IH]; simpl; [reflexivity|]. unfold utf8_len in *. simpl. rewrite IH. lia. Qed.

Lemma lcpos_plain pre ch : forallb plain ch = true ->
  lcpos (pre ++ ch) = mkPos (pline (lcpos pre)) (pcol (lcpos pre) + utf8_len ch).
Proof.
  induction ch as [|c ch IH] using rev_ind; intro H.
  - rewrite app_nil_r. unfold utf8_len. cbn [fold_right]. destruct (lcpos pre) as [l0 c0]. cbn [pline pcol].
    rewrite N.add_0_r. reflexivity.
  - rewrite forallb_app in H. apply andb_true_iff in H as [H1 H2]. simpl in H2. rewrite andb_true_r in H2.
    unfold plain in H2. apply andb_true_iff in H2 as [Hc Hn]. apply negb_true_iff in Hn.
    rewrite app_assoc. unfold lcpos in *. rewrite line_col_snoc. unfold lc_step. rewrite Hn.
    specialize (IH H1). unfold pos_of in *. cbn [fst snd pline pcol] in *. inversion IH as [[E1 E2]].
    rewrite utf8_len_app. unfold utf8_len at 2. simpl. unfold utf8_len1. rewrite Hc. f_equal. lia.
Qed.

Lemma utf8_len_plain ch : forallb plain ch = true -> utf8_len ch = lenN ch.
Proof.
  induction ch as [|c ch IH]; intro H; [reflexivity|]. simpl in H. apply andb_true_iff in H as [H1 H2].
  unfold plain in H1. apply andb_true_iff in H1 as [Hc _].
  unfold utf8_len in *. cbn [fold_right]. rewrite (IH H2), lenN_cons. unfold utf8_len1. rewrite Hc. lia.
Qed.

Lemma lcpos_plain_chars pre ch : forallb plain ch = true ->
  lcpos (pre ++ ch) = mkPos (pline (lcpos pre)) (pcol (lcpos pre) + lenN ch).
Proof. intro H. rewrite (lcpos_plain pre ch H), (utf8_len_plain ch H). reflexivity. Qed.

(* per item, independent of the position: the token's end is on its start line, the number of characters of the
   value to the right (since /repo f444e80; UTF-8 length before); a tight token's value is its lexeme and consists of plain characters *)
Definition item_ok2 (it : item) : Prop :=
  match it with
  | ITok t ch =>
      rend (trange t) = mkPos (pline (tstart t)) (pcol (tstart t) + lenN (tval t)) /\
      (tight t = true -> ch = tval t /\ forallb plain ch = true)
  | IErr e _ => rend (erange e) = mkPos (pline (rstart (erange e))) (pcol (rstart (erange e)) + 1)
  | IWs _ => True
  end.

Lemma create_token_end st off ty v :
  rend (trange (create_token st off ty v)) =
  mkPos (pline (tstart (create_token st off ty v))) (pcol (tstart (create_token st off ty v)) + lenN v).
Proof. reflexivity. Qed.

Lemma tight_ty st off ty v : tight (create_token st off ty v) = true -> ty <> TStringLiteral /\ ty <> TComment.
Proof.
  unfold tight. cbn [tty create_token]. intro H. apply andb_true_iff in H as [H1 H2].
  apply negb_true_iff in H1, H2. split; intro E; subst; [rewrite (proj2 (tt_eqb_eq _ _) eq_refl) in H1|rewrite (proj2 (tt_eqb_eq _ _) eq_refl) in H2]; discriminate.
Qed.

Lemma plain_of_word a : forallb is_word_char a = true -> forallb plain a = true.
Proof.
  apply forallb_impl. intros x H. unfold plain, is_word_char, is_alpha, is_lower, is_upper, is_digit in *.
  repeat rewrite orb_true_iff in H. repeat rewrite andb_true_iff in H. repeat rewrite N.leb_le in H. rewrite N.eqb_eq in H.
  apply andb_true_iff. split; [apply N.ltb_lt; lia|apply negb_true_iff; apply N.eqb_neq; lia].
Qed.
Lemma plain_of_num a : forallb is_num_char a = true -> forallb plain a = true.
Proof.
  apply forallb_impl. intros x H. unfold plain, is_num_char, is_alpha, is_lower, is_upper, is_digit in *.
  repeat rewrite orb_true_iff in H. repeat rewrite andb_true_iff in H. repeat rewrite N.leb_le in H. rewrite N.eqb_eq in H.
  apply andb_true_iff. split; [apply N.ltb_lt; lia|apply negb_true_iff; apply N.eqb_neq; lia].
Qed.

Lemma single_op_plain c ty : single_op c = Some ty -> plain c = true.
Proof.
  unfold single_op. intro H.
  repeat match type of H with
  | (if ?b then _ else _) = _ => let E := fresh "E" in destruct b eqn:E;
      [apply N.eqb_eq in E; subst c; reflexivity|clear E]
  end. discriminate.
Qed.

Lemma double_op_plain c nx ty v dbl : double_op c nx = Some (ty, v, dbl) -> forallb plain v = true.
Proof.
  unfold double_op. intro H.
  repeat match type of H with
  | (if ?b then _ else _) = _ => let E := fresh "E" in destruct b eqn:E; try (apply N.eqb_eq in E; subst)
  | Some _ = Some _ => inversion H; subst; clear H
  | None = Some _ => discriminate
  end; reflexivity.
Qed.

Lemma lex_step_ok2 off st c r it st' rest :
  lex_step off st c r = (it, st', rest) -> item_ok2 it.
Proof.
  unfold lex_step. intro H.
  destruct (is_blank c); [inversion H; exact I|].
  destruct (c =? 10); [inversion H; exact I|].
  destruct (c =? 13).
  { destruct r as [|c2 r2]; [inversion H; exact I|]. destruct (c2 =? 10); inversion H; exact I. }
  destruct (is_word_start c).
  { destruct (span is_word_char (c :: r)) as [w rest'] eqn:Es. inversion H; subst.
    pose proof (span_spec _ _ _ _ Es) as [_ Hall].
    split; [apply create_token_end|]. intros _. split; [reflexivity|apply plain_of_word; exact Hall]. }
  destruct (is_digit c).
  { destruct (span is_num_char (c :: r)) as [w rest'] eqn:Es. inversion H; subst.
    pose proof (span_spec _ _ _ _ Es) as [_ Hall].
    split; [apply create_token_end|]. intros _. split; [reflexivity|apply plain_of_num; exact Hall]. }
  destruct (single_op c) as [ty|] eqn:Eso.
  { inversion H; subst. split; [apply create_token_end|]. intros _. split; [reflexivity|].
    simpl. rewrite (single_op_plain _ _ Eso). reflexivity. }
  destruct (c =? 39).
  { destruct (read_sq r (off + 1)) as [[[v rest'] nl] n]. inversion H; subst.
    split; [apply create_token_end|]. intro Ht. apply tight_ty in Ht. destruct Ht as [Ht _]. congruence. }
  destruct (c =? 34).
  { destruct (read_dq r (off + 1)) as [[[v rest'] nl] n]. inversion H; subst.
    split; [apply create_token_end|]. intro Ht. apply tight_ty in Ht. destruct Ht as [Ht _]. congruence. }
  destruct (c =? 59).
  { destruct (span not_eol r) as [v rest']. inversion H; subst.
    split; [apply create_token_end|]. intro Ht. apply tight_ty in Ht. destruct Ht as [_ Ht]. congruence. }
  destruct (c =? 35) eqn:E35.
  { destruct (span is_digit r) as [d rest'] eqn:Es. inversion H; subst.
    pose proof (span_spec _ _ _ _ Es) as [_ Hall].
    split; [apply create_token_end|]. intro Ht. apply tight_ty in Ht. destruct Ht as [Ht _].
    destruct d; [|congruence]. split; [reflexivity|]. apply N.eqb_eq in E35; subst c. reflexivity. }
  destruct (double_op c (match r with x :: _ => Some x | [] => None end)) as [[[ty v] dbl]|] eqn:Edo.
  { pose proof (double_op_plain _ _ _ _ _ Edo) as Hp.
    destruct dbl; inversion H; subst; (split; [apply create_token_end|]); intros _; (split; [reflexivity|exact Hp]). }
  inversion H; subst. reflexivity.
Qed.

Lemma lex_go_ok2 fuel : forall off st l, Forall item_ok2 (lex_go fuel off st l).
Proof.
  induction fuel as [|f IH]; intros off st l; [constructor|].
  destruct l as [|c r]; [constructor|]. cbn [lex_go].
  destruct (lex_step off st c r) as [[it st'] rest] eqn:E.
  constructor; [eapply lex_step_ok2; exact E|apply IH].
Qed.

(* tokens of a good item list, relative to the prefix of the text in front of it *)
Lemma good_tokens L pre its :
  good pre its -> Forall item_ok2 its ->
  lf_count (pre ++ concat (map chunk_of its)) <= L ->
  StronglySorted tok_before (tokens_of its) /\
  Forall (fun t => tok_ok L t /\ lenN pre <= traw t /\ pos_le (lcpos pre) (tstart t)) (tokens_of its).
Proof.
  revert pre. induction its as [|it its IH]; intros pre Hg H2 HL; [split; constructor|].
  destruct Hg as [Hit Hg]. inversion H2 as [|? ? Hit2 H2']; subst.
  assert (chunk_of it <> []) as Hne by (eapply chunk_nonempty; exact Hit).
  cbn [map concat] in HL. rewrite app_assoc in HL.
  destruct (IH _ Hg H2' HL) as [Hs Hf].
  assert (Forall (fun t => tok_ok L t /\ lenN pre <= traw t /\ pos_le (lcpos pre) (tstart t)) (tokens_of its)) as Hf'.
  { eapply Forall_impl; [|exact Hf]. intros t (A & B & C). split; [exact A|]. split.
    - rewrite lenN_app in B. lia.
    - eapply pos_le_trans; [apply lcpos_app_le|exact C]. }
  destruct it as [ch|t ch|e ch]; cbn [tokens_of flat_map app] in *; try (split; assumption).
  change (flat_map (fun i => match i with ITok t _ => [t] | _ => [] end) its) with (tokens_of its) in *.
  destruct Hit as (_ & Hraw & Hst & Hlex & _). destruct Hit2 as [Hend Htight].
  assert (tok_ok L t) as Hok.
  { split.
    - unfold range_wf, pos_le. rewrite Hend. unfold tstart. cbn [pline pcol]. right. split; [reflexivity|lia].
    - unfold lines_le. rewrite Hend. unfold tstart. rewrite Hst. unfold pos_of. cbn [pline pcol].
      rewrite line_col_lines. rewrite !lf_count_app in HL. lia. }
  split.
  - constructor; [exact Hs|]. eapply Forall_impl; [|exact Hf]. intros t' (A & B & C).
    cbn [chunk_of] in *. unfold tok_before. split; [|split].
    + rewrite lenN_app in B. unfold lenN in *. destruct ch; [congruence|]. simpl length in *. lia.
    + unfold tstart at 1. rewrite Hst. fold (lcpos pre).
      eapply pos_lt_le_trans; [apply lcpos_app_lt; exact Hne|exact C].
    + intro Ht. destruct (Htight Ht) as [-> Hpl].
      eapply pos_le_trans; [|exact C]. unfold tend. rewrite Hend. rewrite (lcpos_plain_chars _ _ Hpl).
      unfold tstart. rewrite Hst. apply pos_le_refl.
  - constructor; [|exact Hf']. split; [exact Hok|]. split; [lia|].
    unfold tstart. rewrite Hst. apply pos_le_refl.
Qed.

(* tok_ranges_wf: the token list of any text satisfies the hypothesis, with L = number of LF *)
Theorem lex_TokSorted text : TokSorted (lf_count text) (fst (lex text)).
Proof.
  unfold lex. cbn [fst].
  destruct (good_tokens (lf_count text) [] (lex_items text) (lex_items_good text)
              (lex_go_ok2 _ _ _ _)) as [Hs Hf].
  - cbn [app]. rewrite lex_partition. lia.
  - split; [exact Hs|]. eapply Forall_impl; [|exact Hf]. intros t (A & _). exact A.
Qed.

(* lexer errors: one column wide, on a line of the text *)
Lemma good_errors L pre its :
  good pre its -> Forall item_ok2 its -> lf_count (pre ++ concat (map chunk_of its)) <= L ->
  Forall (fun e => range_wf (erange e) /\ lines_le L (erange e)) (errors_of its).
Proof.
  revert pre. induction its as [|it its IH]; intros pre Hg H2 HL; [constructor|].
  destruct Hg as [Hit Hg]. inversion H2 as [|? ? Hit2 H2']; subst.
  cbn [map concat] in HL. rewrite app_assoc in HL. specialize (IH _ Hg H2' HL).
  destruct it as [ch|t ch|e ch]; cbn [errors_of flat_map app] in *; try exact IH.
  constructor; [|exact IH]. destruct Hit as (_ & _ & Hst). cbn [item_ok2] in Hit2.
  split.
  - unfold range_wf, pos_le. rewrite Hit2. cbn [pline pcol]. right. split; [reflexivity|lia].
  - unfold lines_le. rewrite Hit2, Hst. unfold pos_of. cbn [pline pcol]. rewrite line_col_lines.
    rewrite !lf_count_app in HL. lia.
Qed.

Theorem lex_errors_wf text :
  Forall (fun e => range_wf (erange e) /\ lines_le (lf_count text) (erange e)) (snd (lex text)).
Proof.
  unfold lex. cbn [snd]. apply (good_errors (lf_count text) [] (lex_items text) (lex_items_good text) (lex_go_ok2 _ _ _ _)).
  cbn [app]. rewrite lex_partition. lia.
Qed.
