(* C06: declarations and whole files round-trip.
   PROVED top-level forms: class header (with or without parent), module header, uses list,
   constant (string / number, optional `multilang`), type declaration (every type form of TypeRT.v),
   field (optional annotation, `memory`, any type, member modifiers, `absolute`), comment, procedure and
   function with plain or method#event name, parameter list (absent, empty, typed / untyped parameters
   with modes), method modifiers (private / protected / final / override / forward / external '..'),
   with a body of any derivable statement sequence ([GStmt]) or -- forward / external -- without body.
   [file_roundtrip]: for every derivable file, parse_gold (memoisation off, any fuel above the
   derivation level) returns the root with exactly the derived declarations, consumes every token
   and reports no diagnostic.  FileRT.v lifts this to parse_gold itself. *)
From GoldV Require Import Base Tokens Lexer AstKinds Tree Strings PComb Grammar Ladder RTComb LadderProofs ExprRT TypeRT OqlRT StmtRT.
From Coq Require Import Lia.

(* ---------- node builders ---------- *)

Definition mk_class (ct nt : tok) (parent : option (tok * tok)) : node :=
  let end_ := match parent with Some (_, e) => trange e | None => trange nt end in
  Node KAstClass (tval nt) (traw ct) (new_range (trange ct) end_)
       [(K_ident, AT nt); (K_parent, opt_toks (match parent with Some (p, _) => Some p | None => None end))] [].
Definition mk_module (mt nm : tok) : node :=
  Node KAstModule (tval nm) (traw mt) (range_of_toks mt nm) [(K_ident, AT nm)] [].
Definition mk_field (id : tok) (ty : node) : node :=
  Node KAstGlobalVariableDeclaration (tval id) (traw id) (new_range (trange id) (nrange ty))
       [(K_ident, AT id); (K_flags, AN 0)] [ty].
Definition mk_method_body (body : list tok) (stmts : list node) : option node :=
  match body with
  | [] => None
  | first :: _ =>
      let last_tok := match rev body with t :: _ => t | [] => first end in
      let '(raw, sr, er) :=
        match stmts with
        | s0 :: _ => (nraw s0, nrange s0, match rev stmts with n :: _ => nrange n | [] => nrange s0 end)
        | [] => (traw first, trange first, trange last_tok)
        end in
      Some (Node KAstMethodBody S_method_body raw (new_range sr er) [] stmts)
  end.
Definition body_or_default (b : option node) (raw : N) (rg : range) : node :=
  match b with Some n => n | None => Node KAstMethodBody S_method_body raw rg [] [] end.
Definition mk_proc (pt nm : tok) (body : list tok) (stmts : list node) (e : tok) : node :=
  let name := mk_terminal nm in
  Node KAstProcedure (tval nm) (traw pt) (new_range (trange pt) (trange e))
       [(K_end, AL [e]); (K_flags, AN 0)]
       [name; body_or_default (mk_method_body body stmts) (nraw name) (nrange name)].
Definition mk_func (ft nm rt : tok) (body : list tok) (stmts : list node) (e : tok) : node :=
  let name := mk_terminal nm in
  let rty := mk_type_basic rt in
  Node KAstFunction (tval nm) (traw ft) (new_range (trange ft) (trange e))
       [(K_end, AL [e]); (K_flags, AN 0)]
       [name; rty; body_or_default (mk_method_body body stmts) (nraw rty) (nrange rty)].


Definition member_mods_info (ts : list tok) : option (range * N) :=
  match ts with
  | [] => None
  | first :: _ => let last := match rev ts with t :: _ => t | [] => first end in
                  Some (new_range (trange first) (trange last), member_flags ts)
  end.
Definition mk_field_gen (mem : option tok) (id : tok) (ty : node) (mods : option (range * N)) (an : option node) : node :=
  let first := match mem with Some t => t | None => id end in
  let end0 := match mods with Some (r, _) => r | None => nrange ty end in
  let end_ := match an with Some n => nrange n | None => end0 end in
  let flags := match mods with Some (_, f) => f | None => 0 end in
  Node KAstGlobalVariableDeclaration (tval id) (traw first) (new_range (trange first) end_)
       [(K_ident, AT id); (K_flags, AN (flags + 64 * b2n (match mem with Some _ => true | None => false end)))]
       (ty :: opt_list an).
Definition mk_event_name (nm ev : tok) : node :=
  let id := tval nm ++ [35] ++ tval ev in
  Node KAstMethodNameWithEvent id (traw nm) (new_range (trange nm) (trange ev)) [(K_str, AS id)] [mk_terminal nm; mk_terminal ev].
Definition ext_tok (e s : tok) : tok := mkTok (traw e) (new_range (trange e) (trange s)) (tty s) (tval s).
Definition method_mods_info (ts : list tok) : option (N * range * N) :=
  match ts with
  | [] => None
  | first :: _ =>
      let last := match rev ts with t :: _ => t | [] => first end in
      let fwd := existsb (fun t => tt_eqb (tty t) TForward) ts in
      let ext := existsb (fun t => tt_eqb (tty t) TStringLiteral) ts in
      Some (traw first, new_range (trange first) (trange last), member_flags ts + 16 * b2n fwd + 32 * b2n ext)
  end.
Definition mods_flags (mods : option (N * range * N)) : N := match mods with Some (_, _, f) => f | None => 0 end.
Definition mods_end (mods : option (N * range * N)) (dflt : N * range) : N * range :=
  match mods with Some (mr, r, _) => (mr, r) | None => dflt end.
(* a procedure / function node from its header parts; [body] = Some (body tokens, statements, end token) *)
Definition mk_proc_node (first : tok) (name : node) (ps : option node) (mods : option (N * range * N))
           (body : option (list tok * list node * tok)) : node :=
  let er := mods_end mods (match ps with Some n => (nraw n, nrange n) | None => (nraw name, nrange name) end) in
  let end_ := match body with Some (_, _, e) => trange e | None => snd er end in
  Node KAstProcedure (nident name) (traw first) (new_range (trange first) end_)
       [(K_end, AL (match body with Some (_, _, e) => [e] | None => [] end)); (K_flags, AN (mods_flags mods))]
       (name :: opt_list ps ++
        match body with Some (bt, ns, _) => [body_or_default (mk_method_body bt ns) (fst er) (snd er)] | None => [] end).
Definition mk_func_node (first : tok) (name : node) (ps : option node) (rt : tok) (mods : option (N * range * N))
           (body : option (list tok * list node * tok)) : node :=
  let rty := mk_type_basic rt in
  let er := mods_end mods (nraw rty, nrange rty) in
  let end_ := match body with Some (_, _, e) => trange e | None => snd er end in
  Node KAstFunction (nident name) (traw first) (new_range (trange first) end_)
       [(K_end, AL (match body with Some (_, _, e) => [e] | None => [] end)); (K_flags, AN (mods_flags mods))]
       (name :: rty :: opt_list ps ++
        match body with Some (bt, ns, _) => [body_or_default (mk_method_body bt ns) (fst er) (snd er)] | None => [] end).

Lemma mk_proc_plain pt nm body ns e :
  mk_proc pt nm body ns e = mk_proc_node pt (mk_terminal nm) None None (Some (body, ns, e)).
Proof. reflexivity. Qed.
Lemma mk_func_plain ft nm rt body ns e :
  mk_func ft nm rt body ns e = mk_func_node ft (mk_terminal nm) None rt None (Some (body, ns, e)).
Proof. reflexivity. Qed.
Lemma mk_field_plain id ty : mk_field id ty = mk_field_gen None id ty None None.
Proof. reflexivity. Qed.
Lemma mk_const_plain ct id v : mk_const ct id v = mk_const_ml ct id v None.
Proof. reflexivity. Qed.

(* ---------- what may follow a top-level declaration ---------- *)

Definition decl_first : list ttype := [TClass; TModule; TUses; TType; TConst; TIdentifier; TMemory; TProc; TFunc; TOSqrBracket].
Definition dfollow_h (h : option ttype) : Prop := match h with None => True | Some ty => In ty decl_first end.
Definition dcmt_h (h : option ttype) : Prop := match h with None => True | Some ty => ~ In ty [TProc; TFunc] end.
Definition dfollow_ok (ts : list tok) (h : option ttype) : Prop := dfollow_h h /\ (hd_ty ts = None -> dcmt_h h).

Lemma dfollow_nostart X more : disj_b X decl_first = true -> dfollow_h (hd_ty more) -> nostart X more.
Proof. intros Hd Hs ty Hh Hx. rewrite Hh in Hs. simpl in Hs. apply (disj_b_spec _ _ _ Hd Hx Hs). Qed.

Definition member_mod_types : list ttype := [TPrivate; TProtected; TFinal; TOverride].
Definition method_mods : list ttype := [TPrivate; TProtected; TFinal; TOverride; TExternal; TForward].

(* ---------- header parts that do not depend on the level ---------- *)

(* an annotation  [ ... ]  in front of a declaration *)
Inductive Annot : list tok -> Prop :=
| An_none : Annot []
| An_some o body c : tty o = TOSqrBracket ->
    (* the tokens between the brackets: none closes the annotation, none starts or ends a method (parse_annotations stops there) *)
    Forall (fun t => existsb (tt_eqb (tty t)) [TCSqrBracket; TProc; TFunc; TEndProc; TEndFunc; TEnd] = false) body ->
    tty c = TCSqrBracket ->
    Annot (o :: body ++ [c]).

Lemma annot_parses ats r : Annot ats -> (ats = [] -> nostart [TOSqrBracket] r) ->
  exists v, Parses (opt parse_annotations) (ats ++ r) r v.
Proof.
  intros H Hr. destruct H as [|o body c Ho Hb Hc].
  - exists None. cbn [app]. apply annot_opt_none. apply Hr. reflexivity.
  - exists (Some mk_empty_default). cbn [app]. rewrite <- app_assoc. cbn [app]. apply Parses_opt_some.
    unfold parse_annotations. eapply Parses_bind; [apply exp_token_ok; exact Ho|]. cbv beta.
    eapply Parses_bind.
    { apply Parses_opt_some. unfold annotation_body. eapply Parses_bind.
      - apply take_until_ok.
        + exact Hb.
        + cbn [existsb]. rewrite Hc. reflexivity.
      - cbv beta. cbn [snd]. rewrite Hc. cbn [tt_eqb]. apply Parses_ret. }
    cbv beta iota. apply Parses_ret.
Qed.

Definition annot_inner (body : list tok) : Prop :=
  Forall (fun t => existsb (tt_eqb (tty t)) [TCSqrBracket; TProc; TFunc; TEndProc; TEndFunc; TEnd] = false) body.

Lemma annot_some_parses o body c r : tty o = TOSqrBracket -> annot_inner body -> tty c = TCSqrBracket ->
  Parses parse_annotations (o :: body ++ c :: r) r mk_empty_default.
Proof.
  intros Ho Hb Hc. unfold parse_annotations. eapply Parses_bind; [apply exp_token_ok; exact Ho|]. cbv beta.
  eapply Parses_bind.
  { apply Parses_opt_some. unfold annotation_body. eapply Parses_bind.
    - apply take_until_ok.
      + exact Hb.
      + cbn [existsb]. rewrite Hc. reflexivity.
    - cbv beta. cbn [snd]. rewrite Hc. cbn [tt_eqb]. apply Parses_ret. }
  cbv beta iota. apply Parses_ret.
Qed.

(* the head of  ats ++ r  when r starts with a token of a type in S *)
Lemma annot_head X S ats t r : Annot ats -> In (tty t) S -> disj_b (TOSqrBracket :: S) (TComment :: X) = true ->
  nostart X (ats ++ t :: r).
Proof.
  intros H Ht Hd. destruct H as [|o body c Ho _ _]; cbn [app].
  - eapply (starts_nostart (TOSqrBracket :: S)); [right; exact Ht|exact Hd].
  - eapply (starts_nostart (TOSqrBracket :: S)); [left; auto|exact Hd].
Qed.

(* method names *)
Inductive MName : list tok -> node -> Prop :=
| MN_plain nm : In (tty nm) ident_types -> MName [nm] (mk_terminal nm)
| MN_event nm p ev : In (tty nm) ident_types -> tty p = TPound -> In (tty ev) ident_types ->
    MName [nm; p; ev] (mk_event_name nm ev).

Lemma method_name_parses ts n more : MName ts n -> nostart [TPound] more -> Parses parse_method_name (ts ++ more) more n.
Proof.
  intros H Hr. unfold parse_method_name, alt. destruct H as [nm Hn|nm p ev Hn Hp He]; cbn [app].
  - apply alt_go_skip.
    { unfold parse_method_name_uievent. eapply Fails_bind_r; [apply parse_identifier_ok; exact Hn|].
      apply Fails_bind_l. eapply FailsAt_Fails. apply exp_token_nostart; [discriminate|exact Hr]. }
    intro b. apply alt_go_here. apply parse_identifier_ok. exact Hn.
  - apply alt_go_here. unfold parse_method_name_uievent.
    eapply Parses_bind; [apply parse_identifier_ok; exact Hn|]. cbv beta.
    eapply Parses_bind; [apply exp_token_ok; exact Hp|]. cbv beta.
    eapply Parses_bind; [apply parse_identifier_ok; exact He|]. cbv beta. apply Parses_ret.
Qed.

(* member modifiers (fields) *)
Lemma member_mods_parses mts more : Forall (fun t => In (tty t) member_mod_types) mts -> nostart member_mod_types more ->
  Parses parse_member_modifiers (mts ++ more) more (member_mods_info mts).
Proof.
  intros Hm Hf c Hc. unfold parse_member_modifiers.
  assert (Fails parse_member_modifier_tokens more) as Hfail.
  { unfold parse_member_modifier_tokens. eapply FailsAt_Fails. apply tok_alt_nostart; [discriminate|reflexivity|exact Hf]. }
  assert (Chain parse_member_modifier_tokens (fail []) more (mts ++ more) mts) as Hch.
  { induction Hm as [|t mts Ht Hm IH]; [apply Ch_nil|]. cbn [app].
    eapply Ch_cons; [discriminate|apply Fails_fail| |exact IH].
    unfold parse_member_modifier_tokens. apply tok_alt_in; [exact Ht|reflexivity]. }
  destruct (Parses_run _ _ _ _ c (until_no_match_chain _ _ more _ mts Hfail Hch ltac:(rewrite app_length; lia)) Hc) as (c1 & E1 & Q1).
  rewrite E1. destruct mts as [|first mts']; eexists _, c1; (split; [reflexivity|]); (split; [exact Q1|reflexivity]).
Qed.

(* method modifiers: tokens and what the parser collects (an `external 'dll'` pair becomes one token) *)
Inductive Mods : list tok -> list tok -> Prop :=
| Md_nil : Mods [] []
| Md_mod t ts rs : In (tty t) member_mod_types -> Mods ts rs -> Mods (t :: ts) (t :: rs)
| Md_fwd t ts rs : tty t = TForward -> Mods ts rs -> Mods (t :: ts) (t :: rs)
| Md_ext e s ts rs : tty e = TExternal -> tty s = TStringLiteral -> Mods ts rs -> Mods (e :: s :: ts) (ext_tok e s :: rs).

Definition method_mod_item : P tok := alt [parse_member_modifier_tokens; parse_method_external; exp_token TForward].

Lemma Mods_len ts rs : Mods ts rs -> (length rs <= length ts)%nat.
Proof. induction 1; simpl; lia. Qed.

Lemma method_mods_parses ts rs more : Mods ts rs -> nostart method_mods more ->
  Parses parse_method_modifiers (ts ++ more) more (method_mods_info rs).
Proof.
  intros Hm Hf c Hc. unfold parse_method_modifiers. fold method_mod_item.
  assert (Fails method_mod_item more) as Hfail.
  { unfold method_mod_item. apply alt_fails; [discriminate|]. repeat (apply Forall_cons || apply Forall_nil).
    - unfold parse_member_modifier_tokens. eapply FailsAt_Fails. apply tok_alt_nostart; [discriminate|reflexivity|sub_nostart Hf].
    - unfold parse_method_external. apply Fails_bind_l. apply seq_tokens_fail; [discriminate|sub_nostart Hf].
    - eapply FailsAt_Fails. apply exp_token_nostart; [discriminate|sub_nostart Hf]. }
  assert (Chain method_mod_item (fail []) more (ts ++ more) rs) as Hch.
  { induction Hm as [|t ts rs Ht Hm IH|t ts rs Ht Hm IH|e s ts rs He Hs Hm IH]; [apply Ch_nil| | |]; cbn [app].
    - eapply Ch_cons; [discriminate|apply Fails_fail| |exact IH]. unfold method_mod_item, alt. apply alt_go_here.
      unfold parse_member_modifier_tokens. apply tok_alt_in; [exact Ht|reflexivity].
    - eapply Ch_cons; [discriminate|apply Fails_fail| |exact IH]. unfold method_mod_item, alt.
      assert (nostart (member_mod_types ++ [TExternal]) (t :: ts ++ more)) as Hn by (eapply nostart_ty; [exact Ht|reflexivity]).
      apply alt_go_skip.
      { unfold parse_member_modifier_tokens. eapply FailsAt_Fails. apply tok_alt_nostart; [discriminate|reflexivity|sub_nostart Hn]. }
      intro b1. apply alt_go_skip.
      { unfold parse_method_external. apply Fails_bind_l. apply seq_tokens_fail; [discriminate|sub_nostart Hn]. }
      intro b2. apply alt_go_here. apply exp_token_ok. exact Ht.
    - eapply Ch_cons; [discriminate|apply Fails_fail| |exact IH]. unfold method_mod_item, alt.
      apply alt_go_skip.
      { unfold parse_member_modifier_tokens. eapply FailsAt_Fails. apply tok_alt_nostart; [discriminate|reflexivity|].
        eapply nostart_ty; [exact He|reflexivity]. }
      intro b1. apply alt_go_here. unfold parse_method_external.
      eapply Parses_bind; [apply (seq_tokens_ok _ [e; s]); cbn [map]; rewrite He, Hs; reflexivity|]. cbv beta iota. apply Parses_ret. }
  pose proof (Mods_len _ _ Hm) as Hl.
  destruct (Parses_run _ _ _ _ c (until_no_match_chain _ _ more _ rs Hfail Hch ltac:(rewrite app_length; lia)) Hc) as (c1 & E1 & Q1).
  rewrite E1. destruct rs as [|first rs'].
  - inversion Hm; subst. eexists _, c1. split; [reflexivity|]. split; [exact Q1|reflexivity].
  - eexists _, c1. split; [reflexivity|]. split; [exact Q1|reflexivity].
Qed.

Lemma Mods_head ts rs t r : Mods ts rs -> ts = t :: r -> In (tty t) method_mods.
Proof. intros H E. destruct H; inversion E; subst; simpl in *; intuition (try congruence); rewrite ?H; simpl; tauto. Qed.

Section Top.
  Variable fuel : nat.                        (* the grammar level the file is parsed with: gram (S fuel) *)
  Let g := gram (S fuel).

  Definition absolute_toks (ab : option (tok * tok)) : list tok := match ab with Some (k, v) => [k; v] | None => [] end.
  Definition absolute_ok (ab : option (tok * tok)) : Prop :=
    match ab with Some (k, v) => tty k = TAbsolute /\ In (tty v) ident_types | None => True end.
  Definition absolute_node (ab : option (tok * tok)) : option node := option_map (fun kv => mk_terminal (snd kv)) ab.
  Definition mem_ok (mem : option tok) : Prop := match mem with Some m => tty m = TMemory | None => True end.
  Definition ml_ok (ml : option tok) : Prop := match ml with Some m => tty m = TMultiLang | None => True end.

  (* the declarations an annotation attaches to (besides fields): class, module, type declaration *)
  Inductive Host : list tok -> node -> Prop :=
  | H_class ct nt : tty ct = TClass -> tty nt = TIdentifier -> Host [ct; nt] (mk_class ct nt None)
  | H_classp ct nt o p c : tty ct = TClass -> tty nt = TIdentifier -> tty o = TOBracket -> tty p = TIdentifier ->
      tty c = TCBracket -> Host [ct; nt; o; p; c] (mk_class ct nt (Some (p, c)))
  | H_module mt nm : tty mt = TModule -> tty nm = TIdentifier -> Host [mt; nm] (mk_module mt nm)
  | H_typedecl tk id col tts tn : tty tk = TType -> tty id = TIdentifier -> tty col = TColon -> GType (S fuel) tts tn ->
      Host (tk :: id :: col :: tts) (mk_type_decl tk id tn).

  Inductive Decl : list tok -> node -> Prop :=
  | D_class ct nt : tty ct = TClass -> tty nt = TIdentifier -> Decl [ct; nt] (mk_class ct nt None)
  | D_classp ct nt o p c : tty ct = TClass -> tty nt = TIdentifier -> tty o = TOBracket -> tty p = TIdentifier ->
      tty c = TCBracket -> Decl [ct; nt; o; p; c] (mk_class ct nt (Some (p, c)))
  | D_module mt nm : tty mt = TModule -> tty nm = TIdentifier -> Decl [mt; nm] (mk_module mt nm)
  | D_uses ut ts ids : tty ut = TUses -> TokList TIdentifier TComma ts ids -> Decl (ut :: ts) (mk_uses ut ids)
  | D_const_ml ct id eq v ml : tty ct = TConst -> tty id = TIdentifier -> tty eq = TEquals ->
      In (tty v) [TStringLiteral; TNumericLiteral] -> ml_ok ml -> Decl (ct :: id :: eq :: v :: opt_list ml) (mk_const_ml ct id v ml)
  | D_typedecl tk id col tts tn : tty tk = TType -> tty id = TIdentifier -> tty col = TColon -> GType (S fuel) tts tn ->
      Decl (tk :: id :: col :: tts) (mk_type_decl tk id tn)
  | D_field_gen ats mem id col tts tn mts ab : Annot ats -> mem_ok mem -> tty id = TIdentifier -> tty col = TColon ->
      GType (S fuel) tts tn -> Forall (fun t => In (tty t) member_mod_types) mts -> absolute_ok ab ->
      Decl (ats ++ opt_list mem ++ id :: col :: tts ++ mts ++ absolute_toks ab)
           (mk_field_gen mem id tn (member_mods_info mts) (absolute_node ab))
  | D_comment c : tty c = TComment -> Decl [c] (mk_comment c)
  | D_proc_gen pt nts name pts ps mts mrs body ns e : tty pt = TProc -> MName nts name -> GParams (S fuel) pts ps -> Mods mts mrs ->
      has_method_body (method_mods_info mrs) = true ->
      Seq (GStmt (S fuel)) None body ns -> Forall (fun t => ~ In (tty t) [TEndProc; TEnd]) body -> In (tty e) [TEndProc; TEnd] ->
      Decl (pt :: nts ++ pts ++ mts ++ body ++ [e]) (mk_proc_node pt name ps (method_mods_info mrs) (Some (body, ns, e)))
  | D_proc_nobody pt nts name pts ps mts mrs : tty pt = TProc -> MName nts name -> GParams (S fuel) pts ps -> Mods mts mrs ->
      has_method_body (method_mods_info mrs) = false ->
      Decl (pt :: nts ++ pts ++ mts) (mk_proc_node pt name ps (method_mods_info mrs) None)
  | D_func_gen ft nts name pts ps rk rt mts mrs body ns e : tty ft = TFunc -> MName nts name -> GParams (S fuel) pts ps ->
      tty rk = TReturn -> tty rt = TIdentifier -> Mods mts mrs -> has_method_body (method_mods_info mrs) = true ->
      Seq (GStmt (S fuel)) None body ns -> Forall (fun t => ~ In (tty t) [TEndFunc; TEnd]) body -> In (tty e) [TEndFunc; TEnd] ->
      Decl (ft :: nts ++ pts ++ rk :: rt :: mts ++ body ++ [e]) (mk_func_node ft name ps rt (method_mods_info mrs) (Some (body, ns, e)))
  | D_func_nobody ft nts name pts ps rk rt mts mrs : tty ft = TFunc -> MName nts name -> GParams (S fuel) pts ps ->
      tty rk = TReturn -> tty rt = TIdentifier -> Mods mts mrs -> has_method_body (method_mods_info mrs) = false ->
      Decl (ft :: nts ++ pts ++ rk :: rt :: mts) (mk_func_node ft name ps rt (method_mods_info mrs) None)
  (* [ annotation ] class / module / type declaration: the annotation leaves no node *)
  | D_annotated o abody c ts n : tty o = TOSqrBracket -> annot_inner abody -> tty c = TCSqrBracket -> Host ts n ->
      Decl (o :: abody ++ c :: ts) n.

  (* the forms of the first version of this file, as derived rules *)
  Lemma D_const ct id eq v : tty ct = TConst -> tty id = TIdentifier -> tty eq = TEquals ->
    In (tty v) [TStringLiteral; TNumericLiteral] -> Decl [ct; id; eq; v] (mk_const ct id v).
  Proof. intros. rewrite mk_const_plain. apply (D_const_ml ct id eq v None); auto. exact I. Qed.

  Lemma D_field id col tts tn : tty id = TIdentifier -> tty col = TColon -> GType (S fuel) tts tn ->
    Decl (id :: col :: tts) (mk_field id tn).
  Proof.
    intros. rewrite mk_field_plain.
    pose proof (D_field_gen [] None id col tts tn [] None An_none I H H0 H1 (Forall_nil _) I) as X.
    cbn [app opt_list absolute_toks] in X. rewrite app_nil_r in X. exact X.
  Qed.

  Lemma D_proc pt nm body ns e : tty pt = TProc -> In (tty nm) ident_types ->
    Seq (GStmt (S fuel)) None body ns -> Forall (fun t => ~ In (tty t) [TEndProc; TEnd]) body ->
    In (tty e) [TEndProc; TEnd] -> Decl (pt :: nm :: body ++ [e]) (mk_proc pt nm body ns e).
  Proof.
    intros. rewrite mk_proc_plain.
    apply (D_proc_gen pt [nm] _ [] None [] [] body ns e); auto; [apply MN_plain; assumption|apply PL_none|apply Md_nil].
  Qed.

  Lemma D_func ft nm rk rt body ns e : tty ft = TFunc -> In (tty nm) ident_types -> tty rk = TReturn -> tty rt = TIdentifier ->
    Seq (GStmt (S fuel)) None body ns -> Forall (fun t => ~ In (tty t) [TEndFunc; TEnd]) body ->
    In (tty e) [TEndFunc; TEnd] -> Decl (ft :: nm :: rk :: rt :: body ++ [e]) (mk_func ft nm rt body ns e).
  Proof.
    intros. rewrite mk_func_plain.
    apply (D_func_gen ft [nm] _ [] None rk rt [] [] body ns e); auto; [apply MN_plain; assumption|apply PL_none|apply Md_nil].
  Qed.

  (* a file: declarations one after the other *)
  Inductive Decls : list tok -> list node -> Prop :=
  | Ds_nil : Decls [] []
  | Ds_cons ts n ts' ns : Decl ts n -> Decls ts' ns -> dfollow_ok ts (hd_ty ts') -> Decls (ts ++ ts') (n :: ns)
  (* an annotation in front of anything that is neither a field nor a class / module / type declaration (a method, a
     constant, a uses list, another annotation, the end of the file) is a declaration of its own: the code ignores it
     and leaves an empty node (AstEmpty, default range) among the root's children *)
  | Ds_annot o abody c ts' ns : tty o = TOSqrBracket -> annot_inner abody -> tty c = TCSqrBracket ->
      nostart [TClass; TModule; TType; TMemory; TIdentifier] ts' -> Decls ts' ns ->
      Decls (o :: abody ++ c :: ts') (mk_empty_default :: ns).

  (* ---------- method bodies ---------- *)

  Lemma body_terms terms body : Forall (fun t => ~ In (tty t) terms) body ->
    Forall (fun x => existsb (tt_eqb (tty x)) terms = false) body.
  Proof.
    intro H. eapply Forall_impl; [|exact H]. intros t Ht. cbv beta in Ht.
    destruct (existsb (tt_eqb (tty t)) terms) eqn:E; [|reflexivity]. exfalso. apply Ht.
    apply mem_ty_In. exact E.
  Qed.

  Lemma method_body_parses body ns i : Seq (GStmt (S fuel)) None body ns ->
    Parses (parse_method_body g body) i i (mk_method_body body ns).
  Proof.
    intro Hseq. unfold parse_method_body, mk_method_body. destruct body as [|first body']; [apply Parses_ret|].
    apply (on_slice_ok _ _ i []).
    eapply Parses_bind; [apply Parses_with_ctx_clear|]. cbv beta.
    eapply Parses_bind.
    { eapply (repeat_chain _ (fail [])).
      - pose proof (Seq_chain (S fuel) (GStmt (S fuel)) (gram_stmt_rt (S fuel)) (GStmt_head (S fuel)) (GStmt_j (S fuel))
                      (fail []) [] None (first :: body') ns [] Hseq eq_refl jfollow_nil) as Hch.
        rewrite app_nil_r in Hch. apply Hch.
        + intros j _. eapply FailsAt_Fails. apply FailsAt_fail.
        + reflexivity.
        + intros x [].
      - apply (Seq_length (GStmt (S fuel)) (GStmt_head (S fuel)) _ _ _ Hseq). }
    cbv beta. destruct ns as [|s0 ns']; apply Parses_ret.
  Qed.

  (* the head of a body followed by its end token *)
  Lemma body_head terms body ns e more : Seq (GStmt (S fuel)) None body ns -> In (tty e) terms ->
    disj_b terms [TComment] = true -> (forall x, In x terms -> In x stops) ->
    sfollow_h (hd_ty (body ++ e :: more)).
  Proof.
    intros Hseq He Hc Hsub.
    assert (hd_ty (e :: more) = Some (tty e)) as Hh.
    { apply hd_ty_cons. intro X. apply (disj_b_spec _ _ _ Hc He). left. auto. }
    assert (sfollow_h (Some (tty e))) as Hs by (cbn [sfollow_h]; apply in_or_app; right; apply Hsub; exact He).
    clear Hc. induction Hseq as [|ts n ts' ns Hn Hseq IH Hfo]; [cbn [app]; rewrite Hh; exact Hs|].
    rewrite <- app_assoc, hd_ty_app. destruct (hd_ty ts) as [ty|] eqn:E; [|exact IH].
    cbn [sfollow_h]. apply in_or_app. left. apply (proj2 (GStmt_head _ _ _ Hn)). exact E.
  Qed.

  Lemma method_tail_body first eraw erange mods terms msg body ns e more : has_method_body mods = true ->
    Seq (GStmt (S fuel)) None body ns -> Forall (fun t => ~ In (tty t) terms) body -> In (tty e) terms ->
    Parses (method_tail g first eraw erange mods terms msg) (body ++ e :: more) more
           (Some (body_or_default (mk_method_body body ns) eraw erange), Some e, trange e).
  Proof.
    intros Hb Hseq Hbt He. unfold method_tail. rewrite Hb.
    eapply Parses_bind.
    { apply take_until_ok; [apply body_terms; exact Hbt|]. apply mem_ty_In. exact He. }
    cbv beta iota. eapply Parses_bind; [apply method_body_parses; exact Hseq|]. cbv beta.
    eapply Parses_bind; [apply Parses_ret|]. cbv beta. apply Parses_ret.
  Qed.

  Lemma method_tail_nobody first eraw erange mods terms msg i : has_method_body mods = false ->
    Parses (method_tail g first eraw erange mods terms msg) i i (None, None, erange).
  Proof. intro Hb. unfold method_tail. rewrite Hb. apply Parses_ret. Qed.

  (* the header of a method up to its modifiers: what follows them starts with a token of [S] *)
  Definition hdr_bad : list ttype := TOBracket :: TPound :: method_mods.

  Lemma mods_follow X mts mrs more : Mods mts mrs -> disj_b method_mods (TComment :: X) = true ->
    nostart X more -> nostart X (mts ++ more).
  Proof.
    intros Hm Hd Hn. eapply (nostart_app_first X method_mods); [|exact Hd|exact Hn].
    intros t r E. eapply Mods_head; eauto.
  Qed.

  Lemma params_follow X pts ps more : GParams (S fuel) pts ps -> mem_ty TOBracket (TComment :: X) = false ->
    nostart X more -> nostart X (pts ++ more).
  Proof.
    intros Hp Hd Hn. destruct Hp as [|ob cb Hob _|ob ts ps cb Hob _ _]; [exact Hn| |]; cbn [app];
      (eapply nostart_ty; [exact Hob|exact Hd]).
  Qed.

  (* ---------- one declaration ---------- *)

  Definition TopStep (i r : input) (n : node) : Prop :=
    Parses (alt (top_block_parsers g)) i r n \/
    (Fails (alt (top_block_parsers g)) i /\ Parses (alt (top_decl_parsers g)) i r n).

  Lemma top_blocks_fail i : nostart [TProc; TFunc] i -> Fails (alt (top_block_parsers g)) i.
  Proof.
    intro H. apply alt_fails; [discriminate|]. repeat (apply Forall_cons || apply Forall_nil).
    - unfold parse_procedure_declaration. apply Fails_bind_l. eapply FailsAt_Fails. apply exp_token_nostart; [discriminate|sub_nostart H].
    - unfold parse_function_declaration. apply Fails_bind_l. eapply FailsAt_Fails. apply exp_token_nostart; [discriminate|sub_nostart H].
  Qed.

  (* alternatives that start with an optional annotation and then need a keyword *)
  Lemma class_fails ats r : Annot ats -> (ats = [] -> nostart [TOSqrBracket] r) -> nostart [TClass] r -> Fails parse_class (ats ++ r).
  Proof.
    intros Ha Hr H. unfold parse_class. destruct (annot_parses ats r Ha Hr) as [v Hv].
    eapply Fails_bind_r; [exact Hv|]. apply Fails_bind_l. eapply FailsAt_Fails. apply exp_token_nostart; [discriminate|exact H].
  Qed.

  Lemma module_fails ats r : Annot ats -> (ats = [] -> nostart [TOSqrBracket] r) -> nostart [TModule] r -> Fails parse_module (ats ++ r).
  Proof.
    intros Ha Hr H. unfold parse_module. destruct (annot_parses ats r Ha Hr) as [v Hv].
    eapply Fails_bind_r; [exact Hv|]. apply Fails_bind_l. eapply FailsAt_Fails. apply exp_token_nostart; [discriminate|exact H].
  Qed.

  Lemma typedecl_fails' ats r : Annot ats -> (ats = [] -> nostart [TOSqrBracket] r) -> nostart [TType] r ->
    Fails (parse_type_declaration (g_type g)) (ats ++ r).
  Proof.
    intros Ha Hr H. unfold parse_type_declaration. destruct (annot_parses ats r Ha Hr) as [v Hv].
    eapply Fails_bind_r; [exact Hv|]. apply Fails_bind_l. apply seq_tokens_fail; [discriminate|exact H].
  Qed.

  Lemma uses_fails' i : nostart [TUses] i -> Fails parse_uses i.
  Proof. intro H. unfold parse_uses. apply Fails_bind_l. eapply FailsAt_Fails. apply exp_token_nostart; [discriminate|exact H]. Qed.

  Lemma const_fails' i : nostart [TConst] i -> Fails parse_constant_declaration i.
  Proof.
    intro H. unfold parse_constant_declaration. apply Fails_bind_l. apply Fails_prepend.
    eapply FailsAt_Fails. apply exp_token_nostart; [discriminate|exact H].
  Qed.

  Lemma comment_fails' t r : tty t <> TComment -> Fails parse_comment (t :: r).
  Proof. intro H. unfold parse_comment. apply Fails_bind_l. eapply FailsAt_Fails. apply exp_comment_fail. exact H. Qed.

  Lemma globalvar_fails ats r : Annot ats -> (ats = [] -> nostart [TOSqrBracket] r) -> nostart [TMemory; TIdentifier] r ->
    Fails (parse_global_variable_declaration g) (ats ++ r).
  Proof.
    intros Ha Hr H. unfold parse_global_variable_declaration. destruct (annot_parses ats r Ha Hr) as [v Hv].
    eapply Fails_bind_r; [exact Hv|]. cbv beta.
    eapply Fails_bind_r; [apply Parses_rae_none; apply exp_token_nostart; [discriminate|sub_nostart H]|]. cbv beta.
    apply Fails_bind_l. eapply FailsAt_Fails. apply exp_token_nostart; [discriminate|sub_nostart H].
  Qed.

  Lemma Host_first ts n : Host ts n -> exists t r, ts = t :: r /\ In (tty t) [TClass; TModule; TType].
  Proof. intro H. destruct H; eexists _, _; (split; [reflexivity|]); simpl; intuition. Qed.

  (* class / module / type declaration behind an optional annotation *)
  Lemma host_step ats ts n more : Annot ats -> Host ts n -> dfollow_h (hd_ty more) -> TopStep (ats ++ ts ++ more) more n.
  Proof.
    intros Ha Hh Hfo. right.
    destruct (Host_first _ _ Hh) as (t0 & r0 & E0 & Ht0).
    assert (forall X, disj_b [TOSqrBracket; TClass; TModule; TType] (TComment :: X) = true -> nostart X (ats ++ ts ++ more)) as Hall.
    { intros X Hd. rewrite E0. cbn [app]. eapply annot_head; [exact Ha|exact Ht0|exact Hd]. }
    assert (ats = [] -> nostart [TOSqrBracket] (ts ++ more)) as Hna.
    { intros _. rewrite E0. cbn [app]. eapply starts_nostart; [exact Ht0|reflexivity]. }
    split; [apply top_blocks_fail; apply Hall; reflexivity|]. unfold top_decl_parsers, alt.
    apply alt_go_skip.
    { destruct Ha as [|o body c Ho _ _]; cbn [app].
      - rewrite E0. cbn [app]. apply comment_fails'. intro X. rewrite X in Ht0. simpl in Ht0. intuition discriminate.
      - apply comment_fails'. rewrite Ho. discriminate. }
    intro b1. destruct (annot_parses ats _ Ha Hna) as [av Hav].
    destruct Hh as [ct nt Hct Hnt|ct nt o p c Hct Hnt Ho Hp Hc|mt nm Hmt Hnm|tk id col tts tn Htk Hid Hcol Hty]; cbn [app] in *.
    - apply alt_go_here. unfold parse_class. eapply Parses_bind; [exact Hav|]. cbv beta.
      eapply Parses_bind; [apply exp_token_ok; exact Hct|]. cbv beta.
      eapply Parses_bind; [apply exp_token_ok; exact Hnt|]. cbv beta.
      eapply Parses_bind.
      { apply Parses_opt_none. unfold parse_parent_class. apply Fails_bind_l. apply seq_tokens_fail; [discriminate|].
        apply dfollow_nostart; [reflexivity|exact Hfo]. }
      cbv beta iota. apply Parses_ret.
    - apply alt_go_here. unfold parse_class. eapply Parses_bind; [exact Hav|]. cbv beta.
      eapply Parses_bind; [apply exp_token_ok; exact Hct|]. cbv beta.
      eapply Parses_bind; [apply exp_token_ok; exact Hnt|]. cbv beta.
      eapply Parses_bind.
      { apply Parses_opt_some. unfold parse_parent_class.
        eapply Parses_bind; [apply (seq_tokens_ok _ [o; p; c] more); cbn [map]; rewrite Ho, Hp, Hc; reflexivity|].
        cbv beta iota. apply Parses_ret. }
      cbv beta iota. apply Parses_ret.
    - apply (alt_go_pick [parse_class]).
      { repeat (apply Forall_cons || apply Forall_nil).
        apply class_fails; [exact Ha|exact Hna|eapply nostart_ty; [exact Hmt|reflexivity]]. }
      unfold parse_module. eapply Parses_bind; [exact Hav|]. cbv beta.
      eapply Parses_bind; [apply exp_token_ok; exact Hmt|]. cbv beta.
      eapply Parses_bind; [apply exp_token_ok; exact Hnm|]. cbv beta. apply Parses_ret.
    - apply (alt_go_pick [parse_class; parse_module; parse_uses]).
      { repeat (apply Forall_cons || apply Forall_nil).
        - apply class_fails; [exact Ha|exact Hna|eapply nostart_ty; [exact Htk|reflexivity]].
        - apply module_fails; [exact Ha|exact Hna|eapply nostart_ty; [exact Htk|reflexivity]].
        - apply uses_fails'. apply Hall. reflexivity. }
      unfold parse_type_declaration. eapply Parses_bind; [exact Hav|]. cbv beta.
      eapply Parses_bind; [apply (seq_tokens_ok _ [tk; id; col]); cbn [map]; rewrite Htk, Hid, Hcol; reflexivity|]. cbv beta iota.
      eapply Parses_bind; [apply gram_type_rt; [exact Hty|apply dfollow_nostart; [reflexivity|exact Hfo]]|]. cbv beta. apply Parses_ret.
  Qed.

  (* an annotation on its own *)
  Lemma annot_step o abody c r : tty o = TOSqrBracket -> annot_inner abody -> tty c = TCSqrBracket ->
    nostart [TClass; TModule; TType; TMemory; TIdentifier] r -> TopStep (o :: abody ++ c :: r) r mk_empty_default.
  Proof.
    intros Ho Hb Hc Hr. right.
    assert (forall X, mem_ty TOSqrBracket (TComment :: X) = false -> nostart X (o :: abody ++ c :: r)) as Hall
      by (intros X Hm; eapply nostart_ty; [exact Ho|exact Hm]).
    split; [apply top_blocks_fail; apply Hall; reflexivity|]. unfold top_decl_parsers, alt.
    apply alt_go_skip; [apply comment_fails'; rewrite Ho; discriminate|]. intro b1.
    pose proof (An_some o abody c Ho Hb Hc) as Ha.
    assert (o :: abody ++ c :: r = (o :: abody ++ [c]) ++ r) as E by (cbn [app]; rewrite <- app_assoc; reflexivity).
    assert (o :: abody ++ [c] = [] -> nostart [TOSqrBracket] r) as Hna by discriminate.
    apply (alt_go_pick [parse_class; parse_module; parse_uses; parse_type_declaration (g_type g); parse_constant_declaration;
                        parse_global_variable_declaration g]).
    { repeat (apply Forall_cons || apply Forall_nil).
      - rewrite E. apply class_fails; [exact Ha|exact Hna|sub_nostart Hr].
      - rewrite E. apply module_fails; [exact Ha|exact Hna|sub_nostart Hr].
      - apply uses_fails'. apply Hall. reflexivity.
      - rewrite E. apply typedecl_fails'; [exact Ha|exact Hna|sub_nostart Hr].
      - apply const_fails'. apply Hall. reflexivity.
      - rewrite E. apply globalvar_fails; [exact Ha|exact Hna|sub_nostart Hr]. }
    apply annot_some_parses; assumption.
  Qed.

  Definition decl_kw : list ttype := [TProc; TFunc; TOSqrBracket; TClass; TModule; TUses; TType; TConst; TMemory].

  Ltac dfails Hn :=
    repeat (apply Forall_cons || apply Forall_nil);
    first [ apply (class_fails [] _ An_none); [intros _|]; sub_nostart Hn
          | apply (module_fails [] _ An_none); [intros _|]; sub_nostart Hn
          | apply uses_fails'; sub_nostart Hn
          | apply (typedecl_fails' [] _ An_none); [intros _|]; sub_nostart Hn
          | apply const_fails'; sub_nostart Hn ].

  (* the first token of a field declaration *)
  Lemma field_first ats mem id rest : Annot ats -> mem_ok mem -> tty id = TIdentifier ->
    exists t r, ats ++ opt_list mem ++ id :: rest = t :: r /\ In (tty t) [TOSqrBracket; TMemory; TIdentifier].
  Proof.
    intros Ha Hm Hid. destruct Ha as [|o body c Ho _ _].
    - destruct mem as [m|]; cbn [app opt_list]; eexists _, _; (split; [reflexivity|]); simpl in *; rewrite ?Hm, ?Hid; tauto.
    - cbn [app]. eexists _, _. split; [reflexivity|]. rewrite Ho. simpl. tauto.
  Qed.

  Lemma field_rest_first mem id rest : mem_ok mem -> tty id = TIdentifier ->
    exists t r, opt_list mem ++ id :: rest = t :: r /\ In (tty t) [TMemory; TIdentifier].
  Proof.
    intros Hm Hid. destruct mem as [m|]; cbn [app opt_list]; eexists _, _; (split; [reflexivity|]); simpl in *; rewrite ?Hm, ?Hid; tauto.
  Qed.

  Theorem decl_parses ts n more : Decl ts n -> dfollow_ok ts (hd_ty more) -> TopStep (ts ++ more) more n.
  Proof.
    intros H [Hfo Hcm].
    destruct H as [ct nt Hct Hnt|ct nt o p c Hct Hnt Ho Hp Hc|mt nm Hmt Hnm|ut ts ids Hut Hl|ct id eq v ml Hct Hid Heq Hv Hml
                  |tk id col tts tn Htk Hid Hcol Hty
                  |ats mem id col tts tn mts ab Hats Hmem Hid Hcol Hty Hmts Hab|c Hc
                  |pt nts name pts ps mts mrs body ns e Hpt Hname Hps Hmods Hhb Hseq Hb He
                  |pt nts name pts ps mts mrs Hpt Hname Hps Hmods Hhb
                  |ft nts name pts ps rk rt mts mrs body ns e Hft Hname Hps Hrk Hrt Hmods Hhb Hseq Hb He
                  |ft nts name pts ps rk rt mts mrs Hft Hname Hps Hrk Hrt Hmods Hhb
                  |o abody c ts n Ho Hab Hc Hh]; cbn [app].
    - (* class X *)
      right. assert (nostart [TProc; TFunc; TOSqrBracket] (ct :: nt :: more)) as Hn by (eapply nostart_ty; [exact Hct|reflexivity]).
      split; [apply top_blocks_fail; sub_nostart Hn|]. unfold top_decl_parsers, alt.
      apply alt_go_skip; [apply comment_fails'; rewrite Hct; discriminate|]. intro b1. apply alt_go_here.
      unfold parse_class. eapply Parses_bind; [apply annot_opt_none; sub_nostart Hn|]. cbv beta.
      eapply Parses_bind; [apply exp_token_ok; exact Hct|]. cbv beta.
      eapply Parses_bind; [apply exp_token_ok; exact Hnt|]. cbv beta.
      eapply Parses_bind.
      { apply Parses_opt_none. unfold parse_parent_class. apply Fails_bind_l. apply seq_tokens_fail; [discriminate|].
        apply dfollow_nostart; [reflexivity|exact Hfo]. }
      cbv beta iota. apply Parses_ret.
    - (* class X (P) *)
      right. assert (nostart [TProc; TFunc; TOSqrBracket] (ct :: nt :: o :: p :: c :: more)) as Hn by (eapply nostart_ty; [exact Hct|reflexivity]).
      split; [apply top_blocks_fail; sub_nostart Hn|]. unfold top_decl_parsers, alt.
      apply alt_go_skip; [apply comment_fails'; rewrite Hct; discriminate|]. intro b1. apply alt_go_here.
      unfold parse_class. eapply Parses_bind; [apply annot_opt_none; sub_nostart Hn|]. cbv beta.
      eapply Parses_bind; [apply exp_token_ok; exact Hct|]. cbv beta.
      eapply Parses_bind; [apply exp_token_ok; exact Hnt|]. cbv beta.
      eapply Parses_bind.
      { apply Parses_opt_some. unfold parse_parent_class.
        eapply Parses_bind; [apply (seq_tokens_ok _ [o; p; c] more); cbn [map]; rewrite Ho, Hp, Hc; reflexivity|].
        cbv beta iota. apply Parses_ret. }
      cbv beta iota. apply Parses_ret.
    - (* module X *)
      right. pose proof (first_excl_gen decl_kw TModule mt (nm :: more) Hmt ltac:(discriminate)) as Hn. simpl in Hn.
      split; [apply top_blocks_fail; sub_nostart Hn|]. unfold top_decl_parsers, alt.
      apply alt_go_skip; [apply comment_fails'; rewrite Hmt; discriminate|]. intro b1.
      apply (alt_go_pick [parse_class]); [dfails Hn|].
      unfold parse_module. eapply Parses_bind; [apply annot_opt_none; sub_nostart Hn|]. cbv beta.
      eapply Parses_bind; [apply exp_token_ok; exact Hmt|]. cbv beta.
      eapply Parses_bind; [apply exp_token_ok; exact Hnm|]. cbv beta. apply Parses_ret.
    - (* uses a, b *)
      right. pose proof (first_excl_gen decl_kw TUses ut (ts ++ more) Hut ltac:(discriminate)) as Hn. simpl in Hn.
      split; [apply top_blocks_fail; sub_nostart Hn|]. unfold top_decl_parsers, alt.
      apply alt_go_skip; [apply comment_fails'; rewrite Hut; discriminate|]. intro b1.
      apply (alt_go_pick [parse_class; parse_module]); [dfails Hn|].
      unfold parse_uses. eapply Parses_bind; [apply exp_token_ok; exact Hut|]. cbv beta.
      eapply Parses_bind; [apply sep_tokens_ok; [discriminate|exact Hl|apply dfollow_nostart; [reflexivity|exact Hfo]]|].
      cbv beta. apply Parses_ret.
    - (* const c = v [multilang] *)
      right. pose proof (first_excl_gen decl_kw TConst ct (id :: eq :: v :: opt_list ml ++ more) Hct ltac:(discriminate)) as Hn. simpl in Hn.
      split; [apply top_blocks_fail; sub_nostart Hn|]. unfold top_decl_parsers, alt.
      apply alt_go_skip; [apply comment_fails'; rewrite Hct; discriminate|]. intro b1.
      apply (alt_go_pick [parse_class; parse_module; parse_uses; parse_type_declaration (g_type g)]); [dfails Hn|].
      unfold parse_constant_declaration.
      eapply Parses_bind; [apply Parses_prepend; apply exp_token_ok; exact Hct|]. cbv beta.
      eapply Parses_bind; [apply Parses_prepend; apply exp_token_ok; exact Hid|]. cbv beta.
      eapply Parses_bind; [apply Parses_prepend; apply exp_token_ok; exact Heq|]. cbv beta.
      eapply Parses_bind; [apply Parses_prepend; apply tok_alt_in; [exact Hv|reflexivity]|]. cbv beta.
      destruct ml as [m|]; cbn [opt_list app].
      + eapply Parses_bind; [apply Parses_rae_some; apply exp_token_ok; exact Hml|]. cbv beta iota. apply Parses_ret.
      + eapply Parses_bind.
        { apply Parses_rae_none. apply exp_token_nostart; [discriminate|]. apply dfollow_nostart; [reflexivity|exact Hfo]. }
        cbv beta iota. apply Parses_ret.
    - (* type T : ... *)
      right. pose proof (first_excl_gen decl_kw TType tk (id :: col :: tts ++ more) Htk ltac:(discriminate)) as Hn. simpl in Hn.
      split; [apply top_blocks_fail; sub_nostart Hn|]. unfold top_decl_parsers, alt.
      apply alt_go_skip; [apply comment_fails'; rewrite Htk; discriminate|]. intro b1.
      apply (alt_go_pick [parse_class; parse_module; parse_uses]); [dfails Hn|].
      unfold parse_type_declaration. eapply Parses_bind; [apply annot_opt_none; sub_nostart Hn|]. cbv beta.
      eapply Parses_bind; [apply (seq_tokens_ok _ [tk; id; col]); cbn [map]; rewrite Htk, Hid, Hcol; reflexivity|]. cbv beta iota.
      eapply Parses_bind; [apply gram_type_rt; [exact Hty|apply dfollow_nostart; [reflexivity|exact Hfo]]|]. cbv beta. apply Parses_ret.
    - (* field *)
      right. rewrite <- ?app_assoc. cbn [app]. rewrite <- ?app_assoc.
      set (tail := mts ++ absolute_toks ab ++ more).
      set (R := opt_list mem ++ id :: col :: tts ++ tail).
      destruct (field_first ats mem id (col :: tts ++ tail) Hats Hmem Hid) as (t0 & r0 & E0 & Ht0).
      destruct (field_rest_first mem id (col :: tts ++ tail) Hmem Hid) as (t1 & r1 & E1 & Ht1).
      fold R in E0, E1.
      assert (forall X, disj_b [TOSqrBracket; TMemory; TIdentifier] (TComment :: X) = true -> nostart X (ats ++ R)) as Hall.
      { intros X Hd. rewrite E0. eapply starts_nostart; eauto. }
      assert (forall X, disj_b [TMemory; TIdentifier] (TComment :: X) = true -> nostart X R) as HR.
      { intros X Hd. rewrite E1. eapply starts_nostart; eauto. }
      assert (forall X, disj_b (member_mod_types ++ TAbsolute :: decl_first) (TComment :: X) = true -> nostart X tail) as Htail.
      { intros X Hd. unfold tail.
        eapply (nostart_app_first X member_mod_types); [| |].
        - intros t r E. subst mts. inversion Hmts; assumption.
        - unfold disj_b in *. rewrite forallb_app in Hd. apply andb_true_iff in Hd. apply Hd.
        - destruct ab as [[k v]|]; cbn [absolute_toks app].
          + destruct Hab as [Hk _]. eapply nostart_ty; [exact Hk|].
            unfold disj_b in Hd. rewrite forallb_app in Hd. apply andb_true_iff in Hd as [_ Hd]. cbn [forallb] in Hd.
            apply andb_true_iff in Hd as [Hd _]. destruct (mem_ty TAbsolute (TComment :: X)); [discriminate|reflexivity].
          + apply dfollow_nostart; [|exact Hfo].
            unfold disj_b in *. rewrite forallb_app in Hd. apply andb_true_iff in Hd as [_ Hd]. cbn [forallb] in Hd.
            apply andb_true_iff in Hd as [_ Hd].
            (* X disjoint from decl_first, in the other direction *)
            apply forallb_forall. intros x Hx. destruct (mem_ty x decl_first) eqn:Em; [|reflexivity]. exfalso.
            apply mem_ty_In in Em. rewrite forallb_forall in Hd. specialize (Hd x Em).
            assert (mem_ty x (TComment :: X) = true) as Y by (apply mem_ty_In; right; exact Hx). rewrite Y in Hd. discriminate. }
      split; [apply top_blocks_fail; apply Hall; reflexivity|]. unfold top_decl_parsers, alt.
      apply alt_go_skip.
      { rewrite E0. apply comment_fails'. intro X. rewrite X in Ht0. simpl in Ht0. intuition discriminate. }
      intro b1.
      assert (ats = [] -> nostart [TOSqrBracket] R) as Hna by (intros _; apply HR; reflexivity).
      apply (alt_go_pick [parse_class; parse_module; parse_uses; parse_type_declaration (g_type g); parse_constant_declaration]).
      { repeat (apply Forall_cons || apply Forall_nil).
        - apply class_fails; [exact Hats|exact Hna|apply HR; reflexivity].
        - apply module_fails; [exact Hats|exact Hna|apply HR; reflexivity].
        - apply uses_fails'. apply Hall. reflexivity.
        - apply typedecl_fails'; [exact Hats|exact Hna|apply HR; reflexivity].
        - apply const_fails'. apply Hall. reflexivity. }
      unfold parse_global_variable_declaration.
      destruct (annot_parses ats R Hats Hna) as [av Hav].
      eapply Parses_bind; [exact Hav|]. cbv beta. unfold R.
      eapply Parses_bind.
      { instantiate (1 := mem). instantiate (1 := id :: col :: tts ++ tail).
        destruct mem as [m|]; cbn [opt_list app].
        - apply Parses_rae_some. apply exp_token_ok. exact Hmem.
        - apply Parses_rae_none. apply exp_token_nostart; [discriminate|]. eapply nostart_ty; [exact Hid|reflexivity]. }
      cbv beta.
      eapply Parses_bind; [apply exp_token_ok; exact Hid|]. cbv beta.
      eapply Parses_bind; [apply exp_token_ok; exact Hcol|]. cbv beta.
      eapply Parses_bind; [apply gram_type_rt; [exact Hty|apply Htail; reflexivity]|]. cbv beta.
      eapply Parses_bind.
      { unfold tail. apply member_mods_parses; [exact Hmts|].
        destruct ab as [[k v]|]; cbn [absolute_toks app].
        - destruct Hab as [Hk _]. eapply nostart_ty; [exact Hk|reflexivity].
        - apply dfollow_nostart; [reflexivity|exact Hfo]. }
      cbv beta.
      destruct ab as [[k v]|]; cbn [absolute_toks app absolute_node option_map snd].
      + destruct Hab as [Hk Hv].
        eapply Parses_bind; [apply Parses_opt_some; apply exp_token_ok; exact Hk|]. cbv beta iota.
        eapply Parses_bind; [eapply Parses_bind; [apply parse_identifier_ok; exact Hv|apply Parses_ret]|]. cbv beta iota.
        destruct mem; apply Parses_ret.
      + eapply Parses_bind.
        { apply Parses_opt_none. eapply FailsAt_Fails. apply exp_token_nostart; [discriminate|].
          apply dfollow_nostart; [reflexivity|exact Hfo]. }
        cbv beta iota. eapply Parses_bind; [apply Parses_ret|]. cbv beta iota. destruct mem; apply Parses_ret.
    - (* comment *)
      right. assert (hd_ty [c] = None) as Hnone by (simpl; unfold is_comment; rewrite Hc, tt_eqb_refl; reflexivity).
      specialize (Hcm Hnone). split.
      + apply top_blocks_fail. apply nostart_comment; [exact Hc|]. intros ty Hh X. rewrite Hh in Hcm. apply Hcm. exact X.
      + unfold top_decl_parsers, alt. apply alt_go_here. unfold parse_comment.
        eapply Parses_bind; [apply exp_token_ok; exact Hc|]. cbv beta. apply Parses_ret.
    - (* proc with body *)
      left. rewrite <- ?app_assoc. cbn [app]. rewrite <- ?app_assoc. unfold top_block_parsers, alt. apply alt_go_here.
      assert (sfollow_h (hd_ty (body ++ e :: more))) as Hbh.
      { eapply body_head; [exact Hseq|exact He|reflexivity|]. intros x Hx. simpl in Hx. simpl. tauto. }
      assert (forall X, disj_b X (stmt_first ++ stops) = true -> nostart X (body ++ e :: more)) as Hbody
        by (intros X Hd; apply sfollow_nostart; [exact Hd|exact Hbh]).
      unfold parse_procedure_declaration.
      eapply Parses_bind; [apply exp_token_ok; exact Hpt|]. cbv beta.
      eapply Parses_bind.
      { apply method_name_parses; [exact Hname|].
        apply (params_follow _ _ ps); [exact Hps|reflexivity|]. apply (mods_follow _ _ mrs); [exact Hmods|reflexivity|].
        apply Hbody. reflexivity. }
      cbv beta. eapply Parses_bind.
      { apply (gram_params_rt (S fuel)); [exact Hps|]. apply (mods_follow _ _ mrs); [exact Hmods|reflexivity|]. apply Hbody. reflexivity. }
      cbv beta. eapply Parses_bind; [apply method_mods_parses; [exact Hmods|apply Hbody; reflexivity]|]. cbv beta.
      unfold mk_proc_node. destruct (method_mods_info mrs) as [[[mr rr] fl]|]; destruct ps as [pn|]; cbv beta iota zeta;
        cbn [mods_end mods_flags fst snd];
        (eapply Parses_bind; [apply method_tail_body; eassumption|]); cbv beta iota; apply Parses_ret.
    - (* proc without body (forward / external) *)
      left. rewrite <- ?app_assoc. cbn [app]. unfold top_block_parsers, alt. apply alt_go_here.
      assert (forall X, disj_b X decl_first = true -> nostart X more) as Hmore
        by (intros X Hd; apply dfollow_nostart; [exact Hd|exact Hfo]).
      unfold parse_procedure_declaration.
      eapply Parses_bind; [apply exp_token_ok; exact Hpt|]. cbv beta.
      eapply Parses_bind.
      { apply method_name_parses; [exact Hname|].
        apply (params_follow _ _ ps); [exact Hps|reflexivity|]. apply (mods_follow _ _ mrs); [exact Hmods|reflexivity|].
        apply Hmore. reflexivity. }
      cbv beta. eapply Parses_bind.
      { apply (gram_params_rt (S fuel)); [exact Hps|]. apply (mods_follow _ _ mrs); [exact Hmods|reflexivity|]. apply Hmore. reflexivity. }
      cbv beta. eapply Parses_bind; [apply method_mods_parses; [exact Hmods|apply Hmore; reflexivity]|]. cbv beta.
      unfold mk_proc_node. destruct (method_mods_info mrs) as [[[mr rr] fl]|]; destruct ps as [pn|]; cbv beta iota zeta;
        cbn [mods_end mods_flags fst snd];
        (eapply Parses_bind; [apply method_tail_nobody; exact Hhb|]); cbv beta iota; apply Parses_ret.
    - (* func with body *)
      left. rewrite <- ?app_assoc. cbn [app]. rewrite <- ?app_assoc. cbn [app]. rewrite <- ?app_assoc.
      unfold top_block_parsers, alt. apply alt_go_skip.
      { unfold parse_procedure_declaration. apply Fails_bind_l. eapply FailsAt_Fails. apply exp_token_nostart; [discriminate|].
        eapply nostart_ty; [exact Hft|reflexivity]. }
      intro b1. apply alt_go_here.
      assert (sfollow_h (hd_ty (body ++ e :: more))) as Hbh.
      { eapply body_head; [exact Hseq|exact He|reflexivity|]. intros x Hx. simpl in Hx. simpl. tauto. }
      assert (forall X, disj_b X (stmt_first ++ stops) = true -> nostart X (body ++ e :: more)) as Hbody
        by (intros X Hd; apply sfollow_nostart; [exact Hd|exact Hbh]).
      unfold parse_function_declaration.
      eapply Parses_bind; [apply exp_token_ok; exact Hft|]. cbv beta.
      eapply Parses_bind.
      { apply method_name_parses; [exact Hname|].
        apply (params_follow _ _ ps); [exact Hps|reflexivity|]. eapply nostart_ty; [exact Hrk|reflexivity]. }
      cbv beta. eapply Parses_bind; [apply (gram_params_rt (S fuel)); [exact Hps|eapply nostart_ty; [exact Hrk|reflexivity]]|]. cbv beta.
      eapply Parses_bind; [apply exp_token_ok; exact Hrk|]. cbv beta.
      eapply Parses_bind; [unfold alt; apply alt_go_here; apply type_basic_ok; exact Hrt|]. cbv beta.
      eapply Parses_bind; [apply method_mods_parses; [exact Hmods|apply Hbody; reflexivity]|]. cbv beta.
      unfold mk_func_node. destruct (method_mods_info mrs) as [[[mr rr] fl]|]; cbv beta iota zeta;
        cbn [mods_end mods_flags fst snd];
        (eapply Parses_bind; [apply method_tail_body; eassumption|]); cbv beta iota; apply Parses_ret.
    - (* func without body *)
      left. rewrite <- ?app_assoc. cbn [app]. rewrite <- ?app_assoc. cbn [app].
      unfold top_block_parsers, alt. apply alt_go_skip.
      { unfold parse_procedure_declaration. apply Fails_bind_l. eapply FailsAt_Fails. apply exp_token_nostart; [discriminate|].
        eapply nostart_ty; [exact Hft|reflexivity]. }
      intro b1. apply alt_go_here.
      assert (forall X, disj_b X decl_first = true -> nostart X more) as Hmore
        by (intros X Hd; apply dfollow_nostart; [exact Hd|exact Hfo]).
      unfold parse_function_declaration.
      eapply Parses_bind; [apply exp_token_ok; exact Hft|]. cbv beta.
      eapply Parses_bind.
      { apply method_name_parses; [exact Hname|].
        apply (params_follow _ _ ps); [exact Hps|reflexivity|]. eapply nostart_ty; [exact Hrk|reflexivity]. }
      cbv beta. eapply Parses_bind; [apply (gram_params_rt (S fuel)); [exact Hps|eapply nostart_ty; [exact Hrk|reflexivity]]|]. cbv beta.
      eapply Parses_bind; [apply exp_token_ok; exact Hrk|]. cbv beta.
      eapply Parses_bind; [unfold alt; apply alt_go_here; apply type_basic_ok; exact Hrt|]. cbv beta.
      eapply Parses_bind; [apply method_mods_parses; [exact Hmods|apply Hmore; reflexivity]|]. cbv beta.
      unfold mk_func_node. destruct (method_mods_info mrs) as [[[mr rr] fl]|]; cbv beta iota zeta;
        cbn [mods_end mods_flags fst snd];
        (eapply Parses_bind; [apply method_tail_nobody; exact Hhb|]); cbv beta iota; apply Parses_ret.
    - (* [ annotation ] class / module / type declaration *)
      pose proof (host_step (o :: abody ++ [c]) ts n more (An_some o abody c Ho Hab Hc) Hh Hfo) as X.
      cbn [app] in X. rewrite <- app_assoc in X. cbn [app] in X. rewrite <- app_assoc. cbn [app]. exact X.
  Qed.

  Lemma Decl_nonempty ts n : Decl ts n -> (1 <= length ts)%nat.
  Proof.
    intro H. destruct H; cbn [length app]; try lia.
    match goal with Ha : Annot ?ats |- _ => destruct Ha end; destruct mem; cbn [app opt_list length]; lia.
  Qed.

  (* ---------- the top-level loop ---------- *)

  Lemma top_loop_step lf whole acc i r n : i <> [] -> TopStep i r n -> forall c, cmemo c = false ->
    exists c1, quiet c c1 /\ top_loop g (S lf) whole acc i c = top_loop g lf whole (n :: acc) r c1.
  Proof.
    intros Hne Hs c Hc. destruct i as [|ft il]; [congruence|]. cbn [top_loop]. destruct Hs as [Hb|[Hbf Hdp]].
    - destruct (Hb c Hc) as (x & c1 & E1 & Q1 & ->). rewrite E1. exists c1. split; [exact Q1|reflexivity].
    - destruct (Hbf c Hc) as (x & c1 & E1 & Q1 & be & bm & ->). rewrite E1.
      destruct (Hdp c1 (quiet_memo _ _ Hc Q1)) as (y & c2 & E2 & Q2 & ->). rewrite E2.
      exists c2. split; [apply (quiet_trans _ _ _ Q1 Q2)|reflexivity].
  Qed.

  Lemma top_loop_decls : forall ts ns, Decls ts ns -> forall lfuel whole acc, (length ns < lfuel)%nat ->
    Parses (top_loop g lfuel whole acc) ts [] (rev acc ++ ns).
  Proof.
    intros ts ns H. induction H as [|ts n ts' ns Hd Hds IH Hfo|o abody c ts' ns Ho Hab Hc Hr Hds IH]; intros lfuel whole acc Hf c0 Hc0;
      (destruct lfuel as [|lf]; [simpl in Hf; lia|]).
    - cbn [top_loop]. eexists _, c0. split; [reflexivity|]. split; [apply quiet_refl|]. rewrite app_nil_r. reflexivity.
    - assert (ts ++ ts' <> []) as Hne by (pose proof (Decl_nonempty _ _ Hd); destruct ts; [simpl in *; lia|discriminate]).
      destruct (top_loop_step lf whole acc _ _ _ Hne (decl_parses ts n ts' Hd Hfo) c0 Hc0) as (c1 & Q1 & E). rewrite E.
      destruct (IH lf whole (n :: acc) ltac:(simpl in Hf; lia) c1 (quiet_memo _ _ Hc0 Q1)) as (z & c3 & E3 & Q3 & ->).
      eexists _, c3. split; [exact E3|]. split; [apply (quiet_trans _ _ _ Q1 Q3)|]. simpl. rewrite <- app_assoc. reflexivity.
    - assert (o :: abody ++ c :: ts' <> []) as Hne by discriminate.
      destruct (top_loop_step lf whole acc _ _ _ Hne (annot_step o abody c ts' Ho Hab Hc Hr) c0 Hc0) as (c1 & Q1 & E).
      rewrite E.
      destruct (IH lf whole (mk_empty_default :: acc) ltac:(simpl in Hf; lia) c1 (quiet_memo _ _ Hc0 Q1)) as (z & c3 & E3 & Q3 & ->).
      eexists _, c3. split; [exact E3|]. split; [apply (quiet_trans _ _ _ Q1 Q3)|]. simpl. rewrite <- app_assoc. reflexivity.
  Qed.

  Lemma Decls_length ts ns : Decls ts ns -> (length ns <= length ts)%nat.
  Proof.
    induction 1 as [|ts n ts' ns Hd Hds IH Hfo|o abody c ts' ns Ho Hab Hc Hr Hds IH]; [simpl; lia| |].
    - rewrite app_length. simpl. pose proof (Decl_nonempty _ _ Hd). lia.
    - simpl. rewrite app_length. simpl. lia.
  Qed.

  (* a derivable file parses to exactly its declarations: all tokens consumed, no diagnostics *)
  Theorem file_roundtrip_level ts ns : Decls ts ns ->
    exists c, parse_gold_with false (S fuel) ts = (Ok [] (mk_root ns), c) /\ cdiags c = [].
  Proof.
    intro H. unfold parse_gold_with.
    pose proof (Decls_length _ _ H) as Hl.
    destruct (top_loop_decls ts ns H (S (length ts)) ts [] ltac:(lia) (ctx0 false) eq_refl) as (x & c & E & Q & ->).
    fold g. rewrite E. exists c. split; [reflexivity|]. destruct Q as [Qd _]. exact Qd.
  Qed.
End Top.

(* ---------- any fuel above the derivation level ---------- *)

Lemma Decl_mono f f' : (f <= f')%nat -> rel_le (Decl f) (Decl f').
Proof.
  intros Hle ts n H.
  assert (rel_le (GStmt (S f)) (GStmt (S f'))) as Hs by (apply GStmt_mono; lia).
  assert (rel_le (GType (S f)) (GType (S f'))) as Ht by (apply GType_mono; lia).
  assert (forall ts n, GParams (S f) ts n -> GParams (S f') ts n) as Hp by (intros; eapply GParams_mono; [|eassumption]; lia).
  destruct H.
  - apply D_class; auto.
  - apply D_classp; auto.
  - apply D_module; auto.
  - apply D_uses; auto.
  - apply D_const_ml; auto.
  - apply D_typedecl; auto.
  - apply D_field_gen; auto.
  - apply D_comment; auto.
  - apply D_proc_gen; auto. eapply Seq_mono; eauto.
  - apply D_proc_nobody; auto.
  - apply D_func_gen; auto. eapply Seq_mono; eauto.
  - apply D_func_nobody; auto.
  - apply D_annotated; auto. match goal with X : Host _ _ _ |- _ => destruct X end;
      [apply H_class|apply H_classp|apply H_module|apply H_typedecl]; auto.
Qed.

Lemma Decls_mono f f' ts ns : (f <= f')%nat -> Decls f ts ns -> Decls f' ts ns.
Proof.
  intros Hle H. induction H; [apply Ds_nil|apply Ds_cons; auto|apply Ds_annot; auto]. eapply Decl_mono; eauto.
Qed.

Theorem file_roundtrip f fuel ts ns : Decls f ts ns -> (f < fuel)%nat ->
  exists c, parse_gold_with false fuel ts = (Ok [] (mk_root ns), c) /\ cdiags c = [].
Proof.
  intros H Hlt. destruct fuel as [|fu]; [lia|]. apply file_roundtrip_level. eapply Decls_mono; [|exact H]. lia.
Qed.
