(* C06: declarations and whole files round-trip.
   PROVED top-level forms: class header (with or without parent), module header, uses list,
   constant (string / number), field with a basic type, comment, procedure and function without
   parameter list and without modifiers whose body is any derivable statement sequence ([GStmt]).
   NOT proved here (correspondence only): parameters, member/method modifiers, forward/external,
   method#event names, type declarations and non-basic types, `memory` / `absolute` / `multilang`,
   annotations.
   [file_roundtrip]: for every derivable file, parse_gold (memoisation off, any fuel above the
   derivation level) returns the root with exactly the derived declarations, consumes every token
   and reports no diagnostic. *)
From GoldV Require Import Base Tokens Lexer AstKinds Tree Strings PComb Grammar Ladder RTComb LadderProofs ExprRT StmtRT.
From Coq Require Import Lia.

(* ---------- node builders ---------- *)

Definition mk_class (ct nt : tok) (parent : option (tok * tok)) : node :=
  let end_ := match parent with Some (_, e) => trange e | None => trange nt end in
  Node KAstClass (tval nt) (traw ct) (new_range (trange ct) end_)
       [(K_ident, AT nt); (K_parent, opt_toks (match parent with Some (p, _) => Some p | None => None end))] [].
Definition mk_module (mt nm : tok) : node :=
  Node KAstModule (tval nm) (traw mt) (range_of_toks mt nm) [(K_ident, AT nm)] [].
Definition mk_uses (ut : tok) (ids : list tok) : node :=
  let end_ := match rev ids with t :: _ => rend (trange t) | [] => rend (trange ut) end in
  Node KAstUses S_uses (traw ut) (mkRange (tpos ut) end_) [(K_uses, AL ids)] [].
Definition mk_const (ct id v : tok) : node :=
  Node KAstConstantDeclaration (tval id) (traw ct) (range_of_toks ct v)
       [(K_ident, AT id); (K_flags, AN 0); (K_value, AL [v])] [].
Definition mk_field (id : tok) (ty : node) : node :=
  Node KAstGlobalVariableDeclaration (tval id) (traw id) (new_range (trange id) (nrange ty))
       [(K_ident, AT id); (K_flags, AN 0)] [ty].
Definition mk_method_body (body : list tok) (stmts : list node) : option node :=
  match body with
  | [] => None
  | first :: _ =>
      let last_tok := match rev body with t :: _ => t | [] => first end in
      let '(raw, sr, er) :=
        match stmts with
        | s0 :: _ => (nraw s0, nrange s0, match rev stmts with n :: _ => nrange n | [] => nrange s0 end)
        | [] => (traw first, trange first, trange last_tok)
        end in
      Some (Node KAstMethodBody S_method_body raw (new_range sr er) [] stmts)
  end.
Definition body_or_default (b : option node) (raw : N) (rg : range) : node :=
  match b with Some n => n | None => Node KAstMethodBody S_method_body raw rg [] [] end.
Definition mk_proc (pt nm : tok) (body : list tok) (stmts : list node) (e : tok) : node :=
  let name := mk_terminal nm in
  Node KAstProcedure (tval nm) (traw pt) (new_range (trange pt) (trange e))
       [(K_end, AL [e]); (K_flags, AN 0)]
       [name; body_or_default (mk_method_body body stmts) (nraw name) (nrange name)].
Definition mk_func (ft nm rt : tok) (body : list tok) (stmts : list node) (e : tok) : node :=
  let name := mk_terminal nm in
  let rty := mk_type_basic rt in
  Node KAstFunction (tval nm) (traw ft) (new_range (trange ft) (trange e))
       [(K_end, AL [e]); (K_flags, AN 0)]
       [name; rty; body_or_default (mk_method_body body stmts) (nraw rty) (nrange rty)].

(* ---------- small combinator facts ---------- *)

Lemma until_no_match_none {A} (p : P A) i : Fails p i -> Parses (until_no_match p) i i [].
Proof.
  intros H c Hc. unfold until_no_match. cbn [until_no_match_go]. destruct i as [|t i'].
  - eexists _, c. repeat split.
  - destruct (H c Hc) as (x & c1 & E & Q & e & m & ->). rewrite E. eexists _, c1. repeat split; apply Q.
Qed.

(* t1 , t2 , t3 *)
Inductive TokList (item sep : ttype) : list tok -> list tok -> Prop :=
| TL_one t : tty t = item -> TokList item sep [t] [t]
| TL_cons t cm ts ids : tty t = item -> tty cm = sep -> TokList item sep ts ids -> TokList item sep (t :: cm :: ts) (t :: ids).

Lemma sep_tokens_go_ok item sep : sep <> TComment -> forall ts ids, TokList item sep ts ids ->
  forall fuel acc more, (length ids <= fuel)%nat -> nostart [sep] more ->
  Parses (sep_tokens_go fuel item sep acc) (ts ++ more) more (rev acc ++ ids).
Proof.
  intros Hs ts ids H. induction H as [t Ht|t cm ts ids Ht Hcm Hrest IH]; intros fuel acc more Hf Hn c Hc;
    (destruct fuel as [|f]; [simpl in Hf; lia|]); cbn [sep_tokens_go app].
  - destruct (Parses_run _ _ _ _ c (exp_token_ok item t more Ht) Hc) as (c1 & E1 & Q1). rewrite E1.
    destruct (exp_token_nostart sep more Hs Hn c1 (quiet_memo _ _ Hc Q1)) as (x & c2 & E2 & Q2 & m & ->). rewrite E2.
    eexists _, c2. split; [reflexivity|]. split; [apply (quiet_trans _ _ _ Q1 Q2)|reflexivity].
  - destruct (Parses_run _ _ _ _ c (exp_token_ok item t (cm :: ts ++ more) Ht) Hc) as (c1 & E1 & Q1). rewrite E1.
    destruct (Parses_run _ _ _ _ c1 (exp_token_ok sep cm (ts ++ more) Hcm) (quiet_memo _ _ Hc Q1)) as (c2 & E2 & Q2). rewrite E2.
    pose proof (quiet_trans _ _ _ Q1 Q2) as Q12.
    destruct (IH f (t :: acc) more ltac:(simpl in Hf; lia) Hn c2 (quiet_memo _ _ Hc Q12)) as (z & c3 & E3 & Q3 & ->).
    eexists _, c3. split; [exact E3|]. split; [apply (quiet_trans _ _ _ Q12 Q3)|]. simpl. rewrite <- app_assoc. reflexivity.
Qed.

Lemma TokList_len item sep ts ids : TokList item sep ts ids -> (length ids <= length ts)%nat.
Proof. induction 1; simpl; lia. Qed.

Lemma sep_tokens_ok item sep ts ids more : sep <> TComment -> TokList item sep ts ids -> nostart [sep] more ->
  Parses (sep_tokens item sep) (ts ++ more) more ids.
Proof.
  intros Hs H Hn. unfold sep_tokens. apply (sep_tokens_go_ok item sep Hs ts ids H _ [] more); [|exact Hn].
  pose proof (TokList_len _ _ _ _ H). rewrite app_length. lia.
Qed.

(* ---------- what may follow a top-level declaration ---------- *)

Definition decl_first : list ttype := [TClass; TModule; TUses; TType; TConst; TIdentifier; TMemory; TProc; TFunc; TOSqrBracket].
Definition dfollow_h (h : option ttype) : Prop := match h with None => True | Some ty => In ty decl_first end.
Definition dcmt_h (h : option ttype) : Prop := match h with None => True | Some ty => ~ In ty [TProc; TFunc] end.
Definition dfollow_ok (ts : list tok) (h : option ttype) : Prop := dfollow_h h /\ (hd_ty ts = None -> dcmt_h h).

Lemma dfollow_nostart X more : disj_b X decl_first = true -> dfollow_h (hd_ty more) -> nostart X more.
Proof. intros Hd Hs ty Hh Hx. rewrite Hh in Hs. simpl in Hs. apply (disj_b_spec _ _ _ Hd Hx Hs). Qed.

Definition method_mods : list ttype := [TPrivate; TProtected; TFinal; TOverride; TExternal; TForward].

Section Top.
  Variable fuel : nat.                        (* the grammar level the file is parsed with: gram (S fuel) *)
  Let g := gram (S fuel).

  Inductive Decl : list tok -> node -> Prop :=
  | D_class ct nt : tty ct = TClass -> tty nt = TIdentifier -> Decl [ct; nt] (mk_class ct nt None)
  | D_classp ct nt o p c : tty ct = TClass -> tty nt = TIdentifier -> tty o = TOBracket -> tty p = TIdentifier ->
      tty c = TCBracket -> Decl [ct; nt; o; p; c] (mk_class ct nt (Some (p, c)))
  | D_module mt nm : tty mt = TModule -> tty nm = TIdentifier -> Decl [mt; nm] (mk_module mt nm)
  | D_uses ut ts ids : tty ut = TUses -> TokList TIdentifier TComma ts ids -> Decl (ut :: ts) (mk_uses ut ids)
  | D_const ct id eq v : tty ct = TConst -> tty id = TIdentifier -> tty eq = TEquals ->
      In (tty v) [TStringLiteral; TNumericLiteral] -> Decl [ct; id; eq; v] (mk_const ct id v)
  | D_field id col tts tn : tty id = TIdentifier -> tty col = TColon -> TypeR tts tn ->
      Decl (id :: col :: tts) (mk_field id tn)
  | D_comment c : tty c = TComment -> Decl [c] (mk_comment c)
  | D_proc pt nm body ns e : tty pt = TProc -> In (tty nm) ident_types ->
      Seq (GStmt (S fuel)) None body ns -> Forall (fun t => ~ In (tty t) [TEndProc; TEnd]) body ->
      In (tty e) [TEndProc; TEnd] -> Decl (pt :: nm :: body ++ [e]) (mk_proc pt nm body ns e)
  | D_func ft nm rk rt body ns e : tty ft = TFunc -> In (tty nm) ident_types -> tty rk = TReturn -> tty rt = TIdentifier ->
      Seq (GStmt (S fuel)) None body ns -> Forall (fun t => ~ In (tty t) [TEndFunc; TEnd]) body ->
      In (tty e) [TEndFunc; TEnd] -> Decl (ft :: nm :: rk :: rt :: body ++ [e]) (mk_func ft nm rt body ns e).

  (* a file: declarations one after the other *)
  Inductive Decls : list tok -> list node -> Prop :=
  | Ds_nil : Decls [] []
  | Ds_cons ts n ts' ns : Decl ts n -> Decls ts' ns -> dfollow_ok ts (hd_ty ts') -> Decls (ts ++ ts') (n :: ns).

  (* ---------- method bodies ---------- *)

  Lemma body_terms terms body : Forall (fun t => ~ In (tty t) terms) body ->
    Forall (fun x => existsb (tt_eqb (tty x)) terms = false) body.
  Proof.
    intro H. eapply Forall_impl; [|exact H]. intros t Ht. cbv beta in Ht.
    destruct (existsb (tt_eqb (tty t)) terms) eqn:E; [|reflexivity]. exfalso. apply Ht.
    apply mem_ty_In. exact E.
  Qed.

  Lemma method_body_parses body ns i : Seq (GStmt (S fuel)) None body ns ->
    Parses (parse_method_body g body) i i (mk_method_body body ns).
  Proof.
    intro Hseq. unfold parse_method_body, mk_method_body. destruct body as [|first body']; [apply Parses_ret|].
    apply (on_slice_ok _ _ i []).
    eapply Parses_bind; [apply Parses_with_ctx_clear|]. cbv beta.
    eapply Parses_bind.
    { eapply (repeat_chain _ (fail [])).
      - pose proof (Seq_chain (S fuel) (GStmt (S fuel)) (gram_stmt_rt (S fuel)) (GStmt_head (S fuel))
                      (fail []) [] None (first :: body') ns [] Hseq eq_refl) as Hch.
        rewrite app_nil_r in Hch. apply Hch.
        + intros j _. eapply FailsAt_Fails. apply FailsAt_fail.
        + reflexivity.
        + intros x [].
      - apply (Seq_length (GStmt (S fuel)) (GStmt_head (S fuel)) _ _ _ Hseq). }
    cbv beta. destruct ns as [|s0 ns']; apply Parses_ret.
  Qed.

  Lemma method_mods_none i : nostart method_mods i -> Parses parse_method_modifiers i i None.
  Proof.
    intros H c Hc. unfold parse_method_modifiers.
    match goal with |- context [until_no_match ?p i c] =>
      assert (Fails p i) as Hf end.
    { apply alt_fails; [discriminate|]. repeat (apply Forall_cons || apply Forall_nil).
      - unfold parse_member_modifier_tokens. eapply FailsAt_Fails. apply tok_alt_nostart; [discriminate|reflexivity|sub_nostart H].
      - unfold parse_method_external. apply Fails_bind_l. apply seq_tokens_fail; [discriminate|sub_nostart H].
      - eapply FailsAt_Fails. apply exp_token_nostart; [discriminate|sub_nostart H]. }
    destruct (Parses_run _ _ _ _ c (until_no_match_none _ i Hf) Hc) as (c1 & E1 & Q1). rewrite E1.
    eexists _, c1. repeat split; apply Q1.
  Qed.

  Lemma member_mods_none i : nostart method_mods i -> Parses parse_member_modifiers i i None.
  Proof.
    intros H c Hc. unfold parse_member_modifiers.
    assert (Fails parse_member_modifier_tokens i) as Hf.
    { unfold parse_member_modifier_tokens. eapply FailsAt_Fails. apply tok_alt_nostart; [discriminate|reflexivity|sub_nostart H]. }
    destruct (Parses_run _ _ _ _ c (until_no_match_none _ i Hf) Hc) as (c1 & E1 & Q1). rewrite E1.
    eexists _, c1. repeat split; apply Q1.
  Qed.

  Lemma method_name_parses nm r : In (tty nm) ident_types -> nostart [TPound] r ->
    Parses parse_method_name (nm :: r) r (mk_terminal nm).
  Proof.
    intros Hn Hr. unfold parse_method_name, alt. apply alt_go_skip.
    { unfold parse_method_name_uievent. eapply Fails_bind_r; [apply parse_identifier_ok; exact Hn|].
      apply Fails_bind_l. eapply FailsAt_Fails. apply exp_token_nostart; [discriminate|exact Hr]. }
    intro b. apply alt_go_here. apply parse_identifier_ok. exact Hn.
  Qed.

  Lemma no_params i : nostart [TOBracket] i -> Parses (parse_parameter_declaration_list (g_type g)) i i None.
  Proof.
    intro H. unfold parse_parameter_declaration_list.
    eapply Parses_bind; [apply Parses_rae_none; apply exp_token_nostart; [discriminate|exact H]|]. cbv beta iota. apply Parses_ret.
  Qed.

  (* the head of a body followed by its end token *)
  Lemma body_head terms body ns e more : Seq (GStmt (S fuel)) None body ns -> In (tty e) terms ->
    disj_b terms [TComment] = true -> (forall x, In x terms -> In x stops) ->
    sfollow_h (hd_ty (body ++ e :: more)).
  Proof.
    intros Hseq He Hc Hsub.
    assert (hd_ty (e :: more) = Some (tty e)) as Hh.
    { apply hd_ty_cons. intro X. apply (disj_b_spec _ _ _ Hc He). left. auto. }
    assert (sfollow_h (Some (tty e))) as Hs by (cbn [sfollow_h]; apply in_or_app; right; apply Hsub; exact He).
    clear Hc. induction Hseq as [|ts n ts' ns Hn Hseq IH Hfo]; [cbn [app]; rewrite Hh; exact Hs|].
    rewrite <- app_assoc, hd_ty_app. destruct (hd_ty ts) as [ty|] eqn:E; [|exact IH].
    cbn [sfollow_h]. apply in_or_app. left. apply (proj2 (GStmt_head _ _ _ Hn)). exact E.
  Qed.

  Lemma method_tail_parses first eraw erange terms msg body ns e more :
    Seq (GStmt (S fuel)) None body ns -> Forall (fun t => ~ In (tty t) terms) body -> In (tty e) terms ->
    Parses (method_tail g first eraw erange None terms msg) (body ++ e :: more) more
           (Some (body_or_default (mk_method_body body ns) eraw erange), Some e, trange e).
  Proof.
    intros Hseq Hb He. unfold method_tail. cbn [has_method_body].
    eapply Parses_bind.
    { apply take_until_ok; [apply body_terms; exact Hb|]. apply mem_ty_In. exact He. }
    cbv beta iota. eapply Parses_bind; [apply method_body_parses; exact Hseq|]. cbv beta.
    eapply Parses_bind; [apply Parses_ret|]. cbv beta. apply Parses_ret.
  Qed.

  (* ---------- one declaration ---------- *)

  Definition TopStep (i r : input) (n : node) : Prop :=
    Parses (alt (top_block_parsers g)) i r n \/
    (Fails (alt (top_block_parsers g)) i /\ Parses (alt (top_decl_parsers g)) i r n).

  Lemma top_blocks_fail i : nostart [TProc; TFunc] i -> Fails (alt (top_block_parsers g)) i.
  Proof.
    intro H. apply alt_fails; [discriminate|]. repeat (apply Forall_cons || apply Forall_nil).
    - unfold parse_procedure_declaration. apply Fails_bind_l. eapply FailsAt_Fails. apply exp_token_nostart; [discriminate|sub_nostart H].
    - unfold parse_function_declaration. apply Fails_bind_l. eapply FailsAt_Fails. apply exp_token_nostart; [discriminate|sub_nostart H].
  Qed.

  Lemma annot_none i : nostart [TOSqrBracket] i -> Parses (opt parse_annotations) i i None.
  Proof.
    intro H. apply Parses_opt_none. unfold parse_annotations. apply Fails_bind_l.
    eapply FailsAt_Fails. apply exp_token_nostart; [discriminate|exact H].
  Qed.

  Lemma class_fails i : nostart [TOSqrBracket; TClass] i -> Fails parse_class i.
  Proof.
    intro H. unfold parse_class. eapply Fails_bind_r; [apply annot_none; sub_nostart H|].
    apply Fails_bind_l. eapply FailsAt_Fails. apply exp_token_nostart; [discriminate|sub_nostart H].
  Qed.

  Lemma module_fails i : nostart [TOSqrBracket; TModule] i -> Fails parse_module i.
  Proof.
    intro H. unfold parse_module. eapply Fails_bind_r; [apply annot_none; sub_nostart H|].
    apply Fails_bind_l. eapply FailsAt_Fails. apply exp_token_nostart; [discriminate|sub_nostart H].
  Qed.

  Lemma uses_fails' i : nostart [TUses] i -> Fails parse_uses i.
  Proof. intro H. unfold parse_uses. apply Fails_bind_l. eapply FailsAt_Fails. apply exp_token_nostart; [discriminate|exact H]. Qed.

  Lemma typedecl_fails' i : nostart [TOSqrBracket; TType] i -> Fails (parse_type_declaration (g_type g)) i.
  Proof.
    intro H. unfold parse_type_declaration. eapply Fails_bind_r; [apply annot_none; sub_nostart H|].
    apply Fails_bind_l. apply seq_tokens_fail; [discriminate|sub_nostart H].
  Qed.

  Lemma const_fails' i : nostart [TConst] i -> Fails parse_constant_declaration i.
  Proof.
    intro H. unfold parse_constant_declaration. apply Fails_bind_l. apply Fails_prepend.
    eapply FailsAt_Fails. apply exp_token_nostart; [discriminate|exact H].
  Qed.

  Lemma comment_fails' t r : tty t <> TComment -> Fails parse_comment (t :: r).
  Proof. intro H. unfold parse_comment. apply Fails_bind_l. eapply FailsAt_Fails. apply exp_comment_fail. exact H. Qed.

  Theorem decl_parses ts n more : Decl ts n -> dfollow_ok ts (hd_ty more) -> TopStep (ts ++ more) more n.
  Proof.
    intros H [Hfo Hcm].
    destruct H as [ct nt Hct Hnt|ct nt o p c Hct Hnt Ho Hp Hc|mt nm Hmt Hnm|ut ts ids Hut Hl|ct id eq v Hct Hid Heq Hv
                  |id col tts tn Hid Hcol Hty|c Hc|pt nm body ns e Hpt Hnm Hseq Hb He
                  |ft nm rk rt body ns e Hft Hnm Hrk Hrt Hseq Hb He]; cbn [app].
    - (* class X *)
      right. assert (nostart [TProc; TFunc; TOSqrBracket] (ct :: nt :: more)) as Hn by (eapply nostart_ty; [exact Hct|reflexivity]).
      split; [apply top_blocks_fail; sub_nostart Hn|]. unfold top_decl_parsers, alt.
      apply alt_go_skip; [apply comment_fails'; rewrite Hct; discriminate|]. intro b1. apply alt_go_here.
      unfold parse_class. eapply Parses_bind; [apply annot_none; sub_nostart Hn|]. cbv beta.
      eapply Parses_bind; [apply exp_token_ok; exact Hct|]. cbv beta.
      eapply Parses_bind; [apply exp_token_ok; exact Hnt|]. cbv beta.
      eapply Parses_bind.
      { apply Parses_opt_none. unfold parse_parent_class. apply Fails_bind_l. apply seq_tokens_fail; [discriminate|].
        apply dfollow_nostart; [reflexivity|exact Hfo]. }
      cbv beta iota. apply Parses_ret.
    - (* class X (P) *)
      right. assert (nostart [TProc; TFunc; TOSqrBracket] (ct :: nt :: o :: p :: c :: more)) as Hn by (eapply nostart_ty; [exact Hct|reflexivity]).
      split; [apply top_blocks_fail; sub_nostart Hn|]. unfold top_decl_parsers, alt.
      apply alt_go_skip; [apply comment_fails'; rewrite Hct; discriminate|]. intro b1. apply alt_go_here.
      unfold parse_class. eapply Parses_bind; [apply annot_none; sub_nostart Hn|]. cbv beta.
      eapply Parses_bind; [apply exp_token_ok; exact Hct|]. cbv beta.
      eapply Parses_bind; [apply exp_token_ok; exact Hnt|]. cbv beta.
      eapply Parses_bind.
      { apply Parses_opt_some. unfold parse_parent_class.
        eapply Parses_bind; [apply (seq_tokens_ok _ [o; p; c] more); cbn [map]; rewrite Ho, Hp, Hc; reflexivity|].
        cbv beta iota. apply Parses_ret. }
      cbv beta iota. apply Parses_ret.
    - (* module X *)
      right. assert (nostart [TProc; TFunc; TOSqrBracket; TClass] (mt :: nm :: more)) as Hn by (eapply nostart_ty; [exact Hmt|reflexivity]).
      split; [apply top_blocks_fail; sub_nostart Hn|]. unfold top_decl_parsers, alt.
      apply alt_go_skip; [apply comment_fails'; rewrite Hmt; discriminate|]. intro b1.
      apply alt_go_skip; [apply class_fails; sub_nostart Hn|]. intro b2. apply alt_go_here.
      unfold parse_module. eapply Parses_bind; [apply annot_none; sub_nostart Hn|]. cbv beta.
      eapply Parses_bind; [apply exp_token_ok; exact Hmt|]. cbv beta.
      eapply Parses_bind; [apply exp_token_ok; exact Hnm|]. cbv beta. apply Parses_ret.
    - (* uses a, b *)
      right. assert (nostart [TProc; TFunc; TOSqrBracket; TClass; TModule] (ut :: ts ++ more)) as Hn by (eapply nostart_ty; [exact Hut|reflexivity]).
      split; [apply top_blocks_fail; sub_nostart Hn|]. unfold top_decl_parsers, alt.
      apply alt_go_skip; [apply comment_fails'; rewrite Hut; discriminate|]. intro b1.
      apply alt_go_skip; [apply class_fails; sub_nostart Hn|]. intro b2.
      apply alt_go_skip; [apply module_fails; sub_nostart Hn|]. intro b3. apply alt_go_here.
      unfold parse_uses. eapply Parses_bind; [apply exp_token_ok; exact Hut|]. cbv beta.
      eapply Parses_bind; [apply sep_tokens_ok; [discriminate|exact Hl|apply dfollow_nostart; [reflexivity|exact Hfo]]|].
      cbv beta. apply Parses_ret.
    - (* const c = v *)
      right. assert (nostart [TProc; TFunc; TOSqrBracket; TClass; TModule; TUses; TType] (ct :: id :: eq :: v :: more)) as Hn
        by (eapply nostart_ty; [exact Hct|reflexivity]).
      split; [apply top_blocks_fail; sub_nostart Hn|]. unfold top_decl_parsers, alt.
      apply alt_go_skip; [apply comment_fails'; rewrite Hct; discriminate|]. intro b1.
      apply alt_go_skip; [apply class_fails; sub_nostart Hn|]. intro b2.
      apply alt_go_skip; [apply module_fails; sub_nostart Hn|]. intro b3.
      apply alt_go_skip; [apply uses_fails'; sub_nostart Hn|]. intro b4.
      apply alt_go_skip; [apply typedecl_fails'; sub_nostart Hn|]. intro b5. apply alt_go_here.
      unfold parse_constant_declaration.
      eapply Parses_bind; [apply Parses_prepend; apply exp_token_ok; exact Hct|]. cbv beta.
      eapply Parses_bind; [apply Parses_prepend; apply exp_token_ok; exact Hid|]. cbv beta.
      eapply Parses_bind; [apply Parses_prepend; apply exp_token_ok; exact Heq|]. cbv beta.
      eapply Parses_bind; [apply Parses_prepend; apply tok_alt_in; [exact Hv|reflexivity]|]. cbv beta.
      eapply Parses_bind.
      { apply Parses_rae_none. apply exp_token_nostart; [discriminate|]. apply dfollow_nostart; [reflexivity|exact Hfo]. }
      cbv beta iota. apply Parses_ret.
    - (* field : T *)
      right. assert (nostart [TProc; TFunc; TOSqrBracket; TClass; TModule; TUses; TType; TConst; TMemory] (id :: col :: tts ++ more)) as Hn
        by (eapply nostart_ty; [exact Hid|reflexivity]).
      split; [apply top_blocks_fail; sub_nostart Hn|]. unfold top_decl_parsers, alt.
      apply alt_go_skip; [apply comment_fails'; rewrite Hid; discriminate|]. intro b1.
      apply alt_go_skip; [apply class_fails; sub_nostart Hn|]. intro b2.
      apply alt_go_skip; [apply module_fails; sub_nostart Hn|]. intro b3.
      apply alt_go_skip; [apply uses_fails'; sub_nostart Hn|]. intro b4.
      apply alt_go_skip; [apply typedecl_fails'; sub_nostart Hn|]. intro b5.
      apply alt_go_skip; [apply const_fails'; sub_nostart Hn|]. intro b6. apply alt_go_here.
      unfold parse_global_variable_declaration.
      eapply Parses_bind; [apply annot_none; sub_nostart Hn|]. cbv beta.
      eapply Parses_bind; [apply Parses_rae_none; apply exp_token_nostart; [discriminate|sub_nostart Hn]|]. cbv beta.
      eapply Parses_bind; [apply exp_token_ok; exact Hid|]. cbv beta.
      eapply Parses_bind; [apply exp_token_ok; exact Hcol|]. cbv beta.
      eapply Parses_bind; [apply type_parses; [exact Hty|apply dfollow_nostart; [reflexivity|exact Hfo]]|]. cbv beta.
      eapply Parses_bind; [apply member_mods_none; apply dfollow_nostart; [reflexivity|exact Hfo]|]. cbv beta.
      eapply Parses_bind.
      { apply Parses_opt_none. eapply FailsAt_Fails. apply exp_token_nostart; [discriminate|].
        apply dfollow_nostart; [reflexivity|exact Hfo]. }
      cbv beta iota. eapply Parses_bind; [apply Parses_ret|]. cbv beta iota. apply Parses_ret.
    - (* comment *)
      right. assert (hd_ty [c] = None) as Hnone by (simpl; unfold is_comment; rewrite Hc, tt_eqb_refl; reflexivity).
      specialize (Hcm Hnone). split.
      + apply top_blocks_fail. apply nostart_comment; [exact Hc|]. intros ty Hh X. rewrite Hh in Hcm. apply Hcm. exact X.
      + unfold top_decl_parsers, alt. apply alt_go_here. unfold parse_comment.
        eapply Parses_bind; [apply exp_token_ok; exact Hc|]. cbv beta. apply Parses_ret.
    - (* proc *)
      left. rewrite <- app_assoc. cbn [app]. unfold top_block_parsers, alt. apply alt_go_here.
      assert (sfollow_h (hd_ty (body ++ e :: more))) as Hbh.
      { eapply body_head; [exact Hseq|exact He|reflexivity|]. intros x Hx. simpl in Hx. simpl. tauto. }
      unfold parse_procedure_declaration.
      eapply Parses_bind; [apply exp_token_ok; exact Hpt|]. cbv beta.
      eapply Parses_bind; [apply method_name_parses; [exact Hnm|apply sfollow_nostart; [reflexivity|exact Hbh]]|]. cbv beta.
      eapply Parses_bind; [apply no_params; apply sfollow_nostart; [reflexivity|exact Hbh]|]. cbv beta.
      eapply Parses_bind; [apply method_mods_none; apply sfollow_nostart; [reflexivity|exact Hbh]|]. cbv beta iota.
      eapply Parses_bind; [apply method_tail_parses; eassumption|]. cbv beta iota. apply Parses_ret.
    - (* func *)
      left. rewrite <- app_assoc. cbn [app]. unfold top_block_parsers, alt. apply alt_go_skip.
      { unfold parse_procedure_declaration. apply Fails_bind_l. eapply FailsAt_Fails. apply exp_token_nostart; [discriminate|].
        eapply nostart_ty; [exact Hft|reflexivity]. }
      intro b1. apply alt_go_here.
      assert (sfollow_h (hd_ty (body ++ e :: more))) as Hbh.
      { eapply body_head; [exact Hseq|exact He|reflexivity|]. intros x Hx. simpl in Hx. simpl. tauto. }
      unfold parse_function_declaration.
      eapply Parses_bind; [apply exp_token_ok; exact Hft|]. cbv beta.
      eapply Parses_bind; [apply method_name_parses; [exact Hnm|eapply nostart_ty; [exact Hrk|reflexivity]]|]. cbv beta.
      eapply Parses_bind; [apply no_params; eapply nostart_ty; [exact Hrk|reflexivity]|]. cbv beta.
      eapply Parses_bind; [apply exp_token_ok; exact Hrk|]. cbv beta.
      eapply Parses_bind.
      { unfold alt. apply alt_go_here. unfold parse_type_basic.
        eapply Parses_bind; [apply tok_alt_in; [left; symmetry; exact Hrt|reflexivity]|]. apply Parses_ret. }
      cbv beta.
      eapply Parses_bind; [apply method_mods_none; apply sfollow_nostart; [reflexivity|exact Hbh]|]. cbv beta iota.
      eapply Parses_bind; [apply method_tail_parses; eassumption|]. cbv beta iota. apply Parses_ret.
  Qed.

  (* ---------- the top-level loop ---------- *)

  Lemma top_loop_decls : forall ts ns, Decls ts ns -> forall lfuel whole acc, (length ns < lfuel)%nat ->
    Parses (top_loop g lfuel whole acc) ts [] (rev acc ++ ns).
  Proof.
    intros ts ns H. induction H as [|ts n ts' ns Hd Hds IH Hfo]; intros lfuel whole acc Hf c Hc;
      (destruct lfuel as [|lf]; [simpl in Hf; lia|]); cbn [top_loop].
    - eexists _, c. split; [reflexivity|]. split; [apply quiet_refl|]. rewrite app_nil_r. reflexivity.
    - assert (ts ++ ts' <> []) as Hne by (destruct Hd; discriminate).
      destruct (ts ++ ts') as [|ft il] eqn:Ei; [congruence|]. rewrite <- Ei in *.
      destruct (decl_parses ts n ts' Hd Hfo) as [Hb|[Hbf Hdp]].
      + destruct (Hb c Hc) as (x & c1 & E1 & Q1 & ->). rewrite E1.
        destruct (IH lf whole (n :: acc) ltac:(simpl in Hf; lia) c1 (quiet_memo _ _ Hc Q1)) as (z & c3 & E3 & Q3 & ->).
        eexists _, c3. split; [exact E3|]. split; [apply (quiet_trans _ _ _ Q1 Q3)|]. simpl. rewrite <- app_assoc. reflexivity.
      + destruct (Hbf c Hc) as (x & c1 & E1 & Q1 & be & bm & ->). rewrite E1.
        destruct (Hdp c1 (quiet_memo _ _ Hc Q1)) as (y & c2 & E2 & Q2 & ->). rewrite E2.
        pose proof (quiet_trans _ _ _ Q1 Q2) as Q12.
        destruct (IH lf whole (n :: acc) ltac:(simpl in Hf; lia) c2 (quiet_memo _ _ Hc Q12)) as (z & c3 & E3 & Q3 & ->).
        eexists _, c3. split; [exact E3|]. split; [apply (quiet_trans _ _ _ Q12 Q3)|]. simpl. rewrite <- app_assoc. reflexivity.
  Qed.

  Lemma Decls_length ts ns : Decls ts ns -> (length ns <= length ts)%nat.
  Proof.
    induction 1 as [|ts n ts' ns Hd Hds IH Hfo]; [simpl; lia|]. rewrite app_length. simpl.
    assert (1 <= length ts)%nat by (destruct Hd; simpl; lia). lia.
  Qed.

  (* a derivable file parses to exactly its declarations: all tokens consumed, no diagnostics *)
  Theorem file_roundtrip_level ts ns : Decls ts ns ->
    exists c, parse_gold_with false (S fuel) ts = (Ok [] (mk_root ns), c) /\ cdiags c = [].
  Proof.
    intro H. unfold parse_gold_with.
    pose proof (Decls_length _ _ H) as Hl.
    destruct (top_loop_decls ts ns H (S (length ts)) ts [] ltac:(lia) (ctx0 false) eq_refl) as (x & c & E & Q & ->).
    fold g. rewrite E. exists c. split; [reflexivity|]. destruct Q as [Qd _]. exact Qd.
  Qed.
End Top.

(* ---------- any fuel above the derivation level ---------- *)

Lemma Decl_mono f f' : (f <= f')%nat -> rel_le (Decl f) (Decl f').
Proof.
  intros Hle ts n H.
  assert (rel_le (GStmt (S f)) (GStmt (S f'))) as Hs by (apply GStmt_mono; lia).
  destruct H.
  - apply D_class; auto.
  - apply D_classp; auto.
  - apply D_module; auto.
  - apply D_uses; auto.
  - apply D_const; auto.
  - apply D_field; auto.
  - apply D_comment; auto.
  - apply D_proc; auto. eapply Seq_mono; eauto.
  - apply D_func; auto. eapply Seq_mono; eauto.
Qed.

Lemma Decls_mono f f' ts ns : (f <= f')%nat -> Decls f ts ns -> Decls f' ts ns.
Proof.
  intros Hle H. induction H; [apply Ds_nil|apply Ds_cons; auto]. eapply Decl_mono; eauto.
Qed.

Theorem file_roundtrip f fuel ts ns : Decls f ts ns -> (f < fuel)%nat ->
  exists c, parse_gold_with false fuel ts = (Ok [] (mk_root ns), c) /\ cdiags c = [].
Proof.
  intros H Hlt. destruct fuel as [|fu]; [lia|]. apply file_roundtrip_level. eapply Decls_mono; [|exact H]. lia.
Qed.
