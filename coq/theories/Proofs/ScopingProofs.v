(* C10 / C11: the resolution functions of Model/Scoping.v, performed on the symbol tables the
   annotator builds, compute the declarations Gold scoping selects.
   Declarative specification (no symbol tables): `visible`, `members_all`, `nearest_member`;
   the tables are characterised with the C18 results (SymTabProofs). *)
From GoldV Require Import Base SymTab SymTabProofs Scoping.

(* ---------- packing of symbol type and declaration tag ---------- *)

Lemma kcode_lt k : kcode k < 8.
Proof. destruct k; reflexivity. Qed.

Lemma dtag_pack k t : (pack k t) / 8 = t.
Proof.
  unfold pack. symmetry. apply N.div_unique with (r := kcode k); [apply kcode_lt | lia].
Qed.

Lemma kind_pack k t : kdecode ((pack k t) mod 8) = k.
Proof.
  unfold pack.
  rewrite <- (N.mod_unique (t * 8 + kcode k) 8 t (kcode k)); [destruct k; reflexivity | apply kcode_lt | lia].
Qed.

Definition sym_of_member (m : member) : sym := mkSym (m_name m) (pack (kind_of_member m) (m_tag m)).
Definition sym_of_var (v : var) : sym := mkSym (v_name v) (pack KVariable (v_tag v)).

Lemma dtag_member m : dtag (sym_of_member m) = m_tag m.
Proof. unfold dtag, sym_of_member; simpl. apply dtag_pack. Qed.

Lemma dtag_var v : dtag (sym_of_var v) = v_tag v.
Proof. unfold dtag, sym_of_var; simpl. apply dtag_pack. Qed.

Lemma skind_member m : skind_of (sym_of_member m) = kind_of_member m.
Proof. unfold skind_of, sym_of_member; simpl. apply kind_pack. Qed.

Lemma skind_var v : skind_of (sym_of_var v) = KVariable.
Proof. unfold skind_of, sym_of_var; simpl. apply kind_pack. Qed.

(* ---------- the tables: contents, owner, representation invariant ---------- *)

Lemma fold_ins_syms {A} (f : A -> sym) (g : scope -> A -> scope) l s :
  (forall s a, g s a = insert_scope s (sid (f a)) (stag (f a))) ->
  syms (fold_left g l s) = syms s ++ map f l /\ cls (fold_left g l s) = cls s /\
  (Inv s -> Inv (fold_left g l s)).
Proof.
  intro Hg. revert s. induction l as [|a l IH]; intro s; simpl.
  - rewrite app_nil_r. auto.
  - destruct (IH (g s a)) as (H1 & H2 & H3). rewrite H1, H2, Hg. simpl.
    rewrite <- app_assoc. simpl. split; [destruct (f a); reflexivity|]. split; [reflexivity|].
    intro Hi. rewrite <- Hg. apply H3. rewrite Hg. apply Inv_insert. exact Hi.
Qed.

Lemma ins_member_insert s m : ins_member s m = insert_scope s (sid (sym_of_member m)) (stag (sym_of_member m)).
Proof. reflexivity. Qed.

Lemma ins_var_insert s v : ins_var s v = insert_scope s (sid (sym_of_var v)) (stag (sym_of_var v)).
Proof. reflexivity. Qed.

Definition header_syms (e : entity) : list sym :=
  match e_kind e with
  | EClass => [mkSym (e_name e) (pack KClass 0); mkSym s_self (pack KClass 0)]
  | EModule => [mkSym (e_name e) (pack KModule 0)]
  end.

Lemma header_table_facts e :
  syms (header_table e) = header_syms e /\ cls (header_table e) = e_name e /\ Inv (header_table e).
Proof.
  unfold header_table, header_syms, ins. destruct (e_kind e); simpl; repeat split;
    repeat apply Inv_insert; apply Inv_empty.
Qed.

Lemma table_of_facts e ms :
  syms (table_of e ms) = header_syms e ++ map sym_of_member ms /\ cls (table_of e ms) = e_name e /\
  Inv (table_of e ms).
Proof.
  unfold table_of. destruct (header_table_facts e) as (H1 & H2 & H3).
  destruct (fold_ins_syms sym_of_member ins_member ms (header_table e) ins_member_insert) as (G1 & G2 & G3).
  rewrite G1, G2, H1, H2. auto.
Qed.

Lemma root_table_Inv e : Inv (root_table e).
Proof. apply table_of_facts. Qed.

Lemma root_table_cls e : cls (root_table e) = e_name e.
Proof. apply table_of_facts. Qed.

Lemma method_table_facts e me :
  syms (method_table e me) = map sym_of_var (me_params me ++ me_locals me) /\
  cls (method_table e me) = e_name e /\ Inv (method_table e me).
Proof.
  unfold method_table.
  destruct (fold_ins_syms sym_of_var ins_var (me_params me ++ me_locals me) (empty_scope (e_name e)) ins_var_insert)
    as (G1 & G2 & G3).
  rewrite G1, G2. simpl. repeat split; auto. apply G3. apply Inv_empty.
Qed.

Lemma class_chain_Inv ws c : Forall Inv (class_chain ws c).
Proof.
  unfold class_chain. apply Forall_forall. intros s Hs. apply in_map_iff in Hs as (e & <- & _).
  apply root_table_Inv.
Qed.

Lemma scope_chain_Inv ws c m : Forall Inv (scope_chain ws c m).
Proof.
  unfold scope_chain. destruct (find_entity ws c) as [e|]; [|apply class_chain_Inv].
  destruct m as [mn|]; [|apply class_chain_Inv].
  destruct (find_method e mn) as [me|]; [|apply class_chain_Inv].
  constructor; [apply method_table_facts | apply class_chain_Inv].
Qed.

(* ---------- specification ---------- *)

(* latest declaration of the name, ignoring case *)
Definition find_last {A} (nm : A -> str) (id : str) (l : list A) : option A :=
  find (fun x => ci_eqb (nm x) id) (rev l).

Fixpoint first_some {A B} (f : A -> option B) (l : list A) : option B :=
  match l with
  | [] => None
  | a :: l' => match f a with Some b => Some b | None => first_some f l' end
  end.

(* `self` and the names of classes / modules are not declarations in the sense of the property *)
Definition special (ws : workspace) (id : str) : bool :=
  ci_eqb s_self id || existsb (fun e => ci_eqb (e_name e) id) ws.

Definition vars_of (ws : workspace) (c : str) (m : option str) : list var :=
  match find_entity ws c, m with
  | Some e, Some mn =>
      match find_method e mn with
      | Some me => me_params me ++ me_locals me
      | None => []
      end
  | _, _ => []
  end.

Definition owner_name (ws : workspace) (c : str) : str :=
  match find_entity ws c with Some e => e_name e | None => c end.

Definition member_in (e : entity) (id : str) : option target :=
  option_map (fun m => (e_name e, m_tag m)) (find_last m_name id (e_members e)).

Definition is_const_or_type (m : member) : bool :=
  match m_kind m with MConst | MType => true | _ => false end.

Definition used_ct (ws : workspace) (id : str) (u : str) : option target :=
  match find_entity ws u with
  | None => None
  | Some e => option_map (fun m => (e_name e, m_tag m))
                (find_last m_name id (filter is_const_or_type (e_members e)))
  end.

(* the declaration Gold scoping selects for a plain identifier written in method m of c:
   a parameter or local variable of m (the latest declaration of the name), else a member of c,
   else of the nearest ancestor declaring it ... *)
Definition in_chain (ws : workspace) (c : str) (m : option str) (id : str) : option target :=
  match find_last v_name id (vars_of ws c m) with
  | Some v => Some (owner_name ws c, v_tag v)
  | None => first_some (fun e => member_in e id) (lineage ws c)
  end.

(* ... else a constant or type of a used entity, in `uses` order *)
Definition visible (ws : workspace) (c : str) (m : option str) (id : str) : option target :=
  match in_chain ws c m id with
  | Some t => Some t
  | None => first_some (used_ct ws id) (uses_of ws c)
  end.

(* the declarations of a member name in d and in each ancestor that declares it, nearest first *)
Definition members_all (ws : workspace) (d : str) (id : str) : list target :=
  flat_map (fun e => match member_in e id with Some t => [t] | None => [] end) (lineage ws d).

(* the nearest declaration of a member name (with its declaring entity) *)
Definition nearest_member (ws : workspace) (d : str) (id : str) : option (entity * member) :=
  first_some (fun e => option_map (pair e) (find_last m_name id (e_members e))) (lineage ws d).

(* what a used entity's chain knows about a name (all kinds, its ancestors included) *)
Definition used_any (ws : workspace) (id : str) (u : str) : option target :=
  match find_entity ws u with
  | None => None
  | Some _ => first_some (fun e => member_in e id) (lineage ws u)
  end.

(* guard of C10_plain: through `uses` the name is reachable, if at all, as a constant or type
   of the used entity itself *)
Definition uses_clean (ws : workspace) (c : str) (id : str) : Prop :=
  forall u, In u (uses_of ws c) -> used_any ws id u = used_ct ws id u.

(* ---------- entities of a lineage belong to the workspace ---------- *)

Lemma find_entity_in ws n e : find_entity ws n = Some e -> In e ws /\ ci_eqb (e_name e) n = true.
Proof. unfold find_entity. intro H. apply find_some in H. exact H. Qed.

Lemma ancestors_in fuel ws n e : In e (ancestors fuel ws n) -> In e ws.
Proof.
  revert n. induction fuel as [|f IH]; intro n; simpl; [tauto|].
  destruct (find_entity ws n) as [e0|] eqn:E; [|simpl; tauto].
  intros [<-|H]; [apply find_entity_in in E; tauto|].
  destruct (e_parent e0) as [p|]; [|destruct H].
  destruct (ci_eqb p (e_name e0)); [destruct H|]. eapply IH. exact H.
Qed.

Lemma lineage_in ws n e : In e (lineage ws n) -> In e ws.
Proof. apply ancestors_in. Qed.

Lemma special_false_name ws id e : special ws id = false -> In e ws -> ci_eqb (e_name e) id = false.
Proof.
  unfold special. intros H Hin. apply orb_false_iff in H as [_ H].
  destruct (ci_eqb (e_name e) id) eqn:E; [|reflexivity].
  assert (existsb (fun e => ci_eqb (e_name e) id) ws = true) by (apply existsb_exists; eauto). congruence.
Qed.

Lemma special_false_self ws id : special ws id = false -> ci_eqb s_self id = false.
Proof. unfold special. intro H. apply orb_false_iff in H. tauto. Qed.

(* ---------- what one table knows ---------- *)

Lemma find_map {A B} (f : A -> B) (p : B -> bool) l : find p (map f l) = option_map f (find (fun a => p (f a)) l).
Proof. induction l as [|a l IH]; simpl; [reflexivity|]. destruct (p (f a)); simpl; auto. Qed.

Lemma spec_find_syms s l id : syms s = l -> spec_find s id = find (ci_match id) (rev l).
Proof. intros <-. reflexivity. Qed.

Lemma spec_find_method_table e me id :
  spec_find (method_table e me) id = option_map sym_of_var (find_last v_name id (me_params me ++ me_locals me)).
Proof.
  destruct (method_table_facts e me) as (H & _ & _).
  rewrite (spec_find_syms _ _ id H). rewrite <- map_rev. rewrite find_map. reflexivity.
Qed.

Lemma find_header_none ws e id :
  special ws id = false -> In e ws -> find (ci_match id) (rev (header_syms e)) = None.
Proof.
  intros Hs Hin. pose proof (special_false_name ws id e Hs Hin) as H1.
  pose proof (special_false_self ws id Hs) as H2.
  unfold header_syms. destruct (e_kind e); simpl; unfold ci_match; simpl; rewrite ?H1, ?H2; reflexivity.
Qed.

Lemma spec_find_table_of ws e ms id :
  special ws id = false -> In e ws ->
  spec_find (table_of e ms) id = option_map sym_of_member (find_last m_name id ms).
Proof.
  intros Hs Hin. destruct (table_of_facts e ms) as (H & _ & _).
  rewrite (spec_find_syms _ _ id H), rev_app_distr. rewrite <- map_rev.
  unfold find_last.
  assert (Hm : find (ci_match id) (map sym_of_member (rev ms)) =
               option_map sym_of_member (find (fun x : member => ci_eqb (m_name x) id) (rev ms))).
  { rewrite find_map. reflexivity. }
  destruct (find (fun x : member => ci_eqb (m_name x) id) (rev ms)) as [m|] eqn:E; simpl in *.
  - apply find_app_some. exact Hm.
  - rewrite find_app_none.
    + apply (find_header_none ws e id Hs Hin).
    + intros z Hz. destruct (ci_match id z) eqn:Ez; [|reflexivity].
      assert (Hf : find (ci_match id) (map sym_of_member (rev ms)) <> None).
      { intro Hn. eapply find_none in Hn; [|exact Hz]. congruence. }
      congruence.
Qed.

Lemma spec_find_root ws e id :
  special ws id = false -> In e ws ->
  spec_find (root_table e) id = option_map sym_of_member (find_last m_name id (e_members e)).
Proof. apply spec_find_table_of. Qed.

(* look-ups in a chain of invariant-respecting tables, as first-hit / all-hits over the tables *)
Lemma search_wparent_first c id :
  Forall Inv c ->
  search_wparent c id = first_some (fun s => option_map (pair (cls s)) (spec_find s id)) c.
Proof.
  induction 1 as [|s ps Hs _ IH]; simpl; [reflexivity|].
  rewrite (scope_find_spec s id Hs). destruct (spec_find s id); simpl; auto.
Qed.

Lemma search_all_flat c id :
  Forall Inv c ->
  search_all c id = flat_map (fun s => match spec_find s id with Some x => [(cls s, x)] | None => [] end) c.
Proof.
  intro H. rewrite (search_all_refines c id H). induction c as [|s ps IH]; simpl; [reflexivity|].
  inversion H; subst. rewrite IH by assumption. reflexivity.
Qed.

Lemma first_some_map {A B C} (g : A -> B) (f : B -> option C) l :
  first_some f (map g l) = first_some (fun a => f (g a)) l.
Proof. induction l as [|a l IH]; simpl; [reflexivity|]. destruct (f (g a)); auto. Qed.

Lemma first_some_ext_in {A B} (f g : A -> option B) l :
  (forall a, In a l -> f a = g a) -> first_some f l = first_some g l.
Proof.
  induction l as [|a l IH]; simpl; intro H; [reflexivity|].
  rewrite (H a) by auto. destruct (g a); auto.
Qed.

Lemma first_some_option_map {A B C} (h : B -> C) (f : A -> option B) l :
  option_map h (first_some f l) = first_some (fun a => option_map h (f a)) l.
Proof. induction l as [|a l IH]; simpl; [reflexivity|]. destruct (f a); simpl; auto. Qed.

Lemma flat_map_ext_in {A B} (f g : A -> list B) l :
  (forall a, In a l -> f a = g a) -> flat_map f l = flat_map g l.
Proof. induction l as [|a l IH]; simpl; intro H; [reflexivity|]. rewrite (H a), IH; auto. Qed.

Lemma map_flat_map {A B C} (h : B -> C) (f : A -> list B) l :
  map h (flat_map f l) = flat_map (fun a => map h (f a)) l.
Proof. induction l as [|a l IH]; simpl; [reflexivity|]. rewrite map_app, IH. reflexivity. Qed.

(* the hit of one root table, as a target *)
Lemma root_hit_target ws e id :
  special ws id = false -> In e ws ->
  option_map to_target (option_map (pair (cls (root_table e))) (spec_find (root_table e) id)) = member_in e id.
Proof.
  intros Hs Hin. rewrite (spec_find_root ws e id Hs Hin), root_table_cls. unfold member_in.
  destruct (find_last m_name id (e_members e)) as [m|]; simpl; [|reflexivity].
  unfold to_target; simpl. rewrite dtag_member. reflexivity.
Qed.

(* ---------- C10: members ---------- *)

Lemma class_chain_all ws l id :
  special ws id = false -> (forall e, In e l -> In e ws) ->
  map to_target (search_all (map root_table l) id) =
  flat_map (fun e => match member_in e id with Some t => [t] | None => [] end) l.
Proof.
  intros Hs Hl. rewrite search_all_flat.
  2:{ apply Forall_forall. intros s H. apply in_map_iff in H as (e & <- & _). apply root_table_Inv. }
  rewrite map_flat_map, flat_map_concat_map, map_map, <- flat_map_concat_map.
  apply flat_map_ext_in. intros e He.
  pose proof (root_hit_target ws e id Hs (Hl e He)) as H.
  destruct (spec_find (root_table e) id); simpl in *; rewrite <- H; reflexivity.
Qed.

Theorem resolve_member_spec ws d id :
  special ws id = false -> resolve_member ws d id = members_all ws d id.
Proof.
  intro Hs. unfold resolve_member, members_all, class_chain.
  apply (class_chain_all ws); [exact Hs | apply lineage_in].
Qed.

Lemma class_chain_first ws l id :
  special ws id = false -> (forall e, In e l -> In e ws) ->
  option_map to_target (search_wparent (map root_table l) id) = first_some (fun e => member_in e id) l.
Proof.
  intros Hs Hl. rewrite search_wparent_first.
  2:{ apply Forall_forall. intros s H. apply in_map_iff in H as (e & <- & _). apply root_table_Inv. }
  rewrite first_some_map, first_some_option_map.
  apply first_some_ext_in. intros e He. apply (root_hit_target ws e id Hs (Hl e He)).
Qed.

(* ---------- C10: plain identifiers ---------- *)

Lemma search_uses_spec ws us id :
  special ws id = false ->
  option_map to_target (search_uses ws us id) = first_some (used_any ws id) us.
Proof.
  intro Hs. induction us as [|u us IH]; simpl; [reflexivity|].
  unfold used_any at 1. destruct (find_entity ws u) as [e|]; [|exact IH].
  pose proof (class_chain_first ws (lineage ws u) id Hs (lineage_in ws u)) as H.
  fold (class_chain ws u) in H.
  destruct (search_wparent (class_chain ws u) id) as [r|]; simpl in *.
  - rewrite <- H. reflexivity.
  - rewrite <- H. exact IH.
Qed.

Lemma scope_chain_first ws c m id :
  special ws id = false ->
  option_map to_target (search_wparent (scope_chain ws c m) id) = in_chain ws c m id.
Proof.
  intro Hs.
  pose proof (class_chain_first ws (lineage ws c) id Hs (lineage_in ws c)) as Hc.
  fold (class_chain ws c) in Hc.
  unfold in_chain, scope_chain, vars_of, owner_name.
  destruct (find_entity ws c) as [e|]; [|exact Hc].
  destruct m as [mn|]; [|exact Hc].
  destruct (find_method e mn) as [me|]; [|exact Hc].
  simpl. rewrite (scope_find_spec _ id (proj2 (proj2 (method_table_facts e me)))).
  rewrite spec_find_method_table.
  destruct (find_last v_name id (me_params me ++ me_locals me)) as [v|]; simpl.
  - unfold to_target; simpl. rewrite dtag_var. rewrite (proj1 (proj2 (method_table_facts e me))). reflexivity.
  - exact Hc.
Qed.

Theorem resolve_plain_spec ws c m id :
  special ws id = false -> uses_clean ws c id -> resolve_plain ws c m id = visible ws c m id.
Proof.
  intros Hs Hu. unfold resolve_plain, search_w_class, visible.
  rewrite <- (scope_chain_first ws c m id Hs).
  destruct (search_wparent (scope_chain ws c m) id) as [r|]; simpl; [reflexivity|].
  rewrite (search_uses_spec ws (uses_of ws c) id Hs).
  apply first_some_ext_in. exact Hu.
Qed.

(* without the `uses` guard: what the method and the class chain declare is always selected *)
Theorem resolve_plain_in_chain ws c m id t :
  special ws id = false -> in_chain ws c m id = Some t ->
  resolve_plain ws c m id = Some t /\ visible ws c m id = Some t.
Proof.
  intros Hs H. unfold resolve_plain, search_w_class, visible. rewrite H.
  rewrite <- (scope_chain_first ws c m id Hs) in H.
  destruct (search_wparent (scope_chain ws c m) id); [|discriminate]. auto.
Qed.

(* ---------- C10: the member look-up in its context ---------- *)

Lemma find_entity_ci ws a b : ci_eqb a b = true -> find_entity ws a = find_entity ws b.
Proof.
  intro E. unfold find_entity. apply find_ext'. intro e. unfold ci_eqb in *.
  apply str_eqb_eq in E. rewrite E. reflexivity.
Qed.

Lemma ancestors_ci fuel ws a b : ci_eqb a b = true -> ancestors fuel ws a = ancestors fuel ws b.
Proof. intro E. destruct fuel; simpl; [reflexivity|]. rewrite (find_entity_ci ws a b E). reflexivity. Qed.

Lemma lineage_ci ws a b : ci_eqb a b = true -> lineage ws a = lineage ws b.
Proof. apply ancestors_ci. Qed.

Lemma lineage_not_indexed ws d : find_entity ws d = None -> lineage ws d = [].
Proof. unfold lineage. intro H. destruct (length ws); simpl; [reflexivity|]. rewrite H. reflexivity. Qed.

Lemma scope_chain_all ws c m id :
  special ws id = false ->
  map to_target (search_all (scope_chain ws c m) id) =
  (match find_last v_name id (vars_of ws c m) with Some v => [(owner_name ws c, v_tag v)] | None => [] end)
  ++ members_all ws c id.
Proof.
  intro Hs.
  pose proof (class_chain_all ws (lineage ws c) id Hs (lineage_in ws c)) as Hc.
  fold (class_chain ws c) in Hc. fold (members_all ws c id) in Hc.
  unfold scope_chain, vars_of, owner_name.
  destruct (find_entity ws c) as [e|]; [|exact Hc].
  destruct m as [mn|]; [|exact Hc].
  destruct (find_method e mn) as [me|]; [|exact Hc].
  simpl. rewrite map_app, Hc.
  rewrite (scope_find_spec _ id (proj2 (proj2 (method_table_facts e me)))), spec_find_method_table.
  destruct (find_last v_name id (me_params me ++ me_locals me)) as [v|]; simpl; [|reflexivity].
  unfold to_target; simpl. rewrite dtag_var, (proj1 (proj2 (method_table_facts e me))). reflexivity.
Qed.

(* class_level_table: above the method's table sits the class's table, whose parent is for
   another class *)
Lemma ancestors_head_pair fuel ws c e e' rest :
  ancestors fuel ws c = e :: e' :: rest -> str_eqb (e_name e') (e_name e) = false.
Proof.
  destruct fuel as [|f]; simpl; [discriminate|].
  destruct (find_entity ws c) as [e0|]; [|discriminate].
  destruct (e_parent e0) as [p|]; [|discriminate].
  destruct (ci_eqb p (e_name e0)) eqn:Ep; [discriminate|].
  intro H. inversion H; subst e0. clear H. rename H2 into H.
  destruct f as [|f]; simpl in H; [discriminate|].
  destruct (find_entity ws p) as [e1|] eqn:E1; [|discriminate].
  inversion H; subst e1. apply find_entity_in in E1 as [_ E1].
  apply str_eqb_neq. intro Heq. rewrite Heq in E1. rewrite ci_eqb_sym in E1. congruence.
Qed.

Lemma class_level_class_chain ws c : class_level (class_chain ws c) = class_chain ws c.
Proof.
  unfold class_chain, lineage. destruct (ancestors (length ws) ws c) as [|e [|e' rest]] eqn:E; try reflexivity.
  simpl. rewrite !root_table_cls, (ancestors_head_pair _ _ _ _ _ _ E). reflexivity.
Qed.

Lemma lineage_head ws c e : find_entity ws c = Some e -> exists rest, lineage ws c = e :: rest.
Proof.
  intro H. unfold lineage. destruct ws as [|x ws]; [discriminate|].
  cbn [length ancestors]. rewrite H. eexists. reflexivity.
Qed.

Lemma class_level_cons s p ps :
  str_eqb (cls p) (cls s) = true -> class_level (s :: p :: ps) = class_level (p :: ps).
Proof. intro H. cbn [class_level]. rewrite H. reflexivity. Qed.

Lemma class_level_scope_chain ws c m : class_level (scope_chain ws c m) = class_chain ws c.
Proof.
  unfold scope_chain. destruct (find_entity ws c) as [e|] eqn:Ec; [|apply class_level_class_chain].
  destruct m as [mn|]; [|apply class_level_class_chain].
  destruct (find_method e mn) as [me|]; [|apply class_level_class_chain].
  destruct (lineage_head ws c e Ec) as (rest & Hl).
  pose proof (class_level_class_chain ws c) as H. unfold class_chain in *. rewrite Hl in *.
  simpl map in *. rewrite class_level_cons; [exact H|].
  rewrite root_table_cls, (proj1 (proj2 (method_table_facts e me))). apply str_eqb_refl.
Qed.

(* the table the services use for a member of class d, from anywhere: the table of d *)
Lemma member_chain_eq ws c m d :
  member_chain ws c m d = match find_entity ws d with None => [] | Some _ => class_chain ws d end.
Proof.
  unfold member_chain. destruct (find_entity ws d); [|reflexivity].
  destruct (ci_eqb d c) eqn:E; [|reflexivity].
  rewrite class_level_scope_chain. unfold class_chain. rewrite (lineage_ci ws d c E). reflexivity.
Qed.

Lemma member_chain_class_chain ws c m d : member_chain ws c m d = class_chain ws d.
Proof.
  rewrite member_chain_eq. destruct (find_entity ws d) eqn:E; [reflexivity|].
  unfold class_chain. rewrite (lineage_not_indexed ws d E). reflexivity.
Qed.

Theorem definition_member_spec ws c m d id :
  special ws id = false -> definition_member ws c m d id = members_all ws d id.
Proof.
  intro Hs. unfold definition_member. rewrite member_chain_class_chain.
  apply resolve_member_spec. exact Hs.
Qed.

Theorem definition_method_name_spec ws c mn :
  special ws mn = false -> definition_method_name ws c mn = members_all ws c mn.
Proof.
  intro Hs. unfold definition_method_name. rewrite class_level_scope_chain.
  apply resolve_member_spec. exact Hs.
Qed.

Theorem definition_member_name_spec ws c id :
  special ws id = false -> definition_member_name ws c id = members_all ws c id.
Proof. intro Hs. apply resolve_member_spec. exact Hs. Qed.

(* the step before fix 945552f: the variable of that name came first *)
Theorem old_member_chain_own ws c m id :
  special ws id = false ->
  map to_target (search_all (member_chain_old ws c m c) id) =
  match find_entity ws c with
  | None => []
  | Some _ =>
      (match find_last v_name id (vars_of ws c m) with Some v => [(owner_name ws c, v_tag v)] | None => [] end)
      ++ members_all ws c id
  end.
Proof.
  intro Hs. unfold member_chain_old.
  destruct (find_entity ws c); [|reflexivity].
  replace (ci_eqb c c) with true by (symmetry; apply str_eqb_refl).
  apply scope_chain_all. exact Hs.
Qed.

(* ---------- targets are declarations of that name ---------- *)

Lemma find_last_some {A} (nm : A -> str) id l x :
  find_last nm id l = Some x -> In x l /\ ci_eqb (nm x) id = true.
Proof. unfold find_last. intro H. apply find_some in H as [H1 H2]. apply in_rev in H1. auto. Qed.

Lemma members_all_declared ws d id k t :
  In (k, t) (members_all ws d id) ->
  exists e mem, In e (lineage ws d) /\ e_name e = k /\ In mem (e_members e) /\ m_tag mem = t /\
                ci_eqb (m_name mem) id = true.
Proof.
  unfold members_all. intro H. apply in_flat_map in H as (e & He & H).
  unfold member_in in H. destruct (find_last m_name id (e_members e)) as [mem|] eqn:E; simpl in H; [|destruct H].
  destruct H as [H|[]]. inversion H; subst. apply find_last_some in E as [E1 E2].
  exists e, mem. auto.
Qed.

Lemma first_some_in {A B} (f : A -> option B) l b : first_some f l = Some b -> exists a, In a l /\ f a = Some b.
Proof.
  induction l as [|a l IH]; simpl; [discriminate|].
  destruct (f a) eqn:E.
  - intro H; inversion H; subst. exists a. auto.
  - intro H. destruct (IH H) as (a' & H1 & H2). exists a'. auto.
Qed.

Lemma visible_declared ws c m id k t :
  visible ws c m id = Some (k, t) ->
  (exists v, In v (vars_of ws c m) /\ k = owner_name ws c /\ v_tag v = t /\ ci_eqb (v_name v) id = true) \/
  (exists e mem, In e ws /\ e_name e = k /\ In mem (e_members e) /\ m_tag mem = t /\ ci_eqb (m_name mem) id = true).
Proof.
  unfold visible, in_chain. destruct (find_last v_name id (vars_of ws c m)) as [v|] eqn:Ev.
  - intro H; inversion H; subst. apply find_last_some in Ev as [E1 E2]. left. exists v. auto.
  - right. destruct (first_some (fun e => member_in e id) (lineage ws c)) as [t0|] eqn:E1.
    + inversion H; subst. apply first_some_in in E1 as (e & He & Hm).
      unfold member_in in Hm. destruct (find_last m_name id (e_members e)) as [mem|] eqn:E; [|discriminate].
      inversion Hm; subst. apply find_last_some in E as [E2 E3]. exists e, mem.
      repeat split; auto. eapply lineage_in. exact He.
    + apply first_some_in in H as (u & Hu & Hm). unfold used_ct in Hm.
      destruct (find_entity ws u) as [e|] eqn:Ee; [|discriminate].
      destruct (find_last m_name id (filter is_const_or_type (e_members e))) as [mem|] eqn:E; [|discriminate].
      inversion Hm; subst. apply find_last_some in E as [E2 E3]. apply filter_In in E2 as [E2 _].
      exists e, mem. repeat split; auto. apply find_entity_in in Ee. tauto.
Qed.

(* ---------- letter case ---------- *)

Lemma scope_find_ci s a b : upper a = upper b -> scope_find s a = scope_find s b.
Proof. intro E. unfold scope_find. rewrite E. reflexivity. Qed.

Lemma search_wparent_ci c a b : upper a = upper b -> search_wparent c a = search_wparent c b.
Proof. intro E. induction c as [|s ps IH]; simpl; [reflexivity|]. rewrite (scope_find_ci s a b E), IH. reflexivity. Qed.

Lemma search_all_ci c a b : upper a = upper b -> search_all c a = search_all c b.
Proof. intro E. induction c as [|s ps IH]; simpl; [reflexivity|]. rewrite (scope_find_ci s a b E), IH. reflexivity. Qed.

Lemma search_uses_ci ws us a b : upper a = upper b -> search_uses ws us a = search_uses ws us b.
Proof.
  intro E. induction us as [|u us IH]; simpl; [reflexivity|].
  rewrite (search_wparent_ci _ a b E), IH. reflexivity.
Qed.

Theorem resolve_ci ws c m d a b :
  upper a = upper b ->
  resolve_plain ws c m a = resolve_plain ws c m b /\
  resolve_member ws d a = resolve_member ws d b /\
  definition_member ws c m d a = definition_member ws c m d b.
Proof.
  intro E. unfold resolve_plain, search_w_class, resolve_member, definition_member.
  rewrite (search_wparent_ci _ a b E), (search_uses_ci ws _ a b E), !(search_all_ci _ a b E). auto.
Qed.

Lemma scope_chain_ci ws c c' m : upper c = upper c' -> scope_chain ws c m = scope_chain ws c' m.
Proof.
  intro E. assert (H : ci_eqb c c' = true) by (apply str_eqb_eq; exact E).
  unfold scope_chain, class_chain. rewrite (find_entity_ci ws c c' H), (lineage_ci ws c c' H). reflexivity.
Qed.

Theorem resolve_class_name_ci ws c c' m id :
  upper c = upper c' ->
  resolve_plain ws c m id = resolve_plain ws c' m id /\ resolve_member ws c id = resolve_member ws c' id.
Proof.
  intro E. assert (H : ci_eqb c c' = true) by (apply str_eqb_eq; exact E).
  unfold resolve_plain, search_w_class, resolve_member, uses_of, class_chain.
  rewrite (scope_chain_ci ws c c' m E), (find_entity_ci ws c c' H), (lineage_ci ws c c' H). auto.
Qed.

(* ---------- C11 ---------- *)

Definition is_fpf (m : member) : bool :=
  match m_kind m with MField | MProc | MFunc => true | _ => false end.

Lemma is_member_kind_member m : is_member_kind (sym_of_member m) = is_fpf m.
Proof. unfold is_member_kind, is_fpf. rewrite skind_member. unfold kind_of_member. destruct (m_kind m); reflexivity. Qed.

Lemma is_plain_kind_member m : is_plain_kind (sym_of_member m) = match m_kind m with MConst => true | _ => false end.
Proof. unfold is_plain_kind. rewrite skind_member. unfold kind_of_member. destruct (m_kind m); reflexivity. Qed.

Lemma is_plain_kind_var v : is_plain_kind (sym_of_var v) = true.
Proof. unfold is_plain_kind. rewrite skind_var. reflexivity. Qed.

Lemma is_member_kind_var v : is_member_kind (sym_of_var v) = false.
Proof. unfold is_member_kind. rewrite skind_var. reflexivity. Qed.

Lemma header_kinds e x : In x (header_syms e) -> is_member_kind x = false /\ is_plain_kind x = false.
Proof.
  unfold header_syms. destruct (e_kind e); intros H; repeat destruct H as [<-|H]; try destruct H;
    unfold is_member_kind, is_plain_kind, skind_of; cbn [stag]; rewrite kind_pack; auto.
Qed.

(* the listing the code computes is the merged listing of C18 *)
Lemma complete_after_dot_merged ws d :
  complete_after_dot ws d = map sid (filter is_member_kind (merged (class_chain ws d))).
Proof. unfold complete_after_dot. rewrite (collect_merged _ (class_chain_Inv ws d)). reflexivity. Qed.

Lemma complete_plain_merged ws c m :
  complete_plain ws c m = map sid (filter is_plain_kind (merged (scope_chain ws c m))).
Proof. unfold complete_plain. rewrite (collect_merged _ (scope_chain_Inv ws c m)). reflexivity. Qed.

Lemma NoDup_map_upper_filter p l : NoDup (map key l) -> NoDup (map upper (map sid (filter p l))).
Proof.
  intro H. rewrite map_map. change (fun x => upper (sid x)) with key. apply NoDup_map_filter. exact H.
Qed.

(* generic reading of a filtered merged listing: each name once; a label is listed iff the
   chain look-up of that name is a symbol of the wanted kind with exactly that spelling *)
Lemma listing_spec p c :
  let labels := map sid (filter p (merged c)) in
  NoDup (map upper labels) /\
  (forall l, In l labels <-> exists x, spec_get c l = Some x /\ sid x = l /\ p x = true).
Proof.
  simpl. split; [apply NoDup_map_upper_filter, merged_each_name_once|].
  intro l. split.
  - intro H. apply in_map_iff in H as (x & <- & Hx). apply filter_In in Hx as [Hx Hp].
    exists x. repeat split; auto. apply merged_nearest. exact Hx.
  - intros (x & Hg & <- & Hp). apply in_map. apply filter_In. split; [|exact Hp].
    eapply merged_complete. exact Hg.
Qed.

(* no member of the lineage carries a special name: then header symbols shadow nothing *)
Definition lineage_clean (ws : workspace) (d : str) : Prop :=
  forall e mem, In e (lineage ws d) -> In mem (e_members e) -> special ws (m_name mem) = false.

Lemma special_ci ws a b : ci_eqb a b = true -> special ws a = special ws b.
Proof.
  intro E. apply str_eqb_eq in E. unfold special, ci_eqb. rewrite E. reflexivity.
Qed.

(* chain look-up of ANY name in a clean lineage: a header symbol or the nearest member *)
Lemma spec_get_class_chain ws l id :
  (forall e, In e l -> In e ws) ->
  (forall e mem, In e l -> In mem (e_members e) -> special ws (m_name mem) = false) ->
  forall x, spec_get (map root_table l) id = Some x ->
  (special ws id = true /\ is_member_kind x = false /\ is_plain_kind x = false) \/
  (special ws id = false /\
   exists e mem, first_some (fun e => option_map (pair e) (find_last m_name id (e_members e))) l = Some (e, mem) /\
                 x = sym_of_member mem).
Proof.
  intros Hin Hclean x. destruct (special ws id) eqn:Hs.
  - (* only header symbols can match *)
    intro H. left. split; [reflexivity|].
    induction l as [|e l IH]; simpl in H; [discriminate|].
    destruct (spec_find (root_table e) id) as [y|] eqn:E.
    + inversion H; subst y. apply spec_find_some in E as (Hm & l1 & l2 & Hsy & _).
      destruct (table_of_facts e (e_members e)) as (Hsyms & _ & _). fold (root_table e) in Hsyms.
      assert (Hx : In x (header_syms e ++ map sym_of_member (e_members e))).
      { rewrite <- Hsyms, Hsy. apply in_or_app. right. left. reflexivity. }
      apply in_app_or in Hx as [Hx|Hx]; [apply (header_kinds e x Hx)|].
      apply in_map_iff in Hx as (mem & <- & Hmem).
      pose proof (Hclean e mem (or_introl eq_refl) Hmem) as Hc.
      rewrite (special_ci ws (m_name mem) id) in Hc by exact Hm. congruence.
    + apply IH; auto. intros; apply Hin; right; assumption.
      intros e' mem' H1 H2. apply (Hclean e' mem'); [right; exact H1|exact H2].
  - intro H. right. split; [reflexivity|].
    induction l as [|e l IH]; simpl in *; [discriminate|].
    rewrite (spec_find_root ws e id Hs (Hin e (or_introl eq_refl))) in H.
    destruct (find_last m_name id (e_members e)) as [mem|]; simpl in *.
    + inversion H; subst. exists e, mem. auto.
    + apply IH; auto. intros e' mem' H1 H2. apply (Hclean e' mem'); [right; exact H1|exact H2].
Qed.

Lemma spec_get_class_chain_member ws l id e mem :
  (forall e, In e l -> In e ws) -> special ws id = false ->
  first_some (fun e => option_map (pair e) (find_last m_name id (e_members e))) l = Some (e, mem) ->
  spec_get (map root_table l) id = Some (sym_of_member mem).
Proof.
  intros Hin Hs. induction l as [|e0 l IH]; simpl; [discriminate|].
  rewrite (spec_find_root ws e0 id Hs (Hin e0 (or_introl eq_refl))).
  destruct (find_last m_name id (e_members e0)) as [m0|]; simpl.
  - intro H; inversion H; subst. reflexivity.
  - apply IH. intros; apply Hin; right; assumption.
Qed.

Theorem complete_after_dot_spec ws d :
  lineage_clean ws d ->
  let labels := complete_after_dot ws d in
  NoDup (map upper labels) /\
  (forall l, In l labels <->
     exists e mem, nearest_member ws d l = Some (e, mem) /\ m_name mem = l /\ is_fpf mem = true).
Proof.
  intro Hclean. cbv zeta. rewrite complete_after_dot_merged.
  destruct (listing_spec is_member_kind (class_chain ws d)) as [H1 H2]. split; [exact H1|].
  intro l. rewrite H2. unfold class_chain, nearest_member. split.
  - intros (x & Hg & Hsid & Hk).
    destruct (spec_get_class_chain ws (lineage ws d) l (lineage_in ws d) Hclean x Hg)
      as [(_ & Hk' & _)|(Hs & e & mem & Hf & ->)]; [congruence|].
    exists e, mem. rewrite is_member_kind_member in Hk. auto.
  - intros (e & mem & Hf & Hn & Hk).
    assert (Hs : special ws l = false).
    { apply first_some_in in Hf as (e0 & He0 & Hf). destruct (find_last m_name l (e_members e0)) as [m0|] eqn:E; [|discriminate].
      inversion Hf as [[He Hm]]. subst e0 m0. apply find_last_some in E as [E1 E2].
      rewrite <- (special_ci ws (m_name mem) l E2). apply (Hclean e mem He0 E1). }
    exists (sym_of_member mem). split; [|split].
    + apply (spec_get_class_chain_member ws (lineage ws d) l e mem (lineage_in ws d) Hs Hf).
    + exact Hn.
    + rewrite is_member_kind_member. exact Hk.
Qed.

(* in its context: always the listing of the operand's class *)
Theorem completion_member_spec ws c m d : completion_member ws c m d = complete_after_dot ws d.
Proof. unfold completion_member, complete_after_dot. rewrite member_chain_class_chain. reflexivity. Qed.

(* ---------- C11: elsewhere in a method body ---------- *)

Lemma spec_get_scope_chain ws c m id :
  spec_get (scope_chain ws c m) id =
  match find_last v_name id (vars_of ws c m) with
  | Some v => Some (sym_of_var v)
  | None => spec_get (class_chain ws c) id
  end.
Proof.
  unfold scope_chain, vars_of.
  destruct (find_entity ws c) as [e|]; [|reflexivity].
  destruct m as [mn|]; [|reflexivity].
  destruct (find_method e mn) as [me|]; [|reflexivity].
  simpl. rewrite spec_find_method_table.
  destruct (find_last v_name id (me_params me ++ me_locals me)); reflexivity.
Qed.

Theorem complete_plain_spec ws c m :
  lineage_clean ws c ->
  let labels := complete_plain ws c m in
  NoDup (map upper labels) /\
  (forall l, In l labels <->
     (exists v, find_last v_name l (vars_of ws c m) = Some v /\ v_name v = l) \/
     (find_last v_name l (vars_of ws c m) = None /\
      exists e mem, nearest_member ws c l = Some (e, mem) /\ m_name mem = l /\ m_kind mem = MConst)).
Proof.
  intro Hclean. cbv zeta. rewrite complete_plain_merged.
  destruct (listing_spec is_plain_kind (scope_chain ws c m)) as [H1 H2]. split; [exact H1|].
  intro l. rewrite H2. clear H1 H2. rewrite spec_get_scope_chain. split.
  - intros (x & Hg & Hsid & Hk).
    destruct (find_last v_name l (vars_of ws c m)) as [v|].
    + left. exists v. inversion Hg; subst. auto.
    + right. split; [reflexivity|].
      destruct (spec_get_class_chain ws (lineage ws c) l (lineage_in ws c) Hclean x Hg)
        as [(_ & _ & Hk')|(Hs & e & mem & Hf & ->)]; [congruence|].
      exists e, mem. rewrite is_plain_kind_member in Hk.
      repeat split; auto. destruct (m_kind mem); try discriminate. reflexivity.
  - intros [(v & Hv & Hn)|(Hv & e & mem & Hf & Hn & Hk)]; rewrite Hv.
    + exists (sym_of_var v). repeat split; auto. apply is_plain_kind_var.
    + assert (Hs : special ws l = false).
      { unfold nearest_member in Hf. apply first_some_in in Hf as (e0 & He0 & Hf).
        destruct (find_last m_name l (e_members e0)) as [m0|] eqn:E; [|discriminate].
        inversion Hf as [[He Hm]]. subst e0 m0. apply find_last_some in E as [E1 E2].
        rewrite <- (special_ci ws (m_name mem) l E2). apply (Hclean e mem He0 E1). }
      exists (sym_of_member mem). split; [|split].
      * apply (spec_get_class_chain_member ws (lineage ws c) l e mem (lineage_in ws c) Hs Hf).
      * exact Hn.
      * rewrite is_plain_kind_member, Hk. reflexivity.
Qed.

(* ---------- unknown types ---------- *)

Theorem unknown_type_empty ws c m p :
  static_class ws c m p = None ->
  completion_dotted ws c m p = [] /\ forall id, definition_dotted ws c m p id = [].
Proof. intro H. unfold completion_dotted, definition_dotted. rewrite H. auto. Qed.

Theorem unindexed_type_empty ws c m d :
  find_entity ws d = None ->
  completion_member ws c m d = [] /\ forall id, definition_member ws c m d id = [].
Proof. intro H. unfold completion_member, definition_member, member_chain. rewrite H. auto. Qed.

(* ---------- fuel: in a forest the lineage is never cut short ---------- *)

Definition acyclic (ws : workspace) : Prop :=
  forall n c, NoDup (map (fun e => upper (e_name e)) (ancestors n ws c)).

Lemma ancestors_stable n k ws c :
  (length (ancestors (n + k) ws c) <= n)%nat -> ancestors (n + k) ws c = ancestors n ws c.
Proof.
  revert c. induction n as [|n IH]; intro c; simpl.
  - intro H. destruct (ancestors k ws c); [reflexivity|simpl in H; lia].
  - destruct (find_entity ws c) as [e|]; [|reflexivity].
    destruct (e_parent e) as [p|]; [|reflexivity].
    destruct (ci_eqb p (e_name e)); [reflexivity|].
    simpl. intro H. f_equal. apply IH. lia.
Qed.

Theorem lineage_fuel_sufficient ws k c :
  acyclic ws -> ancestors (length ws + k) ws c = lineage ws c.
Proof.
  intro Ha. apply ancestors_stable.
  apply NoDup_incl_length.
  - eapply NoDup_map_inv. apply (Ha (length ws + k)%nat c).
  - intros e He. eapply ancestors_in. exact He.
Qed.
