(* Memoisation is invisible and every memoised parser is evaluated at most once per position within
   a method body: the top level (methods, declarations, the loop of parse_gold) on top of the
   simulation of MemoSim.v / MemoGrammar.v, and the main theorems of property C07. *)
From GoldV Require Import Base Tokens Lexer AstKinds Tree Strings PComb Grammar ParserWF GrammarWF MemoSim MemoGrammar.
From Coq Require Import Lia.
Local Open Scope nat_scope.

(* ---------- the top level never reads the cache: its invariant says nothing about the entries ---------- *)

Definition TopInv (c : ctx) : Prop := cmemo c = true /\ CacheOK c.

Lemma TopInv_ok c : TopInv c -> CacheOK c.
Proof. intros [_ H]. exact H. Qed.
Lemma TopInv_add_diag d c : TopInv c -> TopInv (add_diag d c).
Proof. intros [Hm Hok]. split; [exact Hm|apply CacheOK_add_diag; exact Hok]. Qed.

Definition TopEnv : Env :=
  mkEnv TopInv (fun _ => True) False TopInv_ok TopInv_add_diag (fun _ _ _ _ => I).

Lemma Sim_parse_member_modifier_tokens E n rho : Sim E n rho parse_member_modifier_tokens parse_member_modifier_tokens.
Proof. unfold parse_member_modifier_tokens. stac. Qed.
#[export] Hint Resolve Sim_parse_member_modifier_tokens : sdb.

Lemma Sim_parse_member_modifiers E n rho : Sim E n rho parse_member_modifiers parse_member_modifiers.
Proof.
  intros i c Hd Hi Hc. unfold parse_member_modifiers. eapply StepM_case.
  - apply (Sim_until_no_match E n rho _ _ (Sim_parse_member_modifier_tokens E n rho)); auto.
  - intros r ts c1 _ Hs Hc1. destruct ts; apply StepM_ret; auto. apply Suffix_refl.
  - intros. apply StepM_ret; auto.
Qed.
#[export] Hint Resolve Sim_parse_member_modifiers : sdb.

Lemma Sim_parse_method_modifiers E n rho : Sim E n rho parse_method_modifiers parse_method_modifiers.
Proof.
  intros i c Hd Hi Hc. unfold parse_method_modifiers. eapply StepM_case.
  - assert (Sim E n rho (alt [parse_member_modifier_tokens; parse_method_external; exp_token TForward])
                        (alt [parse_member_modifier_tokens; parse_method_external; exp_token TForward])) as Ha by stac.
    apply (Sim_until_no_match E n rho _ _ Ha); auto.
  - intros r ts c1 _ Hs Hc1. destruct ts; apply StepM_ret; auto. apply Suffix_refl.
  - intros. apply StepM_ret; auto.
Qed.
#[export] Hint Resolve Sim_parse_method_modifiers : sdb.

(* one method body, from the moment its cache is cleared: the simulation inside the body, the cache
   invariant at the end, and the evaluation log of the body *)
Definition body_parser (pstmt : P node) (body : list tok) (first : tok) : P (option node) :=
  stmts <- repeat_w_ctx pstmt ;;
  let last_tok := match rev body with t :: _ => t | [] => first end in
  let '(raw, sr, er) :=
    match stmts with
    | s0 :: _ => (nraw s0, nrange s0, match rev stmts with n :: _ => nrange n | [] => nrange s0 end)
    | [] => (traw first, trange first, trange last_tok)
    end in
  ret (Some (Node KAstMethodBody S_method_body raw (new_range sr er) [] stmts)).

Lemma parse_method_body_eq g first rest i c :
  parse_method_body g (first :: rest) i c =
  match body_parser (g_stmt g) (first :: rest) first (first :: rest) (clear_cache c) with
  | (Ok _ a, c1) => (Ok i a, c1)
  | (Err e m, c1) => (Err e m, c1)
  | (Panic s, c1) => (Panic s, c1)
  | (NoFuel, c1) => (NoFuel, c1)
  end.
Proof. reflexivity. Qed.

Lemma NoErr_body_parser pstmt body first : NoErr (body_parser pstmt body first).
Proof.
  unfold body_parser. apply NoErr_bind; [apply NoErr_repeat|].
  intros stmts. destruct stmts; cbv beta iota zeta; apply NoErr_ret.
Qed.

Section TopSim.
  Variable n : nat.
  Variable g : G.
  Hypothesis Ht : W n true (g_type g).
  Hypothesis Hs : W n true (g_stmt g).
  Hypothesis St : Sim TopEnv n 3 (g_type g) (g_type g).
  Hypothesis Ss : forall body base, Sim (BodyEnv body base) n 3 (g_stmt g) (g_stmt g).

  Lemma Rec_type' : Rec n (g_type g).
  Proof. intros m Hm. apply (W_mono n m); [lia|exact Ht]. Qed.
  Lemma SRec_type' : SRec TopEnv n (g_type g) (g_type g).
  Proof. intros m Hm. apply (Sim_mono TopEnv n m); [lia|exact St]. Qed.

  Lemma Sim_body_parser body base first :
    Sim (BodyEnv body base) n 3 (body_parser (g_stmt g) body first) (body_parser (g_stmt g) body first).
  Proof.
    unfold body_parser. apply Sim_bind; [apply Sim_repeat; apply Ss|].
    intros stmts. destruct stmts; cbv beta iota zeta; apply Sim_ret.
  Qed.

  (* running one body from any top-level context *)
  Lemma body_run first rest c : length (first :: rest) <= n -> TopInv c ->
    let body := first :: rest in
    StepM (BodyEnv body (cevals c)) body 3 (body_parser (g_stmt g) body first body) (clear_cache c)
          (body_parser (g_stmt g) body first body (clear_cache c)).
  Proof.
    intros Hb [Hm Hok] body. apply Sim_body_parser; [apply Suffix_refl|exact Hb|].
    apply Good_clear. exact Hm.
  Qed.

  Lemma Sim_parse_method_body b : length b <= n -> Sim TopEnv n 3 (parse_method_body g b) (parse_method_body g b).
  Proof.
    intros Hb i c _ Hi Hc. destruct b as [|first rest].
    - apply (Sim_ret TopEnv n 3 None i c I Hi Hc).
    - rewrite parse_method_body_eq.
      eapply StepM_ext; [intro c'; symmetry; apply parse_method_body_eq|].
      destruct (body_run first rest c Hb Hc) as (wd & nw & O & S & (Hm1 & Hok1 & _) & D & Ev & _).
      pose proof (NoErr_body_parser (g_stmt g) (first :: rest) first (first :: rest) (clear_cache c)) as NE.
      destruct (body_parser (g_stmt g) (first :: rest) first (first :: rest) (clear_cache c)) as [r c1].
      cbn [fst snd] in *.
      assert (OffM (fun c' => match body_parser (g_stmt g) (first :: rest) first (first :: rest) (clear_cache c') with
                              | (Ok _ a, c1) => (Ok i a, c1) | (Err e m, c1) => (Err e m, c1)
                              | (Panic s, c1) => (Panic s, c1) | (NoFuel, c1) => (NoFuel, c1) end)
                   (match r with Ok _ a => Ok i a | Err e m => Err e m | Panic s => Panic s | NoFuel => NoFuel end) wd) as O'.
      { intros c' Hm'. destruct (O (clear_cache c') Hm') as (c1' & X & M1 & Y). exists c1'. rewrite X.
        destruct r; auto. }
      destruct r as [r a|e m|s|]; try contradiction; exists wd, nw; cbn [fst snd];
        (refine (conj O' (conj _ (conj (conj Hm1 Hok1) (conj D (conj Ev _)))));
         [try exact I; apply Suffix_refl | intros []]).
  Qed.

  Lemma Sim_method_tail first eraw erange mods terms msg :
    Sim TopEnv n 3 (method_tail g first eraw erange mods terms msg) (method_tail g first eraw erange mods terms msg).
  Proof.
    unfold method_tail. destruct (has_method_body mods); [|apply Sim_ret].
    eapply (Sim_bind_postN TopEnv n 3 _ _ _ _ (fun a => length (fst a) <= n));
      [apply Sim_take_until|apply take_until_body_len|].
    intros [body endt] Hlen. cbn [fst] in Hlen.
    eapply Sim_bind; [apply Sim_parse_method_body; exact Hlen|].
    intros b. eapply Sim_bind; [destruct endt; stac|]. intros _. stac.
  Qed.

  Lemma Sim_parse_global_variable_declaration :
    Sim TopEnv n 3 (parse_global_variable_declaration g) (parse_global_variable_declaration g).
  Proof. pose proof Rec_type'. pose proof SRec_type'. unfold parse_global_variable_declaration. stac. Qed.

  Lemma Sim_parse_method_name_uievent E rho : Sim E n rho parse_method_name_uievent parse_method_name_uievent.
  Proof. unfold parse_method_name_uievent. stac. Qed.

  Lemma Sim_parse_method_name E rho : Sim E n rho parse_method_name parse_method_name.
  Proof.
    unfold parse_method_name. apply Sim_alt.
    apply Forall2_cons; [apply Sim_parse_method_name_uievent|apply Forall2_cons; [stac|apply Forall2_nil]].
  Qed.

  Lemma Sim_parse_procedure_declaration :
    Sim TopEnv n 3 (parse_procedure_declaration g) (parse_procedure_declaration g).
  Proof.
    unfold parse_procedure_declaration.
    eapply Sim_bind_strict; [wtac|stac|]. intros first m Hm.
    eapply Sim_bind; [apply (Sim_mono TopEnv n m); [lia|apply Sim_parse_method_name]|].
    intros name.
    eapply Sim_bind; [apply Sim_parse_parameter_declaration_list;
                      [apply (Rec_mono n m); [lia|apply Rec_type']|apply (SRec_mono TopEnv n m); [lia|apply SRec_type']]|].
    intros ps. eapply Sim_bind; [stac|]. intros mods.
    destruct mods as [[[mr rr] fl]|]; [|destruct ps as [pn|]]; cbv beta iota;
      (eapply Sim_bind; [apply (Sim_mono TopEnv n m); [lia|apply Sim_method_tail]|]);
      intros [[body endt] end_]; stac.
  Qed.

  Lemma Sim_parse_function_declaration :
    Sim TopEnv n 3 (parse_function_declaration g) (parse_function_declaration g).
  Proof.
    unfold parse_function_declaration.
    eapply Sim_bind_strict; [wtac|stac|]. intros first m Hm.
    eapply Sim_bind; [apply (Sim_mono TopEnv n m); [lia|apply Sim_parse_method_name]|].
    intros name.
    eapply Sim_bind; [apply Sim_parse_parameter_declaration_list;
                      [apply (Rec_mono n m); [lia|apply Rec_type']|apply (SRec_mono TopEnv n m); [lia|apply SRec_type']]|].
    intros ps. eapply Sim_bind; [stac|]. intros _.
    eapply Sim_bind; [stac|]. intros rt.
    eapply Sim_bind; [stac|]. intros mods.
    destruct mods as [[[mr rr] fl]|]; cbv beta iota;
      (eapply Sim_bind; [apply (Sim_mono TopEnv n m); [lia|apply Sim_method_tail]|]);
      intros [[body endt] end_]; stac.
  Qed.

  Lemma Sim_parse_parent_class E m rho : Sim E m rho parse_parent_class parse_parent_class.
  Proof. unfold parse_parent_class. stac. Qed.

  Lemma Sim_parse_class E m rho : Sim E m rho parse_class parse_class.
  Proof.
    unfold parse_class. eapply Sim_bind; [stac|]. intros _.
    eapply Sim_bind; [stac|]. intros ct. eapply Sim_bind; [stac|]. intros nt.
    eapply Sim_bind; [apply Sim_opt; apply Sim_parse_parent_class|]. intros pr. stac.
  Qed.

  Lemma Sim_parse_module E m rho : Sim E m rho parse_module parse_module.
  Proof. unfold parse_module. stac. Qed.

  Lemma Sim_top_blocks : Sim TopEnv n 3 (alt (top_block_parsers g)) (alt (top_block_parsers g)).
  Proof.
    apply Sim_alt. apply Forall2_cons; [apply Sim_parse_procedure_declaration|].
    apply Forall2_cons; [apply Sim_parse_function_declaration|apply Forall2_nil].
  Qed.

  Lemma Sim_top_decls : Sim TopEnv n 3 (alt (top_decl_parsers g)) (alt (top_decl_parsers g)).
  Proof.
    apply Sim_alt. unfold top_decl_parsers. repeat (apply Forall2_cons || apply Forall2_nil).
    - stac. - apply Sim_parse_class. - apply Sim_parse_module. - stac.
    - apply Sim_parse_type_declaration; [exact Ht|exact St]. - stac.
    - apply Sim_parse_global_variable_declaration. - stac.
  Qed.

  Lemma Sim_top_loop whole : forall fuel acc,
    Sim TopEnv n 3 (top_loop g fuel whole acc) (top_loop g fuel whole acc).
  Proof.
    induction fuel as [|f IH]; intros acc i c Hd Hi Hc; cbn [top_loop]; [apply StepM_ret; [exact I|exact Hc]|].
    destruct i as [|first_tok i']; [apply StepM_ret; [apply Suffix_refl|exact Hc]|].
    eapply StepM_case.
    - apply Sim_top_blocks; auto.
    - intros r nd c1 _ Hs1 Hc1. step_rec IH Hs1.
    - intros be bm c1 _ Hsb Hc1. eapply StepM_case.
      + apply Sim_top_decls; auto.
      + intros r nd c2 _ Hs2 Hc2. step_rec IH Hs2.
      + intros e m c2 _ Hse Hc2.
        destruct (ilen e <? ilen be)%N; cbv beta iota zeta.
        * destruct e as [|t e']; [destruct (rev whole) as [|lt rw]|]; try (apply StepM_ret; [exact I|exact Hc2]);
            apply Suffix_skip_after_error in Hse; add_diag_tac Hc2; step_rec IH Hse; apply TopInv_add_diag; exact Hc2.
        * destruct be as [|t be']; [destruct (rev whole) as [|lt rw]|]; try (apply StepM_ret; [exact I|exact Hc2]);
            apply Suffix_skip_after_error in Hsb; add_diag_tac Hc2; step_rec IH Hsb; apply TopInv_add_diag; exact Hc2.
  Qed.
End TopSim.

(* ---------- whole files ---------- *)

Theorem memo_transparent fuel ts : length ts < fuel ->
  fst (parse_gold_with true fuel ts) = fst (parse_gold_with false fuel ts) /\
  forall d, In d (cdiags (snd (parse_gold_with true fuel ts))) <->
            In d (cdiags (snd (parse_gold_with false fuel ts))).
Proof.
  intro Hf. destruct (gram_W fuel (length ts) Hf) as (Wt & We & Wp & Ws).
  pose proof (gram_type_Sim TopEnv fuel (length ts) 3 Hf fuel Hf) as St.
  assert (forall body base, Sim (BodyEnv body base) (length ts) 3 (g_stmt (gram fuel)) (g_stmt (gram fuel))) as Ss.
  { intros body base. apply (gram_Sim body base fuel (length ts) Hf fuel Hf). }
  destruct (Sim_top_loop (length ts) (gram fuel) Wt St Ss ts (S (length ts)) [] ts (ctx0 true) I (le_n _)
              (conj eq_refl (CacheOK_ctx0 true))) as (wd & nw & O & Sf & I1 & D & Ev & _).
  destruct (O (ctx0 false) eq_refl) as (c1' & X & M1 & Y).
  unfold parse_gold_with. rewrite X.
  destruct (top_loop (gram fuel) (S (length ts)) ts [] ts (ctx0 true)) as [r c1]. cbn [fst snd] in *.
  assert (forall d, In d (cdiags c1) <-> In d (cdiags c1')) as Hd.
  { intro d. rewrite (D d), Y. simpl. rewrite app_nil_r. tauto. }
  destruct r; cbn [fst snd]; auto.
Qed.

(* the invariant of the top level holds in the final context of a whole-file parse (and, by the
   same simulation, in every context in which a method body is entered) *)
Theorem parse_gold_top_inv fuel ts : length ts < fuel -> TopInv (snd (parse_gold_with true fuel ts)).
Proof.
  intro Hf. destruct (gram_W fuel (length ts) Hf) as (Wt & We & Wp & Ws).
  pose proof (gram_type_Sim TopEnv fuel (length ts) 3 Hf fuel Hf) as St.
  assert (forall body base, Sim (BodyEnv body base) (length ts) 3 (g_stmt (gram fuel)) (g_stmt (gram fuel))) as Ss.
  { intros body base. apply (gram_Sim body base fuel (length ts) Hf fuel Hf). }
  destruct (Sim_top_loop (length ts) (gram fuel) Wt St Ss ts (S (length ts)) [] ts (ctx0 true) I (le_n _)
              (conj eq_refl (CacheOK_ctx0 true))) as (wd & nw & O & Sf & I1 & D & Ev & _).
  unfold parse_gold_with.
  destruct (top_loop (gram fuel) (S (length ts)) ts [] ts (ctx0 true)) as [r c1]. cbn [fst snd] in *.
  destruct r; exact I1.
Qed.

(* ---------- one method body ---------- *)

(* the evaluation log of one body: the entries [new] added between clear_cache and the end of the body *)
Definition OnceLog (body : input) (new : list (N * N)) : Prop :=
  NoDup new /\ forall k n, In (k, n) new -> (k < 3)%N /\ N.to_nat n <= length body.

Lemma OnceLog_linear body new : OnceLog body new -> length new <= 3 * (length body + 1).
Proof.
  intros [Nd Hb].
  set (keys := list_prod [0%N; 1%N; 2%N] (map N.of_nat (seq 0 (S (length body))))).
  assert (incl new keys) as Hin.
  { intros [k m] Hkm. destruct (Hb k m Hkm) as [Hk Hm]. apply in_prod.
    - assert (k = 0 \/ k = 1 \/ k = 2)%N as [-> | [-> | ->]] by lia; simpl; auto.
    - apply in_map_iff. exists (N.to_nat m). split; [apply Nnat.N2Nat.id|]. apply in_seq. lia. }
  pose proof (NoDup_incl_length Nd Hin) as Hl. unfold keys in Hl.
  rewrite prod_length, map_length, seq_length in Hl. simpl length in Hl. lia.
Qed.

(* parse_method_body, entered from ANY context a whole-file parse can be in (memoisation on, cache
   well-formed -- the top-level invariant) on any body shorter than the fuel *)
Theorem method_body_once f body i c : length body < f -> cmemo c = true -> CacheOK c ->
  exists new, cevals (snd (parse_method_body (gram f) body i c)) = new ++ cevals c /\ OnceLog body new.
Proof.
  intros Hf Hm Hok. destruct body as [|first rest].
  - exists []. split; [reflexivity|]. split; [constructor|intros k n []].
  - rewrite parse_method_body_eq.
    assert (forall b base, Sim (BodyEnv b base) (length (first :: rest)) 3 (g_stmt (gram f)) (g_stmt (gram f))) as Ss.
    { intros b base. apply (gram_Sim b base f _ Hf f Hf). }
    destruct (body_run (length (first :: rest)) (gram f) Ss first rest c (le_n _) (conj Hm Hok))
      as (wd & nw & O & Sf & (Hm1 & Hok1 & Hs1 & (new & E1 & Nd & Hk & Hb)) & D & Ev & _).
    destruct (body_parser (g_stmt (gram f)) (first :: rest) first (first :: rest) (clear_cache c)) as [r c1].
    cbn [fst snd] in *. exists new.
    assert (cevals c1 = new ++ cevals c) as E by exact E1.
    destruct r; cbn [snd]; (split; [exact E|split; [exact Nd|exact Hb]]).
Qed.

(* the bare body entry point the correspondence runs *)
From GoldV Require Import MemoObs.

Theorem body_transparent fuel toks : length toks < fuel ->
  fst (parse_body_with true fuel toks) = fst (parse_body_with false fuel toks) /\
  forall d, In d (cdiags (snd (parse_body_with true fuel toks))) <->
            In d (cdiags (snd (parse_body_with false fuel toks))).
Proof.
  intro Hf. unfold parse_body_with.
  assert (Sim (BodyEnv toks []) (length toks) 3 (g_stmt (gram fuel)) (g_stmt (gram fuel))) as Ss
    by apply (gram_Sim toks [] fuel _ Hf fuel Hf).
  destruct (Sim_repeat _ _ _ _ _ Ss toks (clear_cache (ctx0 true)) (Suffix_refl toks) (le_n _)
              (Good_clear toks (ctx0 true) eq_refl)) as (wd & nw & O & Sf & I1 & D & Ev & _).
  destruct (O (clear_cache (ctx0 false)) eq_refl) as (c1' & X & M1 & Y).
  rewrite X. cbn [fst snd]. split; [reflexivity|].
  intro d. rewrite (D d), Y. simpl. rewrite app_nil_r. tauto.
Qed.

Theorem body_once fuel toks : length toks < fuel ->
  OnceLog toks (cevals (snd (parse_body_with true fuel toks))).
Proof.
  intro Hf. unfold parse_body_with.
  assert (Sim (BodyEnv toks []) (length toks) 3 (g_stmt (gram fuel)) (g_stmt (gram fuel))) as Ss
    by apply (gram_Sim toks [] fuel _ Hf fuel Hf).
  destruct (Sim_repeat _ _ _ _ _ Ss toks (clear_cache (ctx0 true)) (Suffix_refl toks) (le_n _)
              (Good_clear toks (ctx0 true) eq_refl)) as (wd & nw & O & Sf & (Hm1 & Hok1 & Hs1 & (new & E1 & Nd & Hk & Hb)) & D & Ev & _).
  rewrite E1, app_nil_r. split; assumption.
Qed.

(* ---------- what the two memo wrappers store ---------- *)

Definition returns_normally {A} (r : res A) : Prop := match r with Panic _ | NoFuel => False | _ => True end.

(* parse_primary / parse_expr / parse_method_call (wrapper [memo]): a miss evaluates the parser once, logs
   the key and stores the result -- errors included -- so every later call at that position is a hit *)
Lemma memo_miss_stores k p i c :
  get_cache k (ilen i) c = None -> cmemo (snd (p i c)) = true -> returns_normally (fst (p i c)) ->
  fst (memo k p i c) = fst (p i c) /\
  cevals (snd (memo k p i c)) = (k, ilen i) :: cevals (snd (p i c)) /\
  get_cache k (ilen i) (snd (memo k p i c)) = Some (fst (p i c)).
Proof.
  intros G Hm1 Hr. unfold memo. rewrite G. destruct (p i c) as [r c1]. cbn [fst snd] in *.
  assert (get_cache k (ilen i) (set_cache k (ilen i) r c1) = Some r) as Hs.
  { unfold get_cache. rewrite cmemo_set_cache, Hm1, (cache_find_set _ _ _ _ _ _ Hm1), !N.eqb_refl. reflexivity. }
  destruct r; cbn [fst snd returns_normally] in *; try contradiction; auto.
Qed.

Lemma memo_hit k p i c r : get_cache k (ilen i) c = Some r -> memo k p i c = (r, c).
Proof. intro G. unfold memo. rewrite G. reflexivity. Qed.

(* the wrapper parse_method_call used before /repo commit c0beeea ([memo_ok_only], no longer used by the
   grammar): a miss whose evaluation FAILS stored nothing and logged nothing (the `?` returned before
   set_cache): the wrapper leaves the context exactly as the evaluation left it *)
Lemma memo_ok_only_failure_not_stored k p i c e m :
  get_cache k (ilen i) c = None -> fst (p i c) = Err e m ->
  memo_ok_only k p i c = p i c.
Proof. intros G He. unfold memo_ok_only. rewrite G. destruct (p i c) as [r c1]. cbn [fst] in He. subst r. reflexivity. Qed.

Lemma memo_ok_only_success_stored k p i c rest a :
  get_cache k (ilen i) c = None -> cmemo (snd (p i c)) = true -> fst (p i c) = Ok rest a ->
  cevals (snd (memo_ok_only k p i c)) = (k, ilen i) :: cevals (snd (p i c)) /\
  get_cache k (ilen i) (snd (memo_ok_only k p i c)) = Some (Ok rest a).
Proof.
  intros G Hm1 He. unfold memo_ok_only. rewrite G. destruct (p i c) as [r c1]. cbn [fst snd] in *. subst r.
  cbn [fst snd]. split; [reflexivity|].
  unfold get_cache. rewrite cmemo_set_cache, Hm1, (cache_find_set _ _ _ _ _ _ Hm1), !N.eqb_refl. reflexivity.
Qed.
