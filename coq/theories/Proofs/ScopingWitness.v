(* Concrete workspaces for the non-vacuity examples and the *_refuted witnesses of C10 / C11.
   The same workspaces are rendered to Gold files and run against /repo by checks/c10.py and
   checks/c11.py (checks/sem_common.py: witness_workspaces). *)
From GoldV Require Import Base SymTab SymTabProofs Scoping ScopingProofs.

Definition s_CA : str := [67; 65].
Definition s_FA : str := [70; 65].
Definition s_FB : str := [70; 66].
Definition s_Fa : str := [70; 97].
Definition s_Fb : str := [70; 98].
Definition s_First : str := [70; 105; 114; 115; 116].
Definition s_Ga : str := [71; 97].
Definition s_Last : str := [76; 97; 115; 116].
Definition s_Later : str := [76; 97; 116; 101; 114].
Definition s_LibField : str := [76; 105; 98; 70; 105; 101; 108; 100].
Definition s_Link : str := [76; 105; 110; 107].
Definition s_Make : str := [77; 97; 107; 101].
Definition s_Run : str := [82; 117; 110].
Definition s_Val : str := [86; 97; 108].
Definition s_Zz : str := [90; 122].
Definition s_aBase : str := [97; 66; 97; 115; 101].
Definition s_aDecl : str := [97; 68; 101; 99; 108].
Definition s_aLeaf : str := [97; 76; 101; 97; 102].
Definition s_aLib : str := [97; 76; 105; 98].
Definition s_aMid : str := [97; 77; 105; 100].
Definition s_aModUtil : str := [97; 77; 111; 100; 85; 116; 105; 108].
Definition s_aNode : str := [97; 78; 111; 100; 101].
Definition s_aUser : str := [97; 85; 115; 101; 114].
Definition s_cA : str := [99; 65].
Definition s_cLib : str := [99; 76; 105; 98].
Definition s_cstring : str := [99; 115; 116; 114; 105; 110; 103].
Definition s_fa : str := [102; 97].
Definition s_int4 : str := [105; 110; 116; 52].
Definition s_link : str := [108; 105; 110; 107].
Definition s_p1 : str := [112; 49].
Definition s_tA : str := [116; 65].
Definition s_tLib : str := [116; 76; 105; 98].

(* witness of `uses-exposes-all` (checks/sem_common.py: witness_workspaces) *)
Definition w_uses : workspace :=
  [ mkEntity s_aUser EClass None [s_aLib]
      [mkMember MProc s_Run (TNone) 1]
      [mkMethod s_Run [] []];
    mkEntity s_aLib EClass None []
      [mkMember MConst s_cLib (TNone) 1; mkMember MField s_LibField (TName s_int4) 2]
      [] ].

(* witness of `own-class-via-method-table` (checks/sem_common.py: witness_workspaces) *)
Definition ws3 : workspace :=
  [ mkEntity s_aBase EClass None []
      [mkMember MConst s_cA (TNone) 1; mkMember MField s_Fa (TName s_int4) 2; mkMember MField s_Link (TRefTo s_aLeaf) 3; mkMember MProc s_Run (TNone) 4]
      [mkMethod s_Run [] []];
    mkEntity s_aMid EClass (Some s_aBase) []
      [mkMember MField s_FA (TName s_cstring) 1; mkMember MField s_cA (TName s_int4) 2; mkMember MFunc s_Ga (TName s_aBase) 3]
      [mkMethod s_Ga [mkVar s_p1 (TName s_int4) 4] []];
    mkEntity s_aLeaf EClass (Some s_aMid) []
      [mkMember MField s_Fb (TName s_int4) 1; mkMember MProc s_Run (TNone) 2]
      [mkMethod s_Run [mkVar s_Fa (TName s_int4) 3] [mkVar s_Fb (TName s_aBase) 4]] ].

(* witness of `forward-method-in-chain` (checks/sem_common.py: witness_workspaces) *)
Definition w_fwd : workspace :=
  [ mkEntity s_aNode EClass None []
      [mkMember MField s_Val (TName s_int4) 1; mkMember MProc s_First (TNone) 2; mkMember MFunc s_Later (TName s_aNode) 3; mkMember MProc s_Last (TNone) 4]
      [mkMethod s_First [] []; mkMethod s_Later [] []; mkMethod s_Last [] []] ].

(* witness of `call-on-module-qualifier` (checks/sem_common.py: witness_workspaces) *)
Definition w_modcall : workspace :=
  [ mkEntity s_aUser EClass None [s_aModUtil]
      [mkMember MProc s_Run (TNone) 1]
      [mkMethod s_Run [] []];
    mkEntity s_aModUtil EModule None []
      [mkMember MFunc s_Make (TName s_aUser) 1]
      [mkMethod s_Make [] []] ].

(* witness of `const-type-declared-name` (checks/sem_common.py: witness_workspaces) *)
Definition w_declname : workspace :=
  [ mkEntity s_aDecl EClass None []
      [mkMember MConst s_cA (TNone) 1; mkMember MType s_tA (TName s_int4) 2; mkMember MField s_Fa (TName s_int4) 3]
      [] ].

(* witness of `return-type-as-member-name` (checks/sem_common.py: witness_workspaces) *)
Definition w_ret : workspace :=
  [ mkEntity s_aUser EClass None [s_aLib]
      [mkMember MFunc s_Make (TName s_tLib) 1]
      [mkMethod s_Make [] []];
    mkEntity s_aLib EClass None []
      [mkMember MType s_tLib (TName s_int4) 1]
      [] ].

(* ---- ws3: aBase <- aMid <- aLeaf.  aMid re-declares Fa as `FA` (overriding, other letter case)
   and declares a FIELD cA that shadows aBase's constant cA; aLeaf.Run has a parameter Fa
   (shadows the inherited field) and a local Fb (shadows aLeaf's own field). ---- *)

Definition leaf_run : option str := Some s_Run.

Lemma ws3_plain :
  resolve_plain ws3 s_aLeaf leaf_run s_fa = Some (s_aLeaf, 3) /\
  resolve_plain ws3 s_aLeaf leaf_run s_FB = Some (s_aLeaf, 4) /\
  resolve_plain ws3 s_aLeaf leaf_run s_link = Some (s_aBase, 3) /\
  resolve_plain ws3 s_aLeaf leaf_run s_CA = Some (s_aMid, 2) /\
  resolve_plain ws3 s_aLeaf leaf_run s_Zz = None.
Proof. vm_compute. repeat split; reflexivity. Qed.

Lemma ws3_guards :
  special ws3 s_fa = false /\ special ws3 s_FB = false /\ special ws3 s_link = false /\
  special ws3 s_CA = false /\ special ws3 s_Zz = false /\ uses_of ws3 s_aLeaf = [].
Proof. vm_compute. repeat split; reflexivity. Qed.

Lemma ws3_members :
  resolve_member ws3 s_aLeaf s_fa = [(s_aMid, 1); (s_aBase, 2)] /\
  resolve_member ws3 s_aLeaf s_CA = [(s_aMid, 2); (s_aBase, 1)] /\
  resolve_member ws3 s_aLeaf s_Zz = [].
Proof. vm_compute. repeat split; reflexivity. Qed.

(* own class after a dot: the members only (fix 945552f); the old step answered the parameter Fa first *)
Lemma ws3_own_member :
  definition_member ws3 s_aLeaf leaf_run s_aLeaf s_Fa = [(s_aMid, 1); (s_aBase, 2)] /\
  map to_target (search_all (member_chain_old ws3 s_aLeaf leaf_run s_aLeaf) s_Fa) = [(s_aLeaf, 3); (s_aMid, 1); (s_aBase, 2)] /\
  members_all ws3 s_aLeaf s_Fa = [(s_aMid, 1); (s_aBase, 2)] /\
  definition_method_name ws3 s_aLeaf s_Run = [(s_aLeaf, 2); (s_aBase, 4)] /\
  special ws3 s_Fa = false.
Proof. vm_compute. repeat split; reflexivity. Qed.

(* another class after a dot: as specified *)
Lemma ws3_other_member :
  definition_member ws3 s_aLeaf leaf_run s_aMid s_Fa = [(s_aMid, 1); (s_aBase, 2)].
Proof. vm_compute. reflexivity. Qed.

Lemma ws3_after_dot :
  complete_after_dot ws3 s_aLeaf = [s_Fb; s_Run; s_FA; s_cA; s_Ga; s_Link] /\
  completion_member ws3 s_aLeaf leaf_run s_aLeaf = [s_Fb; s_Run; s_FA; s_cA; s_Ga; s_Link] /\
  completion_member ws3 s_aMid (Some s_Ga) s_aLeaf = [s_Fb; s_Run; s_FA; s_cA; s_Ga; s_Link] /\
  (* the step before fix 945552f: FA and Fb hidden by the parameter Fa and the local Fb *)
  map sid (filter is_member_kind (collect (member_chain_old ws3 s_aLeaf leaf_run s_aLeaf))) = [s_Run; s_cA; s_Ga; s_Link].
Proof. vm_compute. repeat split; reflexivity. Qed.

Lemma ws3_plain_completion :
  complete_plain ws3 s_aLeaf leaf_run = [s_Fa; s_Fb] /\
  complete_plain ws3 s_aBase (Some s_Run) = [s_cA] /\
  complete_plain ws3 s_aMid (Some s_Ga) = [s_p1].
Proof. vm_compute. repeat split; reflexivity. Qed.

Lemma ws3_clean : lineage_clean ws3 s_aLeaf /\ lineage_clean ws3 s_aBase.
Proof.
  split; intros e mem He Hm; vm_compute in He;
    repeat (destruct He as [<-|He]; [vm_compute in Hm; repeat (destruct Hm as [<-|Hm]; [vm_compute; reflexivity|]); destruct Hm|]);
    destruct He.
Qed.

(* a class name, `self` *)
Lemma ws3_entity_name :
  special ws3 s_aBase = true /\ resolve_plain ws3 s_aLeaf leaf_run s_aBase = Some (s_aBase, 0) /\
  visible ws3 s_aLeaf leaf_run s_aBase = None /\
  resolve_plain ws3 s_aLeaf leaf_run s_self = Some (s_aLeaf, 0).
Proof. vm_compute. repeat split; reflexivity. Qed.

(* static types along a chain: self.Link is an aLeaf, self.Ga() an aBase; self.Fb is the FIELD Fb : int4
   (fix 945552f: not the local Fb : aBase), so `self.Fb.` has no proposals *)
Lemma ws3_static :
  static_class ws3 s_aLeaf leaf_run [IId s_self; IId s_Link] = Some (SClass s_aLeaf) /\
  static_class ws3 s_aLeaf leaf_run [IId s_self; ICall s_Ga] = Some (SClass s_aBase) /\
  static_class ws3 s_aLeaf leaf_run [IId s_Fb] = Some (SClass s_aBase) /\
  static_class ws3 s_aLeaf leaf_run [IId s_self; IId s_Fb] = None /\
  completion_dotted ws3 s_aLeaf leaf_run [IId s_self; IId s_Fb] = [].
Proof. vm_compute. repeat split; reflexivity. Qed.

(* ---- `uses` ---- *)
Lemma w_uses_facts :
  resolve_plain w_uses s_aUser (Some s_Run) s_cLib = Some (s_aLib, 1) /\
  visible w_uses s_aUser (Some s_Run) s_cLib = Some (s_aLib, 1) /\
  resolve_plain w_uses s_aUser (Some s_Run) s_LibField = Some (s_aLib, 2) /\
  visible w_uses s_aUser (Some s_Run) s_LibField = None /\
  special w_uses s_LibField = false /\ special w_uses s_cLib = false.
Proof. vm_compute. repeat split; reflexivity. Qed.

Lemma w_uses_clean_cLib : uses_clean w_uses s_aUser s_cLib.
Proof. intros u Hu. vm_compute in Hu. destruct Hu as [<-|[]]. vm_compute. reflexivity. Qed.

(* ---- forward reference to a later method inside a chain ---- *)
Lemma w_fwd_facts :
  static_class w_fwd s_aNode (Some s_First) [IId s_self; IId s_Later] = None /\
  static_class w_fwd s_aNode (Some s_Last) [IId s_self; IId s_Later] = Some (SClass s_aNode) /\
  definition_dotted w_fwd s_aNode (Some s_First) [IId s_self; IId s_Later] s_Val = [] /\
  definition_dotted w_fwd s_aNode (Some s_Last) [IId s_self; IId s_Later] s_Val = [(s_aNode, 1)].
Proof. vm_compute. repeat split; reflexivity. Qed.

(* ---- a call after a module qualifier (fix 4a7e667) ---- *)
Lemma w_modcall_facts :
  static_class w_modcall s_aUser (Some s_Run) [IId s_aModUtil; IId s_Make] = Some (SClass s_aUser) /\
  static_class w_modcall s_aUser (Some s_Run) [IId s_aModUtil; ICall s_Make] = Some (SClass s_aUser) /\
  definition_dotted w_modcall s_aUser (Some s_Run) [IId s_aModUtil; ICall s_Make] s_Run = [(s_aUser, 1)].
Proof. vm_compute. repeat split; reflexivity. Qed.

(* ---- declared names (fix efb255c) ---- *)
Lemma w_declname_facts :
  definition_member_name w_declname s_aDecl s_cA = [(s_aDecl, 1)] /\
  definition_member_name w_declname s_aDecl s_tA = [(s_aDecl, 2)] /\
  definition_member_name w_declname s_aDecl s_Fa = [(s_aDecl, 3)] /\
  special w_declname s_cA = false.
Proof. vm_compute. repeat split; reflexivity. Qed.

(* ---- a function's return type is a type reference (fix 7983abd) ---- *)
Lemma w_ret_facts :
  visible w_ret s_aUser (Some s_Make) s_tLib = Some (s_aLib, 1) /\
  resolve_plain w_ret s_aUser (Some s_Make) s_tLib = Some (s_aLib, 1) /\
  special w_ret s_tLib = false.
Proof. vm_compute. repeat split; reflexivity. Qed.

Lemma ws3_acyclic_depth : lineage ws3 s_aLeaf = ancestors 10 ws3 s_aLeaf /\ length (lineage ws3 s_aLeaf) = 3%nat.
Proof. vm_compute. split; reflexivity. Qed.
