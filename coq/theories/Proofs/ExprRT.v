(* C06: the expression grammar of the model round-trips.
   A declarative grammar of Gold expressions (inductive relations "these tokens derive this tree":
   no ordering of alternatives, no backtracking) is defined level by level along the model's
   fuel-indexed knot [gram]; the theorem [gram_expr_rt] says that the model's parsers
   g_expr / g_primary accept every derivable token list, whatever follows it (as long as what
   follows cannot continue the expression), return exactly the derived tree, consume exactly the
   derived tokens and add no diagnostic.  Expressions of unbounded size and nesting.
   Contexts: memoisation off (see RTComb.v). *)
From GoldV Require Import Base Tokens Lexer AstKinds Tree Strings PComb Grammar Ladder RTComb LadderProofs.
From Coq Require Import Lia.

(* what may follow a primary expression / an expression *)
Definition afollow (rest : input) : Prop := nostart primary_continue rest.
Definition efollow (rest : input) : Prop := nostart (concat ladder) rest /\ afollow rest.

(* node builders (the nodes the model's parsers build) *)
Definition mk_unary_pre (op : tok) (e : node) : node :=
  Node KAstUnaryOp (tval op) (traw op) (mkRange (tpos op) (rend (nrange e))) [(K_op, AT op)] [e].
Definition mk_unary_post (e : node) (op : tok) : node :=
  Node KAstUnaryOp (tval op) (nraw e) (mkRange (rstart (nrange e)) (rend (trange op))) [(K_op, AT op)] [e].
Definition mk_call (id : tok) (ps : list node) (cb : tok) : node :=
  Node KAstMethodCall (tval id) (traw id) (mkRange (rstart (trange id)) (rend (trange cb))) [] ps.
Definition mk_idx (id : tok) (ix : node) (cb : tok) : node :=
  Node KAstArrayAccess (tval id) (traw id) (new_range (trange id) (trange cb)) [] [mk_terminal id; ix].
Definition mk_set (ob : tok) (items : list node) (cb : tok) : node :=
  Node KAstSetLiteral S_set_literal (traw ob) (new_range (trange ob) (trange cb)) [] items.

(* ---------- small facts about first tokens ---------- *)

Lemma nostart_cons F S t r : In (tty t) S -> disj_b S (TComment :: F) = true -> nostart F (t :: r).
Proof. apply starts_nostart. Qed.

Lemma nostart_ty F ty t r : tty t = ty -> mem_ty ty (TComment :: F) = false -> nostart F (t :: r).
Proof.
  intros H Hm. apply (starts_nostart [ty]); [left; auto|]. unfold disj_b. cbn [forallb]. rewrite Hm. reflexivity.
Qed.

Lemma efollow_ty ty t r : tty t = ty -> mem_ty ty (TComment :: concat ladder ++ primary_continue) = false -> efollow (t :: r).
Proof.
  intros H Hm. split; eapply (nostart_sub (concat ladder ++ primary_continue)).
  - intros x Hx. apply in_or_app. left. exact Hx.
  - eapply nostart_ty; eauto.
  - intros x Hx. apply in_or_app. right. exact Hx.
  - eapply nostart_ty; eauto.
Qed.

Lemma efollow_afollow rest : efollow rest -> afollow rest.
Proof. intros [_ H]. exact H. Qed.

Lemma parse_identifier_ok t r : In (tty t) ident_types -> Parses parse_identifier (t :: r) r (mk_terminal t).
Proof.
  intro H. unfold parse_identifier, parse_ident_token. eapply Parses_bind; [|apply Parses_ret].
  apply tok_alt_in; [exact H|reflexivity].
Qed.

Lemma parse_identifier_failsat i : nostart ident_types i -> FailsAt parse_identifier i i.
Proof.
  intro H. unfold parse_identifier, parse_ident_token. apply FailsAt_bind_l.
  apply tok_alt_nostart; [discriminate|reflexivity|exact H].
Qed.

Lemma parse_literal_basic_ok t r : In (tty t) literal_types -> Parses parse_literal_basic (t :: r) r (mk_terminal t).
Proof.
  intro H. unfold parse_literal_basic. eapply Parses_bind; [|apply Parses_ret].
  apply tok_alt_in; [exact H|reflexivity].
Qed.

Lemma parse_literal_basic_failsat i : nostart literal_types i -> FailsAt parse_literal_basic i i.
Proof.
  intro H. unfold parse_literal_basic. apply FailsAt_bind_l.
  apply tok_alt_nostart; [discriminate|reflexivity|exact H].
Qed.

Ltac sub_nostart H :=
  eapply nostart_sub; [|exact H]; let x := fresh in let Hx := fresh in
  intros x Hx; simpl in Hx; simpl; tauto.

(* no primary can start here: parse_primary fails at this very position (at any level) *)
Lemma primary_failsat re rp i : nostart primary_first i -> FailsAt (parse_primary_body re rp) i i.
Proof.
  intro H. unfold parse_primary_body. apply FailsAt_memo. apply alt_failsat; [discriminate|].
  assert (FailsAt (parse_dot_ops re) i i) as Hdots.
  { unfold parse_dot_ops. apply binops_failsat. unfold parse_dot_op. apply alt_failsat; [discriminate|].
    repeat (apply Forall_cons || apply Forall_nil).
    - unfold parse_method_call. apply FailsAt_memo. apply FailsAt_bind_l. apply parse_identifier_failsat. sub_nostart H.
    - unfold parse_array_access. apply FailsAt_bind_l. apply parse_identifier_failsat. sub_nostart H.
    - apply parse_identifier_failsat. sub_nostart H. }
  repeat (apply Forall_cons || apply Forall_nil).
  - unfold parse_bracket_closure. apply FailsAt_bind_l. apply exp_token_nostart; [discriminate|]. sub_nostart H.
  - unfold parse_unary_op. apply alt_failsat; [discriminate|]. repeat (apply Forall_cons || apply Forall_nil).
    + unfold parse_unary_op_pre. apply FailsAt_bind_l. apply tok_alt_nostart; [discriminate|reflexivity|]. sub_nostart H.
    + unfold parse_unary_op_post. apply FailsAt_bind_l. exact Hdots.
  - exact Hdots.
  - unfold parse_literals. apply alt_failsat; [discriminate|]. repeat (apply Forall_cons || apply Forall_nil).
    + apply parse_literal_basic_failsat. sub_nostart H.
    + unfold parse_literal_set. apply FailsAt_bind_l. apply exp_token_nostart; [discriminate|]. sub_nostart H.
Qed.

Lemma expr_failsat prim i : FailsAt prim i i -> FailsAt (parse_expr_body prim) i i.
Proof.
  intro H. unfold parse_expr_body. apply FailsAt_memo. apply alt_failsat; [discriminate|].
  repeat (apply Forall_cons || apply Forall_nil).
  unfold parse_logical_or, parse_logical_and, parse_compare, parse_shifts, parse_bit_ops_2, parse_bit_ops_1,
    parse_terms, parse_factors.
  repeat apply binops_failsat. exact H.
Qed.

(* the ladder hypotheses of the generic theorem, for the generated ladder *)
Lemma ladder_ops : Forall2 op_spec ladder (map tok_alt ladder).
Proof.
  unfold ladder. cbn [map].
  repeat (apply Forall2_cons || apply Forall2_nil); (apply op_spec_tok_alt; [discriminate|apply mem_ty_false; reflexivity]).
Qed.

Lemma ladder_nocomment j : ~ In TComment (nth j ladder []).
Proof. apply ladder_no. reflexivity. Qed.

Lemma follow_nostart k rest : nostart (concat ladder) rest -> follow ladder k rest.
Proof. intros H ty j Hh Hin. exfalso. apply (H ty Hh). eapply In_nth_concat. exact Hin. Qed.

Lemma lev_model_level prim k : lev (map tok_alt ladder) prim k = model_level k prim.
Proof. unfold lev, model_level. rewrite skipn_map. reflexivity. Qed.

(* the dot "ladder" *)
Definition afollow_dot (rest : input) : Prop := nostart [TOBracket; TOSqrBracket] rest.

Lemma dot_ops : Forall2 op_spec [[TDot]] [exp_token TDot].
Proof. repeat constructor; try (apply op_spec_exp_token; discriminate). Qed.

Lemma dot_disj : forall j j' ty, In ty (nth j [[TDot]] []) -> In ty (nth j' [[TDot]] []) -> j = j'.
Proof. intros [|[|j]] [|[|j']] ty H1 H2; simpl in *; tauto. Qed.

Lemma dot_nocomment j : ~ In TComment (nth j [[TDot]] []).
Proof. destruct j as [|[|j]]; simpl; [intros [X|[]]; discriminate|tauto|tauto]. Qed.

Lemma dot_follow rest : nostart [TDot] rest -> follow [[TDot]] 0 rest.
Proof.
  intros H ty j Hh Hin. exfalso. destruct j as [|[|j]]; simpl in Hin; try tauto.
  apply (H ty Hh). destruct Hin as [<-|[]]. left. reflexivity.
Qed.

(* ---------- one level of the knot ---------- *)

Section Level.
  Variables re rp : P node.                       (* parse_expr / parse_primary one fuel level down *)
  Variables RE RP : list tok -> node -> Prop.     (* what they are known to derive *)
  Variable allow_empty : Prop.                    (* they also fail properly (they are not out of fuel) *)
  Hypothesis Hre : forall ts n rest, RE ts n -> efollow rest -> Parses re (ts ++ rest) rest n.
  Hypothesis Hrp : forall ts n rest, RP ts n -> afollow rest -> Parses rp (ts ++ rest) rest n.
  Hypothesis Hre0 : allow_empty -> forall i, nostart primary_first i -> FailsAt re i i.
  Hypothesis Hrp0 : allow_empty -> forall i, nostart primary_first i -> FailsAt rp i i.

  (* an operand of the dot operator *)
  Inductive DotItem : list tok -> node -> Prop :=
  | D_id t : In (tty t) ident_types -> DotItem [t] (mk_terminal t)
  | D_call0 t o c : allow_empty -> In (tty t) ident_types -> tty o = TOBracket -> tty c = TCBracket ->
      DotItem [t; o; c] (mk_call t [] c)
  | D_call t o ts ns c : In (tty t) ident_types -> tty o = TOBracket -> Args TComma RE ts ns -> tty c = TCBracket ->
      DotItem (t :: o :: ts ++ [c]) (mk_call t ns c)
  | D_idx t o ts n c : In (tty t) ident_types -> tty o = TOSqrBracket -> RE ts n -> tty c = TCSqrBracket ->
      DotItem (t :: o :: ts ++ [c]) (mk_idx t n c).

  (* a dot chain a.b(x).c[i]: left-nested binary nodes *)
  Definition Dots : list tok -> node -> Prop := Exp [[TDot]] DotItem 0.

  (* a primary expression *)
  Inductive Prim : list tok -> node -> Prop :=
  | P_par o ts n c : tty o = TOBracket -> RE ts n -> tty c = TCBracket -> Prim (o :: ts ++ [c]) n
  | P_pre op ts n : In (tty op) prefix_types -> RP ts n -> Prim (op :: ts) (mk_unary_pre op n)
  | P_post ts n op : Dots ts n -> In (tty op) postfix_types -> Prim (ts ++ [op]) (mk_unary_post n op)
  | P_dots ts n : Dots ts n -> Prim ts n
  | P_lit t : In (tty t) literal_types -> Prim [t] (mk_terminal t)
  | P_set0 o c : allow_empty -> tty o = TOSqrBracket -> tty c = TCSqrBracket -> Prim [o; c] (mk_set o [] c)
  | P_set o ts ns c : tty o = TOSqrBracket -> Args TComma RP ts ns -> tty c = TCSqrBracket ->
      Prim (o :: ts ++ [c]) (mk_set o ns c).

  (* an expression that may stand where ladder level k is expected (0: any expression) *)
  Definition ExprK (k : nat) : list tok -> node -> Prop := Exp ladder Prim k.

  Lemma efollow_comma t r : tty t = TComma -> efollow (t :: r).
  Proof. intro H. eapply efollow_ty; [exact H|reflexivity]. Qed.

  Lemma afollow_comma t r : tty t = TComma -> afollow (t :: r).
  Proof. intro H. apply efollow_afollow. apply efollow_comma. exact H. Qed.

  Lemma dot_item_parses ts n rest : DotItem ts n -> afollow_dot rest -> Parses (parse_dot_op re) (ts ++ rest) rest n.
  Proof.
    intros H Hf. unfold parse_dot_op, alt.
    destruct H as [t Ht|t o c Hae Ht Ho Hc|t o ts ns c Ht Ho Ha Hc|t o ts n c Ht Ho Hn Hc].
    - (* identifier *)
      cbn [app]. apply alt_go_skip.
      { unfold parse_method_call. apply Fails_memo. eapply Fails_bind_r; [apply parse_identifier_ok; exact Ht|].
        apply Fails_bind_l. eapply FailsAt_Fails. apply exp_token_nostart; [discriminate|]. sub_nostart Hf. }
      intro b1. apply alt_go_skip.
      { unfold parse_array_access. eapply Fails_bind_r; [apply parse_identifier_ok; exact Ht|].
        apply Fails_bind_l. eapply FailsAt_Fails. apply exp_token_nostart; [discriminate|]. sub_nostart Hf. }
      intro b2. apply alt_go_here. apply parse_identifier_ok. exact Ht.
    - (* call without arguments *)
      cbn [app]. apply alt_go_here. unfold parse_method_call. apply Parses_memo.
      eapply Parses_bind; [apply parse_identifier_ok; exact Ht|]. cbv beta.
      eapply Parses_bind; [apply exp_token_ok; exact Ho|]. cbv beta.
      eapply Parses_bind; [apply sep_list_empty; apply (Hre0 Hae); eapply nostart_ty; [exact Hc|reflexivity]|]. cbv beta.
      eapply Parses_bind; [apply exp_token_ok; exact Hc|]. cbv beta. apply Parses_ret.
    - (* call *)
      cbn [app]. rewrite <- app_assoc. cbn [app]. apply alt_go_here. unfold parse_method_call. apply Parses_memo.
      eapply Parses_bind; [apply parse_identifier_ok; exact Ht|]. cbv beta.
      eapply Parses_bind; [apply exp_token_ok; exact Ho|]. cbv beta.
      eapply Parses_bind.
      { eapply (sep_list_args _ re TComma RE efollow Hre); [intros; apply efollow_comma; assumption|discriminate|exact Ha| |].
        - eapply efollow_ty; [exact Hc|reflexivity].
        - eapply nostart_ty; [exact Hc|reflexivity]. }
      cbv beta. eapply Parses_bind; [apply exp_token_ok; exact Hc|]. cbv beta. apply Parses_ret.
    - (* index *)
      cbn [app]. rewrite <- app_assoc. cbn [app]. apply alt_go_skip.
      { unfold parse_method_call. apply Fails_memo. eapply Fails_bind_r; [apply parse_identifier_ok; exact Ht|].
        apply Fails_bind_l. eapply FailsAt_Fails. apply exp_token_nostart; [discriminate|].
        eapply nostart_ty; [exact Ho|reflexivity]. }
      intro b1. apply alt_go_here. unfold parse_array_access.
      eapply Parses_bind; [apply parse_identifier_ok; exact Ht|]. cbv beta.
      eapply Parses_bind; [apply exp_token_ok; exact Ho|]. cbv beta.
      eapply Parses_bind; [apply Hre; [exact Hn|eapply efollow_ty; [exact Hc|reflexivity]]|]. cbv beta.
      eapply Parses_bind; [apply exp_token_ok; exact Hc|]. cbv beta. apply Parses_ret.
  Qed.

  Lemma dots_parses ts n rest : Dots ts n -> nostart [TDot; TOBracket; TOSqrBracket] rest ->
    Parses (parse_dot_ops re) (ts ++ rest) rest n.
  Proof.
    intros H Hf.
    change (parse_dot_ops re) with (lev [exp_token TDot] (parse_dot_op re) 0).
    eapply (climb_roundtrip [[TDot]] [exp_token TDot] dot_ops dot_disj dot_nocomment (parse_dot_op re) DotItem afollow_dot).
    - intros. apply dot_item_parses; assumption.
    - intros t r j Hin. destruct j as [|[|j]]; simpl in Hin; try tauto. destruct Hin as [Hin|[]].
      eapply nostart_ty; [symmetry; exact Hin|reflexivity].
    - exact H.
    - apply dot_follow. sub_nostart Hf.
    - sub_nostart Hf.
  Qed.

  (* a dot chain starts with an identifier-like token *)
  Lemma Exp_dot_first k ts n : Exp [[TDot]] DotItem k ts n -> exists t r, ts = t :: r /\ In (tty t) ident_types.
  Proof.
    induction 1 as [k ts n Ha|k j op tl nl tr nr Hin Hle Hl IHl Hr IHr].
    - destruct Ha; eauto.
    - destruct IHl as (t & r & -> & Ht). exists t, (r ++ op :: tr). split; [reflexivity|exact Ht].
  Qed.

  Lemma dots_first ts n : Dots ts n -> exists t r, ts = t :: r /\ In (tty t) ident_types.
  Proof. apply Exp_dot_first. Qed.

  Lemma afollow_dots rest : afollow rest -> nostart [TDot; TOBracket; TOSqrBracket] rest.
  Proof. intro H. sub_nostart H. Qed.

  Lemma set_case o r rest n : tty o = TOSqrBracket -> Parses (parse_literal_set rp) (o :: r) rest n ->
    Parses (alt_go [parse_bracket_closure re; parse_unary_op re rp; parse_dot_ops re; parse_literals rp] None) (o :: r) rest n.
  Proof.
    intros Ho H.
    assert (nostart ident_types (o :: r)) as Hni by (eapply nostart_ty; [exact Ho|reflexivity]).
    assert (Fails (parse_dot_ops re) (o :: r)) as Hnd.
    { eapply FailsAt_Fails. unfold parse_dot_ops. apply binops_failsat. unfold parse_dot_op. apply alt_failsat; [discriminate|].
      repeat (apply Forall_cons || apply Forall_nil).
      - unfold parse_method_call. apply FailsAt_memo. apply FailsAt_bind_l. apply parse_identifier_failsat. exact Hni.
      - unfold parse_array_access. apply FailsAt_bind_l. apply parse_identifier_failsat. exact Hni.
      - apply parse_identifier_failsat. exact Hni. }
    apply alt_go_skip.
    { unfold parse_bracket_closure. apply Fails_bind_l. eapply FailsAt_Fails. apply exp_token_nostart; [discriminate|].
      eapply nostart_ty; [exact Ho|reflexivity]. }
    intro b1. apply alt_go_skip.
    { unfold parse_unary_op. apply alt_fails; [discriminate|]. repeat (apply Forall_cons || apply Forall_nil).
      - unfold parse_unary_op_pre. apply Fails_bind_l. eapply FailsAt_Fails. apply tok_alt_nostart; [discriminate|reflexivity|].
        eapply nostart_ty; [exact Ho|reflexivity].
      - unfold parse_unary_op_post. apply Fails_bind_l. exact Hnd. }
    intro b2. apply alt_go_skip; [exact Hnd|]. intro b3. apply alt_go_here.
    unfold parse_literals, alt. apply alt_go_skip.
    { eapply FailsAt_Fails. apply parse_literal_basic_failsat. eapply nostart_ty; [exact Ho|reflexivity]. }
    intro b4. apply alt_go_here. exact H.
  Qed.

  Lemma prim_parses ts n rest : Prim ts n -> afollow rest -> Parses (parse_primary_body re rp) (ts ++ rest) rest n.
  Proof.
    intros H Hf. unfold parse_primary_body. apply Parses_memo. unfold alt.
    destruct H as [o ts n c Ho Hn Hc|op ts n Hop Hn|ts n op Hd Hop|ts n Hd|t Ht|o c Hae Ho Hc|o ts ns c Ho Ha Hc].
    - (* ( e ) *)
      cbn [app]. rewrite <- app_assoc. cbn [app]. apply alt_go_here. unfold parse_bracket_closure.
      eapply Parses_bind; [apply exp_token_ok; exact Ho|]. cbv beta.
      eapply Parses_bind; [apply Hre; [exact Hn|eapply efollow_ty; [exact Hc|reflexivity]]|]. cbv beta.
      eapply Parses_bind; [apply exp_token_ok; exact Hc|]. cbv beta. apply Parses_ret.
    - (* prefix operator *)
      cbn [app]. apply alt_go_skip.
      { unfold parse_bracket_closure. apply Fails_bind_l. eapply FailsAt_Fails. apply exp_token_nostart; [discriminate|].
        eapply (nostart_cons _ prefix_types); [exact Hop|reflexivity]. }
      intro b1. apply alt_go_here. unfold parse_unary_op, alt. apply alt_go_here. unfold parse_unary_op_pre.
      eapply Parses_bind; [apply tok_alt_in; [exact Hop|reflexivity]|]. cbv beta.
      eapply Parses_bind; [apply Hrp; [exact Hn|exact Hf]|]. cbv beta. apply Parses_ret.
    - (* postfix operator on a dot chain *)
      destruct (dots_first _ _ Hd) as (t & r & -> & Ht). rewrite <- app_assoc. cbn [app].
      apply alt_go_skip.
      { unfold parse_bracket_closure. apply Fails_bind_l. eapply FailsAt_Fails. apply exp_token_nostart; [discriminate|].
        eapply (nostart_cons _ ident_types); [exact Ht|reflexivity]. }
      intro b1. apply alt_go_here. unfold parse_unary_op, alt. apply alt_go_skip.
      { unfold parse_unary_op_pre. apply Fails_bind_l. eapply FailsAt_Fails. apply tok_alt_nostart; [discriminate|reflexivity|].
        eapply (nostart_cons _ ident_types); [exact Ht|reflexivity]. }
      intro b2. apply alt_go_here. unfold parse_unary_op_post.
      eapply Parses_bind.
      { change (t :: r ++ op :: rest) with ((t :: r) ++ op :: rest). apply dots_parses; [exact Hd|].
        eapply (nostart_cons _ postfix_types); [exact Hop|reflexivity]. }
      cbv beta. eapply Parses_bind; [apply tok_alt_in; [exact Hop|reflexivity]|]. cbv beta. apply Parses_ret.
    - (* a dot chain *)
      destruct (dots_first _ _ Hd) as (t & r & -> & Ht). cbn [app].
      assert (Parses (parse_dot_ops re) (t :: r ++ rest) rest n) as Hdots.
      { change (t :: r ++ rest) with ((t :: r) ++ rest). apply dots_parses; [exact Hd|apply afollow_dots; exact Hf]. }
      apply alt_go_skip.
      { unfold parse_bracket_closure. apply Fails_bind_l. eapply FailsAt_Fails. apply exp_token_nostart; [discriminate|].
        eapply (nostart_cons _ ident_types); [exact Ht|reflexivity]. }
      intro b1. apply alt_go_skip.
      { unfold parse_unary_op. apply alt_fails; [discriminate|]. repeat (apply Forall_cons || apply Forall_nil).
        - unfold parse_unary_op_pre. apply Fails_bind_l. eapply FailsAt_Fails. apply tok_alt_nostart; [discriminate|reflexivity|].
          eapply (nostart_cons _ ident_types); [exact Ht|reflexivity].
        - unfold parse_unary_op_post. eapply Fails_bind_r; [exact Hdots|]. apply Fails_bind_l.
          eapply FailsAt_Fails. apply tok_alt_nostart; [discriminate|reflexivity|]. sub_nostart Hf. }
      intro b2. apply alt_go_here. exact Hdots.
    - (* literal *)
      cbn [app].
      assert (Fails (parse_dot_ops re) (t :: rest)) as Hnd.
      { eapply FailsAt_Fails. unfold parse_dot_ops. apply binops_failsat. unfold parse_dot_op. apply alt_failsat; [discriminate|].
        assert (nostart ident_types (t :: rest)) as Hni by (eapply (nostart_cons _ literal_types); [exact Ht|reflexivity]).
        repeat (apply Forall_cons || apply Forall_nil).
        - unfold parse_method_call. apply FailsAt_memo. apply FailsAt_bind_l. apply parse_identifier_failsat. exact Hni.
        - unfold parse_array_access. apply FailsAt_bind_l. apply parse_identifier_failsat. exact Hni.
        - apply parse_identifier_failsat. exact Hni. }
      apply alt_go_skip.
      { unfold parse_bracket_closure. apply Fails_bind_l. eapply FailsAt_Fails. apply exp_token_nostart; [discriminate|].
        eapply (nostart_cons _ literal_types); [exact Ht|reflexivity]. }
      intro b1. apply alt_go_skip.
      { unfold parse_unary_op. apply alt_fails; [discriminate|]. repeat (apply Forall_cons || apply Forall_nil).
        - unfold parse_unary_op_pre. apply Fails_bind_l. eapply FailsAt_Fails. apply tok_alt_nostart; [discriminate|reflexivity|].
          eapply (nostart_cons _ literal_types); [exact Ht|reflexivity].
        - unfold parse_unary_op_post. apply Fails_bind_l. exact Hnd. }
      intro b2. apply alt_go_skip; [exact Hnd|]. intro b3. apply alt_go_here.
      unfold parse_literals, alt. apply alt_go_here. apply parse_literal_basic_ok. exact Ht.
    - (* [] *)
      cbn [app]. eapply (set_case o (c :: rest)); [exact Ho|]. unfold parse_literal_set.
      eapply Parses_bind; [apply exp_token_ok; exact Ho|]. cbv beta.
      eapply Parses_bind; [apply sep_list_empty; apply (Hrp0 Hae); eapply nostart_ty; [exact Hc|reflexivity]|]. cbv beta.
      eapply Parses_bind; [apply exp_token_ok; exact Hc|]. cbv beta. apply Parses_ret.
    - (* [ p, p ] *)
      cbn [app]. rewrite <- app_assoc. cbn [app]. eapply (set_case o (ts ++ c :: rest)); [exact Ho|]. unfold parse_literal_set.
      eapply Parses_bind; [apply exp_token_ok; exact Ho|]. cbv beta.
      eapply Parses_bind.
      { eapply (sep_list_args _ rp TComma RP afollow Hrp); [intros; apply afollow_comma; assumption|discriminate|exact Ha| |].
        - apply efollow_afollow. eapply efollow_ty; [exact Hc|reflexivity].
        - eapply nostart_ty; [exact Hc|reflexivity]. }
      cbv beta. eapply Parses_bind; [apply exp_token_ok; exact Hc|]. cbv beta. apply Parses_ret.
  Qed.

  Lemma op_afollow t r j : In (tty t) (nth j ladder []) -> afollow (t :: r).
  Proof.
    intro H. apply In_nth_concat in H. eapply (nostart_cons _ (concat ladder)); [exact H|reflexivity].
  Qed.

  Lemma exprk_parses k ts n rest : ExprK k ts n -> efollow rest ->
    Parses (model_level k (parse_primary_body re rp)) (ts ++ rest) rest n.
  Proof.
    intros H [Hf Ha]. rewrite <- lev_model_level.
    eapply (climb_roundtrip ladder (map tok_alt ladder) ladder_ops ladder_disjoint ladder_nocomment _ Prim afollow).
    - intros. apply prim_parses; assumption.
    - apply op_afollow.
    - exact H.
    - apply follow_nostart. exact Hf.
    - exact Ha.
  Qed.

  Lemma expr_parses ts n rest : ExprK 0 ts n -> efollow rest ->
    Parses (parse_expr_body (parse_primary_body re rp)) (ts ++ rest) rest n.
  Proof.
    intros H Hf. unfold parse_expr_body. apply Parses_memo. unfold alt. apply alt_go_here.
    apply (exprk_parses 0); assumption.
  Qed.
End Level.

(* ---------- the knot: the declarative grammar level by level ---------- *)

Definition rel := list tok -> node -> Prop.
Definition rel_le (R R' : rel) : Prop := forall ts n, R ts n -> R' ts n.

Fixpoint GR (f : nat) : rel * rel :=       (* (expressions, primaries) derivable at gram level f *)
  match f with
  | O => (fun _ _ => False, fun _ _ => False)
  | S f' => let r := GR f' in
            let pr := Prim (fst r) (snd r) (f' <> 0)%nat in
            (Exp ladder pr 0, pr)
  end.
Definition GExpr (f : nat) : rel := fst (GR f).
Definition GPrim (f : nat) : rel := snd (GR f).
(* dot chains as parsed by `pdotops` of gram level f *)
Definition GDots (f : nat) : rel :=
  match f with O => fun _ _ => False | S f' => Dots (GExpr f') (f' <> 0)%nat end.
(* level-k expressions of gram level f *)
Definition GExprK (f k : nat) : rel := Exp ladder (GPrim f) k.

Lemma GExpr_S f : GExpr (S f) = Exp ladder (Prim (GExpr f) (GPrim f) (f <> 0)%nat) 0.
Proof. reflexivity. Qed.
Lemma GPrim_S f : GPrim (S f) = Prim (GExpr f) (GPrim f) (f <> 0)%nat.
Proof. reflexivity. Qed.

Theorem gram_expr_rt : forall f,
  (forall ts n rest, GExpr f ts n -> efollow rest -> Parses (g_expr (gram f)) (ts ++ rest) rest n) /\
  (forall ts n rest, GPrim f ts n -> afollow rest -> Parses (g_primary (gram f)) (ts ++ rest) rest n) /\
  (f <> 0%nat -> forall i, nostart primary_first i -> FailsAt (g_expr (gram f)) i i) /\
  (f <> 0%nat -> forall i, nostart primary_first i -> FailsAt (g_primary (gram f)) i i).
Proof.
  induction f as [|f (IHe & IHp & IHe0 & IHp0)].
  - repeat split; try (intros ts n rest []); intro H; congruence.
  - cbn [gram g_expr g_primary]. rewrite GExpr_S, GPrim_S. repeat split.
    + intros ts n rest H Hf. apply (expr_parses _ _ (GExpr f) (GPrim f) (f <> 0)%nat IHe IHp IHe0 IHp0); assumption.
    + intros ts n rest H Hf. apply (prim_parses _ _ (GExpr f) (GPrim f) (f <> 0)%nat IHe IHp IHe0 IHp0); assumption.
    + intros _ i H. apply expr_failsat. apply primary_failsat. exact H.
    + intros _ i H. apply primary_failsat. exact H.
Qed.

(* the level-k parsers of gram level f, and its dot-chain parser *)
Theorem gram_exprk_rt f k ts n rest : GExprK (S f) k ts n -> efollow rest ->
  Parses (model_level k (g_primary (gram (S f)))) (ts ++ rest) rest n.
Proof.
  destruct (gram_expr_rt f) as (IHe & IHp & IHe0 & IHp0). intros H Hf.
  cbn [gram g_primary]. unfold GExprK in H. rewrite GPrim_S in H.
  apply (exprk_parses _ _ (GExpr f) (GPrim f) (f <> 0)%nat IHe IHp IHe0 IHp0); assumption.
Qed.

Theorem gram_dots_rt f ts n rest : GDots (S f) ts n -> nostart [TDot; TOBracket; TOSqrBracket] rest ->
  Parses (parse_dot_ops (g_expr (gram f))) (ts ++ rest) rest n.
Proof.
  destruct (gram_expr_rt f) as (IHe & IHp & IHe0 & IHp0). intros H Hf.
  apply (dots_parses _ (GExpr f) (f <> 0)%nat IHe IHe0); assumption.
Qed.

(* ---------- monotonicity in the level: more fuel derives more ---------- *)

Lemma Exp_mono lad (R R' : rel) k ts n : rel_le R R' -> Exp lad R k ts n -> Exp lad R' k ts n.
Proof.
  intros H. induction 1 as [k ts n Ha|k j op tl nl tr nr Hin Hle Hl IHl Hr IHr].
  - apply X_atom. apply H. exact Ha.
  - eapply X_bin; eauto.
Qed.

Lemma DotItem_mono (RE RE' : rel) (ae ae' : Prop) : rel_le RE RE' -> (ae -> ae') -> rel_le (DotItem RE ae) (DotItem RE' ae').
Proof.
  intros H Ha ts n D. destruct D.
  - apply D_id; assumption.
  - apply D_call0; auto.
  - apply D_call; auto. eapply Args_mono; [exact H|assumption].
  - apply D_idx; auto.
Qed.

Lemma Prim_mono (RE RE' RP RP' : rel) (ae ae' : Prop) : rel_le RE RE' -> rel_le RP RP' -> (ae -> ae') ->
  rel_le (Prim RE RP ae) (Prim RE' RP' ae').
Proof.
  intros He Hp Ha ts n D.
  assert (rel_le (Dots RE ae) (Dots RE' ae')) as Hd.
  { intros ts' n' X. unfold Dots in *. eapply Exp_mono; [|exact X]. apply DotItem_mono; assumption. }
  destruct D.
  - apply P_par; auto.
  - apply P_pre; auto.
  - apply P_post; auto.
  - apply P_dots; auto.
  - apply P_lit; auto.
  - apply P_set0; auto.
  - apply P_set; auto. eapply Args_mono; [exact Hp|assumption].
Qed.

Lemma GR_mono_S f : rel_le (GExpr f) (GExpr (S f)) /\ rel_le (GPrim f) (GPrim (S f)).
Proof.
  induction f as [|f [IHe IHp]].
  - split; intros ts n [].
  - assert (rel_le (GPrim (S f)) (GPrim (S (S f)))) as Hp.
    { rewrite !GPrim_S. apply Prim_mono; auto. }
    split; [|exact Hp]. rewrite (GExpr_S (S f)), (GExpr_S f). intros ts n H.
    eapply Exp_mono; [|exact H]. rewrite <- !GPrim_S. exact Hp.
Qed.

Lemma GR_mono f f' : (f <= f')%nat -> rel_le (GExpr f) (GExpr f') /\ rel_le (GPrim f) (GPrim f').
Proof.
  induction 1 as [|f' Hle [IHe IHp]]; [split; intros ts n H; exact H|].
  destruct (GR_mono_S f') as [He Hp]. split; intros ts n H; [apply He, IHe|apply Hp, IHp]; exact H.
Qed.

Lemma GDots_mono f f' : (f <= f')%nat -> rel_le (GDots f) (GDots f').
Proof.
  intros Hle ts n H. destruct f as [|f]; [destruct H|]. destruct f' as [|f']; [lia|].
  unfold GDots, Dots in *. eapply Exp_mono; [|exact H]. apply DotItem_mono; [apply GR_mono; lia|lia].
Qed.

(* fuel-free reading: derivable at some level *)
Definition Expr : rel := fun ts n => exists f, GExpr f ts n.

(* any fuel above the level works *)
Corollary expr_roundtrip f fuel ts n rest : GExpr f ts n -> (f <= fuel)%nat -> efollow rest ->
  Parses (g_expr (gram fuel)) (ts ++ rest) rest n.
Proof.
  intros H Hle Hf. destruct (gram_expr_rt fuel) as (IHe & _). apply IHe; [|exact Hf].
  apply (GR_mono f fuel Hle). exact H.
Qed.

(* ---------- building derivations ---------- *)

Lemma GPrim_ident f t : In (tty t) ident_types -> GPrim (S f) [t] (mk_terminal t).
Proof. intro H. rewrite GPrim_S. apply P_dots. apply X_atom. apply D_id. exact H. Qed.

Lemma GPrim_lit f t : In (tty t) literal_types -> GPrim (S f) [t] (mk_terminal t).
Proof. intro H. rewrite GPrim_S. apply P_lit. exact H. Qed.

Lemma GPrim_par f o ts n c : tty o = TOBracket -> GExpr f ts n -> tty c = TCBracket -> GPrim (S f) (o :: ts ++ [c]) n.
Proof. intros. rewrite GPrim_S. apply P_par; assumption. Qed.

Lemma GExprK_atom f k ts n : GPrim f ts n -> GExprK f k ts n.
Proof. intro H. apply X_atom. exact H. Qed.

Lemma GExprK_bin f k j op tl nl tr nr :
  In (tty op) (nth j ladder []) -> (k <= j)%nat -> GExprK f j tl nl -> GExprK f (S j) tr nr ->
  GExprK f k (tl ++ op :: tr) (mk_binop op nl nr).
Proof. intros. eapply X_bin; eauto. Qed.

Lemma GExprK_0 f ts n : GExprK (S f) 0 ts n -> GExpr (S f) ts n.
Proof. intro H. exact H. Qed.

(* ---------- readable corollaries: precedence and associativity for all pairs of ladder operators ---------- *)

(* precedence: for identifiers a b c and operators o1 of a LOWER level than o2 (any two operators of
   the generated ladder):  a o1 b o2 c = a o1 (b o2 c)   and   a o2 b o1 c = (a o2 b) o1 c *)
Theorem precedence_pairs : forall fuel a b c o1 o2 j1 j2 rest,
  In (tty a) ident_types -> In (tty b) ident_types -> In (tty c) ident_types ->
  In (tty o1) (nth j1 ladder []) -> In (tty o2) (nth j2 ladder []) -> (j1 < j2)%nat -> efollow rest ->
  Parses (g_expr (gram (S fuel))) ([a; o1; b; o2; c] ++ rest) rest
         (mk_binop o1 (mk_terminal a) (mk_binop o2 (mk_terminal b) (mk_terminal c))) /\
  Parses (g_expr (gram (S fuel))) ([a; o2; b; o1; c] ++ rest) rest
         (mk_binop o1 (mk_binop o2 (mk_terminal a) (mk_terminal b)) (mk_terminal c)).
Proof.
  intros fuel a b c o1 o2 j1 j2 rest Ha Hb Hc H1 H2 Hlt Hf.
  assert (forall k t, In (tty t) ident_types -> GExprK (S fuel) k [t] (mk_terminal t)) as At
    by (intros; apply GExprK_atom; apply GPrim_ident; assumption).
  split; (apply (expr_roundtrip (S fuel)); [|lia|exact Hf]); apply GExprK_0.
  - apply (GExprK_bin (S fuel) 0 j1 o1 [a] _ [b; o2; c] _ H1); [lia|apply At; exact Ha|].
    apply (GExprK_bin (S fuel) (S j1) j2 o2 [b] _ [c] _ H2); [lia|apply At; exact Hb|apply At; exact Hc].
  - apply (GExprK_bin (S fuel) 0 j1 o1 [a; o2; b] _ [c] _ H1); [lia| |apply At; exact Hc].
    apply (GExprK_bin (S fuel) j1 j2 o2 [a] _ [b] _ H2); [lia|apply At; exact Ha|apply At; exact Hb].
Qed.

(* left associativity: for operators of the SAME level:  a o1 b o2 c = (a o1 b) o2 c *)
Theorem left_assoc_pairs : forall fuel a b c o1 o2 j rest,
  In (tty a) ident_types -> In (tty b) ident_types -> In (tty c) ident_types ->
  In (tty o1) (nth j ladder []) -> In (tty o2) (nth j ladder []) -> efollow rest ->
  Parses (g_expr (gram (S fuel))) ([a; o1; b; o2; c] ++ rest) rest
         (mk_binop o2 (mk_binop o1 (mk_terminal a) (mk_terminal b)) (mk_terminal c)).
Proof.
  intros fuel a b c o1 o2 j rest Ha Hb Hc H1 H2 Hf.
  assert (forall k t, In (tty t) ident_types -> GExprK (S fuel) k [t] (mk_terminal t)) as At
    by (intros; apply GExprK_atom; apply GPrim_ident; assumption).
  apply (expr_roundtrip (S fuel)); [|lia|exact Hf]. apply GExprK_0.
  apply (GExprK_bin (S fuel) 0 j o2 [a; o1; b] _ [c] _ H2); [lia| |apply At; exact Hc].
  apply (GExprK_bin (S fuel) j j o1 [a] _ [b] _ H1); [lia|apply At; exact Ha|apply At; exact Hb].
Qed.

(* parentheses override: (a o1 b) o2 c with o1 of a lower level than o2 keeps the bracketed grouping *)
Theorem parentheses_override : forall fuel a b c o1 o2 j1 j2 op cl rest,
  In (tty a) ident_types -> In (tty b) ident_types -> In (tty c) ident_types ->
  In (tty o1) (nth j1 ladder []) -> In (tty o2) (nth j2 ladder []) -> tty op = TOBracket -> tty cl = TCBracket ->
  efollow rest ->
  Parses (g_expr (gram (S (S fuel)))) ([op; a; o1; b; cl; o2; c] ++ rest) rest
         (mk_binop o2 (mk_binop o1 (mk_terminal a) (mk_terminal b)) (mk_terminal c)).
Proof.
  intros fuel a b c o1 o2 j1 j2 op cl rest Ha Hb Hc H1 H2 Ho Hcl Hf.
  assert (forall f k t, In (tty t) ident_types -> GExprK (S f) k [t] (mk_terminal t)) as At
    by (intros; apply GExprK_atom; apply GPrim_ident; assumption).
  apply (expr_roundtrip (S (S fuel))); [|lia|exact Hf]. apply GExprK_0.
  apply (GExprK_bin (S (S fuel)) 0 j2 o2 [op; a; o1; b; cl] _ [c] _ H2); [lia| |apply At; exact Hc].
  apply GExprK_atom. apply (GPrim_par (S fuel) op [a; o1; b] _ cl Ho); [|exact Hcl]. apply GExprK_0.
  apply (GExprK_bin (S fuel) 0 j1 o1 [a] _ [b] _ H1); [lia|apply At; exact Ha|apply At; exact Hb].
Qed.

(* all ordered pairs of ladder operators, by computation, on the model WITH memoisation:
   a t1 b t2 c parses to the tree the precedence rule prescribes *)
Definition mkt (ty : ttype) (n : N) : tok := mkTok n (mkRange (mkPos 0 n) (mkPos 0 (n + 1))) ty [].
Fixpoint ser (n : node) : list N :=
  match n with
  | Node k _ raw _ _ ch =>
      1000 :: ak_idx k :: raw :: (match attr_tok K_op n with Some t => tt_idx (tty t) | None => 999 end)
           :: (fix go (l : list node) : list N := match l with [] => [1001] | c :: l' => ser c ++ go l' end) ch
  end.
Fixpoint ln_eqb (a b : list N) : bool :=
  match a, b with [], [] => true | x :: a', y :: b' => (x =? y) && ln_eqb a' b' | _, _ => false end.
Definition pair_expected (t1 t2 : ttype) : node :=
  let a := mk_terminal (mkt TIdentifier 0) in let b := mk_terminal (mkt TIdentifier 2) in
  let c := mk_terminal (mkt TIdentifier 4) in
  match level_in ladder t1, level_in ladder t2 with
  | Some j1, Some j2 => if (j1 <? j2)%nat then mk_binop (mkt t1 1) a (mk_binop (mkt t2 3) b c)
                        else mk_binop (mkt t2 3) (mk_binop (mkt t1 1) a b) c
  | _, _ => a
  end.
Definition pair_parsed (t1 t2 : ttype) : list N :=
  match fst (g_expr (gram 3) [mkt TIdentifier 0; mkt t1 1; mkt TIdentifier 2; mkt t2 3; mkt TIdentifier 4] (ctx0 true)) with
  | Ok [] n => ser n
  | _ => []
  end.
Theorem all_operator_pairs_computed :
  forallb (fun t1 => forallb (fun t2 => ln_eqb (pair_parsed t1 t2) (ser (pair_expected t1 t2))) (concat ladder))
          (concat ladder) = true /\ length (concat ladder) = 23%nat.
Proof. vm_compute. auto. Qed.

