(* Text-level corollary for the diagnostics response: lexer round trip (UnlexProofs) + file theorem (FileRT) +
   the assembled response (ReportProofs) on ONE object.  For a printed file of the grammar there is no lexical
   error and no syntax diagnostic, so the response consists of the analysers' findings only: its rule items are,
   as a multiset, one per declaration satisfying its rule, and its unused-variable items are exactly the
   specification's list. *)
From GoldV Require Import Base Tokens Keywords Lexer AstKinds Tree Strings PComb Grammar RTComb ExprRT StmtRT DeclRT FileRT
                          Unlex UnlexProofs Lints LintsProofs Report ReportProofs.
From GoldV Require UnusedVar UnusedVarProofs.
From Coq Require Import Permutation.

Lemma response_of_text lx f ns : forallb printable lx = true -> Decls f (fst (lex (unlex lx))) ns ->
  snd (lex (unlex lx)) = [] /\
  exists root, fst (parse_gold (fst (lex (unlex lx)))) = Ok [] root /\
               cdiags (snd (parse_gold (fst (lex (unlex lx))))) = [] /\
               nchildren root = ns /\
               Permutation (report root []) (map of_uv (UnusedVar.analyze_today root) ++ map of_lint (lints_spec root)) /\
               filter is_unused_item (report root []) = map of_uv (UnusedVarProofs.unused_spec root).
Proof.
  intros Hp Hd. destruct (lex_unlex lx Hp) as (_ & B & _).
  destruct (file_roundtrip_parse_gold f _ ns Hd) as (C & D).
  split; [exact B|]. exists (mk_root ns).
  split; [exact C|]. split; [exact D|]. split; [reflexivity|].
  split; [exact (report_rules_exact (mk_root ns) [] eq_refl)|exact (report_unused_exact (mk_root ns) [])].
Qed.
