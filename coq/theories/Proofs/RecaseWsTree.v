(* C17 carried through the tree-level models, part 2: whole workspaces (Model/WsTree.v).

   ws_ref ws ws'     the two workspaces have the same file stems and their trees are pairwise ~ref
                     (Proofs/RecaseTree.v): keywords and REFERENCES (parent class, `uses` entities, type names,
                     operands, member names after a dot) may differ in letter case, declarations do not.
   wstree_recase     wdefinition ws a p = wdefinition ws' a p  and  wcompletion ws a p = wcompletion ws' a p
                     for every document a and every position p: same links (file stem, selection range, range),
                     same labels, and the same classification Outside / answer.
   Every step that reads a reference goes through a comparison that ignores case: the class index
   (find_doc: ci_eqb on the stem), "Parent class cannot be itself" (ci_eqb), the symbol tables (hash on the
   upper-cased name), native type names (upper-cased), the `uses` loop (class index).  For ALL workspaces. *)
From GoldV Require Import Base Tokens Keywords Lexer AstKinds Tree Recase RecaseBase RecaseOutline.
From GoldV Require Import Encase SymTab SymTabProofs Scoping ScopingProofs Annot AnnotProofs DefTree WsTree RecaseTree.
From GoldV Require RecaseLints ScopingRecase.
From Coq Require Import Lia.

Definition doc_sim (d d' : doc) : Prop := fst d = fst d' /\ nsx (snd d) (snd d').
Definition ws_sim (ws ws' : wst) : Prop := Forall2 doc_sim ws ws'.

(* the statement-level relation *)
Definition ws_ref (ws ws' : wst) : Prop := Forall2 (fun d d' => fst d = fst d' /\ ref_sim (snd d) (snd d')) ws ws'.

Lemma ws_ref_sim ws ws' : ws_ref ws ws' -> ws_sim ws ws'.
Proof. intro H. eapply Forall2_impl; [|exact H]. intros x y [A B]. split; [exact A|apply ref_sim_nsx; exact B]. Qed.

Inductive out_rel {A B} (R : A -> B -> Prop) : outcome A -> outcome B -> Prop :=
| OutR_Out : out_rel R Outside Outside
| OutR_Ans a b : R a b -> out_rel R (Ans a) (Ans b).

(* ---------- the class index ---------- *)

Lemma find_doc_from_sim ws ws' n n' : ws_sim ws ws' -> ci_eq n n' -> forall k,
  opt_rel (fun r r' => fst r = fst r' /\ doc_sim (snd r) (snd r')) (find_doc_from k ws n) (find_doc_from k ws' n').
Proof.
  intros H Hn. induction H as [|d d' l l' Hd _ IH]; intro k; [constructor|]. cbn [find_doc_from].
  destruct Hd as [E Ht]. rewrite <- E, <- (ci_eqb_sim _ _ _ _ (ci_eq_refl (fst d)) Hn).
  destruct (ci_eqb (fst d) n); [|apply IH]. constructor. split; [reflexivity|]. split; assumption.
Qed.

Lemma find_doc_sim ws ws' n n' : ws_sim ws ws' -> ci_eq n n' ->
  opt_rel (fun r r' => fst r = fst r' /\ doc_sim (snd r) (snd r')) (find_doc ws n) (find_doc ws' n').
Proof. intros H Hn. apply find_doc_from_sim; assumption. Qed.

Lemma distinct_stems_sim ws ws' : ws_sim ws ws' -> distinct_stems ws = distinct_stems ws'.
Proof.
  induction 1 as [|d d' l l' [E _] Hl IH]; [reflexivity|]. cbn [distinct_stems]. rewrite IH, <- E. do 2 f_equal.
  apply (existsb_rel doc_sim); [exact Hl|]. intros x y [Exy _]. rewrite Exy. reflexivity.
Qed.

Lemma ws_nth ws ws' i : ws_sim ws ws' -> opt_rel doc_sim (nth_error ws i) (nth_error ws' i).
Proof. apply Forall2_nth. Qed.

(* ---------- parent links ---------- *)

Inductive plink_sim : plink -> plink -> Prop :=
| PS_None : plink_sim PNone PNone
| PS_To p p' : ci_eq p p' -> plink_sim (PTo p) (PTo p')
| PS_Bad : plink_sim PBad PBad.

Lemma parent_link_sim t t' : nsx t t' -> plink_sim (parent_link t) (parent_link t').
Proof.
  intro H. unfold parent_link.
  pose proof (filter_rel nsx is_header_node is_header_node _ _ (all_nodes_sim _ _ H) is_header_node_sim) as F.
  pose proof (filter_rel nsx is_header_node is_header_node _ _ (nsx_children _ _ H) is_header_node_sim) as G.
  destruct F as [|x x' l l' _ Hl]; [constructor|]. destruct Hl as [|y y' l l' _ _].
  - destruct G as [|h h' r r' Hh Hr]; [constructor|]. destruct Hr; [|constructor].
    rewrite <- (nsx_is_kind _ _ _ Hh). destruct (is_kind KAstClass h) eqn:Ek; [|constructor].
    destruct (attr_tok_rel K_parent _ _ (nsx_sim _ _ Hh)) as [|p p' Hp]; [constructor|].
    rewrite <- (ci_eqb_sim _ _ _ _ (ts_val _ _ Hp) (nsx_ci _ _ Hh)).
    destruct (ci_eqb (tval p) (nident h)); constructor. apply Hp.
  - destruct G as [|h h' r r' Hh Hr]; [constructor|]. destruct Hr; constructor.
Qed.

Lemma header_first_sim t t' : nsx t t' -> header_first t = header_first t'.
Proof. intro H. unfold header_first. destruct (nsx_children _ _ H) as [|h h' l l' Hh _]; [reflexivity|]. apply is_header_node_sim. exact Hh. Qed.

Lemma tree_ok_sim ws ws' f j : ws_sim ws ws' -> (forall t t', nsx t t' -> f t = f t') -> tree_ok ws f j = tree_ok ws' f j.
Proof. intros H Hf. unfold tree_ok. destruct (ws_nth _ _ j H) as [|d d' [_ Hd]]; [reflexivity|]. apply Hf. exact Hd. Qed.

Lemma walk_sim ws ws' : ws_sim ws ws' -> forall fuel seen i, walk fuel ws seen i = walk fuel ws' seen i.
Proof.
  intro H. induction fuel as [|f IH]; intros seen i; cbn [walk]; [reflexivity|].
  destruct (index_of i seen).
  - replace (forallb (tree_ok ws' header_first) seen) with (forallb (tree_ok ws header_first) seen); [reflexivity|].
    apply forallb_ext'. intro j. apply tree_ok_sim; [exact H|apply header_first_sim].
  - destruct (ws_nth _ _ i H) as [|d d' [_ Hd]]; [reflexivity|].
    destruct (parent_link_sim _ _ Hd) as [|p p' Hp|]; try reflexivity.
    destruct (find_doc_sim _ _ _ _ H Hp) as [|[j x] [j' x'] [Hj _]]; [reflexivity|]. cbn [fst] in Hj. subst j'. apply IH.
Qed.

Lemma lineage_sim ws ws' i : ws_sim ws ws' -> lineage_t ws i = lineage_t ws' i.
Proof. intro H. unfold lineage_t. rewrite (Forall2_length' _ _ _ H). apply walk_sim. exact H. Qed.

(* ---------- chains of tables ---------- *)

Lemma root_of_sim ws ws' a j : ws_sim ws ws' -> Forall2 table_sim (root_of ws a j) (root_of ws' a j).
Proof.
  intro H. unfold root_of. destruct (ws_nth _ _ j H) as [|d d' [_ Hd]]; [constructor|].
  constructor; [apply root_table_sim; exact Hd|constructor].
Qed.

Lemma tables_along_sim ws ws' a path : ws_sim ws ws' -> Forall2 table_sim (tables_along ws a path) (tables_along ws' a path).
Proof.
  intro H. unfold tables_along. induction path as [|j r IH]; [constructor|]. cbn [flat_map].
  apply Forall2_app2; [apply root_of_sim; exact H|exact IH].
Qed.

Lemma own_chain_sim ws ws' a : ws_sim ws ws' -> out_rel (Forall2 table_sim) (own_chain ws a) (own_chain ws' a).
Proof.
  intro H. unfold own_chain. rewrite <- (lineage_sim _ _ a H). destruct (lineage_t ws a) as [|[b path]]; constructor.
  apply tables_along_sim. exact H.
Qed.

Lemma other_chain_sim ws ws' a j : ws_sim ws ws' -> out_rel (Forall2 table_sim) (other_chain ws a j) (other_chain ws' a j).
Proof.
  intro H. unfold other_chain. destruct (Nat.eqb j a); [apply own_chain_sim; exact H|].
  rewrite <- (lineage_sim _ _ j H). destruct (lineage_t ws j) as [|[[|] path]]; constructor.
  apply tables_along_sim. exact H.
Qed.

(* ---------- links ---------- *)

Lemma target_of_sim ws ws' h h' : ws_sim ws ws' -> hit_sim h h' -> target_of ws h = target_of ws' h'.
Proof.
  intros H [HT Ha]. unfold target_of. rewrite <- (cls_str_sim _ _ HT), <- Ha.
  destruct (find_doc_sim _ _ _ _ H (ci_eq_refl (cls_str (fst h)))) as [|[j d] [j' d'] [_ [E _]]]; [reflexivity|].
  cbn [snd] in E. rewrite E. reflexivity.
Qed.

Lemma uses_search_sim ws ws' a us us' id id' : ws_sim ws ws' -> Forall2 ci_eq us us' -> ci_eq id id' ->
  out_rel (opt_rel hit_sim) (uses_search ws a us id) (uses_search ws' a us' id').
Proof.
  intros H Hu Hi. induction Hu as [|u u' r r' Hu _ IH]; cbn [uses_search]; [constructor; constructor|].
  destruct (find_doc_sim _ _ _ _ H Hu) as [|[j d] [j' d'] [Hj _]]; [exact IH|]. cbn [fst] in Hj. subst j'.
  destruct (other_chain_sim _ _ a j H) as [|ch ch' Hc]; [constructor|].
  destruct (lookup_sim _ _ _ _ Hc Hi) as [|h h' Hh]; [exact IH|]. constructor. constructor. exact Hh.
Qed.

Lemma uses_of_chain_sim ch ch' : Forall2 table_sim ch ch' -> Forall2 ci_eq (uses_of_chain ch) (uses_of_chain ch').
Proof. destruct 1 as [|T T' l l' (_ & _ & C) _]; [constructor|exact C]. Qed.

Lemma wsearch_sim ws ws' a ch ch' id id' : ws_sim ws ws' -> Forall2 table_sim ch ch' -> ci_eq id id' ->
  out_rel (opt_rel hit_sim) (wsearch ws a ch id) (wsearch ws' a ch' id').
Proof.
  intros H Hc Hi. unfold wsearch. destruct (lookup_sim _ _ _ _ Hc Hi) as [|h h' Hh]; [|constructor; constructor; exact Hh].
  apply uses_search_sim; [exact H|apply uses_of_chain_sim; exact Hc|exact Hi].
Qed.

Lemma wdef_single_sim ws ws' a ch ch' o o' : ws_sim ws ws' -> Forall2 table_sim ch ch' -> opt_rel ci_eq o o' ->
  wdef_single ws a ch o = wdef_single ws' a ch' o'.
Proof.
  intros H Hc Ho. unfold wdef_single. destruct Ho as [|id id' Hi]; [reflexivity|].
  destruct (wsearch_sim _ _ a _ _ _ _ H Hc Hi) as [|r r' Hr]; [reflexivity|]. destruct Hr as [|h h' Hh]; [reflexivity|].
  rewrite (target_of_sim _ _ _ _ H Hh). reflexivity.
Qed.

Lemma wdef_all_sim ws ws' ch ch' o o' : ws_sim ws ws' -> Forall2 table_sim ch ch' -> opt_rel ci_eq o o' ->
  wdef_all ws ch o = wdef_all ws' ch' o'.
Proof.
  intros H Hc Ho. unfold wdef_all. destruct Ho as [|id id' Hi]; [reflexivity|]. cbv zeta.
  replace (map (target_of ws') (lookup_all ch' id')) with (map (target_of ws) (lookup_all ch id)); [reflexivity|].
  apply Forall2_eq. eapply Forall2_map2; [apply lookup_all_sim; eassumption|]. intros x y Hxy. apply target_of_sim; assumption.
Qed.

Lemma entity_chain_sim ws ws' a full full' e e' : ws_sim ws ws' -> Forall2 table_sim full full' -> ci_eq e e' ->
  out_rel (opt_rel (Forall2 table_sim)) (entity_chain ws a full e) (entity_chain ws' a full' e').
Proof.
  intros H Hf He. unfold entity_chain.
  destruct (find_doc_sim _ _ _ _ H He) as [|[j d] [j' d'] [Hj _]]; [constructor; constructor|]. cbn [fst] in Hj. subst j'.
  destruct (Nat.eqb j a); [constructor; constructor; apply class_level_sim; exact Hf|].
  destruct (other_chain_sim _ _ a j H) as [|ch ch' Hc]; constructor. constructor. exact Hc.
Qed.

Lemma full_chain_sim ws ws' a t t' s s' : ws_sim ws ws' -> nsx t t' -> Forall2 step_sim s s' ->
  out_rel (Forall2 table_sim) (full_chain ws a t s) (full_chain ws' a t' s').
Proof.
  intros H Ht Hs. unfold full_chain. destruct (chain_for_sim _ _ _ _ Ht Hs) as [|ch ch' Hc]; [constructor|].
  destruct (own_chain_sim _ _ a H) as [|oc oc' Ho]; constructor. apply Forall2_app2; [exact Hc|apply Forall2_tl; exact Ho].
Qed.

(* ---------- the eval type of a plain-name operand ---------- *)

Lemma is_typed_decl_sim n n' : nsx n n' -> is_typed_decl n = is_typed_decl n'.
Proof. intro H. unfold is_typed_decl. rewrite !(nsx_is_kind _ _ _ H). reflexivity. Qed.

Lemma typed_decl_name n n' : nsx n n' -> is_typed_decl n = true -> nident n = nident n'.
Proof.
  intros H E. apply (RecaseLints.nsx_name _ _ H). unfold is_typed_decl, is_kind in E.
  apply orb_true_iff in E. destruct E as [E|E]; [apply orb_true_iff in E; destruct E as [E|E]|]; apply ak_eqb_eq in E; rewrite E; reflexivity.
Qed.

Lemma decl_node_sim t t' s : nsx t t' -> opt_rel nsx (decl_node t s) (decl_node t' s).
Proof.
  intro H. unfold decl_node.
  pose proof (filter_rel nsx (fun n => is_typed_decl n && rng_eqb (nrange n) (a_range s) && str_eqb (nident n) (a_name s))
                             (fun n => is_typed_decl n && rng_eqb (nrange n) (a_range s) && str_eqb (nident n) (a_name s))
                             _ _ (all_nodes_sim _ _ H)) as F.
  destruct F as [|x x' l l' Hx Hl].
  - intros n n' Hn. rewrite <- (is_typed_decl_sim _ _ Hn), <- (nsx_range _ _ Hn).
    destruct (is_typed_decl n) eqn:E; [|reflexivity]. rewrite (typed_decl_name _ _ Hn E). reflexivity.
  - constructor.
  - destruct Hl; constructor. exact Hx.
Qed.

Lemma indexed_as_sim ws ws' n n' : ws_sim ws ws' -> ci_eq n n' -> out_rel (opt_rel ci_eq) (indexed_as ws n) (indexed_as ws' n').
Proof. intros H Hn. unfold indexed_as. destruct (find_doc_sim _ _ _ _ H Hn); constructor. constructor. exact Hn. Qed.

Lemma declared_entity_sim ws ws' n n' : ws_sim ws ws' -> nsx n n' ->
  out_rel (opt_rel ci_eq) (declared_entity ws n) (declared_entity ws' n').
Proof.
  intros H Hn. unfold declared_entity. destruct (nsx_children _ _ Hn) as [|c c' l l' Hc _]; [constructor|].
  rewrite <- !(nsx_is_kind _ _ _ Hc). destruct (is_kind KAstTypeBasic c).
  - rewrite <- (ScopingRecase.is_native_ci _ _ (nsx_ci _ _ Hc)). destruct (is_native (nident c)); [constructor; constructor|].
    apply indexed_as_sim; [exact H|apply nsx_ci; exact Hc].
  - destruct (is_kind KAstTypeReference c); [|constructor].
    destruct (attr_tok_rel K_op _ _ (nsx_sim _ _ Hc)) as [|o o' Ho]; [constructor|]. rewrite <- (ts_ty _ _ Ho).
    destruct (tt_eqb (tty o) Tokens.TRefTo); [apply indexed_as_sim; [exact H|apply nsx_ci; exact Hc]|].
    destruct (tt_eqb (tty o) Tokens.TListOf); constructor. constructor. apply ci_eq_refl.
Qed.

Lemma lookup_idx_sim ch ch' id id' : Forall2 table_sim ch ch' -> ci_eq id id' -> forall k,
  opt_rel (fun r r' => fst (fst r) = fst (fst r') /\ snd r = snd r') (lookup_idx k ch id) (lookup_idx k ch' id').
Proof.
  intros H Hi. induction H as [|T T' l l' HT _ IH]; intro k; [constructor|]. cbn [lookup_idx].
  rewrite <- (find_in_sim _ _ _ _ HT Hi). destruct (find_in T id); [|apply IH]. constructor. split; reflexivity.
Qed.

Lemma header_entity_refl s : out_rel (opt_rel ci_eq) (header_entity s) (header_entity s).
Proof. unfold header_entity. destruct (ci_eqb (a_name s) s_self); constructor. constructor. apply ci_eq_refl. Qed.

Lemma typed_entity_sim ws ws' a t t' s s' l l' : ws_sim ws ws' -> nsx t t' -> Forall2 step_sim s s' -> nsx l l' ->
  out_rel (opt_rel ci_eq) (typed_entity ws a t s l) (typed_entity ws' a t' s' l').
Proof.
  intros H Ht Hs Hl. unfold typed_entity. rewrite <- (nsx_is_kind _ _ _ Hl), <- (in_method_sim _ _ Hs).
  destruct (negb (is_kind KAstTerminal l && in_method s)); [constructor|].
  destruct (chain_for_sim _ _ _ _ Ht Hs) as [|ch ch' Hc]; [constructor|]. rewrite <- (lineage_sim _ _ a H).
  destruct (lineage_t ws a) as [|[[|] path]]; try constructor. cbv zeta.
  pose proof (nsx_ci _ _ Hl) as HL.
  replace (forallb (fun T => forallb (fun s0 => negb (ci_eqb (a_name s0) (nident l')) || pos_leb (rend (a_range s0)) (rstart (nrange l'))) (t_syms T)) ch')
    with (forallb (fun T => forallb (fun s0 => negb (ci_eqb (a_name s0) (nident l)) || pos_leb (rend (a_range s0)) (rstart (nrange l))) (t_syms T)) ch).
  2:{ apply (forallb_rel table_sim); [exact Hc|]. intros T T' (_ & B & _). rewrite B. apply forallb_ext'. intro x.
      rewrite (ci_eqb_sim _ _ _ _ (ci_eq_refl (a_name x)) HL), (nsx_range _ _ Hl). reflexivity. }
  match goal with |- out_rel _ (if ?b then _ else _) _ => destruct b end; [constructor|].
  assert (Hfull : Forall2 table_sim (ch ++ tl (tables_along ws a path)) (ch' ++ tl (tables_along ws' a path))).
  { apply Forall2_app2; [exact Hc|apply Forall2_tl; apply tables_along_sim; exact H]. }
  rewrite <- (Forall2_length' _ _ _ Hc).
  destruct (lookup_idx_sim _ _ _ _ Hfull HL 0) as [|[[k T] x] [[k' T'] x'] [Hk Hx]].
  - destruct (find_doc_sim _ _ _ _ H HL) as [|[j d] [j' d'] [Hj _]]; [constructor; constructor|]. cbn [fst] in Hj. subst j'.
    destruct (Nat.eqb j a); [constructor|]. destruct (other_chain_sim _ _ a j H) as [|cj cj' Hcj]; [constructor|].
    destruct (lookup_sim _ _ _ _ Hcj HL) as [|[U y] [U' y'] [_ Hy]]; [constructor; constructor|]. cbn [snd] in Hy. subst y'.
    destruct (a_kind y); try constructor; apply header_entity_refl.
  - cbn [fst snd] in Hk, Hx. subst k' x'.
    destruct (a_kind x); try constructor; try apply header_entity_refl; try constructor;
    (destruct (if Nat.ltb k (length ch) then Some a else nth_error path (S (k - length ch))) as [j|]; [|constructor];
     destruct (ws_nth _ _ j H) as [|dj dj' [_ Hdj]]; [constructor|];
     destruct (decl_node_sim _ _ x Hdj) as [|n n' Hn]; [constructor|]; apply declared_entity_sim; assumption).
Qed.

(* ---------- the requests ---------- *)

Lemma wdef_rhs_sim ws ws' a t t' s s' full full' q q' enc enc' p :
  ws_sim ws ws' -> nsx t t' -> Forall2 step_sim s s' -> Forall2 table_sim full full' -> nsx q q' -> nsx enc enc' ->
  wdef_rhs ws a t s full q enc p = wdef_rhs ws' a t' s' full' q' enc' p.
Proof.
  intros H Ht Hs Hf Hq He. unfold wdef_rhs. destruct (first_child_sim _ _ Hq) as [|l l' Hl]; [reflexivity|].
  rewrite <- (own_entity_sim _ _ _ _ Ht Hl), <- (in_method_sim _ _ Hs).
  assert (K : forall e e', ci_eq e e' ->
    match entity_chain ws a full e with Outside => Outside | Ans None => Ans [] | Ans (Some ch) => Ans (wdef_all ws ch (get_id enc p)) end =
    match entity_chain ws' a full' e' with Outside => Outside | Ans None => Ans [] | Ans (Some ch) => Ans (wdef_all ws' ch (get_id enc' p)) end).
  { intros e e' Hee. destruct (entity_chain_sim _ _ a _ _ _ _ H Hf Hee) as [|r r' Hr]; [reflexivity|]. destruct Hr as [|ch ch' Hc]; [reflexivity|].
    rewrite (wdef_all_sim _ _ _ _ _ _ H Hc (get_id_sim _ _ p He)). reflexivity. }
  destruct (own_entity t l) as [ent|].
  - destruct (in_method s); [|reflexivity]. apply K. apply ci_eq_refl.
  - destruct (typed_entity_sim _ _ a _ _ _ _ _ _ H Ht Hs Hl) as [|r r' Hr]; [reflexivity|]. destruct Hr as [|e e' Hee]; [reflexivity|].
    apply K. exact Hee.
Qed.

Lemma wcompl_rhs_sim ws ws' a t t' s s' full full' o o' :
  ws_sim ws ws' -> nsx t t' -> Forall2 step_sim s s' -> Forall2 table_sim full full' -> opt_rel nsx o o' ->
  wcompl_rhs ws a t s full o = wcompl_rhs ws' a t' s' full' o'.
Proof.
  intros H Ht Hs Hf Ho. unfold wcompl_rhs. destruct Ho as [|l l' Hl]; [reflexivity|].
  rewrite <- (own_entity_sim _ _ _ _ Ht Hl), <- (in_method_sim _ _ Hs).
  assert (K : forall e e', ci_eq e e' ->
    match entity_chain ws a full e with Outside => Outside | Ans None => Ans [] | Ans (Some ch) => Ans (labels_rhs ch) end =
    match entity_chain ws' a full' e' with Outside => Outside | Ans None => Ans [] | Ans (Some ch) => Ans (labels_rhs ch) end).
  { intros e e' Hee. destruct (entity_chain_sim _ _ a _ _ _ _ H Hf Hee) as [|r r' Hr]; [reflexivity|]. destruct Hr as [|ch ch' Hc]; [reflexivity|].
    rewrite (labels_rhs_sim _ _ Hc). reflexivity. }
  destruct (own_entity t l) as [ent|].
  - destruct (in_method s); [|reflexivity]. apply K. apply ci_eq_refl.
  - destruct (typed_entity_sim _ _ a _ _ _ _ _ _ H Ht Hs Hl) as [|r r' Hr]; [reflexivity|]. destruct Hr as [|e e' Hee]; [reflexivity|].
    apply K. exact Hee.
Qed.

(* WSTREE: the same answer -- links, labels, and the classification Outside -- for every document and position *)
Theorem wstree_recase ws ws' a p : ws_ref ws ws' ->
  wdefinition ws a p = wdefinition ws' a p /\ wcompletion ws a p = wcompletion ws' a p.
Proof.
  intro H. apply ws_ref_sim in H. split.
  - unfold wdefinition. rewrite <- (distinct_stems_sim _ _ H). destruct (negb (distinct_stems ws)); [reflexivity|].
    destruct (ws_nth _ _ a H) as [|[st t] [st' t'] [_ Ht]]; [reflexivity|]. cbn [snd] in Ht.
    rewrite <- (flat_methods_sim _ _ Ht). destruct (negb (flat_methods t)); [reflexivity|]. cbv zeta.
    pose proof (descend_sim p _ _ Ht) as HS. pose proof (path_up_sim p _ _ Ht) as HP.
    destruct (full_chain_sim _ _ a _ _ _ _ H Ht HS) as [|full full' Hf]; [reflexivity|].
    destruct HP as [|[idx enc] [idx' enc'] up up' [Hi He] Hup]; [reflexivity|]. cbn [fst snd] in Hi, He. subst idx'.
    pose proof (get_id_sim _ _ p He) as Hid. rewrite <- (is_member_decl_sim _ _ He).
    destruct Hup as [|[j q] [j' q'] r r' [_ Hq] _]; cbn [snd] in *.
    + destruct (is_member_decl enc); [f_equal; apply wdef_all_sim|apply wdef_single_sim]; assumption.
    + rewrite <- (is_dot_sim _ _ Hq), <- (is_method_node_sim _ _ Hq). destruct (is_dot q).
      * destruct idx; [apply wdef_single_sim; assumption|]. apply wdef_rhs_sim; assumption.
      * destruct (is_method_node q && Nat.eqb idx 0); [f_equal; apply wdef_all_sim; [assumption|apply class_level_sim; assumption|assumption]|].
        destruct (is_member_decl enc); [f_equal; apply wdef_all_sim|apply wdef_single_sim]; assumption.
  - unfold wcompletion. rewrite <- (distinct_stems_sim _ _ H). destruct (negb (distinct_stems ws)); [reflexivity|].
    destruct (ws_nth _ _ a H) as [|[st t] [st' t'] [_ Ht]]; [reflexivity|]. cbn [snd] in Ht.
    rewrite <- (flat_methods_sim _ _ Ht). destruct (negb (flat_methods t)); [reflexivity|]. cbv zeta.
    pose proof (descend_sim p _ _ Ht) as HS. pose proof (path_up_sim p _ _ Ht) as HP.
    destruct (full_chain_sim _ _ a _ _ _ _ H Ht HS) as [|full full' Hf]; [reflexivity|].
    destruct HP as [|[idx enc] [idx' enc'] up up' [Hi He] Hup]; [reflexivity|]. cbn [fst snd] in Hi, He. subst idx'.
    rewrite <- (labels_lhs_sim _ _ Hf), <- (is_dot_sim _ _ He). destruct (is_dot enc).
    + destruct (attr_tok_rel K_op _ _ (nsx_sim _ _ He)) as [|o o' Ho]; [reflexivity|]. rewrite <- (ts_range _ _ Ho).
      destruct (pos_leb (rend (trange o)) p); [|reflexivity]. apply wcompl_rhs_sim; try assumption. apply first_child_sim. exact He.
    + destruct Hup as [|[j q] [j' q'] r r' [_ Hq] _]; [reflexivity|]. cbn [snd] in Hq. rewrite <- (is_dot_sim _ _ Hq).
      destruct (is_dot q); [|reflexivity]. destruct idx; [reflexivity|]. apply wcompl_rhs_sim; try assumption. apply first_child_sim. exact Hq.
Qed.
