(* C12: the outline computed by DocumentSymbolGeneratorFromAst, for ALL trees (any `node`). *)
From Coq Require Import Permutation.
From GoldV Require Import Base Tokens Lexer AstKinds Tree Outline.

(* ------------------------------------------------------------------------------------------ *)
(* Specification vocabulary                                                                    *)
(* ------------------------------------------------------------------------------------------ *)

Fixpoint filter_map {A B} (f : A -> option B) (l : list A) : list B :=
  match l with
  | [] => []
  | x :: r => match f x with Some y => y :: filter_map f r | None => filter_map f r end
  end.

Definition is_some {A} (o : option A) : bool := match o with Some _ => true | None => false end.
Definition olist {A} (o : option A) : list A := match o with Some x => [x] | None => [] end.

(* the container (if any) receives the entries as its children; otherwise the entries are the outline *)
Definition wrap (h : option dsym) (l : list dsym) : list dsym :=
  match h with None => l | Some c => [set_children c (Some l)] end.

(* the five top-level declaration constructs *)
Definition is_decl_kind (k : akind) : bool :=
  match k with
  | KAstConstantDeclaration | KAstTypeDeclaration | KAstGlobalVariableDeclaration
  | KAstProcedure | KAstFunction => true
  | _ => false
  end.
Definition is_decl (n : node) : bool := is_decl_kind (nkind n).

(* "with the kind of the construct" *)
Definition sk_of_kind (k : akind) : N :=
  match k with
  | KAstConstantDeclaration => SK_CONSTANT
  | KAstTypeDeclaration => SK_PROPERTY
  | KAstGlobalVariableDeclaration => SK_FIELD
  | KAstProcedure => SK_METHOD
  | KAstFunction => SK_FUNCTION
  | KAstClass => SK_CLASS
  | KAstModule => SK_MODULE
  | _ => 0
  end.

Definition is_header_node (n : node) : bool := is_kind KAstClass n || is_kind KAstModule n.
Definition header_sym (n : node) : dsym := if is_kind KAstClass n then class_sym n else module_sym n.
Definition is_container (d : dsym) : bool := (ds_kind d =? SK_CLASS) || (ds_kind d =? SK_MODULE).

(* the entry of a declaration node, as a total function of the node *)
Definition decl_sym (n : node) : dsym :=
  match nkind n with
  | KAstConstantDeclaration =>
    mkDsym (tok_value (attr_tok K_ident n)) (Some (tok_value (attr_tok K_value n))) SK_CONSTANT
           (nrange n) (tok_range (attr_tok K_ident n)) None
  | KAstTypeDeclaration =>
    mkDsym (tok_value (attr_tok K_ident n)) None SK_PROPERTY (nrange n) (tok_range (attr_tok K_ident n)) None
  | KAstGlobalVariableDeclaration =>
    mkDsym (tok_value (attr_tok K_ident n)) (Some (child_ident 0 n)) SK_FIELD
           (nrange n) (tok_range (attr_tok K_ident n)) None
  | KAstProcedure =>
    mkDsym (child_ident 0 n) None SK_METHOD (nrange n) (child_range 0 n) None
  | _ =>
    mkDsym (child_ident 0 n) (Some (child_ident 1 n)) SK_FUNCTION (nrange n) (child_range 0 n) None
  end.

(* where the name of a declaration is written: the identifier token for const/type/field,
   the method-name node (first child) for proc/func *)
Definition name_range (n : node) : range :=
  match nkind n with
  | KAstProcedure | KAstFunction => child_range 0 n
  | _ => tok_range (attr_tok K_ident n)
  end.
Definition name_of (n : node) : str :=
  match nkind n with
  | KAstProcedure | KAstFunction => child_ident 0 n
  | _ => tok_value (attr_tok K_ident n)
  end.

Definition entries (root : node) : list dsym := filter_map entry (nchildren root).
Definition with_children (root : node) (l : list node) : node :=
  match root with Node k i r rg a _ => Node k i r rg a l end.

(* rearrangement of a list by a list of indices *)
Definition reorder {A} (p : list nat) (l : list A) : list A := filter_map (nth_error l) p.

(* ------------------------------------------------------------------------------------------ *)
(* Generic list lemmas                                                                         *)
(* ------------------------------------------------------------------------------------------ *)

Lemma filter_map_app {A B} (f : A -> option B) l1 l2 :
  filter_map f (l1 ++ l2) = filter_map f l1 ++ filter_map f l2.
Proof.
  induction l1 as [|x l1 IH]; simpl; [reflexivity|].
  destruct (f x); simpl; rewrite IH; reflexivity.
Qed.

Lemma filter_map_cons {A B} (f : A -> option B) x l :
  filter_map f (x :: l) = olist (f x) ++ filter_map f l.
Proof. simpl. destruct (f x); reflexivity. Qed.

Lemma filter_map_some_filter {A B} (f : A -> option B) l :
  map Some (filter_map f l) = filter is_some (map f l).
Proof.
  induction l as [|x l IH]; simpl; [reflexivity|].
  destruct (f x); simpl; rewrite IH; reflexivity.
Qed.

Lemma filter_map_In {A B} (f : A -> option B) l y :
  In y (filter_map f l) <-> exists x, In x l /\ f x = Some y.
Proof.
  induction l as [|x l IH]; simpl.
  - split; [tauto|intros [? [[] _]]].
  - destruct (f x) eqn:E; simpl; rewrite IH; split.
    + intros [->|[x' [H1 H2]]]; [exists x; auto|exists x'; auto].
    + intros [x' [[->|H1] H2]]; [left; congruence|right; exists x'; auto].
    + intros [x' [H1 H2]]; exists x'; auto.
    + intros [x' [[->|H1] H2]]; [congruence|exists x'; auto].
Qed.

Lemma filter_map_Permutation {A B} (f : A -> option B) l l' :
  Permutation l l' -> Permutation (filter_map f l) (filter_map f l').
Proof.
  induction 1; simpl.
  - constructor.
  - destruct (f x); [constructor|]; assumption.
  - destruct (f x), (f y); try apply perm_swap; try apply Permutation_refl.
  - eapply Permutation_trans; eassumption.
Qed.

Lemma reorder_map {A B} (g : A -> B) p l : reorder p (map g l) = map g (reorder p l).
Proof.
  unfold reorder. induction p as [|i p IH]; simpl; [reflexivity|].
  rewrite nth_error_map. destruct (nth_error l i); simpl; rewrite IH; reflexivity.
Qed.

(* ------------------------------------------------------------------------------------------ *)
(* entry: exactly the five declaration kinds                                                   *)
(* ------------------------------------------------------------------------------------------ *)

Lemma entry_spec n : entry n = if is_decl n then Some (decl_sym n) else None.
Proof.
  destruct n as [k i r rg a c].
  unfold entry, gen_constant, gen_type, gen_gvar, gen_proc, gen_func, is_decl, decl_sym, is_kind.
  cbn [nkind]. destruct k; reflexivity.
Qed.

Lemma entry_defined_iff n : entry n <> None <-> is_decl n = true.
Proof.
  rewrite entry_spec. destruct (is_decl n); split; intro H; congruence.
Qed.

Lemma is_decl_kind_iff k :
  is_decl_kind k = true <->
  In k [KAstConstantDeclaration; KAstTypeDeclaration; KAstGlobalVariableDeclaration; KAstProcedure; KAstFunction].
Proof.
  split.
  - destruct k; simpl; intro H; try discriminate; tauto.
  - simpl. intros [<-|[<-|[<-|[<-|[<-|[]]]]]]; reflexivity.
Qed.

Lemma entry_Some n e : entry n = Some e -> is_decl n = true /\ e = decl_sym n.
Proof. rewrite entry_spec. destruct (is_decl n); intro H; inversion H; auto. Qed.

Lemma entry_kind n e : entry n = Some e -> ds_kind e = sk_of_kind (nkind n).
Proof.
  intro H. apply entry_Some in H as [Hd ->]. unfold is_decl in Hd. unfold decl_sym.
  destruct (nkind n); try discriminate; reflexivity.
Qed.

Lemma sk_of_kind_inj k1 k2 :
  is_decl_kind k1 = true -> is_decl_kind k2 = true -> sk_of_kind k1 = sk_of_kind k2 -> k1 = k2.
Proof.
  destruct k1; simpl; try discriminate; destruct k2; simpl; try discriminate; intros _ _ H;
    try reflexivity; vm_compute in H; discriminate.
Qed.

Lemma entry_leaf n e : entry n = Some e -> ds_children e = None /\ is_container e = false.
Proof.
  intro H. apply entry_Some in H as [Hd ->]. unfold is_decl in Hd. unfold decl_sym.
  destruct (nkind n); try discriminate; split; reflexivity.
Qed.

Lemma entry_ranges n e :
  entry n = Some e ->
  ds_range e = nrange n /\ ds_sel e = name_range n /\ ds_name e = name_of n.
Proof.
  intro H. apply entry_Some in H as [Hd ->]. unfold is_decl in Hd. unfold decl_sym, name_range, name_of.
  destruct (nkind n); try discriminate; repeat split; reflexivity.
Qed.

Lemma entry_detail n e :
  entry n = Some e ->
  ds_detail e = match nkind n with
                | KAstConstantDeclaration => Some (tok_value (attr_tok K_value n))
                | KAstGlobalVariableDeclaration => Some (child_ident 0 n)
                | KAstFunction => Some (child_ident 1 n)
                | _ => None
                end.
Proof.
  intro H. apply entry_Some in H as [Hd ->]. unfold is_decl in Hd. unfold decl_sym.
  destruct (nkind n); try discriminate; reflexivity.
Qed.

(* "and nothing else" *)
Lemma entry_none_other n : is_decl n = false -> entry n = None.
Proof. intro H. rewrite entry_spec, H. reflexivity. Qed.

Lemma entry_none_kinds n :
  In (nkind n) [KAstComment; KAstUses; KAstClass; KAstModule; KAstEmpty; KAstRoot] -> entry n = None.
Proof.
  intro H. apply entry_none_other. unfold is_decl.
  simpl in H. destruct H as [<-|[<-|[<-|[<-|[<-|[<-|[]]]]]]]; reflexivity.
Qed.

Lemma header_node_not_decl n : is_header_node n = true -> is_decl n = false.
Proof.
  unfold is_header_node, is_decl, is_kind. destruct (nkind n); simpl; try discriminate; reflexivity.
Qed.

(* ------------------------------------------------------------------------------------------ *)
(* entries: one per declaration node, in order                                                 *)
(* ------------------------------------------------------------------------------------------ *)

Lemma entries_map l : filter_map entry l = map decl_sym (filter is_decl l).
Proof.
  induction l as [|n l IH]; simpl; [reflexivity|].
  rewrite entry_spec. destruct (is_decl n); simpl; rewrite IH; reflexivity.
Qed.

Lemma entries_Forall2 l : Forall2 (fun n e => entry n = Some e) (filter is_decl l) (filter_map entry l).
Proof.
  induction l as [|n l IH]; simpl; [constructor|].
  rewrite entry_spec. destruct (is_decl n) eqn:E; [|exact IH].
  constructor; [rewrite entry_spec, E; reflexivity|exact IH].
Qed.

Lemma entries_length l : length (filter_map entry l) = length (filter is_decl l).
Proof. rewrite entries_map, map_length. reflexivity. Qed.

Theorem one_entry_per_declaration l :
  map Some (filter_map entry l) = filter is_some (map entry l) /\
  Forall2 (fun n e => entry n = Some e) (filter is_decl l) (filter_map entry l) /\
  filter_map entry l = map decl_sym (filter is_decl l) /\
  (forall e, In e (filter_map entry l) -> exists n, In n l /\ is_decl n = true /\ entry n = Some e) /\
  (forall n, In n l -> is_decl n = false -> entry n = None).
Proof.
  split; [apply filter_map_some_filter|]. split; [apply entries_Forall2|]. split; [apply entries_map|].
  split.
  - intros e H. apply filter_map_In in H as [n [H1 H2]]. exists n. split; [exact H1|].
    split; [|exact H2]. apply entry_Some in H2. tauto.
  - intros n _ H. apply entry_none_other. exact H.
Qed.

Lemma entries_no_container l : forallb (fun e => negb (is_container e)) (filter_map entry l) = true.
Proof.
  apply forallb_forall. intros e H. apply filter_map_In in H as [n [_ H]].
  apply entry_leaf in H as [_ ->]. reflexivity.
Qed.

(* ------------------------------------------------------------------------------------------ *)
(* header: the first class / module node                                                       *)
(* ------------------------------------------------------------------------------------------ *)

Lemma header_find l : header l = option_map header_sym (find is_header_node l).
Proof.
  induction l as [|n l IH]; simpl; [reflexivity|].
  unfold is_header_node, header_sym.
  destruct (is_kind KAstClass n) eqn:E1; simpl; [rewrite E1; reflexivity|].
  destruct (is_kind KAstModule n) eqn:E2; simpl; [rewrite E1; reflexivity|]. exact IH.
Qed.

Lemma header_children l c : header l = Some c -> ds_children c = Some [].
Proof.
  rewrite header_find. destruct (find is_header_node l); simpl; [|discriminate].
  intro H; inversion H; subst. unfold header_sym. destruct (is_kind KAstClass n); reflexivity.
Qed.

Lemma header_is_container l c : header l = Some c -> is_container c = true.
Proof.
  rewrite header_find. destruct (find is_header_node l) eqn:F; simpl; [|discriminate].
  intro H; inversion H; subst. unfold header_sym. destruct (is_kind KAstClass n); reflexivity.
Qed.

Lemma header_app l1 l2 :
  header (l1 ++ l2) = match header l1 with Some c => Some c | None => header l2 end.
Proof.
  induction l1 as [|n l1 IH]; simpl; [reflexivity|].
  destruct (is_kind KAstClass n); [reflexivity|]. destruct (is_kind KAstModule n); [reflexivity|]. exact IH.
Qed.

Lemma header_cons_other n l : is_header_node n = false -> header (n :: l) = header l.
Proof.
  unfold is_header_node. simpl. intro H. apply orb_false_iff in H as [-> ->]. reflexivity.
Qed.

Lemma header_cons_header n l : is_header_node n = true -> header (n :: l) = Some (header_sym n).
Proof.
  unfold is_header_node, header_sym. simpl. intro H.
  destruct (is_kind KAstClass n); [reflexivity|]. simpl in H. rewrite H. reflexivity.
Qed.

Lemma header_filter l : header l = header (filter is_header_node l).
Proof.
  induction l as [|n l IH]; simpl; [reflexivity|].
  destruct (is_header_node n) eqn:E.
  - change (header (n :: l) = header (n :: filter is_header_node l)).
    rewrite !header_cons_header by exact E. reflexivity.
  - change (header (n :: l) = header (filter is_header_node l)).
    rewrite header_cons_other by exact E. exact IH.
Qed.

Lemma header_insert_other l1 l2 d :
  is_header_node d = false -> header (l1 ++ d :: l2) = header (l1 ++ l2).
Proof. intro H. rewrite !header_app, header_cons_other by exact H. reflexivity. Qed.

(* what happens when the inserted node is itself a class/module header: it becomes the
   container iff no header precedes it *)
Lemma header_insert_header l1 l2 d :
  is_header_node d = true ->
  header (l1 ++ d :: l2) = match header l1 with Some c => Some c | None => Some (header_sym d) end.
Proof. intro H. rewrite header_app, header_cons_header by exact H. reflexivity. Qed.

(* ------------------------------------------------------------------------------------------ *)
(* the loop of generate_symbols                                                                *)
(* ------------------------------------------------------------------------------------------ *)

Lemma sym_loop_no_header l res :
  sym_loop l (res, None) = Some (res ++ filter_map entry l, None).
Proof.
  revert res. induction l as [|n l IH]; intro res; simpl.
  - rewrite app_nil_r. reflexivity.
  - destruct (entry n) as [s|]; simpl; [|apply IH].
    rewrite IH, <- app_assoc. reflexivity.
Qed.

Lemma sym_loop_header l res c ch :
  ds_children c = Some ch ->
  sym_loop l (res, Some c) = Some (res, Some (set_children c (Some (ch ++ filter_map entry l)))).
Proof.
  revert c ch. induction l as [|n l IH]; intros c ch Hc; simpl.
  - rewrite app_nil_r. destruct c; simpl in *; subst; reflexivity.
  - destruct (entry n) as [s|]; simpl; [|apply IH; exact Hc].
    rewrite Hc. rewrite (IH _ (ch ++ [s])) by reflexivity.
    rewrite <- app_assoc. destruct c; reflexivity.
Qed.

Theorem outline_run_char root :
  outline_run root = Some (wrap (header (nchildren root)) (filter_map entry (nchildren root))).
Proof.
  unfold outline_run. destruct (header (nchildren root)) as [c|] eqn:H.
  - rewrite (sym_loop_header _ _ c []) by (eapply header_children; exact H). reflexivity.
  - rewrite sym_loop_no_header. reflexivity.
Qed.

(* the unwrap in the loop cannot panic *)
Theorem outline_no_panic root : outline_run root = Some (outline root).
Proof. unfold outline. rewrite outline_run_char. reflexivity. Qed.

Theorem outline_char root :
  outline root = wrap (header (nchildren root)) (filter_map entry (nchildren root)).
Proof. unfold outline. rewrite outline_run_char. reflexivity. Qed.

(* ------------------------------------------------------------------------------------------ *)
(* at most one container, and it is the first header                                           *)
(* ------------------------------------------------------------------------------------------ *)

Lemma filter_none {A} (p : A -> bool) l : forallb (fun x => negb (p x)) l = true -> filter p l = [].
Proof.
  induction l as [|x l IH]; simpl; [reflexivity|]. intro H. apply andb_true_iff in H as [H1 H2].
  destruct (p x); [discriminate|]. apply IH. exact H2.
Qed.

Theorem single_container root :
  (length (filter is_container (outline root)) <= 1)%nat /\
  match find is_header_node (nchildren root) with
  | Some h => outline root = [set_children (header_sym h) (Some (entries root))]
  | None => outline root = entries root /\ filter is_container (outline root) = []
  end.
Proof.
  rewrite outline_char. pose proof (header_find (nchildren root)) as HF.
  destruct (find is_header_node (nchildren root)) as [h|] eqn:F; simpl in HF; rewrite HF; simpl.
  - split; [|reflexivity]. destruct (is_container _); simpl; lia.
  - fold (entries root). rewrite filter_none by apply entries_no_container. simpl. split; [lia|]. split; reflexivity.
Qed.

(* the children of the container are leaves that are not containers: depth is at most two *)
Theorem outline_shape root d :
  In d (outline root) ->
  (header (nchildren root) = None /\ ds_children d = None /\ is_container d = false) \/
  (exists c, header (nchildren root) = Some c /\ d = set_children c (Some (entries root)) /\
             is_container d = true /\ outline root = [d]).
Proof.
  rewrite outline_char. destruct (header (nchildren root)) as [c|] eqn:H; simpl.
  - intros [<-|[]]. right. exists c. repeat split.
    apply header_is_container in H. destruct c; exact H.
  - intro Hin. left. apply filter_map_In in Hin as [n [_ Hn]]. apply entry_leaf in Hn. tauto.
Qed.

(* ------------------------------------------------------------------------------------------ *)
(* list homomorphism: declaration-level edits                                                  *)
(* ------------------------------------------------------------------------------------------ *)

Lemma nchildren_with_children root l : nchildren (with_children root l) = l.
Proof. destruct root; reflexivity. Qed.

Theorem outline_insert root l1 l2 d :
  nchildren root = l1 ++ l2 -> is_header_node d = false ->
  outline root = wrap (header (l1 ++ l2)) (filter_map entry l1 ++ filter_map entry l2) /\
  outline (with_children root (l1 ++ d :: l2)) =
    wrap (header (l1 ++ l2)) (filter_map entry l1 ++ olist (entry d) ++ filter_map entry l2) /\
  length (filter_map entry l1) = length (filter is_decl l1).
Proof.
  intros Hc Hd. rewrite !outline_char, nchildren_with_children, Hc.
  rewrite header_insert_other by exact Hd.
  rewrite !filter_map_app, filter_map_cons. repeat split. apply entries_length.
Qed.

(* removal is the same equation read from right to left *)
Theorem outline_remove root l1 l2 d :
  nchildren root = l1 ++ d :: l2 -> is_header_node d = false ->
  outline root = wrap (header (l1 ++ l2)) (filter_map entry l1 ++ olist (entry d) ++ filter_map entry l2) /\
  outline (with_children root (l1 ++ l2)) =
    wrap (header (l1 ++ l2)) (filter_map entry l1 ++ filter_map entry l2).
Proof.
  intros Hc Hd. rewrite !outline_char, nchildren_with_children, Hc.
  rewrite header_insert_other by exact Hd.
  rewrite !filter_map_app, filter_map_cons. split; reflexivity.
Qed.

(* inserting a class/module header: entries unchanged; the container changes iff no header precedes *)
Theorem outline_insert_header root l1 l2 d :
  nchildren root = l1 ++ l2 -> is_header_node d = true ->
  outline (with_children root (l1 ++ d :: l2)) =
    wrap (match header l1 with Some c => Some c | None => Some (header_sym d) end)
         (filter_map entry l1 ++ filter_map entry l2).
Proof.
  intros Hc Hd. rewrite outline_char, nchildren_with_children.
  rewrite header_insert_header by exact Hd.
  rewrite filter_map_app, filter_map_cons, entry_none_other by (apply header_node_not_decl; exact Hd).
  reflexivity.
Qed.

Theorem outline_swap root l1 a m b l2 :
  nchildren root = l1 ++ a :: m ++ b :: l2 -> is_header_node a = false -> is_header_node b = false ->
  outline root = wrap (header (l1 ++ m ++ l2))
    (filter_map entry l1 ++ olist (entry a) ++ filter_map entry m ++ olist (entry b) ++ filter_map entry l2) /\
  outline (with_children root (l1 ++ b :: m ++ a :: l2)) = wrap (header (l1 ++ m ++ l2))
    (filter_map entry l1 ++ olist (entry b) ++ filter_map entry m ++ olist (entry a) ++ filter_map entry l2).
Proof.
  intros Hc Ha Hb. rewrite !outline_char, nchildren_with_children, Hc.
  assert (forall x y, is_header_node x = false -> is_header_node y = false ->
            header (l1 ++ x :: m ++ y :: l2) = header (l1 ++ m ++ l2)) as HH.
  { intros x y Hx Hy. rewrite header_insert_other by exact Hx.
    rewrite (app_assoc l1 m (y :: l2)), header_insert_other by exact Hy.
    rewrite <- app_assoc. reflexivity. }
  rewrite !HH by assumption.
  rewrite !filter_map_app, !filter_map_cons, !filter_map_app, !filter_map_cons. split; reflexivity.
Qed.

(* any permutation of the children that keeps the class/module headers in their relative order
   permutes the entries and keeps the container *)
Theorem outline_permute root l' :
  Permutation (nchildren root) l' ->
  filter is_header_node (nchildren root) = filter is_header_node l' ->
  exists es', Permutation (entries root) es' /\
              outline root = wrap (header (nchildren root)) (entries root) /\
              outline (with_children root l') = wrap (header (nchildren root)) es' /\
              es' = map decl_sym (filter is_decl l').
Proof.
  intros HP HH. exists (filter_map entry l'). split; [apply filter_map_Permutation; exact HP|].
  rewrite !outline_char, nchildren_with_children.
  rewrite (header_filter l'), <- HH, <- header_filter. repeat split. apply entries_map.
Qed.

(* ... and "the same way": if the declaration nodes are rearranged by an index list p, the entries
   are rearranged by the same p *)
Theorem outline_permute_same_way root l' p :
  filter is_decl l' = reorder p (filter is_decl (nchildren root)) ->
  entries (with_children root l') = reorder p (entries root).
Proof.
  intro H. unfold entries. rewrite nchildren_with_children, !entries_map, H, reorder_map. reflexivity.
Qed.
