(* C14 at tree level (Model/WsTree.v): on EVERY workspace of documents -- no regularity, no acyclicity --
   the parent walk of the annotators returns within its fuel, the path it returns has no repeated
   document and at most as many documents as the workspace; every chain of tables the requests
   search is at most one longer.  The model's walk returns Outside when its fuel ends; the
   instrumented walk3 tells the two apart, and the fuel never ends. *)
From GoldV Require Import Base Tokens Lexer AstKinds Tree Encase SymTab Scoping Annot DefTree WsTree WsTreeProofs.
From Coq Require Import Lia.

Inductive wres := WNoFuel | WOut | WAns (b : bool) (p : list nat).

Definition erase (r : wres) : outcome (bool * list nat) :=
  match r with WNoFuel | WOut => Outside | WAns b p => Ans (b, p) end.

(* WsTree.walk with the out-of-fuel outcome kept apart *)
Fixpoint walk3 (fuel : nat) (ws : wst) (seen : list nat) (i : nat) : wres :=
  match fuel with
  | O => WNoFuel
  | S f =>
      match index_of i seen with
      | Some k => if forallb (tree_ok ws header_first) seen then WAns true (firstn (S k) seen) else WOut
      | None =>
          match nth_error ws i with
          | None => WOut
          | Some d =>
              match parent_link (snd d) with
              | PBad => WOut
              | PNone => WAns false (seen ++ [i])
              | PTo p =>
                  match find_doc ws p with
                  | None => WAns false (seen ++ [i])
                  | Some (j, _) => walk3 f ws (seen ++ [i]) j
                  end
              end
          end
      end
  end.

Lemma walk_erase ws : forall f seen i, walk f ws seen i = erase (walk3 f ws seen i).
Proof.
  induction f as [|f IH]; intros seen i; [reflexivity|]. cbn [walk walk3].
  destruct (index_of i seen); [destruct (forallb (tree_ok ws header_first) seen); reflexivity|].
  destruct (nth_error ws i) as [d|]; [|reflexivity]. destruct (parent_link (snd d)) as [|p|]; try reflexivity.
  destruct (find_doc ws p) as [[j dj]|]; [apply IH|reflexivity].
Qed.

Definition bounded (ws : wst) (l : list nat) : Prop := NoDup l /\ forall x, In x l -> (x < length ws)%nat.

Lemma bounded_len ws l : bounded ws l -> (length l <= length ws)%nat.
Proof. intros [H1 H2]. apply nodup_bounded_length; assumption. Qed.

Lemma NoDup_firstn {A} n (l : list A) : NoDup l -> NoDup (firstn n l).
Proof.
  revert n. induction l as [|x l IH]; intros n H; [destruct n; constructor|]. destruct n; [constructor|].
  inversion H; subst. cbn [firstn]. constructor; [|apply IH; assumption].
  intro Hin. apply H2. revert Hin. clear. revert n. induction l as [|y l IH]; intros n Hin; [destruct n; destruct Hin|].
  destruct n; [destruct Hin|]. destruct Hin as [E|Hin]; [left; exact E|right; apply (IH n Hin)].
Qed.

Lemma In_firstn {A} n (l : list A) x : In x (firstn n l) -> In x l.
Proof.
  revert n. induction l as [|y l IH]; intros n Hin; [destruct n; destruct Hin|].
  destruct n; [destruct Hin|]. destruct Hin as [E|Hin]; [left; exact E|right; apply (IH n Hin)].
Qed.

Lemma bounded_snoc ws seen i d : bounded ws seen -> index_of i seen = None -> nth_error ws i = Some d -> bounded ws (seen ++ [i]).
Proof.
  intros [H1 H2] Hi Hn. split; [apply NoDup_snoc; [exact H1|apply index_of_none; exact Hi]|].
  intros x Hx. apply in_app_or in Hx. destruct Hx as [Hx|[<-|[]]]; [apply H2; exact Hx|].
  apply nth_error_Some. rewrite Hn. discriminate.
Qed.

(* the walk never runs out of fuel, and what it returns is a duplicate-free list of documents *)
Lemma walk3_total ws : forall f seen i, bounded ws seen -> (S (length ws) <= f + length seen)%nat ->
  walk3 f ws seen i <> WNoFuel /\
  (forall b p, walk3 f ws seen i = WAns b p -> bounded ws p).
Proof.
  induction f as [|f IH]; intros seen i Hb Hf.
  - pose proof (bounded_len ws seen Hb). cbn in Hf. lia.
  - cbn [walk3]. destruct (index_of i seen) as [k|] eqn:Ei.
    + destruct (forallb (tree_ok ws header_first) seen); (split; [discriminate|]); intros b p E; [|discriminate].
      injection E as _ Ep. rewrite <- Ep. destruct Hb as [H1 H2]. split; [apply (NoDup_firstn (S k) seen H1)|].
      intros x Hx. apply H2. apply (In_firstn (S k) seen x Hx).
    + destruct (nth_error ws i) as [d|] eqn:En; [|split; [discriminate|intros b p E; discriminate]].
      pose proof (bounded_snoc ws seen i d Hb Ei En) as Hb'.
      destruct (parent_link (snd d)) as [|p|].
      * split; [discriminate|]. intros b q E. inversion E; subst. exact Hb'.
      * destruct (find_doc ws p) as [[j dj]|].
        -- apply IH; [exact Hb'|]. rewrite app_length. cbn [length]. lia.
        -- split; [discriminate|]. intros b q E. inversion E; subst. exact Hb'.
      * split; [discriminate|intros b q E; discriminate].
Qed.

Definition lineage3 (ws : wst) (i : nat) : wres := walk3 (S (length ws)) ws [] i.

Lemma bounded_nil ws : bounded ws [].
Proof. split; [constructor|intros x []]. Qed.

(* C14 at tree level: the parent walk terminates on every workspace shape *)
Theorem ws_lineage_terminates ws i :
  lineage_t ws i = erase (lineage3 ws i) /\
  lineage3 ws i <> WNoFuel /\
  (forall b path, lineage_t ws i = Ans (b, path) ->
     NoDup path /\ (forall x, In x path -> (x < length ws)%nat) /\ (length path <= length ws)%nat).
Proof.
  unfold lineage_t, lineage3. split; [apply walk_erase|].
  assert (Hf : (S (length ws) <= S (length ws) + length (@nil nat))%nat) by (cbn [length]; lia).
  destruct (walk3_total ws (S (length ws)) [] i (bounded_nil ws) Hf) as [H1 H2]. split; [exact H1|].
  intros b path E. rewrite walk_erase in E. destruct (walk3 (S (length ws)) ws [] i) as [| |b' p'] eqn:Ew; try discriminate.
  inversion E; subst. pose proof (H2 b path eq_refl) as Hb. destruct Hb as [A B]. split; [exact A|]. split; [exact B|].
  apply nodup_bounded_length; assumption.
Qed.

(* ---------- the chains the requests search ---------- *)

Lemma tables_along_len ws a path : (length (tables_along ws a path) <= length path)%nat.
Proof.
  unfold tables_along. induction path as [|j path IH]; [cbn; lia|]. cbn [flat_map]. rewrite app_length.
  unfold root_of at 1. destruct (nth_error ws j); cbn [length]; lia.
Qed.

Lemma own_chain_len ws a ch : own_chain ws a = Ans ch -> (length ch <= length ws)%nat.
Proof.
  unfold own_chain. destruct (lineage_t ws a) as [|[b path]] eqn:E; [discriminate|]. intro H. inversion H; subst.
  destruct (ws_lineage_terminates ws a) as (_ & _ & Hp). destruct (Hp b path E) as (_ & _ & Hl).
  pose proof (tables_along_len ws a path). lia.
Qed.

Lemma other_chain_len ws a j ch : other_chain ws a j = Ans ch -> (length ch <= length ws)%nat.
Proof.
  unfold other_chain. destruct (Nat.eqb j a); [apply own_chain_len|].
  destruct (lineage_t ws j) as [|[[|] path]] eqn:E; try discriminate. intro H. inversion H; subst.
  destruct (ws_lineage_terminates ws j) as (_ & _ & Hp). destruct (Hp false path E) as (_ & _ & Hl).
  pose proof (tables_along_len ws a path). lia.
Qed.

Lemma chain_for_len t steps ch : chain_for t steps = Some ch -> (length ch <= 2)%nat.
Proof.
  unfold chain_for. destruct steps as [|[i c] r]; [intro H; inversion H; cbn; lia|].
  destruct (is_method_node c); [|intro H; inversion H; cbn; lia].
  destruct (nth_error (st_done (annotate false t)) _); [|discriminate]. intro H. inversion H. cbn. lia.
Qed.

Lemma full_chain_len ws a t steps full d : nth_error ws a = Some d ->
  full_chain ws a t steps = Ans full -> (length full <= length ws + 1)%nat.
Proof.
  intros Hn. unfold full_chain. destruct (chain_for t steps) as [ch|] eqn:Ec; [|discriminate].
  destruct (own_chain ws a) as [|oc] eqn:Eo; [discriminate|]. intro H. inversion H; subst.
  pose proof (chain_for_len _ _ _ Ec). pose proof (own_chain_len _ _ _ Eo).
  assert ((a < length ws)%nat) by (apply nth_error_Some; rewrite Hn; discriminate).
  rewrite app_length. destruct oc as [|T oc]; cbn [tl length] in *; lia.
Qed.

Lemma class_level_t_len ch : (length (class_level_t ch) <= length ch)%nat.
Proof.
  induction ch as [|T r IH]; [cbn; lia|]. cbn [class_level_t]. destruct r as [|P r']; [cbn; lia|].
  destruct (opt_str_eqb (t_cls P) (t_cls T)); [cbn [length] in *; lia|cbn [length]; lia].
Qed.

Lemma entity_chain_len ws a full en ch : (length full <= length ws + 1)%nat ->
  entity_chain ws a full en = Ans (Some ch) -> (length ch <= length ws + 1)%nat.
Proof.
  intro Hf. unfold entity_chain. destruct (find_doc ws en) as [[j dj]|]; [|discriminate].
  destruct (Nat.eqb j a).
  - intro H. inversion H; subst. pose proof (class_level_t_len full). lia.
  - destruct (other_chain ws a j) as [|c] eqn:E; [discriminate|]. intro H. inversion H; subst.
    pose proof (other_chain_len _ _ _ _ E). lia.
Qed.

(* every request is answered -- wdefinition / wcompletion are total functions whose value is Outside or
   Ans, and no Outside comes from a walk that ran out of fuel --; every chain of tables a request
   searches (the chain of the position, the chain of a used entity, the chain of the entity before a
   dot) has at most length ws + 1 tables *)
Theorem ws_requests_total ws a p :
  (wdefinition ws a p = Outside \/ exists l, wdefinition ws a p = Ans l) /\
  (wcompletion ws a p = Outside \/ exists l, wcompletion ws a p = Ans l) /\
  (forall j, lineage_t ws j = erase (lineage3 ws j) /\ lineage3 ws j <> WNoFuel) /\
  (forall d t steps full, nth_error ws a = Some d -> full_chain ws a t steps = Ans full ->
     (length full <= length ws + 1)%nat /\
     (forall en ch, entity_chain ws a full en = Ans (Some ch) -> (length ch <= length ws + 1)%nat)) /\
  (forall j ch, other_chain ws a j = Ans ch -> (length ch <= length ws)%nat).
Proof.
  split; [destruct (wdefinition ws a p) as [|l]; [left; reflexivity|right; exists l; reflexivity]|].
  split; [destruct (wcompletion ws a p) as [|l]; [left; reflexivity|right; exists l; reflexivity]|].
  split; [intro j; destruct (ws_lineage_terminates ws j) as (H1 & H2 & _); auto|].
  split.
  - intros d t steps full Hn Hf. pose proof (full_chain_len ws a t steps full d Hn Hf) as Hl. split; [exact Hl|].
    intros en ch. apply entity_chain_len. exact Hl.
  - intros j ch. apply other_chain_len.
Qed.
