(* C16: syntax trees of the REAL parser (dumps of harness/src/eng_lints.rs pasted through the
   interchange format), used as witnesses for the regression theorems and the non-vacuity examples of
   Properties/C16.v.  Each definition is preceded by its source text and by the report the real
   server gives for it (classes of C16 only), with the checkers as repaired for D15-D19 and, where it
   differs, as they were before.  Definitions only. *)
From GoldV Require Import Base Tokens Lexer AstKinds Tree.

(* source text (aCase.god):
     class aCase(aRoot)
     const cGood = 1
     const Bad = 2
     type tGood : int4
     type Bad : int4
     GoodField : int4
     badField : int4
     ovField : int4 override
     func F1 return Text
     endfunc
     func f2(Good : int4, bad : int4) return int4
     endfunc
     proc Init
       pass
     endproc
     proc Terminate
     endproc
     proc NotifyInit
       if x
         inherited self.notifyinit
       endif
     endproc
     proc lower(bad : int4) override
       var v : tVarByteArray
       var W : tVarByteArray
       var u : tVarByteArray
       Purge(v)
       x.purge(W, 1)
       Purge(x.u)
     endproc
   real report (C16 classes): INH:2:15:5:15:14:84.101.114.109.105.110.97.116.101;NCONST:2:2:6:2:9:-;NFIELD:2:6:0:6:8:-;NFUNC:2:10:5:10:7:-;NLOCAL:2:24:6:24:7:-;NPARAM:2:10:21:10:24:-;NTYPE:2:4:5:4:8:-;PURGE:2:25:6:25:7:117;RET:2:8:15:8:19:84.101.120.116 *)
Definition w_ok : node :=
  Node KAstRoot [] 0 (mkRange (mkPos 0 0) (mkPos 0 0)) [] [
(Node KAstClass [97;67;97;115;101] 0 (mkRange (mkPos 0 0) (mkPos 0 18)) [(1, AT (mkTok 6 (mkRange (mkPos 0 6) (mkPos 0 11)) TIdentifier [97;67;97;115;101])); (2, AL [(mkTok 12 (mkRange (mkPos 0 12) (mkPos 0 17)) TIdentifier [97;82;111;111;116])])] []);
(Node KAstConstantDeclaration [99;71;111;111;100] 19 (mkRange (mkPos 1 0) (mkPos 1 15)) [(1, AT (mkTok 25 (mkRange (mkPos 1 6) (mkPos 1 11)) TIdentifier [99;71;111;111;100])); (6, AN 0); (7, AL [(mkTok 33 (mkRange (mkPos 1 14) (mkPos 1 15)) TNumericLiteral [49])])] []);
(Node KAstConstantDeclaration [66;97;100] 35 (mkRange (mkPos 2 0) (mkPos 2 13)) [(1, AT (mkTok 41 (mkRange (mkPos 2 6) (mkPos 2 9)) TIdentifier [66;97;100])); (6, AN 0); (7, AL [(mkTok 47 (mkRange (mkPos 2 12) (mkPos 2 13)) TNumericLiteral [50])])] []);
(Node KAstTypeDeclaration [116;71;111;111;100] 49 (mkRange (mkPos 3 0) (mkPos 3 17)) [(1, AT (mkTok 54 (mkRange (mkPos 3 5) (mkPos 3 10)) TIdentifier [116;71;111;111;100]))] [
  (Node KAstTypeBasic [105;110;116;52] 62 (mkRange (mkPos 3 13) (mkPos 3 17)) [(0, AT (mkTok 62 (mkRange (mkPos 3 13) (mkPos 3 17)) TIdentifier [105;110;116;52]))] [])]);
(Node KAstTypeDeclaration [66;97;100] 67 (mkRange (mkPos 4 0) (mkPos 4 15)) [(1, AT (mkTok 72 (mkRange (mkPos 4 5) (mkPos 4 8)) TIdentifier [66;97;100]))] [
  (Node KAstTypeBasic [105;110;116;52] 78 (mkRange (mkPos 4 11) (mkPos 4 15)) [(0, AT (mkTok 78 (mkRange (mkPos 4 11) (mkPos 4 15)) TIdentifier [105;110;116;52]))] [])]);
(Node KAstGlobalVariableDeclaration [71;111;111;100;70;105;101;108;100] 83 (mkRange (mkPos 5 0) (mkPos 5 16)) [(1, AT (mkTok 83 (mkRange (mkPos 5 0) (mkPos 5 9)) TIdentifier [71;111;111;100;70;105;101;108;100])); (6, AN 0)] [
  (Node KAstTypeBasic [105;110;116;52] 95 (mkRange (mkPos 5 12) (mkPos 5 16)) [(0, AT (mkTok 95 (mkRange (mkPos 5 12) (mkPos 5 16)) TIdentifier [105;110;116;52]))] [])]);
(Node KAstGlobalVariableDeclaration [98;97;100;70;105;101;108;100] 100 (mkRange (mkPos 6 0) (mkPos 6 15)) [(1, AT (mkTok 100 (mkRange (mkPos 6 0) (mkPos 6 8)) TIdentifier [98;97;100;70;105;101;108;100])); (6, AN 0)] [
  (Node KAstTypeBasic [105;110;116;52] 111 (mkRange (mkPos 6 11) (mkPos 6 15)) [(0, AT (mkTok 111 (mkRange (mkPos 6 11) (mkPos 6 15)) TIdentifier [105;110;116;52]))] [])]);
(Node KAstGlobalVariableDeclaration [111;118;70;105;101;108;100] 116 (mkRange (mkPos 7 0) (mkPos 7 23)) [(1, AT (mkTok 116 (mkRange (mkPos 7 0) (mkPos 7 7)) TIdentifier [111;118;70;105;101;108;100])); (6, AN 8)] [
  (Node KAstTypeBasic [105;110;116;52] 126 (mkRange (mkPos 7 10) (mkPos 7 14)) [(0, AT (mkTok 126 (mkRange (mkPos 7 10) (mkPos 7 14)) TIdentifier [105;110;116;52]))] [])]);
(Node KAstFunction [70;49] 140 (mkRange (mkPos 8 0) (mkPos 9 7)) [(5, AL [(mkTok 160 (mkRange (mkPos 9 0) (mkPos 9 7)) TEndFunc [101;110;100;102;117;110;99])]); (6, AN 0)] [
  (Node KAstTerminal [70;49] 145 (mkRange (mkPos 8 5) (mkPos 8 7)) [(0, AT (mkTok 145 (mkRange (mkPos 8 5) (mkPos 8 7)) TIdentifier [70;49]))] []);
  (Node KAstTypeBasic [84;101;120;116] 155 (mkRange (mkPos 8 15) (mkPos 8 19)) [(0, AT (mkTok 155 (mkRange (mkPos 8 15) (mkPos 8 19)) TIdentifier [84;101;120;116]))] []);
  (Node KAstMethodBody [109;101;116;104;111;100;95;98;111;100;121] 155 (mkRange (mkPos 8 15) (mkPos 8 19)) [] [])]);
(Node KAstFunction [102;50] 168 (mkRange (mkPos 10 0) (mkPos 11 7)) [(5, AL [(mkTok 213 (mkRange (mkPos 11 0) (mkPos 11 7)) TEndFunc [101;110;100;102;117;110;99])]); (6, AN 0)] [
  (Node KAstTerminal [102;50] 173 (mkRange (mkPos 10 5) (mkPos 10 7)) [(0, AT (mkTok 173 (mkRange (mkPos 10 5) (mkPos 10 7)) TIdentifier [102;50]))] []);
  (Node KAstTypeBasic [105;110;116;52] 208 (mkRange (mkPos 10 40) (mkPos 10 44)) [(0, AT (mkTok 208 (mkRange (mkPos 10 40) (mkPos 10 44)) TIdentifier [105;110;116;52]))] []);
  (Node KAstParameterDeclarationList [112;97;114;97;109;95;100;101;99;108;115] 175 (mkRange (mkPos 10 7) (mkPos 10 32)) [] [
    (Node KAstParameterDeclaration [71;111;111;100] 176 (mkRange (mkPos 10 8) (mkPos 10 19)) [(1, AT (mkTok 176 (mkRange (mkPos 10 8) (mkPos 10 12)) TIdentifier [71;111;111;100])); (7, AL [])] [
      (Node KAstTypeBasic [105;110;116;52] 183 (mkRange (mkPos 10 15) (mkPos 10 19)) [(0, AT (mkTok 183 (mkRange (mkPos 10 15) (mkPos 10 19)) TIdentifier [105;110;116;52]))] [])]);
    (Node KAstParameterDeclaration [98;97;100] 189 (mkRange (mkPos 10 21) (mkPos 10 31)) [(1, AT (mkTok 189 (mkRange (mkPos 10 21) (mkPos 10 24)) TIdentifier [98;97;100])); (7, AL [])] [
      (Node KAstTypeBasic [105;110;116;52] 195 (mkRange (mkPos 10 27) (mkPos 10 31)) [(0, AT (mkTok 195 (mkRange (mkPos 10 27) (mkPos 10 31)) TIdentifier [105;110;116;52]))] [])])]);
  (Node KAstMethodBody [109;101;116;104;111;100;95;98;111;100;121] 208 (mkRange (mkPos 10 40) (mkPos 10 44)) [] [])]);
(Node KAstProcedure [73;110;105;116] 221 (mkRange (mkPos 12 0) (mkPos 14 7)) [(5, AL [(mkTok 238 (mkRange (mkPos 14 0) (mkPos 14 7)) TEndProc [101;110;100;112;114;111;99])]); (6, AN 0)] [
  (Node KAstTerminal [73;110;105;116] 226 (mkRange (mkPos 12 5) (mkPos 12 9)) [(0, AT (mkTok 226 (mkRange (mkPos 12 5) (mkPos 12 9)) TIdentifier [73;110;105;116]))] []);
  (Node KAstMethodBody [109;101;116;104;111;100;95;98;111;100;121] 233 (mkRange (mkPos 13 2) (mkPos 13 6)) [] [
    (Node KAstTerminal [112;97;115;115] 233 (mkRange (mkPos 13 2) (mkPos 13 6)) [(0, AT (mkTok 233 (mkRange (mkPos 13 2) (mkPos 13 6)) TIdentifier [112;97;115;115]))] [])])]);
(Node KAstProcedure [84;101;114;109;105;110;97;116;101] 246 (mkRange (mkPos 15 0) (mkPos 16 7)) [(5, AL [(mkTok 261 (mkRange (mkPos 16 0) (mkPos 16 7)) TEndProc [101;110;100;112;114;111;99])]); (6, AN 0)] [
  (Node KAstTerminal [84;101;114;109;105;110;97;116;101] 251 (mkRange (mkPos 15 5) (mkPos 15 14)) [(0, AT (mkTok 251 (mkRange (mkPos 15 5) (mkPos 15 14)) TIdentifier [84;101;114;109;105;110;97;116;101]))] []);
  (Node KAstMethodBody [109;101;116;104;111;100;95;98;111;100;121] 251 (mkRange (mkPos 15 5) (mkPos 15 14)) [] [])]);
(Node KAstProcedure [78;111;116;105;102;121;73;110;105;116] 269 (mkRange (mkPos 17 0) (mkPos 21 7)) [(5, AL [(mkTok 330 (mkRange (mkPos 21 0) (mkPos 21 7)) TEndProc [101;110;100;112;114;111;99])]); (6, AN 0)] [
  (Node KAstTerminal [78;111;116;105;102;121;73;110;105;116] 274 (mkRange (mkPos 17 5) (mkPos 17 15)) [(0, AT (mkTok 274 (mkRange (mkPos 17 5) (mkPos 17 15)) TIdentifier [78;111;116;105;102;121;73;110;105;116]))] []);
  (Node KAstMethodBody [109;101;116;104;111;100;95;98;111;100;121] 287 (mkRange (mkPos 18 2) (mkPos 20 7)) [] [
    (Node KAstIfBlock [105;102] 287 (mkRange (mkPos 18 2) (mkPos 20 7)) [(5, AL [(mkTok 324 (mkRange (mkPos 20 2) (mkPos 20 7)) TEndIf [101;110;100;105;102])])] [
      (Node KAstConditionalBlock [99;111;110;100;95;98;108;111;99;107] 287 (mkRange (mkPos 18 2) (mkPos 19 29)) [] [
        (Node KAstTerminal [120] 290 (mkRange (mkPos 18 5) (mkPos 18 6)) [(0, AT (mkTok 290 (mkRange (mkPos 18 5) (mkPos 18 6)) TIdentifier [120]))] []);
        (Node KAstUnaryOp [105;110;104;101;114;105;116;101;100] 296 (mkRange (mkPos 19 4) (mkPos 19 29)) [(4, AT (mkTok 296 (mkRange (mkPos 19 4) (mkPos 19 13)) TInherited [105;110;104;101;114;105;116;101;100]))] [
          (Node KAstBinaryOp [46] 306 (mkRange (mkPos 19 14) (mkPos 19 29)) [(4, AT (mkTok 310 (mkRange (mkPos 19 18) (mkPos 19 19)) TDot [46]))] [
            (Node KAstTerminal [115;101;108;102] 306 (mkRange (mkPos 19 14) (mkPos 19 18)) [(0, AT (mkTok 306 (mkRange (mkPos 19 14) (mkPos 19 18)) TIdentifier [115;101;108;102]))] []);
            (Node KAstTerminal [110;111;116;105;102;121;105;110;105;116] 311 (mkRange (mkPos 19 19) (mkPos 19 29)) [(0, AT (mkTok 311 (mkRange (mkPos 19 19) (mkPos 19 29)) TIdentifier [110;111;116;105;102;121;105;110;105;116]))] [])])])])])])]);
(Node KAstProcedure [108;111;119;101;114] 338 (mkRange (mkPos 22 0) (mkPos 29 7)) [(5, AL [(mkTok 482 (mkRange (mkPos 29 0) (mkPos 29 7)) TEndProc [101;110;100;112;114;111;99])]); (6, AN 8)] [
  (Node KAstTerminal [108;111;119;101;114] 343 (mkRange (mkPos 22 5) (mkPos 22 10)) [(0, AT (mkTok 343 (mkRange (mkPos 22 5) (mkPos 22 10)) TIdentifier [108;111;119;101;114]))] []);
  (Node KAstParameterDeclarationList [112;97;114;97;109;95;100;101;99;108;115] 348 (mkRange (mkPos 22 10) (mkPos 22 22)) [] [
    (Node KAstParameterDeclaration [98;97;100] 349 (mkRange (mkPos 22 11) (mkPos 22 21)) [(1, AT (mkTok 349 (mkRange (mkPos 22 11) (mkPos 22 14)) TIdentifier [98;97;100])); (7, AL [])] [
      (Node KAstTypeBasic [105;110;116;52] 355 (mkRange (mkPos 22 17) (mkPos 22 21)) [(0, AT (mkTok 355 (mkRange (mkPos 22 17) (mkPos 22 21)) TIdentifier [105;110;116;52]))] [])])]);
  (Node KAstMethodBody [109;101;116;104;111;100;95;98;111;100;121] 372 (mkRange (mkPos 23 2) (mkPos 28 12)) [] [
    (Node KAstLocalVariableDeclaration [118] 372 (mkRange (mkPos 23 2) (mkPos 23 23)) [(1, AT (mkTok 376 (mkRange (mkPos 23 6) (mkPos 23 7)) TIdentifier [118]))] [
      (Node KAstTypeBasic [116;86;97;114;66;121;116;101;65;114;114;97;121] 380 (mkRange (mkPos 23 10) (mkPos 23 23)) [(0, AT (mkTok 380 (mkRange (mkPos 23 10) (mkPos 23 23)) TIdentifier [116;86;97;114;66;121;116;101;65;114;114;97;121]))] [])]);
    (Node KAstLocalVariableDeclaration [87] 396 (mkRange (mkPos 24 2) (mkPos 24 23)) [(1, AT (mkTok 400 (mkRange (mkPos 24 6) (mkPos 24 7)) TIdentifier [87]))] [
      (Node KAstTypeBasic [116;86;97;114;66;121;116;101;65;114;114;97;121] 404 (mkRange (mkPos 24 10) (mkPos 24 23)) [(0, AT (mkTok 404 (mkRange (mkPos 24 10) (mkPos 24 23)) TIdentifier [116;86;97;114;66;121;116;101;65;114;114;97;121]))] [])]);
    (Node KAstLocalVariableDeclaration [117] 420 (mkRange (mkPos 25 2) (mkPos 25 23)) [(1, AT (mkTok 424 (mkRange (mkPos 25 6) (mkPos 25 7)) TIdentifier [117]))] [
      (Node KAstTypeBasic [116;86;97;114;66;121;116;101;65;114;114;97;121] 428 (mkRange (mkPos 25 10) (mkPos 25 23)) [(0, AT (mkTok 428 (mkRange (mkPos 25 10) (mkPos 25 23)) TIdentifier [116;86;97;114;66;121;116;101;65;114;114;97;121]))] [])]);
    (Node KAstMethodCall [80;117;114;103;101] 444 (mkRange (mkPos 26 2) (mkPos 26 10)) [] [
      (Node KAstTerminal [118] 450 (mkRange (mkPos 26 8) (mkPos 26 9)) [(0, AT (mkTok 450 (mkRange (mkPos 26 8) (mkPos 26 9)) TIdentifier [118]))] [])]);
    (Node KAstBinaryOp [46] 455 (mkRange (mkPos 27 2) (mkPos 27 15)) [(4, AT (mkTok 456 (mkRange (mkPos 27 3) (mkPos 27 4)) TDot [46]))] [
      (Node KAstTerminal [120] 455 (mkRange (mkPos 27 2) (mkPos 27 3)) [(0, AT (mkTok 455 (mkRange (mkPos 27 2) (mkPos 27 3)) TIdentifier [120]))] []);
      (Node KAstMethodCall [112;117;114;103;101] 457 (mkRange (mkPos 27 4) (mkPos 27 15)) [] [
        (Node KAstTerminal [87] 463 (mkRange (mkPos 27 10) (mkPos 27 11)) [(0, AT (mkTok 463 (mkRange (mkPos 27 10) (mkPos 27 11)) TIdentifier [87]))] []);
        (Node KAstTerminal [49] 466 (mkRange (mkPos 27 13) (mkPos 27 14)) [(0, AT (mkTok 466 (mkRange (mkPos 27 13) (mkPos 27 14)) TNumericLiteral [49]))] [])])]);
    (Node KAstMethodCall [80;117;114;103;101] 471 (mkRange (mkPos 28 2) (mkPos 28 12)) [] [
      (Node KAstBinaryOp [46] 477 (mkRange (mkPos 28 8) (mkPos 28 11)) [(4, AT (mkTok 478 (mkRange (mkPos 28 9) (mkPos 28 10)) TDot [46]))] [
        (Node KAstTerminal [120] 477 (mkRange (mkPos 28 8) (mkPos 28 9)) [(0, AT (mkTok 477 (mkRange (mkPos 28 8) (mkPos 28 9)) TIdentifier [120]))] []);
        (Node KAstTerminal [117] 479 (mkRange (mkPos 28 10) (mkPos 28 11)) [(0, AT (mkTok 479 (mkRange (mkPos 28 10) (mkPos 28 11)) TIdentifier [117]))] [])])])])])].

(* source text (aCase.god):
     class aCase
     proc P
       var v : tVarByteArray
       Purge(V)
     endproc
   real report (C16 classes): (none) since /repo ef936ba; before: PURGE:2:2:6:2:7:118 *)
Definition w_case : node :=
  Node KAstRoot [] 0 (mkRange (mkPos 0 0) (mkPos 0 0)) [] [
(Node KAstClass [97;67;97;115;101] 0 (mkRange (mkPos 0 0) (mkPos 0 11)) [(1, AT (mkTok 6 (mkRange (mkPos 0 6) (mkPos 0 11)) TIdentifier [97;67;97;115;101])); (2, AL [])] []);
(Node KAstProcedure [80] 12 (mkRange (mkPos 1 0) (mkPos 4 7)) [(5, AL [(mkTok 54 (mkRange (mkPos 4 0) (mkPos 4 7)) TEndProc [101;110;100;112;114;111;99])]); (6, AN 0)] [
  (Node KAstTerminal [80] 17 (mkRange (mkPos 1 5) (mkPos 1 6)) [(0, AT (mkTok 17 (mkRange (mkPos 1 5) (mkPos 1 6)) TIdentifier [80]))] []);
  (Node KAstMethodBody [109;101;116;104;111;100;95;98;111;100;121] 21 (mkRange (mkPos 2 2) (mkPos 3 10)) [] [
    (Node KAstLocalVariableDeclaration [118] 21 (mkRange (mkPos 2 2) (mkPos 2 23)) [(1, AT (mkTok 25 (mkRange (mkPos 2 6) (mkPos 2 7)) TIdentifier [118]))] [
      (Node KAstTypeBasic [116;86;97;114;66;121;116;101;65;114;114;97;121] 29 (mkRange (mkPos 2 10) (mkPos 2 23)) [(0, AT (mkTok 29 (mkRange (mkPos 2 10) (mkPos 2 23)) TIdentifier [116;86;97;114;66;121;116;101;65;114;114;97;121]))] [])]);
    (Node KAstMethodCall [80;117;114;103;101] 45 (mkRange (mkPos 3 2) (mkPos 3 10)) [] [
      (Node KAstTerminal [86] 51 (mkRange (mkPos 3 8) (mkPos 3 9)) [(0, AT (mkTok 51 (mkRange (mkPos 3 8) (mkPos 3 9)) TIdentifier [86]))] [])])])])].

(* source text (aCase.god):
     class aCase
     proc Init
       foo('pass')
     endproc
   real report (C16 classes): INH:2:1:5:1:9:73.110.105.116 since /repo 44578d5; before: (none) *)
Definition w_passlit : node :=
  Node KAstRoot [] 0 (mkRange (mkPos 0 0) (mkPos 0 0)) [] [
(Node KAstClass [97;67;97;115;101] 0 (mkRange (mkPos 0 0) (mkPos 0 11)) [(1, AT (mkTok 6 (mkRange (mkPos 0 6) (mkPos 0 11)) TIdentifier [97;67;97;115;101])); (2, AL [])] []);
(Node KAstProcedure [73;110;105;116] 12 (mkRange (mkPos 1 0) (mkPos 3 7)) [(5, AL [(mkTok 36 (mkRange (mkPos 3 0) (mkPos 3 7)) TEndProc [101;110;100;112;114;111;99])]); (6, AN 0)] [
  (Node KAstTerminal [73;110;105;116] 17 (mkRange (mkPos 1 5) (mkPos 1 9)) [(0, AT (mkTok 17 (mkRange (mkPos 1 5) (mkPos 1 9)) TIdentifier [73;110;105;116]))] []);
  (Node KAstMethodBody [109;101;116;104;111;100;95;98;111;100;121] 24 (mkRange (mkPos 2 2) (mkPos 2 13)) [] [
    (Node KAstMethodCall [102;111;111] 24 (mkRange (mkPos 2 2) (mkPos 2 13)) [] [
      (Node KAstTerminal [112;97;115;115] 28 (mkRange (mkPos 2 6) (mkPos 2 10)) [(0, AT (mkTok 28 (mkRange (mkPos 2 6) (mkPos 2 10)) TStringLiteral [112;97;115;115]))] [])])])])].

(* source text (aCase.god):
     class aCase
     proc Init
       inherited other.Init
     endproc
   real report (C16 classes) with the repaired checkers: INH:2:1:5:1:9:73.110.105.116; before the repair (D15): (none) *)
Definition w_inhother : node :=
  Node KAstRoot [] 0 (mkRange (mkPos 0 0) (mkPos 0 0)) [] [
(Node KAstClass [97;67;97;115;101] 0 (mkRange (mkPos 0 0) (mkPos 0 11)) [(1, AT (mkTok 6 (mkRange (mkPos 0 6) (mkPos 0 11)) TIdentifier [97;67;97;115;101])); (2, AL [])] []);
(Node KAstProcedure [73;110;105;116] 12 (mkRange (mkPos 1 0) (mkPos 3 7)) [(5, AL [(mkTok 45 (mkRange (mkPos 3 0) (mkPos 3 7)) TEndProc [101;110;100;112;114;111;99])]); (6, AN 0)] [
  (Node KAstTerminal [73;110;105;116] 17 (mkRange (mkPos 1 5) (mkPos 1 9)) [(0, AT (mkTok 17 (mkRange (mkPos 1 5) (mkPos 1 9)) TIdentifier [73;110;105;116]))] []);
  (Node KAstMethodBody [109;101;116;104;111;100;95;98;111;100;121] 24 (mkRange (mkPos 2 2) (mkPos 2 22)) [] [
    (Node KAstUnaryOp [105;110;104;101;114;105;116;101;100] 24 (mkRange (mkPos 2 2) (mkPos 2 22)) [(4, AT (mkTok 24 (mkRange (mkPos 2 2) (mkPos 2 11)) TInherited [105;110;104;101;114;105;116;101;100]))] [
      (Node KAstBinaryOp [46] 34 (mkRange (mkPos 2 12) (mkPos 2 22)) [(4, AT (mkTok 39 (mkRange (mkPos 2 17) (mkPos 2 18)) TDot [46]))] [
        (Node KAstTerminal [111;116;104;101;114] 34 (mkRange (mkPos 2 12) (mkPos 2 17)) [(0, AT (mkTok 34 (mkRange (mkPos 2 12) (mkPos 2 17)) TIdentifier [111;116;104;101;114]))] []);
        (Node KAstTerminal [73;110;105;116] 40 (mkRange (mkPos 2 18) (mkPos 2 22)) [(0, AT (mkTok 40 (mkRange (mkPos 2 18) (mkPos 2 22)) TIdentifier [73;110;105;116]))] [])])])])])].

(* source text (aCase.god):
     class aCase
     proc P
       var v : tVarByteArray
       var v : tVarByteArray
     endproc
   real report (C16 classes) with the repaired checkers: PURGE:2:2:6:2:7:118;PURGE:2:3:6:3:7:118;
   before the repair (D16): PURGE:2:3:6:3:7:118 *)
Definition w_dup : node :=
  Node KAstRoot [] 0 (mkRange (mkPos 0 0) (mkPos 0 0)) [] [
(Node KAstClass [97;67;97;115;101] 0 (mkRange (mkPos 0 0) (mkPos 0 11)) [(1, AT (mkTok 6 (mkRange (mkPos 0 6) (mkPos 0 11)) TIdentifier [97;67;97;115;101])); (2, AL [])] []);
(Node KAstProcedure [80] 12 (mkRange (mkPos 1 0) (mkPos 4 7)) [(5, AL [(mkTok 67 (mkRange (mkPos 4 0) (mkPos 4 7)) TEndProc [101;110;100;112;114;111;99])]); (6, AN 0)] [
  (Node KAstTerminal [80] 17 (mkRange (mkPos 1 5) (mkPos 1 6)) [(0, AT (mkTok 17 (mkRange (mkPos 1 5) (mkPos 1 6)) TIdentifier [80]))] []);
  (Node KAstMethodBody [109;101;116;104;111;100;95;98;111;100;121] 21 (mkRange (mkPos 2 2) (mkPos 3 23)) [] [
    (Node KAstLocalVariableDeclaration [118] 21 (mkRange (mkPos 2 2) (mkPos 2 23)) [(1, AT (mkTok 25 (mkRange (mkPos 2 6) (mkPos 2 7)) TIdentifier [118]))] [
      (Node KAstTypeBasic [116;86;97;114;66;121;116;101;65;114;114;97;121] 29 (mkRange (mkPos 2 10) (mkPos 2 23)) [(0, AT (mkTok 29 (mkRange (mkPos 2 10) (mkPos 2 23)) TIdentifier [116;86;97;114;66;121;116;101;65;114;114;97;121]))] [])]);
    (Node KAstLocalVariableDeclaration [118] 45 (mkRange (mkPos 3 2) (mkPos 3 23)) [(1, AT (mkTok 49 (mkRange (mkPos 3 6) (mkPos 3 7)) TIdentifier [118]))] [
      (Node KAstTypeBasic [116;86;97;114;66;121;116;101;65;114;114;97;121] 53 (mkRange (mkPos 3 10) (mkPos 3 23)) [(0, AT (mkTok 53 (mkRange (mkPos 3 10) (mkPos 3 23)) TIdentifier [116;86;97;114;66;121;116;101;65;114;114;97;121]))] [])])])])].

(* source text (aCase.god):
     class aCase
     proc P
       Purge(v)
       var v : tVarByteArray
     endproc
   real report (C16 classes) with the repaired checkers: (none); before the repair (D17): PURGE:2:3:6:3:7:118 *)
Definition w_early : node :=
  Node KAstRoot [] 0 (mkRange (mkPos 0 0) (mkPos 0 0)) [] [
(Node KAstClass [97;67;97;115;101] 0 (mkRange (mkPos 0 0) (mkPos 0 11)) [(1, AT (mkTok 6 (mkRange (mkPos 0 6) (mkPos 0 11)) TIdentifier [97;67;97;115;101])); (2, AL [])] []);
(Node KAstProcedure [80] 12 (mkRange (mkPos 1 0) (mkPos 4 7)) [(5, AL [(mkTok 54 (mkRange (mkPos 4 0) (mkPos 4 7)) TEndProc [101;110;100;112;114;111;99])]); (6, AN 0)] [
  (Node KAstTerminal [80] 17 (mkRange (mkPos 1 5) (mkPos 1 6)) [(0, AT (mkTok 17 (mkRange (mkPos 1 5) (mkPos 1 6)) TIdentifier [80]))] []);
  (Node KAstMethodBody [109;101;116;104;111;100;95;98;111;100;121] 21 (mkRange (mkPos 2 2) (mkPos 3 23)) [] [
    (Node KAstMethodCall [80;117;114;103;101] 21 (mkRange (mkPos 2 2) (mkPos 2 10)) [] [
      (Node KAstTerminal [118] 27 (mkRange (mkPos 2 8) (mkPos 2 9)) [(0, AT (mkTok 27 (mkRange (mkPos 2 8) (mkPos 2 9)) TIdentifier [118]))] [])]);
    (Node KAstLocalVariableDeclaration [118] 32 (mkRange (mkPos 3 2) (mkPos 3 23)) [(1, AT (mkTok 36 (mkRange (mkPos 3 6) (mkPos 3 7)) TIdentifier [118]))] [
      (Node KAstTypeBasic [116;86;97;114;66;121;116;101;65;114;114;97;121] 40 (mkRange (mkPos 3 10) (mkPos 3 23)) [(0, AT (mkTok 40 (mkRange (mkPos 3 10) (mkPos 3 23)) TIdentifier [116;86;97;114;66;121;116;101;65;114;114;97;121]))] [])])])])].

(* source text (aCase.god):
     class aCase
     proc P
       var v : tVarByteArray
       Purge('v')
     endproc
   real report (C16 classes) with the repaired checkers: PURGE:2:2:6:2:7:118; before the repair (D18): (none) *)
Definition w_arglit : node :=
  Node KAstRoot [] 0 (mkRange (mkPos 0 0) (mkPos 0 0)) [] [
(Node KAstClass [97;67;97;115;101] 0 (mkRange (mkPos 0 0) (mkPos 0 11)) [(1, AT (mkTok 6 (mkRange (mkPos 0 6) (mkPos 0 11)) TIdentifier [97;67;97;115;101])); (2, AL [])] []);
(Node KAstProcedure [80] 12 (mkRange (mkPos 1 0) (mkPos 4 7)) [(5, AL [(mkTok 56 (mkRange (mkPos 4 0) (mkPos 4 7)) TEndProc [101;110;100;112;114;111;99])]); (6, AN 0)] [
  (Node KAstTerminal [80] 17 (mkRange (mkPos 1 5) (mkPos 1 6)) [(0, AT (mkTok 17 (mkRange (mkPos 1 5) (mkPos 1 6)) TIdentifier [80]))] []);
  (Node KAstMethodBody [109;101;116;104;111;100;95;98;111;100;121] 21 (mkRange (mkPos 2 2) (mkPos 3 12)) [] [
    (Node KAstLocalVariableDeclaration [118] 21 (mkRange (mkPos 2 2) (mkPos 2 23)) [(1, AT (mkTok 25 (mkRange (mkPos 2 6) (mkPos 2 7)) TIdentifier [118]))] [
      (Node KAstTypeBasic [116;86;97;114;66;121;116;101;65;114;114;97;121] 29 (mkRange (mkPos 2 10) (mkPos 2 23)) [(0, AT (mkTok 29 (mkRange (mkPos 2 10) (mkPos 2 23)) TIdentifier [116;86;97;114;66;121;116;101;65;114;114;97;121]))] [])]);
    (Node KAstMethodCall [80;117;114;103;101] 45 (mkRange (mkPos 3 2) (mkPos 3 12)) [] [
      (Node KAstTerminal [118] 51 (mkRange (mkPos 3 8) (mkPos 3 9)) [(0, AT (mkTok 51 (mkRange (mkPos 3 8) (mkPos 3 9)) TStringLiteral [118]))] [])])])])].

(* source text (aCase.god):
     class aCase
     proc Init
     endproc
     Fld : int4 absolute pass
   real report (C16 classes) with the repaired checkers: INH:2:1:5:1:9:73.110.105.116; before the repair (D19): (none) *)
Definition w_leak : node :=
  Node KAstRoot [] 0 (mkRange (mkPos 0 0) (mkPos 0 0)) [] [
(Node KAstClass [97;67;97;115;101] 0 (mkRange (mkPos 0 0) (mkPos 0 11)) [(1, AT (mkTok 6 (mkRange (mkPos 0 6) (mkPos 0 11)) TIdentifier [97;67;97;115;101])); (2, AL [])] []);
(Node KAstProcedure [73;110;105;116] 12 (mkRange (mkPos 1 0) (mkPos 2 7)) [(5, AL [(mkTok 22 (mkRange (mkPos 2 0) (mkPos 2 7)) TEndProc [101;110;100;112;114;111;99])]); (6, AN 0)] [
  (Node KAstTerminal [73;110;105;116] 17 (mkRange (mkPos 1 5) (mkPos 1 9)) [(0, AT (mkTok 17 (mkRange (mkPos 1 5) (mkPos 1 9)) TIdentifier [73;110;105;116]))] []);
  (Node KAstMethodBody [109;101;116;104;111;100;95;98;111;100;121] 17 (mkRange (mkPos 1 5) (mkPos 1 9)) [] [])]);
(Node KAstGlobalVariableDeclaration [70;108;100] 30 (mkRange (mkPos 3 0) (mkPos 3 24)) [(1, AT (mkTok 30 (mkRange (mkPos 3 0) (mkPos 3 3)) TIdentifier [70;108;100])); (6, AN 0)] [
  (Node KAstTypeBasic [105;110;116;52] 36 (mkRange (mkPos 3 6) (mkPos 3 10)) [(0, AT (mkTok 36 (mkRange (mkPos 3 6) (mkPos 3 10)) TIdentifier [105;110;116;52]))] []);
  (Node KAstTerminal [112;97;115;115] 50 (mkRange (mkPos 3 20) (mkPos 3 24)) [(0, AT (mkTok 50 (mkRange (mkPos 3 20) (mkPos 3 24)) TIdentifier [112;97;115;115]))] [])])].

(* source text (aCase.god):
     class aCase
     Fld : int4 absolute pass
     proc Init
     endproc
   real report (C16 classes): INH:2:2:5:2:9:73.110.105.116 *)
Definition w_leak2 : node :=
  Node KAstRoot [] 0 (mkRange (mkPos 0 0) (mkPos 0 0)) [] [
(Node KAstClass [97;67;97;115;101] 0 (mkRange (mkPos 0 0) (mkPos 0 11)) [(1, AT (mkTok 6 (mkRange (mkPos 0 6) (mkPos 0 11)) TIdentifier [97;67;97;115;101])); (2, AL [])] []);
(Node KAstGlobalVariableDeclaration [70;108;100] 12 (mkRange (mkPos 1 0) (mkPos 1 24)) [(1, AT (mkTok 12 (mkRange (mkPos 1 0) (mkPos 1 3)) TIdentifier [70;108;100])); (6, AN 0)] [
  (Node KAstTypeBasic [105;110;116;52] 18 (mkRange (mkPos 1 6) (mkPos 1 10)) [(0, AT (mkTok 18 (mkRange (mkPos 1 6) (mkPos 1 10)) TIdentifier [105;110;116;52]))] []);
  (Node KAstTerminal [112;97;115;115] 32 (mkRange (mkPos 1 20) (mkPos 1 24)) [(0, AT (mkTok 32 (mkRange (mkPos 1 20) (mkPos 1 24)) TIdentifier [112;97;115;115]))] [])]);
(Node KAstProcedure [73;110;105;116] 37 (mkRange (mkPos 2 0) (mkPos 3 7)) [(5, AL [(mkTok 47 (mkRange (mkPos 3 0) (mkPos 3 7)) TEndProc [101;110;100;112;114;111;99])]); (6, AN 0)] [
  (Node KAstTerminal [73;110;105;116] 42 (mkRange (mkPos 2 5) (mkPos 2 9)) [(0, AT (mkTok 42 (mkRange (mkPos 2 5) (mkPos 2 9)) TIdentifier [73;110;105;116]))] []);
  (Node KAstMethodBody [109;101;116;104;111;100;95;98;111;100;121] 42 (mkRange (mkPos 2 5) (mkPos 2 9)) [] [])])].

(* source text (aCase.god):
     class aCase
     proc Init
       inherited x.y.Init
     endproc
   real report (C16 classes) with the repaired checkers: INH:2:1:5:1:9:73.110.105.116
   before the repair: (none) *)
Definition w_inhchain : node :=
  Node KAstRoot [] 0 (mkRange (mkPos 0 0) (mkPos 0 0)) [] [
    Node KAstClass [97;67;97;115;101] 0 (mkRange (mkPos 0 0) (mkPos 0 11)) [(1, AT (mkTok 6 (mkRange (mkPos 0 6) (mkPos 0 11)) TIdentifier [97;67;97;115;101])); (2, AL [])] [];
    Node KAstProcedure [73;110;105;116] 12 (mkRange (mkPos 1 0) (mkPos 3 7)) [(5, AL [(mkTok 43 (mkRange (mkPos 3 0) (mkPos 3 7)) TEndProc [101;110;100;112;114;111;99])]); (6, AN 0)] [
      Node KAstTerminal [73;110;105;116] 17 (mkRange (mkPos 1 5) (mkPos 1 9)) [(0, AT (mkTok 17 (mkRange (mkPos 1 5) (mkPos 1 9)) TIdentifier [73;110;105;116]))] [];
      Node KAstMethodBody [109;101;116;104;111;100;95;98;111;100;121] 24 (mkRange (mkPos 2 2) (mkPos 2 20)) [] [
        Node KAstUnaryOp [105;110;104;101;114;105;116;101;100] 24 (mkRange (mkPos 2 2) (mkPos 2 20)) [(4, AT (mkTok 24 (mkRange (mkPos 2 2) (mkPos 2 11)) TInherited [105;110;104;101;114;105;116;101;100]))] [
          Node KAstBinaryOp [46] 34 (mkRange (mkPos 2 12) (mkPos 2 20)) [(4, AT (mkTok 37 (mkRange (mkPos 2 15) (mkPos 2 16)) TDot [46]))] [
            Node KAstBinaryOp [46] 34 (mkRange (mkPos 2 12) (mkPos 2 15)) [(4, AT (mkTok 35 (mkRange (mkPos 2 13) (mkPos 2 14)) TDot [46]))] [
              Node KAstTerminal [120] 34 (mkRange (mkPos 2 12) (mkPos 2 13)) [(0, AT (mkTok 34 (mkRange (mkPos 2 12) (mkPos 2 13)) TIdentifier [120]))] [];
              Node KAstTerminal [121] 36 (mkRange (mkPos 2 14) (mkPos 2 15)) [(0, AT (mkTok 36 (mkRange (mkPos 2 14) (mkPos 2 15)) TIdentifier [121]))] []];
            Node KAstTerminal [73;110;105;116] 38 (mkRange (mkPos 2 16) (mkPos 2 20)) [(0, AT (mkTok 38 (mkRange (mkPos 2 16) (mkPos 2 20)) TIdentifier [73;110;105;116]))] []]]]]].

(* source text (aCase.god):
     class aCase
     proc Init
       x = inherited (a + Init)
     endproc
   real report (C16 classes) with the repaired checkers: INH:2:1:5:1:9:73.110.105.116
   before the repair: (none) *)
Definition w_inhexpr : node :=
  Node KAstRoot [] 0 (mkRange (mkPos 0 0) (mkPos 0 0)) [] [
    Node KAstClass [97;67;97;115;101] 0 (mkRange (mkPos 0 0) (mkPos 0 11)) [(1, AT (mkTok 6 (mkRange (mkPos 0 6) (mkPos 0 11)) TIdentifier [97;67;97;115;101])); (2, AL [])] [];
    Node KAstProcedure [73;110;105;116] 12 (mkRange (mkPos 1 0) (mkPos 3 7)) [(5, AL [(mkTok 49 (mkRange (mkPos 3 0) (mkPos 3 7)) TEndProc [101;110;100;112;114;111;99])]); (6, AN 0)] [
      Node KAstTerminal [73;110;105;116] 17 (mkRange (mkPos 1 5) (mkPos 1 9)) [(0, AT (mkTok 17 (mkRange (mkPos 1 5) (mkPos 1 9)) TIdentifier [73;110;105;116]))] [];
      Node KAstMethodBody [109;101;116;104;111;100;95;98;111;100;121] 24 (mkRange (mkPos 2 2) (mkPos 2 25)) [] [
        Node KAstBinaryOp [61] 24 (mkRange (mkPos 2 2) (mkPos 2 25)) [(4, AT (mkTok 26 (mkRange (mkPos 2 4) (mkPos 2 5)) TEquals [61]))] [
          Node KAstTerminal [120] 24 (mkRange (mkPos 2 2) (mkPos 2 3)) [(0, AT (mkTok 24 (mkRange (mkPos 2 2) (mkPos 2 3)) TIdentifier [120]))] [];
          Node KAstUnaryOp [105;110;104;101;114;105;116;101;100] 28 (mkRange (mkPos 2 6) (mkPos 2 25)) [(4, AT (mkTok 28 (mkRange (mkPos 2 6) (mkPos 2 15)) TInherited [105;110;104;101;114;105;116;101;100]))] [
            Node KAstBinaryOp [43] 39 (mkRange (mkPos 2 17) (mkPos 2 25)) [(4, AT (mkTok 41 (mkRange (mkPos 2 19) (mkPos 2 20)) TPlus [43]))] [
              Node KAstTerminal [97] 39 (mkRange (mkPos 2 17) (mkPos 2 18)) [(0, AT (mkTok 39 (mkRange (mkPos 2 17) (mkPos 2 18)) TIdentifier [97]))] [];
              Node KAstTerminal [73;110;105;116] 43 (mkRange (mkPos 2 21) (mkPos 2 25)) [(0, AT (mkTok 43 (mkRange (mkPos 2 21) (mkPos 2 25)) TIdentifier [73;110;105;116]))] []]]]]]].

(* source text (aCase.god):
     class aCase
     proc P
       var v : tVarByteArray
       Purge(v(1))
     endproc
   real report (C16 classes) with the repaired checkers: PURGE:2:2:6:2:7:118
   before the repair: (none) *)
Definition w_argcall : node :=
  Node KAstRoot [] 0 (mkRange (mkPos 0 0) (mkPos 0 0)) [] [
    Node KAstClass [97;67;97;115;101] 0 (mkRange (mkPos 0 0) (mkPos 0 11)) [(1, AT (mkTok 6 (mkRange (mkPos 0 6) (mkPos 0 11)) TIdentifier [97;67;97;115;101])); (2, AL [])] [];
    Node KAstProcedure [80] 12 (mkRange (mkPos 1 0) (mkPos 4 7)) [(5, AL [(mkTok 57 (mkRange (mkPos 4 0) (mkPos 4 7)) TEndProc [101;110;100;112;114;111;99])]); (6, AN 0)] [
      Node KAstTerminal [80] 17 (mkRange (mkPos 1 5) (mkPos 1 6)) [(0, AT (mkTok 17 (mkRange (mkPos 1 5) (mkPos 1 6)) TIdentifier [80]))] [];
      Node KAstMethodBody [109;101;116;104;111;100;95;98;111;100;121] 21 (mkRange (mkPos 2 2) (mkPos 3 13)) [] [
        Node KAstLocalVariableDeclaration [118] 21 (mkRange (mkPos 2 2) (mkPos 2 23)) [(1, AT (mkTok 25 (mkRange (mkPos 2 6) (mkPos 2 7)) TIdentifier [118]))] [
          Node KAstTypeBasic [116;86;97;114;66;121;116;101;65;114;114;97;121] 29 (mkRange (mkPos 2 10) (mkPos 2 23)) [(0, AT (mkTok 29 (mkRange (mkPos 2 10) (mkPos 2 23)) TIdentifier [116;86;97;114;66;121;116;101;65;114;114;97;121]))] []];
        Node KAstMethodCall [80;117;114;103;101] 45 (mkRange (mkPos 3 2) (mkPos 3 13)) [] [
          Node KAstMethodCall [118] 51 (mkRange (mkPos 3 8) (mkPos 3 12)) [] [
            Node KAstTerminal [49] 53 (mkRange (mkPos 3 10) (mkPos 3 11)) [(0, AT (mkTok 53 (mkRange (mkPos 3 10) (mkPos 3 11)) TNumericLiteral [49]))] []]]]]].

(* source text (aCase.god):
     class aCase
     proc P
       var v : tVarByteArray
       Purge(v[1])
     endproc
   real report (C16 classes) with the repaired checkers: PURGE:2:2:6:2:7:118
   before the repair: (none) *)
Definition w_argindex : node :=
  Node KAstRoot [] 0 (mkRange (mkPos 0 0) (mkPos 0 0)) [] [
    Node KAstClass [97;67;97;115;101] 0 (mkRange (mkPos 0 0) (mkPos 0 11)) [(1, AT (mkTok 6 (mkRange (mkPos 0 6) (mkPos 0 11)) TIdentifier [97;67;97;115;101])); (2, AL [])] [];
    Node KAstProcedure [80] 12 (mkRange (mkPos 1 0) (mkPos 4 7)) [(5, AL [(mkTok 57 (mkRange (mkPos 4 0) (mkPos 4 7)) TEndProc [101;110;100;112;114;111;99])]); (6, AN 0)] [
      Node KAstTerminal [80] 17 (mkRange (mkPos 1 5) (mkPos 1 6)) [(0, AT (mkTok 17 (mkRange (mkPos 1 5) (mkPos 1 6)) TIdentifier [80]))] [];
      Node KAstMethodBody [109;101;116;104;111;100;95;98;111;100;121] 21 (mkRange (mkPos 2 2) (mkPos 3 13)) [] [
        Node KAstLocalVariableDeclaration [118] 21 (mkRange (mkPos 2 2) (mkPos 2 23)) [(1, AT (mkTok 25 (mkRange (mkPos 2 6) (mkPos 2 7)) TIdentifier [118]))] [
          Node KAstTypeBasic [116;86;97;114;66;121;116;101;65;114;114;97;121] 29 (mkRange (mkPos 2 10) (mkPos 2 23)) [(0, AT (mkTok 29 (mkRange (mkPos 2 10) (mkPos 2 23)) TIdentifier [116;86;97;114;66;121;116;101;65;114;114;97;121]))] []];
        Node KAstMethodCall [80;117;114;103;101] 45 (mkRange (mkPos 3 2) (mkPos 3 13)) [] [
          Node KAstArrayAccess [118] 51 (mkRange (mkPos 3 8) (mkPos 3 12)) [] [
            Node KAstTerminal [118] 51 (mkRange (mkPos 3 8) (mkPos 3 9)) [(0, AT (mkTok 51 (mkRange (mkPos 3 8) (mkPos 3 9)) TIdentifier [118]))] [];
            Node KAstTerminal [49] 53 (mkRange (mkPos 3 10) (mkPos 3 11)) [(0, AT (mkTok 53 (mkRange (mkPos 3 10) (mkPos 3 11)) TNumericLiteral [49]))] []]]]]].

(* source text (aCase.god):
     class aCase
     proc Init
       if x
         inherited SELF.init(1)
       endif
     endproc
     func Terminate return int4
       x = inherited Self.TERMINATE
     endfunc
     proc NotifyInit
       inherited self.NotifyInit.foo
     endproc
     proc NotifyTerminate
       inherited self.x.NotifyTerminate
     endproc
     proc P
       Purge(V)
       var v : tVarByteArray
       var u : tVarByteArray
       var u : tVarByteArray
       var w : tVarByteArray
       var w : tVarByteArray
       if x
         OcsByteArray.purge(U, 2)
       endif
       Purge(1, w)
     endproc
   real report (C16 classes) with the repaired checkers: INH:2:12:5:12:20:78.111.116.105.102.121.84.101.114.109.105.110.97.116.101;INH:2:9:5:9:15:78.111.116.105.102.121.73.110.105.116;PURGE:2:20:6:20:7:119;PURGE:2:21:6:21:7:119
   before the repair: INH:2:9:5:9:15:78.111.116.105.102.121.73.110.105.116;PURGE:2:17:6:17:7:118;PURGE:2:21:6:21:7:119 *)
Definition w_forms : node :=
  Node KAstRoot [] 0 (mkRange (mkPos 0 0) (mkPos 0 0)) [] [
    Node KAstClass [97;67;97;115;101] 0 (mkRange (mkPos 0 0) (mkPos 0 11)) [(1, AT (mkTok 6 (mkRange (mkPos 0 6) (mkPos 0 11)) TIdentifier [97;67;97;115;101])); (2, AL [])] [];
    Node KAstProcedure [73;110;105;116] 12 (mkRange (mkPos 1 0) (mkPos 5 7)) [(5, AL [(mkTok 64 (mkRange (mkPos 5 0) (mkPos 5 7)) TEndProc [101;110;100;112;114;111;99])]); (6, AN 0)] [
      Node KAstTerminal [73;110;105;116] 17 (mkRange (mkPos 1 5) (mkPos 1 9)) [(0, AT (mkTok 17 (mkRange (mkPos 1 5) (mkPos 1 9)) TIdentifier [73;110;105;116]))] [];
      Node KAstMethodBody [109;101;116;104;111;100;95;98;111;100;121] 24 (mkRange (mkPos 2 2) (mkPos 4 7)) [] [
        Node KAstIfBlock [105;102] 24 (mkRange (mkPos 2 2) (mkPos 4 7)) [(5, AL [(mkTok 58 (mkRange (mkPos 4 2) (mkPos 4 7)) TEndIf [101;110;100;105;102])])] [
          Node KAstConditionalBlock [99;111;110;100;95;98;108;111;99;107] 24 (mkRange (mkPos 2 2) (mkPos 3 26)) [] [
            Node KAstTerminal [120] 27 (mkRange (mkPos 2 5) (mkPos 2 6)) [(0, AT (mkTok 27 (mkRange (mkPos 2 5) (mkPos 2 6)) TIdentifier [120]))] [];
            Node KAstUnaryOp [105;110;104;101;114;105;116;101;100] 33 (mkRange (mkPos 3 4) (mkPos 3 26)) [(4, AT (mkTok 33 (mkRange (mkPos 3 4) (mkPos 3 13)) TInherited [105;110;104;101;114;105;116;101;100]))] [
              Node KAstBinaryOp [46] 43 (mkRange (mkPos 3 14) (mkPos 3 26)) [(4, AT (mkTok 47 (mkRange (mkPos 3 18) (mkPos 3 19)) TDot [46]))] [
                Node KAstTerminal [83;69;76;70] 43 (mkRange (mkPos 3 14) (mkPos 3 18)) [(0, AT (mkTok 43 (mkRange (mkPos 3 14) (mkPos 3 18)) TIdentifier [83;69;76;70]))] [];
                Node KAstMethodCall [105;110;105;116] 48 (mkRange (mkPos 3 19) (mkPos 3 26)) [] [
                  Node KAstTerminal [49] 53 (mkRange (mkPos 3 24) (mkPos 3 25)) [(0, AT (mkTok 53 (mkRange (mkPos 3 24) (mkPos 3 25)) TNumericLiteral [49]))] []]]]]]]];
    Node KAstFunction [84;101;114;109;105;110;97;116;101] 72 (mkRange (mkPos 6 0) (mkPos 8 7)) [(5, AL [(mkTok 130 (mkRange (mkPos 8 0) (mkPos 8 7)) TEndFunc [101;110;100;102;117;110;99])]); (6, AN 0)] [
      Node KAstTerminal [84;101;114;109;105;110;97;116;101] 77 (mkRange (mkPos 6 5) (mkPos 6 14)) [(0, AT (mkTok 77 (mkRange (mkPos 6 5) (mkPos 6 14)) TIdentifier [84;101;114;109;105;110;97;116;101]))] [];
      Node KAstTypeBasic [105;110;116;52] 94 (mkRange (mkPos 6 22) (mkPos 6 26)) [(0, AT (mkTok 94 (mkRange (mkPos 6 22) (mkPos 6 26)) TIdentifier [105;110;116;52]))] [];
      Node KAstMethodBody [109;101;116;104;111;100;95;98;111;100;121] 101 (mkRange (mkPos 7 2) (mkPos 7 30)) [] [
        Node KAstBinaryOp [61] 101 (mkRange (mkPos 7 2) (mkPos 7 30)) [(4, AT (mkTok 103 (mkRange (mkPos 7 4) (mkPos 7 5)) TEquals [61]))] [
          Node KAstTerminal [120] 101 (mkRange (mkPos 7 2) (mkPos 7 3)) [(0, AT (mkTok 101 (mkRange (mkPos 7 2) (mkPos 7 3)) TIdentifier [120]))] [];
          Node KAstUnaryOp [105;110;104;101;114;105;116;101;100] 105 (mkRange (mkPos 7 6) (mkPos 7 30)) [(4, AT (mkTok 105 (mkRange (mkPos 7 6) (mkPos 7 15)) TInherited [105;110;104;101;114;105;116;101;100]))] [
            Node KAstBinaryOp [46] 115 (mkRange (mkPos 7 16) (mkPos 7 30)) [(4, AT (mkTok 119 (mkRange (mkPos 7 20) (mkPos 7 21)) TDot [46]))] [
              Node KAstTerminal [83;101;108;102] 115 (mkRange (mkPos 7 16) (mkPos 7 20)) [(0, AT (mkTok 115 (mkRange (mkPos 7 16) (mkPos 7 20)) TIdentifier [83;101;108;102]))] [];
              Node KAstTerminal [84;69;82;77;73;78;65;84;69] 120 (mkRange (mkPos 7 21) (mkPos 7 30)) [(0, AT (mkTok 120 (mkRange (mkPos 7 21) (mkPos 7 30)) TIdentifier [84;69;82;77;73;78;65;84;69]))] []]]]]];
    Node KAstProcedure [78;111;116;105;102;121;73;110;105;116] 138 (mkRange (mkPos 9 0) (mkPos 11 7)) [(5, AL [(mkTok 186 (mkRange (mkPos 11 0) (mkPos 11 7)) TEndProc [101;110;100;112;114;111;99])]); (6, AN 0)] [
      Node KAstTerminal [78;111;116;105;102;121;73;110;105;116] 143 (mkRange (mkPos 9 5) (mkPos 9 15)) [(0, AT (mkTok 143 (mkRange (mkPos 9 5) (mkPos 9 15)) TIdentifier [78;111;116;105;102;121;73;110;105;116]))] [];
      Node KAstMethodBody [109;101;116;104;111;100;95;98;111;100;121] 156 (mkRange (mkPos 10 2) (mkPos 10 31)) [] [
        Node KAstUnaryOp [105;110;104;101;114;105;116;101;100] 156 (mkRange (mkPos 10 2) (mkPos 10 31)) [(4, AT (mkTok 156 (mkRange (mkPos 10 2) (mkPos 10 11)) TInherited [105;110;104;101;114;105;116;101;100]))] [
          Node KAstBinaryOp [46] 166 (mkRange (mkPos 10 12) (mkPos 10 31)) [(4, AT (mkTok 181 (mkRange (mkPos 10 27) (mkPos 10 28)) TDot [46]))] [
            Node KAstBinaryOp [46] 166 (mkRange (mkPos 10 12) (mkPos 10 27)) [(4, AT (mkTok 170 (mkRange (mkPos 10 16) (mkPos 10 17)) TDot [46]))] [
              Node KAstTerminal [115;101;108;102] 166 (mkRange (mkPos 10 12) (mkPos 10 16)) [(0, AT (mkTok 166 (mkRange (mkPos 10 12) (mkPos 10 16)) TIdentifier [115;101;108;102]))] [];
              Node KAstTerminal [78;111;116;105;102;121;73;110;105;116] 171 (mkRange (mkPos 10 17) (mkPos 10 27)) [(0, AT (mkTok 171 (mkRange (mkPos 10 17) (mkPos 10 27)) TIdentifier [78;111;116;105;102;121;73;110;105;116]))] []];
            Node KAstTerminal [102;111;111] 182 (mkRange (mkPos 10 28) (mkPos 10 31)) [(0, AT (mkTok 182 (mkRange (mkPos 10 28) (mkPos 10 31)) TIdentifier [102;111;111]))] []]]]];
    Node KAstProcedure [78;111;116;105;102;121;84;101;114;109;105;110;97;116;101] 194 (mkRange (mkPos 12 0) (mkPos 14 7)) [(5, AL [(mkTok 250 (mkRange (mkPos 14 0) (mkPos 14 7)) TEndProc [101;110;100;112;114;111;99])]); (6, AN 0)] [
      Node KAstTerminal [78;111;116;105;102;121;84;101;114;109;105;110;97;116;101] 199 (mkRange (mkPos 12 5) (mkPos 12 20)) [(0, AT (mkTok 199 (mkRange (mkPos 12 5) (mkPos 12 20)) TIdentifier [78;111;116;105;102;121;84;101;114;109;105;110;97;116;101]))] [];
      Node KAstMethodBody [109;101;116;104;111;100;95;98;111;100;121] 217 (mkRange (mkPos 13 2) (mkPos 13 34)) [] [
        Node KAstUnaryOp [105;110;104;101;114;105;116;101;100] 217 (mkRange (mkPos 13 2) (mkPos 13 34)) [(4, AT (mkTok 217 (mkRange (mkPos 13 2) (mkPos 13 11)) TInherited [105;110;104;101;114;105;116;101;100]))] [
          Node KAstBinaryOp [46] 227 (mkRange (mkPos 13 12) (mkPos 13 34)) [(4, AT (mkTok 233 (mkRange (mkPos 13 18) (mkPos 13 19)) TDot [46]))] [
            Node KAstBinaryOp [46] 227 (mkRange (mkPos 13 12) (mkPos 13 18)) [(4, AT (mkTok 231 (mkRange (mkPos 13 16) (mkPos 13 17)) TDot [46]))] [
              Node KAstTerminal [115;101;108;102] 227 (mkRange (mkPos 13 12) (mkPos 13 16)) [(0, AT (mkTok 227 (mkRange (mkPos 13 12) (mkPos 13 16)) TIdentifier [115;101;108;102]))] [];
              Node KAstTerminal [120] 232 (mkRange (mkPos 13 17) (mkPos 13 18)) [(0, AT (mkTok 232 (mkRange (mkPos 13 17) (mkPos 13 18)) TIdentifier [120]))] []];
            Node KAstTerminal [78;111;116;105;102;121;84;101;114;109;105;110;97;116;101] 234 (mkRange (mkPos 13 19) (mkPos 13 34)) [(0, AT (mkTok 234 (mkRange (mkPos 13 19) (mkPos 13 34)) TIdentifier [78;111;116;105;102;121;84;101;114;109;105;110;97;116;101]))] []]]]];
    Node KAstProcedure [80] 258 (mkRange (mkPos 15 0) (mkPos 26 7)) [(5, AL [(mkTok 454 (mkRange (mkPos 26 0) (mkPos 26 7)) TEndProc [101;110;100;112;114;111;99])]); (6, AN 0)] [
      Node KAstTerminal [80] 263 (mkRange (mkPos 15 5) (mkPos 15 6)) [(0, AT (mkTok 263 (mkRange (mkPos 15 5) (mkPos 15 6)) TIdentifier [80]))] [];
      Node KAstMethodBody [109;101;116;104;111;100;95;98;111;100;121] 267 (mkRange (mkPos 16 2) (mkPos 25 13)) [] [
        Node KAstMethodCall [80;117;114;103;101] 267 (mkRange (mkPos 16 2) (mkPos 16 10)) [] [
          Node KAstTerminal [86] 273 (mkRange (mkPos 16 8) (mkPos 16 9)) [(0, AT (mkTok 273 (mkRange (mkPos 16 8) (mkPos 16 9)) TIdentifier [86]))] []];
        Node KAstLocalVariableDeclaration [118] 278 (mkRange (mkPos 17 2) (mkPos 17 23)) [(1, AT (mkTok 282 (mkRange (mkPos 17 6) (mkPos 17 7)) TIdentifier [118]))] [
          Node KAstTypeBasic [116;86;97;114;66;121;116;101;65;114;114;97;121] 286 (mkRange (mkPos 17 10) (mkPos 17 23)) [(0, AT (mkTok 286 (mkRange (mkPos 17 10) (mkPos 17 23)) TIdentifier [116;86;97;114;66;121;116;101;65;114;114;97;121]))] []];
        Node KAstLocalVariableDeclaration [117] 302 (mkRange (mkPos 18 2) (mkPos 18 23)) [(1, AT (mkTok 306 (mkRange (mkPos 18 6) (mkPos 18 7)) TIdentifier [117]))] [
          Node KAstTypeBasic [116;86;97;114;66;121;116;101;65;114;114;97;121] 310 (mkRange (mkPos 18 10) (mkPos 18 23)) [(0, AT (mkTok 310 (mkRange (mkPos 18 10) (mkPos 18 23)) TIdentifier [116;86;97;114;66;121;116;101;65;114;114;97;121]))] []];
        Node KAstLocalVariableDeclaration [117] 326 (mkRange (mkPos 19 2) (mkPos 19 23)) [(1, AT (mkTok 330 (mkRange (mkPos 19 6) (mkPos 19 7)) TIdentifier [117]))] [
          Node KAstTypeBasic [116;86;97;114;66;121;116;101;65;114;114;97;121] 334 (mkRange (mkPos 19 10) (mkPos 19 23)) [(0, AT (mkTok 334 (mkRange (mkPos 19 10) (mkPos 19 23)) TIdentifier [116;86;97;114;66;121;116;101;65;114;114;97;121]))] []];
        Node KAstLocalVariableDeclaration [119] 350 (mkRange (mkPos 20 2) (mkPos 20 23)) [(1, AT (mkTok 354 (mkRange (mkPos 20 6) (mkPos 20 7)) TIdentifier [119]))] [
          Node KAstTypeBasic [116;86;97;114;66;121;116;101;65;114;114;97;121] 358 (mkRange (mkPos 20 10) (mkPos 20 23)) [(0, AT (mkTok 358 (mkRange (mkPos 20 10) (mkPos 20 23)) TIdentifier [116;86;97;114;66;121;116;101;65;114;114;97;121]))] []];
        Node KAstLocalVariableDeclaration [119] 374 (mkRange (mkPos 21 2) (mkPos 21 23)) [(1, AT (mkTok 378 (mkRange (mkPos 21 6) (mkPos 21 7)) TIdentifier [119]))] [
          Node KAstTypeBasic [116;86;97;114;66;121;116;101;65;114;114;97;121] 382 (mkRange (mkPos 21 10) (mkPos 21 23)) [(0, AT (mkTok 382 (mkRange (mkPos 21 10) (mkPos 21 23)) TIdentifier [116;86;97;114;66;121;116;101;65;114;114;97;121]))] []];
        Node KAstIfBlock [105;102] 398 (mkRange (mkPos 22 2) (mkPos 24 7)) [(5, AL [(mkTok 434 (mkRange (mkPos 24 2) (mkPos 24 7)) TEndIf [101;110;100;105;102])])] [
          Node KAstConditionalBlock [99;111;110;100;95;98;108;111;99;107] 398 (mkRange (mkPos 22 2) (mkPos 23 28)) [] [
            Node KAstTerminal [120] 401 (mkRange (mkPos 22 5) (mkPos 22 6)) [(0, AT (mkTok 401 (mkRange (mkPos 22 5) (mkPos 22 6)) TIdentifier [120]))] [];
            Node KAstBinaryOp [46] 407 (mkRange (mkPos 23 4) (mkPos 23 28)) [(4, AT (mkTok 419 (mkRange (mkPos 23 16) (mkPos 23 17)) TDot [46]))] [
              Node KAstTerminal [79;99;115;66;121;116;101;65;114;114;97;121] 407 (mkRange (mkPos 23 4) (mkPos 23 16)) [(0, AT (mkTok 407 (mkRange (mkPos 23 4) (mkPos 23 16)) TIdentifier [79;99;115;66;121;116;101;65;114;114;97;121]))] [];
              Node KAstMethodCall [112;117;114;103;101] 420 (mkRange (mkPos 23 17) (mkPos 23 28)) [] [
                Node KAstTerminal [85] 426 (mkRange (mkPos 23 23) (mkPos 23 24)) [(0, AT (mkTok 426 (mkRange (mkPos 23 23) (mkPos 23 24)) TIdentifier [85]))] [];
                Node KAstTerminal [50] 429 (mkRange (mkPos 23 26) (mkPos 23 27)) [(0, AT (mkTok 429 (mkRange (mkPos 23 26) (mkPos 23 27)) TNumericLiteral [50]))] []]]]];
        Node KAstMethodCall [80;117;114;103;101] 442 (mkRange (mkPos 25 2) (mkPos 25 13)) [] [
          Node KAstTerminal [49] 448 (mkRange (mkPos 25 8) (mkPos 25 9)) [(0, AT (mkTok 448 (mkRange (mkPos 25 8) (mkPos 25 9)) TNumericLiteral [49]))] [];
          Node KAstTerminal [119] 451 (mkRange (mkPos 25 11) (mkPos 25 12)) [(0, AT (mkTok 451 (mkRange (mkPos 25 11) (mkPos 25 12)) TIdentifier [119]))] []]]]].

