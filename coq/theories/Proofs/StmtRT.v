(* C06: statements round-trip.  A declarative grammar of statement forms ([Stmt], [Seq] for
   statement sequences, [IfTail] for the elseif/else chain), level by level along the knot [gram],
   and the theorem [gram_stmt_rt]: g_stmt (gram f) accepts every derivable statement followed by
   anything a statement may be followed by, returns the derived tree, consumes exactly the derived
   tokens, adds no diagnostic.
   PROVED statement forms: assignment (= += -= :=) to a dot chain, expression statement (dot chain /
   call, postfix ++ --), return, exit/break/continue, comment, local variable with a basic type,
   while / loop / repeat-until / for (to / downto, optional step) / if-elseif-else blocks with arbitrary nested statement sequences.
   NOT proved here (correspondence only): foreach, switch/when, OQL, const/uses/type inside
   bodies, non-basic types.
   A comment statement is only derivable when what follows it is not a block keyword or a block
   terminator: there the parser swallows the comment (exp_token skips comments), see
   C06_comment_node_dropped_before_block in Properties/C06.v (a documented fact: comments are layout for C06). *)
From GoldV Require Import Base Tokens Lexer AstKinds Tree Strings PComb Grammar Ladder RTComb LadderProofs ExprRT TypeRT OqlRT.
From Coq Require Import Lia.

Definition block_first : list ttype := [TIf; TFor; TForEach; TWhile; TLoop; TSwitch; TRepeat].
Definition simple_kw_first : list ttype := [TVar; TConst; TReturn; TExit; TBreak; TContinue; TOQL; TUses; TType].
Definition stmt_first : list ttype := TIdentifier :: block_first ++ simple_kw_first.
Definition stops : list ttype :=
  [TElseIf; TElse; TEndIf; TEnd; TEndWhile; TEndLoop; TUntil; TEndFor; TEndWhen; TEndSwitch; TWhen; TEndProc; TEndFunc].
Definition assign_ops : list ttype := [TEquals; TDecrementAssign; TIncrementAssign; TDeepAssign].

(* conditions on the type of the first non-comment token of what follows a statement *)
Definition sfollow_h (h : option ttype) : Prop :=
  match h with None => True | Some ty => In ty (stmt_first ++ stops) end.
Definition cmt_h (h : option ttype) : Prop :=
  match h with None => True | Some ty => ~ In ty (block_first ++ stops) end.
(* [follow_ok ts h]: a statement with tokens ts may be followed by something whose head type is h;
   a comment (hd_ty ts = None) must not be followed by a block keyword or a terminator *)
Definition follow_ok (ts : list tok) (h : option ttype) : Prop :=
  sfollow_h h /\ (hd_ty ts = None -> cmt_h h).

Definition hd_or (a h : option ttype) : option ttype := match a with Some x => Some x | None => h end.

(* statement sequences over a statement relation R; h = head type of what follows the sequence *)
Inductive Seq (R : rel) (h : option ttype) : list tok -> list node -> Prop :=
| Seq_nil : Seq R h [] []
| Seq_cons ts n ts' ns : R ts n -> Seq R h ts' ns -> follow_ok ts (hd_or (hd_ty ts') h) ->
    Seq R h (ts ++ ts') (n :: ns).

Lemma Seq_mono (R R' : rel) h ts ns : rel_le R R' -> Seq R h ts ns -> Seq R' h ts ns.
Proof. intro H. induction 1; [apply Seq_nil|apply Seq_cons; auto]. Qed.

(* ---------- first-token facts ---------- *)

Lemma sfollow_nostart X more : disj_b X (stmt_first ++ stops) = true -> sfollow_h (hd_ty more) -> nostart X more.
Proof.
  intros Hd Hs ty Hh Hx. rewrite Hh in Hs. simpl in Hs. apply (disj_b_spec _ _ _ Hd Hx Hs).
Qed.

Lemma sfollow_efollow more : sfollow_h (hd_ty more) -> efollow more.
Proof. intro H. split; apply sfollow_nostart; [reflexivity|exact H|reflexivity|exact H]. Qed.


(* the first non-comment token of i, if any, has a type in S *)
Definition heads (S : list ttype) (i : input) : Prop := forall ty, hd_ty i = Some ty -> In ty S.

Lemma heads_nostart S X i : heads S i -> disj_b X S = true -> nostart X i.
Proof. intros H Hd ty Hh Hx. apply (disj_b_spec _ _ _ Hd Hx). apply H. exact Hh. Qed.

Lemma heads_tok S t r : In (tty t) S -> tty t <> TComment -> heads S (t :: r).
Proof. intros H Hc ty Hh. rewrite hd_ty_cons in Hh by exact Hc. inversion Hh; subst. exact H. Qed.

Lemma heads_weaken S S' i : (forall x, In x S -> In x S') -> heads S i -> heads S' i.
Proof. intros Hi H ty Hh. apply Hi. apply H. exact Hh. Qed.

Lemma sfollow_heads i : sfollow_h (hd_ty i) -> heads (stmt_first ++ stops) i.
Proof. intros H ty Hh. rewrite Hh in H. exact H. Qed.

Lemma head_in_hd F ts more : head_in F ts -> mem_ty TComment F = false -> exists ty, hd_ty (ts ++ more) = Some ty /\ In ty F.
Proof.
  intros (t & r & -> & H) Hc. exists (tty t). split; [|exact H]. cbn [app]. apply hd_ty_cons.
  intro X. rewrite X in H. apply (mem_ty_false _ _ Hc H).
Qed.

Lemma head_in_nostart F X ts more : head_in F ts -> disj_b F (TComment :: X) = true -> nostart X (ts ++ more).
Proof. intros (t & r & -> & H) Hd. cbn [app]. eapply starts_nostart; eauto. Qed.

(* ---------- node builders ---------- *)

Definition mk_return (rt : tok) (e : node) : node :=
  Node KAstReturnNode S_return (traw rt) (new_range (trange rt) (nrange e)) [] [e].
Definition mk_comment (t : tok) : node := Node KAstComment S_comment (traw t) (trange t) [(K_str, AS (tval t))] [].
Definition mk_local_var (vt id : tok) (ty : node) : node :=
  Node KAstLocalVariableDeclaration (tval id) (traw vt) (new_range (trange vt) (nrange ty)) [(K_ident, AT id)] [ty].
Definition mk_while (wt : tok) (cond : node) (stmts : list node) (e : tok) : node :=
  let r := new_range (trange wt) (trange e) in
  Node KAstWhileBlock S_while (traw wt) r [(K_end, AL [e])] [cb_node (mkCB (nraw cond) r (Some cond) stmts)].
Definition mk_loop (lt : tok) (stmts : list node) (e : tok) : node :=
  Node KAstLoopBlock S_loop (traw lt) (new_range (trange lt) (trange e)) [(K_end, AL [e])] stmts.
Definition mk_repeat (rt : tok) (stmts : list node) (u : tok) (cond : node) : node :=
  let r := new_range (trange rt) (nrange cond) in
  Node KAstRepeatBlock S_repeat (traw rt) r [(K_end, AL [u])] [cb_node (mkCB (traw rt) r (Some cond) stmts)].
Definition mk_uses (ut : tok) (ids : list tok) : node :=
  let end_ := match rev ids with t :: _ => rend (trange t) | [] => rend (trange ut) end in
  Node KAstUses S_uses (traw ut) (mkRange (tpos ut) end_) [(K_uses, AL ids)] [].
Definition mk_const_ml (ct id v : tok) (ml : option tok) : node :=
  Node KAstConstantDeclaration (tval id) (traw ct) (range_of_toks ct v)
       [(K_ident, AT id); (K_flags, AN (b2n (match ml with Some _ => true | None => false end))); (K_value, AL [v])] [].
Definition mk_const (ct id v : tok) : node :=
  Node KAstConstantDeclaration (tval id) (traw ct) (range_of_toks ct v)
       [(K_ident, AT id); (K_flags, AN 0); (K_value, AL [v])] [].
Definition mk_type_decl (tk id : tok) (ty : node) : node :=
  Node KAstTypeDeclaration (tval id) (traw tk) (mkRange (tpos tk) (rend (nrange ty))) [(K_ident, AT id)] [ty].
Definition mk_local_var_abs (vt id : tok) (ty : node) (an : tok) : node :=
  Node KAstLocalVariableDeclaration (tval id) (traw vt) (new_range (trange vt) (trange an)) [(K_ident, AT id)] [ty; mk_terminal an].
Definition mk_foreach (ft : tok) (ie : node) (dt : option tok) (uv : option tok) (stmts : list node) (e : tok) : node :=
  Node KAstForEachBlock S_foreach (traw ft) (new_range (trange ft) (trange e))
       [(K_end, AL [e]); (K_flags, AN (match dt with Some _ => 1 | None => 0 end))]
       (ie :: opt_list (option_map mk_terminal uv) ++ stmts).
Definition mk_when (wt : tok) (we : node) (stmts : list node) (e : tok) : node :=
  Node KAstWhenBlock S_when_block (traw wt) (new_range (trange wt) (trange e)) [] (we :: stmts).
Definition mk_when_values (items : list node) : node :=
  match items with
  | first :: _ => let last := match rev items with n :: _ => n | [] => first end in
                  Node KAstSetLiteral S_set_literal (nraw first) (new_range (nrange first) (nrange last)) [] items
  | [] => mk_empty_default
  end.
Definition mk_switch_else (et : tok) (stmts : list node) (e : tok) : node :=
  Node KAstWhenBlock S_when_block (traw et) (new_range (trange et) (trange e)) [] stmts.
Definition mk_switch (st : tok) (se : node) (whens : list node) (els : option node) (e : tok) : node :=
  Node KAstSwitchBlock S_switch (traw st) (new_range (trange st) (trange e)) [(K_end, AL [e])] (se :: whens ++ opt_list els).
Definition mk_for (ft vt : tok) (rn : node) (se : option node) (stmts : list node) (e : tok) : node :=
  Node KAstForBlock S_for (traw ft) (new_range (trange ft) (trange e)) [(K_ident, AT vt); (K_end, AL [e])]
       (rn :: opt_list se ++ stmts).
Definition cb_add (b : cblock) (ns : list node) : cblock :=
  mkCB (cb_raw b) (cb_range b) (cb_cond b) (cb_stmts b ++ ns).
Definition mk_if (it : tok) (cond : node) (blocks : list cblock) (e : tok) : node :=
  Node KAstIfBlock S_if (traw it) (new_range (new_range (trange it) (nrange cond)) (trange e))
       [(K_end, AL [e])] (map cb_node blocks).

(* ---------- the statement dispatcher ---------- *)

Definition stmt_body_shape (ps qs : list (P node)) : P node :=
  fun i c =>
    match try_blocks ps None i c with
    | (Ok r (Some n, _), c1) => (Ok r n, c1)
    | (Ok _ (None, best), c1) =>
        match alt qs i c1 with
        | (Err e m, c2) =>
            match best with
            | Some (be, bm) => if ilen e <? ilen be then (Err e m, c2) else (Err be bm, c2)
            | None => (Err e m, c2)
            end
        | r => r
        end
    | (Err e m, c1) => (Err e m, c1)
    | (Panic s, c1) => (Panic s, c1)
    | (NoFuel, c1) => (NoFuel, c1)
    end.

Lemma try_blocks_none ps i : Forall (fun q => Fails q i) ps -> forall best c, cmemo c = false ->
  exists b c', try_blocks ps best i c = (Ok i (None, b), c') /\ quiet c c'.
Proof.
  induction 1 as [|p ps Hp Hps IH]; intros best c Hc; cbn [try_blocks].
  - eexists _, c. split; [reflexivity|apply quiet_refl].
  - destruct (Hp c Hc) as (x & c1 & E & Q & e & m & ->). rewrite E.
    match goal with |- context [try_blocks ps ?b] => destruct (IH b c1 (quiet_memo _ _ Hc Q)) as (b' & c2 & E2 & Q2) end.
    eexists _, c2. split; [exact E2|apply (quiet_trans _ _ _ Q Q2)].
Qed.

Lemma try_blocks_some ps1 p ps2 i r n : Forall (fun q => Fails q i) ps1 -> Parses p i r n -> forall best c, cmemo c = false ->
  exists b c', try_blocks (ps1 ++ p :: ps2) best i c = (Ok r (Some n, b), c') /\ quiet c c'.
Proof.
  induction 1 as [|q ps Hq Hps IH]; intros Hp best c Hc; cbn [try_blocks app].
  - destruct (Hp c Hc) as (x & c1 & E & Q & ->). rewrite E. eexists _, c1. split; [reflexivity|exact Q].
  - destruct (Hq c Hc) as (x & c1 & E & Q & e & m & ->). rewrite E.
    match goal with |- context [try_blocks _ ?b] => destruct (IH Hp b c1 (quiet_memo _ _ Hc Q)) as (b' & c2 & E2 & Q2) end.
    eexists _, c2. split; [exact E2|apply (quiet_trans _ _ _ Q Q2)].
Qed.

Lemma shape_block ps1 p ps2 qs i r n : Forall (fun q => Fails q i) ps1 -> Parses p i r n ->
  Parses (stmt_body_shape (ps1 ++ p :: ps2) qs) i r n.
Proof.
  intros H1 Hp c Hc. destruct (try_blocks_some ps1 p ps2 i r n H1 Hp None c Hc) as (b & c1 & E & Q).
  unfold stmt_body_shape. rewrite E. eexists _, c1. split; [reflexivity|]. split; [exact Q|reflexivity].
Qed.

Lemma shape_simple ps qs i r n : Forall (fun q => Fails q i) ps -> Parses (alt qs) i r n ->
  Parses (stmt_body_shape ps qs) i r n.
Proof.
  intros H1 Hp c Hc. destruct (try_blocks_none ps i H1 None c Hc) as (b & c1 & E & Q).
  destruct (Hp c1 (quiet_memo _ _ Hc Q)) as (x & c2 & E2 & Q2 & ->).
  unfold stmt_body_shape. rewrite E, E2. eexists _, c2. split; [reflexivity|]. split; [apply (quiet_trans _ _ _ Q Q2)|reflexivity].
Qed.

(* ---------- if_loop, one step at a time ---------- *)

Definition if_stops : list ttype := [TElseIf; TElse; TEndIf; TEnd].

Lemma if_loop_end pe rs f it cur done i c r nodes t c1 : i <> [] ->
  until_w_ctx (tok_alt if_stops) rs i c = (Ok r (nodes, Some t), c1) ->
  tt_eqb (tty t) TEndIf || tt_eqb (tty t) TEnd = true ->
  if_loop pe rs (S f) it cur done i c = (Ok r (cb_update (cb_add cur nodes), done, Some t), c1).
Proof.
  intros Hi H0 H1. destruct i; [congruence|]. cbn [if_loop]. unfold if_stops in H0. rewrite H0, H1. reflexivity.
Qed.

Lemma if_loop_elseif pe rs f it cur done i c r nodes t c1 : i <> [] ->
  until_w_ctx (tok_alt if_stops) rs i c = (Ok r (nodes, Some t), c1) -> tty t = TElseIf ->
  if_loop pe rs (S f) it cur done i c =
  match pe r c1 with
  | (Ok r2 cond, c2) => if_loop pe rs f it (mkCB (traw t) (trange t) (Some cond) []) (done ++ [cb_update (cb_add cur nodes)]) r2 c2
  | (Err e m, c2) => (Err e m, c2)
  | (Panic s, c2) => (Panic s, c2)
  | (NoFuel, c2) => (NoFuel, c2)
  end.
Proof.
  intros Hi H0 H1. destruct i; [congruence|]. cbn [if_loop]. unfold if_stops in H0. rewrite H0, H1. reflexivity.
Qed.

Lemma if_loop_else pe rs f it cur done i c r nodes t c1 : i <> [] ->
  until_w_ctx (tok_alt if_stops) rs i c = (Ok r (nodes, Some t), c1) -> tty t = TElse ->
  if_loop pe rs (S f) it cur done i c =
  if_loop pe rs f it (mkCB (traw t) (trange t) None []) (done ++ [cb_update (cb_add cur nodes)]) r c1.
Proof.
  intros Hi H0 H1. destruct i; [congruence|]. cbn [if_loop]. unfold if_stops in H0. rewrite H0, H1. reflexivity.
Qed.

(* ---------- one level ---------- *)

Section StmtLevel.
  Variable f : nat.                      (* statements of gram level (S f) *)
  Variable RS : rel.                     (* statements derivable one level down (block bodies) *)
  Let pt := g_type (gram (S f)).
  Let pe := g_expr (gram (S f)).
  Let pd := parse_dot_ops (g_expr (gram f)).
  Let pc := parse_compare (g_primary (gram (S f))).
  Let rs := g_stmt (gram f).
  Hypothesis Hrs : forall ts n more, RS ts n -> follow_ok ts (hd_ty more) -> jfollow more -> Parses rs (ts ++ more) more n.
  Hypothesis RS_head : forall ts n, RS ts n -> ts <> [] /\ (forall ty, hd_ty ts = Some ty -> In ty stmt_first).
  (* no statement starts with an OQL join word (outerjoinon ...): a from-item in front of it would take it for a join *)
  Hypothesis RS_j : forall ts n, RS ts n -> jfollow ts.

  Definition blocks : list (P node) :=
    [parse_if_block pe rs; parse_for_block pe rs; parse_foreach_block pe pd pc rs; parse_while_block pe rs;
     parse_loop_block rs; parse_switch_block pe rs; parse_repeat_block pe rs].
  Definition simples : list (P node) :=
    [parse_comment; parse_uses; parse_constant_declaration; parse_type_declaration pt;
     parse_local_var_decl pt; parse_control_statements pe; parse_oql_expr pe pd pc; parse_assignment pe pd; pe].

  Lemma stmt_is_shape : g_stmt (gram (S f)) = stmt_body_shape blocks simples.
  Proof. reflexivity. Qed.

  (* every block parser fails on an input that does not start with its keyword *)
  Lemma blocks_fail i : nostart block_first i -> Forall (fun q => Fails q i) blocks.
  Proof.
    intro H. unfold blocks. repeat (apply Forall_cons || apply Forall_nil);
      [unfold parse_if_block|unfold parse_for_block|unfold parse_foreach_block|unfold parse_while_block
      |unfold parse_loop_block|unfold parse_switch_block|unfold parse_repeat_block];
      apply Fails_bind_l; eapply FailsAt_Fails; (apply exp_token_nostart; [discriminate|]); sub_nostart H.
  Qed.

  (* the if / elseif / else chain, as if_loop walks it.
     IfTail k cur ts (pre, last, e): k clauses; from the block [cur] being filled, the tokens ts (bodies,
     elseif/else headers, end token e) produce the finished blocks pre ++ [last] *)
  Inductive IfTail : nat -> cblock -> list tok -> list cblock * cblock * tok -> Prop :=
  | IT_end cur body ns e : Seq RS (Some (tty e)) body ns -> In (tty e) [TEndIf; TEnd] ->
      IfTail 0 cur (body ++ [e]) ([], cb_update (cb_add cur ns), e)
  | IT_elseif k cur body ns t cts cn tail pre last e :
      Seq RS (Some TElseIf) body ns -> tty t = TElseIf -> GExpr (S f) cts cn ->
      IfTail k (mkCB (traw t) (trange t) (Some cn) []) tail (pre, last, e) ->
      IfTail (S k) cur (body ++ t :: cts ++ tail) (cb_update (cb_add cur ns) :: pre, last, e)
  | IT_else k cur body ns t tail pre last e :
      Seq RS (Some TElse) body ns -> tty t = TElse ->
      IfTail k (mkCB (traw t) (trange t) None []) tail (pre, last, e) ->
      IfTail (S k) cur (body ++ t :: tail) (cb_update (cb_add cur ns) :: pre, last, e).

  (* the value list / range of a `when` *)
  Inductive WVal : list tok -> node -> Prop :=
  | WV_tok t : In (tty t) (literal_types ++ ident_types) -> WVal [t] (mk_terminal t).
  Definition WhenVals : list tok -> list node -> Prop := Args TComma WVal.
  Inductive WhenExpr : list tok -> node -> Prop :=
  | WE_range lo k hi : In (tty lo) literal_types -> tty k = TTo -> In (tty hi) literal_types ->
      WhenExpr [lo; k; hi] (mk_binop k (mk_terminal lo) (mk_terminal hi))
  | WE_values ts ns : WhenVals ts ns -> WhenExpr ts (mk_when_values ns).
  (* when-blocks of a switch *)
  Inductive Whens : list tok -> list node -> Prop :=
  | Wh_nil : Whens [] []
  | Wh_cons wt wets we body ns e rest ws : tty wt = TWhen -> WhenExpr wets we -> Seq RS (Some TEndWhen) body ns ->
      tty e = TEndWhen -> Whens rest ws -> Whens (wt :: wets ++ body ++ e :: rest) (mk_when wt we ns e :: ws).
  (* the optional else part (its statements run up to endswitch) *)
  Inductive SwitchElse : list tok -> option (tok * list node) -> Prop :=
  | SE_none : SwitchElse [] None
  | SE_some et body ns : tty et = TElse -> Seq RS (Some TEndSwitch) body ns -> SwitchElse (et :: body) (Some (et, ns)).

  Inductive Stmt : list tok -> node -> Prop :=
  | S_assign tl nl op tr nr : GDots (S f) tl nl -> head_in [TIdentifier] tl -> jfollow tl -> In (tty op) assign_ops ->
      GExpr (S f) tr nr -> Stmt (tl ++ op :: tr) (mk_binop op nl nr)
  | S_call ts n : GDots (S f) ts n -> head_in [TIdentifier] ts -> jfollow ts -> Stmt ts n
  | S_post ts n op : GDots (S f) ts n -> head_in [TIdentifier] ts -> jfollow ts -> In (tty op) postfix_types ->
      Stmt (ts ++ [op]) (mk_unary_post n op)
  | S_return rt ts n : tty rt = TReturn -> GExpr (S f) ts n -> Stmt (rt :: ts) (mk_return rt n)
  | S_control t : In (tty t) [TExit; TBreak; TContinue] -> Stmt [t] (mk_terminal t)
  | S_comment c : tty c = TComment -> Stmt [c] (mk_comment c)
  | S_var vt id col tts tn : tty vt = TVar -> tty id = TIdentifier -> tty col = TColon -> GType (S f) tts tn ->
      Stmt (vt :: id :: col :: tts) (mk_local_var vt id tn)
  | S_while wt cts cn body ns e : tty wt = TWhile -> GExpr (S f) cts cn -> Seq RS (Some (tty e)) body ns ->
      In (tty e) [TEndWhile; TEnd] -> Stmt (wt :: cts ++ body ++ [e]) (mk_while wt cn ns e)
  | S_loop lt body ns e : tty lt = TLoop -> Seq RS (Some (tty e)) body ns -> In (tty e) [TEndLoop; TEnd] ->
      Stmt (lt :: body ++ [e]) (mk_loop lt ns e)
  | S_repeat rt body ns u cts cn : tty rt = TRepeat -> Seq RS (Some TUntil) body ns -> tty u = TUntil ->
      GExpr (S f) cts cn -> Stmt (rt :: body ++ u :: cts) (mk_repeat rt ns u cn)
  | S_for ft vt eq lts ln top hts hn body ns e : tty ft = TFor -> tty vt = TIdentifier -> tty eq = TEquals ->
      GExpr (S f) lts ln -> In (tty top) [TTo; TDownTo] -> GExpr (S f) hts hn ->
      Seq RS (Some (tty e)) body ns -> In (tty e) [TEndFor; TEnd] ->
      Stmt (ft :: vt :: eq :: lts ++ top :: hts ++ body ++ [e]) (mk_for ft vt (mk_binop top ln hn) None ns e)
  | S_for_step ft vt eq lts ln top hts hn stp sts sn body ns e : tty ft = TFor -> tty vt = TIdentifier -> tty eq = TEquals ->
      GExpr (S f) lts ln -> In (tty top) [TTo; TDownTo] -> GExpr (S f) hts hn -> tty stp = TStep -> GExpr (S f) sts sn ->
      Seq RS (Some (tty e)) body ns -> In (tty e) [TEndFor; TEnd] ->
      Stmt (ft :: vt :: eq :: lts ++ top :: hts ++ stp :: sts ++ body ++ [e])
           (mk_for ft vt (mk_binop top ln hn) (Some sn) ns e)
  | S_var_abs vt id col tts tn ak an : tty vt = TVar -> tty id = TIdentifier -> tty col = TColon -> GType (S f) tts tn ->
      tty ak = TAbsolute -> In (tty an) ident_types -> Stmt (vt :: id :: col :: tts ++ [ak; an]) (mk_local_var_abs vt id tn an)
  | S_uses ut ts ids : tty ut = TUses -> TokList TIdentifier TComma ts ids -> Stmt (ut :: ts) (mk_uses ut ids)
  | S_const ct id eq v ml : tty ct = TConst -> tty id = TIdentifier -> tty eq = TEquals ->
      In (tty v) [TStringLiteral; TNumericLiteral] -> match ml with Some m => tty m = TMultiLang | None => True end ->
      Stmt (ct :: id :: eq :: v :: opt_list ml) (mk_const_ml ct id v ml)
  | S_typedecl tk id col tts tn : tty tk = TType -> tty id = TIdentifier -> tty col = TColon -> GType (S f) tts tn ->
      Stmt (tk :: id :: col :: tts) (mk_type_decl tk id tn)
  | S_foreach ft ets en dt ut body ns e : tty ft = TForEach -> GExpr (S f) ets en ->
      match dt with Some d => tty d = TDownTo | None => True end ->
      match ut with Some (uk, uv) => tty uk = TUsing /\ In (tty uv) ident_types | None => True end ->
      Seq RS (Some (tty e)) body ns -> In (tty e) [TEndFor; TEnd] ->
      Stmt (ft :: ets ++ opt_list dt ++ (match ut with Some (uk, uv) => [uk; uv] | None => [] end) ++ body ++ [e])
           (mk_foreach ft en dt (option_map snd ut) ns e)
  | S_switch st ets en wts whens elts els e : tty st = TSwitch -> GExpr (S f) ets en -> Whens wts whens ->
      SwitchElse elts els -> tty e = TEndSwitch ->
      Stmt (st :: ets ++ wts ++ elts ++ [e]) (mk_switch st en whens (option_map (fun x => mk_switch_else (fst x) (snd x) e) els) e)
  | S_oql ts n : OqlStmt (GExpr (S f)) (GDots (S f)) (GExprK (S f) 2) ts n -> Stmt ts n
  | S_if it cts cn k tail pre last e : tty it = TIf -> GExpr (S f) cts cn ->
      IfTail k (mkCB (traw it) (new_range (trange it) (trange it)) (Some cn) []) tail (pre, last, e) ->
      Stmt (it :: cts ++ tail) (mk_if it cn (pre ++ [last]) e).

  (* ---------- heads ---------- *)

  Lemma GDots_head ts n more : GDots (S f) ts n -> head_in [TIdentifier] ts -> hd_ty (ts ++ more) = Some TIdentifier.
  Proof. intros _ (t & r & -> & [H|[]]). cbn [app]. rewrite hd_ty_cons; [congruence|]. rewrite <- H. discriminate. Qed.

  Lemma Stmt_head ts n : Stmt ts n -> ts <> [] /\ (forall ty, hd_ty ts = Some ty -> In ty stmt_first).
  Proof.
    assert (forall t r ty0, tty t = ty0 -> mem_ty ty0 stmt_first = true -> ty0 <> TComment ->
              t :: r <> [] /\ (forall ty, hd_ty (t :: r) = Some ty -> In ty stmt_first)) as K.
    { intros t r ty0 E M C. split; [discriminate|]. intros ty Hh. rewrite hd_ty_cons in Hh by congruence.
      inversion Hh; subst. apply mem_ty_In. exact M. }
    intro H. destruct H.
    - destruct H0 as (t & r & -> & [E|[]]). cbn [app]. eapply K; [symmetry; exact E|reflexivity|discriminate].
    - destruct H0 as (t & r & -> & [E|[]]). eapply K; [symmetry; exact E|reflexivity|discriminate].
    - destruct H0 as (t & r & -> & [E|[]]). cbn [app]. eapply K; [symmetry; exact E|reflexivity|discriminate].
    - eapply K; [exact H|reflexivity|discriminate].
    - destruct H as [E|[E|[E|[]]]]; (eapply K; [symmetry; exact E|reflexivity|discriminate]).
    - split; [discriminate|]. intros ty Hh. simpl in Hh. unfold is_comment in Hh. rewrite H, tt_eqb_refl in Hh. discriminate.
    - eapply K; [exact H|reflexivity|discriminate].
    - eapply K; [exact H|reflexivity|discriminate].
    - eapply K; [exact H|reflexivity|discriminate].
    - eapply K; [exact H|reflexivity|discriminate].
    - eapply K; [exact H|reflexivity|discriminate].
    - eapply K; [exact H|reflexivity|discriminate].
    - eapply K; [exact H|reflexivity|discriminate].
    - eapply K; [exact H|reflexivity|discriminate].
    - eapply K; [exact H|reflexivity|discriminate].
    - eapply K; [exact H|reflexivity|discriminate].
    - eapply K; [exact H|reflexivity|discriminate].
    - eapply K; [exact H|reflexivity|discriminate].
    - destruct H; (eapply K; [eassumption|reflexivity|discriminate]).
    - eapply K; [exact H|reflexivity|discriminate].
  Qed.

  Lemma jfollow_app a b : jfollow a -> (hd_tok a = None -> jfollow b) -> jfollow (a ++ b).
  Proof.
    unfold jfollow. induction a as [|t a IH]; cbn [app hd_tok]; intros Ha Hb; [apply Hb; reflexivity|].
    destruct (is_comment t); [apply IH; assumption|exact Ha].
  Qed.

  Lemma jfollow_kw t r : tty t <> TComment -> tty t <> TIdentifier -> jfollow (t :: r).
  Proof. apply jfollow_ty. Qed.

  Lemma ident_head_tok tl : head_in [TIdentifier] tl -> hd_tok tl <> None.
  Proof.
    intros (t & r & -> & [E|[]]). simpl. unfold is_comment. rewrite <- E. cbn. discriminate.
  Qed.

  Lemma Stmt_j ts n : Stmt ts n -> jfollow ts.
  Proof.
    intro H. destruct H; try assumption;
      try (match goal with |- jfollow (?t :: _) => apply jfollow_kw; [congruence|congruence] end).
    - apply jfollow_app; [assumption|]. intro X. exfalso. eapply ident_head_tok; eauto.
    - apply jfollow_app; [assumption|]. intro X. exfalso. eapply ident_head_tok; eauto.
    - apply jfollow_kw; intro X; rewrite X in H; simpl in H; intuition discriminate.
    - unfold jfollow. simpl. unfold is_comment. rewrite H, tt_eqb_refl. exact I.
    - destruct H; apply jfollow_kw; congruence.
  Qed.

  Lemma Seq_j h body ns more : Seq RS h body ns -> jfollow more -> jfollow (body ++ more).
  Proof.
    intros H Hm. induction H as [|ts n ts' ns Hn Hseq IH Hfo]; [exact Hm|].
    rewrite <- app_assoc. apply jfollow_app; [apply (RS_j _ _ Hn)|]. intros _. exact IH.
  Qed.

  (* head type of a sequence followed by something with head h *)
  Lemma Seq_hd h body ns more : Seq RS h body ns -> hd_ty more = h -> sfollow_h h ->
    sfollow_h (hd_ty (body ++ more)).
  Proof.
    intros H Hm Hs. induction H as [|ts n ts' ns Hn Hseq IH Hfo]; [cbn [app]; rewrite Hm; exact Hs|].
    rewrite <- app_assoc, hd_ty_app. destruct (hd_ty ts) as [ty|] eqn:E.
    - cbn [sfollow_h]. apply in_or_app. left. apply (proj2 (RS_head _ _ Hn)). exact E.
    - exact IH.
  Qed.

  Lemma Seq_length h body ns : Seq RS h body ns -> (length ns <= length body)%nat.
  Proof.
    induction 1 as [|ts n ts' ns Hn Hseq IH Hfo]; [simpl; lia|]. rewrite app_length. simpl.
    destruct (RS_head _ _ Hn) as [Hne _]. destruct ts; [congruence|simpl; lia].
  Qed.

  (* a sequence followed by a stop token (or by nothing) is walked by the loops of the combinator library *)
  Lemma Seq_chain (stop : P tok) (stopset : list ttype) h body ns more :
    Seq RS h body ns -> hd_ty more = h -> jfollow more ->
    (forall i, nostart stopset i -> Fails stop i) -> disj_b stmt_first (TComment :: stopset) = true ->
    (forall x, In x stopset -> In x (block_first ++ stops)) ->
    Chain rs stop more (body ++ more) ns.
  Proof.
    intros H Hm Hjm Hstop Hd Hsub. induction H as [|ts n ts' ns Hn Hseq IH Hfo]; [apply Ch_nil|].
    rewrite <- app_assoc. destruct (RS_head _ _ Hn) as [Hne Hhd].
    assert (hd_ty (ts' ++ more) = hd_or (hd_ty ts') h) as Hh by (rewrite hd_ty_app, Hm; reflexivity).
    eapply Ch_cons; [destruct ts; [congruence|discriminate]| |apply Hrs; [exact Hn|rewrite Hh; exact Hfo|eapply Seq_j; eassumption]|exact IH].
    apply Hstop. intros ty Hty Hin. rewrite hd_ty_app in Hty. destruct (hd_ty ts) as [ty'|] eqn:E.
    - inversion Hty; subst. apply (disj_b_spec _ _ _ Hd (Hhd _ eq_refl)). right. exact Hin.
    - destruct Hfo as [_ Hc]. specialize (Hc E). rewrite <- Hh, Hty in Hc. cbn [cmt_h] in Hc. apply Hc. apply Hsub. exact Hin.
  Qed.

  Lemma stop_tok_alt stopset : stopset <> [] -> mem_ty TComment stopset = false ->
    forall i, nostart stopset i -> Fails (tok_alt stopset) i.
  Proof. intros Hne Hc i H. eapply FailsAt_Fails. apply tok_alt_nostart; assumption. Qed.

  Lemma stop_exp_token ty : ty <> TComment -> forall i, nostart [ty] i -> Fails (exp_token ty) i.
  Proof. intros Hc i H. eapply FailsAt_Fails. apply exp_token_nostart; assumption. Qed.

  (* body ++ [e] ++ rest under until_w_ctx *)
  Lemma body_until (stop : P tok) (stopset : list ttype) body ns e rest :
    Seq RS (Some (tty e)) body ns -> In (tty e) stopset ->
    (forall i, nostart stopset i -> Fails stop i) -> Parses stop (e :: rest) rest e ->
    disj_b stmt_first (TComment :: stopset) = true -> mem_ty TComment stopset = false ->
    (forall x, In x stopset -> In x (block_first ++ stops)) ->
    Parses (until_w_ctx stop rs) (body ++ e :: rest) rest (ns, Some e).
  Proof.
    intros Hseq He Hstop Hp Hd Hc Hsub.
    assert (hd_ty (e :: rest) = Some (tty e)) as Hh.
    { apply hd_ty_cons. intro X. rewrite X in He. apply (mem_ty_false _ _ Hc He). }
    assert (jfollow (e :: rest)) as Hje.
    { apply jfollow_kw; [intro X; rewrite X in He; apply (mem_ty_false _ _ Hc He)|].
      intro X. specialize (Hsub _ He). rewrite X in Hsub. simpl in Hsub. intuition discriminate. }
    eapply (until_chain rs stop (e :: rest)); [discriminate|exact Hp| |].
    - eapply Seq_chain; eauto.
    - pose proof (Seq_length _ _ _ Hseq). rewrite app_length. lia.
  Qed.

  (* ---------- the if chain ---------- *)

  Lemma if_body body ns t rest : Seq RS (Some (tty t)) body ns -> In (tty t) if_stops ->
    Parses (until_w_ctx (tok_alt if_stops) rs) (body ++ t :: rest) rest (ns, Some t).
  Proof.
    intros Hs Ht. apply (body_until (tok_alt if_stops) if_stops body ns t rest Hs Ht).
    - apply stop_tok_alt; [discriminate|reflexivity].
    - apply tok_alt_in; [exact Ht|reflexivity].
    - reflexivity.
    - reflexivity.
    - intros x Hx. simpl in Hx. simpl. tauto.
  Qed.

  Lemma IfTail_hd k cur ts out rest : IfTail k cur ts out -> sfollow_h (hd_ty (ts ++ rest)).
  Proof.
    assert (forall t, In (tty t) if_stops -> sfollow_h (Some (tty t))) as K.
    { intros t H. cbn [sfollow_h]. apply in_or_app. right. simpl in H. simpl. tauto. }
    assert (forall t r, In (tty t) if_stops -> hd_ty (t :: r) = Some (tty t)) as K2.
    { intros t r H. apply hd_ty_cons. intro X. rewrite X in H. simpl in H. intuition discriminate. }
    intro H. destruct H as [cur body ns e Hseq He|k cur body ns t cts cn tail pre last e Hseq Ht Hc Htail
                           |k cur body ns t tail pre last e Hseq Ht Htail]; rewrite <- app_assoc; cbn [app].
    - assert (In (tty e) if_stops) as Hin by (simpl in He; simpl; tauto).
      eapply Seq_hd; [exact Hseq|apply K2; exact Hin|apply K; exact Hin].
    - assert (In (tty t) if_stops) as Hin by (rewrite Ht; simpl; tauto). rewrite <- Ht in Hseq.
      eapply Seq_hd; [exact Hseq|apply K2; exact Hin|apply K; exact Hin].
    - assert (In (tty t) if_stops) as Hin by (rewrite Ht; simpl; tauto). rewrite <- Ht in Hseq.
      eapply Seq_hd; [exact Hseq|apply K2; exact Hin|apply K; exact Hin].
  Qed.

  Lemma if_loop_tail : forall k cur ts out, IfTail k cur ts out ->
    forall it done fuel rest, (k < fuel)%nat ->
    Parses (if_loop pe rs fuel it cur done) (ts ++ rest) rest (snd (fst out), done ++ fst (fst out), Some (snd out)).
  Proof.
    intros k cur ts out H.
    induction H as [cur body ns e Hseq He|k cur body ns t cts cn tail pre last e Hseq Ht Hc Htail IH
                   |k cur body ns t tail pre last e Hseq Ht Htail IH];
      intros it done fuel rest Hfu c Hc0; (destruct fuel as [|fu]; [lia|]); cbn [fst snd].
    - (* end *)
      rewrite <- app_assoc. cbn [app].
      assert (In (tty e) if_stops) as Hin by (simpl in He; simpl; tauto).
      destruct (Parses_run _ _ _ _ c (if_body body ns e rest Hseq Hin) Hc0) as (c1 & E1 & Q1).
      assert (body ++ e :: rest <> []) as Hne by (destruct body; discriminate).
      rewrite (if_loop_end pe rs fu it cur done _ c rest ns e c1 Hne E1).
      + eexists _, c1. split; [reflexivity|]. split; [exact Q1|]. rewrite app_nil_r. reflexivity.
      + destruct He as [<-|[<-|[]]]; rewrite tt_eqb_refl; [reflexivity|apply orb_true_r].
    - (* elseif *)
      rewrite <- app_assoc. cbn [app]. rewrite <- app_assoc.
      assert (In (tty t) if_stops) as Hin by (rewrite Ht; simpl; tauto).
      rewrite <- Ht in Hseq.
      destruct (Parses_run _ _ _ _ c (if_body body ns t (cts ++ tail ++ rest) Hseq Hin) Hc0) as (c1 & E1 & Q1).
      assert (body ++ t :: cts ++ tail ++ rest <> []) as Hne by (destruct body; discriminate).
      rewrite (if_loop_elseif pe rs fu it cur done _ c _ ns t c1 Hne E1 Ht).
      assert (Parses pe (cts ++ tail ++ rest) (tail ++ rest) cn) as Hpe.
      { destruct (gram_expr_rt (S f)) as (He & _). apply He; [exact Hc|].
        apply sfollow_efollow. eapply IfTail_hd. exact Htail. }
      destruct (Parses_run _ _ _ _ c1 Hpe (quiet_memo _ _ Hc0 Q1)) as (c2 & E2 & Q2). rewrite E2.
      pose proof (quiet_trans _ _ _ Q1 Q2) as Q12.
      destruct (IH it (done ++ [cb_update (cb_add cur ns)]) fu rest ltac:(lia) c2 (quiet_memo _ _ Hc0 Q12)) as (z & c3 & E3 & Q3 & ->).
      eexists _, c3. split; [exact E3|]. split; [apply (quiet_trans _ _ _ Q12 Q3)|].
      cbn [fst snd]. rewrite <- app_assoc. reflexivity.
    - (* else *)
      rewrite <- app_assoc. cbn [app].
      assert (In (tty t) if_stops) as Hin by (rewrite Ht; simpl; tauto).
      rewrite <- Ht in Hseq.
      destruct (Parses_run _ _ _ _ c (if_body body ns t (tail ++ rest) Hseq Hin) Hc0) as (c1 & E1 & Q1).
      assert (body ++ t :: tail ++ rest <> []) as Hne by (destruct body; discriminate).
      rewrite (if_loop_else pe rs fu it cur done _ c _ ns t c1 Hne E1 Ht).
      destruct (IH it (done ++ [cb_update (cb_add cur ns)]) fu rest ltac:(lia) c1 (quiet_memo _ _ Hc0 Q1)) as (z & c3 & E3 & Q3 & ->).
      eexists _, c3. split; [exact E3|]. split; [apply (quiet_trans _ _ _ Q1 Q3)|].
      cbn [fst snd]. rewrite <- app_assoc. reflexivity.
  Qed.

  Lemma IfTail_len k cur ts out : IfTail k cur ts out -> (k < length ts)%nat.
  Proof.
    induction 1; rewrite !app_length; cbn [length]; try rewrite !app_length; lia.
  Qed.

  (* ---------- the simple-statement alternatives that must fail first ---------- *)

  Lemma comment_fails t r : tty t <> TComment -> Fails parse_comment (t :: r).
  Proof. intro H. unfold parse_comment. apply Fails_bind_l. eapply FailsAt_Fails. apply exp_comment_fail. exact H. Qed.

  Lemma uses_fails i : nostart [TUses] i -> Fails parse_uses i.
  Proof. intro H. unfold parse_uses. apply Fails_bind_l. eapply FailsAt_Fails. apply exp_token_nostart; [discriminate|exact H]. Qed.

  Lemma const_fails i : nostart [TConst] i -> Fails parse_constant_declaration i.
  Proof.
    intro H. unfold parse_constant_declaration. apply Fails_bind_l. apply Fails_prepend.
    eapply FailsAt_Fails. apply exp_token_nostart; [discriminate|exact H].
  Qed.

  Lemma annotations_fails i : nostart [TOSqrBracket] i -> Fails parse_annotations i.
  Proof. intro H. unfold parse_annotations. apply Fails_bind_l. eapply FailsAt_Fails. apply exp_token_nostart; [discriminate|exact H]. Qed.

  Lemma typedecl_fails i : nostart [TOSqrBracket; TType] i -> Fails (parse_type_declaration pt) i.
  Proof.
    intro H. unfold parse_type_declaration.
    eapply Fails_bind_r; [apply Parses_opt_none; apply annotations_fails; sub_nostart H|].
    apply Fails_bind_l. apply seq_tokens_fail; [discriminate|sub_nostart H].
  Qed.

  Lemma localvar_fails i : nostart [TVar] i -> Fails (parse_local_var_decl pt) i.
  Proof. intro H. unfold parse_local_var_decl. apply Fails_bind_l. eapply FailsAt_Fails. apply exp_token_nostart; [discriminate|exact H]. Qed.

  Lemma control_fails i : nostart [TExit; TBreak; TContinue; TReturn] i -> Fails (parse_control_statements pe) i.
  Proof.
    intro H. unfold parse_control_statements. apply alt_fails; [discriminate|].
    repeat (apply Forall_cons || apply Forall_nil).
    - apply Fails_bind_l. eapply FailsAt_Fails. apply tok_alt_nostart; [discriminate|reflexivity|sub_nostart H].
    - unfold parse_return_statement. apply Fails_bind_l. eapply FailsAt_Fails. apply exp_token_nostart; [discriminate|sub_nostart H].
  Qed.

  Lemma oql_fails i : nostart [TOQL] i -> Fails (parse_oql_expr pe pd pc) i.
  Proof.
    intro H. unfold parse_oql_expr. apply alt_fails; [discriminate|].
    repeat (apply Forall_cons || apply Forall_nil);
      [unfold parse_oql_select|unfold parse_oql_fetch]; apply Fails_bind_l; eapply FailsAt_Fails;
      (apply exp_token_nostart; [discriminate|exact H]).
  Qed.

  Definition ident_stmt_excl : list ttype :=
    block_first ++ [TUses; TConst; TOSqrBracket; TType; TVar; TExit; TBreak; TContinue; TReturn; TOQL].

  (* a statement that starts with an identifier token: everything before parse_assignment fails *)
  Lemma ident_stmt t r rest n : tty t = TIdentifier ->
    (forall b, Parses (alt_go [parse_assignment pe pd; pe] b) (t :: r) rest n) ->
    Parses (g_stmt (gram (S f))) (t :: r) rest n.
  Proof.
    intros Ht H. rewrite stmt_is_shape.
    assert (nostart ident_stmt_excl (t :: r)) as Hn by (eapply nostart_ty; [exact Ht|reflexivity]).
    apply shape_simple; [apply blocks_fail; sub_nostart Hn|]. unfold simples, alt.
    apply alt_go_skip; [apply comment_fails; rewrite Ht; discriminate|]. intro b1.
    apply alt_go_skip; [apply uses_fails; sub_nostart Hn|]. intro b2.
    apply alt_go_skip; [apply const_fails; sub_nostart Hn|]. intro b3.
    apply alt_go_skip; [apply typedecl_fails; sub_nostart Hn|]. intro b4.
    apply alt_go_skip; [apply localvar_fails; sub_nostart Hn|]. intro b5.
    apply alt_go_skip; [apply control_fails; sub_nostart Hn|]. intro b6.
    apply alt_go_skip; [apply oql_fails; sub_nostart Hn|]. intro b7.
    apply H.
  Qed.

  Lemma follow_dots more : sfollow_h (hd_ty more) -> nostart [TDot; TOBracket; TOSqrBracket] more.
  Proof. intro H. apply sfollow_nostart; [reflexivity|exact H]. Qed.

  Lemma efollow_ty_in S t r : In (tty t) S -> disj_b S (TComment :: concat ladder ++ primary_continue) = true -> efollow (t :: r).
  Proof.
    intros H Hd. split; eapply (nostart_sub (concat ladder ++ primary_continue)).
    - intros x Hx. apply in_or_app. left. exact Hx.
    - eapply starts_nostart; eauto.
    - intros x Hx. apply in_or_app. right. exact Hx.
    - eapply starts_nostart; eauto.
  Qed.

  Lemma pe_parses ts n more : GExpr (S f) ts n -> efollow more -> Parses pe (ts ++ more) more n.
  Proof. intros H Hf. destruct (gram_expr_rt (S f)) as (He & _). apply He; assumption. Qed.

  Lemma pd_parses ts n more : GDots (S f) ts n -> nostart [TDot; TOBracket; TOSqrBracket] more -> Parses pd (ts ++ more) more n.
  Proof. intros H Hf. apply gram_dots_rt; assumption. Qed.

  Lemma GDots_GExpr ts n : GDots (S f) ts n -> GExpr (S f) ts n.
  Proof. intro H. rewrite GExpr_S. apply X_atom. apply P_dots. exact H. Qed.

  Lemma blocks_eq (pre : list cblock) (last : cblock) :
    (let b := match pre with [] => (last, []) | d :: ds => (d, ds ++ [last]) end in fst b :: snd b) = pre ++ [last].
  Proof. destruct pre; reflexivity. Qed.

  (* ---------- switch ---------- *)

  Lemma wval_parses ts n more : WVal ts n -> Parses (alt [parse_literal_basic; parse_identifier]) (ts ++ more) more n.
  Proof.
    intros [t Ht]. cbn [app]. apply in_app_or in Ht as [Ht|Ht]; unfold alt.
    - apply alt_go_here. apply parse_literal_basic_ok. exact Ht.
    - apply alt_go_skip.
      + eapply FailsAt_Fails. apply parse_literal_basic_failsat. eapply (nostart_cons _ ident_types); [exact Ht|reflexivity].
      + intro b. apply alt_go_here. apply parse_identifier_ok. exact Ht.
  Qed.

  Lemma when_expr_parses ts n more : WhenExpr ts n -> nostart [TComma; TTo] more -> Parses parse_when_expr (ts ++ more) more n.
  Proof.
    intros H Hf. unfold parse_when_expr, alt. destruct H as [lo k hi Hlo Hk Hhi|ts ns Hv].
    - cbn [app]. apply alt_go_here. unfold parse_to_op.
      eapply Parses_bind; [apply parse_literal_basic_ok; exact Hlo|]. cbv beta.
      eapply Parses_bind; [apply exp_token_ok; exact Hk|]. cbv beta.
      eapply Parses_bind; [apply parse_literal_basic_ok; exact Hhi|]. cbv beta. apply Parses_ret.
    - assert (Parses (sep_list (alt [parse_literal_basic; parse_identifier]) TComma) (ts ++ more) more ns) as Hsl.
      { eapply (sep_list_args _ _ TComma WVal (fun _ => True)); [intros; apply wval_parses; assumption|auto|discriminate|exact Hv|exact I|sub_nostart Hf]. }
      apply alt_go_skip.
      { (* parse_to_op fails: no `to` after the first value *)
        unfold parse_to_op. destruct Hv as [ts n [t Ht]|ts n cm ts' ns [t Ht] Hcm Hrest]; cbn [app]; rewrite <- ?app_assoc; cbn [app];
          apply in_app_or in Ht as [Ht|Ht].
        - eapply Fails_bind_r; [apply parse_literal_basic_ok; exact Ht|]. apply Fails_bind_l. eapply FailsAt_Fails.
          apply exp_token_nostart; [discriminate|sub_nostart Hf].
        - apply Fails_bind_l. eapply FailsAt_Fails. apply parse_literal_basic_failsat.
          eapply (nostart_cons _ ident_types); [exact Ht|reflexivity].
        - eapply Fails_bind_r; [apply parse_literal_basic_ok; exact Ht|]. apply Fails_bind_l. eapply FailsAt_Fails.
          apply exp_token_nostart; [discriminate|eapply nostart_ty; [exact Hcm|reflexivity]].
        - apply Fails_bind_l. eapply FailsAt_Fails. apply parse_literal_basic_failsat.
          eapply (nostart_cons _ ident_types); [exact Ht|reflexivity]. }
      intro b. apply alt_go_here. unfold parse_separated_values.
      eapply Parses_bind; [exact Hsl|]. cbv beta.
      pose proof (Args_length _ _ _ _ Hv) as Hl. destruct ns as [|n0 ns']; [simpl in Hl; lia|]. apply Parses_ret.
  Qed.

  Lemma when_block_parses wt wets we body ns e more : tty wt = TWhen -> WhenExpr wets we -> Seq RS (Some TEndWhen) body ns ->
    tty e = TEndWhen -> Parses (parse_when_block rs) (wt :: wets ++ body ++ e :: more) more (mk_when wt we ns e).
  Proof.
    intros Hwt Hwe Hseq He. unfold parse_when_block.
    eapply Parses_bind; [apply exp_token_ok; exact Hwt|]. cbv beta.
    rewrite <- He in Hseq.
    eapply Parses_bind.
    { apply when_expr_parses; [exact Hwe|]. apply sfollow_nostart; [reflexivity|].
      eapply Seq_hd; [exact Hseq|apply hd_ty_cons; rewrite He; discriminate|]. rewrite He. cbn [sfollow_h]. apply in_or_app. right. simpl. tauto. }
    cbv beta. eapply Parses_bind.
    { apply (body_until (exp_token TEndWhen) [TEndWhen] body ns e more Hseq ltac:(left; auto)).
      - apply stop_exp_token. discriminate.
      - apply exp_token_ok. exact He.
      - reflexivity.
      - reflexivity.
      - intros x Hx. simpl in Hx. simpl. tauto. }
    cbv beta iota. apply Parses_ret.
  Qed.

  Lemma whens_chain wts whens tail : Whens wts whens -> Chain (parse_when_block rs) (fail []) tail (wts ++ tail) whens.
  Proof.
    induction 1 as [|wt wets we body ns e rest ws Hwt Hwe Hseq He Hrest IH]; [apply Ch_nil|].
    cbn [app]. rewrite <- ?app_assoc. cbn [app].
    eapply Ch_cons; [discriminate|apply Fails_fail| |exact IH].
    replace (wt :: wets ++ body ++ e :: rest ++ tail) with (wt :: wets ++ body ++ e :: (rest ++ tail)) by reflexivity.
    apply when_block_parses; assumption.
  Qed.

  Lemma Whens_len wts whens : Whens wts whens -> (length whens <= length wts)%nat.
  Proof. induction 1; cbn [length]; [lia|]. rewrite !app_length. cbn [length]. lia. Qed.

  Lemma switch_else_parses elts els e more : SwitchElse elts els -> tty e = TEndSwitch ->
    Parses (parse_switch_else_block rs) (elts ++ e :: more) more
           (option_map (fun x => mk_switch_else (fst x) (snd x) e) els, Some e).
  Proof.
    intros H He. unfold parse_switch_else_block. destruct H as [|et body ns Het Hseq]; cbn [app option_map fst snd].
    - eapply Parses_bind; [apply Parses_rae_none; apply exp_token_nostart; [discriminate|eapply nostart_ty; [exact He|reflexivity]]|].
      cbv beta iota. eapply Parses_bind; [apply Parses_opt_some; apply exp_token_ok; exact He|]. cbv beta. apply Parses_ret.
    - eapply Parses_bind; [apply Parses_rae_some; apply exp_token_ok; exact Het|]. cbv beta iota.
      rewrite <- He in Hseq.
      eapply Parses_bind.
      { apply (body_until (exp_token TEndSwitch) [TEndSwitch] body ns e more Hseq ltac:(left; auto)).
        - apply stop_exp_token. discriminate.
        - apply exp_token_ok. exact He.
        - reflexivity.
        - reflexivity.
        - intros x Hx. simpl in Hx. simpl. tauto. }
      cbv beta iota. apply Parses_ret.
  Qed.

  (* ---------- every derivable statement is parsed into its tree ---------- *)

  Theorem stmt_parses ts n more : Stmt ts n -> follow_ok ts (hd_ty more) -> jfollow more ->
    Parses (g_stmt (gram (S f))) (ts ++ more) more n.
  Proof.
    intros H [Hfo Hcm] Hjm. pose proof (sfollow_efollow _ Hfo) as Hef.
    destruct H as [tl nl op tr nr Hl Hhd Hjl Hop Hr|ts n Hd Hhd Hjl|ts n op Hd Hhd Hjl Hop|rt ts n Hrt He|t Ht|c Hc
                  |vt id col tts tn Hvt Hid Hcol Hty|wt cts cn body ns e Hwt Hc Hseq He|lt body ns e Hlt Hseq He
                  |rt body ns u cts cn Hrt Hseq Hu Hc
                  |ft vt eq lts ln top hts hn body ns e Hft Hvt Heq Hlo Htop Hhi Hseq He
                  |ft vt eq lts ln top hts hn stp sts sn body ns e Hft Hvt Heq Hlo Htop Hhi Hstp Hst Hseq He
                  |vt id col tts tn ak an Hvt Hid Hcol Hty Hak Han
                  |ut uts ids Hut Hl
                  |ct id eq v ml Hct Hid Heq Hv Hml
                  |tk id col tts tn Htk Hid Hcol Hty
                  |ft ets en dt ut body ns e Hft Hen Hdt Hut Hseq He
                  |st ets en wts whens elts els e Hst Hen Hwh Hel He
                  |ts n Hoql
                  |it cts cn k tail pre last e Hit Hc Htail].
    - (* assignment *)
      destruct Hhd as (t & r & -> & [Ht|[]]). rewrite <- app_assoc. cbn [app]. apply ident_stmt; [auto|].
      intro b. apply alt_go_here. unfold parse_assignment.
      eapply Parses_bind.
      { change (t :: r ++ op :: tr ++ more) with ((t :: r) ++ op :: tr ++ more). apply pd_parses; [exact Hl|].
        eapply (nostart_cons _ assign_ops); [exact Hop|reflexivity]. }
      cbv beta. eapply Parses_bind; [apply tok_alt_in; [exact Hop|reflexivity]|]. cbv beta.
      eapply Parses_bind; [apply pe_parses; [exact Hr|exact Hef]|]. cbv beta. apply Parses_ret.
    - (* expression statement: a dot chain *)
      destruct Hhd as (t & r & -> & [Ht|[]]). cbn [app]. apply ident_stmt; [auto|].
      intro b. apply alt_go_skip.
      { unfold parse_assignment. eapply Fails_bind_r.
        - change (t :: r ++ more) with ((t :: r) ++ more). apply pd_parses; [exact Hd|apply follow_dots; exact Hfo].
        - apply Fails_bind_l. eapply FailsAt_Fails. apply tok_alt_nostart; [discriminate|reflexivity|].
          apply sfollow_nostart; [reflexivity|exact Hfo]. }
      intro b2. apply alt_go_here. change (t :: r ++ more) with ((t :: r) ++ more).
      apply pe_parses; [apply GDots_GExpr; exact Hd|exact Hef].
    - (* postfix statement *)
      destruct Hhd as (t & r & -> & [Ht|[]]). rewrite <- app_assoc. cbn [app]. apply ident_stmt; [auto|].
      intro b. apply alt_go_skip.
      { unfold parse_assignment. eapply Fails_bind_r.
        - change (t :: r ++ op :: more) with ((t :: r) ++ op :: more). apply pd_parses; [exact Hd|].
          eapply (nostart_cons _ postfix_types); [exact Hop|reflexivity].
        - apply Fails_bind_l. eapply FailsAt_Fails. apply tok_alt_nostart; [discriminate|reflexivity|].
          eapply (nostart_cons _ postfix_types); [exact Hop|reflexivity]. }
      intro b2. apply alt_go_here.
      change (t :: r ++ op :: more) with ((t :: r) ++ [op] ++ more). rewrite app_assoc.
      apply pe_parses; [|exact Hef]. rewrite GExpr_S. apply X_atom. apply P_post; assumption.
    - (* return *)
      cbn [app]. rewrite stmt_is_shape.
      assert (nostart (block_first ++ [TUses; TConst; TOSqrBracket; TType; TVar; TExit; TBreak; TContinue]) (rt :: ts ++ more)) as Hn
        by (eapply nostart_ty; [exact Hrt|reflexivity]).
      apply shape_simple; [apply blocks_fail; sub_nostart Hn|]. unfold simples, alt.
      apply alt_go_skip; [apply comment_fails; rewrite Hrt; discriminate|]. intro b1.
      apply alt_go_skip; [apply uses_fails; sub_nostart Hn|]. intro b2.
      apply alt_go_skip; [apply const_fails; sub_nostart Hn|]. intro b3.
      apply alt_go_skip; [apply typedecl_fails; sub_nostart Hn|]. intro b4.
      apply alt_go_skip; [apply localvar_fails; sub_nostart Hn|]. intro b5.
      apply alt_go_here. unfold parse_control_statements, alt. apply alt_go_skip.
      { apply Fails_bind_l. eapply FailsAt_Fails. apply tok_alt_nostart; [discriminate|reflexivity|sub_nostart Hn]. }
      intro b6. apply alt_go_here. unfold parse_return_statement.
      eapply Parses_bind; [apply exp_token_ok; exact Hrt|]. cbv beta.
      eapply Parses_bind; [apply pe_parses; [exact He|exact Hef]|]. cbv beta. apply Parses_ret.
    - (* exit / break / continue *)
      cbn [app]. rewrite stmt_is_shape.
      assert (nostart (block_first ++ [TUses; TConst; TOSqrBracket; TType; TVar]) (t :: more)) as Hn
        by (eapply (nostart_cons _ [TExit; TBreak; TContinue]); [exact Ht|reflexivity]).
      apply shape_simple; [apply blocks_fail; sub_nostart Hn|]. unfold simples, alt.
      apply alt_go_skip; [apply comment_fails; intro X; rewrite X in Ht; simpl in Ht; intuition discriminate|]. intro b1.
      apply alt_go_skip; [apply uses_fails; sub_nostart Hn|]. intro b2.
      apply alt_go_skip; [apply const_fails; sub_nostart Hn|]. intro b3.
      apply alt_go_skip; [apply typedecl_fails; sub_nostart Hn|]. intro b4.
      apply alt_go_skip; [apply localvar_fails; sub_nostart Hn|]. intro b5.
      apply alt_go_here. unfold parse_control_statements, alt. apply alt_go_here.
      eapply Parses_bind; [apply tok_alt_in; [exact Ht|reflexivity]|]. cbv beta. apply Parses_ret.
    - (* comment *)
      cbn [app]. rewrite stmt_is_shape.
      assert (hd_ty [c] = None) as Hnone by (simpl; unfold is_comment; rewrite Hc, tt_eqb_refl; reflexivity).
      specialize (Hcm Hnone).
      assert (nostart block_first (c :: more)) as Hn.
      { apply nostart_comment; [exact Hc|]. intros ty Hh X. rewrite Hh in Hcm. cbn [cmt_h] in Hcm.
        apply Hcm. apply in_or_app. left. exact X. }
      apply shape_simple; [apply blocks_fail; exact Hn|]. unfold simples, alt. apply alt_go_here.
      unfold parse_comment. eapply Parses_bind; [apply exp_token_ok; exact Hc|]. cbv beta. apply Parses_ret.
    - (* var x : T *)
      cbn [app]. rewrite stmt_is_shape.
      assert (nostart (block_first ++ [TUses; TConst; TOSqrBracket; TType]) (vt :: id :: col :: tts ++ more)) as Hn
        by (eapply nostart_ty; [exact Hvt|reflexivity]).
      apply shape_simple; [apply blocks_fail; sub_nostart Hn|]. unfold simples, alt.
      apply alt_go_skip; [apply comment_fails; rewrite Hvt; discriminate|]. intro b1.
      apply alt_go_skip; [apply uses_fails; sub_nostart Hn|]. intro b2.
      apply alt_go_skip; [apply const_fails; sub_nostart Hn|]. intro b3.
      apply alt_go_skip; [apply typedecl_fails; sub_nostart Hn|]. intro b4.
      apply alt_go_here. unfold parse_local_var_decl.
      eapply Parses_bind; [apply exp_token_ok; exact Hvt|]. cbv beta.
      eapply Parses_bind; [apply exp_token_ok; exact Hid|]. cbv beta.
      eapply Parses_bind; [apply exp_token_ok; exact Hcol|]. cbv beta.
      eapply Parses_bind; [apply gram_type_rt; [exact Hty|apply sfollow_nostart; [reflexivity|exact Hfo]]|]. cbv beta.
      eapply Parses_bind.
      { apply Parses_opt_none. eapply FailsAt_Fails. apply exp_token_nostart; [discriminate|].
        apply sfollow_nostart; [reflexivity|exact Hfo]. }
      cbv beta iota. eapply Parses_bind; [apply Parses_ret|]. cbv beta iota. apply Parses_ret.
    - (* while *)
      cbn [app]. rewrite <- !app_assoc. cbn [app]. rewrite stmt_is_shape.
      assert (nostart [TIf; TFor; TForEach] (wt :: cts ++ body ++ e :: more)) as Hn by (eapply nostart_ty; [exact Hwt|reflexivity]).
      assert (mem_ty (tty e) stops = true /\ tty e <> TComment) as [Hes Hec].
      { destruct He as [<-|[<-|[]]]; split; try reflexivity; discriminate. }
      apply (shape_block [parse_if_block pe rs; parse_for_block pe rs; parse_foreach_block pe pd pc rs]).
      { repeat (apply Forall_cons || apply Forall_nil);
          [unfold parse_if_block|unfold parse_for_block|unfold parse_foreach_block];
          apply Fails_bind_l; eapply FailsAt_Fails; (apply exp_token_nostart; [discriminate|]); sub_nostart Hn. }
      unfold parse_while_block.
      eapply Parses_bind; [apply exp_token_ok; exact Hwt|]. cbv beta.
      eapply Parses_bind.
      { apply pe_parses; [exact Hc|]. apply sfollow_efollow.
        eapply Seq_hd; [exact Hseq|apply hd_ty_cons; exact Hec|]. cbn [sfollow_h]. apply in_or_app. right. apply mem_ty_In. exact Hes. }
      cbv beta. eapply Parses_bind.
      { apply (body_until (tok_alt [TEndWhile; TEnd]) [TEndWhile; TEnd] body ns e more Hseq He).
        - apply stop_tok_alt; [discriminate|reflexivity].
        - apply tok_alt_in; [exact He|reflexivity].
        - reflexivity.
        - reflexivity.
        - intros x Hx. simpl in Hx. simpl. tauto. }
      cbv beta iota. apply Parses_ret.
    - (* loop *)
      cbn [app]. rewrite <- !app_assoc. cbn [app]. rewrite stmt_is_shape.
      assert (nostart [TIf; TFor; TForEach; TWhile] (lt :: body ++ e :: more)) as Hn by (eapply nostart_ty; [exact Hlt|reflexivity]).
      apply (shape_block [parse_if_block pe rs; parse_for_block pe rs; parse_foreach_block pe pd pc rs; parse_while_block pe rs]).
      { repeat (apply Forall_cons || apply Forall_nil);
          [unfold parse_if_block|unfold parse_for_block|unfold parse_foreach_block|unfold parse_while_block];
          apply Fails_bind_l; eapply FailsAt_Fails; (apply exp_token_nostart; [discriminate|]); sub_nostart Hn. }
      unfold parse_loop_block.
      eapply Parses_bind; [apply exp_token_ok; exact Hlt|]. cbv beta.
      eapply Parses_bind.
      { apply (body_until (tok_alt [TEndLoop; TEnd]) [TEndLoop; TEnd] body ns e more Hseq He).
        - apply stop_tok_alt; [discriminate|reflexivity].
        - apply tok_alt_in; [exact He|reflexivity].
        - reflexivity.
        - reflexivity.
        - intros x Hx. simpl in Hx. simpl. tauto. }
      cbv beta iota. apply Parses_ret.
    - (* repeat ... until cond *)
      cbn [app]. rewrite <- !app_assoc. cbn [app]. rewrite stmt_is_shape.
      assert (nostart [TIf; TFor; TForEach; TWhile; TLoop; TSwitch] (rt :: body ++ u :: cts ++ more)) as Hn
        by (eapply nostart_ty; [exact Hrt|reflexivity]).
      apply (shape_block [parse_if_block pe rs; parse_for_block pe rs; parse_foreach_block pe pd pc rs; parse_while_block pe rs;
                          parse_loop_block rs; parse_switch_block pe rs]).
      { repeat (apply Forall_cons || apply Forall_nil);
          [unfold parse_if_block|unfold parse_for_block|unfold parse_foreach_block|unfold parse_while_block
          |unfold parse_loop_block|unfold parse_switch_block];
          apply Fails_bind_l; eapply FailsAt_Fails; (apply exp_token_nostart; [discriminate|]); sub_nostart Hn. }
      unfold parse_repeat_block.
      eapply Parses_bind; [apply exp_token_ok; exact Hrt|]. cbv beta.
      eapply Parses_bind.
      { rewrite <- Hu in Hseq.
        apply (body_until (exp_token TUntil) [TUntil] body ns u (cts ++ more) Hseq ltac:(left; auto)).
        - apply stop_exp_token. discriminate.
        - apply exp_token_ok. exact Hu.
        - reflexivity.
        - reflexivity.
        - intros x Hx. simpl in Hx. simpl. tauto. }
      cbv beta iota. eapply Parses_bind.
      { eapply Parses_bind; [apply pe_parses; [exact Hc|exact Hef]|]. cbv beta. apply Parses_ret. }
      cbv beta iota. apply Parses_ret.
    - (* for v = lo to hi ... endfor *)
      cbn [app]. rewrite <- !app_assoc. cbn [app]. rewrite <- !app_assoc. cbn [app]. rewrite stmt_is_shape.
      assert (mem_ty (tty e) stops = true /\ tty e <> TComment) as [Hes Hec].
      { destruct He as [<-|[<-|[]]]; split; try reflexivity; discriminate. }
      assert (sfollow_h (hd_ty (body ++ e :: more))) as Hbh.
      { eapply Seq_hd; [exact Hseq|apply hd_ty_cons; exact Hec|]. cbn [sfollow_h]. apply in_or_app. right. apply mem_ty_In. exact Hes. }
      apply (shape_block [parse_if_block pe rs]).
      { repeat (apply Forall_cons || apply Forall_nil). unfold parse_if_block. apply Fails_bind_l. eapply FailsAt_Fails.
        apply exp_token_nostart; [discriminate|]. eapply nostart_ty; [exact Hft|reflexivity]. }
      unfold parse_for_block.
      eapply Parses_bind; [apply exp_token_ok; exact Hft|]. cbv beta.
      eapply Parses_bind; [apply exp_token_ok; exact Hvt|]. cbv beta.
      eapply Parses_bind; [apply exp_token_ok; exact Heq|]. cbv beta.
      eapply Parses_bind.
      { eapply binops_intro.
        - apply pe_parses; [exact Hlo|]. eapply (efollow_ty_in [TTo; TDownTo]); [exact Htop|reflexivity].
        - eapply binops_go_step.
          + apply tok_alt_in; [exact Htop|reflexivity].
          + apply pe_parses; [exact Hhi|apply sfollow_efollow; exact Hbh].
          + cbn [length]. apply binops_go_stop.
            eapply FailsAt_Fails. apply tok_alt_nostart; [discriminate|reflexivity|].
            apply sfollow_nostart; [reflexivity|exact Hbh]. }
      cbv beta. eapply Parses_bind.
      { apply Parses_opt_none. eapply FailsAt_Fails. apply exp_token_nostart; [discriminate|].
        apply sfollow_nostart; [reflexivity|exact Hbh]. }
      cbv beta iota. eapply Parses_bind; [apply Parses_ret|]. cbv beta.
      eapply Parses_bind.
      { apply (body_until (tok_alt [TEndFor; TEnd]) [TEndFor; TEnd] body ns e more Hseq He).
        - apply stop_tok_alt; [discriminate|reflexivity].
        - apply tok_alt_in; [exact He|reflexivity].
        - reflexivity.
        - reflexivity.
        - intros x Hx. simpl in Hx. simpl. tauto. }
      cbv beta iota. apply Parses_ret.
    - (* for v = lo to hi step s ... endfor *)
      cbn [app]. rewrite <- !app_assoc. cbn [app]. rewrite <- !app_assoc. cbn [app]. rewrite <- !app_assoc. cbn [app].
      rewrite stmt_is_shape.
      assert (mem_ty (tty e) stops = true /\ tty e <> TComment) as [Hes Hec].
      { destruct He as [<-|[<-|[]]]; split; try reflexivity; discriminate. }
      assert (sfollow_h (hd_ty (body ++ e :: more))) as Hbh.
      { eapply Seq_hd; [exact Hseq|apply hd_ty_cons; exact Hec|]. cbn [sfollow_h]. apply in_or_app. right. apply mem_ty_In. exact Hes. }
      apply (shape_block [parse_if_block pe rs]).
      { repeat (apply Forall_cons || apply Forall_nil). unfold parse_if_block. apply Fails_bind_l. eapply FailsAt_Fails.
        apply exp_token_nostart; [discriminate|]. eapply nostart_ty; [exact Hft|reflexivity]. }
      unfold parse_for_block.
      eapply Parses_bind; [apply exp_token_ok; exact Hft|]. cbv beta.
      eapply Parses_bind; [apply exp_token_ok; exact Hvt|]. cbv beta.
      eapply Parses_bind; [apply exp_token_ok; exact Heq|]. cbv beta.
      eapply Parses_bind.
      { eapply binops_intro.
        - apply pe_parses; [exact Hlo|]. eapply (efollow_ty_in [TTo; TDownTo]); [exact Htop|reflexivity].
        - eapply binops_go_step.
          + apply tok_alt_in; [exact Htop|reflexivity].
          + apply pe_parses; [exact Hhi|]. eapply efollow_ty; [exact Hstp|reflexivity].
          + cbn [length]. apply binops_go_stop.
            eapply FailsAt_Fails. apply tok_alt_nostart; [discriminate|reflexivity|].
            eapply nostart_ty; [exact Hstp|reflexivity]. }
      cbv beta. eapply Parses_bind; [apply Parses_opt_some; apply exp_token_ok; exact Hstp|]. cbv beta iota.
      eapply Parses_bind; [apply Parses_opt_some; apply pe_parses; [exact Hst|apply sfollow_efollow; exact Hbh]|]. cbv beta.
      eapply Parses_bind.
      { apply (body_until (tok_alt [TEndFor; TEnd]) [TEndFor; TEnd] body ns e more Hseq He).
        - apply stop_tok_alt; [discriminate|reflexivity].
        - apply tok_alt_in; [exact He|reflexivity].
        - reflexivity.
        - reflexivity.
        - intros x Hx. simpl in Hx. simpl. tauto. }
      cbv beta iota. apply Parses_ret.
    - (* var x : T absolute y *)
      cbn [app]. rewrite <- app_assoc. cbn [app]. rewrite stmt_is_shape.
      assert (nostart (block_first ++ [TUses; TConst; TOSqrBracket; TType]) (vt :: id :: col :: tts ++ ak :: an :: more)) as Hn
        by (eapply nostart_ty; [exact Hvt|reflexivity]).
      apply shape_simple; [apply blocks_fail; sub_nostart Hn|]. unfold simples, alt.
      apply alt_go_skip; [apply comment_fails; rewrite Hvt; discriminate|]. intro b1.
      apply alt_go_skip; [apply uses_fails; sub_nostart Hn|]. intro b2.
      apply alt_go_skip; [apply const_fails; sub_nostart Hn|]. intro b3.
      apply alt_go_skip; [apply typedecl_fails; sub_nostart Hn|]. intro b4.
      apply alt_go_here. unfold parse_local_var_decl.
      eapply Parses_bind; [apply exp_token_ok; exact Hvt|]. cbv beta.
      eapply Parses_bind; [apply exp_token_ok; exact Hid|]. cbv beta.
      eapply Parses_bind; [apply exp_token_ok; exact Hcol|]. cbv beta.
      eapply Parses_bind; [apply gram_type_rt; [exact Hty|eapply nostart_ty; [exact Hak|reflexivity]]|]. cbv beta.
      eapply Parses_bind; [apply Parses_opt_some; apply exp_token_ok; exact Hak|]. cbv beta iota.
      eapply Parses_bind; [eapply Parses_bind; [apply parse_identifier_ok; exact Han|apply Parses_ret]|]. cbv beta iota. apply Parses_ret.
    - (* uses a, b *)
      cbn [app]. rewrite stmt_is_shape.
      assert (nostart block_first (ut :: uts ++ more)) as Hn by (eapply nostart_ty; [exact Hut|reflexivity]).
      apply shape_simple; [apply blocks_fail; exact Hn|]. unfold simples, alt.
      apply alt_go_skip; [apply comment_fails; rewrite Hut; discriminate|]. intro b1. apply alt_go_here.
      unfold parse_uses. eapply Parses_bind; [apply exp_token_ok; exact Hut|]. cbv beta.
      eapply Parses_bind; [apply sep_tokens_ok; [discriminate|exact Hl|apply sfollow_nostart; [reflexivity|exact Hfo]]|].
      cbv beta. apply Parses_ret.
    - (* const c = v *)
      cbn [app]. rewrite stmt_is_shape.
      assert (nostart (block_first ++ [TUses]) (ct :: id :: eq :: v :: opt_list ml ++ more)) as Hn by (eapply nostart_ty; [exact Hct|reflexivity]).
      apply shape_simple; [apply blocks_fail; sub_nostart Hn|]. unfold simples, alt.
      apply alt_go_skip; [apply comment_fails; rewrite Hct; discriminate|]. intro b1.
      apply alt_go_skip; [apply uses_fails; sub_nostart Hn|]. intro b2. apply alt_go_here.
      unfold parse_constant_declaration.
      eapply Parses_bind; [apply Parses_prepend; apply exp_token_ok; exact Hct|]. cbv beta.
      eapply Parses_bind; [apply Parses_prepend; apply exp_token_ok; exact Hid|]. cbv beta.
      eapply Parses_bind; [apply Parses_prepend; apply exp_token_ok; exact Heq|]. cbv beta.
      eapply Parses_bind; [apply Parses_prepend; apply tok_alt_in; [exact Hv|reflexivity]|]. cbv beta.
      destruct ml as [m|]; cbn [opt_list app].
      + eapply Parses_bind; [apply Parses_rae_some; apply exp_token_ok; exact Hml|]. cbv beta iota. apply Parses_ret.
      + eapply Parses_bind.
        { apply Parses_rae_none. apply exp_token_nostart; [discriminate|]. apply sfollow_nostart; [reflexivity|exact Hfo]. }
        cbv beta iota. apply Parses_ret.
    - (* type t : T *)
      cbn [app]. rewrite stmt_is_shape.
      assert (nostart (block_first ++ [TUses; TConst; TOSqrBracket]) (tk :: id :: col :: tts ++ more)) as Hn by (eapply nostart_ty; [exact Htk|reflexivity]).
      apply shape_simple; [apply blocks_fail; sub_nostart Hn|]. unfold simples, alt.
      apply alt_go_skip; [apply comment_fails; rewrite Htk; discriminate|]. intro b1.
      apply alt_go_skip; [apply uses_fails; sub_nostart Hn|]. intro b2.
      apply alt_go_skip; [apply const_fails; sub_nostart Hn|]. intro b3. apply alt_go_here.
      unfold parse_type_declaration. eapply Parses_bind; [apply annot_opt_none; sub_nostart Hn|]. cbv beta.
      eapply Parses_bind; [apply (seq_tokens_ok _ [tk; id; col]); cbn [map]; rewrite Htk, Hid, Hcol; reflexivity|]. cbv beta iota.
      eapply Parses_bind; [apply gram_type_rt; [exact Hty|apply sfollow_nostart; [reflexivity|exact Hfo]]|]. cbv beta. apply Parses_ret.
    - (* foreach e [downto] [using v] ... endfor *)
      cbn [app]. rewrite <- ?app_assoc. rewrite stmt_is_shape.
      assert (mem_ty (tty e) stops = true /\ tty e <> TComment) as [Hes Hec].
      { destruct He as [<-|[<-|[]]]; split; try reflexivity; discriminate. }
      assert (sfollow_h (hd_ty (body ++ [e] ++ more))) as Hbh.
      { eapply Seq_hd; [exact Hseq|apply hd_ty_cons; exact Hec|]. cbn [sfollow_h]. apply in_or_app. right. apply mem_ty_In. exact Hes. }
      set (utoks := match ut with Some (uk, uv) => [uk; uv] | None => [] end) in *.
      set (SS := stmt_first ++ stops) in *.
      pose proof (sfollow_heads _ Hbh) as Hb. fold SS in Hb.
      assert (heads (TUsing :: SS) (utoks ++ body ++ [e] ++ more)) as Hu.
      { unfold utoks. destruct ut as [[uk uv]|].
        - destruct Hut as [Huk _]. cbn [app]. apply heads_tok; [left; auto|rewrite Huk; discriminate].
        - cbn [app]. eapply heads_weaken; [|exact Hb]. intros x Hx. right. exact Hx. }
      assert (heads (TDownTo :: TUsing :: SS) (opt_list dt ++ utoks ++ body ++ [e] ++ more)) as Hd.
      { destruct dt as [d|]; cbn [opt_list app].
        - apply heads_tok; [left; auto|rewrite Hdt; discriminate].
        - eapply heads_weaken; [|exact Hu]. intros x Hx. right. exact Hx. }
      apply (shape_block [parse_if_block pe rs; parse_for_block pe rs]).
      { repeat (apply Forall_cons || apply Forall_nil); [unfold parse_if_block|unfold parse_for_block];
          apply Fails_bind_l; eapply FailsAt_Fails; (apply exp_token_nostart; [discriminate|]);
          (eapply nostart_ty; [exact Hft|reflexivity]). }
      unfold parse_foreach_block.
      eapply Parses_bind; [apply exp_token_ok; exact Hft|]. cbv beta.
      eapply Parses_bind.
      { apply binops_single.
        - unfold alt. apply alt_go_skip.
          + apply oql_fails. eapply head_in_nostart'; [apply (GExpr_head _ _ _ Hen)|reflexivity].
          + intro b. apply alt_go_here. apply pe_parses; [exact Hen|]. split; (eapply heads_nostart; [exact Hd|reflexivity]).
        - eapply FailsAt_Fails. apply exp_token_nostart; [discriminate|]. eapply heads_nostart; [exact Hd|reflexivity]. }
      cbv beta. eapply Parses_bind.
      { instantiate (1 := dt). instantiate (1 := utoks ++ body ++ [e] ++ more). destruct dt as [d|]; cbn [opt_list app].
        - apply Parses_opt_some. apply exp_token_ok. exact Hdt.
        - apply Parses_opt_none. eapply FailsAt_Fails. apply exp_token_nostart; [discriminate|].
          eapply heads_nostart; [exact Hu|reflexivity]. }
      cbv beta. unfold utoks. destruct ut as [[uk uv]|]; cbn [app option_map snd].
      + destruct Hut as [Huk Huv].
        eapply Parses_bind; [apply Parses_opt_some; apply exp_token_ok; exact Huk|]. cbv beta iota.
        eapply Parses_bind; [eapply Parses_bind; [apply parse_identifier_ok; exact Huv|apply Parses_ret]|]. cbv beta.
        eapply Parses_bind.
        { apply (body_until (tok_alt [TEndFor; TEnd]) [TEndFor; TEnd] body ns e more Hseq He).
          - apply stop_tok_alt; [discriminate|reflexivity].
          - apply tok_alt_in; [exact He|reflexivity].
          - reflexivity.
          - reflexivity.
          - intros x Hx. simpl in Hx. simpl. tauto. }
        cbv beta iota. apply Parses_ret.
      + eapply Parses_bind.
        { apply Parses_opt_none. eapply FailsAt_Fails. apply exp_token_nostart; [discriminate|].
          apply sfollow_nostart; [reflexivity|exact Hbh]. }
        cbv beta iota. eapply Parses_bind; [apply Parses_ret|]. cbv beta.
        eapply Parses_bind.
        { apply (body_until (tok_alt [TEndFor; TEnd]) [TEndFor; TEnd] body ns e more Hseq He).
          - apply stop_tok_alt; [discriminate|reflexivity].
          - apply tok_alt_in; [exact He|reflexivity].
          - reflexivity.
          - reflexivity.
          - intros x Hx. simpl in Hx. simpl. tauto. }
        cbv beta iota. apply Parses_ret.
    - (* switch *)
      cbn [app]. rewrite <- ?app_assoc. cbn [app]. rewrite stmt_is_shape.
      assert (nostart [TIf; TFor; TForEach; TWhile; TLoop] (st :: ets ++ wts ++ elts ++ e :: more)) as Hn
        by (eapply nostart_ty; [exact Hst|reflexivity]).
      apply (shape_block [parse_if_block pe rs; parse_for_block pe rs; parse_foreach_block pe pd pc rs; parse_while_block pe rs;
                          parse_loop_block rs]).
      { repeat (apply Forall_cons || apply Forall_nil);
          [unfold parse_if_block|unfold parse_for_block|unfold parse_foreach_block|unfold parse_while_block|unfold parse_loop_block];
          apply Fails_bind_l; eapply FailsAt_Fails; (apply exp_token_nostart; [discriminate|]); sub_nostart Hn. }
      (* what follows the when-blocks: else ... endswitch *)
      assert (forall X, mem_ty TElse (TComment :: X) = false -> mem_ty TEndSwitch (TComment :: X) = false ->
                        nostart X (elts ++ e :: more)) as Htail.
      { intros X H1 H2. destruct Hel as [|et body ns Het _]; cbn [app]; (eapply nostart_ty; [eassumption|assumption]). }
      assert (forall X, mem_ty TWhen (TComment :: X) = false -> mem_ty TElse (TComment :: X) = false ->
                        mem_ty TEndSwitch (TComment :: X) = false -> nostart X (wts ++ elts ++ e :: more)) as Hwt.
      { intros X H0 H1 H2. destruct Hwh as [|wt wets we body ns ew rest ws Hwt' _ _ _ _]; cbn [app]; [apply Htail; assumption|].
        eapply nostart_ty; [exact Hwt'|assumption]. }
      unfold parse_switch_block.
      eapply Parses_bind; [apply exp_token_ok; exact Hst|]. cbv beta.
      eapply Parses_bind; [apply pe_parses; [exact Hen|split; apply Hwt; reflexivity]|]. cbv beta.
      eapply Parses_bind.
      { apply (until_no_match_chain _ (fail []) (elts ++ e :: more)).
        - unfold parse_when_block. apply Fails_bind_l. eapply FailsAt_Fails. apply exp_token_nostart; [discriminate|].
          apply Htail; reflexivity.
        - apply whens_chain. exact Hwh.
        - pose proof (Whens_len _ _ Hwh). rewrite app_length. lia. }
      cbv beta. eapply Parses_bind.
      { apply (switch_else_parses elts els e more Hel He). }
      cbv beta iota. destruct els as [[et ens]|]; apply Parses_ret.
    - (* oql select / fetch *)
      assert (exists ot r, ts = ot :: r /\ tty ot = TOQL) as (ot & r & -> & Hot) by (destruct Hoql; eexists _, _; split; eauto).
      rewrite stmt_is_shape.
      assert (nostart (block_first ++ [TUses; TConst; TOSqrBracket; TType; TVar; TExit; TBreak; TContinue; TReturn]) ((ot :: r) ++ more)) as Hn
        by (cbn [app]; eapply nostart_ty; [exact Hot|reflexivity]).
      apply shape_simple; [apply blocks_fail; sub_nostart Hn|]. unfold simples, alt.
      apply alt_go_skip; [cbn [app]; apply comment_fails; rewrite Hot; discriminate|]. intro b1.
      apply alt_go_skip; [apply uses_fails; sub_nostart Hn|]. intro b2.
      apply alt_go_skip; [apply const_fails; sub_nostart Hn|]. intro b3.
      apply alt_go_skip; [apply typedecl_fails; sub_nostart Hn|]. intro b4.
      apply alt_go_skip; [apply localvar_fails; sub_nostart Hn|]. intro b5.
      apply alt_go_skip; [apply control_fails; sub_nostart Hn|]. intro b6.
      apply alt_go_here.
      apply (oql_parses pe pd pc (GExpr (S f)) (GDots (S f)) (GExprK (S f) 2)).
      + intros. apply pe_parses; assumption.
      + intros. apply pd_parses; assumption.
      + intros ts' n' rest' H' Hf'. apply (gram_exprk_rt f 2); assumption.
      + exact Hoql.
      + split; [split; [apply sfollow_nostart; [reflexivity|exact Hfo]|exact Hjm]|apply sfollow_nostart; [reflexivity|exact Hfo]].
    - (* if *)
      cbn [app]. rewrite <- !app_assoc. rewrite stmt_is_shape.
      apply (shape_block []); [apply Forall_nil|].
      unfold parse_if_block.
      eapply Parses_bind; [apply exp_token_ok; exact Hit|]. cbv beta.
      eapply Parses_bind.
      { apply pe_parses; [exact Hc|]. apply sfollow_efollow. eapply IfTail_hd. exact Htail. }
      cbv beta. eapply Parses_bind.
      { apply (if_loop_tail _ _ _ _ Htail it [] (S (S (length (tail ++ more)))) more).
        pose proof (IfTail_len _ _ _ _ Htail). rewrite app_length. lia. }
      cbn [fst snd app]. cbv beta iota.
      match goal with |- Parses (ret ?x) _ _ _ => replace x with (mk_if it cn (pre ++ [last]) e) end; [apply Parses_ret|].
      unfold mk_if. f_equal. f_equal. symmetry. apply blocks_eq.
  Qed.
End StmtLevel.

(* ---------- the knot ---------- *)

Fixpoint GStmt (f : nat) : rel :=
  match f with
  | O => fun _ _ => False
  | S f' => Stmt f' (GStmt f')
  end.

Lemma GStmt_head f ts n : GStmt f ts n -> ts <> [] /\ (forall ty, hd_ty ts = Some ty -> In ty stmt_first).
Proof. destruct f as [|f]; [intros []|]. apply Stmt_head. Qed.

Lemma GStmt_j f ts n : GStmt f ts n -> jfollow ts.
Proof. destruct f as [|f]; [intros []|]. apply Stmt_j. Qed.

Theorem gram_stmt_rt : forall f ts n more, GStmt f ts n -> follow_ok ts (hd_ty more) -> jfollow more ->
  Parses (g_stmt (gram f)) (ts ++ more) more n.
Proof.
  induction f as [|f IH]; intros ts n more H Hf Hj; [destruct H|].
  apply (stmt_parses f (GStmt f) IH (GStmt_head f) (GStmt_j f)); assumption.
Qed.

(* ---------- monotonicity ---------- *)

Lemma IfTail_mono f f' (RS RS' : rel) : (f <= f')%nat -> rel_le RS RS' ->
  forall k cur ts out, IfTail f RS k cur ts out -> IfTail f' RS' k cur ts out.
Proof.
  intros Hle HR k cur ts out H. induction H.
  - apply IT_end; [eapply Seq_mono; eauto|assumption].
  - eapply IT_elseif; eauto; [eapply Seq_mono; eauto|]. apply (GR_mono (S f) (S f')); [lia|eassumption].
  - apply IT_else; auto. eapply Seq_mono; eauto.
Qed.

Lemma Stmt_mono f f' (RS RS' : rel) : (f <= f')%nat -> rel_le RS RS' -> rel_le (Stmt f RS) (Stmt f' RS').
Proof.
  intros Hle HR ts n H.
  assert (rel_le (GDots (S f)) (GDots (S f'))) as Hd by (apply GDots_mono; lia).
  assert (rel_le (GExpr (S f)) (GExpr (S f'))) as He by (apply GR_mono; lia).
  destruct H.
  - apply S_assign; auto.
  - apply S_call; auto.
  - apply S_post; auto.
  - apply S_return; auto.
  - apply S_control; auto.
  - apply S_comment; auto.
  - apply S_var; auto. apply (GType_mono (S f) (S f')); [lia|assumption].
  - apply S_while; auto. eapply Seq_mono; eauto.
  - apply S_loop; auto. eapply Seq_mono; eauto.
  - apply S_repeat; auto. eapply Seq_mono; eauto.
  - apply S_for; auto. eapply Seq_mono; eauto.
  - apply S_for_step; auto. eapply Seq_mono; eauto.
  - apply S_var_abs; auto. apply (GType_mono (S f) (S f')); [lia|assumption].
  - apply S_uses; auto.
  - apply S_const; auto.
  - apply S_typedecl; auto. apply (GType_mono (S f) (S f')); [lia|assumption].
  - apply S_foreach; auto. eapply Seq_mono; eauto.
  - apply S_switch; auto.
    + match goal with Hw : Whens _ _ _ |- _ => induction Hw; [apply Wh_nil|apply Wh_cons; auto; eapply Seq_mono; eauto] end.
    + match goal with Hs : SwitchElse _ _ _ |- _ => destruct Hs; [apply SE_none|apply SE_some; auto; eapply Seq_mono; eauto] end.
  - apply S_oql. eapply OqlStmt_mono; [| | |eassumption]; [exact He|exact Hd|]. intros ts' n' X. unfold GExprK in *. eapply Exp_mono; [|exact X]. apply GR_mono. lia.
  - eapply S_if; auto. eapply IfTail_mono; eauto.
Qed.

Lemma GStmt_mono_S f : rel_le (GStmt f) (GStmt (S f)).
Proof.
  induction f as [|f IH]; [intros ts n []|]. cbn [GStmt]. apply Stmt_mono; [lia|exact IH].
Qed.

Lemma GStmt_mono f f' : (f <= f')%nat -> rel_le (GStmt f) (GStmt f').
Proof.
  induction 1 as [|f' Hle IH]; [intros ts n H; exact H|]. intros ts n H. apply GStmt_mono_S. apply IH. exact H.
Qed.
