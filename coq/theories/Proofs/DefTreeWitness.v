(* Concrete tree of the REAL parser (tools/dump2coq.py) for the non-vacuity examples of the
   tree-level answers (Proofs/DefTreeProofs.v). *)
From GoldV Require Import Base SymTab Scoping Tokens Lexer AstKinds Tree Annot AnnotProofs DefTree DefTreeProofs.

(* real parser, text: 'class aFoo\nconst cA = 1\nfa : int4\nproc Run(p : int4, Fa : int4)\n var l : int4\n l = p + fa + cA\n self.fa = l\n zz = 1\nendproc\n' *)
Definition deftree_ex : node :=
  Node KAstRoot [] 0 (mkRange (mkPos 0 0) (mkPos 0 0)) [] [
    Node KAstClass [97;70;111;111] 0 (mkRange (mkPos 0 0) (mkPos 0 10)) [(1, AT (mkTok 6 (mkRange (mkPos 0 6) (mkPos 0 10)) TIdentifier [97;70;111;111])); (2, AL [])] [];
    Node KAstConstantDeclaration [99;65] 11 (mkRange (mkPos 1 0) (mkPos 1 12)) [(1, AT (mkTok 17 (mkRange (mkPos 1 6) (mkPos 1 8)) TIdentifier [99;65])); (6, AN 0); (7, AL [(mkTok 22 (mkRange (mkPos 1 11) (mkPos 1 12)) TNumericLiteral [49])])] [];
    Node KAstGlobalVariableDeclaration [102;97] 24 (mkRange (mkPos 2 0) (mkPos 2 9)) [(1, AT (mkTok 24 (mkRange (mkPos 2 0) (mkPos 2 2)) TIdentifier [102;97])); (6, AN 0)] [
      Node KAstTypeBasic [105;110;116;52] 29 (mkRange (mkPos 2 5) (mkPos 2 9)) [(0, AT (mkTok 29 (mkRange (mkPos 2 5) (mkPos 2 9)) TIdentifier [105;110;116;52]))] []];
    Node KAstProcedure [82;117;110] 34 (mkRange (mkPos 3 0) (mkPos 8 7)) [(5, AL [(mkTok 116 (mkRange (mkPos 8 0) (mkPos 8 7)) TEndProc [101;110;100;112;114;111;99])]); (6, AN 0)] [
      Node KAstTerminal [82;117;110] 39 (mkRange (mkPos 3 5) (mkPos 3 8)) [(0, AT (mkTok 39 (mkRange (mkPos 3 5) (mkPos 3 8)) TIdentifier [82;117;110]))] [];
      Node KAstParameterDeclarationList [112;97;114;97;109;95;100;101;99;108;115] 42 (mkRange (mkPos 3 8) (mkPos 3 29)) [] [
        Node KAstParameterDeclaration [112] 43 (mkRange (mkPos 3 9) (mkPos 3 17)) [(1, AT (mkTok 43 (mkRange (mkPos 3 9) (mkPos 3 10)) TIdentifier [112])); (7, AL [])] [
          Node KAstTypeBasic [105;110;116;52] 47 (mkRange (mkPos 3 13) (mkPos 3 17)) [(0, AT (mkTok 47 (mkRange (mkPos 3 13) (mkPos 3 17)) TIdentifier [105;110;116;52]))] []];
        Node KAstParameterDeclaration [70;97] 53 (mkRange (mkPos 3 19) (mkPos 3 28)) [(1, AT (mkTok 53 (mkRange (mkPos 3 19) (mkPos 3 21)) TIdentifier [70;97])); (7, AL [])] [
          Node KAstTypeBasic [105;110;116;52] 58 (mkRange (mkPos 3 24) (mkPos 3 28)) [(0, AT (mkTok 58 (mkRange (mkPos 3 24) (mkPos 3 28)) TIdentifier [105;110;116;52]))] []]];
      Node KAstMethodBody [109;101;116;104;111;100;95;98;111;100;121] 65 (mkRange (mkPos 4 1) (mkPos 7 7)) [] [
        Node KAstLocalVariableDeclaration [108] 65 (mkRange (mkPos 4 1) (mkPos 4 13)) [(1, AT (mkTok 69 (mkRange (mkPos 4 5) (mkPos 4 6)) TIdentifier [108]))] [
          Node KAstTypeBasic [105;110;116;52] 73 (mkRange (mkPos 4 9) (mkPos 4 13)) [(0, AT (mkTok 73 (mkRange (mkPos 4 9) (mkPos 4 13)) TIdentifier [105;110;116;52]))] []];
        Node KAstBinaryOp [61] 79 (mkRange (mkPos 5 1) (mkPos 5 16)) [(4, AT (mkTok 81 (mkRange (mkPos 5 3) (mkPos 5 4)) TEquals [61]))] [
          Node KAstTerminal [108] 79 (mkRange (mkPos 5 1) (mkPos 5 2)) [(0, AT (mkTok 79 (mkRange (mkPos 5 1) (mkPos 5 2)) TIdentifier [108]))] [];
          Node KAstBinaryOp [43] 83 (mkRange (mkPos 5 5) (mkPos 5 16)) [(4, AT (mkTok 90 (mkRange (mkPos 5 12) (mkPos 5 13)) TPlus [43]))] [
            Node KAstBinaryOp [43] 83 (mkRange (mkPos 5 5) (mkPos 5 11)) [(4, AT (mkTok 85 (mkRange (mkPos 5 7) (mkPos 5 8)) TPlus [43]))] [
              Node KAstTerminal [112] 83 (mkRange (mkPos 5 5) (mkPos 5 6)) [(0, AT (mkTok 83 (mkRange (mkPos 5 5) (mkPos 5 6)) TIdentifier [112]))] [];
              Node KAstTerminal [102;97] 87 (mkRange (mkPos 5 9) (mkPos 5 11)) [(0, AT (mkTok 87 (mkRange (mkPos 5 9) (mkPos 5 11)) TIdentifier [102;97]))] []];
            Node KAstTerminal [99;65] 92 (mkRange (mkPos 5 14) (mkPos 5 16)) [(0, AT (mkTok 92 (mkRange (mkPos 5 14) (mkPos 5 16)) TIdentifier [99;65]))] []]];
        Node KAstBinaryOp [61] 96 (mkRange (mkPos 6 1) (mkPos 6 12)) [(4, AT (mkTok 104 (mkRange (mkPos 6 9) (mkPos 6 10)) TEquals [61]))] [
          Node KAstBinaryOp [46] 96 (mkRange (mkPos 6 1) (mkPos 6 8)) [(4, AT (mkTok 100 (mkRange (mkPos 6 5) (mkPos 6 6)) TDot [46]))] [
            Node KAstTerminal [115;101;108;102] 96 (mkRange (mkPos 6 1) (mkPos 6 5)) [(0, AT (mkTok 96 (mkRange (mkPos 6 1) (mkPos 6 5)) TIdentifier [115;101;108;102]))] [];
            Node KAstTerminal [102;97] 101 (mkRange (mkPos 6 6) (mkPos 6 8)) [(0, AT (mkTok 101 (mkRange (mkPos 6 6) (mkPos 6 8)) TIdentifier [102;97]))] []];
          Node KAstTerminal [108] 106 (mkRange (mkPos 6 11) (mkPos 6 12)) [(0, AT (mkTok 106 (mkRange (mkPos 6 11) (mkPos 6 12)) TIdentifier [108]))] []];
        Node KAstBinaryOp [61] 109 (mkRange (mkPos 7 1) (mkPos 7 7)) [(4, AT (mkTok 112 (mkRange (mkPos 7 4) (mkPos 7 5)) TEquals [61]))] [
          Node KAstTerminal [122;122] 109 (mkRange (mkPos 7 1) (mkPos 7 3)) [(0, AT (mkTok 109 (mkRange (mkPos 7 1) (mkPos 7 3)) TIdentifier [122;122]))] [];
          Node KAstTerminal [49] 114 (mkRange (mkPos 7 6) (mkPos 7 7)) [(0, AT (mkTok 114 (mkRange (mkPos 7 6) (mkPos 7 7)) TNumericLiteral [49]))] []]]]].

Definition dx_aFoo : str := [97;70;111;111].
Definition rg (a b c d : N) : range := mkRange (mkPos a b) (mkPos c d).

(* class aFoo / const cA = 1 / fa : int4 / proc Run(p : int4, Fa : int4) / var l : int4 /
   l = p + fa + cA / self.fa = l / zz = 1 / endproc *)
Lemma deftree_ex_facts :
  regularb deftree_ex = true /\ foreign deftree_ex = false /\
  e_parent (entity_of_tree deftree_ex) = None /\ e_uses (entity_of_tree deftree_ex) = [] /\
  (* `fa` in the body of Run(p, Fa): the PARAMETER Fa, not the field fa *)
  definition deftree_ex dx_aFoo (mkPos 5 9) = Ans [(rg 3 19 3 21, rg 3 19 3 28)] /\
  (* `cA`: the constant of the class *)
  definition deftree_ex dx_aFoo (mkPos 5 14) = Ans [(rg 1 6 1 8, rg 1 0 1 12)] /\
  (* `l`: the local *)
  definition deftree_ex dx_aFoo (mkPos 5 1) = Ans [(rg 4 5 4 6, rg 4 1 4 13)] /\
  (* `self.fa`: the field, although a parameter Fa exists *)
  definition deftree_ex dx_aFoo (mkPos 6 6) = Ans [(rg 2 0 2 2, rg 2 0 2 9)] /\
  (* `zz`: nothing *)
  definition deftree_ex dx_aFoo (mkPos 7 1) = Ans [] /\
  (* the declared names of the method and of the field *)
  definition deftree_ex dx_aFoo (mkPos 3 5) = Ans [(rg 3 5 3 8, rg 3 0 8 7)] /\
  definition deftree_ex dx_aFoo (mkPos 2 0) = Ans [(rg 2 0 2 2, rg 2 0 2 9)] /\
  (* completion in the body: parameters, local, the constant; after `self.`: field and method *)
  completion deftree_ex dx_aFoo (mkPos 7 1) = Ans [[112]; [70;97]; [108]; [99;65]] /\
  completion deftree_ex dx_aFoo (mkPos 6 6) = Ans [[102;97]; [82;117;110]] /\
  (* the abstract model on entity_of_tree: the same declaration (tag 5 = second parameter), the same labels *)
  resolve_plain [entity_of_tree deftree_ex] dx_aFoo (Some [82;117;110]) [102;97] = Some (dx_aFoo, 5) /\
  complete_plain [entity_of_tree deftree_ex] dx_aFoo (Some [82;117;110]) = [[112]; [70;97]; [108]; [99;65]].
Proof. vm_compute. repeat split; reflexivity. Qed.
