(* Proofs about Model/Flags.v: the annotation-flag protocol cannot deadlock.
   Invariant over every reachable state (any number of threads, any dependency lists, notifications
   at any moment); the wait-for edges are ordered by the ghost push / set times. *)
From GoldV Require Import Base Flags.
Local Open Scope nat_scope.

(* ------------------------------------------------------------------------------------------ *)
(* finite maps, lists                                                                           *)
(* ------------------------------------------------------------------------------------------ *)
Lemma aget_aset u v m k : aget k (aset u v m) = if Nat.eqb k u then Some v else aget k m.
Proof. reflexivity. Qed.

Lemma aget_adel u m k : aget k (adel u m) = if Nat.eqb k u then None else aget k m.
Proof.
  unfold adel. induction m as [|[a b] m IH]; simpl.
  - destruct (Nat.eqb k u); reflexivity.
  - destruct (Nat.eqb u a) eqn:E1; simpl.
    + apply Nat.eqb_eq in E1. subst a. rewrite IH. destruct (Nat.eqb k u) eqn:E2; reflexivity.
    + destruct (Nat.eqb k a) eqn:E2.
      * apply Nat.eqb_eq in E2. subst a. rewrite (Nat.eqb_sym k u), E1. reflexivity.
      * exact IH.
Qed.

Lemma smem_cons u k l : smem k (u :: l) = Nat.eqb k u || smem k l.
Proof. reflexivity. Qed.

Lemma smem_sdel u l k : smem k (sdel u l) = negb (Nat.eqb k u) && smem k l.
Proof.
  unfold smem, sdel. induction l as [|a l IH]; simpl.
  - rewrite Bool.andb_false_r. reflexivity.
  - destruct (Nat.eqb u a) eqn:E1; simpl.
    + apply Nat.eqb_eq in E1. subst a. rewrite IH. destruct (Nat.eqb k u); reflexivity.
    + rewrite IH. destruct (Nat.eqb k a) eqn:E2; simpl; [|reflexivity].
      apply Nat.eqb_eq in E2. subst a. rewrite (Nat.eqb_sym k u), E1. reflexivity.
Qed.

Lemma updl_length {A} n (f : A -> A) l : length (updl n f l) = length l.
Proof. revert n; induction l; intros [|n]; simpl; auto. Qed.

Lemma nth_error_updl_same {A} n (f : A -> A) l : nth_error (updl n f l) n = option_map f (nth_error l n).
Proof. revert n; induction l; intros [|n]; simpl; auto. Qed.

Lemma nth_error_updl_other {A} n m (f : A -> A) l : n <> m -> nth_error (updl n f l) m = nth_error l m.
Proof. revert n m; induction l; intros [|n] [|m] H; simpl; auto; congruence. Qed.

Lemma nth_updl_same {A} n (f : A -> A) l d : n < length l -> nth n (updl n f l) d = f (nth n l d).
Proof. revert n; induction l; intros [|n] H; simpl in *; try lia; auto. apply IHl. lia. Qed.

Lemma nth_updl_other {A} n m (f : A -> A) l d : n <> m -> nth m (updl n f l) d = nth m l d.
Proof. revert n m; induction l; intros [|n] [|m] H; simpl; auto; congruence. Qed.

Lemma nth_updl_oor {A} n (f : A -> A) l : length l <= n -> updl n f l = l.
Proof. revert n; induction l; intros [|n] H; simpl in *; try lia; auto. f_equal. apply IHl. lia. Qed.

(* ------------------------------------------------------------------------------------------ *)
(* the invariant                                                                                *)
(* ------------------------------------------------------------------------------------------ *)
Definition FrameAt (th : list thread) (j : nat) (f : frame) : Prop :=
  exists t, nth_error th j = Some t /\ In f (stack t).

(* the Document object a frame is working on *)
Definition fobj (f : frame) : option nat :=
  match fph f with
  | PStart | PCreate => None
  | PWait o | PLock o | PBuild o _ | PPub o _ | PWalk o _ _ _ => Some o
  end.

(* the frame holds the flag of o *)
Definition holds (f : frame) (o : nat) : Prop :=
  fph f = PBuild o true \/ fph f = PPub o true \/ exists ts l, fph f = PWalk o true ts l.

(* frames below the top: walking, set before the frame above was pushed *)
Fixpoint lower_ok (b : nat) (stk : list frame) : Prop :=
  match stk with
  | [] => True
  | f :: r => (exists o own ts l, fph f = PWalk o own ts l /\ fpush f < ts /\ ts < b) /\ lower_ok (fpush f) r
  end.

Definition top_ok (c : nat) (f : frame) : Prop :=
  match fph f with PWalk _ _ ts _ => fpush f < ts /\ ts < c | _ => True end.

Definition stack_ok (c : nat) (stk : list frame) : Prop :=
  match stk with
  | [] => True
  | f :: r => fpush f < c /\ top_ok c f /\ lower_ok (fpush f) r
  end.

(* only the bottom frame is a (full) request; look-ups are definitions-only *)
Fixpoint nested_ok (stk : list frame) : Prop :=
  match stk with
  | f :: ((_ :: _) as r) => ffull f = false /\ nested_ok r
  | _ => True
  end.

(* what a seeking frame g must stay away from: a Document object o' (of file u') whose walk began
   before g was pushed *)
Definition avoid (s : st) (g : frame) (u' o' : nat) : Prop :=
  match fph g with
  | PStart => furi g = u' -> current s (furi g) <> Some o'
  | PWait o | PLock o => o <> o'
  | _ => True
  end.

Record Inv (s : st) : Prop := {
  iStack : forall i t, nth_error (thr s) i = Some t -> stack_ok (clk s) (stack t) /\ nested_ok (stack t);
  iOwn   : forall i f o, FrameAt (thr s) i f ->
             fph f <> PBuild o false /\ fph f <> PPub o false /\ forall ts l, fph f <> PWalk o false ts l;
  iHoldEq : forall o, oholder (getobj s o) = oat (getobj s o);
  iHold  : forall o j, oholder (getobj s o) = Some j -> exists f, FrameAt (thr s) j f /\ holds f o;
  iObj   : forall i f o, FrameAt (thr s) i f -> fobj f = Some o ->
             o < length (objs s) /\ ouri (getobj s o) = furi f;
  iCur   : forall u o, current s u = Some o -> o < length (objs s) /\ ouri (getobj s o) = u;
  iOpn   : forall u o, aget u (opn s) = Some o -> o < length (objs s) /\ ouri (getobj s o) = u;
  iSav   : forall u o, aget u (sav s) = Some o -> o < length (objs s) /\ ouri (getobj s o) = u;
  (* a walking frame's file has its table set, or its Document object is not the file's any more *)
  iR     : forall i f o own ts l, FrameAt (thr s) i f -> fph f = PWalk o own ts l ->
             smem (furi f) (tbl s) = true \/ current s (furi f) <> Some o;
  (* a look-up never runs into a Document object whose walk began before the look-up did *)
  iEdge  : forall j g i f o' own ts l,
             FrameAt (thr s) j g -> ffull g = false ->
             FrameAt (thr s) i f -> fph f = PWalk o' own ts l -> ts < fpush g ->
             avoid s g (furi f) o'
}.

Lemma Inv_init qs ns : Inv (init qs ns).
Proof.
  assert (Hno : forall j f, ~ FrameAt (thr (init qs ns)) j f).
  { intros j f [t [H1 H2]]. unfold init in H1. simpl in H1. apply nth_error_In in H1.
    apply in_map_iff in H1 as [q [<- _]]. exact H2. }
  constructor.
  - intros i t H. unfold init in H. simpl in H. apply nth_error_In in H. apply in_map_iff in H as [q [<- _]].
    simpl. auto.
  - intros i f o H. destruct (Hno _ _ H).
  - intro o. unfold getobj, init. simpl. destruct o; reflexivity.
  - intros o j H. unfold getobj, init in H. simpl in H. destruct o; discriminate.
  - intros i f o H. destruct (Hno _ _ H).
  - intros u o H. discriminate.
  - intros u o H. discriminate.
  - intros u o H. discriminate.
  - intros i f o own ts l H. destruct (Hno _ _ H).
  - intros j g i f o' own ts l H. destruct (Hno _ _ H).
Qed.

(* ------------------------------------------------------------------------------------------ *)
(* frames after a step of thread i                                                              *)
(* ------------------------------------------------------------------------------------------ *)
Lemma frameat_upd th i t t' j f :
  nth_error th i = Some t ->
  (FrameAt (updl i (fun _ => t') th) j f <-> (j = i /\ In f (stack t')) \/ (j <> i /\ FrameAt th j f)).
Proof.
  intro Hi. unfold FrameAt. split.
  - intros [x [H1 H2]]. destruct (Nat.eq_dec j i) as [->|Hne].
    + left. rewrite nth_error_updl_same, Hi in H1. simpl in H1. inversion H1; subst. auto.
    + right. rewrite nth_error_updl_other in H1 by congruence. split; [exact Hne | eauto].
  - intros [[-> H]|[Hne [x [H1 H2]]]].
    + exists t'. rewrite nth_error_updl_same, Hi. simpl. auto.
    + exists x. rewrite nth_error_updl_other by congruence. auto.
Qed.

Lemma lower_ok_weaken b b' stk : b <= b' -> lower_ok b stk -> lower_ok b' stk.
Proof.
  destruct stk as [|f r]; simpl; [auto|]. intros Hle [[o [own [ts [l [H1 [H2 H3]]]]]] H4].
  split; [|exact H4]. exists o, own, ts, l. repeat split; auto. lia.
Qed.

Lemma lower_ok_walking b stk f : lower_ok b stk -> In f stk ->
  exists o own ts l, fph f = PWalk o own ts l /\ fpush f < ts /\ ts < b.
Proof.
  revert b. induction stk as [|x r IH]; intros b H Hin; [destruct Hin|]. simpl in H.
  destruct H as [[o [own [ts [l [H1 [H2 H3]]]]]] H4]. destruct Hin as [<-|Hin].
  - exists o, own, ts, l. auto.
  - destruct (IH _ H4 Hin) as [o' [own' [ts' [l' [A [B C]]]]]]. exists o', own', ts', l'. repeat split; auto. lia.
Qed.

Lemma stack_ok_mono c c' stk : c <= c' -> stack_ok c stk -> stack_ok c' stk.
Proof.
  destruct stk as [|f r]; simpl; [auto|]. intros Hle [H1 [H2 H3]]. repeat split; auto; try lia.
  unfold top_ok in *. destruct (fph f); auto. lia.
Qed.

Lemma stack_ok_pop c f r : stack_ok c (f :: r) -> stack_ok c r.
Proof.
  simpl. intros [H1 [_ H3]]. destruct r as [|g r']; simpl; [auto|]. simpl in H3.
  destruct H3 as [[o [own [ts [l [A [B C]]]]]] D]. repeat split; [lia | | exact D].
  unfold top_ok. rewrite A. lia.
Qed.

Lemma nested_ok_pop f r : nested_ok (f :: r) -> nested_ok r.
Proof. destruct r; simpl; tauto. Qed.

Lemma nested_top f g r : nested_ok (f :: g :: r) -> ffull f = false.
Proof. simpl. tauto. Qed.

(* the object heap: appending and updating keep the old objects' file *)
Lemma getobj_app s o x : o < length (objs s) -> nth o (objs s ++ [x]) (mkObj 0 ANone None None) = getobj s o.
Proof. intro H. unfold getobj. apply app_nth1. exact H. Qed.

Lemma getobj_new s x : nth (length (objs s)) (objs s ++ [x]) (mkObj 0 ANone None None) = x.
Proof. rewrite app_nth2, Nat.sub_diag by lia. reflexivity. Qed.

Definition same_files (os os' : list obj) : Prop :=
  length os <= length os' /\
  forall o, o < length os -> ouri (nth o os' (mkObj 0 ANone None None)) = ouri (nth o os (mkObj 0 ANone None None)).

Lemma same_files_refl os : same_files os os.
Proof. split; auto. Qed.

Lemma same_files_app os x : same_files os (os ++ [x]).
Proof. split; [rewrite app_length; lia|]. intros o H. rewrite app_nth1 by exact H. reflexivity. Qed.

Lemma same_files_upd os o g : (forall x, ouri (g x) = ouri x) -> same_files os (updl o g os).
Proof.
  intro Hg. split; [rewrite updl_length; lia|]. intros k Hk.
  destruct (Nat.eq_dec o k) as [->|Hne].
  - rewrite nth_updl_same by exact Hk. apply Hg.
  - rewrite nth_updl_other by exact Hne. reflexivity.
Qed.

(* ------------------------------------------------------------------------------------------ *)
(* one generic preservation lemma for every step of a thread                                    *)
(* ------------------------------------------------------------------------------------------ *)
Definition own_ok (f : frame) : Prop :=
  forall o, fph f <> PBuild o false /\ fph f <> PPub o false /\ forall ts l, fph f <> PWalk o false ts l.

Definition dflt := mkObj 0 ANone None None.

Lemma frame_eq_dec (a b : frame) : {a = b} + {a <> b}.
Proof. repeat decide equality. Qed.

Section Generic.
  Variable s : st.
  Variable i : nat.
  Variable t t' : thread.
  Variable os' : list obj.
  Variable sav' : list (nat * nat).
  Variable tbl' : list nat.

  Let s' := mkSt os' (opn s) sav' tbl' (updl i (fun _ => t') (thr s)) (notes s) (S (clk s)).

  Hypothesis HI : Inv s.
  Hypothesis Hi : nth_error (thr s) i = Some t.
  Hypothesis Hfiles : same_files (objs s) os'.
  Hypothesis Hheq : forall o, oholder (nth o os' dflt) = oat (nth o os' dflt).
  Hypothesis Hhold : forall o j, oholder (nth o os' dflt) = Some j ->
      (j <> i /\ oholder (getobj s o) = Some j) \/ (j = i /\ exists f, In f (stack t') /\ holds f o).
  Hypothesis Hsav : forall u o, aget u sav' = Some o ->
      aget u (sav s) = Some o \/ (length (objs s) <= o /\ o < length os' /\ ouri (nth o os' dflt) = u).
  Hypothesis Hsav2 : forall u, aget u sav' = None -> aget u (sav s) = None.
  Hypothesis Htbl : forall u, smem u (tbl s) = true -> smem u tbl' = true.
  Hypothesis Hstk : stack_ok (S (clk s)) (stack t') /\ nested_ok (stack t').
  (* the frames of the new stack: old ones, or new ones with their properties *)
  Hypothesis Hnew : forall f, In f (stack t') -> In f (stack t) \/
      (own_ok f /\
       (forall o, fobj f = Some o -> o < length os' /\ ouri (nth o os' dflt) = furi f) /\
       (forall o own ts l, fph f = PWalk o own ts l -> smem (furi f) tbl' = true \/ current s' (furi f) <> Some o) /\
       (ffull f = false -> forall j x o' own ts l, FrameAt (thr s') j x -> fph x = PWalk o' own ts l ->
            ts < fpush f -> avoid s' f (furi x) o') /\
       (forall o' own ts l, fph f = PWalk o' own ts l -> forall j g, FrameAt (thr s) j g -> ffull g = false ->
            ts < fpush g -> In g (stack t) \/ j <> i -> avoid s' g (furi f) o')).

  Lemma cur_change u : current s' u = current s u \/ exists o, current s' u = Some o /\ length (objs s) <= o.
  Proof.
    unfold current. simpl. destruct (aget u (opn s)) as [o|]; [left; reflexivity|].
    destruct (aget u sav') as [o|] eqn:E.
    - destruct (Hsav u o E) as [H|[H _]]; [left; symmetry; exact H | right; eauto].
    - left. symmetry. apply Hsav2. exact E.
  Qed.

  Lemma old_frame j f : FrameAt (thr s') j f ->
    (j = i /\ In f (stack t')) \/ (j <> i /\ FrameAt (thr s) j f).
  Proof. intro H. apply (proj1 (frameat_upd (thr s) i t t' j f Hi)). exact H. Qed.

  Lemma old_in_t f : In f (stack t) -> FrameAt (thr s) i f.
  Proof. intro H. exists t. auto. Qed.

  Lemma getobj_old o : o < length (objs s) -> ouri (nth o os' dflt) = ouri (getobj s o).
  Proof. intro H. apply (proj2 Hfiles o H). Qed.

  Lemma avoid_old g u' o' : o' < length (objs s) -> avoid s g u' o' -> avoid s' g u' o'.
  Proof.
    intros Ho. unfold avoid. destruct (fph g); auto. intros H Hu.
    destruct (cur_change (furi g)) as [E|[o [E Hlen]]]; rewrite E; [apply H; exact Hu|].
    intro X. inversion X. lia.
  Qed.

  Theorem Inv_thread_step : Inv s'.
  Proof.
    destruct Hstk as [Hstk1 Hstk2].
    assert (Hwalk_old : forall j f o own ts l, FrameAt (thr s) j f -> fph f = PWalk o own ts l -> o < length (objs s)).
    { intros j f o own ts l Hf Hp. apply (iObj _ HI j f o Hf). unfold fobj. rewrite Hp. reflexivity. }
    constructor.
    - (* stacks *)
      intros j x Hx. simpl in Hx. destruct (Nat.eq_dec j i) as [->|Hne].
      + rewrite nth_error_updl_same, Hi in Hx. simpl in Hx. inversion Hx; subst. simpl. auto.
      + rewrite nth_error_updl_other in Hx by congruence. destruct (iStack _ HI j x Hx) as [A B].
        split; [|exact B]. simpl. eapply stack_ok_mono; [|exact A]. lia.
    - (* own *)
      intros j f o Hf. destruct (old_frame j f Hf) as [[-> Hin]|[Hne Hf']]; [|apply (iOwn _ HI j f o Hf')].
      destruct (Hnew f Hin) as [Hold|[H _]]; [apply (iOwn _ HI i f o (old_in_t f Hold)) | apply H].
    - intro o. apply Hheq.
    - (* holders have holding frames *)
      intros o j H. simpl in H. unfold getobj in H. simpl in H.
      destruct (Hhold o j H) as [[Hne Ho]|[-> [f [Hin Hh]]]].
      + destruct (iHold _ HI o j Ho) as [f [Hf Hh]]. exists f. split; [|exact Hh].
        apply (frameat_upd (thr s) i t t' j f Hi). right. auto.
      + exists f. split; [|exact Hh]. apply (frameat_upd (thr s) i t t' i f Hi). left. auto.
    - (* objects of frames *)
      intros j f o Hf Ho. simpl. unfold getobj. simpl.
      assert (Hold : forall j, FrameAt (thr s) j f -> o < length os' /\ ouri (nth o os' dflt) = furi f).
      { intros j' Hf'. destruct (iObj _ HI j' f o Hf' Ho) as [A B]. split; [destruct Hfiles; lia|].
        rewrite getobj_old by exact A. exact B. }
      destruct (old_frame j f Hf) as [[-> Hin]|[Hne Hf']]; [|apply (Hold j Hf')].
      destruct (Hnew f Hin) as [Ho'|[_ [H _]]]; [apply (Hold i (old_in_t f Ho')) | apply H; exact Ho].
    - (* current *)
      intros u o H. unfold getobj. simpl. unfold current in H. simpl in H.
      destruct (aget u (opn s)) as [x|] eqn:E1.
      + inversion H; subst. destruct (iOpn _ HI u o E1) as [A B]. split; [destruct Hfiles; lia|].
        rewrite getobj_old by exact A. exact B.
      + destruct (Hsav u o H) as [Ho|[_ [A B]]]; [|auto].
        destruct (iSav _ HI u o Ho) as [A B]. split; [destruct Hfiles; lia|].
        rewrite getobj_old by exact A. exact B.
    - intros u o H. unfold getobj. simpl in *. destruct (iOpn _ HI u o H) as [A B]. split; [destruct Hfiles; lia|].
      rewrite getobj_old by exact A. exact B.
    - intros u o H. unfold getobj. simpl in *. destruct (Hsav u o H) as [Ho|[_ [A B]]]; [|auto].
      destruct (iSav _ HI u o Ho) as [A B]. split; [destruct Hfiles; lia|]. rewrite getobj_old by exact A. exact B.
    - (* R *)
      intros j f o own ts l Hf Hp. simpl.
      assert (Hold : forall j, FrameAt (thr s) j f -> smem (furi f) tbl' = true \/ current s' (furi f) <> Some o).
      { intros j' Hf'. destruct (iR _ HI j' f o own ts l Hf' Hp) as [A|A]; [left; apply Htbl; exact A|].
        right. destruct (cur_change (furi f)) as [E|[x [E Hlen]]]; rewrite E; [exact A|].
        pose proof (Hwalk_old j' f o own ts l Hf' Hp). intro X. inversion X. lia. }
      destruct (old_frame j f Hf) as [[-> Hin]|[Hne Hf']]; [|apply (Hold j Hf')].
      destruct (Hnew f Hin) as [Ho'|[_ [_ [H _]]]]; [apply (Hold i (old_in_t f Ho')) | eapply H; eauto].
    - (* edges *)
      intros j g k f o' own ts l Hg Hfull Hf Hp Hts.
      assert (Hgc : (j = i /\ In g (stack t') /\ ~ In g (stack t)) \/ (FrameAt (thr s) j g /\ (In g (stack t) \/ j <> i))).
      { destruct (old_frame j g Hg) as [[-> Hin]|[Hne Hg']]; [|right; auto].
        destruct (Hnew g Hin) as [Hold|_]; [right; split; [apply old_in_t; exact Hold | auto]|].
        destruct (in_dec frame_eq_dec g (stack t)); [right; split; [apply old_in_t|]; auto | left; auto]. }
      destruct Hgc as [[-> [Hin Hnin]]|[Hg' Hside]].
      + (* g is a new frame *)
        destruct (Hnew g Hin) as [Hold|[_ [_ [_ [H _]]]]]; [contradiction|]. eapply H; eauto.
      + (* g is an old frame *)
        destruct (old_frame k f Hf) as [[-> Hinf]|[Hne Hf']].
        * destruct (Hnew f Hinf) as [Hold|[_ [_ [_ [_ H]]]]].
          -- apply avoid_old; [eapply Hwalk_old; [apply old_in_t; exact Hold | exact Hp]|].
             eapply (iEdge _ HI j g i f); eauto. apply old_in_t. exact Hold.
          -- eapply H; eauto.
        * apply avoid_old; [eapply Hwalk_old; eauto|]. eapply (iEdge _ HI j g k f); eauto.
  Qed.
End Generic.

(* ------------------------------------------------------------------------------------------ *)
(* helpers for the individual steps                                                             *)
(* ------------------------------------------------------------------------------------------ *)
Lemma hold_gen s i t stk' os' :
  Inv s -> nth_error (thr s) i = Some t ->
  (forall f o, In f (stack t) -> holds f o -> oholder (nth o os' dflt) = Some i -> exists f', In f' stk' /\ holds f' o) ->
  (forall o j, oholder (nth o os' dflt) = Some j ->
     oholder (getobj s o) = Some j \/ (j = i /\ exists f, In f stk' /\ holds f o)) ->
  forall o j, oholder (nth o os' dflt) = Some j ->
    (j <> i /\ oholder (getobj s o) = Some j) \/ (j = i /\ exists f, In f stk' /\ holds f o).
Proof.
  intros HI Hi Hkeep Hsrc o j H. destruct (Hsrc o j H) as [Ho|Hn]; [|right; exact Hn].
  destruct (Nat.eq_dec j i) as [->|Hne]; [|left; auto].
  right. split; [reflexivity|]. destruct (iHold _ HI o i Ho) as [f [[x [Hx Hin]] Hh]].
  rewrite Hi in Hx. inversion Hx; subst x. eapply Hkeep; eauto.
Qed.

Lemma holds_with_ph f p o : fph f = p -> holds (with_ph f p) o <-> holds f o.
Proof. intro H. unfold holds, with_ph. simpl. rewrite H. tauto. Qed.

Lemma app_holder s x o j :
  oholder x = None -> oholder (nth o (objs s ++ [x]) dflt) = Some j -> oholder (getobj s o) = Some j.
Proof.
  intros Hx H. destruct (lt_dec o (length (objs s))) as [Hl|Hl].
  - rewrite app_nth1 in H by exact Hl. exact H.
  - destruct (Nat.eq_dec o (length (objs s))) as [->|Hne].
    + rewrite app_nth2, Nat.sub_diag in H by lia. simpl in H. congruence.
    + rewrite nth_overflow in H by (rewrite app_length; simpl; lia). discriminate.
Qed.

Lemma app_heq s x : Inv s -> oholder x = oat x -> forall o, oholder (nth o (objs s ++ [x]) dflt) = oat (nth o (objs s ++ [x]) dflt).
Proof.
  intros HI Hx o. destruct (lt_dec o (length (objs s))) as [Hl|Hl].
  - rewrite app_nth1 by exact Hl. apply (iHoldEq _ HI o).
  - destruct (Nat.eq_dec o (length (objs s))) as [->|Hne].
    + rewrite app_nth2, Nat.sub_diag by lia. exact Hx.
    + rewrite nth_overflow by (rewrite app_length; simpl; lia). reflexivity.
Qed.

Lemma avoid_cur s s' g u o : (forall k, current s' k = current s k) -> avoid s g u o -> avoid s' g u o.
Proof. intros H. unfold avoid. destruct (fph g); auto. rewrite H. auto. Qed.

(* a walking frame of the new state that sits in thread i's new stack f' :: r, where f' is not
   walking, is an old frame *)
Lemma frame_in_tail th i t f r j x :
  nth_error th i = Some t -> stack t = f :: r ->
  (j = i /\ In x r) \/ (j <> i /\ FrameAt th j x) -> FrameAt th j x.
Proof.
  intros Hi Hs [[-> Hin]|[_ H]]; [|exact H]. exists t. split; [exact Hi|]. rewrite Hs. right. exact Hin.
Qed.

Lemma top_frame th i t f r : nth_error th i = Some t -> stack t = f :: r -> FrameAt th i f.
Proof. intros Hi Hs. exists t. split; [exact Hi|]. rewrite Hs. left. reflexivity. Qed.

Lemma lower_times s i t f r x :
  Inv s -> nth_error (thr s) i = Some t -> stack t = f :: r -> In x r ->
  exists o own ts l, fph x = PWalk o own ts l /\ ts < fpush f.
Proof.
  intros HI Hi Hs Hin. destruct (iStack _ HI i t Hi) as [A _]. rewrite Hs in A. simpl in A.
  destruct A as [_ [_ A]]. destruct (lower_ok_walking _ _ _ A Hin) as [o [own [ts [l [H1 [_ H3]]]]]].
  exists o, own, ts, l. auto.
Qed.

Lemma push_lt_clk s i t f r :
  Inv s -> nth_error (thr s) i = Some t -> stack t = f :: r -> fpush f < clk s.
Proof. intros HI Hi Hs. destruct (iStack _ HI i t Hi) as [A _]. rewrite Hs in A. apply A. Qed.

Lemma any_push_lt_clk s j g : Inv s -> FrameAt (thr s) j g -> fpush g < clk s.
Proof.
  intros HI [t [Hj Hin]]. destruct (iStack _ HI j t Hj) as [A _].
  destruct (stack t) as [|f r] eqn:Es; [destruct Hin|]. simpl in A. destruct A as [A1 [_ A3]].
  destruct Hin as [<-|Hin]; [exact A1|].
  destruct (lower_ok_walking _ _ _ A3 Hin) as [o [own [ts [l [_ [H2 H3]]]]]]. lia.
Qed.

(* a thread never comes back to a Document object it is itself annotating *)
Lemma no_reentry s i t f r o :
  Inv s -> nth_error (thr s) i = Some t -> stack t = f :: r ->
  (fph f = PLock o \/ fph f = PWait o) -> oat (getobj s o) = Some i -> False.
Proof.
  intros HI Hi Hs Hp Hat. rewrite <- (iHoldEq _ HI o) in Hat.
  destruct (iHold _ HI o i Hat) as [x [[t0 [Ht0 Hin]] Hh]]. rewrite Hi in Ht0. inversion Ht0; subst t0.
  rewrite Hs in Hin. destruct Hin as [<-|Hin].
  - unfold holds in Hh. destruct Hp as [Hp|Hp]; rewrite Hp in Hh; destruct Hh as [H|[H|[a [b H]]]]; discriminate.
  - destruct (lower_times s i t f r x HI Hi Hs Hin) as [o' [own [ts [l [Hx Hts]]]]].
    assert (Hnest : ffull f = false).
    { destruct (iStack _ HI i t Hi) as [_ B]. rewrite Hs in B. destruct r as [|y r']; [destruct Hin|]. apply (nested_top _ _ _ B). }
    assert (o' = o).
    { unfold holds in Hh. rewrite Hx in Hh. destruct Hh as [H|[H|[a [b H]]]]; try discriminate. inversion H. reflexivity. }
    subst o'.
    pose proof (iEdge _ HI i f i x o own ts l (top_frame _ _ _ _ _ Hi Hs)
                  Hnest (frame_in_tail _ _ _ f r i x Hi Hs (or_introl (conj eq_refl Hin))) Hx Hts) as Hav.
    unfold avoid in Hav. destruct Hp as [Hp|Hp]; rewrite Hp in Hav; congruence.
Qed.

(* ------------------------------------------------------------------------------------------ *)
(* every step keeps the invariant                                                               *)
(* ------------------------------------------------------------------------------------------ *)
Ltac new_frame_basics := unfold own_ok, fobj, with_ph; simpl.

(* replacing the top frame by a frame that neither seeks nor walks; the objects may change in
   everything but their file and their flag *)
Lemma step_replace_plain s i t f r p os' :
  Inv s -> nth_error (thr s) i = Some t -> stack t = f :: r ->
  same_files (objs s) os' ->
  (forall o, oholder (nth o os' dflt) = oholder (getobj s o) /\ oat (nth o os' dflt) = oat (getobj s o)) ->
  (forall o, p <> PBuild o false /\ p <> PPub o false /\ forall ts l, p <> PWalk o false ts l) ->
  (forall o, match p with PWait x | PLock x | PBuild x _ | PPub x _ | PWalk x _ _ _ => x = o | _ => False end ->
             o < length (objs s) /\ ouri (getobj s o) = furi f) ->
  match p with PStart | PWait _ | PLock _ | PWalk _ _ _ _ => False | _ => True end ->
  (forall o, holds f o -> holds (with_ph f p) o) ->
  Inv (put_thr (put_objs s os') i (set_top t (with_ph f p))).
Proof.
  intros HI Hi Hs Hfiles Hkeep Hown Hobj Hp Hh.
  assert (Hst : stack (set_top t (with_ph f p)) = with_ph f p :: r) by (unfold set_top; rewrite Hs; reflexivity).
  apply (Inv_thread_step s i t (set_top t (with_ph f p)) os' (sav s) (tbl s) HI Hi).
  - exact Hfiles.
  - intro o. destruct (Hkeep o) as [A B]. rewrite A, B. apply (iHoldEq _ HI).
  - apply (hold_gen s i t _ os' HI Hi).
    + intros x o Hin Hx _. rewrite Hst. rewrite Hs in Hin. destruct Hin as [<-|Hin]; [exists (with_ph f p); simpl; auto | exists x; simpl; auto].
    + intros o j H. left. rewrite <- (proj1 (Hkeep o)). exact H.
  - auto.
  - auto.
  - auto.
  - rewrite Hst. destruct (iStack _ HI i t Hi) as [A B]. rewrite Hs in A, B. split.
    + simpl in *. destruct A as [A1 [A2 A3]]. repeat split; [lia | | exact A3].
      unfold top_ok, with_ph. simpl. destruct p; auto; contradiction.
    + destruct r; simpl in *; auto.
  - rewrite Hst. intros x [<-|Hin]; [right | left; rewrite Hs; right; exact Hin].
    split; [intro o; apply Hown|]. split.
    { intros o Ho. unfold fobj, with_ph in Ho. simpl in Ho.
      assert (Hx : o < length (objs s) /\ ouri (getobj s o) = furi f).
      { apply Hobj. destruct p; try discriminate; inversion Ho; reflexivity. }
      destruct Hx as [X Y]. split; [destruct Hfiles; lia|]. simpl. unfold dflt. rewrite (proj2 Hfiles o X). exact Y. }
    split; [intros o own ts l H; unfold with_ph in H; simpl in H; subst p; contradiction|].
    split.
    { intros _ j x o' own ts l _ _ _. unfold avoid, with_ph. simpl. destruct p; auto; contradiction. }
    { intros o' own ts l H. unfold with_ph in H. simpl in H. subst p. contradiction. }
Qed.

Lemma put_objs_same s : put_objs s (objs s) = s.
Proof. destruct s; reflexivity. Qed.

(* the objects of walking frames exist *)
Lemma walk_obj s j x o own ts l :
  Inv s -> FrameAt (thr s) j x -> fph x = PWalk o own ts l -> o < length (objs s) /\ ouri (getobj s o) = furi x.
Proof. intros HI Hx Hp. apply (iObj _ HI j x o Hx). unfold fobj. rewrite Hp. reflexivity. Qed.

(* the top frame starts to seek a fetched / fresh Document object o *)
Lemma step_seek s i t f r p o os' sav' :
  Inv s -> nth_error (thr s) i = Some t -> stack t = f :: r ->
  (p = PWait o \/ p = PLock o) ->
  same_files (objs s) os' ->
  (forall k, oholder (nth k os' dflt) = oat (nth k os' dflt)) ->
  (forall k j, oholder (nth k os' dflt) = Some j -> oholder (getobj s k) = Some j) ->
  (forall u k, aget u sav' = Some k ->
      aget u (sav s) = Some k \/ (length (objs s) <= k /\ k < length os' /\ ouri (nth k os' dflt) = u)) ->
  (forall u, aget u sav' = None -> aget u (sav s) = None) ->
  o < length os' -> ouri (nth o os' dflt) = furi f ->
  (ffull f = false -> forall j x o' own ts l, FrameAt (thr s) j x -> fph x = PWalk o' own ts l -> ts < fpush f -> o <> o') ->
  (forall k, ~ holds f k) ->
  Inv (mkSt os' (opn s) sav' (tbl s) (updl i (fun _ => set_top t (with_ph f p)) (thr s)) (notes s) (S (clk s))).
Proof.
  intros HI Hi Hs Hp Hfiles Hheq Hsrc Hsav Hsav2 Ho1 Ho2 Hav Hnh.
  assert (Hst : stack (set_top t (with_ph f p)) = with_ph f p :: r) by (unfold set_top; rewrite Hs; reflexivity).
  apply (Inv_thread_step s i t (set_top t (with_ph f p)) os' sav' (tbl s) HI Hi); auto.
  - apply (hold_gen s i t _ os' HI Hi); [|intros k j H; left; apply Hsrc; exact H].
    intros x k Hin Hx _. rewrite Hst. rewrite Hs in Hin. destruct Hin as [<-|Hin]; [destruct (Hnh k Hx) | exists x; simpl; auto].
  - rewrite Hst. destruct (iStack _ HI i t Hi) as [A B]. rewrite Hs in A, B. split.
    + simpl in *. destruct A as [A1 [A2 A3]]. repeat split; [lia | | exact A3].
      unfold top_ok, with_ph. simpl. destruct Hp; subst p; exact Logic.I.
    + destruct r; simpl in *; auto.
  - rewrite Hst. intros x [<-|Hin]; [right | left; rewrite Hs; right; exact Hin].
    split; [intro k; unfold with_ph; simpl; destruct Hp; subst p; repeat split; try discriminate; intros; discriminate|].
    split.
    { intros k Hk. unfold fobj, with_ph in Hk. simpl in Hk. destruct Hp; subst p; inversion Hk; subst k; auto. }
    split; [intros k own ts l H; unfold with_ph in H; simpl in H; destruct Hp; subst p; discriminate|].
    split.
    { intros Hfull j x o' own ts l Hx Hpx Hts. simpl in Hts.
      assert (Hold : FrameAt (thr s) j x).
      { apply (frameat_upd (thr s) i t _ j x Hi) in Hx. destruct Hx as [[-> Hin]|[_ H]]; [|exact H].
        rewrite Hst in Hin. destruct Hin as [<-|Hin].
        - unfold with_ph in Hpx. simpl in Hpx. destruct Hp; subst p; discriminate.
        - exists t. split; [exact Hi | rewrite Hs; right; exact Hin]. }
      unfold avoid, with_ph. simpl. destruct Hp; subst p; eapply Hav; eauto. }
    { intros o' own ts l H. unfold with_ph in H. simpl in H. destruct Hp; subst p; discriminate. }
Qed.

(* the top frame returns *)
Lemma step_pop s i t f r os' :
  Inv s -> nth_error (thr s) i = Some t -> stack t = f :: r ->
  same_files (objs s) os' ->
  (forall k, oholder (nth k os' dflt) = oat (nth k os' dflt)) ->
  (forall k j, oholder (nth k os' dflt) = Some j -> oholder (getobj s k) = Some j) ->
  (forall k, holds f k -> oholder (nth k os' dflt) = None) ->
  Inv (mkSt os' (opn s) (sav s) (tbl s) (updl i (fun _ => pop t) (thr s)) (notes s) (S (clk s))).
Proof.
  intros HI Hi Hs Hfiles Hheq Hsrc Hrel.
  assert (Hst : stack (pop t) = r) by (unfold pop; rewrite Hs; reflexivity).
  apply (Inv_thread_step s i t (pop t) os' (sav s) (tbl s) HI Hi); auto.
  - apply (hold_gen s i t _ os' HI Hi); [|intros k j H; left; apply Hsrc; exact H].
    intros x k Hin Hx Hk. rewrite Hst. rewrite Hs in Hin. destruct Hin as [<-|Hin]; [rewrite (Hrel k Hx) in Hk; discriminate | eauto].
  - rewrite Hst. destruct (iStack _ HI i t Hi) as [A B]. rewrite Hs in A, B. split.
    + apply stack_ok_mono with (clk s); [lia|]. eapply stack_ok_pop; eauto.
    + eapply nested_ok_pop; eauto.
  - rewrite Hst. intros x Hin. left. rewrite Hs. right. exact Hin.
Qed.

(* a request is taken from the queue *)
Lemma step_start s i t u q :
  Inv s -> nth_error (thr s) i = Some t -> stack t = [] ->
  Inv (put_thr s i (mkT [mkF u true true PStart (clk s)] q)).
Proof.
  intros HI Hi Hs.
  apply (Inv_thread_step s i t (mkT [mkF u true true PStart (clk s)] q) (objs s) (sav s) (tbl s) HI Hi); auto.
  - apply same_files_refl.
  - apply (iHoldEq _ HI).
  - apply (hold_gen s i t _ (objs s) HI Hi); [|auto]. intros x k Hin. rewrite Hs in Hin. destruct Hin.
  - simpl. repeat split; auto.
  - simpl. intros x [<-|[]]. right. split; [intro k; simpl; repeat split; try discriminate; intros; discriminate|].
    split; [intros k H; discriminate|]. split; [intros k own ts l H; discriminate|].
    split; [intro H; discriminate | intros o' own ts l H; discriminate].
Qed.

(* the flag is taken: PLock o -> PBuild o true *)
Lemma step_acquire s i t f r o :
  Inv s -> nth_error (thr s) i = Some t -> stack t = f :: r -> fph f = PLock o ->
  oholder (getobj s o) = None ->
  Inv (put_thr (put_objs s (updl o (fun x => mkObj (ouri x) (oann x) (Some i) (Some i)) (objs s))) i
               (set_top t (with_ph f (PBuild o true)))).
Proof.
  intros HI Hi Hs Hp Hfree.
  set (os' := updl o (fun x => mkObj (ouri x) (oann x) (Some i) (Some i)) (objs s)).
  assert (Hst : stack (set_top t (with_ph f (PBuild o true))) = with_ph f (PBuild o true) :: r) by (unfold set_top; rewrite Hs; reflexivity).
  destruct (iObj _ HI i f o (top_frame _ _ _ _ _ Hi Hs)) as [Ho1 Ho2]; [unfold fobj; rewrite Hp; reflexivity|].
  assert (Hnth : forall k, nth k os' dflt = if Nat.eqb k o then mkObj (ouri (getobj s o)) (oann (getobj s o)) (Some i) (Some i) else getobj s k).
  { intro k. unfold os'. destruct (Nat.eqb k o) eqn:E.
    - apply Nat.eqb_eq in E. subst k. rewrite nth_updl_same by exact Ho1. reflexivity.
    - apply Nat.eqb_neq in E. rewrite nth_updl_other by congruence. reflexivity. }
  apply (Inv_thread_step s i t _ os' (sav s) (tbl s) HI Hi); auto.
  - apply same_files_upd. reflexivity.
  - intro k. rewrite Hnth. destruct (Nat.eqb k o); [reflexivity | apply (iHoldEq _ HI)].
  - apply (hold_gen s i t _ os' HI Hi).
    + intros x k Hin Hx _. rewrite Hst. rewrite Hs in Hin. destruct Hin as [<-|Hin]; [|exists x; simpl; auto].
      unfold holds in Hx. rewrite Hp in Hx. destruct Hx as [H|[H|[a [b H]]]]; discriminate.
    + intros k j H. rewrite Hnth in H. destruct (Nat.eqb k o) eqn:E; [|left; exact H].
      apply Nat.eqb_eq in E. subst k. simpl in H. inversion H; subst j. right. split; [reflexivity|].
      exists (with_ph f (PBuild o true)). rewrite Hst. split; [left; reflexivity | left; reflexivity].
  - rewrite Hst. destruct (iStack _ HI i t Hi) as [A B]. rewrite Hs in A, B. split.
    + simpl in *. destruct A as [A1 [A2 A3]]. repeat split; [lia | exact A3].
    + destruct r; simpl in *; auto.
  - rewrite Hst. intros x [<-|Hin]; [right | left; rewrite Hs; right; exact Hin].
    split; [intro k; simpl; repeat split; try discriminate; intros; discriminate|].
    split.
    { intros k Hk. unfold fobj in Hk. simpl in Hk. inversion Hk; subst k. split; [unfold os'; rewrite updl_length; exact Ho1|].
      rewrite Hnth, Nat.eqb_refl. simpl. exact Ho2. }
    split; [intros k own ts l H; discriminate|].
    split; [intros _ j x o' own ts l _ _ _; exact Logic.I | intros o' own ts l H; discriminate].
Qed.

(* the top frame walks: the table has just been set (ts = now), or one look-up found its table *)
Lemma step_walk s i t f r o ts l tbl' :
  Inv s -> nth_error (thr s) i = Some t -> stack t = f :: r ->
  (forall u, smem u (tbl s) = true -> smem u tbl' = true) ->
  ((fph f = PPub o true /\ ts = clk s /\ smem (furi f) tbl' = true) \/
   (exists l0, fph f = PWalk o true ts l0 /\ tbl' = tbl s)) ->
  Inv (mkSt (objs s) (opn s) (sav s) tbl' (updl i (fun _ => set_top t (with_ph f (PWalk o true ts l))) (thr s))
            (notes s) (S (clk s))).
Proof.
  intros HI Hi Hs Htbl Hcase.
  set (f' := with_ph f (PWalk o true ts l)).
  assert (Hst : stack (set_top t f') = f' :: r) by (unfold set_top; rewrite Hs; reflexivity).
  pose proof (top_frame _ _ _ _ _ Hi Hs) as Hf.
  assert (Hobj : o < length (objs s) /\ ouri (getobj s o) = furi f).
  { apply (iObj _ HI i f o Hf). unfold fobj. destruct Hcase as [[H _]|[l0 [H _]]]; rewrite H; reflexivity. }
  assert (Hcur : forall s', opn s' = opn s -> sav s' = sav s -> forall k, current s' k = current s k).
  { intros s' E1 E2 k. unfold current. rewrite E1, E2. reflexivity. }
  apply (Inv_thread_step s i t (set_top t f') (objs s) (sav s) tbl' HI Hi); auto.
  - apply same_files_refl.
  - apply (iHoldEq _ HI).
  - apply (hold_gen s i t _ (objs s) HI Hi); [|auto].
    intros x k Hin Hx _. rewrite Hst. rewrite Hs in Hin. destruct Hin as [<-|Hin]; [|exists x; simpl; auto].
    exists f'. split; [left; reflexivity|]. unfold holds in *. unfold f', with_ph. simpl.
    destruct Hcase as [[H _]|[l0 [H _]]]; rewrite H in Hx; destruct Hx as [X|[X|[a [b X]]]]; try discriminate; inversion X; subst; right; right; eauto.
  - rewrite Hst. destruct (iStack _ HI i t Hi) as [A B]. rewrite Hs in A, B. split.
    + simpl in A. destruct A as [A1 [A2 A3]]. simpl. split; [simpl; lia|]. split; [|exact A3].
      unfold top_ok, f', with_ph. simpl. destruct Hcase as [[H [-> _]]|[l0 [H _]]]; [lia|].
      unfold top_ok in A2. rewrite H in A2. lia.
    + destruct r; simpl in *; auto.
  - rewrite Hst. intros x [<-|Hin]; [right | left; rewrite Hs; right; exact Hin].
    split; [intro k; simpl; repeat split; try discriminate; intros; discriminate|].
    split; [intros k Hk; unfold fobj in Hk; simpl in Hk; inversion Hk; subst k; exact Hobj|].
    split.
    { intros k own ts' l' H. unfold f', with_ph in H. simpl in H. inversion H; subst. simpl.
      destruct Hcase as [[_ [_ Hm]]|[l0 [Hp ->]]]; [left; exact Hm|].
      destruct (iR _ HI i f k true ts' l0 Hf Hp) as [X|X]; [left; exact X | right; exact X]. }
    split; [intro H; intros; exact Logic.I|].
    intros o' own ts' l' H j g Hg Hfull Hts _. unfold f', with_ph in H. simpl in H. inversion H; subst. simpl.
    destruct Hcase as [[_ [-> _]]|[l0 [Hp ->]]].
    + pose proof (any_push_lt_clk s j g HI Hg). lia.
    + apply avoid_cur with s; [intro k; reflexivity|]. eapply (iEdge _ HI j g i f); eauto.
Qed.

(* a look-up finds no table: a frame for the file is pushed *)
Lemma step_push s i t f r o ts u l :
  Inv s -> nth_error (thr s) i = Some t -> stack t = f :: r ->
  fph f = PWalk o true ts (u :: l) -> smem u (tbl s) = false ->
  Inv (put_thr s i (mkT (mkF u false false PStart (clk s) :: with_ph f (PWalk o true ts l) :: tl (stack t)) (queue t))).
Proof.
  intros HI Hi Hs Hp Hm.
  set (f' := with_ph f (PWalk o true ts l)). set (g := mkF u false false PStart (clk s)).
  rewrite Hs. simpl tl.
  pose proof (top_frame _ _ _ _ _ Hi Hs) as Hf.
  destruct (walk_obj s i f o true ts (u :: l) HI Hf Hp) as [Ho1 Ho2].
  apply (Inv_thread_step s i t (mkT (g :: f' :: r) (queue t)) (objs s) (sav s) (tbl s) HI Hi); auto.
  - apply same_files_refl.
  - apply (iHoldEq _ HI).
  - apply (hold_gen s i t _ (objs s) HI Hi); [|auto].
    intros x k Hin Hx _. simpl. rewrite Hs in Hin. destruct Hin as [<-|Hin]; [|exists x; auto].
    exists f'. split; [auto|]. unfold holds in *. rewrite Hp in Hx. unfold f', with_ph. simpl.
    destruct Hx as [X|[X|[a [b X]]]]; try discriminate. inversion X; subst. right; right; eauto.
  - simpl. destruct (iStack _ HI i t Hi) as [A B]. rewrite Hs in A, B. simpl in A. destruct A as [A1 [A2 A3]].
    unfold top_ok in A2. rewrite Hp in A2. split.
    + repeat split; [lia | | exact A3]. exists o, true, ts, l. repeat split; auto; lia.
    + split; [reflexivity|]. destruct r; simpl in *; auto.
  - simpl. intros x [<-|[<-|Hin]]; [right | right | left; rewrite Hs; right; exact Hin].
    + (* the new seeking frame *)
      split; [intro k; simpl; repeat split; try discriminate; intros; discriminate|].
      split; [intros k H; discriminate|]. split; [intros k own ts' l' H; discriminate|].
      split; [|intros o' own ts' l' H; discriminate].
      intros _ j x o' own ts' l' Hx Hpx _. unfold avoid. simpl. intros Hu.
      (* x walks on a Document object of file u, whose table is not set: not the current one *)
      assert (HR : smem (furi x) (tbl s) = true \/ current s (furi x) <> Some o').
      { apply (frameat_upd (thr s) i t _ j x Hi) in Hx. destruct Hx as [[-> Hin]|[_ H]]; [|eapply (iR _ HI j x); eauto].
        simpl in Hin. destruct Hin as [<-|[<-|Hin]]; [discriminate | |].
        - unfold f', with_ph in Hpx. simpl in Hpx. inversion Hpx; subst. simpl. eapply (iR _ HI i f); eauto.
        - eapply (iR _ HI i x); eauto. exists t. split; [exact Hi | rewrite Hs; right; exact Hin]. }
      rewrite <- Hu in HR. destruct HR as [X|X]; [congruence|]. exact X.
    + (* the walking frame below it *)
      split; [intro k; simpl; repeat split; try discriminate; intros; discriminate|].
      split; [intros k Hk; unfold fobj in Hk; simpl in Hk; inversion Hk; subst k; auto|].
      split.
      { intros k own ts' l' H. unfold f', with_ph in H. simpl in H. inversion H; subst. simpl.
        destruct (iR _ HI i f k true ts' (u :: l') Hf Hp) as [X|X]; [left; exact X | right; exact X]. }
      split; [intro H; intros; exact Logic.I|].
      intros o' own ts' l' H j g0 Hg Hfull Hts _. unfold f', with_ph in H. simpl in H. inversion H; subst. simpl.
      apply avoid_cur with s; [intro k; reflexivity|]. eapply (iEdge _ HI j g0 i f); eauto.
Qed.

Lemma own_true s i t f r : Inv s -> nth_error (thr s) i = Some t -> stack t = f :: r ->
  forall o own, (fph f = PBuild o own \/ fph f = PPub o own \/ exists ts l, fph f = PWalk o own ts l) -> own = true.
Proof.
  intros HI Hi Hs o own H. destruct own; [reflexivity|]. exfalso.
  destruct (iOwn _ HI i f o (top_frame _ _ _ _ _ Hi Hs)) as [A [B C]].
  destruct H as [H|[H|[ts [l H]]]]; [apply A | apply B | apply (C ts l)]; exact H.
Qed.

Theorem tstep_Inv deps s i s' : Inv s -> tstep deps s i = Some s' -> Inv s'.
Proof.
  intros HI H. unfold tstep in H.
  destruct (nth_error (thr s) i) as [t|] eqn:Hi; [|discriminate].
  destruct (stack t) as [|f r] eqn:Hs.
  { destruct (queue t) as [|u q]; [discriminate|]. inversion H; subst. eapply step_start; eauto. }
  pose proof (top_frame _ _ _ _ _ Hi Hs) as Hf.
  destruct (fph f) as [| |o|o|o own|o own|o own ts [|u l]] eqn:Hp.
  - (* PStart *)
    destruct (current s (furi f)) as [o|] eqn:Ec.
    + inversion H; subst. destruct (iCur _ HI _ _ Ec) as [Ho1 Ho2].
      apply (step_seek s i t f r (after_fetch s o) o (objs s) (sav s) HI Hi Hs); auto.
      * unfold after_fetch. destruct (oann (getobj s o)); auto.
      * apply same_files_refl.
      * apply (iHoldEq _ HI).
      * intros Hfull j x o' own ts l Hx Hpx Hts E. subst o'.
        pose proof (iEdge _ HI i f j x o own ts l Hf Hfull Hx Hpx Hts) as Hav.
        unfold avoid in Hav. rewrite Hp in Hav. destruct (walk_obj s j x o own ts l HI Hx Hpx) as [_ Hu].
        apply Hav; [congruence | exact Ec].
      * intros k Hk. unfold holds in Hk. rewrite Hp in Hk. destruct Hk as [X|[X|[a [b X]]]]; discriminate.
    + destruct (fcache f).
      * inversion H; subst. rewrite <- (put_objs_same s) at 1.
        apply (step_replace_plain s i t f r PCreate (objs s) HI Hi Hs); auto.
        -- apply same_files_refl.
        -- intro k; repeat split; try discriminate; intros; discriminate.
        -- intros k [].
        -- intros k Hk. unfold holds in Hk. rewrite Hp in Hk. destruct Hk as [X|[X|[a [b X]]]]; discriminate.
      * inversion H; subst.
        apply (step_seek s i t f r (PLock (length (objs s))) (length (objs s)) (objs s ++ [mkObj (furi f) ANone None None]) (sav s) HI Hi Hs); auto.
        -- apply same_files_app.
        -- apply app_heq; [exact HI | reflexivity].
        -- intros k j Hk. apply (app_holder s (mkObj (furi f) ANone None None) k j eq_refl Hk).
        -- rewrite app_length. simpl. lia.
        -- unfold dflt. rewrite getobj_new. reflexivity.
        -- intros _ j x o' own ts l Hx Hpx _ E. destruct (walk_obj s j x o' own ts l HI Hx Hpx). lia.
        -- intros k Hk. unfold holds in Hk. rewrite Hp in Hk. destruct Hk as [X|[X|[a [b X]]]]; discriminate.
  - (* PCreate *)
    inversion H; subst.
    apply (step_seek s i t f r (PLock (length (objs s))) (length (objs s)) (objs s ++ [mkObj (furi f) ANone None None])
                     (aset (furi f) (length (objs s)) (sav s)) HI Hi Hs); auto.
    + apply same_files_app.
    + apply app_heq; [exact HI | reflexivity].
    + intros k j Hk. apply (app_holder s (mkObj (furi f) ANone None None) k j eq_refl Hk).
    + intros u k Hk. rewrite aget_aset in Hk. destruct (Nat.eqb u (furi f)) eqn:E; [|left; exact Hk].
      apply Nat.eqb_eq in E. inversion Hk; subst. right. rewrite app_length. simpl. split; [lia|]. split; [lia|].
      unfold dflt. rewrite getobj_new. reflexivity.
    + intros u Hk. rewrite aget_aset in Hk. destruct (Nat.eqb u (furi f)); [discriminate | exact Hk].
    + rewrite app_length. simpl. lia.
    + unfold dflt. rewrite getobj_new. reflexivity.
    + intros _ j x o' own ts l Hx Hpx _ E. destruct (walk_obj s j x o' own ts l HI Hx Hpx). lia.
    + intros k Hk. unfold holds in Hk. rewrite Hp in Hk. destruct Hk as [X|[X|[a [b X]]]]; discriminate.
  - (* PWait *)
    match type of H with (if ?c then _ else _) = _ => destruct c eqn:Epass end; [|discriminate].
    destruct (enough (ffull f) (oann (getobj s o))).
    + inversion H; subst. apply (step_pop s i t f r (objs s) HI Hi Hs); auto.
      * apply same_files_refl.
      * apply (iHoldEq _ HI).
      * intros k Hk. unfold holds in Hk. rewrite Hp in Hk. destruct Hk as [X|[X|[a [b X]]]]; discriminate.
    + inversion H; subst. destruct (iObj _ HI i f o Hf) as [Ho1 Ho2]; [unfold fobj; rewrite Hp; reflexivity|].
      apply (step_seek s i t f r (PLock o) o (objs s) (sav s) HI Hi Hs); auto.
      * apply same_files_refl.
      * apply (iHoldEq _ HI).
      * intros Hfull j x o' own ts l Hx Hpx Hts E. subst o'.
        pose proof (iEdge _ HI i f j x o own ts l Hf Hfull Hx Hpx Hts) as Hav.
        unfold avoid in Hav. rewrite Hp in Hav. congruence.
      * intros k Hk. unfold holds in Hk. rewrite Hp in Hk. destruct Hk as [X|[X|[a [b X]]]]; discriminate.
  - (* PLock *)
    destruct (oat (getobj s o)) as [j|] eqn:Eat.
    + destruct (Nat.eqb j i) eqn:Eji.
      * apply Nat.eqb_eq in Eji. subst j. exfalso. eapply (no_reentry s i t f r o); eauto.
      * rewrite (iHoldEq _ HI o), Eat in H. discriminate.
    + rewrite (iHoldEq _ HI o), Eat in H.
      destruct (enough (ffull f) (oann (getobj s o))).
      * inversion H; subst. apply (step_pop s i t f r (objs s) HI Hi Hs); auto.
        -- apply same_files_refl.
        -- apply (iHoldEq _ HI).
        -- intros k Hk. unfold holds in Hk. rewrite Hp in Hk. destruct Hk as [X|[X|[a [b X]]]]; discriminate.
      * inversion H; subst. apply (step_acquire s i t f r o HI Hi Hs Hp). rewrite (iHoldEq _ HI o). exact Eat.
  - (* PBuild *)
    assert (own = true) by (eapply (own_true s i t f r HI Hi Hs o own); auto). subst own.
    inversion H; subst. destruct (iObj _ HI i f o Hf) as [Ho1 Ho2]; [unfold fobj; rewrite Hp; reflexivity|].
    apply (step_replace_plain s i t f r (PPub o true) _ HI Hi Hs); auto.
    + apply same_files_upd. reflexivity.
    + intro k. destruct (Nat.eq_dec o k) as [->|Hne].
      * unfold dflt. rewrite nth_updl_same by exact Ho1. simpl. auto.
      * unfold dflt. rewrite nth_updl_other by exact Hne. auto.
    + intro k; repeat split; try discriminate; intros; discriminate.
    + intros k <-. auto.
    + intros k Hk. unfold holds in *. rewrite Hp in Hk. unfold with_ph. simpl.
      destruct Hk as [X|[X|[a [b X]]]]; try discriminate. inversion X; subst. auto.
  - (* PPub *)
    assert (own = true) by (eapply (own_true s i t f r HI Hi Hs o own); auto). subst own.
    inversion H; subst.
    apply (step_walk s i t f r o (clk s) (deps o) (furi f :: tbl s) HI Hi Hs).
    + intros u Hu. rewrite smem_cons, Hu. apply Bool.orb_true_r.
    + left. split; [exact Hp|]. split; [reflexivity|]. rewrite smem_cons, Nat.eqb_refl. reflexivity.
  - (* PWalk, nothing left: release and return *)
    assert (own = true) by (eapply (own_true s i t f r HI Hi Hs o own); eauto). subst own.
    lazy beta iota in H. inversion H; subst. destruct (iObj _ HI i f o Hf) as [Ho1 Ho2]; [unfold fobj; rewrite Hp; reflexivity|].
    apply (step_pop s i t f r (updl o (fun x => mkObj (ouri x) (oann x) None None) (objs s)) HI Hi Hs).
    + apply same_files_upd. reflexivity.
    + intro k. destruct (Nat.eq_dec o k) as [->|Hne].
      * unfold dflt. rewrite nth_updl_same by exact Ho1. reflexivity.
      * unfold dflt. rewrite nth_updl_other by exact Hne. apply (iHoldEq _ HI).
    + intros k j Hk. destruct (Nat.eq_dec o k) as [->|Hne].
      * unfold dflt in Hk. rewrite nth_updl_same in Hk by exact Ho1. discriminate.
      * unfold dflt in Hk. rewrite nth_updl_other in Hk by exact Hne. exact Hk.
    + intros k Hk. unfold holds in Hk. rewrite Hp in Hk. destruct Hk as [X|[X|[a [b X]]]]; try discriminate.
      inversion X; subst. unfold dflt. rewrite nth_updl_same by exact Ho1. reflexivity.
  - (* PWalk, a look-up *)
    assert (own = true) by (eapply (own_true s i t f r HI Hi Hs o own); eauto). subst own.
    destruct (smem u (tbl s)) eqn:Em.
    + inversion H; subst. apply (step_walk s i t f r o ts l (tbl s) HI Hi Hs); auto.
      right. exists (u :: l). auto.
    + inversion H; subst. pose proof (step_push s i t f r o ts u l HI Hi Hs Hp Em) as X. rewrite Hs in X. exact X.
Qed.

(* ------------------------------------------------------------------------------------------ *)
(* notifications                                                                                *)
(* ------------------------------------------------------------------------------------------ *)
Theorem nstep_Inv s s' : Inv s -> nstep s = Some s' -> Inv s'.
Proof.
  intros HI H. unfold nstep in H. destruct (notes s) as [|[u b] r] eqn:En; [discriminate|].
  assert (Hwalk : forall j f o own ts l, FrameAt (thr s) j f -> fph f = PWalk o own ts l -> o < length (objs s)).
  { intros j f o own ts l Hf Hp. eapply walk_obj; eauto. }
  destruct b; inversion H; subst; clear H.
  - (* change: a new opened Document object *)
    assert (Hg : forall o, o < length (objs s) -> getobj (mkSt (objs s ++ [mkObj u ANone None None]) (aset u (length (objs s)) (opn s))
                             (sav s) (sdel u (tbl s)) (thr s) r (S (clk s))) o = getobj s o).
    { intros o Ho. unfold getobj at 1. simpl. apply app_nth1. exact Ho. }
    assert (Hcur : forall k, current (mkSt (objs s ++ [mkObj u ANone None None]) (aset u (length (objs s)) (opn s))
                             (sav s) (sdel u (tbl s)) (thr s) r (S (clk s))) k =
                             if Nat.eqb k u then Some (length (objs s)) else current s k).
    { intro k. unfold current. simpl. destruct (Nat.eqb k u); reflexivity. }
    constructor; cbn [thr objs opn sav tbl clk notes].
    + intros i t Hi. destruct (iStack _ HI i t Hi) as [A B]. split; [eapply stack_ok_mono; [|exact A]; lia | exact B].
    + apply (iOwn _ HI).
    + intro o. unfold getobj. simpl. apply app_heq; [exact HI | reflexivity].
    + intros o j Ho. unfold getobj in Ho. simpl in Ho. apply (iHold _ HI o j). eapply app_holder; [|exact Ho]. reflexivity.
    + intros i f o Hf Ho. destruct (iObj _ HI i f o Hf Ho) as [A B]. rewrite app_length. split; [lia|]. rewrite Hg; assumption.
    + intros k o Ho. rewrite Hcur in Ho. rewrite app_length. simpl. destruct (Nat.eqb k u) eqn:E.
      * apply Nat.eqb_eq in E. inversion Ho; subst. split; [lia|]. unfold getobj. simpl. rewrite getobj_new. reflexivity.
      * destruct (iCur _ HI k o Ho) as [A B]. split; [lia|]. rewrite Hg; assumption.
    + intros k o Ho. rewrite aget_aset in Ho. rewrite app_length. simpl. destruct (Nat.eqb k u) eqn:E.
      * apply Nat.eqb_eq in E. inversion Ho; subst. split; [lia|]. unfold getobj. simpl. rewrite getobj_new. reflexivity.
      * destruct (iOpn _ HI k o Ho) as [A B]. split; [lia|]. rewrite Hg; assumption.
    + intros k o Ho. destruct (iSav _ HI k o Ho) as [A B]. rewrite app_length. split; [lia|]. rewrite Hg; assumption.
    + intros i f o own ts l Hf Hp. rewrite Hcur, smem_sdel. destruct (Nat.eqb (furi f) u) eqn:E.
      * right. pose proof (Hwalk i f o own ts l Hf Hp). intro X. inversion X. lia.
      * simpl. eapply (iR _ HI i f); eauto.
    + intros j g i f o' own ts l Hg' Hfull Hf Hp Hts.
      pose proof (iEdge _ HI j g i f o' own ts l Hg' Hfull Hf Hp Hts) as Hav.
      unfold avoid in *. destruct (fph g); auto. intro Hu. rewrite Hcur. destruct (Nat.eqb (furi g) u).
      * pose proof (Hwalk i f o' own ts l Hf Hp). intro X. inversion X. lia.
      * apply Hav. exact Hu.
  - (* save / close: every copy is dropped *)
    assert (Hcur : forall k, current (mkSt (objs s) (adel u (opn s)) (adel u (sav s)) (sdel u (tbl s)) (thr s) r (S (clk s))) k =
                             if Nat.eqb k u then None else current s k).
    { intro k. unfold current. simpl. rewrite !aget_adel. destruct (Nat.eqb k u); reflexivity. }
    constructor; cbn [thr objs opn sav tbl clk notes].
    + intros i t Hi. destruct (iStack _ HI i t Hi) as [A B]. split; [eapply stack_ok_mono; [|exact A]; lia | exact B].
    + apply (iOwn _ HI).
    + apply (iHoldEq _ HI).
    + apply (iHold _ HI).
    + apply (iObj _ HI).
    + intros k o Ho. rewrite Hcur in Ho. destruct (Nat.eqb k u); [discriminate | apply (iCur _ HI k o Ho)].
    + intros k o Ho. rewrite aget_adel in Ho. destruct (Nat.eqb k u); [discriminate | apply (iOpn _ HI k o Ho)].
    + intros k o Ho. rewrite aget_adel in Ho. destruct (Nat.eqb k u); [discriminate | apply (iSav _ HI k o Ho)].
    + intros i f o own ts l Hf Hp. rewrite Hcur, smem_sdel. destruct (Nat.eqb (furi f) u) eqn:E.
      * right. discriminate.
      * simpl. eapply (iR _ HI i f); eauto.
    + intros j g i f o' own ts l Hg' Hfull Hf Hp Hts.
      pose proof (iEdge _ HI j g i f o' own ts l Hg' Hfull Hf Hp Hts) as Hav.
      unfold avoid in *. destruct (fph g); auto. intro Hu. rewrite Hcur. destruct (Nat.eqb (furi g) u); [discriminate | apply Hav; exact Hu].
Qed.

Theorem run_Inv deps sched : forall s, Inv s -> Inv (run deps sched s).
Proof.
  induction sched as [|a r IH]; intros s HI; simpl; [exact HI|].
  destruct (step deps s a) as [s'|] eqn:E; [|apply IH; exact HI].
  apply IH. destruct a as [i|]; simpl in E; [eapply tstep_Inv | eapply nstep_Inv]; eauto.
Qed.

Theorem reachable_Inv deps qs ns sched : Inv (run deps sched (init qs ns)).
Proof. apply run_Inv. apply Inv_init. Qed.

(* ------------------------------------------------------------------------------------------ *)
(* no deadlock                                                                                  *)
(* ------------------------------------------------------------------------------------------ *)
(* thread i waits for the flag of o, which thread j holds *)
Definition waits (s : st) (i o j : nat) : Prop :=
  exists t f r, nth_error (thr s) i = Some t /\ stack t = f :: r /\
                (fph f = PWait o \/ fph f = PLock o) /\
                oholder (getobj s o) = Some j /\ j <> i.

Definition top_push (s : st) (i : nat) : nat :=
  match nth_error (thr s) i with
  | Some t => match stack t with f :: _ => fpush f | [] => 0 end
  | None => 0
  end.

(* a thread that cannot move has finished or waits for a flag held by another thread *)
Lemma stuck_cases deps s i t :
  Inv s -> nth_error (thr s) i = Some t -> tstep deps s i = None ->
  tdone t = true \/ exists o j, waits s i o j.
Proof.
  intros HI Hi H. unfold tstep in H. rewrite Hi in H.
  destruct (stack t) as [|f r] eqn:Hs.
  { destruct (queue t) eqn:Eq; [|discriminate]. left. unfold tdone. rewrite Hs, Eq. reflexivity. }
  right. destruct (fph f) as [| |o|o|o own|o own|o own ts [|u l]] eqn:Hp; try discriminate.
  - destruct (current s (furi f)); [discriminate|]. destruct (fcache f); discriminate.
  - (* PWait *)
    rewrite (iHoldEq _ HI o) in H. destruct (oat (getobj s o)) as [j|] eqn:Eat.
    + destruct (Nat.eqb j i) eqn:Eji.
      * destruct (enough (ffull f) (oann (getobj s o))); discriminate.
      * exists o, j. exists t, f, r. rewrite (iHoldEq _ HI o). apply Nat.eqb_neq in Eji. auto.
    + destruct (enough (ffull f) (oann (getobj s o))); discriminate.
  - (* PLock *)
    rewrite (iHoldEq _ HI o) in H. destruct (oat (getobj s o)) as [j|] eqn:Eat.
    + destruct (Nat.eqb j i) eqn:Eji; [discriminate|].
      exists o, j. exists t, f, r. rewrite (iHoldEq _ HI o). apply Nat.eqb_neq in Eji. auto.
    + destruct (enough (ffull f) (oann (getobj s o))); discriminate.
  - destruct own; discriminate.
  - destruct (smem u (tbl s)); discriminate.
Qed.

(* the order of the wait-for edges: if i (in a look-up: a nested frame) waits for a flag held by j,
   j began the walk that holds it AFTER i began this look-up -- when the edge came into being, j was
   not waiting for anything; and if j waits itself, its look-up is younger than i's *)
Theorem wait_edge_young s i o j :
  Inv s -> waits s i o j ->
  (exists t f r, nth_error (thr s) i = Some t /\ stack t = f :: r /\ ffull f = false) ->
  (exists tj x ts l, nth_error (thr s) j = Some tj /\ In x (stack tj) /\ fph x = PWalk o true ts l /\
                     top_push s i <= ts) \/
  (exists tj x, nth_error (thr s) j = Some tj /\ stack tj = x :: tl (stack tj) /\ holds x o).
Proof.
  intros HI [t [f [r [Hi [Hs [Hp [Hh Hne]]]]]]] [t0 [f0 [r0 [Hi0 [Hs0 Hfull]]]]].
  rewrite Hi in Hi0. inversion Hi0; subst t0. rewrite Hs in Hs0. inversion Hs0; subst f0 r0.
  destruct (iHold _ HI o j Hh) as [x [[tj [Hj Hin]] Hx]].
  destruct (stack tj) as [|y ry] eqn:Hsj; [destruct Hin|].
  destruct Hin as [<-|Hin].
  - right. exists tj, y. rewrite Hsj. auto.
  - left. destruct (lower_times s j tj y ry x HI Hj Hsj Hin) as [o' [own [ts [l [Hpx _]]]]].
    assert (o' = o /\ own = true) as [-> ->].
    { unfold holds in Hx. rewrite Hpx in Hx. destruct Hx as [X|[X|[a [b X]]]]; try discriminate. inversion X. auto. }
    exists tj, x, ts, l. rewrite Hsj. repeat split; auto; [right; exact Hin|].
    unfold top_push. rewrite Hi, Hs.
    destruct (le_lt_dec (fpush f) ts) as [Hle|Hlt]; [exact Hle|]. exfalso.
    assert (Hxj : FrameAt (thr s) j x) by (exists tj; split; [exact Hj | rewrite Hsj; right; exact Hin]).
    pose proof (iEdge _ HI i f j x o true ts l (top_frame _ _ _ _ _ Hi Hs) Hfull Hxj Hpx Hlt) as Hav.
    unfold avoid in Hav. destruct Hp as [Hp|Hp]; rewrite Hp in Hav; congruence.
Qed.

(* along a wait-for edge between two waiting threads the look-ups get younger *)
Lemma wait_edge_order s i o j o2 k :
  Inv s -> waits s i o j -> waits s j o2 k ->
  (exists t f r, nth_error (thr s) i = Some t /\ stack t = f :: r /\ ffull f = false) ->
  top_push s i < top_push s j /\
  (exists t f r, nth_error (thr s) j = Some t /\ stack t = f :: r /\ ffull f = false).
Proof.
  intros HI Hw Hw2 Hn.
  destruct Hw2 as [tj [g [rj [Hj [Hsj [Hpj [_ _]]]]]]].
  destruct (wait_edge_young s i o j HI Hw Hn) as [[tj' [x [ts [l [Hj' [Hin [Hpx Hle]]]]]]]|[tj' [x [Hj' [Hsx Hx]]]]].
  - rewrite Hj in Hj'. inversion Hj'; subst tj'. rewrite Hsj in Hin. destruct Hin as [<-|Hin].
    + destruct Hpj as [Hpj|Hpj]; rewrite Hpj in Hpx; discriminate.
    + destruct (lower_times s j tj g rj x HI Hj Hsj Hin) as [o' [own [ts' [l' [Hpx' Hts]]]]].
      rewrite Hpx in Hpx'. inversion Hpx'; subst. split.
      * unfold top_push at 2. rewrite Hj, Hsj. lia.
      * exists tj, g, rj. repeat split; auto. destruct (iStack _ HI j tj Hj) as [_ B]. rewrite Hsj in B.
        destruct rj as [|y ry]; [destruct Hin|]. apply (nested_top _ _ _ B).
  - rewrite Hj in Hj'. inversion Hj'; subst tj'. rewrite Hsj in Hsx. simpl in Hsx. inversion Hsx; subst x.
    unfold holds in Hx. destruct Hpj as [Hpj|Hpj]; rewrite Hpj in Hx; destruct Hx as [X|[X|[a [b X]]]]; discriminate.
Qed.

Lemma top_push_lt_clk s i t f r : Inv s -> nth_error (thr s) i = Some t -> stack t = f :: r -> top_push s i < clk s.
Proof. intros HI Hi Hs. unfold top_push. rewrite Hi, Hs. eapply push_lt_clk; eauto. Qed.

Section Stuck.
  Variable deps : nat -> list nat.
  Variable s : st.
  Hypothesis HI : Inv s.
  Hypothesis Hstuck : forall i, tstep deps s i = None.

  Lemma holder_waits i o j : waits s i o j -> exists o2 k, waits s j o2 k.
  Proof.
    intros [t [f [r [Hi [Hs [Hp [Hh Hne]]]]]]].
    destruct (iHold _ HI o j Hh) as [x [[tj [Hj Hin]] Hx]].
    destruct (stuck_cases deps s j tj HI Hj (Hstuck j)) as [Hd|H]; [|exact H].
    unfold tdone in Hd. destruct (stack tj); [destruct Hin | discriminate].
  Qed.

  Lemma nested_climb : forall n i o j,
    waits s i o j ->
    (exists t f r, nth_error (thr s) i = Some t /\ stack t = f :: r /\ ffull f = false) ->
    clk s - top_push s i <= n -> False.
  Proof.
    induction n as [|n IH]; intros i o j Hw Hn Hle.
    - destruct Hn as [t [f [r [Hi [Hs _]]]]]. pose proof (top_push_lt_clk s i t f r HI Hi Hs). lia.
    - destruct (holder_waits i o j Hw) as [o2 [k Hw2]].
      destruct (wait_edge_order s i o j o2 k HI Hw Hw2 Hn) as [Hlt Hn2].
      apply (IH j o2 k Hw2 Hn2).
      destruct Hn2 as [t [f [r [Hi [Hs _]]]]]. pose proof (top_push_lt_clk s j t f r HI Hi Hs). lia.
  Qed.

  Lemma stuck_all_done : all_done s = true.
  Proof.
    unfold all_done. apply forallb_forall. intros t Ht. apply In_nth_error in Ht as [i Hi].
    destruct (stuck_cases deps s i t HI Hi (Hstuck i)) as [Hd|[o [j Hw]]]; [exact Hd | exfalso].
    (* the holder waits too, in a nested look-up *)
    destruct (holder_waits i o j Hw) as [o2 [k Hw2]].
    destruct Hw as [ti [f [r [Hi' [Hs [Hp [Hh Hne]]]]]]].
    destruct (iHold _ HI o j Hh) as [x [[tj [Hj Hin]] Hx]].
    destruct Hw2 as [tj' [g [rj [Hj' [Hsj [Hpj [Hh2 Hne2]]]]]]]. rewrite Hj in Hj'. inversion Hj'; subst tj'.
    assert (Hnest : ffull g = false).
    { rewrite Hsj in Hin. destruct Hin as [<-|Hin].
      - unfold holds in Hx. destruct Hpj as [Hpj|Hpj]; rewrite Hpj in Hx; destruct Hx as [X|[X|[a [b X]]]]; discriminate.
      - destruct (iStack _ HI j tj Hj) as [_ B]. rewrite Hsj in B. destruct rj as [|y ry]; [destruct Hin|]. apply (nested_top _ _ _ B). }
    apply (nested_climb (clk s) j o2 k).
    - exists tj, g, rj. auto.
    - exists tj, g, rj. auto.
    - lia.
  Qed.
End Stuck.

(* in every state that satisfies the invariant: either every thread has finished all its requests
   or some thread can take a step *)
Theorem progress deps s :
  Inv s -> all_done s = false -> exists i s', tstep deps s i = Some s'.
Proof.
  intros HI Hnd.
  assert (Hdec : (exists i s', tstep deps s i = Some s') \/ (forall i, tstep deps s i = None)).
  { assert (H : forall n, (exists i s', i < n /\ tstep deps s i = Some s') \/ (forall i, i < n -> tstep deps s i = None)).
    { induction n as [|n IH]; [right; intros; lia|]. destruct IH as [[i [x [H1 H2]]]|IH].
      - left. exists i, x. split; [lia | exact H2].
      - destruct (tstep deps s n) as [x|] eqn:E; [left; exists n, x; split; [lia | exact E]|].
        right. intros i Hi. destruct (Nat.eq_dec i n) as [->|]; [exact E | apply IH; lia]. }
    destruct (H (length (thr s))) as [[i [x [_ H2]]]|H2]; [left; eauto|]. right. intro i.
    destruct (lt_dec i (length (thr s))); [apply H2; assumption|].
    unfold tstep. assert (nth_error (thr s) i = None) as -> by (apply nth_error_None; lia). reflexivity. }
  destruct Hdec as [H|Hstuck]; [exact H|].
  rewrite (stuck_all_done deps s HI Hstuck) in Hnd. discriminate.
Qed.

(* no wait-for cycle: every thread on a cycle waits and is waited for, so it holds a flag in a lower
   frame and waits in a nested look-up; along the cycle the look-ups would get younger and younger *)
Theorem no_wait_cycle s i0 :
  Inv s ->
  forall n (path : nat -> nat * nat),     (* path k = (thread, object it waits for) *)
    (forall k, k <= n -> waits s (fst (path k)) (snd (path k)) (fst (path (S k)))) ->
    fst (path (S n)) = fst (path 0) -> fst (path 0) = i0 -> False.
Proof.
  intros HI n path Hw Hclose H0.
  (* every thread on the cycle is waited for by its predecessor, hence nested *)
  assert (Hnest : forall k, k <= n -> exists t f r, nth_error (thr s) (fst (path (S k))) = Some t /\ stack t = f :: r /\
                     (k < n -> ffull f = false)).
  { intros k Hk. destruct (Hw k Hk) as [t [f [r [Hi [Hs [Hp [Hh Hne]]]]]]].
    destruct (iHold _ HI _ _ Hh) as [x [[tj [Hj Hin]] Hx]].
    destruct (stack tj) as [|y ry] eqn:Hsj; [destruct Hin|]. exists tj, y, ry. repeat split; auto.
    intro Hlt. destruct (Hw (S k) ltac:(lia)) as [t2 [g [r2 [Hi2 [Hs2 [Hp2 _]]]]]].
    rewrite Hj in Hi2. inversion Hi2; subst t2. rewrite Hsj in Hs2. inversion Hs2; subst g r2.
    destruct Hin as [<-|Hin].
    - unfold holds in Hx. destruct Hp2 as [Hp2|Hp2]; rewrite Hp2 in Hx; destruct Hx as [X|[X|[a [b X]]]]; discriminate.
    - destruct (iStack _ HI _ tj Hj) as [_ B]. rewrite Hsj in B. destruct ry; [destruct Hin|]. apply (nested_top _ _ _ B). }
  (* the first thread of the cycle is the last one's target: nested as well *)
  assert (Hn0 : exists t f r, nth_error (thr s) (fst (path 0)) = Some t /\ stack t = f :: r /\ ffull f = false).
  { destruct (Hw n (le_n n)) as [t [f [r [Hi [Hs [Hp [Hh Hne]]]]]]]. rewrite Hclose in Hh.
    destruct (iHold _ HI _ _ Hh) as [x [[tj [Hj Hin]] Hx]].
    destruct (Hw 0 ltac:(lia)) as [t2 [g [r2 [Hi2 [Hs2 [Hp2 _]]]]]].
    rewrite Hj in Hi2. inversion Hi2; subst t2. exists tj, g, r2. repeat split; auto.
    rewrite Hs2 in Hin. destruct Hin as [<-|Hin].
    - unfold holds in Hx. destruct Hp2 as [Hp2|Hp2]; rewrite Hp2 in Hx; destruct Hx as [X|[X|[a [b X]]]]; discriminate.
    - destruct (iStack _ HI _ tj Hj) as [_ B]. rewrite Hs2 in B. destruct r2; [destruct Hin|]. apply (nested_top _ _ _ B). }
  (* push times strictly increase along the path *)
  assert (Hinc : forall k, k <= n -> top_push s (fst (path 0)) < top_push s (fst (path (S k))) /\
                   exists t f r, nth_error (thr s) (fst (path (S k))) = Some t /\ stack t = f :: r /\ ffull f = false).
  { induction k as [|k IHk]; intro Hk.
    - assert (Hw1 : exists o2 k2, waits s (fst (path 1)) o2 k2).
      { destruct (Nat.eq_dec n 0) as [->|Hn]; [rewrite Hclose; eexists; eexists; apply (Hw 0); lia | eexists; eexists; apply (Hw 1); lia]. }
      destruct Hw1 as [o2 [k2 Hw1]]. apply (wait_edge_order s _ _ _ o2 k2 HI (Hw 0 ltac:(lia)) Hw1 Hn0).
    - destruct (IHk ltac:(lia)) as [Hlt Hnk].
      assert (Hw1 : exists o2 k2, waits s (fst (path (S (S k)))) o2 k2).
      { destruct (Nat.eq_dec (S k) n) as [E|Hn]; [rewrite E, Hclose; eexists; eexists; apply (Hw 0); lia | eexists; eexists; apply (Hw (S (S k))); lia]. }
      destruct Hw1 as [o2 [k2 Hw1]].
      destruct (wait_edge_order s _ _ _ o2 k2 HI (Hw (S k) Hk) Hw1 Hnk) as [A B]. split; [lia | exact B]. }
  destruct (Hinc n (le_n n)) as [Hlt _]. rewrite Hclose in Hlt. lia.
Qed.

(* ------------------------------------------------------------------------------------------ *)
(* every run is finite: a measure that decreases with every step                                 *)
(*   N files, every walk looks up at most D files (all below N)                                  *)
(* ------------------------------------------------------------------------------------------ *)
Fixpoint unset_upto (n : nat) (tb : list nat) : nat :=
  match n with
  | O => 0
  | S m => (if smem m tb then 0 else 1) + unset_upto m tb
  end.

Lemma unset_le n u tb : unset_upto n (u :: tb) <= unset_upto n tb.
Proof.
  induction n as [|n IH]; cbn [unset_upto]; [lia|]. rewrite smem_cons.
  destruct (Nat.eqb n u); cbn [orb]; destruct (smem n tb); lia.
Qed.

Lemma unset_same n u tb : (n <= u \/ smem u tb = true) -> unset_upto n (u :: tb) = unset_upto n tb.
Proof.
  induction n as [|n IH]; intro H; cbn [unset_upto]; [reflexivity|]. rewrite smem_cons.
  destruct (Nat.eqb n u) eqn:E.
  - apply Nat.eqb_eq in E. subst n. destruct H as [H|H]; [lia|]. rewrite H. cbn [orb]. f_equal. apply IH. auto.
  - cbn [orb]. f_equal. apply IH. destruct H; [left; lia | auto].
Qed.

Lemma unset_dec n u tb : u < n -> smem u tb = false -> S (unset_upto n (u :: tb)) = unset_upto n tb.
Proof.
  induction n as [|n IH]; intros Hu Hm; [lia|]. cbn [unset_upto]. rewrite smem_cons.
  destruct (Nat.eqb n u) eqn:E.
  - apply Nat.eqb_eq in E. subst n. rewrite Hm. cbn [orb]. rewrite unset_same by (left; lia). lia.
  - apply Nat.eqb_neq in E. cbn [orb]. rewrite <- (IH ltac:(lia) Hm). destruct (smem n tb); lia.
Qed.

Section Measure.
  Variable N D : nat.
  Variable deps : nat -> list nat.
  Hypothesis Hdeps : forall o, length (deps o) <= D /\ Forall (fun u => u < N) (deps o).

  (* cost of a look-up that finds no table when z files have none: B z; of a walk with k look-ups left: W k z *)
  Fixpoint B (z : nat) : nat := match z with O => 0 | S z' => 6 + D * (1 + B z') end.
  Definition W (k z : nat) : nat := 1 + k * (1 + B z).
  Definition unset (tb : list nat) : nat := unset_upto N tb.

  Definition pre (p : phase) : nat :=
    match p with
    | PStart => 5 | PCreate => 4 | PWait _ => 4 | PLock _ => 3 | PBuild _ _ => 2 | PPub _ _ => 1
    | PWalk _ _ _ _ => 0
    end.

  Definition zeff (tb : list nat) (u : nat) : nat :=
    if smem u tb then unset tb else if Nat.ltb u N then unset tb - 1 else unset tb.

  Definition fcost (tb : list nat) (f : frame) : nat :=
    match fph f with
    | PWalk _ _ _ l => W (length l) (unset tb)
    | p => pre p + W D (zeff tb (furi f))
    end.

  Definition qcost (tb : list nat) : nat := 6 + W D (unset tb).
  Definition tcost (tb : list nat) (t : thread) : nat :=
    list_sum (map (fcost tb) (stack t)) + length (queue t) * qcost tb.
  Definition mu2 (s : st) : nat := list_sum (map (tcost (tbl s)) (thr s)).

  Lemma B_step z : B z <= B (S z).
  Proof.
    induction z as [|z IH]; [simpl; lia|].
    change (B (S (S z))) with (6 + D * (1 + B (S z))). change (B (S z)) with (6 + D * (1 + B z)) at 1.
    apply Nat.add_le_mono_l. apply Nat.mul_le_mono_l. lia.
  Qed.

  Lemma B_mono a b : a <= b -> B a <= B b.
  Proof. intro H. induction H as [|b H IH]; [lia|]. pose proof (B_step b). lia. Qed.

  Lemma W_mono k k' z z' : k <= k' -> z <= z' -> W k z <= W k' z'.
  Proof. intros H1 H2. unfold W. pose proof (B_mono z z' H2). nia. Qed.

  Lemma B_S z : B (S z) = 5 + W D z.
  Proof. unfold W. simpl. lia. Qed.

  Lemma zeff_cons tb u v : zeff (u :: tb) v <= zeff tb v.
  Proof.
    unfold zeff, unset. rewrite smem_cons. pose proof (unset_le N u tb) as Hle.
    destruct (Nat.eqb v u) eqn:E; simpl.
    - apply Nat.eqb_eq in E. subst v. destruct (smem u tb) eqn:Em; [lia|].
      destruct (Nat.ltb u N) eqn:El.
      + apply Nat.ltb_lt in El. pose proof (unset_dec N u tb El Em). lia.
      + apply Nat.ltb_ge in El. rewrite unset_same by (left; lia). lia.
    - destruct (smem v tb); [lia|]. destruct (Nat.ltb v N); lia.
  Qed.

  Lemma fcost_cons tb u f : fcost (u :: tb) f <= fcost tb f.
  Proof.
    unfold fcost. pose proof (unset_le N u tb) as Hle. pose proof (zeff_cons tb u (furi f)) as Hz.
    destruct (fph f); try (apply Nat.add_le_mono_l; apply W_mono; [lia | exact Hz]).
    apply W_mono; [lia | exact Hle].
  Qed.

  Lemma sum_le {A} (g h : A -> nat) l : (forall x, g x <= h x) -> list_sum (map g l) <= list_sum (map h l).
  Proof. intro H. induction l as [|x l IH]; simpl; [lia|]. specialize (H x). lia. Qed.

  Lemma tcost_cons tb u t : tcost (u :: tb) t <= tcost tb t.
  Proof.
    unfold tcost, qcost. pose proof (sum_le (fcost (u :: tb)) (fcost tb) (stack t) (fcost_cons tb u)).
    pose proof (W_mono D D _ _ (le_n D) (unset_le N u tb)). unfold unset in *. nia.
  Qed.

  Lemma sum_upd {A} (g h : A -> nat) l i x y :
    nth_error l i = Some x -> (forall z, g z <= h z) -> g y < h x ->
    list_sum (map g (updl i (fun _ => y) l)) < list_sum (map h l).
  Proof.
    revert i. induction l as [|a l IH]; intros [|i] Hi Hle Hlt; simpl in *; try discriminate.
    - inversion Hi; subst. pose proof (sum_le g h l Hle). lia.
    - specialize (IH i Hi Hle Hlt). specialize (Hle a). lia.
  Qed.

  (* the files in play are below N, the walks are no longer than D *)
  Definition Bnd (s : st) : Prop :=
    forall i t, nth_error (thr s) i = Some t ->
      Forall (fun u => u < N) (queue t) /\
      forall f, In f (stack t) -> furi f < N /\
        forall o own ts l, fph f = PWalk o own ts l -> length l <= D /\ Forall (fun u => u < N) l.

  Lemma list_sum_cons a l : list_sum (a :: l) = a + list_sum l.
  Proof. reflexivity. Qed.

  Lemma W_S k z : W (S k) z = W k z + 1 + B z.
  Proof. unfold W. lia. Qed.

  Lemma W_pos k z : 1 <= W k z.
  Proof. unfold W. lia. Qed.

  Lemma fcost_pos tb f : 1 <= fcost tb f.
  Proof. unfold fcost. destruct (fph f); try (pose proof (W_pos D (zeff tb (furi f))); lia). apply W_pos. Qed.

  Lemma fcost_with_ph tb f p :
    match p with PWalk _ _ _ _ => False | _ => True end ->
    fcost tb (with_ph f p) = pre p + W D (zeff tb (furi f)).
  Proof. intro H. unfold fcost, with_ph. simpl. destruct p; try reflexivity. contradiction. Qed.

  Lemma fcost_prewalk tb f : match fph f with PWalk _ _ _ _ => False | _ => True end ->
    fcost tb f = pre (fph f) + W D (zeff tb (furi f)).
  Proof. intro H. unfold fcost. destruct (fph f); try reflexivity. contradiction. Qed.

  Lemma Bnd_put s i t t' os' sv tb' :
    Bnd s -> nth_error (thr s) i = Some t ->
    Forall (fun u => u < N) (queue t') ->
    (forall f, In f (stack t') -> furi f < N /\
        forall o own ts l, fph f = PWalk o own ts l -> length l <= D /\ Forall (fun u => u < N) l) ->
    Bnd (mkSt os' (opn s) sv tb' (updl i (fun _ => t') (thr s)) (notes s) (S (clk s))).
  Proof.
    intros HB Hi Hq Hf j x Hx. simpl in Hx. destruct (Nat.eq_dec j i) as [->|Hne].
    - rewrite nth_error_updl_same, Hi in Hx. simpl in Hx. inversion Hx; subst. auto.
    - rewrite nth_error_updl_other in Hx by congruence. apply (HB j x Hx).
  Qed.

  Theorem tstep_measure s i s' :
    Bnd s -> tstep deps s i = Some s' -> Bnd s' /\ mu2 s' < mu2 s /\ notes s' = notes s.
  Proof.
    intros HB H. unfold tstep in H.
    destruct (nth_error (thr s) i) as [t|] eqn:Hi; [|discriminate].
    destruct (HB i t Hi) as [Hq Hfr].
    assert (Hmono : forall tb' x, (tb' = tbl s \/ exists u, tb' = u :: tbl s) -> tcost tb' x <= tcost (tbl s) x).
    { intros tb' x [->|[u ->]]; [lia | apply tcost_cons]. }
    (* the generic conclusion from a cheaper thread *)
    assert (Hgen : forall os' sv tb' t',
               (tb' = tbl s \/ exists u, tb' = u :: tbl s) ->
               Forall (fun u => u < N) (queue t') ->
               (forall f, In f (stack t') -> furi f < N /\
                   forall o own ts l, fph f = PWalk o own ts l -> length l <= D /\ Forall (fun u => u < N) l) ->
               tcost tb' t' < tcost (tbl s) t ->
               let s2 := mkSt os' (opn s) sv tb' (updl i (fun _ => t') (thr s)) (notes s) (S (clk s)) in
               Bnd s2 /\ mu2 s2 < mu2 s /\ notes s2 = notes s).
    { intros os' sv tb' t' Htb Hq' Hf' Hlt s2. split; [apply (Bnd_put s i t t'); auto|]. split; [|reflexivity].
      unfold mu2, s2. simpl. apply (sum_upd (tcost tb') (tcost (tbl s)) (thr s) i t t' Hi); [|exact Hlt].
      intro x. apply Hmono. exact Htb. }
    destruct (stack t) as [|f r] eqn:Hs.
    { destruct (queue t) as [|u q] eqn:Eq; [discriminate|]. inversion H; subst.
      apply (Hgen (objs s) (sav s) (tbl s) (mkT [mkF u true true PStart (clk s)] q)); auto.
      - inversion Hq; assumption.
      - simpl. intros x [<-|[]]. simpl. inversion Hq; subst. split; [assumption|]. intros; discriminate.
      - unfold tcost. rewrite Hs, Eq. cbn [stack queue map list_sum length]. unfold fcost. cbn [fph furi pre]. unfold qcost.
        assert (zeff (tbl s) u <= unset (tbl s)) by (unfold zeff; destruct (smem u (tbl s)); [lia|]; destruct (Nat.ltb u N); lia).
        pose proof (W_mono D D _ _ (le_n D) H0).
        set (X := W D (unset (tbl s))) in *. set (Y := W D (zeff (tbl s) u)) in *. unfold list_sum; cbn [fold_right]. nia. }
    assert (Hf : furi f < N /\ forall o own ts l, fph f = PWalk o own ts l -> length l <= D /\ Forall (fun u => u < N) l)
      by (apply Hfr; left; reflexivity).
    assert (Hr : forall x, In x r -> furi x < N /\ forall o own ts l, fph x = PWalk o own ts l -> length l <= D /\ Forall (fun u => u < N) l)
      by (intros x Hx; apply Hfr; right; exact Hx).
    (* replacing the top frame by a cheaper frame of the same file *)
    assert (Hrep : forall os' sv p, match p with PWalk _ _ _ _ => False | _ => True end ->
               match fph f with PWalk _ _ _ _ => False | _ => True end -> pre p < pre (fph f) ->
               let s2 := mkSt os' (opn s) sv (tbl s) (updl i (fun _ => set_top t (with_ph f p)) (thr s)) (notes s) (S (clk s)) in
               Bnd s2 /\ mu2 s2 < mu2 s /\ notes s2 = notes s).
    { intros os' sv p Hp Hpf Hlt. apply Hgen; auto.
      - unfold set_top. rewrite Hs. exact Hq.
      - unfold set_top. rewrite Hs. simpl. intros x [<-|Hx]; [|apply Hr; exact Hx]. simpl. split; [apply Hf|].
        intros o own ts l E. subst p. contradiction.
      - unfold tcost, set_top. rewrite Hs. simpl. rewrite (fcost_with_ph _ f p Hp), (fcost_prewalk _ f Hpf). lia. }
    (* the top frame returns *)
    assert (Hpop : forall os',
               let s2 := mkSt os' (opn s) (sav s) (tbl s) (updl i (fun _ => pop t) (thr s)) (notes s) (S (clk s)) in
               Bnd s2 /\ mu2 s2 < mu2 s /\ notes s2 = notes s).
    { intros os'. apply Hgen; auto.
      - unfold pop. rewrite Hs. exact Hr.
      - unfold tcost, pop. rewrite Hs. simpl. pose proof (fcost_pos (tbl s) f). lia. }
    destruct (fph f) as [| |o|o|o own|o own|o own ts [|u l]] eqn:Hp.
    - destruct (current s (furi f)) as [o|].
      + inversion H; subst. apply (Hrep (objs s) (sav s)); rewrite ?Hp; auto.
        * unfold after_fetch. destruct (oann (getobj s o)); exact Logic.I.
        * unfold after_fetch. destruct (oann (getobj s o)); simpl; lia.
      + destruct (fcache f); inversion H; subst.
        * apply (Hrep (objs s) (sav s)); rewrite ?Hp; simpl; auto.
        * apply (Hrep _ (sav s)); rewrite ?Hp; simpl; auto.
    - inversion H; subst. apply (Hrep _ _); rewrite ?Hp; simpl; auto.
    - match type of H with (if ?c then _ else _) = _ => destruct c end; [|discriminate].
      destruct (enough (ffull f) (oann (getobj s o))); inversion H; subst.
      + apply (Hpop (objs s)).
      + apply (Hrep (objs s) (sav s)); rewrite ?Hp; simpl; auto.
    - match type of H with (if ?c then _ else _) = _ => destruct c end.
      + inversion H; subst. apply (Hrep (objs s) (sav s)); rewrite ?Hp; simpl; auto.
      + destruct (oholder (getobj s o)); [discriminate|].
        destruct (enough (ffull f) (oann (getobj s o))); inversion H; subst.
        * apply (Hpop (objs s)).
        * apply (Hrep _ (sav s)); rewrite ?Hp; simpl; auto.
    - inversion H; subst. apply (Hrep _ (sav s)); rewrite ?Hp; simpl; auto.
    - (* PPub: the table is set, the walk begins *)
      inversion H; subst. destruct (Hdeps o) as [Hd1 Hd2].
      apply (Hgen (objs s) (sav s) (furi f :: tbl s)); [right; eauto | | |].
      + unfold set_top. rewrite Hs. exact Hq.
      + unfold set_top. rewrite Hs. simpl. intros x [<-|Hx]; [|apply Hr; exact Hx]. simpl. split; [apply Hf|].
        intros o' own' ts' l' E. inversion E; subst. auto.
      + unfold tcost, set_top. rewrite Hs. cbn [stack queue map]. rewrite !list_sum_cons.
        pose proof (sum_le (fcost (furi f :: tbl s)) (fcost (tbl s)) r (fcost_cons (tbl s) (furi f))) as Hsum.
        pose proof (W_mono D D _ _ (le_n D) (unset_le N (furi f) (tbl s))) as Hqc.
        assert (Hz : unset (furi f :: tbl s) = zeff (tbl s) (furi f)).
        { unfold zeff, unset. destruct (smem (furi f) (tbl s)) eqn:Em.
          - apply unset_same. auto.
          - rewrite (proj2 (Nat.ltb_lt _ _) (proj1 Hf)). pose proof (unset_dec N (furi f) (tbl s) (proj1 Hf) Em). lia. }
        assert (Hnew : fcost (furi f :: tbl s) (with_ph f (PWalk o own (clk s) (deps o))) =
                       W (length (deps o)) (unset (furi f :: tbl s))) by reflexivity.
        rewrite Hnew, Hz. rewrite (fcost_prewalk (tbl s) f) by (rewrite Hp; exact Logic.I). rewrite Hp. cbn [pre].
        pose proof (W_mono (length (deps o)) D _ _ Hd1 (le_n (zeff (tbl s) (furi f)))) as Hw. unfold qcost.
        fold (unset (furi f :: tbl s)) in Hqc. fold (unset (tbl s)) in Hqc.
        set (A := W (length (deps o)) (zeff (tbl s) (furi f))) in *. set (A2 := W D (zeff (tbl s) (furi f))) in *.
        set (S1 := list_sum (map (fcost (furi f :: tbl s)) r)) in *. set (S2 := list_sum (map (fcost (tbl s)) r)) in *.
        set (Q1 := W D (unset (furi f :: tbl s))) in *. set (Q2 := W D (unset (tbl s))) in *. nia.
    - (* PWalk, nothing left *)
      destruct own; inversion H; subst; apply Hpop.
    - (* PWalk, a look-up *)
      destruct (proj2 Hf o own ts (u :: l) eq_refl) as [Hl1 Hl2]. inversion Hl2; subst.
      destruct (smem u (tbl s)) eqn:Em; inversion H; subst.
      + apply (Hgen (objs s) (sav s) (tbl s)); auto.
        * unfold set_top. rewrite Hs. exact Hq.
        * unfold set_top. rewrite Hs. simpl. intros x [<-|Hx]; [|apply Hr; exact Hx]. simpl. split; [apply Hf|].
          intros o' own' ts' l' E. inversion E; subst. simpl in Hl1. split; [lia | assumption].
        * unfold tcost, set_top. rewrite Hs. cbn [stack queue map]. rewrite !list_sum_cons.
          assert (Hnew : fcost (tbl s) (with_ph f (PWalk o own ts l)) = W (length l) (unset (tbl s))) by reflexivity.
          assert (Hold : fcost (tbl s) f = W (S (length l)) (unset (tbl s))) by (unfold fcost; rewrite Hp; reflexivity).
          rewrite Hnew, Hold, W_S. lia.
      + apply (Hgen (objs s) (sav s) (tbl s)); auto.
        * simpl. intros x [<-|[<-|Hx]]; [| |apply Hr; exact Hx]; simpl.
          -- split; [assumption|]. intros; discriminate.
          -- split; [apply Hf|]. intros o' own' ts' l' E. inversion E; subst. simpl in Hl1. split; [lia | assumption].
        * unfold tcost. rewrite Hs. cbn [stack queue map]. rewrite !list_sum_cons.
          assert (Hnew : fcost (tbl s) (with_ph f (PWalk o own ts l)) = W (length l) (unset (tbl s))) by reflexivity.
          assert (Hold : fcost (tbl s) f = W (S (length l)) (unset (tbl s))) by (unfold fcost; rewrite Hp; reflexivity).
          assert (Hg : fcost (tbl s) (mkF u false false PStart (clk s)) = 5 + W D (zeff (tbl s) u)) by reflexivity.
          rewrite Hnew, Hold, Hg, W_S.
          assert (Hu : exists z, unset (tbl s) = S z /\ zeff (tbl s) u = z).
          { pose proof (unset_dec N u (tbl s) H2 Em) as Hd. unfold zeff. rewrite Em, (proj2 (Nat.ltb_lt _ _) H2).
            unfold unset. eexists. split; [symmetry; exact Hd | lia]. }
          destruct Hu as [z [Hz1 Hz2]]. rewrite Hz1, Hz2, B_S. lia.
  Qed.

  Lemma nstep_measure s s' : Bnd s -> nstep s = Some s' -> Bnd s' /\ length (notes s') < length (notes s).
  Proof.
    intros HB H. unfold nstep in H. destruct (notes s) as [|[u b] r]; [discriminate|].
    destruct b; inversion H; subst; simpl; split; auto.
  Qed.

  (* every chain of steps is finite: whichever thread or notification the scheduler picks next, the
     pair (notifications still to come, cost of the work still to do) decreases lexicographically *)
  Theorem steps_terminate : forall s, Bnd s -> Acc (fun s2 s1 => Bnd s1 /\ exists a, step deps s1 a = Some s2) s.
  Proof.
    assert (H : forall n m s, length (notes s) = n -> mu2 s <= m -> Bnd s ->
                  Acc (fun s2 s1 => Bnd s1 /\ exists a, step deps s1 a = Some s2) s).
    { induction n as [n IHn] using lt_wf_ind. induction m as [|m IHm]; intros s Hn Hm HB.
      - constructor. intros s2 [_ [[i|] Ha]]; simpl in Ha.
        + destruct (tstep_measure s i s2 HB Ha) as [_ [Hlt _]]. lia.
        + destruct (nstep_measure s s2 HB Ha) as [HB2 Hl]. apply (IHn (length (notes s2)) ltac:(lia) (mu2 s2) s2); auto.
      - constructor. intros s2 [_ [[i|] Ha]]; simpl in Ha.
        + destruct (tstep_measure s i s2 HB Ha) as [HB2 [Hlt Hnn]]. apply IHm; [rewrite Hnn; exact Hn | lia | exact HB2].
        + destruct (nstep_measure s s2 HB Ha) as [HB2 Hl]. apply (IHn (length (notes s2)) ltac:(lia) (mu2 s2) s2); auto. }
    intros s HB. apply (H (length (notes s)) (mu2 s) s); auto.
  Qed.

  Lemma run_Bnd sched : forall s, Bnd s -> Bnd (run deps sched s).
  Proof.
    induction sched as [|a r IH]; intros s HB; simpl; [exact HB|].
    destruct (step deps s a) as [s'|] eqn:E; [|apply IH; exact HB]. apply IH.
    destruct a as [i|]; simpl in E; [apply (tstep_measure s i s' HB E) | apply (nstep_measure s s' HB E)].
  Qed.

  Lemma Bnd_init qs ns : Forall (Forall (fun u => u < N)) qs -> Bnd (init qs ns).
  Proof.
    intros Hq i t Hi. unfold init in Hi. simpl in Hi. apply nth_error_In in Hi. apply in_map_iff in Hi as [q [<- Hin]].
    simpl. split; [eapply Forall_forall in Hq; eauto | intros f []].
  Qed.
End Measure.
