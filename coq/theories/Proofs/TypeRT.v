(* C06: every type form and parameter lists round-trip.
   Declarative grammar of types ([TypeF]: basic, sized, enum, refto / listof with options and inverse,
   literal ranges, sets, pointers, instanceof, array / sequence with one or two indexes, records with
   optional parent and nested field types, procedure and function types with parameter lists) and of
   parameter lists ([ParamList]: absent, empty, typed / untyped parameters with const / var / inout
   modes), level by level along [gram]; theorem [gram_type_rt]: g_type (gram f) accepts every derivable
   type followed by anything that cannot continue a type, returns the derived tree, no diagnostics. *)
From GoldV Require Import Base Tokens Lexer AstKinds Tree Strings PComb Grammar Ladder RTComb LadderProofs ExprRT.
From Coq Require Import Lia.

(* what must not follow a type: `(` would make a basic type sized / a proc type parameterised,
   `+` composes types, `inverse` belongs to a reference type *)
Definition tfollow_bad : list ttype := [TOBracket; TPlus; TInverse].
Definition tfollow (more : input) : Prop := nostart tfollow_bad more.

Definition param_modes : list ttype := [TConst; TVar; TInOut].

(* ---------- node builders ---------- *)

Definition mk_type_basic (t : tok) : node := Node KAstTypeBasic (tval t) (traw t) (trange t) [(K_token, AT t)] [].
Definition mk_type_sized (id sz cb : tok) : node :=
  Node KAstTypeSized (tval id) (traw id) (new_range (trange id) (trange cb)) [(K_token, AT id); (K_value, AL [sz])] [].
Definition mk_enum_variant (v : tok) (value : option tok) : node :=
  Node KAstEnumVariant (tval v) (traw v) (trange v) [(K_ident, AT v); (K_value, opt_toks value)] [].
Definition mk_type_enum (ob : tok) (vs : list node) (cb : tok) : node :=
  Node KAstTypeEnum S_type_enum (traw ob) (range_of_toks ob cb) [] vs.
Definition mk_type_ref (rt : tok) (opts : list tok) (id : tok) (invv : option tok) : node :=
  Node KAstTypeReference (tval id) (traw rt)
       (new_range (trange rt) (match invv with Some t => trange t | None => trange id end))
       [(K_ident, AT id); (K_op, AT rt); (K_value, opt_toks invv); (K_options, AL opts)] [].
Definition mk_type_range (lo hi : tok) : node :=
  Node KAstTypeRange S_type_range (traw lo) (new_range (trange lo) (trange hi)) [] [mk_terminal lo; mk_terminal hi].
Definition mk_type_set (ob t cb : tok) : node :=
  Node KAstTypeSet (tval t) (traw ob) (new_range (trange ob) (trange cb)) [] [mk_type_basic t].
Definition mk_type_pointer (d t : tok) : node :=
  Node KAstTypePointer S_type_pointer (traw d) (new_range (trange d) (trange t)) [] [mk_type_basic t].
Definition mk_type_instanceof (k t : tok) : node :=
  Node KAstTypeInstanceOf (tval t) (traw k) (new_range (trange k) (trange t)) [] [mk_type_basic t].
Definition mk_type_array (a : tok) (i1 : node) (i2 : option node) (ot : tok) : node :=
  Node KAstTypeArray S_type_array (traw a) (new_range (trange a) (trange ot)) [(K_op, AT a)]
       (i1 :: opt_list i2 ++ [mk_type_basic ot]).
Definition mk_record_field (id : tok) (ty : node) : node :=
  Node KAstTypeRecordField (tval id) (traw id) (new_range (trange id) (nrange ty)) [(K_ident, AT id)] [ty].
Definition mk_type_record (rt : tok) (parent : option tok) (fields : list node) (e : tok) : node :=
  Node KAstTypeRecord S_type_record (traw rt) (new_range (trange rt) (trange e)) []
       (opt_list (option_map mk_terminal parent) ++ fields).
Definition mk_param (mo : option tok) (id : tok) (ty : option node) : node :=
  let first := match mo with Some t => t | None => id end in
  match ty with
  | Some t => Node KAstParameterDeclaration (tval id) (traw first) (mkRange (tpos first) (rend (nrange t)))
                   [(K_ident, AT id); (K_value, opt_toks mo)] [t]
  | None => Node KAstParameterDeclaration (tval id) (traw first) (mkRange (tpos first) (rend (trange id)))
                 [(K_ident, AT id); (K_value, opt_toks mo)] []
  end.
Definition mk_param_list (ob : tok) (ps : list node) (cb : tok) : node :=
  Node KAstParameterDeclarationList S_param_decls (traw ob) (mkRange (tpos ob) (rend (trange cb))) [] ps.
Definition mk_type_proc (pt : tok) (ps : option node) : node :=
  Node KAstTypeProcedure S_type_proc (traw pt)
       (new_range (trange pt) (match ps with Some n => nrange n | None => trange pt end)) [] (opt_list ps).
Definition mk_type_func (ft : tok) (ps : option node) (rt : tok) : node :=
  Node KAstTypeFunction S_type_func (traw ft) (new_range (trange ft) (trange rt)) [] (opt_list ps ++ [mk_type_basic rt]).

(* ---------- parsers that do not depend on the level ---------- *)

Lemma type_basic_ok t r : tty t = TIdentifier -> Parses parse_type_basic (t :: r) r (mk_type_basic t).
Proof.
  intro H. unfold parse_type_basic. eapply Parses_bind; [apply tok_alt_in; [left; auto|reflexivity]|]. apply Parses_ret.
Qed.

Lemma type_basic_fails i : nostart [TIdentifier] i -> Fails parse_type_basic i.
Proof.
  intro H. unfold parse_type_basic. apply Fails_bind_l. eapply FailsAt_Fails.
  apply tok_alt_nostart; [discriminate|reflexivity|exact H].
Qed.

Lemma annot_opt_none i : nostart [TOSqrBracket] i -> Parses (opt parse_annotations) i i None.
Proof.
  intro H. apply Parses_opt_none. unfold parse_annotations. apply Fails_bind_l.
  eapply FailsAt_Fails. apply exp_token_nostart; [discriminate|exact H].
Qed.

(* enum variants *)
Inductive EnumVar : list tok -> node -> Prop :=
| EV_plain t : tty t = TIdentifier -> EnumVar [t] (mk_enum_variant t None)
| EV_value t eq v : tty t = TIdentifier -> tty eq = TEquals -> tty v = TNumericLiteral ->
    EnumVar [t; eq; v] (mk_enum_variant t (Some v)).

Lemma enum_variant_parses ts n more : EnumVar ts n -> nostart [TEquals] more ->
  Parses parse_enum_variant (ts ++ more) more n.
Proof.
  intros H Hf. unfold parse_enum_variant. destruct H as [t Ht|t eq v Ht Heq Hv]; cbn [app].
  - eapply Parses_bind; [apply annot_opt_none; eapply nostart_ty; [exact Ht|reflexivity]|]. cbv beta.
    eapply Parses_bind; [apply exp_token_ok; exact Ht|]. cbv beta.
    eapply Parses_bind; [apply Parses_opt_none; apply seq_tokens_fail; [discriminate|exact Hf]|]. cbv beta iota. apply Parses_ret.
  - eapply Parses_bind; [apply annot_opt_none; eapply nostart_ty; [exact Ht|reflexivity]|]. cbv beta.
    eapply Parses_bind; [apply exp_token_ok; exact Ht|]. cbv beta.
    eapply Parses_bind.
    { apply Parses_opt_some. apply (seq_tokens_ok _ [eq; v] more). cbn [map]. rewrite Heq, Hv. reflexivity. }
    cbv beta iota. apply Parses_ret.
Qed.

(* composed types:  A + (x, y) + B ...  operands are basic types or enums, left associative (binops) *)
Inductive CAtom : list tok -> node -> Prop :=
| CA_basic t : tty t = TIdentifier -> CAtom [t] (mk_type_basic t)
| CA_enum ob ts vs cb : tty ob = TOBracket -> Args TComma EnumVar ts vs -> tty cb = TCBracket ->
    CAtom (ob :: ts ++ [cb]) (mk_type_enum ob vs cb).

(* the operands after the first one: [CTail rest l res]: with l parsed so far, rest = + b1 + b2 ... gives res *)
Inductive CTail : list tok -> node -> node -> Prop :=
| CT_nil l : CTail [] l l
| CT_cons p bts b rest l res : tty p = TPlus -> CAtom bts b -> CTail rest (mk_binop p l b) res -> CTail (p :: bts ++ rest) l res.

Definition catom_p : P node := alt [parse_type_basic; parse_type_enum].

Lemma catom_parses ts n more : CAtom ts n -> Parses catom_p (ts ++ more) more n.
Proof.
  intro H. unfold catom_p. destruct H as [t Ht|ob ts vs cb Hob Ha Hcb]; cbn [app].
  - unfold alt. apply alt_go_here. apply type_basic_ok. exact Ht.
  - rewrite <- app_assoc. cbn [app]. unfold alt.
    apply alt_go_skip; [apply type_basic_fails; eapply nostart_ty; [exact Hob|reflexivity]|]. intro b. apply alt_go_here.
    unfold parse_type_enum.
    eapply Parses_bind; [apply exp_token_ok; exact Hob|]. cbv beta.
    eapply Parses_bind.
    { eapply (sep_list_args _ parse_enum_variant TComma EnumVar (nostart [TEquals]) enum_variant_parses);
        [intros t r Ht; eapply nostart_ty; [exact Ht|reflexivity]|discriminate|exact Ha| |];
        (eapply nostart_ty; [exact Hcb|reflexivity]). }
    cbv beta. eapply Parses_bind; [apply exp_token_ok; exact Hcb|]. cbv beta. apply Parses_ret.
Qed.

Lemma ctail_go rest l res : CTail rest l res -> forall more f, (length rest < f)%nat -> nostart [TPlus] more ->
  Parses (binops_go f (exp_token TPlus) catom_p l) (rest ++ more) more res.
Proof.
  induction 1 as [l|p bts b rest l res Hp Hb Ht IH]; intros more f Hf Hm; (destruct f as [|f]; [simpl in Hf; lia|]).
  - cbn [app]. apply binops_go_stop. eapply FailsAt_Fails. apply exp_token_nostart; [discriminate|exact Hm].
  - cbn [app]. rewrite <- app_assoc.
    eapply binops_go_step; [apply exp_token_ok; exact Hp|apply catom_parses; exact Hb|apply IH; [|exact Hm]].
    simpl in Hf. rewrite app_length in Hf. lia.
Qed.

Lemma CTail_head rest l res : CTail rest l res -> rest <> [] -> exists p r, rest = p :: r /\ tty p = TPlus.
Proof. intros H Hne. destruct H; [exfalso; apply Hne; reflexivity|eauto]. Qed.

(* options of a reference type: nothing, or [ A, B ] *)
Inductive RefOpts : list tok -> list tok -> Prop :=
| RO_none : RefOpts [] []
| RO_some o ts ids cl : tty o = TOSqrBracket -> TokList TIdentifier TComma ts ids -> tty cl = TCSqrBracket ->
    RefOpts (o :: ts ++ [cl]) ids.

(* inverse X *)
Inductive InvR : list tok -> option tok -> Prop :=
| IV_none : InvR [] None
| IV_some k v : tty k = TInverse -> tty v = TIdentifier -> InvR [k; v] (Some v).

(* an index of an array type: [ T ] or [ lo to hi ] *)
Inductive ArrIdx : list tok -> node -> Prop :=
| AI_basic o t c : tty o = TOSqrBracket -> tty t = TIdentifier -> tty c = TCSqrBracket -> ArrIdx [o; t; c] (mk_type_basic t)
| AI_range o lo k hi c : tty o = TOSqrBracket -> In (tty lo) literal_types -> tty k = TTo -> In (tty hi) literal_types ->
    tty c = TCSqrBracket -> ArrIdx [o; lo; k; hi; c] (mk_type_range lo hi).

Lemma type_range_ok lo k hi r : In (tty lo) literal_types -> tty k = TTo -> In (tty hi) literal_types ->
  Parses parse_type_range (lo :: k :: hi :: r) r (mk_type_range lo hi).
Proof.
  intros Hlo Hk Hhi. unfold parse_type_range.
  eapply Parses_bind; [apply parse_literal_basic_ok; exact Hlo|]. cbv beta.
  eapply Parses_bind; [apply exp_token_ok; exact Hk|]. cbv beta.
  eapply Parses_bind; [apply parse_literal_basic_ok; exact Hhi|]. cbv beta. apply Parses_ret.
Qed.

Lemma arr_idx_parses ts n more : ArrIdx ts n -> Parses parse_type_array_index (ts ++ more) more n.
Proof.
  intro H. unfold parse_type_array_index. destruct H as [o t c Ho Ht Hc|o lo k hi c Ho Hlo Hk Hhi Hc]; cbn [app].
  - eapply Parses_bind; [apply exp_token_ok; exact Ho|]. cbv beta.
    eapply Parses_bind; [unfold alt; apply alt_go_here; apply type_basic_ok; exact Ht|]. cbv beta.
    eapply Parses_bind; [apply exp_token_ok; exact Hc|]. cbv beta. apply Parses_ret.
  - eapply Parses_bind; [apply exp_token_ok; exact Ho|]. cbv beta.
    eapply Parses_bind.
    { unfold alt. apply alt_go_skip.
      - apply type_basic_fails. eapply (nostart_cons _ literal_types); [exact Hlo|reflexivity].
      - intro b. apply alt_go_here. apply type_range_ok; assumption. }
    cbv beta. eapply Parses_bind; [apply exp_token_ok; exact Hc|]. cbv beta. apply Parses_ret.
Qed.

Lemma arr_idx_fails i : nostart [TOSqrBracket] i -> Fails parse_type_array_index i.
Proof.
  intro H. unfold parse_type_array_index. apply Fails_bind_l. eapply FailsAt_Fails. apply exp_token_nostart; [discriminate|exact H].
Qed.

(* ---------- one level ---------- *)

Section TypeLevel.
  Variable rt : P node.                 (* parse_type one fuel level down *)
  Variable RT : rel.
  Hypothesis Hrt : forall ts n more, RT ts n -> tfollow more -> Parses rt (ts ++ more) more n.

  (* parameters *)
  Definition mode_ok (mo : option tok) : Prop := match mo with Some m => In (tty m) param_modes | None => True end.

  Inductive Param : list tok -> node -> Prop :=
  | Pm_typed mo id col tts tn : mode_ok mo -> In (tty id) ident_types -> tty col = TColon -> RT tts tn ->
      Param (opt_list mo ++ id :: col :: tts) (mk_param mo id (Some tn))
  | Pm_untyped mo id : mode_ok mo -> In (tty id) ident_types -> Param (opt_list mo ++ [id]) (mk_param mo id None).

  Inductive ParamList : list tok -> option node -> Prop :=
  | PL_none : ParamList [] None
  | PL_empty ob cb : tty ob = TOBracket -> tty cb = TCBracket -> ParamList [ob; cb] (Some (mk_param_list ob [] cb))
  | PL_some ob ts ps cb : tty ob = TOBracket -> Args TComma Param ts ps -> tty cb = TCBracket ->
      ParamList (ob :: ts ++ [cb]) (Some (mk_param_list ob ps cb)).

  (* what may follow a parameter: not `:` (an untyped one), nothing that continues its type *)
  Definition pfollow (more : input) : Prop := nostart (TColon :: tfollow_bad) more.

  Lemma param_parses ts n more : Param ts n -> pfollow more ->
    Parses (parse_parameter_declaration rt) (ts ++ more) more n.
  Proof.
    intros H Hf. unfold parse_parameter_declaration.
    assert (forall mo id r, mode_ok mo -> In (tty id) ident_types ->
              Parses (recover_at_error (tok_alt [TConst; TVar; TInOut])) (opt_list mo ++ id :: r) (id :: r) mo) as Hmode.
    { intros mo id r Hm Hid. destruct mo as [m|]; cbn [opt_list app].
      - apply Parses_rae_some. apply tok_alt_in; [exact Hm|reflexivity].
      - apply Parses_rae_none. apply tok_alt_nostart; [discriminate|reflexivity|].
        eapply (nostart_cons _ ident_types); [exact Hid|reflexivity]. }
    destruct H as [mo id col tts tn Hm Hid Hcol Hty|mo id Hm Hid]; rewrite <- app_assoc; cbn [app].
    - eapply Parses_bind; [apply Hmode; assumption|]. cbv beta.
      eapply Parses_bind; [unfold parse_ident_token; apply tok_alt_in; [exact Hid|reflexivity]|]. cbv beta.
      eapply Parses_bind; [apply Parses_rae_some; apply exp_token_ok; exact Hcol|]. cbv beta iota.
      eapply Parses_bind; [apply Parses_prepend; apply Hrt; [exact Hty|sub_nostart Hf]|]. cbv beta.
      destruct mo; apply Parses_ret.
    - eapply Parses_bind; [apply Hmode; assumption|]. cbv beta.
      eapply Parses_bind; [unfold parse_ident_token; apply tok_alt_in; [exact Hid|reflexivity]|]. cbv beta.
      eapply Parses_bind; [apply Parses_rae_none; apply exp_token_nostart; [discriminate|sub_nostart Hf]|]. cbv beta iota.
      destruct mo; apply Parses_ret.
  Qed.

  Lemma param_failsat i : nostart (param_modes ++ ident_types) i -> FailsAt (parse_parameter_declaration rt) i i.
  Proof.
    intro H. unfold parse_parameter_declaration.
    eapply FailsAt_bind_r.
    - apply Parses_rae_none. apply tok_alt_nostart; [discriminate|reflexivity|sub_nostart H].
    - cbv beta. apply FailsAt_bind_l. unfold parse_ident_token. apply tok_alt_nostart; [discriminate|reflexivity|sub_nostart H].
  Qed.

  Lemma pfollow_ty ty t r : tty t = ty -> mem_ty ty (TComment :: TColon :: tfollow_bad) = false -> pfollow (t :: r).
  Proof. intros H Hm. eapply nostart_ty; eauto. Qed.

  Lemma param_list_parses ts n more : ParamList ts n -> nostart [TOBracket] more ->
    Parses (parse_parameter_declaration_list rt) (ts ++ more) more n.
  Proof.
    intros H Hf. unfold parse_parameter_declaration_list.
    destruct H as [|ob cb Hob Hcb|ob ts ps cb Hob Ha Hcb]; cbn [app].
    - eapply Parses_bind; [apply Parses_rae_none; apply exp_token_nostart; [discriminate|exact Hf]|]. cbv beta iota. apply Parses_ret.
    - eapply Parses_bind; [apply Parses_rae_some; apply exp_token_ok; exact Hob|]. cbv beta iota.
      eapply Parses_bind.
      { apply Parses_prepend. apply sep_list_empty. apply param_failsat. eapply nostart_ty; [exact Hcb|reflexivity]. }
      cbv beta. eapply Parses_bind; [apply Parses_prepend; apply exp_token_ok; exact Hcb|]. cbv beta. apply Parses_ret.
    - rewrite <- app_assoc. cbn [app].
      eapply Parses_bind; [apply Parses_rae_some; apply exp_token_ok; exact Hob|]. cbv beta iota.
      eapply Parses_bind.
      { apply Parses_prepend.
        eapply (sep_list_args _ (parse_parameter_declaration rt) TComma Param pfollow param_parses);
          [intros t r Ht; eapply pfollow_ty; [exact Ht|reflexivity]|discriminate|exact Ha| |].
        - eapply pfollow_ty; [exact Hcb|reflexivity].
        - eapply nostart_ty; [exact Hcb|reflexivity]. }
      cbv beta. eapply Parses_bind; [apply Parses_prepend; apply exp_token_ok; exact Hcb|]. cbv beta. apply Parses_ret.
  Qed.

  (* record fields:  name : type  ...  *)
  Inductive Fields : list tok -> list node -> Prop :=
  | F_nil : Fields [] []
  | F_cons id col tts tn rest ns : tty id = TIdentifier -> tty col = TColon -> RT tts tn -> Fields rest ns ->
      Fields (id :: col :: tts ++ rest) (mk_record_field id tn :: ns).

  Lemma field_parses id col tts tn more : tty id = TIdentifier -> tty col = TColon -> RT tts tn -> tfollow more ->
    Parses (parse_type_record_field rt) (id :: col :: tts ++ more) more (mk_record_field id tn).
  Proof.
    intros Hid Hcol Hty Hf. unfold parse_type_record_field.
    eapply Parses_bind; [apply annot_opt_none; eapply nostart_ty; [exact Hid|reflexivity]|]. cbv beta.
    eapply Parses_bind; [apply exp_token_ok; exact Hid|]. cbv beta.
    eapply Parses_bind; [apply exp_token_ok; exact Hcol|]. cbv beta.
    eapply Parses_bind; [apply Hrt; [exact Hty|exact Hf]|]. cbv beta. apply Parses_ret.
  Qed.

  Lemma Fields_len ts ns : Fields ts ns -> (length ns <= length ts)%nat.
  Proof. induction 1; simpl; [lia|]. rewrite app_length. lia. Qed.

  Lemma fields_chain ts ns e more : Fields ts ns -> tty e = TEndRecord ->
    Chain (parse_type_record_field rt) (exp_token TEndRecord) (e :: more) (ts ++ e :: more) ns.
  Proof.
    intros H He. induction H as [|id col tts tn rest ns Hid Hcol Hty Hrest IH]; [apply Ch_nil|].
    cbn [app]. rewrite <- app_assoc.
    eapply Ch_cons; [discriminate| | |exact IH].
    - eapply FailsAt_Fails. apply exp_token_nostart; [discriminate|]. eapply nostart_ty; [exact Hid|reflexivity].
    - apply field_parses; auto. destruct Hrest as [|id2 col2 tts2 tn2 rest2 ns2 Hid2 _ _ _]; cbn [app].
      + eapply nostart_ty; [exact He|reflexivity].
      + eapply nostart_ty; [exact Hid2|reflexivity].
  Qed.

  (* parent of a record: nothing or ( T ) *)
  Inductive RecParent : list tok -> option tok -> Prop :=
  | RP_none : RecParent [] None
  | RP_some o p c : tty o = TOBracket -> tty p = TIdentifier -> tty c = TCBracket -> RecParent [o; p; c] (Some p).

  Inductive TypeF : list tok -> node -> Prop :=
  | TF_basic t : tty t = TIdentifier -> TypeF [t] (mk_type_basic t)
  | TF_sized id ob sz cb : tty id = TIdentifier -> tty ob = TOBracket -> tty sz = TNumericLiteral -> tty cb = TCBracket ->
      TypeF [id; ob; sz; cb] (mk_type_sized id sz cb)
  | TF_enum ob ts vs cb : tty ob = TOBracket -> Args TComma EnumVar ts vs -> tty cb = TCBracket ->
      TypeF (ob :: ts ++ [cb]) (mk_type_enum ob vs cb)
  | TF_ref k ots opts id its inv : In (tty k) [TRefTo; TListOf] -> RefOpts ots opts -> tty id = TIdentifier -> InvR its inv ->
      TypeF (k :: ots ++ id :: its) (mk_type_ref k opts id inv)
  | TF_range lo k hi : In (tty lo) literal_types -> tty k = TTo -> In (tty hi) literal_types ->
      TypeF [lo; k; hi] (mk_type_range lo hi)
  | TF_set ob t cb : tty ob = TOSqrBracket -> tty t = TIdentifier -> tty cb = TCSqrBracket -> TypeF [ob; t; cb] (mk_type_set ob t cb)
  | TF_record k pts parent fts fields e : tty k = TRecord -> RecParent pts parent -> Fields fts fields -> tty e = TEndRecord ->
      TypeF (k :: pts ++ fts ++ [e]) (mk_type_record k parent fields e)
  | TF_pointer d t : tty d = TDot -> tty t = TIdentifier -> TypeF [d; t] (mk_type_pointer d t)
  | TF_array1 a i1 n1 k ot : In (tty a) [TArray; TSequence] -> ArrIdx i1 n1 -> tty k = TOf -> tty ot = TIdentifier ->
      TypeF (a :: i1 ++ [k; ot]) (mk_type_array a n1 None ot)
  | TF_array2 a i1 n1 i2 n2 k ot : In (tty a) [TArray; TSequence] -> ArrIdx i1 n1 -> ArrIdx i2 n2 -> tty k = TOf -> tty ot = TIdentifier ->
      TypeF (a :: i1 ++ i2 ++ [k; ot]) (mk_type_array a n1 (Some n2) ot)
  | TF_proc k pts ps : tty k = TProc -> ParamList pts ps -> TypeF (k :: pts) (mk_type_proc k ps)
  | TF_func k pts ps rk t : tty k = TFunc -> ParamList pts ps -> tty rk = TReturn -> tty t = TIdentifier ->
      TypeF (k :: pts ++ [rk; t]) (mk_type_func k ps t)
  | TF_instanceof k t : tty k = TInstanceOf -> tty t = TIdentifier -> TypeF [k; t] (mk_type_instanceof k t)
  | TF_composed ats a rest res : CAtom ats a -> CTail rest a res -> rest <> [] -> TypeF (ats ++ rest) res.

  (* ---------- the alternatives of parse_type, and on which first tokens they fail ---------- *)

  Lemma sized_fails i : nostart [TIdentifier] i -> Fails parse_type_sized i.
  Proof. intro H. unfold parse_type_sized. apply Fails_bind_l. eapply FailsAt_Fails. apply exp_token_nostart; [discriminate|exact H]. Qed.

  Lemma enum_fails i : nostart [TOBracket] i -> Fails parse_type_enum i.
  Proof. intro H. unfold parse_type_enum. apply Fails_bind_l. eapply FailsAt_Fails. apply exp_token_nostart; [discriminate|exact H]. Qed.

  Lemma composed_fails i : nostart [TIdentifier; TOBracket] i -> Fails parse_type_composed i.
  Proof.
    intro H. unfold parse_type_composed. apply binops_fails. apply alt_fails; [discriminate|].
    repeat (apply Forall_cons || apply Forall_nil); [apply type_basic_fails|apply enum_fails]; sub_nostart H.
  Qed.

  Lemma reference_fails i : nostart [TRefTo; TListOf] i -> Fails parse_type_reference i.
  Proof.
    intro H. unfold parse_type_reference. apply Fails_bind_l. eapply FailsAt_Fails.
    apply tok_alt_nostart; [discriminate|reflexivity|exact H].
  Qed.

  Lemma range_fails i : nostart literal_types i -> Fails parse_type_range i.
  Proof.
    intro H. unfold parse_type_range. apply Fails_bind_l. eapply FailsAt_Fails. apply parse_literal_basic_failsat. exact H.
  Qed.

  Lemma set_fails i : nostart [TOSqrBracket] i -> Fails parse_type_set i.
  Proof. intro H. unfold parse_type_set. apply Fails_bind_l. eapply FailsAt_Fails. apply exp_token_nostart; [discriminate|exact H]. Qed.

  Lemma record_fails i : nostart [TRecord] i -> Fails (parse_type_record rt) i.
  Proof. intro H. unfold parse_type_record. apply Fails_bind_l. eapply FailsAt_Fails. apply exp_token_nostart; [discriminate|exact H]. Qed.

  Lemma pointer_fails i : nostart [TDot] i -> Fails parse_type_pointer i.
  Proof. intro H. unfold parse_type_pointer. apply Fails_bind_l. eapply FailsAt_Fails. apply exp_token_nostart; [discriminate|exact H]. Qed.

  Lemma array_fails i : nostart [TArray; TSequence] i -> Fails parse_type_array i.
  Proof.
    intro H. unfold parse_type_array. apply Fails_bind_l. eapply FailsAt_Fails.
    apply tok_alt_nostart; [discriminate|reflexivity|exact H].
  Qed.

  Lemma proctype_fails i : nostart [TProc] i -> Fails (parse_type_procedure rt) i.
  Proof. intro H. unfold parse_type_procedure. apply Fails_bind_l. eapply FailsAt_Fails. apply exp_token_nostart; [discriminate|exact H]. Qed.

  Lemma functype_fails i : nostart [TFunc] i -> Fails (parse_type_function rt) i.
  Proof. intro H. unfold parse_type_function. apply Fails_bind_l. eapply FailsAt_Fails. apply exp_token_nostart; [discriminate|exact H]. Qed.

  Definition type_firsts : list ttype :=
    [TIdentifier; TOBracket; TRefTo; TListOf] ++ literal_types ++ [TOSqrBracket; TRecord; TDot; TArray; TSequence; TProc; TFunc; TInstanceOf].

  Ltac tfail H :=
    first [ apply sized_fails | apply composed_fails | apply type_basic_fails | apply reference_fails | apply range_fails
          | apply set_fails | apply record_fails | apply pointer_fails | apply array_fails | apply proctype_fails
          | apply functype_fails ]; sub_nostart H.
  Ltac tfails H := repeat (apply Forall_cons || apply Forall_nil); tfail H.

  (* the first token is of type ty, which none of the earlier alternatives accepts *)
  Lemma first_excl ty t r : tty t = ty -> mem_ty ty type_firsts = true ->
    nostart (filter (fun x => negb (tt_eqb x ty)) type_firsts) (t :: r).
  Proof.
    intros H Hm ty' Hh Hin. apply filter_In in Hin as [Hin Hne].
    rewrite hd_ty_cons in Hh.
    - inversion Hh; subst. rewrite tt_eqb_refl in Hne. discriminate.
    - rewrite H. intro X. rewrite X in Hm. discriminate.
  Qed.

  Theorem type_parses ts n more : TypeF ts n -> tfollow more -> Parses (parse_type_body rt) (ts ++ more) more n.
  Proof.
    intros H Hf. unfold parse_type_body.
    destruct H as [t Ht|id ob sz cb Hid Hob Hsz Hcb|ob ts vs cb Hob Ha Hcb|k ots opts id its inv Hk Ho Hid Hi|lo k hi Hlo Hk Hhi
                  |ob t cb Hob Ht Hcb|k pts parent fts fields e Hk Hp Hfl He|d t Hd Ht|a i1 n1 k ot Ha H1 Hk Hot
                  |a i1 n1 i2 n2 k ot Ha H1 H2 Hk Hot|k pts ps Hk Hp|k pts ps rk t Hk Hp Hrk Ht|k t Hk Ht
                  |ats a rest res Hca Hct Hne].
    - (* basic: parsed by the composed alternative *)
      cbn [app]. apply (alt_pick [parse_type_sized]).
      + repeat (apply Forall_cons || apply Forall_nil). unfold parse_type_sized.
        eapply Fails_bind_r; [apply exp_token_ok; exact Ht|]. apply Fails_bind_l.
        eapply FailsAt_Fails. apply exp_token_nostart; [discriminate|]. sub_nostart Hf.
      + unfold parse_type_composed. apply binops_single.
        * unfold alt. apply alt_go_here. apply type_basic_ok. exact Ht.
        * eapply FailsAt_Fails. apply exp_token_nostart; [discriminate|]. sub_nostart Hf.
    - (* sized *)
      cbn [app]. apply (alt_pick []); [apply Forall_nil|]. unfold parse_type_sized.
      eapply Parses_bind; [apply exp_token_ok; exact Hid|]. cbv beta.
      eapply Parses_bind; [apply exp_token_ok; exact Hob|]. cbv beta.
      eapply Parses_bind; [apply exp_token_ok; exact Hsz|]. cbv beta.
      eapply Parses_bind; [apply exp_token_ok; exact Hcb|]. cbv beta. apply Parses_ret.
    - (* enum: the composed alternative *)
      cbn [app]. rewrite <- app_assoc. cbn [app].
      pose proof (first_excl TOBracket ob (ts ++ cb :: more) Hob eq_refl) as Hn. cbn [type_firsts filter app literal_types] in Hn. simpl in Hn.
      apply (alt_pick [parse_type_sized]); [tfails Hn|].
      unfold parse_type_composed. apply binops_single.
      + unfold alt. apply alt_go_skip; [apply type_basic_fails; sub_nostart Hn|]. intro b. apply alt_go_here.
        unfold parse_type_enum.
        eapply Parses_bind; [apply exp_token_ok; exact Hob|]. cbv beta.
        eapply Parses_bind.
        { eapply (sep_list_args _ parse_enum_variant TComma EnumVar (nostart [TEquals]) enum_variant_parses);
            [intros t r Ht; eapply nostart_ty; [exact Ht|reflexivity]|discriminate|exact Ha| |];
            (eapply nostart_ty; [exact Hcb|reflexivity]). }
        cbv beta. eapply Parses_bind; [apply exp_token_ok; exact Hcb|]. cbv beta. apply Parses_ret.
      + eapply FailsAt_Fails. apply exp_token_nostart; [discriminate|]. sub_nostart Hf.
    - (* refto / listof *)
      cbn [app]. rewrite <- app_assoc. cbn [app].
      assert (nostart [TIdentifier; TOBracket] (k :: ots ++ id :: its ++ more)) as Hn.
      { eapply (nostart_cons _ [TRefTo; TListOf]); [exact Hk|reflexivity]. }
      apply (alt_pick [parse_type_sized; parse_type_composed; parse_type_basic]); [tfails Hn|].
      unfold parse_type_reference.
      eapply Parses_bind; [apply tok_alt_in; [exact Hk|reflexivity]|]. cbv beta.
      assert (Parses (opt (exp_token TInverse)) (its ++ more) (match inv with Some _ => tl (its ++ more) | None => more end)
                     (match inv with Some _ => hd_error its | None => None end)) as Hinv.
      { destruct Hi as [|ik iv Hik Hiv]; cbn [app tl hd_error].
        - apply Parses_opt_none. eapply FailsAt_Fails. apply exp_token_nostart; [discriminate|sub_nostart Hf].
        - apply Parses_opt_some. apply exp_token_ok. exact Hik. }
      destruct Ho as [|o ts ids cl Ho Hl Hcl].
      + cbn [app].
        eapply Parses_bind.
        { apply Parses_rae_none. unfold parse_type_reference_options. apply FailsAt_bind_l.
          apply exp_token_nostart; [discriminate|]. eapply nostart_ty; [exact Hid|reflexivity]. }
        cbv beta iota. eapply Parses_bind; [apply exp_token_ok; exact Hid|]. cbv beta.
        eapply Parses_bind; [exact Hinv|]. cbv beta.
        destruct Hi as [|ik iv Hik Hiv]; cbn [app tl hd_error]; cbv iota.
        * eapply Parses_bind; [apply Parses_ret|]. cbv beta iota. apply Parses_ret.
        * eapply Parses_bind; [eapply Parses_bind; [apply exp_token_ok; exact Hiv|apply Parses_ret]|]. cbv beta iota. apply Parses_ret.
      + cbn [app]. rewrite <- app_assoc. cbn [app].
        eapply Parses_bind.
        { apply Parses_rae_some. unfold parse_type_reference_options.
          eapply Parses_bind; [apply exp_token_ok; exact Ho|]. cbv beta.
          eapply Parses_bind; [apply sep_tokens_ok; [discriminate|exact Hl|eapply nostart_ty; [exact Hcl|reflexivity]]|]. cbv beta.
          eapply Parses_bind; [apply exp_token_ok; exact Hcl|]. cbv beta. apply Parses_ret. }
        cbv beta iota. eapply Parses_bind; [apply exp_token_ok; exact Hid|]. cbv beta.
        eapply Parses_bind; [exact Hinv|]. cbv beta.
        assert (removelast (ids ++ [cl]) = ids) as Erl by apply removelast_last.
        destruct Hi as [|ik iv Hik Hiv]; cbn [app tl hd_error]; cbv iota.
        * eapply Parses_bind; [apply Parses_ret|]. cbv beta iota.
          match goal with |- Parses (ret ?x) _ _ _ => replace x with (mk_type_ref k ids id None) end; [apply Parses_ret|].
          unfold mk_type_ref. rewrite Erl. reflexivity.
        * eapply Parses_bind; [eapply Parses_bind; [apply exp_token_ok; exact Hiv|apply Parses_ret]|]. cbv beta iota.
          match goal with |- Parses (ret ?x) _ _ _ => replace x with (mk_type_ref k ids id (Some iv)) end; [apply Parses_ret|].
          unfold mk_type_ref. rewrite Erl. reflexivity.
    - (* lo to hi *)
      cbn [app].
      assert (nostart [TIdentifier; TOBracket; TRefTo; TListOf] (lo :: k :: hi :: more)) as Hn.
      { eapply (nostart_cons _ literal_types); [exact Hlo|reflexivity]. }
      apply (alt_pick [parse_type_sized; parse_type_composed; parse_type_basic; parse_type_reference]); [tfails Hn|].
      apply type_range_ok; assumption.
    - (* [ T ] *)
      cbn [app].
      pose proof (first_excl TOSqrBracket ob (t :: cb :: more) Hob eq_refl) as Hn. simpl in Hn.
      apply (alt_pick [parse_type_sized; parse_type_composed; parse_type_basic; parse_type_reference; parse_type_range]); [tfails Hn|].
      unfold parse_type_set.
      eapply Parses_bind; [apply exp_token_ok; exact Hob|]. cbv beta.
      eapply Parses_bind; [apply type_basic_ok; exact Ht|]. cbv beta.
      eapply Parses_bind; [apply exp_token_ok; exact Hcb|]. cbv beta. apply Parses_ret.
    - (* record *)
      cbn [app]. rewrite <- !app_assoc. cbn [app].
      pose proof (first_excl TRecord k (pts ++ fts ++ e :: more) Hk eq_refl) as Hn. simpl in Hn.
      apply (alt_pick [parse_type_sized; parse_type_composed; parse_type_basic; parse_type_reference; parse_type_range; parse_type_set]);
        [tfails Hn|].
      unfold parse_type_record.
      eapply Parses_bind; [apply exp_token_ok; exact Hk|]. cbv beta.
      assert (nostart [TOBracket] (fts ++ e :: more)) as Hnb.
      { destruct Hfl as [|id col tts tn rest ns Hid _ _ _]; cbn [app]; (eapply nostart_ty; [eassumption|reflexivity]). }
      eapply Parses_bind.
      { instantiate (2 := fts ++ e :: more).
        instantiate (1 := match parent with Some p => Some (firstn 3 pts) | None => None end).
        destruct Hp as [|o p c Ho Hpp Hc]; cbn [app firstn].
        - apply Parses_opt_none. apply seq_tokens_fail; [discriminate|exact Hnb].
        - apply Parses_opt_some. apply (seq_tokens_ok _ [o; p; c]). cbn [map]. rewrite Ho, Hpp, Hc. reflexivity. }
      cbv beta. eapply Parses_bind.
      { apply (until_strict_chain _ _ (e :: more) more e); [discriminate|apply exp_token_ok; exact He|eapply fields_chain; eassumption|].
        pose proof (Fields_len _ _ Hfl). rewrite app_length. lia. }
      cbv beta iota.
      match goal with |- Parses (ret ?x) _ _ _ => replace x with (mk_type_record k parent fields e) end; [apply Parses_ret|].
      destruct Hp; reflexivity.
    - (* . T *)
      cbn [app].
      pose proof (first_excl TDot d (t :: more) Hd eq_refl) as Hn. simpl in Hn.
      apply (alt_pick [parse_type_sized; parse_type_composed; parse_type_basic; parse_type_reference; parse_type_range; parse_type_set;
                       parse_type_record rt]); [tfails Hn|].
      unfold parse_type_pointer.
      eapply Parses_bind; [apply exp_token_ok; exact Hd|]. cbv beta.
      eapply Parses_bind; [apply type_basic_ok; exact Ht|]. cbv beta. apply Parses_ret.
    - (* array [i] of T *)
      cbn [app]. rewrite <- app_assoc. cbn [app].
      assert (nostart (filter (fun x => negb (mem_ty x [TArray; TSequence])) type_firsts) (a :: i1 ++ k :: ot :: more)) as Hn.
      { eapply (nostart_cons _ [TArray; TSequence]); [exact Ha|reflexivity]. }
      simpl in Hn.
      apply (alt_pick [parse_type_sized; parse_type_composed; parse_type_basic; parse_type_reference; parse_type_range; parse_type_set;
                       parse_type_record rt; parse_type_pointer]); [tfails Hn|].
      unfold parse_type_array.
      eapply Parses_bind; [apply tok_alt_in; [exact Ha|reflexivity]|]. cbv beta.
      eapply Parses_bind; [apply arr_idx_parses; exact H1|]. cbv beta.
      eapply Parses_bind; [apply Parses_opt_none; apply arr_idx_fails; eapply nostart_ty; [exact Hk|reflexivity]|]. cbv beta.
      eapply Parses_bind; [apply exp_token_ok; exact Hk|]. cbv beta.
      eapply Parses_bind; [apply type_basic_ok; exact Hot|]. cbv beta. apply Parses_ret.
    - (* array [i][j] of T *)
      cbn [app]. rewrite <- !app_assoc. cbn [app].
      assert (nostart (filter (fun x => negb (mem_ty x [TArray; TSequence])) type_firsts) (a :: i1 ++ i2 ++ k :: ot :: more)) as Hn.
      { eapply (nostart_cons _ [TArray; TSequence]); [exact Ha|reflexivity]. }
      simpl in Hn.
      apply (alt_pick [parse_type_sized; parse_type_composed; parse_type_basic; parse_type_reference; parse_type_range; parse_type_set;
                       parse_type_record rt; parse_type_pointer]); [tfails Hn|].
      unfold parse_type_array.
      eapply Parses_bind; [apply tok_alt_in; [exact Ha|reflexivity]|]. cbv beta.
      eapply Parses_bind; [apply arr_idx_parses; exact H1|]. cbv beta.
      eapply Parses_bind; [apply Parses_opt_some; apply arr_idx_parses; exact H2|]. cbv beta.
      eapply Parses_bind; [apply exp_token_ok; exact Hk|]. cbv beta.
      eapply Parses_bind; [apply type_basic_ok; exact Hot|]. cbv beta. apply Parses_ret.
    - (* proc (params) *)
      cbn [app].
      pose proof (first_excl TProc k (pts ++ more) Hk eq_refl) as Hn. simpl in Hn.
      apply (alt_pick [parse_type_sized; parse_type_composed; parse_type_basic; parse_type_reference; parse_type_range; parse_type_set;
                       parse_type_record rt; parse_type_pointer; parse_type_array]); [tfails Hn|].
      unfold parse_type_procedure.
      eapply Parses_bind; [apply exp_token_ok; exact Hk|]. cbv beta.
      eapply Parses_bind; [apply Parses_prepend; apply param_list_parses; [exact Hp|sub_nostart Hf]|]. cbv beta. apply Parses_ret.
    - (* func (params) return T *)
      cbn [app]. rewrite <- app_assoc. cbn [app].
      pose proof (first_excl TFunc k (pts ++ rk :: t :: more) Hk eq_refl) as Hn. simpl in Hn.
      apply (alt_pick [parse_type_sized; parse_type_composed; parse_type_basic; parse_type_reference; parse_type_range; parse_type_set;
                       parse_type_record rt; parse_type_pointer; parse_type_array; parse_type_procedure rt]); [tfails Hn|].
      unfold parse_type_function.
      eapply Parses_bind; [apply exp_token_ok; exact Hk|]. cbv beta.
      eapply Parses_bind; [apply param_list_parses; [exact Hp|eapply nostart_ty; [exact Hrk|reflexivity]]|]. cbv beta.
      eapply Parses_bind; [apply exp_token_ok; exact Hrk|]. cbv beta.
      eapply Parses_bind; [apply type_basic_ok; exact Ht|]. cbv beta. apply Parses_ret.
    - (* instanceof T *)
      cbn [app].
      pose proof (first_excl TInstanceOf k (t :: more) Hk eq_refl) as Hn. simpl in Hn.
      apply (alt_pick [parse_type_sized; parse_type_composed; parse_type_basic; parse_type_reference; parse_type_range; parse_type_set;
                       parse_type_record rt; parse_type_pointer; parse_type_array; parse_type_procedure rt; parse_type_function rt]);
        [tfails Hn|].
      unfold parse_type_instanceof.
      eapply Parses_bind; [apply exp_token_ok; exact Hk|]. cbv beta.
      eapply Parses_bind; [apply type_basic_ok; exact Ht|]. cbv beta. apply Parses_ret.
    - (* composed:  A + (x, y) ...  *)
      rewrite <- app_assoc. destruct (CTail_head _ _ _ Hct Hne) as (p & r & Er & Hp).
      apply (alt_pick [parse_type_sized]).
      + repeat (apply Forall_cons || apply Forall_nil). destruct Hca as [t Ht|ob ts vs cb Hob Ha Hcb]; cbn [app].
        * unfold parse_type_sized. eapply Fails_bind_r; [apply exp_token_ok; exact Ht|]. apply Fails_bind_l.
          eapply FailsAt_Fails. apply exp_token_nostart; [discriminate|]. rewrite Er. cbn [app].
          eapply nostart_ty; [exact Hp|reflexivity].
        * apply sized_fails. eapply nostart_ty; [exact Hob|reflexivity].
      + unfold parse_type_composed. fold catom_p. eapply binops_intro; [apply catom_parses; exact Hca|].
        apply ctail_go; [exact Hct|rewrite app_length; lia|sub_nostart Hf].
  Qed.
End TypeLevel.

(* ---------- the knot ---------- *)

Fixpoint GType (f : nat) : rel :=
  match f with
  | O => fun _ _ => False
  | S f' => TypeF (GType f')
  end.
(* parameter lists as parsed with the types of gram level f *)
Definition GParams (f : nat) : list tok -> option node -> Prop := ParamList (GType f).

Theorem gram_type_rt : forall f ts n more, GType f ts n -> tfollow more -> Parses (g_type (gram f)) (ts ++ more) more n.
Proof.
  induction f as [|f IH]; intros ts n more H Hf; [destruct H|].
  cbn [gram g_type]. apply (type_parses _ (GType f) IH); assumption.
Qed.

Theorem gram_params_rt f ts n more : GParams f ts n -> nostart [TOBracket] more ->
  Parses (parse_parameter_declaration_list (g_type (gram f))) (ts ++ more) more n.
Proof. intros H Hf. apply (param_list_parses _ (GType f) (gram_type_rt f)); assumption. Qed.

(* ---------- monotonicity ---------- *)

Lemma Param_mono (R R' : rel) : rel_le R R' -> rel_le (Param R) (Param R').
Proof. intros H ts n P. destruct P; [apply Pm_typed|apply Pm_untyped]; auto. Qed.

Lemma ParamList_mono (R R' : rel) ts n : rel_le R R' -> ParamList R ts n -> ParamList R' ts n.
Proof.
  intros H P. destruct P; [apply PL_none|apply PL_empty; auto|apply PL_some; auto].
  eapply Args_mono; [apply Param_mono; exact H|assumption].
Qed.

Lemma Fields_mono (R R' : rel) ts ns : rel_le R R' -> Fields R ts ns -> Fields R' ts ns.
Proof. intros H F. induction F; [apply F_nil|apply F_cons; auto]. Qed.

Lemma TypeF_mono (R R' : rel) : rel_le R R' -> rel_le (TypeF R) (TypeF R').
Proof.
  intros H ts n T. destruct T.
  - apply TF_basic; auto.
  - apply TF_sized; auto.
  - apply TF_enum; auto.
  - apply TF_ref; auto.
  - apply TF_range; auto.
  - apply TF_set; auto.
  - apply TF_record; auto. eapply Fields_mono; eauto.
  - apply TF_pointer; auto.
  - apply TF_array1; auto.
  - apply TF_array2; auto.
  - apply TF_proc; auto. eapply ParamList_mono; eauto.
  - apply TF_func; auto. eapply ParamList_mono; eauto.
  - apply TF_instanceof; auto.
  - eapply TF_composed; eauto.
Qed.

Lemma GType_mono_S f : rel_le (GType f) (GType (S f)).
Proof. induction f as [|f IH]; [intros ts n []|]. cbn [GType]. apply TypeF_mono. exact IH. Qed.

Lemma GType_mono f f' : (f <= f')%nat -> rel_le (GType f) (GType f').
Proof. induction 1 as [|f' Hle IH]; [intros ts n H; exact H|]. intros ts n H. apply GType_mono_S. apply IH. exact H. Qed.

Lemma GParams_mono f f' ts n : (f <= f')%nat -> GParams f ts n -> GParams f' ts n.
Proof. intros Hle H. eapply ParamList_mono; [apply GType_mono; exact Hle|exact H]. Qed.
