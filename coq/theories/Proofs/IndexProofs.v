(* C19: the workspace index.  The fuelled stack walk of index_files refines a fold of
   registrations over the *.god files of the tree; invariants over all histories. *)
From GoldV Require Import Base Index.

(* ================================================================================== *)
(* 1. maps keyed by paths                                                             *)
(* ================================================================================== *)

Definition keys {V} (m : list (path * V)) : list path := map fst m.

Lemma path_eqb_eq a b : path_eqb a b = true <-> a = b.
Proof.
  revert b; induction a as [|x a IH]; intros [|y b]; simpl; split; intro H;
    try reflexivity; try discriminate.
  - apply andb_true_iff in H as [H1 H2]. apply str_eqb_eq in H1. apply IH in H2. congruence.
  - inversion H; subst. rewrite str_eqb_refl. simpl. apply IH. reflexivity.
Qed.

Lemma path_eqb_refl a : path_eqb a a = true.
Proof. apply path_eqb_eq. reflexivity. Qed.

Lemma path_eqb_neq a b : path_eqb a b = false <-> a <> b.
Proof.
  split; intro H.
  - intro E. apply path_eqb_eq in E. congruence.
  - destruct (path_eqb a b) eqn:E; [apply path_eqb_eq in E; contradiction | reflexivity].
Qed.

Lemma path_eq_dec (a b : path) : {a = b} + {a <> b}.
Proof.
  destruct (path_eqb a b) eqn:E; [left; apply path_eqb_eq | right; apply path_eqb_neq]; exact E.
Qed.

Lemma plookup_None {V} k (m : list (path * V)) : plookup k m = None <-> ~ In k (keys m).
Proof.
  induction m as [|[k' v] m IH]; simpl.
  - split; auto.
  - destruct (path_eqb k k') eqn:E.
    + apply path_eqb_eq in E. subst. split; [discriminate | intro H; exfalso; apply H; left; reflexivity].
    + apply path_eqb_neq in E. rewrite IH. split.
      * intros H [H1 | H1]; [congruence | contradiction].
      * intros H H1. apply H. right. exact H1.
Qed.

Lemma plookup_Some_In {V} k (v : V) m : plookup k m = Some v -> In (k, v) m.
Proof.
  induction m as [|[k' v'] m IH]; simpl; [discriminate|].
  destruct (path_eqb k k') eqn:E.
  - apply path_eqb_eq in E. subst. intro H; inversion H; subst. left. reflexivity.
  - intro H. right. apply IH. exact H.
Qed.

Lemma plookup_Some_key {V} k (v : V) m : plookup k m = Some v -> In k (keys m).
Proof. intro H. apply plookup_Some_In in H. apply (in_map fst) in H. exact H. Qed.

Lemma plookup_In_NoDup {V} k (v : V) m : NoDup (keys m) -> In (k, v) m -> plookup k m = Some v.
Proof.
  induction m as [|[k' v'] m IH]; simpl; [contradiction|].
  intros Hnd [H | H].
  - inversion H; subst. rewrite path_eqb_refl. reflexivity.
  - inversion Hnd; subst. destruct (path_eqb k k') eqn:E.
    + apply path_eqb_eq in E. subst. exfalso. apply H2. apply (in_map fst) in H. exact H.
    + apply IH; assumption.
Qed.

Lemma plookup_app {V} k (m m' : list (path * V)) :
  plookup k (m ++ m') = match plookup k m with Some v => Some v | None => plookup k m' end.
Proof.
  induction m as [|[k' v] m IH]; simpl; [reflexivity|].
  destruct (path_eqb k k'); [reflexivity | exact IH].
Qed.

Lemma pinsert_absent {V} k (v : V) m : plookup k m = None -> pinsert k v m = m ++ [(k, v)].
Proof.
  induction m as [|[k' v'] m IH]; simpl; [reflexivity|].
  destruct (path_eqb k k'); [discriminate|]. intro H. rewrite IH by exact H. reflexivity.
Qed.

Lemma keys_app {V} (m m' : list (path * V)) : keys (m ++ m') = keys m ++ keys m'.
Proof. apply map_app. Qed.

Lemma keys_pupdate {V} k (f : V -> V) m : keys (pupdate k f m) = keys m.
Proof.
  induction m as [|[k' v] m IH]; simpl; [reflexivity|].
  destruct (path_eqb k k'); simpl; [reflexivity | rewrite IH; reflexivity].
Qed.

Lemma plookup_pupdate {V} k k2 (f : V -> V) m :
  plookup k2 (pupdate k f m) = if path_eqb k2 k then option_map f (plookup k m) else plookup k2 m.
Proof.
  induction m as [|[k' v] m IH]; simpl.
  - destruct (path_eqb k2 k); reflexivity.
  - destruct (path_eqb k k') eqn:E; simpl.
    + apply path_eqb_eq in E. subst k'. destruct (path_eqb k2 k) eqn:E2; reflexivity.
    + destruct (path_eqb k2 k') eqn:E3.
      * apply path_eqb_eq in E3. subst k'.
        destruct (path_eqb k2 k) eqn:E2; [|reflexivity].
        apply path_eqb_eq in E2. subst. rewrite path_eqb_refl in E. discriminate.
      * exact IH.
Qed.

Lemma map_snd_pupdate {V W} k (f : V -> V) (g : V -> W) m :
  (forall v, g (f v) = g v) -> map (fun x => g (snd x)) (pupdate k f m) = map (fun x => g (snd x)) m.
Proof.
  intro H. induction m as [|[k' v] m IH]; simpl; [reflexivity|].
  destruct (path_eqb k k'); simpl; [rewrite H | rewrite IH]; reflexivity.
Qed.

Lemma In_pupdate {V} k (f : V -> V) m q d :
  In (q, d) (pupdate k f m) -> exists d0, In (q, d0) m /\ (d = d0 \/ d = f d0).
Proof.
  induction m as [|[k' v] m IH]; simpl; [contradiction|].
  destruct (path_eqb k k'); simpl.
  - intros [H | H].
    + inversion H; subst. exists v. split; [left; reflexivity | right; reflexivity].
    + exists d. split; [right; exact H | left; reflexivity].
  - intros [H | H].
    + inversion H; subst. exists d. split; [left; reflexivity | left; reflexivity].
    + destruct (IH H) as [d0 [H1 H2]]. exists d0. split; [right; exact H1 | exact H2].
Qed.

(* association lists keyed by strings (Base.alookup / ainsert) *)
Definition skeys {V} (m : list (str * V)) : list str := map fst m.

Lemma alookup_None {V} k (m : list (str * V)) : alookup k m = None <-> ~ In k (skeys m).
Proof.
  induction m as [|[k' v] m IH]; simpl.
  - split; auto.
  - destruct (str_eqb k k') eqn:E.
    + apply str_eqb_eq in E. subst. split; [discriminate | intro H; exfalso; apply H; left; reflexivity].
    + apply str_eqb_neq in E. rewrite IH. split.
      * intros H [H1 | H1]; [congruence | contradiction].
      * intros H H1. apply H. right. exact H1.
Qed.

Lemma skeys_ainsert_present {V} k (v : V) m : alookup k m <> None -> skeys (ainsert k v m) = skeys m.
Proof.
  induction m as [|[k' v'] m IH]; simpl; [congruence|].
  destruct (str_eqb k k') eqn:E; simpl.
  - apply str_eqb_eq in E. subst. reflexivity.
  - intro H. rewrite IH by exact H. reflexivity.
Qed.

Lemma skeys_ainsert_absent {V} k (v : V) m : alookup k m = None -> skeys (ainsert k v m) = skeys m ++ [k].
Proof.
  induction m as [|[k' v'] m IH]; simpl; [reflexivity|].
  destruct (str_eqb k k') eqn:E; simpl; [discriminate|].
  intro H. rewrite IH by exact H. reflexivity.
Qed.

Lemma NoDup_skeys_ainsert {V} k (v : V) m : NoDup (skeys m) -> NoDup (skeys (ainsert k v m)).
Proof.
  intro H. destruct (alookup k m) eqn:E.
  - rewrite skeys_ainsert_present by congruence. exact H.
  - rewrite skeys_ainsert_absent by exact E. apply alookup_None in E.
    apply NoDup_rev in H. rewrite <- (rev_involutive (skeys m ++ [k])). apply NoDup_rev.
    rewrite rev_app_distr. simpl. constructor; [rewrite <- in_rev; exact E | exact H].
Qed.

(* two association lists with the same key sequence (without repetition) and the same look-ups
   are the same list *)
Lemma assoc_ext {V} (m m' : list (str * V)) :
  skeys m = skeys m' -> NoDup (skeys m) -> (forall k, alookup k m = alookup k m') -> m = m'.
Proof.
  revert m'. induction m as [|[k v] m IH]; intros [|[k' v'] m']; simpl; intros Hk Hnd Hl;
    try reflexivity; try discriminate.
  inversion Hk as [[Ek Hk']]. subst k'. apply NoDup_cons_iff in Hnd as [Hni Hnd'].
  pose proof (Hl k) as Hkk. rewrite str_eqb_refl in Hkk. inversion Hkk; subst v'.
  f_equal. apply IH; [assumption | assumption |].
  intro k2. pose proof (Hl k2) as H. destruct (str_eqb k2 k) eqn:E; [|exact H].
  apply str_eqb_eq in E. subst k2.
  assert (A1 : alookup k m = None) by (apply alookup_None; exact Hni).
  assert (A2 : alookup k m' = None) by (apply alookup_None; rewrite <- Hk'; exact Hni).
  rewrite A1, A2. reflexivity.
Qed.

(* ================================================================================== *)
(* 2. Path::extension: a name has extension `god` iff it is <non-empty>.god            *)
(* ================================================================================== *)

Lemma split_last_dot_Some s b a :
  split_last_dot s = Some (b, a) -> s = b ++ dot :: a /\ ~ In dot a.
Proof.
  revert b a. induction s as [|c s IH]; simpl; intros b a; [discriminate|].
  destruct (split_last_dot s) as [[b' a']|] eqn:E.
  - intro H; inversion H; subst. destruct (IH _ _ eq_refl) as [H1 H2]. subst s. split; [reflexivity | exact H2].
  - destruct (c =? dot) eqn:Ec; [|discriminate].
    intro H; inversion H; subst. apply N.eqb_eq in Ec. subst c. split; [reflexivity|].
    clear IH H. revert E. induction a as [|x a IHa]; simpl; [auto|].
    destruct (split_last_dot a) as [[? ?]|] eqn:E2; [discriminate|].
    destruct (x =? dot) eqn:Ex; [discriminate|]. intros _ [H | H].
    + subst x. rewrite N.eqb_refl in Ex. discriminate.
    + apply IHa; [reflexivity | exact H].
Qed.

Lemma split_last_dot_nodot a : ~ In dot a -> split_last_dot a = None.
Proof.
  induction a as [|x a IH]; simpl; [reflexivity|]. intro H.
  rewrite IH by (intro H1; apply H; right; exact H1).
  destruct (x =? dot) eqn:E; [|reflexivity]. apply N.eqb_eq in E. exfalso. apply H. left. exact E.
Qed.

Lemma split_last_dot_app b a : ~ In dot a -> split_last_dot (b ++ dot :: a) = Some (b, a).
Proof.
  intro H. induction b as [|c b IH]; simpl.
  - rewrite split_last_dot_nodot by exact H. reflexivity.
  - rewrite IH. reflexivity.
Qed.

Lemma god_nodot : ~ In dot god.
Proof. unfold god, dot. simpl. intros [H | [H | [H | []]]]; discriminate. Qed.

Theorem is_god_ext_spec n :
  is_god_ext n = true <-> exists s, s <> [] /\ n = s ++ dot :: god.
Proof.
  unfold is_god_ext, extension, rsplit_file_at_dot. split.
  - destruct (str_eqb n [dot; dot]); [discriminate|].
    destruct (split_last_dot n) as [[b a]|] eqn:E; [|discriminate].
    apply split_last_dot_Some in E as [E1 _].
    destruct b as [|c b]; [discriminate|].
    intro H. apply str_eqb_eq in H. subst a. exists (c :: b). split; [discriminate | exact E1].
  - intros [s [Hs Hn]]. subst n.
    destruct (str_eqb (s ++ dot :: god) [dot; dot]) eqn:E.
    + apply str_eqb_eq in E. apply (f_equal (@length N)) in E. rewrite app_length in E. simpl in E. lia.
    + rewrite split_last_dot_app by exact god_nodot.
      destruct s as [|c s]; [congruence|]. apply str_eqb_refl.
Qed.

Lemma file_stem_some n : exists s, file_stem n = Some s.
Proof.
  unfold file_stem, rsplit_file_at_dot.
  destruct (str_eqb n [dot; dot]); [eexists; reflexivity|].
  destruct (split_last_dot n) as [[[|c b] a]|]; eexists; reflexivity.
Qed.

(* the stem of <s>.god is s *)
Lemma file_stem_god s : s <> [] -> file_stem (s ++ dot :: god) = Some s.
Proof.
  intro Hs. unfold file_stem, rsplit_file_at_dot.
  destruct (str_eqb (s ++ dot :: god) [dot; dot]) eqn:E.
  - apply str_eqb_eq in E. apply (f_equal (@length N)) in E. rewrite app_length in E. simpl in E. lia.
  - rewrite split_last_dot_app by exact god_nodot. destruct s; [congruence | reflexivity].
Qed.

(* ================================================================================== *)
(* 3. directory trees                                                                  *)
(* ================================================================================== *)

Fixpoint fs_ind' (P : fs -> Prop) (HF : forall n, P (File n))
         (HD : forall d es, Forall P es -> P (Dir d es)) (t : fs) : P t :=
  match t with
  | File n => HF n
  | Dir d es => HD d es ((fix go (l : list fs) : Forall P l :=
                            match l with
                            | [] => Forall_nil P
                            | x :: l' => Forall_cons x (fs_ind' P HF HD x) (go l')
                            end) es)
  end.

(* "a file at relative path q below the entries es", at any depth *)
Inductive has_file : list fs -> path -> Prop :=
| hf_here es n : In (File n) es -> has_file es [n]
| hf_deeper es d sub q : In (Dir d sub) es -> has_file sub q -> has_file es (d :: q).

(* relative paths of the *.god files of a forest *)
Fixpoint god_rel_t (t : fs) : list path :=
  match t with
  | File n => if is_god_ext n then [[n]] else []
  | Dir d es => map (cons d) (flat_map god_rel_t es)
  end.

Definition god_rel (es : list fs) : list path := flat_map god_rel_t es.

Lemma has_file_nonempty es q : has_file es q -> q <> [].
Proof. intro H. destruct H; discriminate. Qed.

Lemma last_cons_ne {A} (x : A) l d : l <> [] -> last (x :: l) d = last l d.
Proof. destruct l; [congruence | reflexivity]. Qed.

Lemma has_file_single t q :
  has_file [t] q ->
  match t with
  | File n => q = [n]
  | Dir d sub => exists q', q = d :: q' /\ has_file sub q'
  end.
Proof.
  intro H. inversion H as [es n Hin | es d sub q' Hin Hsub]; subst.
  - destruct Hin as [Hin | []]. subst t. reflexivity.
  - destruct Hin as [Hin | []]. subst t. exists q'. split; [reflexivity | exact Hsub].
Qed.

Lemma has_file_in t es q : In t es -> has_file [t] q -> has_file es q.
Proof.
  intros Hin H. inversion H as [es' n Hin' | es' d sub q' Hin' Hsub]; subst.
  - destruct Hin' as [Hin' | []]. subst t. constructor. exact Hin.
  - destruct Hin' as [Hin' | []]. subst t. eapply hf_deeper; eassumption.
Qed.

Lemma has_file_split es q : has_file es q -> exists t, In t es /\ has_file [t] q.
Proof.
  intro H. inversion H as [es' n Hin | es' d sub q' Hin Hsub]; subst.
  - exists (File n). split; [exact Hin | constructor; left; reflexivity].
  - exists (Dir d sub). split; [exact Hin | eapply hf_deeper; [left; reflexivity | exact Hsub]].
Qed.

Lemma god_rel_t_spec t q :
  In q (god_rel_t t) <-> has_file [t] q /\ is_god_ext (last q []) = true.
Proof.
  revert q. induction t as [n | d sub IH] using fs_ind'; intro q.
  - simpl. destruct (is_god_ext n) eqn:E.
    + split.
      * intros [H | []]. subst q. split; [constructor; left; reflexivity | exact E].
      * intros [H1 H2]. apply has_file_single in H1. subst q. left. reflexivity.
    + split; [intros [] |].
      intros [H1 H2]. apply has_file_single in H1. subst q. simpl in H2. congruence.
  - simpl. rewrite in_map_iff. rewrite Forall_forall in IH. split.
    + intros [q' [Hq Hin]]. subst q. apply in_flat_map in Hin as [t [Ht Hin]].
      apply (IH t Ht) in Hin as [H1 H2].
      assert (Hs : has_file sub q') by (eapply has_file_in; eassumption).
      split.
      * eapply hf_deeper; [left; reflexivity | exact Hs].
      * rewrite last_cons_ne by (eapply has_file_nonempty; exact Hs). exact H2.
    + intros [H1 H2]. apply has_file_single in H1 as [q' [Hq Hs]]. subst q.
      exists q'. split; [reflexivity|].
      rewrite last_cons_ne in H2 by (eapply has_file_nonempty; exact Hs).
      apply has_file_split in Hs as [t [Ht Hs]].
      apply in_flat_map. exists t. split; [exact Ht|]. apply (IH t Ht). split; assumption.
Qed.

Theorem god_rel_spec es q :
  In q (god_rel es) <-> has_file es q /\ is_god_ext (last q []) = true.
Proof.
  unfold god_rel. rewrite in_flat_map. split.
  - intros [t [Ht Hin]]. apply god_rel_t_spec in Hin as [H1 H2]. split; [|exact H2].
    eapply has_file_in; eassumption.
  - intros [H1 H2]. apply has_file_split in H1 as [t [Ht Hs]]. exists t. split; [exact Ht|].
    apply god_rel_t_spec. split; assumption.
Qed.

(* ================================================================================== *)
(* 4. the stack walk is a fold of registrations over the *.god files                   *)
(* ================================================================================== *)

(* registration of the file at path q (its name is the last component) *)
Definition reg (st : svc) (q : path) : svc := register_file q (last q []) st.
Definition regs (L : list path) (st : svc) : svc := fold_left reg L st.

Lemma last_snoc {A} (l : list A) x d : last (l ++ [x]) d = x.
Proof. induction l as [|y l IH]; [reflexivity|]. simpl. destruct (l ++ [x]) eqn:E; [destruct l; discriminate | exact IH]. Qed.

(* what one directory listing contributes: its own *.god files, and its sub-directories *)
Definition direct (p : path) (es : list fs) : list path :=
  flat_map (fun t => match t with
                     | File n => if is_god_ext n then [p ++ [n]] else []
                     | Dir _ _ => []
                     end) es.

Definition subdirs (p : path) (es : list fs) : stack :=
  flat_map (fun t => match t with
                     | File _ => []
                     | Dir n sub => [(p ++ [n], sub)]
                     end) es.

Lemma reg_snoc p n st : register_file (p ++ [n]) n st = reg st (p ++ [n]).
Proof. unfold reg. rewrite last_snoc. reflexivity. Qed.

Lemma scan_spec p es : forall st stk,
  scan p es st stk = (regs (direct p es) st, rev (subdirs p es) ++ stk).
Proof.
  induction es as [|t es IH]; intros st stk; [reflexivity|].
  destruct t as [n | n sub].
  - cbn [scan]. rewrite IH. unfold direct, subdirs. cbn [flat_map]. fold (direct p es). fold (subdirs p es).
    destruct (is_god_ext n).
    + rewrite reg_snoc. reflexivity.
    + reflexivity.
  - cbn [scan]. rewrite IH. unfold direct, subdirs. cbn [flat_map]. fold (direct p es). fold (subdirs p es).
    cbn [app rev]. rewrite <- app_assoc. reflexivity.
Qed.

(* the *.god files still to be visited *)
Definition pending (stk : stack) : list path :=
  flat_map (fun pe => map (app (fst pe)) (god_rel (snd pe))) stk.

Fixpoint dirs_l (es : list fs) : nat :=
  match es with [] => O | t :: es' => (dirs_t t + dirs_l es')%nat end.

Lemma dirs_t_Dir n es : dirs_t (Dir n es) = S (dirs_l es).
Proof. reflexivity. Qed.

(* pops still to be made *)
Fixpoint dirs_stk (stk : stack) : nat :=
  match stk with [] => O | pe :: stk' => (S (dirs_l (snd pe)) + dirs_stk stk')%nat end.

Lemma dirs_stk_app a b : dirs_stk (a ++ b) = (dirs_stk a + dirs_stk b)%nat.
Proof. induction a as [|pe a IH]; [reflexivity|]. simpl. rewrite IH. lia. Qed.

Lemma dirs_stk_rev a : dirs_stk (rev a) = dirs_stk a.
Proof. induction a as [|pe a IH]; [reflexivity|]. simpl. rewrite dirs_stk_app, IH. simpl. lia. Qed.

Lemma dirs_stk_subdirs p es : dirs_stk (subdirs p es) = dirs_l es.
Proof.
  induction es as [|t es IH]; [reflexivity|]. destruct t as [n | n sub].
  - simpl. exact IH.
  - unfold subdirs in *. cbn [flat_map app]. cbn [dirs_stk snd dirs_l]. rewrite IH.
    rewrite dirs_t_Dir. lia.
Qed.

Lemma pending_app a b q : In q (pending (a ++ b)) <-> In q (pending a) \/ In q (pending b).
Proof. unfold pending. rewrite flat_map_app, in_app_iff. reflexivity. Qed.

Lemma pending_rev a q : In q (pending (rev a)) <-> In q (pending a).
Proof.
  unfold pending. rewrite !in_flat_map. split; intros [x [H1 H2]]; exists x; split; auto.
  - apply in_rev. exact H1.
  - apply in_rev in H1. exact H1.
Qed.

Lemma direct_File p n es : direct p (File n :: es) = (if is_god_ext n then [p ++ [n]] else []) ++ direct p es.
Proof. reflexivity. Qed.
Lemma direct_Dir p n sub es : direct p (Dir n sub :: es) = direct p es.
Proof. reflexivity. Qed.
Lemma subdirs_File p n es : subdirs p (File n :: es) = subdirs p es.
Proof. reflexivity. Qed.
Lemma subdirs_Dir p n sub es : subdirs p (Dir n sub :: es) = [(p ++ [n], sub)] ++ subdirs p es.
Proof. reflexivity. Qed.

Lemma pending_dir p es q :
  In q (map (app p) (god_rel es)) <-> In q (direct p es) \/ In q (pending (subdirs p es)).
Proof.
  induction es as [|t es IH].
  - simpl. tauto.
  - change (god_rel (t :: es)) with (god_rel_t t ++ god_rel es).
    rewrite map_app, in_app_iff, IH. clear IH.
    destruct t as [n | n sub].
    + rewrite direct_File, subdirs_File, in_app_iff. cbn [god_rel_t].
      destruct (is_god_ext n); simpl; tauto.
    + rewrite direct_Dir, subdirs_Dir, pending_app. cbn [god_rel_t].
      match goal with |- In q ?X \/ _ <-> _ => assert (E : X = pending [(p ++ [n], sub)]) end.
      { unfold pending. cbn [flat_map fst snd]. rewrite app_nil_r. rewrite map_map.
        apply map_ext. intro a. rewrite <- app_assoc. reflexivity. }
      rewrite E. tauto.
Qed.

Theorem walk_fold : forall fuel stk, (dirs_stk stk <= fuel)%nat ->
  exists order, (forall q, In q order <-> In q (pending stk)) /\
                forall st, walk fuel stk st = Some (regs order st).
Proof.
  induction fuel as [|f IH]; intros stk Hf.
  - destruct stk as [|pe stk]; [|simpl in Hf; lia].
    exists []. split; [intro q; simpl; tauto | reflexivity].
  - destruct stk as [|[p es] stk].
    + exists []. split; [intro q; simpl; tauto | reflexivity].
    + destruct (IH (rev (subdirs p es) ++ stk)) as [order [Ho Hw]].
      { rewrite dirs_stk_app, dirs_stk_rev, dirs_stk_subdirs. simpl in Hf. lia. }
      exists (direct p es ++ order). split.
      * intro q. rewrite in_app_iff, Ho, pending_app, pending_rev.
        change ((p, es) :: stk) with ([(p, es)] ++ stk). rewrite pending_app.
        unfold pending at 3. cbn [flat_map fst snd]. rewrite app_nil_r, pending_dir. tauto.
      * intro st. cbn [walk]. rewrite scan_spec, Hw. unfold regs. rewrite fold_left_app. reflexivity.
Qed.

(* fuel never runs out: the number of directories is enough *)
Corollary walk_fuel_enough fuel stk st : (dirs_stk stk <= fuel)%nat -> walk fuel stk st <> None.
Proof. intro H. destruct (walk_fold fuel stk H) as [o [_ Hw]]. rewrite Hw. discriminate. Qed.

(* ================================================================================== *)
(* 5. what a fold of registrations does                                               *)
(* ================================================================================== *)

(* upper-cased stem of the file at q: the key of class_uri_map *)
Definition ustem (q : path) : option str := option_map upper (file_stem (last q [])).

(* the two halves of a registration are independent of each other *)
Definition docs_reg (dn : list (path * docinfo) * N) (q : path) : list (path * docinfo) * N :=
  match plookup q (fst dn) with
  | Some _ => dn
  | None => (fst dn ++ [(q, mkDoc (snd dn) None None)], snd dn + 1)
  end.

Definition cls_reg (m : list (str * path)) (q : path) : list (str * path) :=
  match ustem q with Some k => ainsert k q m | None => m end.

Lemma reg_split st q :
  reg st q = mkSvc (fst (docs_reg (docs st, next st) q)) (cls_reg (classes st) q)
                   (snd (docs_reg (docs st, next st) q)).
Proof.
  unfold reg, register_file, docs_reg, cls_reg, ustem. cbn [fst snd].
  destruct (plookup q (docs st)) eqn:E; cbn [docs classes next fst snd].
  - destruct (file_stem (last q [])); reflexivity.
  - rewrite pinsert_absent by exact E. destruct (file_stem (last q [])); reflexivity.
Qed.

Lemma regs_split L : forall st,
  regs L st = mkSvc (fst (fold_left docs_reg L (docs st, next st)))
                    (fold_left cls_reg L (classes st))
                    (snd (fold_left docs_reg L (docs st, next st))).
Proof.
  induction L as [|q L IH]; intro st.
  - destruct st; reflexivity.
  - unfold regs in *. cbn [fold_left]. rewrite IH, reg_split. cbn [docs classes next].
    destruct (docs_reg (docs st, next st) q); reflexivity.
Qed.

Lemma docs_regs L st : docs (regs L st) = fst (fold_left docs_reg L (docs st, next st)).
Proof. rewrite regs_split. reflexivity. Qed.
Lemma next_regs L st : next (regs L st) = snd (fold_left docs_reg L (docs st, next st)).
Proof. rewrite regs_split. reflexivity. Qed.
Lemma classes_regs L st : classes (regs L st) = fold_left cls_reg L (classes st).
Proof. rewrite regs_split. reflexivity. Qed.

(* ---- the document half ---- *)

Lemma docs_fold_keys L : forall dn p,
  In p (keys (fst (fold_left docs_reg L dn))) <-> In p (keys (fst dn)) \/ In p L.
Proof.
  induction L as [|q L IH]; intros dn p; cbn [fold_left].
  - simpl. tauto.
  - rewrite IH. unfold docs_reg. destruct (plookup q (fst dn)) eqn:E.
    + apply plookup_Some_key in E. simpl. split; [tauto|]. intros [H | [H | H]]; auto. subst. auto.
    + cbn [fst]. rewrite keys_app, in_app_iff. simpl. tauto.
Qed.

Lemma docs_fold_preserves L : forall dn p d,
  plookup p (fst dn) = Some d -> plookup p (fst (fold_left docs_reg L dn)) = Some d.
Proof.
  induction L as [|q L IH]; intros dn p d H; cbn [fold_left]; [exact H|].
  apply IH. unfold docs_reg. destruct (plookup q (fst dn)); [exact H|].
  cbn [fst]. rewrite plookup_app, H. reflexivity.
Qed.

Lemma docs_fold_next_mono L : forall dn, snd dn <= snd (fold_left docs_reg L dn).
Proof.
  induction L as [|q L IH]; intro dn; cbn [fold_left]; [lia|].
  etransitivity; [|apply IH]. unfold docs_reg. destruct (plookup q (fst dn)); cbn [snd]; lia.
Qed.

Lemma docs_fold_nodup L : forall dn,
  NoDup (keys (fst dn)) -> NoDup (keys (fst (fold_left docs_reg L dn))).
Proof.
  induction L as [|q L IH]; intros dn H; cbn [fold_left]; [exact H|].
  apply IH. unfold docs_reg. destruct (plookup q (fst dn)) eqn:E; [exact H|].
  cbn [fst]. rewrite keys_app. simpl. apply plookup_None in E.
  apply NoDup_rev in H. rewrite <- (rev_involutive (keys (fst dn) ++ [q])). apply NoDup_rev.
  rewrite rev_app_distr. simpl. constructor; [rewrite <- in_rev; exact E | exact H].
Qed.

Lemma docs_reg_cases dn q :
  (plookup q (fst dn) <> None /\ docs_reg dn q = dn) \/
  (plookup q (fst dn) = None /\
   docs_reg dn q = (fst dn ++ [(q, mkDoc (snd dn) None None)], snd dn + 1)).
Proof.
  unfold docs_reg. destruct (plookup q (fst dn)); [left | right]; split; congruence.
Qed.

(* a record that the fold adds is new: fresh identity, empty editor state *)
Lemma docs_fold_fresh L : forall dn p d,
  plookup p (fst dn) = None -> plookup p (fst (fold_left docs_reg L dn)) = Some d ->
  opened d = None /\ saved d = None /\ snd dn <= did d < snd (fold_left docs_reg L dn).
Proof.
  induction L as [|q L IH]; intros dn p d Hn Hs; cbn [fold_left] in *; [congruence|].
  destruct (docs_reg_cases dn q) as [[E1 E2] | [E1 E2]]; rewrite E2 in *.
  - apply (IH dn p d); assumption.
  - set (dn' := (fst dn ++ [(q, mkDoc (snd dn) None None)], snd dn + 1)) in *.
    destruct (path_eq_dec p q) as [-> | Hne].
    + assert (Hq : plookup q (fst dn') = Some (mkDoc (snd dn) None None)).
      { unfold dn'. cbn [fst]. rewrite plookup_app, E1. simpl. rewrite path_eqb_refl. reflexivity. }
      pose proof (docs_fold_preserves L _ _ _ Hq) as Hq'. rewrite Hs in Hq'. inversion Hq'; subst d.
      cbn [opened saved did]. split; [reflexivity|]. split; [reflexivity|].
      pose proof (docs_fold_next_mono L dn') as Hm. unfold dn' in Hm at 1. cbn [snd] in Hm. lia.
    + assert (Hp : plookup p (fst dn') = None).
      { unfold dn'. cbn [fst]. rewrite plookup_app, Hn. simpl. apply path_eqb_neq in Hne. rewrite Hne. reflexivity. }
      destruct (IH _ _ _ Hp Hs) as [H1 [H2 H3]]. unfold dn' in H3 at 1. cbn [snd] in H3.
      split; [exact H1|]. split; [exact H2|]. lia.
Qed.

(* nothing changes when every path is already a key *)
Lemma docs_fold_noop L : forall dn,
  (forall q, In q L -> plookup q (fst dn) <> None) -> fold_left docs_reg L dn = dn.
Proof.
  induction L as [|q L IH]; intros dn H; cbn [fold_left]; [reflexivity|].
  assert (E : docs_reg dn q = dn).
  { unfold docs_reg. destruct (plookup q (fst dn)) eqn:E; [reflexivity|].
    exfalso. apply (H q); [left; reflexivity | exact E]. }
  rewrite E. apply IH. intros q' Hq'. apply H. right. exact Hq'.
Qed.

(* identities: below the counter, pairwise distinct *)
Definition ids_ok (dn : list (path * docinfo) * N) : Prop :=
  NoDup (map (fun x => did (snd x)) (fst dn)) /\ forall p d, In (p, d) (fst dn) -> did d < snd dn.

Lemma docs_fold_ids L : forall dn, ids_ok dn -> ids_ok (fold_left docs_reg L dn).
Proof.
  induction L as [|q L IH]; intros dn H; cbn [fold_left]; [exact H|].
  apply IH. unfold docs_reg. destruct (plookup q (fst dn)); [exact H|].
  destruct H as [H1 H2]. split; cbn [fst snd].
  - rewrite map_app. simpl.
    apply NoDup_rev in H1. rewrite <- (rev_involutive (_ ++ [snd dn])). apply NoDup_rev.
    rewrite rev_app_distr. simpl. constructor; [|exact H1].
    rewrite <- in_rev. intro Hin. apply in_map_iff in Hin as [[p d] [Hd Hin]]. simpl in Hd.
    apply H2 in Hin. lia.
  - intros p d Hin. apply in_app_iff in Hin as [Hin | [Hin | []]].
    + apply H2 in Hin. lia.
    + inversion Hin; subst. simpl. lia.
Qed.

(* ---- the class half ---- *)

(* the last path of L whose upper-cased stem is k *)
Fixpoint last_cls (L : list path) (k : str) : option path :=
  match L with
  | [] => None
  | q :: L' =>
      match last_cls L' k with
      | Some r => Some r
      | None => match ustem q with
                | Some k' => if str_eqb k' k then Some q else None
                | None => None
                end
      end
  end.

Lemma cls_fold_lookup L : forall m k,
  alookup k (fold_left cls_reg L m) =
  match last_cls L k with Some q => Some q | None => alookup k m end.
Proof.
  induction L as [|q L IH]; intros m k; cbn [fold_left last_cls]; [reflexivity|].
  rewrite IH. destruct (last_cls L k); [reflexivity|].
  unfold cls_reg. destruct (ustem q) as [k'|]; [|reflexivity].
  destruct (str_eqb k' k) eqn:E.
  - apply str_eqb_eq in E. subst k'. apply alookup_ainsert_same.
  - apply alookup_ainsert_other. apply str_eqb_neq in E. congruence.
Qed.

Lemma last_cls_In L k q : last_cls L k = Some q -> In q L /\ ustem q = Some k.
Proof.
  induction L as [|x L IH]; cbn [last_cls]; [discriminate|].
  destruct (last_cls L k) eqn:E.
  - intro H; inversion H; subst. destruct (IH eq_refl) as [H1 H2]. split; [right; exact H1 | exact H2].
  - destruct (ustem x) as [k'|] eqn:Ex; [|discriminate].
    destruct (str_eqb k' k) eqn:Ek; [|discriminate].
    intro H; inversion H; subst. apply str_eqb_eq in Ek. subst. split; [left; reflexivity | exact Ex].
Qed.

Lemma last_cls_None L k : last_cls L k = None -> forall q, In q L -> ustem q <> Some k.
Proof.
  induction L as [|x L IH]; cbn [last_cls]; [intros _ q []|].
  destruct (last_cls L k) eqn:E; [discriminate|].
  intros H q [Hq | Hq].
  - subst x. destruct (ustem q) as [k'|]; [|discriminate].
    destruct (str_eqb k' k) eqn:Ek; [discriminate|]. apply str_eqb_neq in Ek. congruence.
  - apply IH; [reflexivity | exact Hq].
Qed.

Lemma last_cls_hit L k q : In q L -> ustem q = Some k -> exists r, last_cls L k = Some r.
Proof.
  intros Hin Hk. destruct (last_cls L k) eqn:E; [eexists; reflexivity|].
  exfalso. eapply last_cls_None; eassumption.
Qed.

Lemma cls_fold_skeys_nodup L : forall m, NoDup (skeys m) -> NoDup (skeys (fold_left cls_reg L m)).
Proof.
  induction L as [|q L IH]; intros m H; cbn [fold_left]; [exact H|].
  apply IH. unfold cls_reg. destruct (ustem q); [apply NoDup_skeys_ainsert|]; exact H.
Qed.

Lemma cls_fold_skeys_present L : forall m,
  (forall q k, In q L -> ustem q = Some k -> alookup k m <> None) ->
  skeys (fold_left cls_reg L m) = skeys m.
Proof.
  induction L as [|q L IH]; intros m H; cbn [fold_left]; [reflexivity|].
  assert (E : skeys (cls_reg m q) = skeys m).
  { unfold cls_reg. destruct (ustem q) as [k|] eqn:Ek; [|reflexivity].
    apply skeys_ainsert_present. eapply H; [left; reflexivity | exact Ek]. }
  rewrite IH; [exact E|].
  intros q' k' Hin Hk Hn. apply alookup_None in Hn. rewrite E in Hn. apply alookup_None in Hn.
  revert Hn. eapply H; [right; exact Hin | exact Hk].
Qed.

(* ================================================================================== *)
(* 6. index_files                                                                      *)
(* ================================================================================== *)

(* the *.god files below the workspace root, as absolute paths *)
Definition god_under (w : world) : list path :=
  match ws_root w with
  | None => []
  | Some r => match node_at (top w) r with
              | Some (Dir _ es) => map (app r) (god_rel es)
              | _ => []
              end
  end.

(* the workspace root is not a regular file *)
Definition root_ok (w : world) : Prop :=
  forall r n, ws_root w = Some r -> node_at (top w) r <> Some (File n).

Lemma index_files_cases w :
  (exists r n, ws_root w = Some r /\ node_at (top w) r = Some (File n) /\
               forall st, index_files w st = Panic 2) \/
  (exists order, (forall q, In q order <-> In q (god_under w)) /\
                 forall st, index_files w st = Ok (regs order st)).
Proof.
  unfold index_files, god_under. destruct (ws_root w) as [r|].
  2:{ right. exists []. split; [intro q; simpl; tauto | reflexivity]. }
  destruct (node_at (top w) r) as [[n | n es]|] eqn:E.
  - left. exists r, n. auto.
  - right. destruct (walk_fold (dirs_t (Dir n es)) [(r, es)]) as [order [Ho Hw]].
    { rewrite dirs_t_Dir. simpl. lia. }
    exists order. split.
    + intro q. rewrite Ho. unfold pending. cbn [flat_map fst snd]. rewrite app_nil_r. reflexivity.
    + intro st. rewrite Hw. reflexivity.
  - right. exists []. split; [intro q; simpl; tauto | reflexivity].
Qed.

Theorem index_files_total w st : index_files w st <> OutOfFuel.
Proof.
  destruct (index_files_cases w) as [[r [n [_ [_ H]]]] | [o [_ H]]]; rewrite H; discriminate.
Qed.

Theorem index_files_panic w st k : index_files w st = Panic k -> k = 2 /\ ~ root_ok w.
Proof.
  destruct (index_files_cases w) as [[r [n [H1 [H2 H]]]] | [o [_ H]]]; rewrite H; [|discriminate].
  intro E; inversion E; subst. split; [reflexivity|]. intro Hok. eapply Hok; eassumption.
Qed.

Lemma index_files_ok w st st' :
  index_files w st = Ok st' ->
  exists order, (forall q, In q order <-> In q (god_under w)) /\ st' = regs order st /\
                forall st0, index_files w st0 = Ok (regs order st0).
Proof.
  destruct (index_files_cases w) as [[r [n [_ [_ H]]]] | [o [Ho H]]]; rewrite H; [discriminate|].
  intro E; inversion E; subst. exists o. auto.
Qed.

Lemma root_ok_index w st : root_ok w -> exists st', index_files w st = Ok st'.
Proof.
  intro Hok. destruct (index_files_cases w) as [[r [n [H1 [H2 _]]]] | [o [_ H]]].
  - exfalso. eapply Hok; eassumption.
  - eexists. apply H.
Qed.

(* membership in god_under, spelled out: a file at any depth below the root whose name has
   extension god *)
Theorem god_under_spec w q :
  In q (god_under w) <->
  exists r n es rel, ws_root w = Some r /\ node_at (top w) r = Some (Dir n es) /\
                     has_file es rel /\ is_god_ext (last rel []) = true /\ q = r ++ rel.
Proof.
  unfold god_under. split.
  - destruct (ws_root w) as [r|]; [|intros []].
    destruct (node_at (top w) r) as [[n | n es]|] eqn:En; try (intros []).
    intro H. apply in_map_iff in H as [rel [Hq Hin]]. apply god_rel_spec in Hin as [H1 H2].
    exists r, n, es, rel. split; [reflexivity|]. split; [exact En|]. split; [exact H1|].
    split; [exact H2 | symmetry; exact Hq].
  - intros [r [n [es [rel [H1 [H2 [H3 [H4 H5]]]]]]]]. rewrite H1, H2. subst q.
    apply in_map. apply god_rel_spec. split; assumption.
Qed.

Lemma last_app_ne {A} (a b : list A) d : b <> [] -> last (a ++ b) d = last b d.
Proof.
  intro Hb. induction a as [|x a IH]; [reflexivity|].
  cbn [app]. rewrite last_cons_ne; [exact IH|]. destruct a; simpl; [exact Hb | discriminate].
Qed.

Lemma god_under_ext w q : In q (god_under w) -> is_god_ext (last q []) = true.
Proof.
  intro H. apply god_under_spec in H as [r [n [es [rel [_ [_ [H3 [H4 H5]]]]]]]]. subst q.
  rewrite last_app_ne by (eapply has_file_nonempty; exact H3). exact H4.
Qed.

(* ---- completeness, soundness ---- *)

Theorem index_complete w st st' q :
  index_files w st = Ok st' -> In q (god_under w) -> In q (keys (docs st')).
Proof.
  intros H Hq. apply index_files_ok in H as [o [Ho [-> _]]].
  rewrite docs_regs. apply docs_fold_keys. right. apply Ho. exact Hq.
Qed.

Theorem index_sound w st st' q :
  index_files w st = Ok st' -> In q (keys (docs st')) -> In q (keys (docs st)) \/ In q (god_under w).
Proof.
  intros H Hq. apply index_files_ok in H as [o [Ho [-> _]]].
  rewrite docs_regs in Hq. apply docs_fold_keys in Hq as [Hq | Hq]; [left; exact Hq | right; apply Ho; exact Hq].
Qed.

Theorem index_nodup_step w st st' :
  index_files w st = Ok st' -> NoDup (keys (docs st)) -> NoDup (keys (docs st')).
Proof.
  intros H Hn. apply index_files_ok in H as [o [_ [-> _]]]. rewrite docs_regs.
  apply docs_fold_nodup. exact Hn.
Qed.

Theorem index_exact_fresh w st' :
  index_files w init_svc = Ok st' ->
  (forall q, In q (keys (docs st')) <-> In q (god_under w)) /\ NoDup (keys (docs st')).
Proof.
  intro H. split.
  - intro q. split.
    + intro Hq. destruct (index_sound _ _ _ _ H Hq) as [[] | Hq']. exact Hq'.
    + apply index_complete with (st := init_svc). exact H.
  - eapply index_nodup_step; [exact H | constructor].
Qed.

(* ---- re-indexing keeps every record; new records are new ---- *)

Theorem reindex_preserves w st st' p d :
  index_files w st = Ok st' -> plookup p (docs st) = Some d -> plookup p (docs st') = Some d.
Proof.
  intros H Hp. apply index_files_ok in H as [o [_ [-> _]]]. rewrite docs_regs.
  apply docs_fold_preserves. exact Hp.
Qed.

Theorem reindex_new_records w st st' p d :
  index_files w st = Ok st' -> plookup p (docs st) = None -> plookup p (docs st') = Some d ->
  In p (god_under w) /\ opened d = None /\ saved d = None /\ next st <= did d < next st'.
Proof.
  intros H Hn Hs. pose proof H as H0. apply index_files_ok in H as [o [Ho [-> _]]]. split.
  - destruct (index_sound _ _ _ p H0) as [Hk | Hk]; [| |exact Hk].
    + eapply plookup_Some_key. exact Hs.
    + apply plookup_None in Hn. contradiction.
  - rewrite docs_regs in Hs. rewrite next_regs.
    apply (docs_fold_fresh o (docs st, next st) p d Hn Hs).
Qed.

(* ---- class look-up ---- *)

(* no two *.god files below the root have the same stem ignoring case *)
Definition stems_unique (w : world) : Prop :=
  forall q q', In q (god_under w) -> In q' (god_under w) -> ustem q = ustem q' -> q = q'.

Lemma ustem_some q : exists k, ustem q = Some k.
Proof. unfold ustem. destruct (file_stem_some (last q [])) as [s ->]. eexists; reflexivity. Qed.

Theorem class_lookup_ci w st st' q s s' :
  index_files w st = Ok st' -> stems_unique w -> In q (god_under w) ->
  file_stem (last q []) = Some s -> upper s' = upper s ->
  lookup_class st' s' = Some q.
Proof.
  intros H Hu Hq Hs Hc. apply index_files_ok in H as [o [Ho [-> _]]].
  unfold lookup_class. rewrite Hc, classes_regs, cls_fold_lookup.
  assert (Hk : ustem q = Some (upper s)) by (unfold ustem; rewrite Hs; reflexivity).
  destruct (last_cls_hit o (upper s) q) as [r Hr]; [apply Ho; exact Hq | exact Hk |].
  rewrite Hr. f_equal. apply last_cls_In in Hr as [Hr1 Hr2].
  apply Hu; [apply Ho; exact Hr1 | exact Hq | congruence].
Qed.

(* a class answer after a walk is the old answer or a *.god file below the root with that stem *)
Theorem class_answer_sound w st st' c p :
  index_files w st = Ok st' -> lookup_class st' c = Some p ->
  lookup_class st c = Some p \/ (In p (god_under w) /\ ustem p = Some (upper c)).
Proof.
  intros H Hl. apply index_files_ok in H as [o [Ho [-> _]]].
  unfold lookup_class in *. rewrite classes_regs, cls_fold_lookup in Hl.
  destruct (last_cls o (upper c)) eqn:E; [|left; exact Hl].
  inversion Hl; subst. apply last_cls_In in E as [E1 E2]. right. split; [apply Ho; exact E1 | exact E2].
Qed.

(* a walk never changes the answer for a class that no *.god file below the root defines, and
   with unique stems never changes an answer that points below the root *)
Theorem class_answer_stable w st st' c p :
  index_files w st = Ok st' -> stems_unique w ->
  lookup_class st c = Some p -> In p (god_under w) -> ustem p = Some (upper c) ->
  lookup_class st' c = Some p.
Proof.
  intros H Hu Hl Hp Hk. apply index_files_ok in H as [o [Ho [-> _]]].
  unfold lookup_class in *. rewrite classes_regs, cls_fold_lookup.
  destruct (last_cls o (upper c)) eqn:E; [|exact Hl].
  f_equal. apply last_cls_In in E as [E1 E2]. apply Hu; [apply Ho; exact E1 | exact Hp | congruence].
Qed.

(* ---- idempotence ---- *)

Theorem reindex_idempotent w st st1 :
  index_files w st = Ok st1 -> NoDup (skeys (classes st)) -> index_files w st1 = Ok st1.
Proof.
  intros H Hn. apply index_files_ok in H as [o [Ho [-> Hall]]]. rewrite Hall. f_equal.
  rewrite (regs_split o (regs o st)). rewrite docs_regs, next_regs, classes_regs.
  assert (Hd : fold_left docs_reg o (fold_left docs_reg o (docs st, next st)) =
               fold_left docs_reg o (docs st, next st)).
  { destruct (fold_left docs_reg o (docs st, next st)) as [d n] eqn:E.
    apply docs_fold_noop. intros q Hq Hnone. cbn [fst] in Hnone. apply plookup_None in Hnone.
    apply Hnone. replace d with (fst (fold_left docs_reg o (docs st, next st))) by (rewrite E; reflexivity).
    apply docs_fold_keys. right. exact Hq. }
  assert (Hc : fold_left cls_reg o (fold_left cls_reg o (classes st)) = fold_left cls_reg o (classes st)).
  { apply assoc_ext.
    - apply cls_fold_skeys_present. intros q k Hq Hk. rewrite cls_fold_lookup.
      destruct (last_cls_hit o k q Hq Hk) as [r ->]. discriminate.
    - apply cls_fold_skeys_nodup. apply cls_fold_skeys_nodup. exact Hn.
    - intro k. rewrite !cls_fold_lookup. destruct (last_cls o k); reflexivity. }
  rewrite (regs_split o st).
  replace (fst (fold_left docs_reg o (docs st, next st)), snd (fold_left docs_reg o (docs st, next st)))
    with (fold_left docs_reg o (docs st, next st)) by (destruct (fold_left docs_reg o (docs st, next st)); reflexivity).
  rewrite Hd, Hc. reflexivity.
Qed.

(* ================================================================================== *)
(* 7. look-up by URI: a file of the tree exists for get_key_for_path                   *)
(* ================================================================================== *)

(* names inside one directory are distinct, recursively *)
Fixpoint wf_t (t : fs) : Prop :=
  match t with
  | File _ => True
  | Dir _ es => NoDup (map fname es) /\
                (fix go (l : list fs) : Prop :=
                   match l with [] => True | x :: l' => wf_t x /\ go l' end) es
  end.

Lemma wf_t_Dir n es : wf_t (Dir n es) <-> NoDup (map fname es) /\ Forall wf_t es.
Proof.
  cbn [wf_t]. split; intros [H1 H2]; (split; [exact H1|]).
  - induction es as [|x es IH]; [constructor|]. destruct H2 as [Hx H2]. inversion H1; subst.
    constructor; [exact Hx | apply IH; assumption].
  - induction es as [|x es IH]; [exact I|]. inversion H2; subst. inversion H1; subst.
    split; [assumption | apply IH; assumption].
Qed.

Lemma find_entry_Some es n t : find_entry es n = Some t -> In t es /\ fname t = n.
Proof.
  induction es as [|x es IH]; simpl; [discriminate|].
  destruct (str_eqb (fname x) n) eqn:E.
  - intro H; inversion H; subst. apply str_eqb_eq in E. split; [left; reflexivity | exact E].
  - intro H. destruct (IH H) as [H1 H2]. split; [right; exact H1 | exact H2].
Qed.

Lemma find_entry_None es n : find_entry es n = None -> forall t, In t es -> fname t <> n.
Proof.
  induction es as [|x es IH]; simpl; [intros _ t []|].
  destruct (str_eqb (fname x) n) eqn:E; [discriminate|]. apply str_eqb_neq in E.
  intros H t [Ht | Ht]; [subst; exact E | apply IH; assumption].
Qed.

Lemma find_entry_In es t : NoDup (map fname es) -> In t es -> find_entry es (fname t) = Some t.
Proof.
  induction es as [|x es IH]; simpl; [intros _ []|].
  intros Hnd Hin. apply NoDup_cons_iff in Hnd as [Hni Hnd]. destruct (str_eqb (fname x) (fname t)) eqn:E.
  - destruct Hin as [Hin | Hin]; [subst; reflexivity|].
    apply str_eqb_eq in E. exfalso. apply Hni. rewrite E. apply in_map. exact Hin.
  - destruct Hin as [Hin | Hin]; [subst; rewrite str_eqb_refl in E; discriminate|].
    apply IH; assumption.
Qed.

Lemma node_at_app a : forall t b,
  node_at t (a ++ b) = match node_at t a with Some t' => node_at t' b | None => None end.
Proof.
  induction a as [|n a IH]; intros t b; [reflexivity|].
  cbn [app node_at]. destruct t as [x | d es]; [reflexivity|].
  destruct (find_entry es n); [apply IH | reflexivity].
Qed.

Lemma wf_node_at a : forall t t', wf_t t -> node_at t a = Some t' -> wf_t t'.
Proof.
  induction a as [|n a IH]; intros t t' Hwf H; cbn [node_at] in H.
  - inversion H; subst. exact Hwf.
  - destruct t as [x | d es]; [discriminate|].
    destruct (find_entry es n) as [t1|] eqn:E; [|discriminate].
    apply find_entry_Some in E as [E _]. apply wf_t_Dir in Hwf as [_ Hall].
    rewrite Forall_forall in Hall. eapply IH; [apply Hall; exact E | exact H].
Qed.

Lemma has_file_node_at es q : has_file es q ->
  forall d, wf_t (Dir d es) -> node_at (Dir d es) q = Some (File (last q [])).
Proof.
  induction 1 as [es n Hin | es d' sub q Hin Hsub IH]; intros d Hwf; apply wf_t_Dir in Hwf as [Hnd Hall].
  - cbn [node_at]. change n with (fname (File n)) at 1. rewrite find_entry_In by assumption. reflexivity.
  - cbn [node_at]. change d' with (fname (Dir d' sub)) at 1. rewrite find_entry_In by assumption.
    rewrite last_cons_ne by (eapply has_file_nonempty; exact Hsub).
    apply IH. rewrite Forall_forall in Hall. apply Hall. exact Hin.
Qed.

Lemma node_at_has_file rel : forall d es x,
  rel <> [] -> node_at (Dir d es) rel = Some (File x) -> has_file es rel /\ x = last rel [].
Proof.
  induction rel as [|n rel IH]; intros d es x Hne H; [congruence|].
  cbn [node_at] in H. destruct (find_entry es n) as [t|] eqn:E; [|discriminate].
  apply find_entry_Some in E as [Hin Hn]. destruct rel as [|m rel].
  - cbn [node_at] in H. inversion H; subst. simpl. split; [constructor; exact Hin | reflexivity].
  - destruct t as [y | d' sub]; [discriminate|]. simpl in Hn. subst d'.
    destruct (IH d sub x) as [H1 H2]; [discriminate | exact H |].
    split; [eapply hf_deeper; eassumption|]. rewrite last_cons_ne by discriminate. exact H2.
Qed.

Theorem god_file_exists w q :
  wf_t (top w) -> In q (god_under w) -> node_at (top w) q = Some (File (last q [])).
Proof.
  intros Hwf H. apply god_under_spec in H as [r [n [es [rel [_ [H2 [H3 [_ H5]]]]]]]]. subst q.
  rewrite node_at_app, H2.
  rewrite last_app_ne by (eapply has_file_nonempty; exact H3).
  apply has_file_node_at; [exact H3|]. eapply wf_node_at; eassumption.
Qed.

Theorem uri_lookup w st st' q :
  index_files w st = Ok st' -> wf_t (top w) -> In q (god_under w) ->
  exists d, get_document_info w q st' = Ok (st', d) /\ plookup q (docs st') = Some d.
Proof.
  intros H Hwf Hq. unfold get_document_info. rewrite (god_file_exists w q Hwf Hq).
  pose proof (index_complete _ _ _ _ H Hq) as Hk.
  destruct (plookup q (docs st')) as [d|] eqn:E.
  - exists d. split; reflexivity.
  - apply plookup_None in E. contradiction.
Qed.

(* ================================================================================== *)
(* 8. file creation only adds                                                          *)
(* ================================================================================== *)

Lemma has_file_incl es es' rel :
  (forall t, In t es -> In t es') -> has_file es rel -> has_file es' rel.
Proof.
  intros Hi H. inversion H as [e n Hin | e d sub q Hin Hsub]; subst.
  - constructor. apply Hi. exact Hin.
  - eapply hf_deeper; [apply Hi; exact Hin | exact Hsub].
Qed.

Lemma In_map_entry n f es t : In t es -> In t (map_entry n f es) \/ In (f t) (map_entry n f es).
Proof.
  induction es as [|x es IH]; simpl; [intros []|].
  destruct (str_eqb (fname x) n).
  - intros [H | H]; [subst; right; left; reflexivity | left; right; exact H].
  - intros [H | H]; [subst; left; left; reflexivity|].
    destruct (IH H) as [H1 | H1]; [left | right]; right; exact H1.
Qed.

(* shape of the result: a file stays, a directory keeps its name and everything below it *)
Definition grows (t t' : fs) : Prop :=
  match t with
  | File n => t' = File n
  | Dir d es => exists es', t' = Dir d es' /\ forall rel, has_file es rel -> has_file es' rel
  end.

Lemma grows_refl t : grows t t.
Proof. destruct t; simpl; [reflexivity | eexists; split; [reflexivity | auto]]. Qed.

Lemma grows_fname t t' : grows t t' -> fname t' = fname t.
Proof. destruct t; simpl; [intros ->; reflexivity | intros [es' [-> _]]; reflexivity]. Qed.

Lemma map_entry_grows n f es rel :
  (forall t, grows t (f t)) -> has_file es rel -> has_file (map_entry n f es) rel.
Proof.
  intros Hf H. inversion H as [e m Hin | e d sub q Hin Hsub]; subst.
  - constructor. destruct (In_map_entry n f _ _ Hin) as [H1 | H1]; [exact H1|].
    pose proof (Hf (File m)) as Hg. simpl in Hg. rewrite Hg in H1. exact H1.
  - destruct (In_map_entry n f _ _ Hin) as [H1 | H1]; [eapply hf_deeper; eassumption|].
    pose proof (Hf (Dir d sub)) as Hg. simpl in Hg. destruct Hg as [sub' [Hg1 Hg2]]. rewrite Hg1 in H1.
    eapply hf_deeper; [exact H1 | apply Hg2; exact Hsub].
Qed.

Lemma create_file_grows p : forall t, grows t (create_file t p).
Proof.
  induction p as [|n p IH]; intro t; [apply grows_refl|].
  destruct t as [x | d es]; [reflexivity|]. cbn [create_file grows].
  destruct (find_entry es n).
  - eexists. split; [reflexivity|]. intros rel H. apply map_entry_grows; [|exact H]. intro t. apply IH.
  - eexists. split; [reflexivity|]. intros rel H. eapply has_file_incl; [|exact H].
    intros t Ht. apply in_app_iff. left. exact Ht.
Qed.

Lemma find_entry_map_entry m f es a :
  (forall t, fname (f t) = fname t) ->
  find_entry (map_entry m f es) a =
  if str_eqb a m then option_map f (find_entry es a) else find_entry es a.
Proof.
  intro Hf. induction es as [|x es IH]; simpl.
  - destruct (str_eqb a m); reflexivity.
  - destruct (str_eqb (fname x) m) eqn:Em; simpl.
    + rewrite Hf. apply str_eqb_eq in Em. destruct (str_eqb (fname x) a) eqn:Ea.
      * apply str_eqb_eq in Ea. rewrite <- Ea, Em, str_eqb_refl. reflexivity.
      * destruct (str_eqb a m) eqn:Eam; [|reflexivity].
        apply str_eqb_eq in Eam. subst a. rewrite Em in Ea. rewrite str_eqb_refl in Ea. discriminate.
    + destruct (str_eqb (fname x) a) eqn:Ea.
      * apply str_eqb_eq in Ea. subst a. rewrite Em. reflexivity.
      * exact IH.
Qed.

Lemma find_entry_app_l es x a t : find_entry es a = Some t -> find_entry (es ++ [x]) a = Some t.
Proof.
  induction es as [|y es IH]; simpl; [discriminate|].
  destruct (str_eqb (fname y) a); [auto | exact IH].
Qed.

Lemma create_file_node_at p : forall t r n es,
  node_at t r = Some (Dir n es) ->
  exists es', node_at (create_file t p) r = Some (Dir n es') /\
              forall rel, has_file es rel -> has_file es' rel.
Proof.
  induction p as [|m p IH]; intros t r n es H.
  - exists es. split; [exact H | auto].
  - destruct t as [x | d es0].
    { exists es. split; [exact H | auto]. }
    destruct r as [|a r].
    + cbn [node_at] in H. inversion H; subst d es0.
      pose proof (create_file_grows (m :: p) (Dir n es)) as Hg. unfold grows in Hg.
      destruct Hg as [es' [Hg1 Hg2]]. exists es'. split; [rewrite Hg1; reflexivity | exact Hg2].
    + cbn [node_at] in H. destruct (find_entry es0 a) as [t'|] eqn:Ea; [|discriminate].
      cbn [create_file]. destruct (find_entry es0 m) eqn:Em.
      * cbn [node_at]. rewrite find_entry_map_entry
          by (intro t0; apply grows_fname; apply create_file_grows).
        rewrite Ea. cbn [option_map]. destruct (str_eqb a m).
        -- apply IH. exact H.
        -- exists es. split; [exact H | auto].
      * cbn [node_at]. rewrite (find_entry_app_l _ _ _ _ Ea). exists es. split; [exact H | auto].
Qed.

Definition after_create (w : world) (p : path) : world := mkWorld (create_file (top w) p) (ws_root w).

Theorem god_under_create_mono w p q : In q (god_under w) -> In q (god_under (after_create w p)).
Proof.
  intro H. apply god_under_spec in H as [r [n [es [rel [H1 [H2 [H3 [H4 H5]]]]]]]].
  destruct (create_file_node_at p _ _ _ _ H2) as [es' [E1 E2]].
  apply god_under_spec. exists r, n, es', rel. cbn [after_create ws_root top].
  split; [exact H1|]. split; [exact E1|]. split; [apply E2; exact H3|]. split; assumption.
Qed.

(* when does create_file create?  walking down p stays inside directories and reaches a
   name that does not exist yet *)
Fixpoint creatable (t : fs) (p : path) : Prop :=
  match p with
  | [] => False
  | n :: p' =>
      match t with
      | File _ => False
      | Dir _ es => match find_entry es n with
                    | None => True
                    | Some t' => creatable t' p'
                    end
      end
  end.

Lemma fname_fresh_chain n p : fname (fresh_chain n p) = n.
Proof. destruct p; reflexivity. Qed.

Lemma node_at_fresh_chain p : forall n, node_at (fresh_chain n p) p = Some (File (last (n :: p) [])).
Proof.
  induction p as [|m p IH]; intro n; [reflexivity|].
  cbn [fresh_chain node_at find_entry]. rewrite fname_fresh_chain, str_eqb_refl.
  rewrite IH. rewrite (last_cons_ne n (m :: p)) by discriminate. reflexivity.
Qed.

Lemma find_entry_app_new es x a : find_entry es a = None -> fname x = a -> find_entry (es ++ [x]) a = Some x.
Proof.
  intros H Hx. induction es as [|y es IH]; simpl in *.
  - rewrite Hx, str_eqb_refl. reflexivity.
  - destruct (str_eqb (fname y) a); [discriminate | apply IH; exact H].
Qed.

Theorem create_file_creates p : forall t,
  creatable t p -> node_at (create_file t p) p = Some (File (last p [])).
Proof.
  induction p as [|n p IH]; intros t H; [destruct H|].
  destruct t as [x | d es]; [destruct H|]. cbn [creatable] in H. cbn [create_file].
  destruct (find_entry es n) as [t'|] eqn:E.
  - cbn [node_at]. rewrite find_entry_map_entry by (intro t0; apply grows_fname; apply create_file_grows).
    rewrite str_eqb_refl, E. cbn [option_map]. destruct p as [|m p]; [destruct H|].
    rewrite (last_cons_ne n (m :: p)) by discriminate. apply IH. exact H.
  - cbn [node_at]. rewrite (find_entry_app_new es (fresh_chain n p) n E (fname_fresh_chain n p)).
    apply node_at_fresh_chain.
Qed.

(* a created *.god file below the root is one of the files the next walk meets *)
Theorem created_is_under w r n es rel :
  ws_root w = Some r -> node_at (top w) r = Some (Dir n es) -> rel <> [] ->
  creatable (top w) (r ++ rel) -> is_god_ext (last rel []) = true ->
  In (r ++ rel) (god_under (after_create w (r ++ rel))).
Proof.
  intros Hr Hn Hne Hc Hg.
  destruct (create_file_node_at (r ++ rel) _ _ _ _ Hn) as [es' [E1 _]].
  pose proof (create_file_creates _ _ Hc) as E2. rewrite node_at_app, E1 in E2.
  apply node_at_has_file in E2 as [E2 _]; [|exact Hne].
  apply god_under_spec. exists r, n, es', rel. cbn [after_create ws_root top]. auto.
Qed.

(* ================================================================================== *)
(* 9. operations and histories                                                         *)
(* ================================================================================== *)

Definition op_path (o : op) : option path :=
  match o with
  | Change p _ | Parse p | Save p | Close p | LookupUri p => Some p
  | _ => None
  end.

(* the paths that some request of the history named *)
Definition touched (ops : list op) : list path :=
  flat_map (fun o => match op_path o with Some p => [p] | None => [] end) ops.

Lemma gdi_cases w p st st1 d :
  get_document_info w p st = Ok (st1, d) ->
  node_at (top w) p <> None /\
  ((plookup p (docs st) = Some d /\ st1 = st) \/
   (plookup p (docs st) = None /\ d = mkDoc (next st) None None /\
    st1 = mkSvc (docs st ++ [(p, d)]) (classes st) (next st + 1))).
Proof.
  unfold get_document_info. destruct (node_at (top w) p); [|discriminate].
  destruct (plookup p (docs st)) eqn:E; intro H; inversion H; subst; (split; [discriminate|]).
  - left. auto.
  - right. rewrite pinsert_absent by exact E. auto.
Qed.

Lemma gdi_not_fuel w p st : get_document_info w p st <> OutOfFuel.
Proof.
  unfold get_document_info. destruct (node_at (top w) p); [|discriminate].
  destruct (plookup p (docs st)); discriminate.
Qed.

Lemma gdi_panic w p st k : get_document_info w p st = Panic k -> k = 1 /\ node_at (top w) p = None.
Proof.
  unfold get_document_info. destruct (node_at (top w) p); [destruct (plookup p (docs st)); discriminate|].
  intro H; inversion H; auto.
Qed.

Lemma gdi_exists w p st :
  node_at (top w) p <> None -> exists st1 d, get_document_info w p st = Ok (st1, d).
Proof.
  unfold get_document_info. destruct (node_at (top w) p); [|congruence]. intros _.
  destruct (plookup p (docs st)); eexists; eexists; reflexivity.
Qed.

Lemma gdi_preserves w p st st1 d q dq :
  get_document_info w p st = Ok (st1, d) -> plookup q (docs st) = Some dq -> plookup q (docs st1) = Some dq.
Proof.
  intros H Hq. apply gdi_cases in H as [_ [[_ ->] | [_ [_ ->]]]]; [exact Hq|].
  cbn [docs]. rewrite plookup_app, Hq. reflexivity.
Qed.

Lemma gdi_own w p st st1 d :
  get_document_info w p st = Ok (st1, d) -> plookup p (docs st1) = Some d.
Proof.
  intro H. apply gdi_cases in H as [_ [[H ->] | [H [_ ->]]]]; [exact H|].
  cbn [docs]. rewrite plookup_app, H. simpl. rewrite path_eqb_refl. reflexivity.
Qed.

Lemma gdi_keys w p st st1 d q :
  get_document_info w p st = Ok (st1, d) -> In q (keys (docs st1)) -> In q (keys (docs st)) \/ q = p.
Proof.
  intros H Hq. apply gdi_cases in H as [_ [[_ ->] | [_ [_ ->]]]]; [left; exact Hq|].
  cbn [docs] in Hq. rewrite keys_app, in_app_iff in Hq. simpl in Hq. destruct Hq as [Hq | [Hq | []]]; auto.
Qed.

Lemma gdi_classes w p st st1 d : get_document_info w p st = Ok (st1, d) -> classes st1 = classes st.
Proof. intro H. apply gdi_cases in H as [_ [[_ ->] | [_ [_ ->]]]]; reflexivity. Qed.

(* the representation invariant of the service *)
Record SInv (st : svc) : Prop := {
  si_nodup : NoDup (keys (docs st));                    (* no path registered twice *)
  si_ids : ids_ok (docs st, next st);                   (* one record per path, never shared *)
  si_cls : NoDup (skeys (classes st))
}.

Lemma SInv_init : SInv init_svc.
Proof. split; simpl; [constructor | split; [constructor | intros p d []] | constructor]. Qed.

Lemma SInv_regs L st : SInv st -> SInv (regs L st).
Proof.
  intros [H1 H2 H3]. split.
  - rewrite docs_regs. apply docs_fold_nodup. exact H1.
  - rewrite docs_regs, next_regs.
    replace (fst (fold_left docs_reg L (docs st, next st)), snd (fold_left docs_reg L (docs st, next st)))
      with (fold_left docs_reg L (docs st, next st)) by (destruct (fold_left docs_reg L (docs st, next st)); reflexivity).
    apply docs_fold_ids. exact H2.
  - rewrite classes_regs. apply cls_fold_skeys_nodup. exact H3.
Qed.

Lemma SInv_index w st st' : index_files w st = Ok st' -> SInv st -> SInv st'.
Proof. intros H Hi. apply index_files_ok in H as [o [_ [-> _]]]. apply SInv_regs. exact Hi. Qed.

Lemma SInv_gdi w p st st1 d : get_document_info w p st = Ok (st1, d) -> SInv st -> SInv st1.
Proof.
  intros H [H1 H2 H3]. apply gdi_cases in H as [_ [[_ ->] | [Hn [-> ->]]]]; [split; assumption|].
  pose proof (docs_fold_nodup [p] (docs st, next st) H1) as A.
  pose proof (docs_fold_ids [p] (docs st, next st) H2) as B.
  cbn [fold_left] in A, B. unfold docs_reg in A, B. cbn [fst snd] in A, B. rewrite Hn in A, B.
  split; cbn [docs next classes]; assumption.
Qed.

Lemma SInv_set_doc p f st : (forall d, did (f d) = did d) -> SInv st -> SInv (set_doc p f st).
Proof.
  intros Hf [H1 [H2 H2'] H3]. split; cbn [set_doc docs next classes].
  - rewrite keys_pupdate. exact H1.
  - split; cbn [fst snd].
    + rewrite (map_snd_pupdate p f did (docs st) Hf). exact H2.
    + intros q d Hin. apply In_pupdate in Hin as [d0 [Hin [-> | ->]]].
      * eapply H2'. exact Hin.
      * rewrite Hf. eapply H2'. exact Hin.
  - exact H3.
Qed.

Lemma step_world s o : ws_root (fst (fst (step s o))) = ws_root (fst s).
Proof.
  destruct s as [w st]. destruct o; cbn [step fst snd]; try reflexivity.
  - destruct (index_files w st); reflexivity.
  - destruct (get_document_info w p st) as [[st1 d]| |]; reflexivity.
  - destruct (get_document_info w p st) as [[st1 d]| |]; [|reflexivity|reflexivity].
    destruct (opened d), (saved d); try reflexivity. destruct (node_at (top w) p) as [[?|? ?]|]; reflexivity.
  - destruct (get_document_info w p st) as [[st1 d]| |]; [|reflexivity|reflexivity].
    destruct (index_files w _); reflexivity.
  - destruct (get_document_info w p st) as [[st1 d]| |]; reflexivity.
  - destruct (get_document_info w p st) as [[st1 d]| |]; reflexivity.
Qed.

Theorem step_SInv s o : SInv (snd s) -> SInv (snd (fst (step s o))).
Proof.
  destruct s as [w st]. cbn [snd]. intro Hi. destruct o; cbn [step]; try exact Hi.
  - destruct (index_files w st) eqn:E; cbn [fst snd]; try exact Hi. eapply SInv_index; eassumption.
  - destruct (get_document_info w p st) as [[st1 d]| |] eqn:E; cbn [fst snd]; try exact Hi.
    apply SInv_set_doc; [reflexivity | eapply SInv_gdi; eassumption].
  - destruct (get_document_info w p st) as [[st1 d]| |] eqn:E; cbn [fst snd]; try exact Hi.
    pose proof (SInv_gdi _ _ _ _ _ E Hi) as Hi1.
    destruct (opened d), (saved d); cbn [fst snd]; try exact Hi1.
    destruct (node_at (top w) p) as [[?|? ?]|]; cbn [fst snd]; try exact Hi1.
    apply SInv_set_doc; [reflexivity | exact Hi1].
  - destruct (get_document_info w p st) as [[st1 d]| |] eqn:E; cbn [fst snd]; try exact Hi.
    pose proof (SInv_gdi _ _ _ _ _ E Hi) as Hi1.
    assert (Hi2 : SInv (set_doc p (fun d0 => mkDoc (did d0) None None) st1))
      by (apply SInv_set_doc; [reflexivity | exact Hi1]).
    destruct (index_files w _) eqn:E2; cbn [fst snd]; try exact Hi2. eapply SInv_index; eassumption.
  - destruct (get_document_info w p st) as [[st1 d]| |] eqn:E; cbn [fst snd]; try exact Hi.
    apply SInv_set_doc; [reflexivity | eapply SInv_gdi; eassumption].
  - destruct (get_document_info w p st) as [[st1 d]| |] eqn:E; cbn [fst snd]; try exact Hi.
    eapply SInv_gdi; eassumption.
Qed.

Lemma fold_step_inv (P : world * svc -> Prop) :
  (forall s o, P s -> P (fst (step s o))) ->
  forall ops s, P s -> P (fold_left (fun s o => fst (step s o)) ops s).
Proof. intros Hs ops. induction ops as [|o ops IH]; intros s H; [exact H|]. cbn [fold_left]. apply IH, Hs, H. Qed.

Theorem history_SInv w ops : SInv (snd (final_state w ops)).
Proof.
  unfold final_state. apply (fold_step_inv (fun s => SInv (snd s))).
  - intros s o. apply step_SInv.
  - exact SInv_init.
Qed.

(* the root of the workspace never changes *)
Lemma history_root w ops : ws_root (fst (final_state w ops)) = ws_root w.
Proof.
  unfold final_state. apply (fold_step_inv (fun s => ws_root (fst s) = ws_root w)); [|reflexivity].
  intros s o H. rewrite step_world. exact H.
Qed.

(* ---- an operation leaves the records of the other documents alone ---- *)

Lemma set_doc_other p f st q : q <> p -> plookup q (docs (set_doc p f st)) = plookup q (docs st).
Proof.
  intro H. cbn [set_doc docs]. rewrite plookup_pupdate. apply path_eqb_neq in H. rewrite H. reflexivity.
Qed.

Lemma set_doc_own p f st : plookup p (docs (set_doc p f st)) = option_map f (plookup p (docs st)).
Proof. cbn [set_doc docs]. rewrite plookup_pupdate, path_eqb_refl. reflexivity. Qed.

Theorem step_preserves_others s o q d :
  op_path o <> Some q -> plookup q (docs (snd s)) = Some d ->
  plookup q (docs (snd (fst (step s o)))) = Some d.
Proof.
  destruct s as [w st]. cbn [snd]. intros Hp Hq.
  destruct o; cbn [step op_path] in *; try exact Hq.
  - destruct (index_files w st) eqn:E; cbn [fst snd]; try exact Hq. eapply reindex_preserves; eassumption.
  - assert (Hne : q <> p) by congruence.
    destruct (get_document_info w p st) as [[st1 d1]| |] eqn:E; cbn [fst snd]; try exact Hq.
    rewrite set_doc_other by exact Hne. eapply gdi_preserves; eassumption.
  - assert (Hne : q <> p) by congruence.
    destruct (get_document_info w p st) as [[st1 d1]| |] eqn:E; cbn [fst snd]; try exact Hq.
    pose proof (gdi_preserves _ _ _ _ _ _ _ E Hq) as Hq1.
    destruct (opened d1), (saved d1); cbn [fst snd]; try exact Hq1.
    destruct (node_at (top w) p) as [[?|? ?]|]; cbn [fst snd]; try exact Hq1.
    rewrite set_doc_other by exact Hne. exact Hq1.
  - assert (Hne : q <> p) by congruence.
    destruct (get_document_info w p st) as [[st1 d1]| |] eqn:E; cbn [fst snd]; try exact Hq.
    pose proof (gdi_preserves _ _ _ _ _ _ _ E Hq) as Hq1.
    assert (Hq2 : plookup q (docs (set_doc p (fun d0 => mkDoc (did d0) None None) st1)) = Some d)
      by (rewrite set_doc_other by exact Hne; exact Hq1).
    destruct (index_files w _) eqn:E2; cbn [fst snd]; try exact Hq2. eapply reindex_preserves; eassumption.
  - assert (Hne : q <> p) by congruence.
    destruct (get_document_info w p st) as [[st1 d1]| |] eqn:E; cbn [fst snd]; try exact Hq.
    rewrite set_doc_other by exact Hne. eapply gdi_preserves; eassumption.
  - destruct (get_document_info w p st) as [[st1 d1]| |] eqn:E; cbn [fst snd]; try exact Hq.
    eapply gdi_preserves; eassumption.
Qed.

(* ... and never replaces a record: the identity registered for a path is kept for ever *)
Theorem step_keeps_identity s o q d :
  plookup q (docs (snd s)) = Some d ->
  exists d', plookup q (docs (snd (fst (step s o)))) = Some d' /\ did d' = did d.
Proof.
  intro Hq. destruct (option_map (fun p => path_eqb p q) (op_path o)) as [[|]|] eqn:Ep.
  2,3: exists d; split; [apply step_preserves_others; [|exact Hq] | reflexivity];
       destruct (op_path o) as [p|]; [|discriminate]; cbn [option_map] in Ep; inversion Ep as [Ep'];
       apply path_eqb_neq in Ep'; congruence.
  destruct (op_path o) as [p|] eqn:Eo; [|discriminate]. cbn [option_map] in Ep. inversion Ep as [Ep'].
  apply path_eqb_eq in Ep'. subst p. destruct s as [w st]. cbn [snd] in *.
  assert (G : forall st1 (f : docinfo -> docinfo), (forall x, did (f x) = did x) ->
              plookup q (docs st1) = Some d ->
              exists d', plookup q (docs (set_doc q f st1)) = Some d' /\ did d' = did d).
  { intros st1 f Hf E. rewrite set_doc_own, E. cbn [option_map].
    eexists. split; [reflexivity | apply Hf]. }
  destruct o; cbn [op_path] in Eo; try discriminate; inversion Eo; subst p; cbn [step].
  - destruct (get_document_info w q st) as [[st1 d1]| |] eqn:E; cbn [fst snd]; try (exists d; auto; fail).
    apply G; [reflexivity | exact (gdi_preserves _ _ _ _ _ _ _ E Hq)].
  - destruct (get_document_info w q st) as [[st1 d1]| |] eqn:E; cbn [fst snd]; try (exists d; auto; fail).
    pose proof (gdi_preserves _ _ _ _ _ _ _ E Hq) as Hq1.
    destruct (opened d1), (saved d1); cbn [fst snd]; try (exists d; auto; fail).
    destruct (node_at (top w) q) as [[?|? ?]|]; cbn [fst snd]; try (exists d; auto; fail).
    apply G; [reflexivity | exact (gdi_preserves _ _ _ _ _ _ _ E Hq)].
  - destruct (get_document_info w q st) as [[st1 d1]| |] eqn:E; cbn [fst snd]; try (exists d; auto; fail).
    destruct (G st1 (fun d0 => mkDoc (did d0) None None) (fun _ => eq_refl)
                (gdi_preserves _ _ _ _ _ _ _ E Hq)) as [d' [H1 H2]].
    destruct (index_files w _) eqn:E2; cbn [fst snd]; try (exists d'; auto; fail).
    exists d'. split; [eapply reindex_preserves; eassumption | exact H2].
  - destruct (get_document_info w q st) as [[st1 d1]| |] eqn:E; cbn [fst snd]; try (exists d; auto; fail).
    apply G; [reflexivity | exact (gdi_preserves _ _ _ _ _ _ _ E Hq)].
  - destruct (get_document_info w q st) as [[st1 d1]| |] eqn:E; cbn [fst snd]; try (exists d; auto; fail).
    exists d. split; [eapply gdi_preserves; eassumption | reflexivity].
Qed.

(* ---- every key is a *.god file below the root or a requested document; every class answer
        is a *.god file below the root with that stem ---- *)

Definition HInv (w : world) (st : svc) (T : list path) : Prop :=
  (forall q, In q (keys (docs st)) -> In q (god_under w) \/ In q T) /\
  (forall k p, alookup k (classes st) = Some p -> In p (god_under w) /\ ustem p = Some k).

Lemma HInv_weaken w st T T' : (forall q, In q T -> In q T') -> HInv w st T -> HInv w st T'.
Proof.
  intros Hs [H1 H2]. split; [|exact H2]. intros q Hq. destruct (H1 q Hq) as [H | H]; [left | right]; auto.
Qed.

Lemma HInv_index w st st' T : index_files w st = Ok st' -> HInv w st T -> HInv w st' T.
Proof.
  intros H [H1 H2]. pose proof H as H0. apply index_files_ok in H as [o [Ho [-> _]]]. split.
  - intros q Hq. destruct (index_sound _ _ _ _ H0 Hq) as [Hk | Hk]; [apply H1; exact Hk | left; exact Hk].
  - intros k p Hl. rewrite classes_regs, cls_fold_lookup in Hl.
    destruct (last_cls o k) eqn:E; [|apply H2; exact Hl].
    inversion Hl; subst. apply last_cls_In in E as [E1 E2]. split; [apply Ho; exact E1 | exact E2].
Qed.

Lemma HInv_gdi w p st st1 d T : get_document_info w p st = Ok (st1, d) -> HInv w st T -> HInv w st1 (T ++ [p]).
Proof.
  intros H [H1 H2]. split.
  - intros q Hq. destruct (gdi_keys _ _ _ _ _ _ H Hq) as [Hk | ->].
    + destruct (H1 q Hk) as [Hg | Hg]; [left; exact Hg | right; apply in_app_iff; left; exact Hg].
    + right. apply in_app_iff. right. left. reflexivity.
  - rewrite (gdi_classes _ _ _ _ _ H). exact H2.
Qed.

Lemma HInv_set_doc w p f st T : HInv w st T -> HInv w (set_doc p f st) T.
Proof. intros [H1 H2]. split; cbn [set_doc docs classes]; [rewrite keys_pupdate; exact H1 | exact H2]. Qed.

Lemma HInv_create w p st T : HInv w st T -> HInv (after_create w p) st T.
Proof.
  intros [H1 H2]. split.
  - intros q Hq. destruct (H1 q Hq) as [H | H]; [left; apply god_under_create_mono; exact H | right; exact H].
  - intros k q Hl. destruct (H2 k q Hl) as [Ha Hb]. split; [apply god_under_create_mono; exact Ha | exact Hb].
Qed.

Lemma step_HInv s o T :
  HInv (fst s) (snd s) T ->
  HInv (fst (fst (step s o))) (snd (fst (step s o)))
       (T ++ match op_path o with Some p => [p] | None => [] end).
Proof.
  destruct s as [w st]. cbn [fst snd]. intro Hi.
  assert (W : forall p, HInv w st (T ++ [p])) by (intro p; eapply HInv_weaken; [|exact Hi]; intros q Hq; apply in_app_iff; auto).
  destruct o; cbn [step op_path]; rewrite ?app_nil_r.
  - cbn [fst snd]. apply (HInv_create w p st T Hi).
  - destruct (index_files w st) eqn:E; cbn [fst snd]; try exact Hi. eapply HInv_index; eassumption.
  - destruct (get_document_info w p st) as [[st1 d]| |] eqn:E; cbn [fst snd]; try apply W.
    apply HInv_set_doc. eapply HInv_gdi; eassumption.
  - destruct (get_document_info w p st) as [[st1 d]| |] eqn:E; cbn [fst snd]; try apply W.
    pose proof (HInv_gdi _ _ _ _ _ _ E Hi) as Hi1.
    destruct (opened d), (saved d); cbn [fst snd]; try exact Hi1.
    destruct (node_at (top w) p) as [[?|? ?]|]; cbn [fst snd]; try exact Hi1.
    apply HInv_set_doc. exact Hi1.
  - destruct (get_document_info w p st) as [[st1 d]| |] eqn:E; cbn [fst snd]; try apply W.
    pose proof (HInv_gdi _ _ _ _ _ _ E Hi) as Hi1.
    pose proof (HInv_set_doc w p (fun d0 => mkDoc (did d0) None None) _ _ Hi1) as Hi2.
    destruct (index_files w _) eqn:E2; cbn [fst snd]; try exact Hi2. eapply HInv_index; eassumption.
  - destruct (get_document_info w p st) as [[st1 d]| |] eqn:E; cbn [fst snd]; try apply W.
    apply HInv_set_doc. eapply HInv_gdi; eassumption.
  - cbn [fst snd]. exact Hi.
  - destruct (get_document_info w p st) as [[st1 d]| |] eqn:E; cbn [fst snd]; try apply W.
    eapply HInv_gdi; eassumption.
  - cbn [fst snd]. exact Hi.
Qed.

Lemma fold_HInv ops : forall s T,
  HInv (fst s) (snd s) T ->
  let s' := fold_left (fun s o => fst (step s o)) ops s in
  HInv (fst s') (snd s') (T ++ touched ops).
Proof.
  induction ops as [|o ops IH]; intros s T H; cbn [fold_left touched flat_map].
  - rewrite app_nil_r. exact H.
  - rewrite app_assoc. apply IH. apply step_HInv. exact H.
Qed.

Theorem history_sound w ops :
  let s := final_state w ops in HInv (fst s) (snd s) (touched ops).
Proof.
  unfold final_state. apply (fold_HInv ops (w, init_svc) []).
  split; [intros q [] | intros k p H; discriminate].
Qed.

(* ---- the combined statement about a walk made after any history ---- *)

Definition walk_op (o : op) : Prop := o = Reindex \/ exists p, o = Save p.

Lemma walk_op_index s o a s' :
  walk_op o -> step s o = (s', a) -> a = ANone ->
  fst s' = fst s /\ exists st2, index_files (fst s) st2 = Ok (snd s') /\
  forall q d, op_path o <> Some q -> plookup q (docs (snd s)) = Some d -> plookup q (docs st2) = Some d.
Proof.
  destruct s as [w st]. intros [-> | [p ->]] H Ha; cbn [step] in H.
  - destruct (index_files w st) eqn:E; inversion H; subst; try discriminate.
    cbn [fst snd]. split; [reflexivity|]. exists st. split; [exact E | auto].
  - destruct (get_document_info w p st) as [[st1 d1]| |] eqn:E; [|inversion H; subst; try (match goal with H0 : context [?k =? 1] |- _ => destruct (k =? 1) end); discriminate..].
    destruct (index_files w _) eqn:E2; inversion H; subst; try discriminate.
    cbn [fst snd]. split; [reflexivity|]. eexists. split; [exact E2|].
    intros q d Hne Hq. cbn [op_path] in Hne. rewrite set_doc_other by congruence.
    eapply gdi_preserves; eassumption.
Qed.

(* ---- well-formedness of the tree is kept by file creation, hence by every history ---- *)

Lemma wf_fresh_chain p : forall n, wf_t (fresh_chain n p).
Proof.
  induction p as [|m p IH]; intro n; [exact I|].
  cbn [fresh_chain]. apply wf_t_Dir. split.
  - simpl. constructor; [intros [] | constructor].
  - constructor; [apply IH | constructor].
Qed.

Lemma map_fname_map_entry n f es :
  (forall t, fname (f t) = fname t) -> map fname (map_entry n f es) = map fname es.
Proof.
  intro Hf. induction es as [|x es IH]; simpl; [reflexivity|].
  destruct (str_eqb (fname x) n); simpl; [rewrite Hf; reflexivity | rewrite IH; reflexivity].
Qed.

Lemma Forall_map_entry (P : fs -> Prop) n f es :
  (forall t, P t -> P (f t)) -> Forall P es -> Forall P (map_entry n f es).
Proof.
  intros Hf H. induction H as [|x es Hx H IH]; simpl; [constructor|].
  destruct (str_eqb (fname x) n); constructor; auto.
Qed.

Lemma create_file_wf p : forall t, wf_t t -> wf_t (create_file t p).
Proof.
  induction p as [|n p IH]; intros t H; [exact H|].
  destruct t as [x | d es]; [exact H|]. cbn [create_file]. apply wf_t_Dir in H as [H1 H2].
  destruct (find_entry es n) eqn:E; apply wf_t_Dir; split.
  - rewrite map_fname_map_entry by (intro t0; apply grows_fname; apply create_file_grows). exact H1.
  - apply Forall_map_entry; [intro t0; apply IH | exact H2].
  - rewrite map_app. simpl. rewrite fname_fresh_chain.
    apply NoDup_rev in H1. rewrite <- (rev_involutive (_ ++ [n])). apply NoDup_rev.
    rewrite rev_app_distr. simpl. constructor; [|exact H1].
    rewrite <- in_rev. intro Hin. apply in_map_iff in Hin as [t0 [Ht0 Hin]].
    eapply find_entry_None; eassumption.
  - apply Forall_app. split; [exact H2 | constructor; [apply wf_fresh_chain | constructor]].
Qed.

Lemma step_top s o :
  top (fst (fst (step s o))) = top (fst s) \/ exists p, top (fst (fst (step s o))) = create_file (top (fst s)) p.
Proof.
  destruct s as [w st]. destruct o; cbn [step fst snd]; try (left; reflexivity).
  - right. exists p. reflexivity.
  - left. destruct (index_files w st); reflexivity.
  - left. destruct (get_document_info w p st) as [[st1 d]| |]; reflexivity.
  - left. destruct (get_document_info w p st) as [[st1 d]| |]; [|reflexivity|reflexivity].
    destruct (opened d), (saved d); try reflexivity. destruct (node_at (top w) p) as [[?|? ?]|]; reflexivity.
  - left. destruct (get_document_info w p st) as [[st1 d]| |]; [|reflexivity|reflexivity].
    destruct (index_files w _); reflexivity.
  - left. destruct (get_document_info w p st) as [[st1 d]| |]; reflexivity.
  - left. destruct (get_document_info w p st) as [[st1 d]| |]; reflexivity.
Qed.

Theorem history_wf w ops : wf_t (top w) -> wf_t (top (fst (final_state w ops))).
Proof.
  intro H. unfold final_state. apply (fold_step_inv (fun s => wf_t (top (fst s)))); [|exact H].
  intros s o Hs. destruct (step_top s o) as [-> | [p ->]]; [exact Hs | apply create_file_wf; exact Hs].
Qed.

(* ---- a walk (re-index or save) made after any history ---- *)

Theorem walk_after_history w0 ops o a s' :
  let s := final_state w0 ops in
  walk_op o -> step s o = (s', a) -> a = ANone -> wf_t (top w0) -> stems_unique (fst s) ->
  (forall q, In q (god_under (fst s)) ->
     In q (keys (docs (snd s'))) /\
     (forall st s1, file_stem (last q []) = Some st -> upper s1 = upper st ->
                    lookup_class (snd s') s1 = Some q) /\
     exists d, get_document_info (fst s') q (snd s') = Ok (snd s', d) /\
               plookup q (docs (snd s')) = Some d) /\
  (forall q d, op_path o <> Some q -> plookup q (docs (snd s)) = Some d ->
               plookup q (docs (snd s')) = Some d) /\
  NoDup (keys (docs (snd s'))).
Proof.
  intros s Ho Hstep Ha Hwf Hu.
  destruct (walk_op_index s o a s' Ho Hstep Ha) as [Hw [st2 [Hi Hp]]].
  split; [|split].
  - intros q Hq. split; [eapply index_complete; eassumption|]. split.
    + intros st s1 Hs Hc. eapply class_lookup_ci; eassumption.
    + rewrite Hw. eapply uri_lookup; [exact Hi | apply history_wf; exact Hwf | exact Hq].
  - intros q d Hne Hq. eapply reindex_preserves; [exact Hi | apply Hp; assumption].
  - pose proof (history_SInv w0 (ops ++ [o])) as Hs. unfold final_state in Hs.
    rewrite fold_left_app in Hs. cbn [fold_left] in Hs. fold (final_state w0 ops) in Hs. fold s in Hs.
    rewrite Hstep in Hs. cbn [fst] in Hs. apply si_nodup. exact Hs.
Qed.
