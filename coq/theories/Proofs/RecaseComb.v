(* C17, parser layer: KIND-PARAMETRICITY of the parser combinators.
   [SimP RA p p']: on pairwise similar inputs (same raw, range, type; values equal ignoring ASCII case)
   and similar contexts (same diagnostics, same memo switch, same evaluation log, caches holding
   similar results under the same keys) the two runs end with the same kind of outcome, similar
   remaining inputs / error positions, IDENTICAL error messages, values related by [RA], and similar
   contexts again.  One lemma per combinator of Model/PComb.v (and the three of Model/Grammar.v). *)
From GoldV Require Import Base Tokens Keywords Lexer AstKinds Tree Strings PComb Grammar Recase RecaseBase.
Open Scope N_scope.

(* ---------- the relation ---------- *)

Definition inp_sim : input -> input -> Prop := Forall2 tok_sim.

Inductive res_sim {A} (RA : A -> A -> Prop) : res A -> res A -> Prop :=
| RS_ok r r' a a' : inp_sim r r' -> RA a a' -> res_sim RA (Ok r a) (Ok r' a')
| RS_err e e' m : inp_sim e e' -> res_sim RA (Err e m) (Err e' m)
| RS_panic s : res_sim RA (Panic s) (Panic s)
| RS_nofuel : res_sim RA NoFuel NoFuel.

Definition centry_sim (e e' : N * N * res node) : Prop :=
  fst (fst e) = fst (fst e') /\ snd (fst e) = snd (fst e') /\ res_sim node_sim (snd e) (snd e').

Record ctx_sim (c c' : ctx) : Prop := {
  cs_diags : cdiags c = cdiags c';
  cs_cache : Forall2 centry_sim (ccache c) (ccache c');
  cs_memo : cmemo c = cmemo c';
  cs_evals : cevals c = cevals c' }.

Definition SimP {A} (RA : A -> A -> Prop) (p p' : P A) : Prop :=
  forall i i' c c', inp_sim i i' -> ctx_sim c c' ->
    res_sim RA (fst (p i c)) (fst (p' i' c')) /\ ctx_sim (snd (p i c)) (snd (p' i' c')).

(* the conclusion of SimP as a relation on outcomes *)
Definition out_sim {A} (RA : A -> A -> Prop) (x x' : res A * ctx) : Prop :=
  res_sim RA (fst x) (fst x') /\ ctx_sim (snd x) (snd x').

Lemma out_sim_mk {A} (RA : A -> A -> Prop) r r' c c' :
  res_sim RA r r' -> ctx_sim c c' -> out_sim RA (r, c) (r', c').
Proof. intros H1 H2. split; assumption. Qed.

(* ---------- value relations ---------- *)

Inductive opt_rel {A} (R : A -> A -> Prop) : option A -> option A -> Prop :=
| OR_some a a' : R a a' -> opt_rel R (Some a) (Some a')
| OR_none : opt_rel R None None.

Definition pair_rel {A B} (RA : A -> A -> Prop) (RB : B -> B -> Prop) (x y : A * B) : Prop :=
  RA (fst x) (fst y) /\ RB (snd x) (snd y).

Definition cb_sim (b b' : cblock) : Prop :=
  cb_raw b = cb_raw b' /\ cb_range b = cb_range b' /\
  opt_rel node_sim (cb_cond b) (cb_cond b') /\ Forall2 node_sim (cb_stmts b) (cb_stmts b').

(* ---------- lists ---------- *)

Lemma F2_len {A} (R : A -> A -> Prop) l l' : Forall2 R l l' -> length l = length l'.
Proof. induction 1; cbn [length]; congruence. Qed.

Lemma F2_app {A} (R : A -> A -> Prop) l1 l1' l2 l2' :
  Forall2 R l1 l1' -> Forall2 R l2 l2' -> Forall2 R (l1 ++ l2) (l1' ++ l2').
Proof. induction 1; cbn [app]; auto. Qed.

Lemma F2_rev {A} (R : A -> A -> Prop) l l' : Forall2 R l l' -> Forall2 R (rev l) (rev l').
Proof. induction 1; cbn [rev]; [constructor|]. apply F2_app; auto. Qed.

Lemma F2_tl {A} (R : A -> A -> Prop) l l' : Forall2 R l l' -> Forall2 R (tl l) (tl l').
Proof. destruct 1; cbn [tl]; auto. Qed.

Lemma F2_removelast {A} (R : A -> A -> Prop) l l' : Forall2 R l l' -> Forall2 R (removelast l) (removelast l').
Proof.
  induction 1 as [|x y l l' Hxy Hl IH]; cbn [removelast]; [constructor|].
  destruct Hl; [constructor|]. constructor; auto.
Qed.

Lemma F2_map {A B} (R : A -> A -> Prop) (Q : B -> B -> Prop) (f f' : A -> B) l l' :
  (forall a a', R a a' -> Q (f a) (f' a')) -> Forall2 R l l' -> Forall2 Q (map f l) (map f' l').
Proof. intros Hf. induction 1; cbn [map]; constructor; auto. Qed.

Lemma ilen_sim i i' : inp_sim i i' -> ilen i = ilen i'.
Proof. intro H. unfold ilen. rewrite (F2_len _ _ _ H). reflexivity. Qed.

Lemma inp_sim_len i i' : inp_sim i i' -> length i = length i'.
Proof. apply F2_len. Qed.

Lemma inp_sim_refl i : inp_sim i i.
Proof. apply Forall2_refl. apply tok_sim_refl. Qed.

Lemma first_range_sim i i' : inp_sim i i' -> first_range i = first_range i'.
Proof. destruct 1 as [|t t' l l' Ht _]; cbn [first_range]; [reflexivity|apply (ts_range _ _ Ht)]. Qed.

Lemma is_comment_sim t t' : tok_sim t t' -> is_comment t = is_comment t'.
Proof. intro H. unfold is_comment. rewrite (ts_ty _ _ H). reflexivity. Qed.

Lemma skip_after_error_sim n n' e e' :
  inp_sim n n' -> inp_sim e e' -> inp_sim (skip_after_error n e) (skip_after_error n' e').
Proof.
  intros Hn He. unfold skip_after_error. rewrite (ilen_sim _ _ Hn), (ilen_sim _ _ He).
  destruct (ilen e' =? ilen n'); [apply F2_tl|]; exact He.
Qed.

Lemma last_sim l l' t t' : inp_sim l l' -> tok_sim t t' -> tok_sim (last l t) (last l' t').
Proof.
  intros Hl. revert t t'. induction Hl as [|x x' l l' Hx Hl IH]; intros t t' Ht; [exact Ht|].
  destruct Hl as [|y y' l l' Hy Hl]; [exact Hx|].
  change (tok_sim (last (y :: l) t) (last (y' :: l') t')). apply IH. exact Ht.
Qed.

Lemma last_tok_range_sim i i' : inp_sim i i' -> last_tok_range i = last_tok_range i'.
Proof.
  destruct 1 as [|t t' l l' Ht Hl]; cbn [last_tok_range]; [reflexivity|]. apply ts_range. apply last_sim; assumption.
Qed.

Lemma range_or_sim i i' fb : inp_sim i i' -> range_or i fb = range_or i' fb.
Proof. destruct 1 as [|t t' l l' Ht _]; cbn [range_or]; [reflexivity|apply (ts_range _ _ Ht)]. Qed.

Lemma err_range_sim i i' e e' : inp_sim i i' -> inp_sim e e' -> err_range i e = err_range i' e'.
Proof.
  intros Hi He. unfold err_range. destruct He as [|t t' l l' Ht _]; [apply last_tok_range_sim; exact Hi|apply (ts_range _ _ Ht)].
Qed.

Lemma diag_at_sim i i' e e' m : inp_sim i i' -> inp_sim e e' -> diag_at i e m = diag_at i' e' m.
Proof. intros Hi He. unfold diag_at. rewrite (err_range_sim _ _ _ _ Hi He). reflexivity. Qed.

(* ---------- contexts ---------- *)

Lemma ctx_sim_refl0 memo : ctx_sim (ctx0 memo) (ctx0 memo).
Proof. constructor; cbn [ctx0 cdiags ccache cmemo cevals]; auto. Qed.

Lemma add_diag_sim d d' c c' : d = d' -> ctx_sim c c' -> ctx_sim (add_diag d c) (add_diag d' c').
Proof.
  intros -> [H1 H2 H3 H4]. constructor; cbn [add_diag cdiags ccache cmemo cevals]; auto. congruence.
Qed.

Lemma clear_cache_sim c c' : ctx_sim c c' -> ctx_sim (clear_cache c) (clear_cache c').
Proof. intros [H1 H2 H3 H4]. constructor; cbn [clear_cache cdiags ccache cmemo cevals]; auto. Qed.

Lemma cache_find_sim k n l l' : Forall2 centry_sim l l' ->
  opt_rel (res_sim node_sim) (cache_find k n l) (cache_find k n l').
Proof.
  induction 1 as [|[[k1 n1] r1] [[k2 n2] r2] l l' (E1 & E2 & E3) Hl IH]; cbn [cache_find]; [constructor|].
  cbn [fst snd] in E1, E2, E3. subst k2 n2.
  destruct ((k =? k1) && (n =? n1)); [constructor; exact E3|exact IH].
Qed.

Lemma get_cache_sim k n c c' : ctx_sim c c' ->
  opt_rel (res_sim node_sim) (get_cache k n c) (get_cache k n c').
Proof.
  intros [H1 H2 H3 H4]. unfold get_cache. rewrite <- H3.
  destruct (cmemo c); [apply cache_find_sim; exact H2|constructor].
Qed.

Lemma set_cache_sim k n r r' c c' : res_sim node_sim r r' -> ctx_sim c c' ->
  ctx_sim (set_cache k n r c) (set_cache k n r' c').
Proof.
  intros Hr [H1 H2 H3 H4]. constructor; cbn [set_cache cdiags ccache cmemo cevals]; auto.
  - rewrite <- H3. destruct (cmemo c); [constructor; [|exact H2]|exact H2].
    repeat split; cbn [fst snd]; auto.
  - congruence.
Qed.

(* ---------- running two related parsers ---------- *)

(* [srun H] with H : SimP-conclusion for (p i c) (p' i' c'): name both outcomes and split on the result *)
Ltac srun H :=
  let R := fresh "R" in
  let C := fresh "C" in
  lazymatch type of H with
  | res_sim _ (fst (?p ?i ?c)) (fst (?p' ?i' ?c')) /\ _ =>
      pose proof H as [R C]; revert R C;
      destruct (p i c) as [? ?]; destruct (p' i' c') as [? ?]; cbn [fst snd]; intros R C; destruct R
  end.

(* [srunp Hp] with Hp : SimP RA p p': find the related inputs / contexts p is run on in the goal *)
Ltac srunp Hp :=
  lazymatch type of Hp with
  | SimP _ ?p ?p' =>
      match goal with
      | Hi : inp_sim ?i ?i', Hc : ctx_sim ?c ?c' |- context [p ?i ?c] => srun (Hp i i' c c' Hi Hc)
      end
  end.

Ltac sfin :=
  first [ assumption
        | apply out_sim_mk; [ constructor; assumption | assumption ]
        | split; cbn [fst snd]; [ constructor; assumption | assumption ] ].

(* ---------- the combinators ---------- *)

Lemma S_conseq {A} (RA RA' : A -> A -> Prop) p p' :
  (forall a a', RA a a' -> RA' a a') -> SimP RA p p' -> SimP RA' p p'.
Proof.
  intros HR Hp i i' c c' Hi Hc. srun (Hp i i' c c' Hi Hc); try sfin.
  split; cbn [fst snd]; [constructor; auto|assumption].
Qed.

Lemma S_ret {A} (RA : A -> A -> Prop) a a' : RA a a' -> SimP RA (ret a) (ret a').
Proof. intros H i i' c c' Hi Hc. unfold ret. cbn [fst snd]. split; [constructor; assumption|assumption]. Qed.

Lemma S_fail {A} (RA : A -> A -> Prop) m : SimP RA (fail m) (fail m).
Proof. intros i i' c c' Hi Hc. unfold fail. cbn [fst snd]. split; [constructor; assumption|assumption]. Qed.

Lemma S_panic {A} (RA : A -> A -> Prop) s :
  SimP RA (fun (i : input) (c : ctx) => (@Panic A s, c)) (fun (i : input) (c : ctx) => (@Panic A s, c)).
Proof. intros i i' c c' Hi Hc. cbn [fst snd]. split; [constructor|assumption]. Qed.

Lemma S_out_of_fuel : SimP node_sim out_of_fuel out_of_fuel.
Proof. intros i i' c c' Hi Hc. unfold out_of_fuel. cbn [fst snd]. split; [constructor|assumption]. Qed.

Lemma S_bind {A B} (RA : A -> A -> Prop) (RB : B -> B -> Prop) p p' k k' :
  SimP RA p p' -> (forall a a', RA a a' -> SimP RB (k a) (k' a')) -> SimP RB (bind p k) (bind p' k').
Proof.
  intros Hp Hk i i' c c' Hi Hc. unfold bind. srun (Hp i i' c c' Hi Hc); try sfin.
  apply Hk; assumption.
Qed.

Lemma S_pmap {A B} (RA : A -> A -> Prop) (RB : B -> B -> Prop) (f f' : A -> B) p p' :
  (forall a a', RA a a' -> RB (f a) (f' a')) -> SimP RA p p' -> SimP RB (pmap f p) (pmap f' p').
Proof. intros Hf Hp. unfold pmap. eapply S_bind; [exact Hp|]. intros a a' Ha. apply S_ret. auto. Qed.

Lemma S_prepend {A} (RA : A -> A -> Prop) pre p p' : SimP RA p p' -> SimP RA (prepend pre p) (prepend pre p').
Proof. intros Hp i i' c c' Hi Hc. unfold prepend. srun (Hp i i' c c' Hi Hc); sfin. Qed.

Lemma S_peek_input : SimP inp_sim peek_input peek_input.
Proof. intros i i' c c' Hi Hc. unfold peek_input. sfin. Qed.

Lemma S_set_input j j' : inp_sim j j' -> SimP eq (set_input j) (set_input j').
Proof. intros Hj i i' c c' Hi Hc. unfold set_input. split; cbn [fst snd]; [constructor; auto|assumption]. Qed.

Lemma S_with_ctx f f' : (forall c c', ctx_sim c c' -> ctx_sim (f c) (f' c')) -> SimP eq (with_ctx f) (with_ctx f').
Proof. intros Hf i i' c c' Hi Hc. unfold with_ctx. split; cbn [fst snd]; [constructor; auto|auto]. Qed.

Lemma S_clear_cache : SimP eq (with_ctx clear_cache) (with_ctx clear_cache).
Proof. apply S_with_ctx. apply clear_cache_sim. Qed.

Lemma S_add_diag d d' : d = d' -> SimP eq (with_ctx (add_diag d)) (with_ctx (add_diag d')).
Proof. intro H. apply S_with_ctx. intros c c'. apply add_diag_sim. exact H. Qed.

Lemma S_recover_at_error {A} (RA : A -> A -> Prop) p p' :
  SimP RA p p' -> SimP (opt_rel RA) (recover_at_error p) (recover_at_error p').
Proof.
  intros Hp i i' c c' Hi Hc. unfold recover_at_error. srun (Hp i i' c c' Hi Hc); try sfin.
  - split; cbn [fst snd]; [constructor; [assumption|constructor; assumption]|assumption].
  - split; cbn [fst snd]; [constructor; [assumption|constructor]|assumption].
Qed.

Lemma S_opt {A} (RA : A -> A -> Prop) p p' : SimP RA p p' -> SimP (opt_rel RA) (opt p) (opt p').
Proof.
  intros Hp i i' c c' Hi Hc. unfold opt. srun (Hp i i' c c' Hi Hc); try sfin.
  - split; cbn [fst snd]; [constructor; [assumption|constructor; assumption]|assumption].
  - split; cbn [fst snd]; [constructor; [assumption|constructor]|assumption].
Qed.

(* ---------- tokens ---------- *)

Lemma exp_token_go_sim ty orig orig' l l' : inp_sim orig orig' -> inp_sim l l' ->
  res_sim tok_sim (exp_token_go ty orig l) (exp_token_go ty orig' l').
Proof.
  intros Ho. induction 1 as [|t t' l l' Ht Hl IH]; cbn [exp_token_go]; [constructor; exact Ho|].
  rewrite (ts_ty _ _ Ht), (is_comment_sim _ _ Ht).
  destruct (tt_eqb (tty t') ty); [constructor; assumption|].
  destruct (is_comment t'); [exact IH|constructor; exact Ho].
Qed.

Lemma S_exp_token ty : SimP tok_sim (exp_token ty) (exp_token ty).
Proof.
  intros i i' c c' Hi Hc. unfold exp_token. cbn [fst snd]. split; [apply exp_token_go_sim; assumption|assumption].
Qed.

(* the only value-dependent branch of the grammar: it compares UPPER-CASED values *)
Lemma exp_ident_val_go_sim v orig orig' l l' : inp_sim orig orig' -> inp_sim l l' ->
  res_sim tok_sim (exp_ident_val_go v orig l) (exp_ident_val_go v orig' l').
Proof.
  intros Ho. induction 1 as [|t t' l l' Ht Hl IH]; cbn [exp_ident_val_go]; [constructor; exact Ho|].
  pose proof (ts_val _ _ Ht) as Hv. unfold ci_eq in Hv.
  rewrite (ts_ty _ _ Ht), (is_comment_sim _ _ Ht), Hv.
  destruct (tt_eqb (tty t') TIdentifier && str_eqb (upper (tval t')) (upper v)); [constructor; assumption|].
  destruct (is_comment t'); [exact IH|constructor; exact Ho].
Qed.

Lemma S_exp_ident_with_value v : SimP tok_sim (exp_ident_with_value v) (exp_ident_with_value v).
Proof.
  intros i i' c c' Hi Hc. unfold exp_ident_with_value. cbn [fst snd].
  split; [apply exp_ident_val_go_sim; assumption|assumption].
Qed.

Lemma take_until_go_sim tys l l' : inp_sim l l' -> forall acc acc', Forall2 tok_sim acc acc' ->
  pair_rel (pair_rel inp_sim (Forall2 tok_sim)) (opt_rel tok_sim)
           (take_until_go tys l acc) (take_until_go tys l' acc').
Proof.
  induction 1 as [|t t' l l' Ht Hl IH]; intros acc acc' Ha; cbn [take_until_go].
  - repeat split; cbn [fst snd]; [constructor|apply F2_rev; exact Ha|constructor].
  - rewrite (ts_ty _ _ Ht). destruct (existsb (tt_eqb (tty t')) tys).
    + repeat split; cbn [fst snd]; [exact Hl|apply F2_rev; exact Ha|constructor; exact Ht].
    + apply IH. constructor; assumption.
Qed.

Lemma S_take_until tys :
  SimP (pair_rel (Forall2 tok_sim) (opt_rel tok_sim)) (take_until tys) (take_until tys).
Proof.
  intros i i' c c' Hi Hc. unfold take_until.
  pose proof (take_until_go_sim tys i i' Hi [] [] (Forall2_nil _)) as H.
  destruct (take_until_go tys i []) as [[rest body] term], (take_until_go tys i' []) as [[rest' body'] term'].
  destruct H as [[H1 H2] H3]. cbn [fst snd] in *.
  split; [constructor; [assumption|split; assumption]|assumption].
Qed.

(* ---------- alternatives ---------- *)

Definition best_sim : option (input * str) -> option (input * str) -> Prop := opt_rel (pair_rel inp_sim eq).

Lemma best_update_sim e e' m (best best' : option (input * str)) : inp_sim e e' -> best_sim best best' ->
  best_sim (match best with
            | Some (be, bm) => if ilen e <? ilen be then Some (e, m) else Some (be, bm)
            | None => Some (e, m)
            end)
           (match best' with
            | Some (be, bm) => if ilen e' <? ilen be then Some (e', m) else Some (be, bm)
            | None => Some (e', m)
            end).
Proof.
  intros He Hb. destruct Hb as [[be bm] [be' bm'] [B1 B2]|]; cbn [fst snd] in *.
  - subst bm'. rewrite (ilen_sim _ _ He), (ilen_sim _ _ B1).
    destruct (ilen e' <? ilen be'); constructor; split; cbn [fst snd]; auto.
  - constructor; split; cbn [fst snd]; auto.
Qed.

Lemma S_alt_go {A} (RA : A -> A -> Prop) ps ps' : Forall2 (SimP RA) ps ps' ->
  forall best best', best_sim best best' -> SimP RA (alt_go ps best) (alt_go ps' best').
Proof.
  induction 1 as [|p p' ps ps' Hp Hps IH]; intros best best' Hb i i' c c' Hi Hc; cbn [alt_go].
  - destruct Hb as [[be bm] [be' bm'] [B1 B2]|]; cbn [fst snd] in *.
    + subst bm'. split; cbn [fst snd]; [constructor; assumption|assumption].
    + split; cbn [fst snd]; [constructor|assumption].
  - srun (Hp i i' c c' Hi Hc); try sfin.
    apply IH; auto. apply best_update_sim; assumption.
Qed.

Lemma S_alt {A} (RA : A -> A -> Prop) ps ps' : Forall2 (SimP RA) ps ps' -> SimP RA (alt ps) (alt ps').
Proof. intro H. unfold alt. apply S_alt_go; [exact H|constructor]. Qed.

Lemma S_tok_alt tys : SimP tok_sim (tok_alt tys) (tok_alt tys).
Proof.
  unfold tok_alt. apply S_alt. induction tys as [|ty tys IH]; cbn [map]; constructor; [apply S_exp_token|exact IH].
Qed.

Lemma S_seq_tokens tys : SimP (Forall2 tok_sim) (seq_tokens tys) (seq_tokens tys).
Proof.
  induction tys as [|ty tys IH]; cbn [seq_tokens]; [apply S_ret; constructor|].
  eapply S_bind; [apply S_exp_token|]. intros t t' Ht.
  eapply S_bind; [exact IH|]. intros ts ts' Hts. apply S_ret. constructor; assumption.
Qed.

(* ---------- separated lists ---------- *)

Lemma S_sep_tokens_go item sep : forall fuel acc acc', Forall2 tok_sim acc acc' ->
  SimP (Forall2 tok_sim) (sep_tokens_go fuel item sep acc) (sep_tokens_go fuel item sep acc').
Proof.
  induction fuel as [|f IH]; intros acc acc' Ha i i' c c' Hi Hc; cbn [sep_tokens_go].
  - split; cbn [fst snd]; [constructor|assumption].
  - srunp (S_exp_token item); try sfin.
    srunp (S_exp_token sep); try sfin.
    + apply IH; auto.
    + split; cbn [fst snd]; [constructor; [assumption|]|assumption].
      apply (F2_rev tok_sim (_ :: _) (_ :: _)). constructor; assumption.
Qed.

Lemma S_sep_tokens item sep : SimP (Forall2 tok_sim) (sep_tokens item sep) (sep_tokens item sep).
Proof.
  intros i i' c c' Hi Hc. unfold sep_tokens. rewrite (inp_sim_len _ _ Hi).
  apply S_sep_tokens_go; auto.
Qed.

(* assert that the two contexts extended by the diagnostics the goal mentions are similar;
   leaves the equality of the two diagnostics as the first goal *)
Ltac sdiag :=
  match goal with
  | C : ctx_sim ?x ?y |- context [add_diag ?d ?x] =>
      match goal with
      | |- context [add_diag ?d' y] =>
          let Hd := fresh "Hd" in
          assert (ctx_sim (add_diag d x) (add_diag d' y)) as Hd; [apply add_diag_sim; [|exact C]|]
      end
  end.

Lemma sep_diag_sim prev prev' i i' e e' m : tok_sim prev prev' -> inp_sim i i' -> inp_sim e e' ->
  mkDiag (new_range (range_or i (trange prev)) (range_or e (range_or i (trange prev)))) m =
  mkDiag (new_range (range_or i' (trange prev')) (range_or e' (range_or i' (trange prev')))) m.
Proof.
  intros Hp Hi He. rewrite (ts_range _ _ Hp), (range_or_sim _ _ _ Hi), (range_or_sim _ _ _ He). reflexivity.
Qed.

Lemma S_sep_list_rec {A} (RA : A -> A -> Prop) p p' sep : SimP RA p p' ->
  forall fuel prev prev' acc acc', tok_sim prev prev' -> Forall2 RA acc acc' ->
    SimP (Forall2 RA) (sep_list_rec fuel p sep prev acc) (sep_list_rec fuel p' sep prev' acc').
Proof.
  intros Hp. induction fuel as [|f IH]; intros prev prev' acc acc' Hprev Ha i i' c c' Hi Hc; cbn [sep_list_rec].
  - split; cbn [fst snd]; [constructor|assumption].
  - srunp Hp; cbv beta iota zeta; try sfin.
    + srunp (S_exp_token sep); try sfin.
      * apply IH; auto.
      * split; cbn [fst snd]; [constructor; [assumption|]|assumption].
        apply (F2_rev RA (_ :: _) (_ :: _)). constructor; assumption.
    + sdiag; [apply sep_diag_sim; assumption|].
      srunp (S_exp_token sep); try sfin.
      * apply IH; auto.
      * split; cbn [fst snd]; [constructor; [assumption|]|assumption]. apply F2_rev. assumption.
Qed.

Lemma S_sep_list {A} (RA : A -> A -> Prop) p p' sep :
  SimP RA p p' -> SimP (Forall2 RA) (sep_list p sep) (sep_list p' sep).
Proof.
  intros Hp i i' c c' Hi Hc. unfold sep_list. srunp Hp; try sfin.
  - srunp (S_exp_token sep); try sfin.
    + match goal with H : inp_sim ?r ?r' |- context [S (length ?r)] => rewrite (inp_sim_len _ _ H) end.
      apply S_sep_list_rec; auto.
    + split; cbn [fst snd]; [constructor; [assumption|]|assumption]. constructor; auto.
  - split; cbn [fst snd]; [constructor; [assumption|constructor]|assumption].
Qed.

(* ---------- loops ---------- *)

Lemma inp_sim_cases i i' : inp_sim i i' -> (i = [] /\ i' = []) \/ (exists t l t' l', i = t :: l /\ i' = t' :: l').
Proof. destruct 1; [left; auto|right; eauto 6]. Qed.

Lemma S_repeat_go {A} (RA : A -> A -> Prop) p p' : SimP RA p p' ->
  forall fuel acc acc', Forall2 RA acc acc' ->
    SimP (Forall2 RA) (repeat_go fuel p acc) (repeat_go fuel p' acc').
Proof.
  intros Hp. induction fuel as [|f IH]; intros acc acc' Ha i i' c c' Hi Hc; cbn [repeat_go].
  - split; cbn [fst snd]; [constructor|assumption].
  - destruct (inp_sim_cases _ _ Hi) as [[-> ->]|(t & l & t' & l' & -> & ->)].
    + split; cbn [fst snd]; [constructor; [constructor|apply F2_rev; assumption]|assumption].
    + srunp Hp; try sfin.
      * apply IH; auto.
      * sdiag; [apply diag_at_sim; assumption|].
        apply IH; auto. apply skip_after_error_sim; assumption.
Qed.

Lemma S_repeat_w_ctx {A} (RA : A -> A -> Prop) p p' :
  SimP RA p p' -> SimP (Forall2 RA) (repeat_w_ctx p) (repeat_w_ctx p').
Proof.
  intros Hp i i' c c' Hi Hc. unfold repeat_w_ctx. rewrite (inp_sim_len _ _ Hi). apply S_repeat_go; auto.
Qed.

Lemma S_until_go {A} (RA : A -> A -> Prop) stop stop' p p' : SimP tok_sim stop stop' -> SimP RA p p' ->
  forall fuel acc acc', Forall2 RA acc acc' ->
    SimP (pair_rel (Forall2 RA) (opt_rel tok_sim)) (until_go fuel stop p acc) (until_go fuel stop' p' acc').
Proof.
  intros Hs Hp. induction fuel as [|f IH]; intros acc acc' Ha i i' c c' Hi Hc; cbn [until_go].
  - split; cbn [fst snd]; [constructor|assumption].
  - destruct (inp_sim_cases _ _ Hi) as [[-> ->]|(t & l & t' & l' & -> & ->)].
    + split; cbn [fst snd]; [constructor; [constructor|]|assumption].
      split; cbn [fst snd]; [apply F2_rev; assumption|constructor].
    + srunp Hs; try sfin.
      * split; cbn [fst snd]; [constructor; [assumption|]|assumption].
        split; cbn [fst snd]; [apply F2_rev; assumption|constructor; assumption].
      * srunp Hp; try sfin.
        -- apply IH; auto.
        -- sdiag; [apply diag_at_sim; assumption|].
           apply IH; auto. apply skip_after_error_sim; assumption.
Qed.

Lemma S_until_w_ctx {A} (RA : A -> A -> Prop) stop stop' p p' : SimP tok_sim stop stop' -> SimP RA p p' ->
  SimP (pair_rel (Forall2 RA) (opt_rel tok_sim)) (until_w_ctx stop p) (until_w_ctx stop' p').
Proof.
  intros Hs Hp i i' c c' Hi Hc. unfold until_w_ctx. rewrite (inp_sim_len _ _ Hi). apply S_until_go; auto.
Qed.

Lemma S_until_strict_go {A} (RA : A -> A -> Prop) stop stop' p p' : SimP tok_sim stop stop' -> SimP RA p p' ->
  forall fuel acc acc', Forall2 RA acc acc' ->
    SimP (pair_rel (Forall2 RA) (opt_rel tok_sim))
         (until_strict_go fuel stop p acc) (until_strict_go fuel stop' p' acc').
Proof.
  intros Hs Hp. induction fuel as [|f IH]; intros acc acc' Ha i i' c c' Hi Hc; cbn [until_strict_go].
  - split; cbn [fst snd]; [constructor|assumption].
  - destruct (inp_sim_cases _ _ Hi) as [[-> ->]|(t & l & t' & l' & -> & ->)].
    + split; cbn [fst snd]; [constructor; [constructor|]|assumption].
      split; cbn [fst snd]; [apply F2_rev; assumption|constructor].
    + srunp Hs; try sfin.
      * split; cbn [fst snd]; [constructor; [assumption|]|assumption].
        split; cbn [fst snd]; [apply F2_rev; assumption|constructor; assumption].
      * srunp Hp; try sfin.
        apply IH; auto.
Qed.

Lemma S_until_strict {A} (RA : A -> A -> Prop) stop stop' p p' : SimP tok_sim stop stop' -> SimP RA p p' ->
  SimP (pair_rel (Forall2 RA) (opt_rel tok_sim)) (until_strict stop p) (until_strict stop' p').
Proof.
  intros Hs Hp i i' c c' Hi Hc. unfold until_strict. rewrite (inp_sim_len _ _ Hi). apply S_until_strict_go; auto.
Qed.

Lemma S_until_no_match_go {A} (RA : A -> A -> Prop) p p' : SimP RA p p' ->
  forall fuel acc acc', Forall2 RA acc acc' ->
    SimP (Forall2 RA) (until_no_match_go fuel p acc) (until_no_match_go fuel p' acc').
Proof.
  intros Hp. induction fuel as [|f IH]; intros acc acc' Ha i i' c c' Hi Hc; cbn [until_no_match_go].
  - split; cbn [fst snd]; [constructor|assumption].
  - destruct (inp_sim_cases _ _ Hi) as [[-> ->]|(t & l & t' & l' & -> & ->)].
    + split; cbn [fst snd]; [constructor; [constructor|apply F2_rev; assumption]|assumption].
    + srunp Hp; try sfin.
      * apply IH; auto.
      * split; cbn [fst snd]; [constructor; [assumption|apply F2_rev; assumption]|assumption].
Qed.

Lemma S_until_no_match {A} (RA : A -> A -> Prop) p p' :
  SimP RA p p' -> SimP (Forall2 RA) (until_no_match p) (until_no_match p').
Proof.
  intros Hp i i' c c' Hi Hc. unfold until_no_match. rewrite (inp_sim_len _ _ Hi). apply S_until_no_match_go; auto.
Qed.

(* ---------- memoisation ---------- *)

Lemma S_memo k p p' : SimP node_sim p p' -> SimP node_sim (memo k p) (memo k p').
Proof.
  intros Hp i i' c c' Hi Hc. unfold memo. cbv zeta. rewrite (ilen_sim _ _ Hi).
  destruct (get_cache_sim k (ilen i') c c' Hc) as [r r' Hr|]; [split; cbn [fst snd]; assumption|].
  srunp Hp; try sfin.
  - split; cbn [fst snd]; [constructor; assumption|]. apply set_cache_sim; [constructor|]; assumption.
  - split; cbn [fst snd]; [constructor; assumption|]. apply set_cache_sim; [constructor|]; assumption.
Qed.

Lemma S_memo_ok_only k p p' : SimP node_sim p p' -> SimP node_sim (memo_ok_only k p) (memo_ok_only k p').
Proof.
  intros Hp i i' c c' Hi Hc. unfold memo_ok_only. cbv zeta. rewrite (ilen_sim _ _ Hi).
  destruct (get_cache_sim k (ilen i') c c' Hc) as [r r' Hr|]; [split; cbn [fst snd]; assumption|].
  srunp Hp; try sfin.
  split; cbn [fst snd]; [constructor; assumption|]. apply set_cache_sim; [constructor|]; assumption.
Qed.

(* ---------- the combinators of Model/Grammar.v ---------- *)

Lemma mk_terminal_sim t t' : tok_sim t t' -> node_sim (mk_terminal t) (mk_terminal t').
Proof.
  intro H. unfold mk_terminal. apply node_sim_mk; [reflexivity|apply (ts_raw _ _ H)|apply (ts_range _ _ H)|apply (ts_val _ _ H)| |constructor].
  constructor; [|constructor]. split; [reflexivity|constructor; exact H].
Qed.

Lemma mk_binop_sim op op' l l' r r' : tok_sim op op' -> node_sim l l' -> node_sim r r' ->
  node_sim (mk_binop op l r) (mk_binop op' l' r').
Proof.
  intros Ho Hl Hr. unfold mk_binop. apply node_sim_mk; [reflexivity|apply node_sim_raw; exact Hl| |apply (ts_val _ _ Ho)| |].
  - rewrite (node_sim_range _ _ Hl), (node_sim_range _ _ Hr). reflexivity.
  - constructor; [|constructor]. split; [reflexivity|constructor; exact Ho].
  - repeat constructor; assumption.
Qed.

Lemma empty_after_dot_sim op op' e e' : tok_sim op op' -> inp_sim e e' ->
  node_sim (empty_after_dot op e) (empty_after_dot op' e').
Proof.
  intros Ho He. unfold empty_after_dot, tpos. cbv zeta. rewrite (ts_range _ _ Ho), (ts_raw _ _ Ho).
  destruct He as [|t t' l l' Ht _]; [apply node_sim_refl|]. rewrite (ts_range _ _ Ht). apply node_sim_refl.
Qed.

Lemma S_binops_go opp opp' ep ep' : SimP tok_sim opp opp' -> SimP node_sim ep ep' ->
  forall fuel l l', node_sim l l' -> SimP node_sim (binops_go fuel opp ep l) (binops_go fuel opp' ep' l').
Proof.
  intros Ho He. induction fuel as [|f IH]; intros l l' Hl i i' c c' Hi Hc; cbn [binops_go].
  - split; cbn [fst snd]; [constructor|assumption].
  - srunp Ho; try sfin.
    srunp He; try sfin.
    + apply IH; auto. apply mk_binop_sim; assumption.
    + match goal with H : tok_sim ?a ?a' |- context [tt_eqb (tty ?a) TDot] => rewrite (ts_ty _ _ H) end.
      match goal with |- context [if ?b then _ else _] => destruct b end.
      * apply IH; auto. apply mk_binop_sim; auto. apply empty_after_dot_sim; assumption.
      * split; cbn [fst snd]; [constructor; assumption|assumption].
Qed.

Lemma S_binops opp opp' ep ep' : SimP tok_sim opp opp' -> SimP node_sim ep ep' ->
  SimP node_sim (binops opp ep) (binops opp' ep').
Proof.
  intros Ho He i i' c c' Hi Hc. unfold binops. srunp He; try sfin.
  match goal with H : inp_sim ?r ?r' |- context [S (length ?r)] => rewrite (inp_sim_len _ _ H) end.
  apply S_binops_go; auto.
Qed.

Lemma S_on_slice {A} (RA : A -> A -> Prop) s s' p p' : inp_sim s s' -> SimP RA p p' ->
  SimP RA (on_slice s p) (on_slice s' p').
Proof.
  intros Hs Hp i i' c c' Hi Hc. unfold on_slice. srun (Hp s s' c c' Hs Hc); try sfin.
Qed.
