(* No parser changes the memoisation switch of its context (it is a parameter of the run). *)
From GoldV Require Import Base Tokens Lexer AstKinds Tree Strings PComb Grammar ParserWF GrammarWF GrammarRel.

Definition Mm {A} (p : P A) : Prop := forall i c, cmemo (snd (p i c)) = cmemo c.

Ltac mm_use H i c r c1 M1 :=
  lazymatch type of H with
  | Mm ?p => pose proof (H i c) as M1; destruct (p i c) as [r c1]; cbn [fst snd] in M1
  end.

Lemma Mm_pure {A} (p : P A) (f : input -> res A) : (forall i c, p i c = (f i, c)) -> Mm p.
Proof. intros H i c. rewrite H. reflexivity. Qed.

Lemma Mm_ret {A} (a : A) : Mm (ret a).
Proof. intros i c. reflexivity. Qed.
Lemma Mm_fail {A} m : Mm (@fail A m).
Proof. intros i c. reflexivity. Qed.
Lemma Mm_panic {A} s : Mm (fun (i : input) (c : ctx) => (@Panic A s, c)).
Proof. intros i c. reflexivity. Qed.
Lemma Mm_nofuel : Mm out_of_fuel.
Proof. intros i c. reflexivity. Qed.
Lemma Mm_exp_token ty : Mm (exp_token ty).
Proof. intros i c. reflexivity. Qed.
Lemma Mm_exp_ident v : Mm (exp_ident_with_value v).
Proof. intros i c. reflexivity. Qed.
Lemma Mm_take_until tys : Mm (take_until tys).
Proof. intros i c. unfold take_until. destruct (take_until_go tys i []) as [[a b] t]. reflexivity. Qed.

Lemma Mm_bind {A B} (p : P A) (k : A -> P B) : Mm p -> (forall a, Mm (k a)) -> Mm (bind p k).
Proof.
  intros Hp Hk i c. unfold bind. mm_use Hp i c r c1 M1.
  destruct r as [rest a|e m|s|]; cbn [snd]; try exact M1. rewrite Hk. exact M1.
Qed.

Lemma Mm_prepend {A} pre (p : P A) : Mm p -> Mm (prepend pre p).
Proof. intros Hp i c. unfold prepend. mm_use Hp i c r c1 M1. destruct r; exact M1. Qed.
Lemma Mm_rae {A} (p : P A) : Mm p -> Mm (recover_at_error p).
Proof. intros Hp i c. unfold recover_at_error. mm_use Hp i c r c1 M1. destruct r; exact M1. Qed.
Lemma Mm_opt {A} (p : P A) : Mm p -> Mm (opt p).
Proof. intros Hp i c. unfold opt. mm_use Hp i c r c1 M1. destruct r; exact M1. Qed.

Lemma Mm_alt_go {A} (ps : list (P A)) : Forall Mm ps -> forall best, Mm (alt_go ps best).
Proof.
  induction 1 as [|p ps Hp Hps IH]; intros best i c; cbn [alt_go].
  - destruct best as [[e m]|]; reflexivity.
  - mm_use Hp i c r c1 M1. destruct r as [rest a|e m|s|]; cbn [snd]; try exact M1. rewrite IH. exact M1.
Qed.
Lemma Mm_alt {A} (ps : list (P A)) : Forall Mm ps -> Mm (alt ps).
Proof. intro H. unfold alt. apply Mm_alt_go. exact H. Qed.

Lemma Mm_sep_tokens_go item sep fuel : forall acc, Mm (sep_tokens_go fuel item sep acc).
Proof.
  induction fuel as [|f IH]; intros acc i c; cbn [sep_tokens_go]; [reflexivity|].
  unfold exp_token. destruct (exp_token_go item i i) as [rest t|e m|s|]; try reflexivity.
  destruct (exp_token_go sep rest rest) as [rest2 t2|e m|s|]; try reflexivity. apply IH.
Qed.
Lemma Mm_sep_tokens item sep : Mm (sep_tokens item sep).
Proof. intros i c. unfold sep_tokens. apply Mm_sep_tokens_go. Qed.

Lemma Mm_sep_list_rec {A} (p : P A) sep : Mm p -> forall fuel prev acc, Mm (sep_list_rec fuel p sep prev acc).
Proof.
  intros Hp. induction fuel as [|f IH]; intros prev acc i c; cbn [sep_list_rec]; [reflexivity|].
  mm_use Hp i c r c1 M1. unfold exp_token.
  destruct r as [rest a|e m|s|]; cbn [snd]; try exact M1.
  - destruct (exp_token_go sep rest rest) as [rest2 t2|e2 m2|s|]; cbn [snd]; try exact M1. rewrite IH. exact M1.
  - destruct (exp_token_go sep e e) as [rest2 t2|e2 m2|s|]; cbn [snd]; try exact M1. rewrite IH. exact M1.
Qed.
Lemma Mm_sep_list {A} (p : P A) sep : Mm p -> Mm (sep_list p sep).
Proof.
  intros Hp i c. unfold sep_list. mm_use Hp i c r c1 M1. unfold exp_token.
  destruct r as [rest a|e m|s|]; cbn [snd]; try exact M1.
  destruct (exp_token_go sep rest rest) as [rest2 t2|e2 m2|s|]; cbn [snd]; try exact M1.
  rewrite Mm_sep_list_rec; auto.
Qed.

Lemma Mm_repeat_go {A} (p : P A) : Mm p -> forall fuel acc, Mm (repeat_go fuel p acc).
Proof.
  intros Hp. induction fuel as [|f IH]; intros acc i c; cbn [repeat_go]; [reflexivity|].
  destruct i as [|t i']; [reflexivity|].
  mm_use Hp (t :: i') c r c1 M1. destruct r as [rest a|e m|s|]; cbn [snd]; try exact M1; rewrite IH; exact M1.
Qed.
Lemma Mm_repeat {A} (p : P A) : Mm p -> Mm (repeat_w_ctx p).
Proof. intros Hp i c. unfold repeat_w_ctx. apply Mm_repeat_go; auto. Qed.

Lemma Mm_until_go {A} (stop : P tok) (p : P A) : Mm stop -> Mm p -> forall fuel acc, Mm (until_go fuel stop p acc).
Proof.
  intros Hs Hp. induction fuel as [|f IH]; intros acc i c; cbn [until_go]; [reflexivity|].
  destruct i as [|t i']; [reflexivity|].
  mm_use Hs (t :: i') c r0 c0 M0. destruct r0 as [rest0 t0|e0 m0|s|]; cbn [snd]; try exact M0.
  mm_use Hp (t :: i') c0 r c1 M1. rewrite <- M0.
  destruct r as [rest a|e m|s|]; cbn [snd]; try exact M1; rewrite IH; exact M1.
Qed.
Lemma Mm_until {A} (stop : P tok) (p : P A) : Mm stop -> Mm p -> Mm (until_w_ctx stop p).
Proof. intros Hs Hp i c. unfold until_w_ctx. apply Mm_until_go; auto. Qed.

Lemma Mm_until_strict_go {A} (stop : P tok) (p : P A) : Mm stop -> Mm p -> forall fuel acc, Mm (until_strict_go fuel stop p acc).
Proof.
  intros Hs Hp. induction fuel as [|f IH]; intros acc i c; cbn [until_strict_go]; [reflexivity|].
  destruct i as [|t i']; [reflexivity|].
  mm_use Hs (t :: i') c r0 c0 M0. destruct r0 as [rest0 t0|e0 m0|s|]; cbn [snd]; try exact M0.
  mm_use Hp (t :: i') c0 r c1 M1. rewrite <- M0.
  destruct r as [rest a|e m|s|]; cbn [snd]; try exact M1; rewrite IH; exact M1.
Qed.
Lemma Mm_until_strict {A} (stop : P tok) (p : P A) : Mm stop -> Mm p -> Mm (until_strict stop p).
Proof. intros Hs Hp i c. unfold until_strict. apply Mm_until_strict_go; auto. Qed.

Lemma Mm_until_no_match_go {A} (p : P A) : Mm p -> forall fuel acc, Mm (until_no_match_go fuel p acc).
Proof.
  intros Hp. induction fuel as [|f IH]; intros acc i c; cbn [until_no_match_go]; [reflexivity|].
  destruct i as [|t i']; [reflexivity|].
  mm_use Hp (t :: i') c r c1 M1. destruct r as [rest a|e m|s|]; cbn [snd]; try exact M1; rewrite IH; exact M1.
Qed.
Lemma Mm_until_no_match {A} (p : P A) : Mm p -> Mm (until_no_match p).
Proof. intros Hp i c. unfold until_no_match. apply Mm_until_no_match_go; auto. Qed.

Lemma Mm_binops_go (opp : P tok) (ep : P node) : Mm opp -> Mm ep -> forall fuel left, Mm (binops_go fuel opp ep left).
Proof.
  intros Ho He. induction fuel as [|f IH]; intros left i c; cbn [binops_go]; [reflexivity|].
  mm_use Ho i c r0 c0 M0. destruct r0 as [rest0 op|e0 m0|s|]; cbn [snd]; try exact M0.
  mm_use He rest0 c0 r c1 M1. rewrite <- M0.
  destruct r as [rest a|e m|s|]; cbn [snd]; try exact M1.
  - rewrite IH. exact M1.
  - destruct (tt_eqb (tty op) TDot); cbn [snd]; [rewrite IH|]; exact M1.
Qed.
Lemma Mm_binops (opp : P tok) (ep : P node) : Mm opp -> Mm ep -> Mm (binops opp ep).
Proof.
  intros Ho He i c. unfold binops. mm_use He i c r c1 M1.
  destruct r as [rest a|e m|s|]; cbn [snd]; try exact M1. rewrite Mm_binops_go; auto.
Qed.

Lemma Mm_memo k p : Mm p -> Mm (memo k p).
Proof.
  intros Hp i c. unfold memo. destruct (get_cache k (ilen i) c); [reflexivity|].
  mm_use Hp i c r c1 M1. destruct r; cbn [snd set_cache cmemo]; exact M1.
Qed.
Lemma Mm_memo_ok_only k p : Mm p -> Mm (memo_ok_only k p).
Proof.
  intros Hp i c. unfold memo_ok_only. destruct (get_cache k (ilen i) c); [reflexivity|].
  mm_use Hp i c r c1 M1. destruct r; cbn [snd set_cache cmemo]; exact M1.
Qed.

Lemma Mm_tok_alt tys : Mm (tok_alt tys).
Proof. unfold tok_alt. apply Mm_alt. induction tys; simpl; constructor; [apply Mm_exp_token|assumption]. Qed.

Lemma Mm_if_loop pe rs : Mm pe -> Mm rs -> forall fuel it cur done, Mm (if_loop pe rs fuel it cur done).
Proof.
  intros Hpe Hrs. induction fuel as [|f IH]; intros it cur done i c; cbn [if_loop]; [reflexivity|].
  destruct i as [|t0 i']; [reflexivity|].
  assert (Mm (until_w_ctx (tok_alt [TElseIf; TElse; TEndIf; TEnd]) rs)) as Hu
    by (apply Mm_until; [apply Mm_tok_alt|exact Hrs]).
  mm_use Hu (t0 :: i') c r c1 M1.
  destruct r as [rest [nodes endt]|e m|s|]; cbn [snd]; try exact M1.
  destruct endt as [t|].
  - destruct (tt_eqb (tty t) TEndIf || tt_eqb (tty t) TEnd); [exact M1|].
    destruct (tt_eqb (tty t) TElseIf).
    + mm_use Hpe rest c1 r2 c2 M2. rewrite <- M1.
      destruct r2 as [rest2 cond|e m|s|]; cbn [snd]; try exact M2. rewrite IH. exact M2.
    + destruct (tt_eqb (tty t) TElse); cbn [snd]; [rewrite IH|]; exact M1.
  - rewrite IH. exact M1.
Qed.

Lemma Mm_if_block pe rs : Mm pe -> Mm rs -> Mm (parse_if_block pe rs).
Proof.
  intros Hpe Hrs. unfold parse_if_block.
  apply Mm_bind; [apply Mm_exp_token|]. intro it.
  apply Mm_bind; [exact Hpe|]. intro cond.
  apply Mm_bind.
  - intros i c. apply Mm_if_loop; auto.
  - intros [[cur done] endt]. apply Mm_ret.
Qed.

Lemma Mm_try_blocks ps : Forall Mm ps -> forall best, Mm (try_blocks ps best).
Proof.
  induction 1 as [|p ps Hp Hps IH]; intros best i c; cbn [try_blocks]; [reflexivity|].
  mm_use Hp i c r c1 M1. destruct r as [rest a|e m|s|]; cbn [snd]; try exact M1. rewrite IH. exact M1.
Qed.

Lemma Mm_stmt_shape ps qs : Forall Mm ps -> Mm (alt qs) -> Mm (stmt_body_shape ps qs).
Proof.
  intros Hps Ha i c. unfold stmt_body_shape.
  mm_use (Mm_try_blocks ps Hps None) i c r c1 M1.
  destruct r as [rest [[nd|] best]|e m|s|]; cbn [snd]; try exact M1.
  mm_use Ha i c1 r2 c2 M2. rewrite <- M1.
  destruct r2 as [rest2 a2|e2 m2|s|]; cbn [snd]; try exact M2.
  destruct best as [[be bm]|]; [destruct (ilen e2 <? ilen be)|]; exact M2.
Qed.

Theorem gram_Mm : forall f,
  Mm (g_type (gram f)) /\ Mm (g_expr (gram f)) /\ Mm (g_primary (gram f)) /\ Mm (g_stmt (gram f)).
Proof.
  apply (gram_R (fun A => @Mm A)); intros.
  - apply Mm_ret. - apply Mm_fail. - apply Mm_panic. - apply Mm_nofuel.
  - apply Mm_bind; auto. - apply Mm_prepend; auto. - apply Mm_rae; auto. - apply Mm_opt; auto.
  - apply Mm_exp_token. - apply Mm_exp_ident. - apply Mm_take_until. - apply Mm_alt; auto.
  - apply Mm_sep_tokens. - apply Mm_sep_list; auto. - apply Mm_until; auto.
  - apply Mm_until_strict; auto. - apply Mm_until_no_match; auto. - apply Mm_binops; auto.
  - apply Mm_memo; auto.
  - apply Mm_if_block; auto. - apply Mm_stmt_shape; auto.
Qed.

Lemma Mm_parse_method_body g body : Mm (g_stmt g) -> Mm (parse_method_body g body).
Proof.
  intros Hs. unfold parse_method_body. destruct body as [|first rest]; [apply Mm_ret|].
  intros i c. unfold on_slice.
  match goal with |- context [bind (with_ctx clear_cache) ?k] => set (kk := k) end.
  assert (Mm (kk tt)) as Hk.
  { unfold kk. apply Mm_bind; [apply Mm_repeat; exact Hs|]. intro stmts. destruct stmts; apply Mm_ret. }
  unfold bind, with_ctx. pose proof (Hk (first :: rest) (clear_cache c)) as M.
  destruct (kk tt (first :: rest) (clear_cache c)) as [r c1]. cbn [snd] in *. destruct r; exact M.
Qed.
